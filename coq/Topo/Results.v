(* C04: every topology-creating operation (copy, subset, join with either keep_resSeq, repaired
   variants) returns a well-formed topology made of fresh objects and modifies nothing that
   existed, whatever the source looks like (only a successful run is assumed). *)
From Coq Require Import String Ascii.
From Coq Require Import List Arith ZArith Bool Lia Sorted Permutation.
Import ListNotations.
Require Import MD.Topo.Model MD.Topo.Basics MD.Topo.Build MD.Topo.AbsWalk MD.Topo.Copy MD.Topo.Subset
  MD.Topo.CarrierProofs MD.Topo.Join MD.Topo.Wf.
Open Scope nat_scope.

(* ------------------------------------------------------------------ numbering is normal *)
Lemma num_atoms_renum_id na l : renum_atoms na (num_atoms na l) = num_atoms na l.
Proof. revert na; induction l as [|d l IH]; intros na; [reflexivity|]. simpl. rewrite IH. reflexivity. Qed.
Lemma num_atoms_length na l : length (num_atoms na l) = length l.
Proof. revert na; induction l; intros; simpl; auto. Qed.
Lemma num_res_length nr na l : length (num_res nr na l) = length l.
Proof. revert nr na; induction l; intros; simpl; auto. Qed.
Lemma num_res_natoms nr na l : natoms_vres (num_res nr na l) = natoms_res l.
Proof.
  unfold natoms_vres, natoms_res. revert nr na; induction l as [|d l IH]; intros; [reflexivity|].
  simpl. rewrite num_atoms_length, IH. reflexivity.
Qed.
Lemma num_res_renum_id nr na l : renum_res nr na (num_res nr na l) = num_res nr na l.
Proof.
  revert nr na; induction l as [|d l IH]; intros nr na; [reflexivity|].
  simpl. rewrite num_atoms_length, num_atoms_renum_id, IH. reflexivity.
Qed.
Lemma num_chains_renum_id nc nr na l : renum_chains nc nr na (num_chains nc nr na l) = num_chains nc nr na l.
Proof.
  revert nc nr na; induction l as [|d l IH]; intros nc nr na; [reflexivity|].
  simpl. rewrite num_res_length, num_res_natoms, num_res_renum_id, IH. reflexivity.
Qed.
Lemma num_chains_app nc nr na l1 l2 :
  num_chains nc nr na (l1 ++ l2) =
  num_chains nc nr na l1 ++
  num_chains (nc + length l1) (nr + list_sum (map (fun d => length (dc_res d)) l1)) (na + natoms_desc l1) l2.
Proof.
  revert nc nr na; induction l1 as [|d l1 IH]; intros nc nr na; simpl.
  - unfold natoms_desc; simpl. rewrite !Nat.add_0_r. reflexivity.
  - rewrite IH. f_equal. unfold natoms_desc. simpl.
    replace (S nc + length l1) with (S (nc + length l1)) by lia.
    replace (nc + S (length l1)) with (S (nc + length l1)) by lia.
    replace (nr + length (dc_res d) + list_sum (map (fun d0 => length (dc_res d0)) l1))
      with (nr + (length (dc_res d) + list_sum (map (fun d0 => length (dc_res d0)) l1))) by lia.
    replace (na + natoms_res (dc_res d) + list_sum (map (fun d0 => natoms_res (dc_res d0)) l1))
      with (na + (natoms_res (dc_res d) + list_sum (map (fun d0 => natoms_res (dc_res d0)) l1))) by lia.
    reflexivity.
Qed.

(* ------------------------------------------------------------------ atoms of a list of chains, read through abs *)
Lemma abs_reswise_atoms h rs VR :
  mapM (abs_res h) rs = Some VR ->
  mapM (abs_atom h) (concat (map (ratoms h) rs)) = Some (concat (map vr_atoms VR)).
Proof.
  revert VR; induction rs as [|r rs IH]; intros VR H.
  - inversion H; subst. reflexivity.
  - apply mapM_cons_some in H. destruct H as [vr [Vr' [Hr [Hl ->]]]].
    unfold abs_res in Hr. inv_bind Hr. inv_bind Hr. inversion Hr; subst vr; clear Hr.
    simpl. unfold ratoms at 1. rewrite E. apply mapM_app; [exact E0 | apply IH; exact Hl].
Qed.

(* ------------------------------------------------------------------ normal abstraction + distinct locations => wf *)
Lemma nth_seq_eq {A} (f : A -> nat) (l : list A) i x : map f l = seq 0 (length l) -> nth_error l i = Some x -> f x = i.
Proof. intros Hm Hn. pose proof (nth_error_seq_idx f l 0 i x Hm Hn) as E. simpl in E. exact E. Qed.

Lemma wf_of_normal h t V :
  hwf h -> mapM (abs_chain h) (t_chains t) = Some V -> normal V ->
  NoDup (t_chains t) -> NoDup (chainwise_residues h (t_chains t)) -> NoDup (chainwise_atoms h (t_chains t)) ->
  t_residues t = chainwise_residues h (t_chains t) -> t_atoms t = chainwise_atoms h (t_chains t) ->
  t_numAtoms t = length (t_atoms t) -> t_numRes t = length (t_residues t) -> back_ok h t ->
  (forall b, In b (t_bonds t) -> In (b_a1 b) (t_atoms t) /\ In (b_a2 b) (t_atoms t) /\ order_ok (b_order b) = true) ->
  wf h t.
Proof.
  intros Hw HV Hn Nc Nr Na Er Ea C1 C2 Hb Bo.
  pose proof (abs_chainwise_res _ _ _ HV) as HR.
  pose proof (abs_reswise_atoms _ _ _ HR) as HA. rewrite <- cw_atoms_eq in HA.
  unfold normal in Hn.
  assert (Ic : map vc_index V = seq 0 (length V)) by (apply (renum_chains_fix 0 0 0); exact Hn).
  assert (Ir : map vr_index (concat (map vc_res V)) = seq 0 (length (concat (map vc_res V)))).
  { rewrite <- Hn at 1. rewrite renum_chains_res_idx. reflexivity. }
  assert (Ia : map va_index (concat (map vr_atoms (concat (map vc_res V)))) = seq 0 (length (concat (map vr_atoms (concat (map vc_res V)))))).
  { rewrite <- Hn at 1. rewrite renum_chains_idx. f_equal.
    rewrite <- (map_length va_index (concat (map vr_atoms (concat (map vc_res V))))). rewrite <- Hn at 2.
    rewrite renum_chains_idx, seq_length. reflexivity. }
  split.
  - exact Hw.
  - split; [exact Nc|]. intros i c Hi. destruct (mapM_nth _ _ _ _ _ HV Hi) as [vc [Hc Hnth]].
    unfold abs_chain in Hc. inv_bind Hc. inv_bind Hc. inversion Hc; subst vc; clear Hc.
    exists x. split; [exact E|]. apply (nth_seq_eq vc_index V i _ Ic) in Hnth. exact Hnth.
  - split; [exact Nr|]. split; [rewrite Er; reflexivity|]. intros i r Hi. rewrite Er in Hi.
    destruct (mapM_nth _ _ _ _ _ HR Hi) as [vr [Hr Hnth]].
    unfold abs_res in Hr. inv_bind Hr. inv_bind Hr. inversion Hr; subst vr; clear Hr.
    exists x. split; [exact E|]. apply (nth_seq_eq vr_index _ i _ Ir) in Hnth. exact Hnth.
  - split; [exact Na|]. split; [rewrite Ea; reflexivity|]. intros i l Hi. rewrite Ea in Hi.
    destruct (mapM_nth _ _ _ _ _ HA Hi) as [va [Ha Hnth]].
    unfold abs_atom in Ha. inv_bind Ha. inversion Ha; subst va; clear Ha.
    exists x. split; [exact E|]. apply (nth_seq_eq va_index _ i _ Ia) in Hnth. exact Hnth.
  - exact Hb.
  - split; assumption.
  - exact Bo.
Qed.

(* ------------------------------------------------------------------ a topology laid out by the builder *)
Definition laid (L : list (loc * (chain * list (resid * list (loc * atom))))) : Prop :=
  NoDup (map fst L) /\ NoDup (lay_chain_res L) /\ NoDup (map fst (lay_chain_atoms L)) /\
  normal (map (fun e => vchain_of (snd e)) L) /\
  (forall x a, In (x, a) (lay_chain_atoms L) -> In (a_res a) (lay_chain_res L)).

Lemma laid_layout n desc : laid (lay_chains n 0 0 0 desc).
Proof.
  split; [eapply sorted_in_nodup; apply lay_chains_locs_sorted|].
  split; [eapply sorted_in_nodup; apply lay_chain_res_sorted|].
  split; [eapply sorted_in_nodup; apply lay_chain_atoms_sorted|].
  split; [unfold normal; rewrite lay_chains_num; apply num_chains_renum_id|].
  intros x a. apply lay_chains_back.
Qed.

Lemma laid_wf h L t :
  hwf h -> laid L -> (forall x cw, In (x, cw) L -> walk_chain h x = Some cw) ->
  t_chains t = map fst L -> t_residues t = lay_chain_res L -> t_atoms t = map fst (lay_chain_atoms L) ->
  t_numAtoms t = length (t_atoms t) -> t_numRes t = length (t_residues t) ->
  (forall b, In b (t_bonds t) -> In (b_a1 b) (t_atoms t) /\ In (b_a2 b) (t_atoms t) /\ order_ok (b_order b) = true) ->
  wf h t /\ reach h t = map fst L ++ lay_chain_res L ++ lay_chain_res L ++ map fst (lay_chain_atoms L) ++
                        map fst (lay_chain_atoms L) ++ bond_ends t.
Proof.
  intros Hw [N1 [N2 [N3 [Nm Bk]]]] HLw Ec Er Ea C1 C2 Bo.
  destruct (chainwise_of_walk _ _ _ (walk_of_layout _ _ HLw)) as [CR CA].
  rewrite lay_chain_res_eq in CR. rewrite walk_atoms_layout in CA.
  split; [|unfold reach; rewrite Ec, Er, Ea, CR, CA; reflexivity].
  apply (wf_of_normal h t (map (fun e => vchain_of (snd e)) L)); rewrite ?Ec, ?CR, ?CA; try assumption.
  - rewrite (abs_chains_walk _ _ _ (walk_of_layout _ _ HLw)), map_map. reflexivity.
  - intros l a Hin G. rewrite Ea in Hin. rewrite Er. apply in_map_iff in Hin. destruct Hin as [[l' a'] [Heq Hin]]. simpl in Heq; subst l'.
    assert (get_a h l = Some a') by (eapply layout_atoms_get; eauto). assert (a' = a) by congruence. subst a'. eapply Bk; eauto.
Qed.

Lemma within_ge a b l x : within a b l -> In x l -> a <= x.
Proof. unfold within. rewrite Forall_forall. intros H Hin. apply H in Hin. lia. Qed.

Lemma layout_ge n nc nr na desc x :
  In x (map fst (lay_chains n nc nr na desc)) \/ In x (lay_chain_res (lay_chains n nc nr na desc)) \/
  In x (map fst (lay_chain_atoms (lay_chains n nc nr na desc))) -> n <= x.
Proof.
  intros [H|[H|H]].
  - eapply within_ge; [apply lay_chains_locs_within | exact H].
  - eapply within_ge; [apply lay_chain_res_within | exact H].
  - destruct (lay_chain_atoms_sorted n nc nr na desc) as [_ W]. eapply within_ge; eauto.
Qed.

(* ------------------------------------------------------------------ copy *)
Definition bonds_in (t : topo) (news : list loc) : Prop :=
  forall b, In b (t_bonds t) -> In (b_a1 b) news /\ In (b_a2 b) news /\ order_ok (b_order b) = true.

Lemma copy_layout h t h1 out :
  hwf h -> copy flags_fix h t = Some (h1, out) ->
  exists w, walk h t = Some w /\
    let L := lay_chains (h_next h) 0 0 0 (copy_desc true w) in
    hwf h1 /\ h_next h1 = h_next h + list_sum (map chain_size (copy_desc true w)) /\ agree (h_next h) h h1 /\
    (forall x cw, In (x, cw) L -> walk_chain h1 x = Some cw) /\
    t_chains out = map fst L /\ t_residues out = lay_chain_res L /\ t_atoms out = map fst (lay_chain_atoms L) /\
    t_numAtoms out = length (t_atoms out) /\ t_numRes out = length (t_residues out) /\
    bonds_in out (map fst (lay_chain_atoms L)).
Proof.
  intros Hw Hc. unfold copy in Hc. inv_bind Hc. rename x into w. inv_bind Hc. destruct x as [[h1' t1] news].
  inv_bind Hc. rename x into t2. inversion Hc; subst h1 out; clear Hc. simpl in E1.
  exists w. split; [exact E|].
  pose proof (build_chains_layout _ _ _ _ _ _ Hw E0) as HL. simpl in HL.
  set (L := lay_chains (h_next h) 0 0 0 (copy_desc true w)) in *.
  destruct HL as [Hw1 [Hn1 [Hnews [Ht1 [Hag HLw]]]]].
  destruct (add_bonds_mapped_ends h1' _ _ _ _ _ E1) as [[S1 [S2 [S3 [S4 S5]]]] [nb [Hnb Hends]]].
  assert (Ht1b : t_bonds t1 = []) by (rewrite Ht1; reflexivity). rewrite Ht1b in Hnb. simpl in Hnb.
  assert (Hsnd : forall x, In x (map snd (combine (map fst (walk_atoms w)) news)) -> In x news).
  { intros x Hx. apply in_map_iff in Hx. destruct Hx as [[k0 v0] [Heq Hx]]. simpl in Heq; subst v0. eapply in_combine_r; eauto. }
  simpl. split; [exact Hw1|]. split; [exact Hn1|]. split; [exact Hag|]. split; [exact HLw|].
  split; [rewrite S1, Ht1; reflexivity|]. split; [rewrite S2, Ht1; reflexivity|]. split; [rewrite S3, Ht1, Hnews; reflexivity|].
  split; [rewrite S4, S3, Ht1; reflexivity|]. split; [rewrite S5, S2, Ht1; reflexivity|].
  intros b Hb. rewrite Hnb in Hb. destruct (Hends b Hb) as [E1' [E2' E3']]. rewrite <- Hnews.
  split; [apply Hsnd; exact E1'|]. split; [apply Hsnd; exact E2' | exact E3'].
Qed.

Theorem copy_result h t h' t' :
  hwf h -> copy flags_fix h t = Some (h', t') ->
  wf h' t' /\ agree (h_next h) h h' /\ h_next h <= h_next h' /\ (forall l, In l (reach h' t') -> h_next h <= l).
Proof.
  intros Hw Hc. destruct (copy_layout h t h' t' Hw Hc) as [w [_ HL]]. simpl in HL.
  set (L := lay_chains (h_next h) 0 0 0 (copy_desc true w)) in *.
  destruct HL as [Hw1 [Hn1 [Hag [HLw [Ec [Er [Ea [C1 [C2 Bo]]]]]]]]].
  assert (Bo' : forall b, In b (t_bonds t') -> In (b_a1 b) (t_atoms t') /\ In (b_a2 b) (t_atoms t') /\ order_ok (b_order b) = true)
    by (rewrite Ea; exact Bo).
  destruct (laid_wf h' L t' Hw1 (laid_layout _ _) HLw Ec Er Ea C1 C2 Bo') as [Wf Re].
  split; [exact Wf|]. split; [exact Hag|]. split; [lia|].
  intros l Hin. rewrite Re in Hin.
  repeat (apply in_app_or in Hin; destruct Hin as [Hin|Hin]); try (apply (layout_ge (h_next h) 0 0 0 (copy_desc true w) l); fold L; tauto).
  unfold bond_ends in Hin. apply in_concat in Hin. destruct Hin as [e [He Hin]]. apply in_map_iff in He. destruct He as [b [<- Hb]].
  destruct (Bo b Hb) as [B1 [B2 _]].
  destruct Hin as [<-|[<-|[]]]; apply (layout_ge (h_next h) 0 0 0 (copy_desc true w)); fold L; tauto.
Qed.

(* ------------------------------------------------------------------ subset *)
Theorem subset_result h t keep h' t' :
  hwf h -> subset flags_fix h t keep = Some (h', t') ->
  wf h' t' /\ agree (h_next h) h h' /\ h_next h <= h_next h' /\ (forall l, In l (reach h' t') -> h_next h <= l).
Proof.
  intros Hw Hs.
  assert (exists w, walk h t = Some w) as [w Hwalk] by (unfold subset in Hs; destruct (walk h t); [eauto | discriminate]).
  destruct (subset_any_struct h t w keep h' t' Hw Hwalk Hs)
    as [Hw' [Hag [Hle [Hch [Nc [Hcin [Er [Ea [Ecr [Eca [C1 [C2 [Bk [Bo _]]]]]]]]]]]]]].
  set (L := lay_chains (h_next h) 0 0 0 (sdesc keep w)) in *.
  split.
  - apply (wf_of_normal h' t' (subset_chains keep (map vchain_of w))); try assumption.
    + unfold normal, subset_chains. apply renum_chains_idem.
    + rewrite Ecr. eapply sorted_in_nodup; apply lay_chain_res_sorted.
    + rewrite Eca. eapply sorted_in_nodup; apply lay_chain_atoms_sorted.
    + rewrite Ecr; exact Er.
    + rewrite Eca; exact Ea.
    + rewrite Ea. exact Bo.
  - split; [exact Hag|]. split; [exact Hle|].
    intros l Hin. unfold reach in Hin. rewrite Er, Ea, Ecr, Eca in Hin.
    repeat (apply in_app_or in Hin; destruct Hin as [Hin|Hin]);
      try (apply (layout_ge (h_next h) 0 0 0 (sdesc keep w) l); fold L; tauto).
    + apply Hcin in Hin. apply (layout_ge (h_next h) 0 0 0 (sdesc keep w) l); fold L; tauto.
    + unfold bond_ends in Hin. apply in_concat in Hin. destruct Hin as [e [He Hin]]. apply in_map_iff in He. destruct He as [b [<- Hb]].
      destruct (Bo b Hb) as [B1 [B2 _]].
      destruct Hin as [<-|[<-|[]]]; apply (layout_ge (h_next h) 0 0 0 (sdesc keep w)); fold L; tauto.
Qed.

(* ------------------------------------------------------------------ join (either keep_resSeq) *)
Lemma lay_chain_res_app L1 L2 : lay_chain_res (L1 ++ L2) = lay_chain_res L1 ++ lay_chain_res L2.
Proof. unfold lay_chain_res. rewrite map_app, concat_app. reflexivity. Qed.
Lemma lay_chain_atoms_app L1 L2 : lay_chain_atoms (L1 ++ L2) = lay_chain_atoms L1 ++ lay_chain_atoms L2.
Proof. unfold lay_chain_atoms. rewrite map_app, concat_app. reflexivity. Qed.

Lemma laid_join n d1 d2 :
  let L1 := lay_chains n 0 0 0 d1 in
  let L2 := lay_chains (n + list_sum (map chain_size d1)) (length (map fst L1)) (length (lay_chain_res L1))
                       (length (map fst (lay_chain_atoms L1))) d2 in
  laid (L1 ++ L2).
Proof.
  intros L1 L2. set (n1 := n + list_sum (map chain_size d1)) in *.
  assert (Hnc : length (map fst L1) = length d1) by (rewrite map_length; apply lay_chains_length).
  assert (Hnr : length (lay_chain_res L1) = list_sum (map (fun d => length (dc_res d)) d1)) by apply lay_chain_res_length.
  assert (Hna : length (map fst (lay_chain_atoms L1)) = natoms_desc d1) by (rewrite map_length; apply lay_chain_atoms_length).
  split; [|split; [|split; [|split]]].
  - rewrite map_app. eapply sorted_in_nodup. eapply (sorted_in_app n n1 (n1 + list_sum (map chain_size d2))); try lia;
      [apply lay_chains_locs_sorted | apply lay_chains_locs_sorted].
  - rewrite lay_chain_res_app. eapply sorted_in_nodup. eapply (sorted_in_app n n1 (n1 + list_sum (map chain_size d2))); try lia;
      [apply lay_chain_res_sorted | apply lay_chain_res_sorted].
  - rewrite lay_chain_atoms_app, map_app. eapply sorted_in_nodup.
    eapply (sorted_in_app n n1 (n1 + list_sum (map chain_size d2))); try lia; [apply lay_chain_atoms_sorted | apply lay_chain_atoms_sorted].
  - unfold normal. rewrite map_app. unfold L1, L2. rewrite !lay_chains_num. fold L1. rewrite Hnc, Hnr, Hna.
    pose proof (num_chains_app 0 0 0 d1 d2) as E. simpl in E. rewrite <- E. apply num_chains_renum_id.
  - intros x a Hin. rewrite lay_chain_atoms_app in Hin. rewrite lay_chain_res_app. apply in_app_or in Hin. apply in_or_app.
    destruct Hin as [Hin|Hin]; [left | right]; eapply lay_chains_back; eauto.
Qed.

Theorem join_result h t other keep h' t' :
  hwf h -> join flags_fix h t other keep = Some (h', t') ->
  wf h' t' /\ agree (h_next h) h h' /\ h_next h <= h_next h' /\ (forall l, In l (reach h' t') -> h_next h <= l).
Proof.
  intros Hw Hj. unfold join in Hj. inv_bind Hj. destruct x as [h1 out]. rename E into Hcopy. cbn [obind] in Hj.
  inv_bind Hj. rename x into start. inv_bind Hj. rename x into w2. inv_bind Hj. destruct x as [[h2 t2] news2]. rename E1 into Hbuild.
  inv_bind Hj. rename x into t3. rename E1 into Hadd. inversion Hj; subst h' t'; clear Hj.
  destruct (copy_layout h t h1 out Hw Hcopy) as [w [_ HL1]]. simpl in HL1.
  set (d1 := copy_desc true w) in *. set (L1 := lay_chains (h_next h) 0 0 0 d1) in *.
  destruct HL1 as [Hw1 [Hn1 [Hag1 [HLw1 [Ec1 [Er1 [Ea1 [C11 [C12 Bo1]]]]]]]]].
  change (f_cid_join flags_fix) with true in Hbuild.
  set (d2 := join_chains true keep start w2) in *.
  pose proof (build_chains_layout _ _ _ _ _ _ Hw1 Hbuild) as HL2. simpl in HL2.
  rewrite Ec1, C12, Er1, C11, Ea1, Hn1 in HL2.
  set (L2 := lay_chains (h_next h + list_sum (map chain_size d1)) (length (map fst L1)) (length (lay_chain_res L1))
                        (length (map fst (lay_chain_atoms L1))) d2) in *.
  destruct HL2 as [Hw2 [Hn2 [Hnews2 [Ht2 [Hag2 HLw2]]]]].
  destruct (add_bonds_mapped_ends h2 _ _ _ _ _ Hadd) as [[S1 [S2 [S3 [S4 S5]]]] [nb [Hnb Hends]]].
  assert (Hsnd : forall x, In x (map snd (combine (map fst (walk_atoms w2)) news2)) -> In x news2).
  { intros x Hx. apply in_map_iff in Hx. destruct Hx as [[k0 v0] [Heq Hx]]. simpl in Heq; subst v0. eapply in_combine_r; eauto. }
  assert (HLw : forall x cw, In (x, cw) (L1 ++ L2) -> walk_chain h2 x = Some cw).
  { intros x cw Hin. apply in_app_or in Hin. destruct Hin as [Hin|Hin]; [|apply HLw2; exact Hin].
    apply walk_chain_agree with (h := h1); [exact Hw1 | rewrite Hn1; exact Hag2 | apply HLw1; exact Hin]. }
  assert (Ec : t_chains t3 = map fst (L1 ++ L2)) by (rewrite S1, Ht2, map_app; simpl; rewrite Ec1; reflexivity).
  assert (Er : t_residues t3 = lay_chain_res (L1 ++ L2)) by (rewrite S2, Ht2, lay_chain_res_app; simpl; rewrite Er1; reflexivity).
  assert (Ea : t_atoms t3 = map fst (lay_chain_atoms (L1 ++ L2)))
    by (rewrite S3, Ht2, lay_chain_atoms_app, map_app; simpl; rewrite Ea1, Hnews2; reflexivity).
  assert (Bo : forall b, In b (t_bonds t3) -> In (b_a1 b) (t_atoms t3) /\ In (b_a2 b) (t_atoms t3) /\ order_ok (b_order b) = true).
  { intros b Hb. rewrite Hnb, Ht2 in Hb. simpl in Hb. rewrite Ea, lay_chain_atoms_app, map_app. apply in_app_or in Hb. destruct Hb as [Hb|Hb].
    - destruct (Bo1 b Hb) as [B1 [B2 B3]]. split; [apply in_or_app; left; exact B1|]. split; [apply in_or_app; left; exact B2 | exact B3].
    - destruct (Hends b Hb) as [B1 [B2 B3]]. rewrite <- Hnews2.
      split; [apply in_or_app; right; apply Hsnd; exact B1|]. split; [apply in_or_app; right; apply Hsnd; exact B2 | exact B3]. }
  destruct (laid_wf h2 (L1 ++ L2) t3 Hw2 (laid_join (h_next h) d1 d2) HLw Ec Er Ea) as [Wf Re].
  - rewrite S4, S3, Ht2. simpl. rewrite app_length, C11. reflexivity.
  - rewrite S5, S2, Ht2. simpl. rewrite app_length, C12. reflexivity.
  - exact Bo.
  - split; [exact Wf|]. split; [apply agree_trans with (h2 := h1); [exact Hag1 | eapply agree_le; [|exact Hag2]; lia]|]. split; [lia|].
    assert (G1 := fun l => layout_ge (h_next h) 0 0 0 d1 l).
    assert (G2 := fun l => layout_ge (h_next h + list_sum (map chain_size d1)) (length (map fst L1)) (length (lay_chain_res L1))
                                     (length (map fst (lay_chain_atoms L1))) d2 l).
    fold L1 in G1. fold L2 in G2.
    assert (G : forall l, In l (map fst (L1 ++ L2)) \/ In l (lay_chain_res (L1 ++ L2)) \/ In l (map fst (lay_chain_atoms (L1 ++ L2))) -> h_next h <= l).
    { intros l. rewrite map_app, lay_chain_res_app, lay_chain_atoms_app, map_app. intros [H|[H|H]]; apply in_app_or in H; destruct H as [H|H];
        first [apply G1; tauto | assert (h_next h + list_sum (map chain_size d1) <= l) by (apply G2; tauto); lia]. }
    intros l Hin. rewrite Re in Hin.
    repeat (apply in_app_or in Hin; destruct Hin as [Hin|Hin]); try (apply G; tauto).
    unfold bond_ends in Hin. apply in_concat in Hin. destruct Hin as [e [He Hin]]. apply in_map_iff in He. destruct He as [b [<- Hb]].
    destruct (Bo b Hb) as [B1 [B2 _]]. rewrite Ea in B1, B2. destruct Hin as [<-|[<-|[]]]; apply G; tauto.
Qed.
