(* C04: topologies decoded from a carrier (data frame, HDF5 JSON, PDB records): the builder
   numbers chains/residues/atoms 0,1,2,..., bonds are given by positions and oriented by index;
   only fresh objects are allocated. *)
From Coq Require Import String Ascii.
From Coq Require Import List Arith ZArith Bool Lia Sorted.
Import ListNotations.
Require Import MD.Topo.Model MD.Topo.Carriers MD.Topo.Run MD.Topo.Basics MD.Topo.Build MD.Topo.AbsWalk MD.Topo.Copy
  MD.Topo.Subset MD.Topo.CarrierProofs.
Open Scope nat_scope.

Definition orient (b : dbond) : vbond :=
  let '(i, j, ty, ord) := b in
  if i <? j then {| vb_i := i; vb_j := j; vb_type := ty; vb_order := ord |}
  else {| vb_i := j; vb_j := i; vb_type := ty; vb_order := ord |}.

Lemma add_bonds_pos_abs h atoms :
  (forall p x, nth_error atoms p = Some x -> exists a, get_a h x = Some a /\ a_index a = p) ->
  forall bs t t', add_bonds_pos h t atoms bs = Some t' ->
  same_but_bonds t t' /\ exists nb, t_bonds t' = t_bonds t ++ nb /\ mapM (abs_bond h) nb = Some (map orient bs) /\
                                     forall b, In b nb -> In (b_a1 b) atoms /\ In (b_a2 b) atoms.
Proof.
  intros Hidx. induction bs as [|[[[i j] ty] ord] bs IH]; intros t t' H.
  - simpl in H. inversion H; subst. split; [repeat split|]. exists []. rewrite app_nil_r. split; [reflexivity|].
    split; [reflexivity | intros ? []].
  - simpl in H. inv_bind H. rename x into x1. inv_bind H. rename x into x2. inv_bind H. rename x into t1.
    destruct (Hidx _ _ E) as [a1 [G1 I1]]. destruct (Hidx _ _ E0) as [a2 [G2 I2]].
    unfold add_bond in E1. destruct (negb (order_ok ord)); [discriminate|]. rewrite G1, G2 in E1. simpl in E1.
    inversion E1; subst t1; clear E1.
    match type of H with add_bonds_pos _ ?T _ _ = _ => set (t1 := T) in * end.
    destruct (IH t1 t' H) as [[S1 [S2 [S3 [S4 S5]]]] [nb [Hnb [Habs Hin]]]].
    split; [repeat split; assumption|].
    set (nb0 := if a_index a1 <? a_index a2 then {| b_a1 := x1; b_a2 := x2; b_type := ty; b_order := ord |}
                else {| b_a1 := x2; b_a2 := x1; b_type := ty; b_order := ord |}) in *.
    exists (nb0 :: nb). split; [rewrite Hnb; subst t1; simpl; rewrite <- app_assoc; reflexivity|].
    assert (In x1 atoms /\ In x2 atoms) as [M1 M2] by (split; eapply nth_error_In; eauto).
    split.
    + simpl. rewrite Habs. subst nb0. rewrite I1, I2. unfold abs_bond.
      destruct (i <? j); simpl; rewrite ?G1, ?G2; simpl; rewrite ?I1, ?I2; reflexivity.
    + intros b [<-|Hb]; [subst nb0; destruct (a_index a1 <? a_index a2); simpl; auto | apply Hin; exact Hb].
Qed.

Theorem build_from_abs h d h' t' :
  hwf h -> build_from h d = Some (h', t') ->
  abs h' t' = Some {| vt_chains := num_chains 0 0 0 (fst d); vt_bonds := map orient (snd d) |} /\
  agree (h_next h) h h' /\ hwf h' /\ (forall l, In l (reach h' t') -> h_next h <= l).
Proof.
  intros Hw H. unfold build_from in H. inv_bind H. destruct x as [[h1 t1] news]. inv_bind H. inversion H; subst h' t'; clear H.
  rename x into t2. rename E into Hbuild. rename E0 into Hadd.
  pose proof (build_chains_layout _ _ _ _ _ _ Hw Hbuild) as HL. simpl in HL.
  set (L := lay_chains (h_next h) 0 0 0 (fst d)) in *.
  destruct HL as [Hw1 [Hn1 [Hnews [Ht1 [Hag HLw]]]]].
  assert (Hidx : forall p x, nth_error news p = Some x -> exists a, get_a h1 x = Some a /\ a_index a = p).
  { intros p x Hp. rewrite Hnews in Hp. rewrite nth_error_map in Hp.
    destruct (nth_error (lay_chain_atoms L) p) as [[x' a]|] eqn:E; [|discriminate]. simpl in Hp. inversion Hp; subst x'.
    exists a. split; [eapply layout_atoms_get; eauto; eapply nth_error_In; eauto|].
    assert (Hi : map (fun x => a_index (snd x)) (lay_chain_atoms L) = seq 0 (length (lay_chain_atoms L))).
    { unfold L. rewrite lay_chains_idx, lay_chain_atoms_length. reflexivity. }
    apply (nth_error_seq_idx (fun x => a_index (snd x)) _ 0 p (x, a) Hi E). }
  destruct (add_bonds_pos_abs h1 news Hidx (snd d) t1 t2 Hadd) as [[S1 [S2 [S3 [S4 S5]]]] [nb [Hnb [Habs Hends]]]].
  assert (Ht1b : t_bonds t1 = []) by (rewrite Ht1; reflexivity). rewrite Ht1b in Hnb. simpl in Hnb.
  assert (Hc : t_chains t2 = map fst L) by (rewrite S1, Ht1; reflexivity).
  split.
  { unfold abs. rewrite Hc, Hnb, Habs. rewrite (abs_chains_walk _ _ _ (walk_of_layout _ _ HLw)).
    rewrite map_map. unfold L. rewrite lay_chains_num. reflexivity. }
  split; [exact Hag|]. split; [exact Hw1|].
  destruct (chainwise_of_walk _ _ _ (walk_of_layout _ _ HLw)) as [CR CA].
  rewrite lay_chain_res_eq in CR. rewrite walk_atoms_layout in CA.
  assert (B1 : forall l, In l (map fst L) -> h_next h <= l).
  { intros l Hin. pose proof (lay_chains_locs_within (h_next h) 0 0 0 (fst d)) as W.
    unfold within in W. rewrite Forall_forall in W. apply W in Hin. lia. }
  assert (B2 : forall l, In l (lay_chain_res L) -> h_next h <= l).
  { intros l Hin. pose proof (lay_chain_res_within (h_next h) 0 0 0 (fst d)) as W.
    unfold within in W. rewrite Forall_forall in W. apply W in Hin. lia. }
  assert (B3 : forall l, In l (map fst (lay_chain_atoms L)) -> h_next h <= l).
  { intros l Hin. destruct (lay_chain_atoms_sorted (h_next h) 0 0 0 (fst d)) as [_ W].
    unfold within in W. rewrite Forall_forall in W. apply W in Hin. lia. }
  intros l Hin. unfold reach in Hin. rewrite Hc, S2, S3, Ht1, CR, CA in Hin. simpl in Hin. rewrite <- Hnews in *.
  repeat (apply in_app_or in Hin; destruct Hin as [Hin|Hin]); auto.
  unfold bond_ends in Hin. apply in_concat in Hin. destruct Hin as [ends [He Hin]].
  apply in_map_iff in He. destruct He as [b [<- Hbin]]. rewrite Hnb in Hbin.
  destruct (Hends b Hbin) as [E1 E2]. destruct Hin as [<-|[<-|[]]]; auto.
Qed.
