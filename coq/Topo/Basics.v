(* C04: generic lemmas (option monad, mapM, store lookups) used by the Topo proofs. *)
From Coq Require Import String Ascii.
From Coq Require Import List Arith ZArith Bool Lia.
Import ListNotations.
Require Import MD.Topo.Model.
Open Scope nat_scope.

(* ------------------------------------------------------------------ option / mapM *)
Lemma obind_some {A B} (o : option A) (f : A -> option B) b :
  obind o f = Some b -> exists a, o = Some a /\ f a = Some b.
Proof. destruct o as [a|]; simpl; intros H; [exists a; auto | discriminate]. Qed.

Ltac inv_bind H :=
  let a := fresh "x" in let E := fresh "E" in
  apply obind_some in H; destruct H as [a [E H]].

Lemma mapM_nil {A B} (f : A -> option B) : mapM f [] = Some [].
Proof. reflexivity. Qed.

Lemma mapM_cons_some {A B} (f : A -> option B) a l bl :
  mapM f (a :: l) = Some bl -> exists b br, f a = Some b /\ mapM f l = Some br /\ bl = b :: br.
Proof.
  simpl. destruct (f a) as [b|]; [|discriminate]. destruct (mapM f l) as [br|]; [|discriminate].
  intros H; inversion H; subst. eauto.
Qed.

Lemma mapM_cons {A B} (f : A -> option B) a l b br :
  f a = Some b -> mapM f l = Some br -> mapM f (a :: l) = Some (b :: br).
Proof. intros H1 H2; simpl; rewrite H1, H2; reflexivity. Qed.

Lemma mapM_app {A B} (f : A -> option B) l1 l2 b1 b2 :
  mapM f l1 = Some b1 -> mapM f l2 = Some b2 -> mapM f (l1 ++ l2) = Some (b1 ++ b2).
Proof.
  revert b1; induction l1 as [|a l1 IH]; intros b1 H1 H2.
  - inversion H1; subst; exact H2.
  - apply mapM_cons_some in H1. destruct H1 as [b [br [Ha [Hl ->]]]].
    simpl. rewrite Ha. rewrite (IH br Hl H2). reflexivity.
Qed.

Lemma mapM_app_inv {A B} (f : A -> option B) l1 l2 bl :
  mapM f (l1 ++ l2) = Some bl ->
  exists b1 b2, mapM f l1 = Some b1 /\ mapM f l2 = Some b2 /\ bl = b1 ++ b2.
Proof.
  revert bl; induction l1 as [|a l1 IH]; intros bl H.
  - exists [], bl; auto.
  - simpl app in H. apply mapM_cons_some in H. destruct H as [b [br [Ha [Hl ->]]]].
    destruct (IH _ Hl) as [b1 [b2 [H1 [H2 ->]]]].
    exists (b :: b1), b2. split; [apply mapM_cons; auto | auto].
Qed.

Lemma mapM_ext_in {A B} (f g : A -> option B) l :
  (forall a, In a l -> f a = g a) -> mapM f l = mapM g l.
Proof.
  induction l as [|a l IH]; intros H; [reflexivity|].
  simpl. rewrite (H a (or_introl eq_refl)). rewrite IH; [reflexivity|]. intros; apply H; right; auto.
Qed.

Lemma mapM_length {A B} (f : A -> option B) l bl : mapM f l = Some bl -> length bl = length l.
Proof.
  revert bl; induction l as [|a l IH]; intros bl H.
  - inversion H; reflexivity.
  - apply mapM_cons_some in H. destruct H as [b [br [_ [Hl ->]]]]. simpl; f_equal; auto.
Qed.

Lemma mapM_map {A B C} (f : B -> option C) (g : A -> B) l : mapM f (map g l) = mapM (fun a => f (g a)) l.
Proof. induction l as [|a l IH]; [reflexivity|]. simpl. rewrite IH. reflexivity. Qed.

Lemma mapM_some_map {A B} (g : A -> B) l : mapM (fun a => Some (g a)) l = Some (map g l).
Proof. induction l as [|a l IH]; [reflexivity|]. simpl. rewrite IH. reflexivity. Qed.

Lemma mapM_fmap {A B C} (f : A -> option B) (g : B -> C) l bl :
  mapM f l = Some bl -> mapM (fun a => match f a with Some b => Some (g b) | None => None end) l = Some (map g bl).
Proof.
  revert bl; induction l as [|a l IH]; intros bl H.
  - inversion H; reflexivity.
  - apply mapM_cons_some in H. destruct H as [b [br [Ha [Hl ->]]]].
    simpl. rewrite Ha. rewrite (IH _ Hl). reflexivity.
Qed.

Lemma mapM_in {A B} (f : A -> option B) l bl a :
  mapM f l = Some bl -> In a l -> exists b, f a = Some b /\ In b bl.
Proof.
  revert bl; induction l as [|x l IH]; intros bl H Hin; [destruct Hin|].
  apply mapM_cons_some in H. destruct H as [b [br [Hx [Hl ->]]]].
  destruct Hin as [->|Hin].
  - exists b; split; [auto | left; auto].
  - destruct (IH _ Hl Hin) as [b' [H1 H2]]. exists b'; split; [auto | right; auto].
Qed.

Lemma mapM_nth {A B} (f : A -> option B) l bl i a :
  mapM f l = Some bl -> nth_error l i = Some a -> exists b, f a = Some b /\ nth_error bl i = Some b.
Proof.
  revert bl i; induction l as [|x l IH]; intros bl i H Hn; [destruct i; discriminate|].
  apply mapM_cons_some in H. destruct H as [b [br [Hx [Hl ->]]]].
  destruct i as [|i]; simpl in Hn.
  - inversion Hn; subst. exists b; auto.
  - apply (IH _ _ Hl Hn).
Qed.

(* ------------------------------------------------------------------ stores *)
Lemma lookup_cons {V} l k (v : V) s : lookup l ((k, v) :: s) = if Nat.eqb k l then Some v else lookup l s.
Proof. reflexivity. Qed.

Lemma get_a_set_a h l a l' : get_a (set_a h l a) l' = if Nat.eqb l l' then Some a else get_a h l'.
Proof. reflexivity. Qed.
Lemma get_r_set_a h l a l' : get_r (set_a h l a) l' = get_r h l'. Proof. reflexivity. Qed.
Lemma get_c_set_a h l a l' : get_c (set_a h l a) l' = get_c h l'. Proof. reflexivity. Qed.
Lemma get_r_set_r h l r l' : get_r (set_r h l r) l' = if Nat.eqb l l' then Some r else get_r h l'.
Proof. reflexivity. Qed.
Lemma get_a_set_r h l r l' : get_a (set_r h l r) l' = get_a h l'. Proof. reflexivity. Qed.
Lemma get_c_set_r h l r l' : get_c (set_r h l r) l' = get_c h l'. Proof. reflexivity. Qed.
Lemma get_c_set_c h l c l' : get_c (set_c h l c) l' = if Nat.eqb l l' then Some c else get_c h l'.
Proof. reflexivity. Qed.
Lemma get_a_set_c h l c l' : get_a (set_c h l c) l' = get_a h l'. Proof. reflexivity. Qed.
Lemma get_r_set_c h l c l' : get_r (set_c h l c) l' = get_r h l'. Proof. reflexivity. Qed.
Lemma get_a_bump h l : get_a (bump h) l = get_a h l. Proof. reflexivity. Qed.
Lemma get_r_bump h l : get_r (bump h) l = get_r h l. Proof. reflexivity. Qed.
Lemma get_c_bump h l : get_c (bump h) l = get_c h l. Proof. reflexivity. Qed.
Lemma next_set_a h l a : h_next (set_a h l a) = h_next h. Proof. reflexivity. Qed.
Lemma next_set_r h l r : h_next (set_r h l r) = h_next h. Proof. reflexivity. Qed.
Lemma next_set_c h l c : h_next (set_c h l c) = h_next h. Proof. reflexivity. Qed.
Lemma next_bump h : h_next (bump h) = S (h_next h). Proof. reflexivity. Qed.

Lemma lookup_none {V} (s : list (loc * V)) n l :
  Forall (fun kv => fst kv < n) s -> n <= l -> lookup l s = None.
Proof.
  induction s as [|[k v] s IH]; intros F Hl; [reflexivity|].
  inversion F; subst. simpl in *. replace (Nat.eqb k l) with false by (symmetry; apply Nat.eqb_neq; lia).
  apply IH; auto.
Qed.

(* a checkable sufficient condition for [hwf] (used for concrete heaps) *)
Definition hwfb (h : heap) : bool :=
  forallb (fun kv => fst kv <? h_next h) (h_atoms h) && forallb (fun kv => fst kv <? h_next h) (h_res h) &&
  forallb (fun kv => fst kv <? h_next h) (h_chains h).

Lemma hwfb_sound h : hwfb h = true ->
  forall l, h_next h <= l -> get_a h l = None /\ get_r h l = None /\ get_c h l = None.
Proof.
  unfold hwfb. intros H l Hl. apply andb_prop in H. destruct H as [H H3]. apply andb_prop in H. destruct H as [H1 H2].
  assert (F : forall V (s : list (loc * V)), forallb (fun kv => fst kv <? h_next h) s = true ->
                                            Forall (fun kv => fst kv < h_next h) s).
  { intros V s Hs. apply Forall_forall. intros x Hx. rewrite forallb_forall in Hs. apply Nat.ltb_lt. apply Hs. exact Hx. }
  unfold get_a, get_r, get_c.
  repeat split; eapply lookup_none; eauto.
Qed.

#[global] Opaque get_a get_r get_c set_a set_r set_c bump.

Ltac heap_simpl :=
  repeat (rewrite ?get_a_set_a, ?get_r_set_a, ?get_c_set_a, ?get_r_set_r, ?get_a_set_r, ?get_c_set_r,
                  ?get_c_set_c, ?get_a_set_c, ?get_r_set_c, ?get_a_bump, ?get_r_bump, ?get_c_bump,
                  ?next_set_a, ?next_set_r, ?next_set_c, ?next_bump in *).

(* every object lives below the allocation pointer *)
Definition hwf (h : heap) : Prop :=
  forall l, h_next h <= l -> get_a h l = None /\ get_r h l = None /\ get_c h l = None.

Lemma hwfb_hwf h : hwfb h = true -> hwf h.
Proof. exact (hwfb_sound h). Qed.

Lemma hwf_empty : hwf empty_heap.
Proof. intros l _. repeat split; reflexivity. Qed.

(* h' agrees with h on every location below n *)
Definition agree (n : nat) (h h' : heap) : Prop :=
  forall l, l < n -> get_a h' l = get_a h l /\ get_r h' l = get_r h l /\ get_c h' l = get_c h l.

Lemma agree_refl n h : agree n h h.
Proof. intros l _; auto. Qed.
Lemma agree_trans n h1 h2 h3 : agree n h1 h2 -> agree n h2 h3 -> agree n h1 h3.
Proof.
  intros H1 H2 l Hl. destruct (H1 l Hl) as [A [B C]]. destruct (H2 l Hl) as [A' [B' C']].
  repeat split; congruence.
Qed.
Lemma agree_le n m h h' : m <= n -> agree n h h' -> agree m h h'.
Proof. intros Hle H l Hl. apply H. lia. Qed.

Lemma eqb_false_lt a b : b < a -> Nat.eqb a b = false.
Proof. intros; apply Nat.eqb_neq; lia. Qed.
Lemma eqb_false_gt a b : a < b -> Nat.eqb a b = false.
Proof. intros; apply Nat.eqb_neq; lia. Qed.
Lemma eqb_false_ne a b : a <> b -> Nat.eqb a b = false.
Proof. intros; apply Nat.eqb_neq; auto. Qed.

(* residue back pointers of t's atoms stay inside t *)
Definition back_ok (h : heap) (t : topo) : Prop :=
  forall l a, In l (t_atoms t) -> get_a h l = Some a -> In (a_res a) (t_residues t).
