(* C04: Topology.__eq__ (as a function [teq] of the chain-wise value) is an equivalence relation; on
   every topology reachable by a history it implies equal (repaired) hash; copies, full subsets and
   pickle round trips compare equal to their source. *)
From Coq Require Import String Ascii.
From Coq Require Import List Arith ZArith Bool Lia Sorted Permutation.
Import ListNotations.
Require Import MD.Topo.Model MD.Topo.Carriers MD.Topo.Run MD.Topo.Basics MD.Topo.Build MD.Topo.AbsWalk MD.Topo.Copy
  MD.Topo.EqHash MD.Topo.Subset MD.Topo.CarrierProofs MD.Topo.Frame MD.Topo.Wf MD.Topo.Results MD.Topo.Inv.
Open Scope nat_scope.

(* ------------------------------------------------------------------ what == looks at *)
Definition atom_view (a : vatom) := (va_index a, va_name a, va_elem a).
Definition res_view (r : vres) := (vr_name r, map atom_view (vr_atoms r)).
Definition chain_view (c : vchain) := (vc_index c, map res_view (vc_res c)).
Definition eqview (v : vtop) := (map chain_view (vt_chains v), length (vt_bonds v), sorted_bond_keys v).

Lemma list_eqb_iff_map {A B} (e : A -> A -> bool) (f : A -> B) :
  (forall x y, e x y = true <-> f x = f y) -> forall a b, list_eqb e a b = true <-> map f a = map f b.
Proof.
  intros He. induction a as [|x a IH]; intros [|y b]; simpl; split; intros H; try discriminate; try reflexivity.
  - apply andb_prop in H. destruct H as [H1 H2]. f_equal; [apply He; exact H1 | apply IH; exact H2].
  - inversion H. apply andb_true_intro. split; [apply He; assumption | apply IH; assumption].
Qed.

Lemma atom_eq_iff a b : vatom_eq_eqb a b = true <-> atom_view a = atom_view b.
Proof.
  unfold vatom_eq_eqb, atom_view. split; intros H.
  - apply andb_prop in H. destruct H as [H H3]. apply andb_prop in H. destruct H as [H1 H2].
    apply Nat.eqb_eq in H1. apply String.eqb_eq in H2, H3. congruence.
  - inversion H. rewrite Nat.eqb_refl, !String.eqb_refl. reflexivity.
Qed.
Lemma res_eq_iff a b : vres_eq_eqb a b = true <-> res_view a = res_view b.
Proof.
  unfold vres_eq_eqb, res_view. split; intros H.
  - apply andb_prop in H. destruct H as [H1 H2]. apply String.eqb_eq in H1. apply (list_eqb_iff_map _ atom_view atom_eq_iff) in H2. congruence.
  - inversion H. rewrite String.eqb_refl. simpl. apply (list_eqb_iff_map _ atom_view atom_eq_iff). assumption.
Qed.
Lemma chain_eq_iff a b : vchain_eq_eqb a b = true <-> chain_view a = chain_view b.
Proof.
  unfold vchain_eq_eqb, chain_view. split; intros H.
  - apply andb_prop in H. destruct H as [H1 H2]. apply Nat.eqb_eq in H1. apply (list_eqb_iff_map _ res_view res_eq_iff) in H2. congruence.
  - inversion H. rewrite Nat.eqb_refl. simpl. apply (list_eqb_iff_map _ res_view res_eq_iff). assumption.
Qed.
Lemma key_eq_iff x y : key_eqb x y = true <-> x = y.
Proof.
  split; [apply key_eqb_eq|]. intros ->. destruct y as [[[a b] c] d]. simpl. rewrite !Nat.eqb_refl. reflexivity.
Qed.

Theorem teq_iff a b : teq a b = true <-> eqview a = eqview b.
Proof.
  unfold teq, eqview. split; intros H.
  - apply andb_prop in H. destruct H as [H H3]. apply andb_prop in H. destruct H as [H1 H2].
    apply (list_eqb_iff_map _ chain_view chain_eq_iff) in H1. apply Nat.eqb_eq in H2.
    apply (list_eqb_iff_map _ (fun x => x) key_eq_iff) in H3. rewrite !map_id in H3. congruence.
  - injection H as H1 H2 H3. apply andb_true_intro. split; [apply andb_true_intro; split|].
    + apply (list_eqb_iff_map _ chain_view chain_eq_iff). exact H1.
    + apply Nat.eqb_eq. exact H2.
    + apply (list_eqb_iff_map _ (fun x => x) key_eq_iff). rewrite !map_id. exact H3.
Qed.

(* == is an equivalence relation (on all topologies) *)
Theorem teq_refl a : teq a a = true.
Proof. apply teq_iff. reflexivity. Qed.
Theorem teq_sym a b : teq a b = true -> teq b a = true.
Proof. intros H. apply teq_iff. symmetry. apply teq_iff. exact H. Qed.
Theorem teq_trans a b c : teq a b = true -> teq b c = true -> teq a c = true.
Proof. intros H1 H2. apply teq_iff. transitivity (eqview b); apply teq_iff; assumption. Qed.

(* ------------------------------------------------------------------ hash hypotheses hold for well-formed topologies *)
Lemma mapM_indexed h ls : (forall i l, nth_error ls i = Some l -> exists a, get_a h l = Some a /\ a_index a = i) ->
  forall k, (forall i l, nth_error ls i = Some l -> exists a, get_a h l = Some a /\ a_index a = k + i) ->
  mapM (fun l => a <- get_a h l ;; Some (a_index a)) ls = Some (seq k (length ls)).
Proof.
  intros _. induction ls as [|x ls IH]; intros k H; [reflexivity|].
  simpl. destruct (H 0 x eq_refl) as [a [G I]]. rewrite G. simpl. rewrite (IH (S k)).
  - rewrite I, Nat.add_0_r. reflexivity.
  - intros i l Hi. destruct (H (S i) l Hi) as [a' [G' I']]. exists a'. split; [exact G' | lia].
Qed.

Lemma abs_atoms_length h t v : abs h t = Some v -> length (v_atoms v) = length (chainwise_atoms h (t_chains t)).
Proof.
  intros Ha. unfold abs in Ha. inv_bind Ha. inv_bind Ha. inversion Ha; subst v; clear Ha.
  pose proof (abs_reswise_atoms _ _ _ (abs_chainwise_res _ _ _ E)) as HA. rewrite <- cw_atoms_eq in HA.
  unfold v_atoms, v_residues. simpl. eapply mapM_length. exact HA.
Qed.

Lemma wf_hash_hyps h t v : wf h t -> abs h t = Some v -> atoms_indexed h t v /\ Forall vbond_ok (vt_bonds v).
Proof.
  intros W Ha. split.
  - unfold atoms_indexed. rewrite (abs_atoms_length h t v Ha).
    destruct (wf_atoms _ _ W) as [_ [P I]]. rewrite <- (Permutation_length P).
    apply mapM_indexed; [exact I | exact I].
  - unfold abs in Ha. inv_bind Ha. inv_bind Ha. inversion Ha; subst v; clear Ha. simpl.
    assert (G : forall bs vs, (forall b, In b bs -> order_ok (b_order b) = true) -> mapM (abs_bond h) bs = Some vs -> Forall vbond_ok vs).
    { induction bs as [|b bs IH]; intros vs Hb Hm; [inversion Hm; constructor|].
      apply mapM_cons_some in Hm. destruct Hm as [vb [vr [Hvb [Hl ->]]]]. constructor; [|apply IH; [intros; apply Hb; right; auto | exact Hl]].
      unfold abs_bond in Hvb. inv_bind Hvb. inv_bind Hvb. inversion Hvb; subst vb. unfold vbond_ok; simpl.
      specialize (Hb b (or_introl eq_refl)). unfold order_ok in Hb. destruct (b_order b) as [n|]; [|exact I].
      apply andb_prop in Hb. destruct Hb as [Hb _]. apply Nat.leb_le in Hb. exact Hb. }
    apply (G (t_bonds t)); [|exact E0]. intros b Hb. destruct (wf_bonds _ _ W b Hb) as [_ [_ H]]. exact H.
Qed.

(* on the topologies reachable by any history, == implies equal hash *)
Theorem eq_hash_reachable ops i j ti tj va vb ka kb :
  forallb hist_op ops = true ->
  let st := run flags_fix ops in
  nth_error (st_tops st) i = Some ti -> nth_error (st_tops st) j = Some tj ->
  abs (st_heap st) ti = Some va -> abs (st_heap st) tj = Some vb ->
  hash_keys flags_fix (st_heap st) ti = Some ka -> hash_keys flags_fix (st_heap st) tj = Some kb ->
  teq va vb = true -> xor_equal ka kb = true.
Proof.
  intros Hops st Hi Hj Aa Ab Ka Kb Heq.
  pose proof (wf_inv ops i ti Hops Hi) as Wi. pose proof (wf_inv ops j tj Hops Hj) as Wj.
  destruct (wf_hash_hyps _ _ _ Wi Aa) as [I1 B1]. destruct (wf_hash_hyps _ _ _ Wj Ab) as [I2 B2].
  exact (eq_hash_fix (st_heap st) ti tj va vb ka kb Aa Ab I1 I2 B1 B2 Ka Kb Heq).
Qed.

(* ------------------------------------------------------------------ == is preserved: copy *)
Theorem copy_eq h t h' t' v :
  wfo h t -> abs h t = Some v -> copy flags_fix h t = Some (h', t') ->
  abs h' t = Some v /\ exists v', abs h' t' = Some v' /\ teq v v' = true /\ teq v' v = true.
Proof.
  intros W Ha Hc. pose proof (copy_abs h t h' t' W Hc) as E. pose proof (copy_frame h t h' t' W Hc) as Ag.
  assert (E' : abs h' t = abs h t).
  { apply (abs_agree_on h h' t). intros l Hl. apply Ag. eapply wfo_reach_lt; eauto. }
  split; [congruence|]. exists v. split; [congruence|]. split; apply teq_refl.
Qed.

(* ------------------------------------------------------------------ == is preserved: subset of all atoms *)
Lemma pos_of_seq0 i n : i < n -> pos_of i (seq 0 n) 0 = Some i.
Proof.
  intros H. apply (pos_of_nth (seq 0 n) (seq_NoDup n 0) i i 0).
  rewrite nth_error_nth' with (d := 0) by (rewrite seq_length; exact H). rewrite seq_nth by exact H. reflexivity.
Qed.

Definition no_empty (v : vtop) : Prop :=
  forall c, In c (vt_chains v) -> vc_res c <> [] /\ forall r, In r (vc_res c) -> vr_atoms r <> [].

Lemma filter_all {A} (p : A -> bool) l : (forall x, In x l -> p x = true) -> filter p l = l.
Proof. apply filter_all_true. Qed.

Theorem subset_v_all keep v :
  normal (vt_chains v) -> no_empty v ->
  (forall a, In a (v_atoms v) -> keepb keep a = true) ->
  (forall b, In b (vt_bonds v) -> vb_i b < length (v_atoms v) /\ vb_j b < length (v_atoms v)) ->
  subset_v keep v = v.
Proof.
  intros Hn Hne Hk Hb. destruct v as [cs bs]. unfold subset_v. simpl in *. f_equal.
  - unfold subset_chains.
    assert (E : map (sub_chain keep) cs = cs).
    { unfold v_atoms, v_residues in Hk. simpl in Hk. clear Hn Hb. induction cs as [|c cs IH]; [reflexivity|].
      simpl. f_equal.
      - destruct c as [ci cid rs]. unfold sub_chain. simpl. f_equal.
        destruct (Hne _ (or_introl eq_refl)) as [_ Hr]. simpl in Hr.
        assert (Hk' : forall a, In a (concat (map vr_atoms rs)) -> keepb keep a = true).
        { intros a Ha. apply Hk. simpl. rewrite map_app, concat_app. apply in_or_app. left. exact Ha. }
        clear - Hr Hk'. induction rs as [|r rs IHr]; [reflexivity|]. simpl.
        assert (F : filter (keepb keep) (vr_atoms r) = vr_atoms r).
        { apply filter_all. intros a Ha. apply Hk'. simpl. apply in_or_app. left. exact Ha. }
        unfold sub_res at 1. rewrite F. specialize (Hr r (or_introl eq_refl)) as Hr0.
        destruct (vr_atoms r) eqn:Ea; [contradiction|]. simpl. rewrite <- Ea. f_equal; [destruct r; simpl in *; reflexivity|].
        apply IHr; [intros; apply Hr; right; auto | intros a0 Ha0; apply Hk'; simpl; apply in_or_app; right; exact Ha0].
      - apply IH; [intros c' Hc'; apply Hne; right; exact Hc' | intros a Ha; apply Hk; simpl; rewrite map_app, concat_app; apply in_or_app; right; exact Ha]. }
    rewrite E. rewrite (filter_all has_res cs); [exact Hn|].
    intros c Hc. destruct (Hne c Hc) as [H _]. unfold has_res. destruct (vc_res c); [contradiction | reflexivity].
  - unfold subset_bonds. simpl.
    assert (Er : forall i, i < length (v_atoms {| vt_chains := cs; vt_bonds := bs |}) -> rank keep {| vt_chains := cs; vt_bonds := bs |} i = Some i).
    { intros i Hi. unfold rank. rewrite (filter_all _ _ Hk).
      assert (Ei : map va_index (v_atoms {| vt_chains := cs; vt_bonds := bs |}) = seq 0 (length (v_atoms {| vt_chains := cs; vt_bonds := bs |}))).
      { unfold v_atoms, v_residues. simpl. unfold normal in Hn. rewrite <- Hn at 1. rewrite renum_chains_idx. f_equal.
        rewrite <- (map_length va_index (concat (map vr_atoms (concat (map vc_res cs))))). rewrite <- Hn at 2.
        rewrite renum_chains_idx, seq_length. reflexivity. }
      rewrite Ei. apply pos_of_seq0. exact Hi. }
    set (vv := {| vt_chains := cs; vt_bonds := bs |}) in *.
    assert (G : forall l, (forall b, In b l -> vb_i b < length (v_atoms vv) /\ vb_j b < length (v_atoms vv)) ->
                somes (map (fun b => match rank keep vv (vb_i b), rank keep vv (vb_j b) with
                                     | Some i, Some j => Some {| vb_i := i; vb_j := j; vb_type := vb_type b; vb_order := vb_order b |}
                                     | _, _ => None end) l) = l).
    { induction l as [|b l IH]; intros Hl; [reflexivity|]. simpl.
      destruct (Hl b (or_introl eq_refl)) as [B1 B2]. rewrite (Er _ B1), (Er _ B2). simpl. f_equal; [destruct b; reflexivity|].
      apply IH. intros b' Hb'. apply Hl. right. exact Hb'. }
    apply G. exact Hb.
Qed.

Theorem subset_all_eq h t keep h' t' v :
  wfo h t -> abs h t = Some v -> no_empty v ->
  (forall a, In a (v_atoms v) -> keepb keep a = true) ->
  (forall b, In b (vt_bonds v) -> vb_i b < length (v_atoms v) /\ vb_j b < length (v_atoms v)) ->
  subset flags_fix h t keep = Some (h', t') ->
  abs h' t' = Some v /\ teq v v = true.
Proof.
  intros W Ha Hne Hk Hb Hs. split; [|apply teq_refl].
  rewrite (subset_abs h t keep h' t' v W Ha Hs). f_equal. apply subset_v_all; try assumption.
  destruct W as [_ _ [w [Hwalk [Hn _]]]]. unfold abs in Ha. unfold walk in Hwalk. rewrite (abs_chains_walk _ _ _ Hwalk) in Ha.
  simpl in Ha. inv_bind Ha. inversion Ha; subst v. exact Hn.
Qed.
