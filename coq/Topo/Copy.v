(* C04: Topology.copy() (repaired variant) preserves the abstraction, allocates only fresh
   objects and leaves everything that existed untouched; the as-found variant does not. *)
From Coq Require Import String Ascii.
From Coq Require Import List Arith ZArith Bool Lia Sorted.
Import ListNotations.
Require Import MD.Topo.Model MD.Topo.Basics MD.Topo.Build MD.Topo.AbsWalk.
Open Scope nat_scope.

(* ------------------------------------------------------------------ reading the layout back *)
Lemma mapM_pairs {A B} (f : A -> option B) (L : list (A * B)) :
  (forall x y, In (x, y) L -> f x = Some y) -> mapM f (map fst L) = Some (map snd L).
Proof.
  induction L as [|[x y] L IH]; intros H; [reflexivity|].
  simpl. rewrite (H x y (or_introl eq_refl)). rewrite IH; [reflexivity|]. intros; apply H; right; auto.
Qed.

Lemma walk_chain_atoms h x cw l a :
  walk_chain h x = Some cw -> In (l, a) (concat (map snd (snd cw))) -> get_a h l = Some a.
Proof.
  unfold walk_chain. intros H Hin. inv_bind H. inv_bind H. inversion H; subst cw; clear H. simpl in Hin.
  apply in_concat in Hin. destruct Hin as [A [HA Hin]]. apply in_map_iff in HA. destruct HA as [[r A'] [Heq HA]].
  simpl in Heq; subst A'.
  assert (exists rl, In rl (c_res x0) /\ walk_res h rl = Some (r, A)) as [rl [_ Hw]].
  { clear E. revert x1 E0 HA. generalize (c_res x0). induction l0 as [|y l0 IH]; intros x1 E0 HA.
    - inversion E0; subst. destruct HA.
    - apply mapM_cons_some in E0. destruct E0 as [b [br [Hb [Hl ->]]]].
      destruct HA as [->|HA]; [exists y; split; [left; auto | exact Hb]|].
      destruct (IH _ Hl HA) as [rl [H1 H2]]. exists rl; split; [right; auto | exact H2]. }
  apply walk_res_inv in Hw. destruct Hw as [_ [_ H3]]. apply H3. exact Hin.
Qed.

(* the k-th atom created by a build has index na + k *)
Lemma lay_atoms_idx n r na l : map (fun x => a_index (snd x)) (lay_atoms n r na l) = seq na (length l).
Proof. revert n na; induction l as [|d l IH]; intros n na; [reflexivity|]. simpl. rewrite IH. reflexivity. Qed.

Lemma lay_res_idx n c nr na l :
  map (fun x => a_index (snd x)) (lay_res_atoms (lay_res n c nr na l)) = seq na (natoms_res l).
Proof.
  revert n nr na; induction l as [|d l IH]; intros n nr na; [reflexivity|].
  unfold lay_res_atoms, natoms_res in *. simpl. rewrite map_app, IH, lay_atoms_idx, seq_app. reflexivity.
Qed.

Definition natoms_desc (l : list dchain) : nat := list_sum (map (fun d => natoms_res (dc_res d)) l).

Lemma lay_chains_idx n nc nr na l :
  map (fun x => a_index (snd x)) (lay_chain_atoms (lay_chains n nc nr na l)) = seq na (natoms_desc l).
Proof.
  revert n nc nr na; induction l as [|d l IH]; intros n nc nr na; [reflexivity|].
  unfold lay_chain_atoms, natoms_desc in *. simpl. rewrite map_app, IH.
  fold (lay_res_atoms (lay_res (S n) n nr na (dc_res d))).
  replace (concat (map snd (map snd (lay_res (S n) n nr na (dc_res d)))))
    with (lay_res_atoms (lay_res (S n) n nr na (dc_res d))) by (unfold lay_res_atoms; rewrite map_map; reflexivity).
  rewrite lay_res_idx, seq_app. reflexivity.
Qed.

(* ------------------------------------------------------------------ normal topologies *)
Lemma renum_atoms_idx na l : map va_index (renum_atoms na l) = seq na (length l).
Proof. revert na; induction l as [|a l IH]; intros na; [reflexivity|]. simpl. rewrite IH. reflexivity. Qed.

Lemma renum_res_idx nr na l :
  map va_index (concat (map vr_atoms (renum_res nr na l))) = seq na (natoms_vres l).
Proof.
  revert nr na; induction l as [|r l IH]; intros nr na; [reflexivity|].
  unfold natoms_vres in *. simpl. rewrite map_app, IH, renum_atoms_idx, seq_app. reflexivity.
Qed.

Lemma renum_chains_idx nc nr na l :
  map va_index (concat (map vr_atoms (concat (map vc_res (renum_chains nc nr na l))))) =
  seq na (list_sum (map (fun c => natoms_vres (vc_res c)) l)).
Proof.
  revert nc nr na; induction l as [|c l IH]; intros nc nr na; [reflexivity|].
  simpl. rewrite map_app, concat_app, map_app, IH, renum_res_idx, seq_app. reflexivity.
Qed.

Lemma walk_atoms_vatoms w :
  map (fun x => vatom_of (snd x)) (walk_atoms w) = concat (map vr_atoms (concat (map vc_res (map vchain_of w)))).
Proof.
  unfold walk_atoms. induction w as [|[c RS] w IH]; [reflexivity|].
  simpl. rewrite !map_app, concat_app. f_equal; [|exact IH].
  clear IH. induction RS as [|[r A] RS IH]; [reflexivity|]. simpl. rewrite map_app. f_equal. exact IH.
Qed.

Lemma normal_atom_idx w :
  normal (map vchain_of w) -> map (fun x => a_index (snd x)) (walk_atoms w) = seq 0 (length (walk_atoms w)).
Proof.
  intros Hn.
  assert (E : map (fun x => a_index (snd x)) (walk_atoms w) = map va_index (map (fun x => vatom_of (snd x)) (walk_atoms w))).
  { rewrite map_map. reflexivity. }
  rewrite E, walk_atoms_vatoms. unfold normal in Hn. rewrite <- Hn at 1. rewrite renum_chains_idx.
  f_equal.
  assert (L : length (walk_atoms w) = length (map va_index (map (fun x => vatom_of (snd x)) (walk_atoms w)))).
  { rewrite !map_length. reflexivity. }
  rewrite L, walk_atoms_vatoms. rewrite <- Hn at 2. rewrite renum_chains_idx, seq_length. reflexivity.
Qed.

(* ------------------------------------------------------------------ the atom-keyed dict *)
Lemma atom_eqb_idx_ne h x y a b :
  get_a h x = Some a -> get_a h y = Some b -> a_index a <> a_index b -> atom_eqb h x y = false.
Proof.
  intros Hx Hy Hne. unfold atom_eqb. rewrite Hx, Hy.
  destruct (get_r h (a_res a)); [|reflexivity]. destruct (get_r h (a_res b)); [|reflexivity].
  destruct (get_c h (r_chain r)); [|reflexivity]. destruct (get_c h (r_chain r0)); [|reflexivity].
  rewrite (proj2 (Nat.eqb_neq _ _) Hne). rewrite andb_false_r. reflexivity.
Qed.

Lemma dict_get_nomatch h m k acc :
  (forall k' v, In (k', v) m -> Nat.eqb k' k || atom_eqb h k' k = false) -> dict_get h m k acc = acc.
Proof.
  revert acc; induction m as [|[k' v] m IH]; intros acc H; [reflexivity|].
  simpl. rewrite (H k' v (or_introl eq_refl)). apply IH. intros; eapply H; right; eauto.
Qed.

Lemma dict_get_unique h m k v acc :
  NoDup (map fst m) -> In (k, v) m ->
  (forall k' v', In (k', v') m -> k' <> k -> atom_eqb h k' k = false) ->
  dict_get h m k acc = Some v.
Proof.
  revert acc; induction m as [|[k' v'] m IH]; intros acc Hnd Hin Hne; [destruct Hin|].
  simpl in Hnd. inversion Hnd as [|? ? Hnotin Hnd']; subst.
  simpl. destruct Hin as [Heq|Hin].
  - inversion Heq; subst k' v'. rewrite Nat.eqb_refl. simpl.
    apply dict_get_nomatch. intros k2 v2 Hin2.
    assert (k2 <> k). { intros ->. apply Hnotin. apply in_map_iff. exists (k, v2); auto. }
    rewrite (eqb_false_ne k2 k) by auto. simpl. apply (Hne k2 v2); [right; auto | auto].
  - assert (k' <> k). { intros ->. apply Hnotin. apply in_map_iff. exists (k, v); auto. }
    rewrite (eqb_false_ne k' k) by auto. simpl. rewrite (Hne k' v' (or_introl eq_refl)) by auto.
    apply IH; auto. intros; eapply Hne; eauto. right; eauto.
Qed.

(* ------------------------------------------------------------------ re-pointing the bonds *)
Definition bond_oriented (h : heap) (b : bond) : Prop :=
  exists a1 a2, get_a h (b_a1 b) = Some a1 /\ get_a h (b_a2 b) = Some a2 /\ a_index a1 <= a_index a2.

Definition same_but_bonds (t t' : topo) : Prop :=
  t_chains t' = t_chains t /\ t_residues t' = t_residues t /\ t_atoms t' = t_atoms t /\
  t_numAtoms t' = t_numAtoms t /\ t_numRes t' = t_numRes t.

Lemma add_bonds_mapped_abs h h1 m olds :
  (forall k, In k olds -> exists x ax ak, dict_get h1 m k None = Some x /\ get_a h1 x = Some ax /\
                                         get_a h k = Some ak /\ a_index ax = a_index ak) ->
  (forall k1 k2 a1 a2, In k1 olds -> In k2 olds -> get_a h k1 = Some a1 -> get_a h k2 = Some a2 ->
                       a_index a1 = a_index a2 -> k1 = k2) ->
  forall bs t1 t2,
    (forall b, In b bs -> In (b_a1 b) olds /\ In (b_a2 b) olds /\ bond_oriented h b) ->
    add_bonds_mapped h1 t1 m bs false = Some t2 ->
    same_but_bonds t1 t2 /\
    exists nb, t_bonds t2 = t_bonds t1 ++ nb /\ mapM (abs_bond h1) nb = mapM (abs_bond h) bs /\
               (forall b', In b' nb -> bond_oriented h1 b' /\
                                        exists k1 k2, In k1 olds /\ In k2 olds /\
                                                    dict_get h1 m k1 None = Some (b_a1 b') /\
                                                    dict_get h1 m k2 None = Some (b_a2 b')).
Proof.
  intros Hcorr Hinj. induction bs as [|b bs IH]; intros t1 t2 Hb Hadd.
  - simpl in Hadd. inversion Hadd; subst. split; [repeat split|].
    exists []. rewrite app_nil_r. split; [reflexivity|]. split; [reflexivity|]. intros ? [].
  - destruct (Hb b (or_introl eq_refl)) as [Hin1 [Hin2 [a1 [a2 [Ha1 [Ha2 Hle]]]]]].
    destruct (Hcorr _ Hin1) as [x [ax [ak1 [Dx [Gx [Gk1 Ix]]]]]].
    destruct (Hcorr _ Hin2) as [y [ay [ak2 [Dy [Gy [Gk2 Iy]]]]]].
    assert (ak1 = a1) by congruence. assert (ak2 = a2) by congruence. subst ak1 ak2.
    simpl in Hadd. rewrite Dx, Dy in Hadd. inv_bind Hadd.
    unfold add_bond in E. destruct (negb (order_ok (b_order b))); [discriminate|].
    rewrite Gx, Gy in E. simpl in E. inversion E; subst x0; clear E.
    match type of Hadd with add_bonds_mapped _ ?T _ _ _ = _ => set (t1' := T) in * end.
    assert (Hb' : forall b0, In b0 bs -> In (b_a1 b0) olds /\ In (b_a2 b0) olds /\ bond_oriented h b0)
      by (intros; apply Hb; right; auto).
    destruct (IH t1' t2 Hb' Hadd) as [[S1 [S2 [S3 [S4 S5]]]] [nb [Hnb [Habs Himg]]]].
    split; [repeat split; assumption|].
    set (nb0 := if a_index ax <? a_index ay
                then {| b_a1 := x; b_a2 := y; b_type := b_type b; b_order := b_order b |}
                else {| b_a1 := y; b_a2 := x; b_type := b_type b; b_order := b_order b |}) in *.
    exists (nb0 :: nb).
    split; [rewrite Hnb; subst t1'; simpl; rewrite <- app_assoc; reflexivity|].
    assert (Hab : abs_bond h1 nb0 = abs_bond h b /\ bond_oriented h1 nb0 /\
                  exists k1 k2, In k1 olds /\ In k2 olds /\ dict_get h1 m k1 None = Some (b_a1 nb0) /\
                                dict_get h1 m k2 None = Some (b_a2 nb0)).
    { unfold abs_bond at 2. rewrite Ha1, Ha2. simpl. subst nb0.
      destruct (a_index ax <? a_index ay) eqn:Hlt.
      - split.
        + unfold abs_bond; simpl. rewrite Gx, Gy. simpl. rewrite Ix, Iy. reflexivity.
        + split; [exists ax, ay; simpl; apply Nat.ltb_lt in Hlt; repeat split; auto; lia|].
          exists (b_a1 b), (b_a2 b). simpl. auto.
      - apply Nat.ltb_ge in Hlt.
        assert (Heq : a_index a1 = a_index a2) by lia.
        assert (Hk : b_a1 b = b_a2 b) by (eapply Hinj; eauto).
        assert (x = y) by congruence. subst y. assert (ay = ax) by congruence. subst ay.
        split.
        + unfold abs_bond; simpl. rewrite Gx. simpl. rewrite Ix. rewrite <- Heq. rewrite <- Ix. reflexivity.
        + split; [exists ax, ax; simpl; repeat split; auto|].
          exists (b_a1 b), (b_a1 b). simpl. auto. }
    destruct Hab as [Hab1 Hab2].
    split.
    + simpl. rewrite Hab1, Habs. reflexivity.
    + intros b' [<-|Hin]; [exact Hab2 | apply Himg; exact Hin].
Qed.

(* ------------------------------------------------------------------ well-formed, chain-ordered topologies *)
Record wfo (h : heap) (t : topo) : Prop := {
  wo_heap : hwf h;
  wo_back : back_ok h t;
  wo_walk : exists w, walk h t = Some w /\ normal (map vchain_of w) /\ NoDup (map fst (walk_atoms w)) /\
            t_atoms t = map fst (walk_atoms w) /\ t_residues t = concat (map (fun cw => c_res (fst cw)) w) /\
            t_numAtoms t = length (t_atoms t) /\ t_numRes t = length (t_residues t) /\
            forall b, In b (t_bonds t) ->
                      In (b_a1 b) (map fst (walk_atoms w)) /\ In (b_a2 b) (map fst (walk_atoms w)) /\ bond_oriented h b
}.

Lemma walk_agree h h' t w : hwf h -> agree (h_next h) h h' -> walk h t = Some w -> walk h' t = Some w.
Proof.
  intros Hw Hag H. unfold walk in *. rewrite <- H. apply mapM_ext_in. intros c Hin.
  destruct (mapM_in _ _ _ _ H Hin) as [cw [Hc _]]. rewrite Hc. eapply walk_chain_agree; eauto.
Qed.

Lemma walk_atoms_get h cs w l a :
  mapM (walk_chain h) cs = Some w -> In (l, a) (walk_atoms w) -> get_a h l = Some a.
Proof.
  revert w; induction cs as [|c cs IH]; intros w H Hin.
  - inversion H; subst. destruct Hin.
  - apply mapM_cons_some in H. destruct H as [cw [wr [Hc [Hl ->]]]].
    unfold walk_atoms in Hin. simpl in Hin. apply in_app_or in Hin. destruct Hin as [Hin|Hin].
    + eapply walk_chain_atoms; eauto.
    + eapply IH; eauto.
Qed.

Lemma wfo_agree h h' t : wfo h t -> hwf h' -> agree (h_next h) h h' -> wfo h' t.
Proof.
  intros [Hw Hbk [w [Hwalk [Hn [Hnd [Hat [Hre [Hc1 [Hc2 Hb]]]]]]]]] Hw' Hag. split; [exact Hw'| |].
  { intros l a Hin G. apply (Hbk l a Hin). rewrite <- G. symmetry. apply (Hag l).
    rewrite Hat in Hin. apply in_map_iff in Hin. destruct Hin as [[l' a'] [Heq Hin]]. simpl in Heq; subst l'.
    eapply hwf_lt_a; [exact Hw|]. eapply walk_atoms_get; eauto. }
  exists w. split; [exact (walk_agree h h' t w Hw Hag Hwalk)|]. split; [exact Hn|]. split; [exact Hnd|].
  split; [exact Hat|]. split; [exact Hre|]. split; [exact Hc1|]. split; [exact Hc2|].
  intros b Hin. destruct (Hb b Hin) as [H1 [H2 [a1 [a2 [G1 [G2 Hle]]]]]].
  split; [exact H1|]. split; [exact H2|]. exists a1, a2.
  split; [rewrite <- G1; apply (Hag (b_a1 b)); eapply hwf_lt_a; eauto|].
  split; [rewrite <- G2; apply (Hag (b_a2 b)); eapply hwf_lt_a; eauto | exact Hle].
Qed.

(* ------------------------------------------------------------------ pure facts about layouts *)
Lemma natoms_desc_copy keep w : natoms_desc (copy_desc keep w) = length (walk_atoms w).
Proof.
  rewrite copy_desc_eq. unfold natoms_desc, walk_atoms. induction w as [|[c RS] w IH]; [reflexivity|].
  simpl. rewrite app_length, IH. f_equal. clear IH.
  unfold natoms_res. induction RS as [|[r A] RS IH]; [reflexivity|]. simpl. rewrite app_length, map_length, IH. reflexivity.
Qed.

Lemma lay_chain_atoms_length n nc nr na l : length (lay_chain_atoms (lay_chains n nc nr na l)) = natoms_desc l.
Proof.
  rewrite <- (map_length (fun x => a_index (snd x))), lay_chains_idx, seq_length. reflexivity.
Qed.

Lemma in_combine_nth {A B} (l1 : list A) (l2 : list B) p a b :
  nth_error l1 p = Some a -> nth_error l2 p = Some b -> In (a, b) (combine l1 l2).
Proof.
  revert l2 p; induction l1 as [|x l1 IH]; intros l2 p H1 H2; [destruct p; discriminate|].
  destruct l2 as [|y l2]; [destruct p; discriminate|].
  destruct p as [|p]; simpl in *.
  - inversion H1; inversion H2; subst. left; reflexivity.
  - right. eapply IH; eauto.
Qed.

Lemma combine_fst_eq {A B} (l1 : list A) (l2 : list B) : length l1 = length l2 -> map fst (combine l1 l2) = l1.
Proof.
  revert l2; induction l1 as [|x l1 IH]; intros [|y l2] H; simpl in *; try discriminate; [reflexivity|].
  f_equal. apply IH. lia.
Qed.

Lemma nth_error_seq_idx {A} (f : A -> nat) (l : list A) start p x :
  map f l = seq start (length l) -> nth_error l p = Some x -> f x = start + p.
Proof.
  intros Hm Hn. assert (H : nth_error (map f l) p = Some (f x)) by (apply map_nth_error; exact Hn).
  rewrite Hm in H. assert (Hp : p < length l) by (apply nth_error_Some; congruence).
  rewrite nth_error_nth' with (d := 0) in H by (rewrite seq_length; exact Hp).
  rewrite seq_nth in H by exact Hp. inversion H. reflexivity.
Qed.

Lemma layout_atoms_get h1 L :
  (forall x cw, In (x, cw) L -> walk_chain h1 x = Some cw) ->
  forall l a, In (l, a) (lay_chain_atoms L) -> get_a h1 l = Some a.
Proof.
  intros HL l a Hin. unfold lay_chain_atoms in Hin. apply in_concat in Hin. destruct Hin as [A [HA Hin]].
  apply in_map_iff in HA. destruct HA as [[x cw] [Heq HA]]. subst A.
  eapply walk_chain_atoms; [apply HL; exact HA | exact Hin].
Qed.

Lemma dict_get_value_acc h m k acc x : dict_get h m k acc = Some x -> acc = Some x \/ In x (map snd m).
Proof.
  revert acc; induction m as [|[k0 v0] m IH]; intros acc H; [left; exact H|].
  simpl in H. apply IH in H. destruct H as [H|H]; [|right; right; exact H].
  destruct (Nat.eqb k0 k || atom_eqb h k0 k); [inversion H; right; left; reflexivity | left; exact H].
Qed.
Lemma dict_get_value h m k x : dict_get h m k None = Some x -> In x (map snd m).
Proof. intros H. apply dict_get_value_acc in H. destruct H as [H|H]; [discriminate | exact H]. Qed.

(* ------------------------------------------------------------------ copy(), repaired variant *)
Lemma abs_bonds_total h bs :
  (forall b, In b bs -> bond_oriented h b) -> exists vs, mapM (abs_bond h) bs = Some vs.
Proof.
  induction bs as [|b bs IH]; intros H; [exists []; reflexivity|].
  destruct (H b (or_introl eq_refl)) as [a1 [a2 [G1 [G2 _]]]].
  destruct IH as [vs Hvs]; [intros; apply H; right; auto|].
  eexists. simpl. unfold abs_bond at 1. rewrite G1, G2. simpl. rewrite Hvs. reflexivity.
Qed.

Lemma copy_fix_struct h t w h' t' :
  hwf h -> walk h t = Some w -> normal (map vchain_of w) -> NoDup (map fst (walk_atoms w)) ->
  (forall b, In b (t_bonds t) ->
             In (b_a1 b) (map fst (walk_atoms w)) /\ In (b_a2 b) (map fst (walk_atoms w)) /\ bond_oriented h b) ->
  copy flags_fix h t = Some (h', t') ->
  let L := lay_chains (h_next h) 0 0 0 (copy_desc true w) in
  let news := map fst (lay_chain_atoms L) in
  hwf h' /\ agree (h_next h) h h' /\ h_next h <= h_next h' /\
  (forall x cw, In (x, cw) L -> walk_chain h' x = Some cw) /\
  t_chains t' = map fst L /\ t_residues t' = lay_chain_res L /\ t_atoms t' = news /\
  t_numAtoms t' = length news /\ t_numRes t' = length (lay_chain_res L) /\
  mapM (abs_bond h') (t_bonds t') = mapM (abs_bond h) (t_bonds t) /\
  (forall b', In b' (t_bonds t') -> In (b_a1 b') news /\ In (b_a2 b') news /\ bond_oriented h' b').
Proof.
  intros Hw Hwalk Hnorm Hnd Hbonds Hcopy L news.
  unfold copy in Hcopy. rewrite Hwalk in Hcopy. simpl in Hcopy.
  inv_bind Hcopy. destruct x as [[h1 t1] news']. inv_bind Hcopy. inversion Hcopy; subst h' t'; clear Hcopy.
  rename x into t2. rename E into Hbuild. rename E0 into Hadd.
  pose proof (build_chains_layout _ _ _ _ _ _ Hw Hbuild) as HL. simpl in HL. fold L in HL.
  destruct HL as [Hw1 [Hn1 [Hnews [Ht1 [Hag HLw]]]]]. fold news in Hnews. subst news'.
  set (olds := map fst (walk_atoms w)) in *.
  assert (Hlen : length olds = length news).
  { unfold olds, news. rewrite !map_length. unfold L. rewrite lay_chain_atoms_length, natoms_desc_copy. reflexivity. }
  assert (Hidx_old : map (fun x => a_index (snd x)) (walk_atoms w) = seq 0 (length (walk_atoms w)))
    by (apply normal_atom_idx; exact Hnorm).
  assert (Hidx_new : map (fun x => a_index (snd x)) (lay_chain_atoms L) = seq 0 (length (lay_chain_atoms L))).
  { unfold L. rewrite lay_chains_idx, lay_chain_atoms_length. reflexivity. }
  assert (Hold_get : forall l a, In (l, a) (walk_atoms w) -> get_a h l = Some a)
    by (intros l a; apply (walk_atoms_get h (t_chains t) w); exact Hwalk).
  assert (Hnew_get : forall l a, In (l, a) (lay_chain_atoms L) -> get_a h1 l = Some a)
    by (apply layout_atoms_get; exact HLw).
  (* position facts *)
  assert (Hpos : forall k, In k olds -> exists p ak x ax,
             nth_error (walk_atoms w) p = Some (k, ak) /\ nth_error (lay_chain_atoms L) p = Some (x, ax) /\
             a_index ak = p /\ a_index ax = p).
  { intros k Hin. apply In_nth_error in Hin. destruct Hin as [p Hp].
    unfold olds in Hp. rewrite nth_error_map in Hp.
    destruct (nth_error (walk_atoms w) p) as [[k' ak]|] eqn:Ep; [|discriminate]. simpl in Hp. inversion Hp; subst k'.
    assert (Hplt : p < length (lay_chain_atoms L)).
    { assert (p < length (walk_atoms w)) by (apply nth_error_Some; congruence).
      unfold olds, news in Hlen. rewrite !map_length in Hlen. lia. }
    destruct (nth_error (lay_chain_atoms L) p) as [[x ax]|] eqn:Eq; [|apply nth_error_None in Eq; lia].
    exists p, ak, x, ax. split; [exact Ep|]. split; [exact Eq|].
    split.
    - apply (nth_error_seq_idx (fun x => a_index (snd x)) _ 0 p (k, ak) Hidx_old Ep).
    - apply (nth_error_seq_idx (fun x => a_index (snd x)) _ 0 p (x, ax) Hidx_new Eq). }
  assert (Hinj : forall k1 k2 a1 a2, In k1 olds -> In k2 olds -> get_a h k1 = Some a1 -> get_a h k2 = Some a2 ->
                                     a_index a1 = a_index a2 -> k1 = k2).
  { intros k1 k2 a1 a2 H1 H2 G1 G2 Heq.
    destruct (Hpos k1 H1) as [p1 [ak1 [x1 [ax1 [N1 [M1 [I1 J1]]]]]]].
    destruct (Hpos k2 H2) as [p2 [ak2 [x2 [ax2 [N2 [M2 [I2 J2]]]]]]].
    assert (get_a h k1 = Some ak1) by (apply Hold_get; eapply nth_error_In; eauto).
    assert (get_a h k2 = Some ak2) by (apply Hold_get; eapply nth_error_In; eauto).
    assert (ak1 = a1) by congruence. assert (ak2 = a2) by congruence. subst ak1 ak2.
    assert (p1 = p2) by lia. subst p2. assert (Some (k1, a1) = Some (k2, a2)) by congruence. congruence. }
  assert (Hold_h1 : forall k a, In k olds -> get_a h k = Some a -> get_a h1 k = Some a).
  { intros k a _ G. rewrite <- G. apply (Hag k). eapply hwf_lt_a; eauto. }
  assert (Hcorr : forall k, In k olds -> exists x ax ak,
             dict_get h1 (combine olds news) k None = Some x /\ get_a h1 x = Some ax /\ get_a h k = Some ak /\
             a_index ax = a_index ak).
  { intros k Hin. destruct (Hpos k Hin) as [p [ak [x [ax [N1 [N2 [I1 I2]]]]]]].
    exists x, ax, ak.
    assert (Gk : get_a h k = Some ak) by (apply Hold_get; eapply nth_error_In; eauto).
    split; [|split; [apply Hnew_get; eapply nth_error_In; eauto | split; [exact Gk | lia]]].
    apply dict_get_unique.
    - rewrite combine_fst_eq by exact Hlen. exact Hnd.
    - apply in_combine_nth with (p := p).
      + unfold olds. rewrite nth_error_map, N1. reflexivity.
      + unfold news. rewrite nth_error_map, N2. reflexivity.
    - intros k' v' Hin' Hne. apply in_combine_l in Hin'.
      destruct (Hpos k' Hin') as [p' [ak' [x' [ax' [N1' [M1' [I1' J1']]]]]]].
      assert (Gk' : get_a h k' = Some ak') by (apply Hold_get; eapply nth_error_In; eauto).
      apply atom_eqb_idx_ne with (a := ak') (b := ak); [apply Hold_h1; auto | apply Hold_h1; auto |].
      intros Heq. apply Hne. eapply Hinj; eauto. }
  assert (Ht1b : t_bonds t1 = []) by (rewrite Ht1; reflexivity).
  destruct (add_bonds_mapped_abs h h1 (combine olds news) olds Hcorr Hinj (t_bonds t) t1 t2 Hbonds Hadd)
    as [[S1 [S2 [S3 [S4 S5]]]] [nb [Hnb [Habs Himg]]]].
  rewrite Ht1b in Hnb. simpl in Hnb.
  split; [exact Hw1|]. split; [exact Hag|]. split; [lia|]. split; [exact HLw|].
  split; [rewrite S1, Ht1; reflexivity|].
  split; [rewrite S2, Ht1; reflexivity|].
  split; [rewrite S3, Ht1; reflexivity|].
  split; [rewrite S4, Ht1; reflexivity|].
  split; [rewrite S5, Ht1; reflexivity|].
  split; [rewrite Hnb; exact Habs|].
  intros b' Hin. rewrite Hnb in Hin. destruct (Himg b' Hin) as [Hor [k1 [k2 [K1 [K2 [D1 D2]]]]]].
  split; [|split; [|exact Hor]].
  - apply dict_get_value in D1. apply in_map_iff in D1. destruct D1 as [[k0 v0] [Heq D1]]. simpl in Heq; subst v0.
    eapply in_combine_r; eauto.
  - apply dict_get_value in D2. apply in_map_iff in D2. destruct D2 as [[k0 v0] [Heq D2]]. simpl in Heq; subst v0.
    eapply in_combine_r; eauto.
Qed.

(* ------------------------------------------------------------------ where a layout lives *)
Definition within (a b : nat) (l : list nat) : Prop := Forall (fun x => a <= x < b) l.
Definition sorted_in (a b : nat) (l : list nat) : Prop := StronglySorted lt l /\ within a b l.

Lemma within_weaken a b a' b' l : a' <= a -> b <= b' -> within a b l -> within a' b' l.
Proof. intros H1 H2 H. eapply Forall_impl; [|exact H]. simpl. intros; lia. Qed.

Lemma sorted_in_weaken a b a' b' l : a' <= a -> b <= b' -> sorted_in a b l -> sorted_in a' b' l.
Proof. intros H1 H2 [S W]. split; [exact S | eapply within_weaken; eauto]. Qed.

Lemma sorted_in_app a b c l1 l2 : a <= b -> b <= c -> sorted_in a b l1 -> sorted_in b c l2 -> sorted_in a c (l1 ++ l2).
Proof.
  intros Hab Hbc [S1 W1] [S2 W2]. split.
  - induction l1 as [|x l1 IH]; [exact S2|].
    inversion S1; subst. inversion W1; subst. simpl. constructor; [apply IH; auto|].
    apply Forall_app. split; [assumption|]. eapply Forall_impl; [|exact W2]. simpl. intros; lia.
  - apply Forall_app. split; [eapply within_weaken; [| |exact W1]; lia | eapply within_weaken; [| |exact W2]; lia].
Qed.

Lemma sorted_in_nodup a b l : sorted_in a b l -> NoDup l.
Proof.
  intros [S _]. induction S as [|x l S IH F]; constructor; [|exact IH].
  intros Hin. rewrite Forall_forall in F. specialize (F x Hin). lia.
Qed.

Lemma sorted_in_seq n k : sorted_in n (n + k) (seq n k).
Proof.
  revert n; induction k as [|k IH]; intros n; [split; constructor|].
  simpl. destruct (IH (S n)) as [S W]. split.
  - constructor; [exact S|]. eapply Forall_impl; [|exact W]. simpl. intros; lia.
  - constructor; [lia|]. eapply within_weaken; [| |exact W]; lia.
Qed.

Lemma lay_res_atoms_sorted n c nr na l :
  sorted_in n (n + size_res l) (map fst (lay_res_atoms (lay_res n c nr na l))).
Proof.
  revert n nr na; induction l as [|d l IH]; intros n nr na; [split; constructor|].
  unfold lay_res_atoms in *. simpl. rewrite map_app, size_res_cons.
  apply sorted_in_app with (b := S n + length (dr_atoms d)); [lia | lia | |].
  - rewrite lay_atoms_fst. eapply sorted_in_weaken; [| |apply sorted_in_seq]; lia.
  - eapply sorted_in_weaken; [| |apply IH]; lia.
Qed.

Lemma lay_chain_atoms_sorted n nc nr na l :
  sorted_in n (n + list_sum (map chain_size l)) (map fst (lay_chain_atoms (lay_chains n nc nr na l))).
Proof.
  revert n nc nr na; induction l as [|d l IH]; intros n nc nr na; [split; constructor|].
  unfold lay_chain_atoms in *. simpl. rewrite map_app.
  apply sorted_in_app with (b := n + chain_size d); [lia | unfold chain_size; lia | |].
  - rewrite map_map. fold (lay_res_atoms (lay_res (S n) n nr na (dc_res d))).
    eapply sorted_in_weaken; [| |apply lay_res_atoms_sorted]; unfold chain_size; lia.
  - eapply sorted_in_weaken; [| |apply IH]; unfold chain_size; lia.
Qed.

Lemma lay_res_locs_within n c nr na l : within n (n + size_res l) (map fst (lay_res n c nr na l)).
Proof.
  revert n nr na; induction l as [|d l IH]; intros n nr na; [constructor|].
  simpl. rewrite size_res_cons. constructor; [lia|]. eapply within_weaken; [| |apply IH]; lia.
Qed.

Lemma lay_chain_res_within n nc nr na l :
  within n (n + list_sum (map chain_size l)) (lay_chain_res (lay_chains n nc nr na l)).
Proof.
  revert n nc nr na; induction l as [|d l IH]; intros n nc nr na; [constructor|].
  unfold lay_chain_res in *. simpl. apply Forall_app. split.
  - eapply within_weaken; [| |apply lay_res_locs_within]; unfold chain_size; lia.
  - eapply within_weaken; [| |apply IH]; unfold chain_size; lia.
Qed.

Lemma lay_chains_locs_within n nc nr na l :
  within n (n + list_sum (map chain_size l)) (map fst (lay_chains n nc nr na l)).
Proof.
  revert n nc nr na; induction l as [|d l IH]; intros n nc nr na; [constructor|].
  simpl. constructor; [unfold chain_size; lia|]. eapply within_weaken; [| |apply IH]; unfold chain_size; lia.
Qed.

(* ------------------------------------------------------------------ chain-wise lists read off a walk *)
Lemma walk_chain_inv h x c rs :
  walk_chain h x = Some (c, rs) -> get_c h x = Some c /\ mapM (walk_res h) (c_res c) = Some rs.
Proof.
  unfold walk_chain. intros H. inv_bind H. inv_bind H. inversion H; subst. split; assumption.
Qed.

Lemma res_atoms_of_walk h rls rs :
  mapM (walk_res h) rls = Some rs ->
  concat (map (fun r => match get_r h r with Some rr => r_atoms rr | None => [] end) rls) =
  map fst (concat (map snd rs)).
Proof.
  revert rs; induction rls as [|r l IHl]; intros rs E0.
  - inversion E0; reflexivity.
  - apply mapM_cons_some in E0. destruct E0 as [[rr A] [br [Hb [Hl ->]]]].
    apply walk_res_inv in Hb. destruct Hb as [G [Hat _]].
    simpl. rewrite G, Hat, map_app. f_equal. apply IHl. exact Hl.
Qed.

Lemma chainwise_of_walk h cs w :
  mapM (walk_chain h) cs = Some w ->
  chainwise_residues h cs = concat (map (fun cw => c_res (fst cw)) w) /\
  chainwise_atoms h cs = map fst (walk_atoms w).
Proof.
  revert w; induction cs as [|c cs IH]; intros w H.
  - inversion H; subst. split; reflexivity.
  - apply mapM_cons_some in H. destruct H as [[ch rs] [wr [Hc [Hl ->]]]].
    destruct (IH _ Hl) as [IH1 IH2].
    apply walk_chain_inv in Hc. destruct Hc as [G Hrs].
    unfold chainwise_atoms, chainwise_residues in *. simpl. rewrite G. simpl.
    split; [f_equal; exact IH1|].
    rewrite map_app, concat_app. unfold walk_atoms. simpl. rewrite map_app.
    f_equal; [|exact IH2]. apply res_atoms_of_walk. exact Hrs.
Qed.

Lemma walk_of_layout h L :
  (forall x cw, In (x, cw) L -> walk_chain h x = Some cw) -> mapM (walk_chain h) (map fst L) = Some (map snd L).
Proof. apply mapM_pairs. Qed.

Lemma walk_atoms_layout L : walk_atoms (map snd L) = lay_chain_atoms L.
Proof. unfold walk_atoms, lay_chain_atoms. rewrite map_map. reflexivity. Qed.

Lemma lay_chain_res_eq L : concat (map (fun cw => c_res (fst cw)) (map snd L)) = lay_chain_res L.
Proof. unfold lay_chain_res. rewrite map_map. reflexivity. Qed.

Lemma renum_atoms_length na l : length (renum_atoms na l) = length l.
Proof. revert na; induction l; intros; simpl; auto. Qed.
Lemma renum_atoms_idem na l : renum_atoms na (renum_atoms na l) = renum_atoms na l.
Proof. revert na; induction l as [|a l IH]; intros na; [reflexivity|]. simpl. rewrite IH. reflexivity. Qed.
Lemma renum_res_length nr na l : length (renum_res nr na l) = length l.
Proof. revert nr na; induction l; intros; simpl; auto. Qed.
Lemma renum_res_natoms nr na l : natoms_vres (renum_res nr na l) = natoms_vres l.
Proof.
  unfold natoms_vres. revert nr na; induction l as [|r l IH]; intros; [reflexivity|].
  simpl. rewrite renum_atoms_length, IH. reflexivity.
Qed.
Lemma renum_res_idem nr na l : renum_res nr na (renum_res nr na l) = renum_res nr na l.
Proof.
  revert nr na; induction l as [|r l IH]; intros nr na; [reflexivity|].
  simpl. rewrite renum_atoms_length, renum_atoms_idem, IH. reflexivity.
Qed.
Lemma renum_chains_idem nc nr na l : renum_chains nc nr na (renum_chains nc nr na l) = renum_chains nc nr na l.
Proof.
  revert nc nr na; induction l as [|c l IH]; intros nc nr na; [reflexivity|].
  simpl. rewrite renum_res_length, renum_res_natoms, renum_res_idem, IH. reflexivity.
Qed.

Lemma lay_atoms_res n r na l x a : In (x, a) (lay_atoms n r na l) -> a_res a = r.
Proof.
  revert n na; induction l as [|d l IH]; intros n na H; [destruct H|].
  simpl in H. destruct H as [H|H]; [inversion H; reflexivity | eapply IH; eauto].
Qed.
Lemma lay_res_back n c nr na l x a :
  In (x, a) (lay_res_atoms (lay_res n c nr na l)) -> In (a_res a) (map fst (lay_res n c nr na l)).
Proof.
  revert n nr na; induction l as [|d l IH]; intros n nr na H; [destruct H|].
  unfold lay_res_atoms in H. simpl in H. apply in_app_or in H. destruct H as [H|H].
  - left. symmetry. eapply lay_atoms_res; eauto.
  - right. apply IH. exact H.
Qed.
Lemma lay_chains_back n nc nr na l x a :
  In (x, a) (lay_chain_atoms (lay_chains n nc nr na l)) -> In (a_res a) (lay_chain_res (lay_chains n nc nr na l)).
Proof.
  revert n nc nr na; induction l as [|d l IH]; intros n nc nr na H; [destruct H|].
  unfold lay_chain_atoms, lay_chain_res in *. simpl in H. simpl. apply in_app_or in H. apply in_or_app.
  destruct H as [H|H].
  - left. rewrite map_map in H. apply (lay_res_back (S n) n nr na (dc_res d) x a). exact H.
  - right. apply IH. exact H.
Qed.

(* ------------------------------------------------------------------ the theorems about copy() *)
Section CopyFix.
  Variables (h : heap) (t : topo) (h' : heap) (t' : topo).
  Hypothesis Hwfo : wfo h t.
  Hypothesis Hcopy : copy flags_fix h t = Some (h', t').

  (* copy() preserves every atom, residue, chain (ids included) and bond *)
  Lemma copy_abs : abs h' t' = abs h t.
  Proof.
    destruct Hwfo as [Hw _ [w [Hwalk [Hn [Hnd [_ [_ [_ [_ Hb]]]]]]]]].
    destruct (copy_fix_struct h t w h' t' Hw Hwalk Hn Hnd Hb Hcopy)
      as [Hw' [Hag [_ [HLw [Hc [_ [_ [_ [_ [Hbonds _]]]]]]]]]].
    unfold abs. rewrite Hc, Hbonds.
    rewrite (abs_chains_walk _ _ _ (walk_of_layout _ _ HLw)).
    unfold walk in Hwalk. rewrite (abs_chains_walk _ _ _ Hwalk).
    rewrite map_map, lay_chains_abs. unfold normal in Hn. rewrite Hn. reflexivity.
  Qed.

  (* nothing that existed before the copy is modified *)
  Lemma copy_frame : agree (h_next h) h h'.
  Proof.
    destruct Hwfo as [Hw _ [w [Hwalk [Hn [Hnd [_ [_ [_ [_ Hb]]]]]]]]].
    destruct (copy_fix_struct h t w h' t' Hw Hwalk Hn Hnd Hb Hcopy) as [_ [Hag _]]. exact Hag.
  Qed.

  (* every object the copy can reach was allocated by the copy *)
  Lemma copy_fresh : forall l, In l (reach h' t') -> h_next h <= l.
  Proof.
    destruct Hwfo as [Hw _ [w [Hwalk [Hn [Hnd [_ [_ [_ [_ Hb]]]]]]]]].
    destruct (copy_fix_struct h t w h' t' Hw Hwalk Hn Hnd Hb Hcopy)
      as [Hw' [Hag [_ [HLw [Hc [Hr [Ha [_ [_ [_ Hbe]]]]]]]]]].
    set (L := lay_chains (h_next h) 0 0 0 (copy_desc true w)) in *.
    destruct (chainwise_of_walk _ _ _ (walk_of_layout _ _ HLw)) as [CR CA].
    rewrite lay_chain_res_eq in CR. rewrite walk_atoms_layout in CA.
    assert (B1 : forall l, In l (map fst L) -> h_next h <= l).
    { intros l Hin. pose proof (lay_chains_locs_within (h_next h) 0 0 0 (copy_desc true w)) as W.
      unfold within in W. rewrite Forall_forall in W. apply W in Hin. lia. }
    assert (B2 : forall l, In l (lay_chain_res L) -> h_next h <= l).
    { intros l Hin. pose proof (lay_chain_res_within (h_next h) 0 0 0 (copy_desc true w)) as W.
      unfold within in W. rewrite Forall_forall in W. apply W in Hin. lia. }
    assert (B3 : forall l, In l (map fst (lay_chain_atoms L)) -> h_next h <= l).
    { intros l Hin. destruct (lay_chain_atoms_sorted (h_next h) 0 0 0 (copy_desc true w)) as [_ W].
      unfold within in W. rewrite Forall_forall in W. apply W in Hin. lia. }
    intros l Hin. unfold reach in Hin. rewrite Hc, Hr, Ha, CR, CA in Hin.
    repeat (apply in_app_or in Hin; destruct Hin as [Hin|Hin]); auto.
    unfold bond_ends in Hin. apply in_concat in Hin. destruct Hin as [ends [He Hin]].
    apply in_map_iff in He. destruct He as [b [<- Hbin]].
    destruct (Hbe b Hbin) as [E1 [E2 _]].
    destruct Hin as [<-|[<-|[]]]; auto.
  Qed.

  (* the copy and (still) the source are well formed in the new heap *)
  Lemma copy_wfo : wfo h' t' /\ wfo h' t.
  Proof.
    pose proof Hwfo as Hwfo0.
    destruct Hwfo as [Hw _ [w [Hwalk [Hn [Hnd [_ [_ [_ [_ Hb]]]]]]]]].
    destruct (copy_fix_struct h t w h' t' Hw Hwalk Hn Hnd Hb Hcopy)
      as [Hw' [Hag [_ [HLw [Hc [Hr [Ha [Hna [Hnr [_ Hbe]]]]]]]]]].
    set (L := lay_chains (h_next h) 0 0 0 (copy_desc true w)) in *.
    split; [|exact (wfo_agree h h' t Hwfo0 Hw' Hag)].
    split; [exact Hw'| |].
    { intros l a Hin G. rewrite Ha in Hin. rewrite Hr. apply in_map_iff in Hin. destruct Hin as [[l' a'] [Heq Hin]].
      simpl in Heq; subst l'. assert (get_a h' l = Some a') by (eapply layout_atoms_get; eauto).
      assert (a' = a) by congruence. subst a'. eapply lay_chains_back; eauto. }
    exists (map snd L).
    split; [unfold walk; rewrite Hc; apply walk_of_layout; exact HLw|].
    split; [unfold normal; rewrite map_map; unfold L; rewrite lay_chains_abs; apply renum_chains_idem|].
    rewrite walk_atoms_layout, lay_chain_res_eq.
    split; [eapply sorted_in_nodup; apply lay_chain_atoms_sorted|].
    split; [exact Ha|]. split; [exact Hr|].
    split; [rewrite Hna, Ha; reflexivity|]. split; [rewrite Hnr, Hr; reflexivity|].
    exact Hbe.
  Qed.
End CopyFix.

(* everything a well-formed topology reaches is an allocated object *)
Lemma walk_chain_locs_lt h cs w :
  hwf h -> mapM (walk_chain h) cs = Some w ->
  (forall l, In l cs -> l < h_next h) /\
  (forall l, In l (concat (map (fun cw => c_res (fst cw)) w)) -> l < h_next h) /\
  (forall l, In l (map fst (walk_atoms w)) -> l < h_next h).
Proof.
  intros Hw. revert w; induction cs as [|c cs IH]; intros w H.
  - inversion H; subst. repeat split; intros l [].
  - apply mapM_cons_some in H. destruct H as [[ch rs] [wr [Hc [Hl ->]]]].
    destruct (IH _ Hl) as [I1 [I2 I3]]. pose proof Hc as Hc0.
    apply walk_chain_inv in Hc. destruct Hc as [G Hrs].
    split; [|split].
    + intros l [<-|Hin]; [eapply hwf_lt_c; eauto | auto].
    + intros l Hin. simpl in Hin. apply in_app_or in Hin. destruct Hin as [Hin|Hin]; [|auto].
      destruct (mapM_in _ _ _ _ Hrs Hin) as [[rr A] [Hwr _]]. apply walk_res_inv in Hwr.
      destruct Hwr as [Gr _]. eapply hwf_lt_r; eauto.
    + intros l Hin. unfold walk_atoms in Hin. simpl in Hin. rewrite map_app in Hin.
      apply in_app_or in Hin. destruct Hin as [Hin|Hin]; [|apply I3; exact Hin].
      apply in_map_iff in Hin. destruct Hin as [[l' a] [Heq Hin]]. simpl in Heq; subst l'.
      eapply hwf_lt_a; [exact Hw|]. eapply walk_chain_atoms; [exact Hc0 | exact Hin].
Qed.

Lemma wfo_reach_lt h t : wfo h t -> forall l, In l (reach h t) -> l < h_next h.
Proof.
  intros [Hw _ [w [Hwalk [Hn [Hnd [Hat [Hre [_ [_ Hb]]]]]]]]].
  destruct (walk_chain_locs_lt h _ w Hw Hwalk) as [L1 [L2 L3]].
  destruct (chainwise_of_walk _ _ _ Hwalk) as [CR CA].
  intros l Hin. unfold reach in Hin. rewrite Hat, Hre, CR, CA in Hin.
  repeat (apply in_app_or in Hin; destruct Hin as [Hin|Hin]); auto.
  unfold bond_ends in Hin. apply in_concat in Hin. destruct Hin as [ends [He Hin]].
  apply in_map_iff in He. destruct He as [b [<- Hbin]].
  destruct (Hb b Hbin) as [E1 [E2 _]]. destruct Hin as [<-|[<-|[]]]; auto.
Qed.

(* a copy is independent: it shares no reachable object with the source, nor with any other
   topology u that was well formed before the copy *)
Theorem copy_independent h t h' t' u :
  wfo h t -> wfo h u -> copy flags_fix h t = Some (h', t') ->
  forall l, In l (reach h' t') -> ~ In l (reach h' u).
Proof.
  intros Ht Hu Hc l Hin Hin'.
  pose proof (copy_fresh h t h' t' Ht Hc l Hin) as Hge.
  pose proof (copy_frame h t h' t' Ht Hc) as Hag.
  (* reach of u is the same list in h' as in h, hence below the old allocation pointer *)
  destruct Hu as [Hwu _ [w [Hwalk [Hn [Hnd [Hat [Hre [_ [_ Hb]]]]]]]]].
  assert (Hwalk' : walk h' u = Some w) by (eapply walk_agree; eauto).
  destruct (walk_chain_locs_lt h _ w Hwu Hwalk) as [L1 [L2 L3]].
  destruct (chainwise_of_walk _ _ _ Hwalk') as [CR CA].
  unfold reach in Hin'. rewrite Hat, Hre, CR, CA in Hin'.
  assert (l < h_next h); [|lia].
  repeat (apply in_app_or in Hin'; destruct Hin' as [Hin'|Hin']); auto.
  unfold bond_ends in Hin'. apply in_concat in Hin'. destruct Hin' as [ends [He Hin']].
  apply in_map_iff in He. destruct He as [b [<- Hbin]].
  destruct (Hb b Hbin) as [E1 [E2 _]]. destruct Hin' as [<-|[<-|[]]]; auto.
Qed.
