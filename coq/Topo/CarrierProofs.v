(* C04: round trips through the carriers, on the chain-wise value.
   HDF5 JSON: the decoded topology equals the source with serial, chain id, bond type and bond order
   erased (that is all the JSON holds); with the hypothetical full schema it equals the source.
   Data frame: exact when consecutive residues of a chain differ in (resSeq, resName) and no residue
   or chain is empty (chain ids are not representable: the chainID column holds the chain index). *)
From Coq Require Import String Ascii.
From Coq Require Import List Arith ZArith Bool Lia Sorted.
Import ListNotations.
Require Import MD.Topo.Model MD.Topo.Carriers MD.Topo.Basics MD.Topo.Build MD.Topo.AbsWalk MD.Topo.Copy MD.Topo.Subset MD.Topo.EqHash.
Open Scope nat_scope.

(* ------------------------------------------------------------------ sorting a sorted list *)
Lemma sort_by_sorted {A} (le : A -> A -> bool) l : StronglySorted (fun x y => le x y = true) l -> sort_by le l = l.
Proof.
  unfold sort_by. induction 1 as [|x l S IH F]; [reflexivity|]. simpl. rewrite IH.
  destruct l as [|y r]; [reflexivity|]. simpl. inversion F; subst. rewrite H1. reflexivity.
Qed.

Lemma seq_sorted_by {A} (f : A -> nat) l : forall a, map f l = seq a (length l) ->
  StronglySorted (fun x y => (f x <=? f y) = true) l.
Proof.
  induction l as [|x l IH]; intros a H; [constructor|]. simpl in H. inversion H as [[Hx Hl]].
  constructor; [apply (IH (S (f x))); exact Hl|].
  apply Forall_forall. intros y Hy. apply Nat.leb_le.
  apply in_map with (f := f) in Hy. rewrite Hl in Hy. apply in_seq in Hy. lia.
Qed.

(* ------------------------------------------------------------------ consequences of [normal] *)
Lemma renum_atoms_fix na l : renum_atoms na l = l -> map va_index l = seq na (length l).
Proof. intros H. rewrite <- H at 1. apply renum_atoms_idx. Qed.
Lemma renum_res_fix nr na l : renum_res nr na l = l -> map vr_index l = seq nr (length l).
Proof. intros H. rewrite <- H at 1. apply renum_res_vidx. Qed.
Lemma renum_chains_vidx nc nr na l : map vc_index (renum_chains nc nr na l) = seq nc (length l).
Proof. revert nc nr na; induction l as [|c l IH]; intros; [reflexivity|]. simpl. rewrite IH. reflexivity. Qed.
Lemma renum_chains_fix nc nr na l : renum_chains nc nr na l = l -> map vc_index l = seq nc (length l).
Proof. intros H. rewrite <- H at 1. apply renum_chains_vidx. Qed.

(* ------------------------------------------------------------------ HDF5 *)
Definition erase_atom (full : bool) (a : vatom) : vatom :=
  {| va_name := va_name a; va_elem := va_elem a; va_index := va_index a; va_serial := if full then va_serial a else None |}.
Definition erase_res (full : bool) (r : vres) : vres :=
  {| vr_name := vr_name r; vr_index := vr_index r; vr_resSeq := vr_resSeq r; vr_seg := vr_seg r;
     vr_atoms := map (erase_atom full) (vr_atoms r) |}.
Definition erase_chain (full : bool) (c : vchain) : vchain :=
  {| vc_index := vc_index c; vc_id := if full then vc_id c else None; vc_res := map (erase_res full) (vc_res c) |}.

Definition h5_atom (full : bool) (a : vatom) : datom :=
  {| da_name := va_name a; da_elem := va_elem a; da_serial := if full then va_serial a else None |}.
Definition h5_res (full : bool) (r : vres) : dres :=
  {| dr_name := vr_name r; dr_resSeq := Some (vr_resSeq r); dr_seg := vr_seg r; dr_atoms := map (h5_atom full) (vr_atoms r) |}.
Definition h5_chain (full : bool) (c : vchain) : dchain :=
  {| dc_id := if full then vc_id c else None; dc_res := map (h5_res full) (vc_res c) |}.

Lemma num_atoms_h5 full na l : renum_atoms na l = l -> num_atoms na (map (h5_atom full) l) = map (erase_atom full) l.
Proof.
  revert na; induction l as [|a l IH]; intros na H; [reflexivity|].
  simpl in H. injection H as Ha Hl. simpl. rewrite (IH (S na) Hl). f_equal.
  assert (Hi : va_index a = na) by (rewrite <- Ha; reflexivity). unfold erase_atom. rewrite Hi. reflexivity.
Qed.

Lemma num_res_h5 full nr na l : renum_res nr na l = l -> num_res nr na (map (h5_res full) l) = map (erase_res full) l.
Proof.
  revert nr na; induction l as [|r l IH]; intros nr na H; [reflexivity|].
  simpl in H. injection H as Hr Hl. simpl. rewrite map_length. rewrite (IH _ _ Hl). f_equal.
  assert (Ha : renum_atoms na (vr_atoms r) = vr_atoms r) by (rewrite <- Hr at 2; reflexivity).
  rewrite (num_atoms_h5 full na (vr_atoms r) Ha). unfold dres_seq; simpl.
  assert (Hi : vr_index r = nr) by (rewrite <- Hr; reflexivity). unfold erase_res. rewrite Hi. reflexivity.
Qed.

Lemma natoms_res_h5 full l : natoms_res (map (h5_res full) l) = natoms_vres l.
Proof. unfold natoms_res, natoms_vres. rewrite map_map. f_equal. apply map_ext. intros r; simpl. apply map_length. Qed.

Lemma num_chains_h5 full nc nr na l :
  renum_chains nc nr na l = l -> num_chains nc nr na (map (h5_chain full) l) = map (erase_chain full) l.
Proof.
  revert nc nr na; induction l as [|c l IH]; intros nc nr na H; [reflexivity|].
  simpl in H. injection H as Hc Hl. simpl. rewrite map_length, natoms_res_h5. rewrite (IH _ _ _ Hl). f_equal.
  assert (Hr : renum_res nr na (vc_res c) = vc_res c) by (rewrite <- Hc at 2; reflexivity).
  rewrite (num_res_h5 full nr na (vc_res c) Hr).
  assert (Hi : vc_index c = nc) by (rewrite <- Hc; reflexivity). unfold erase_chain. rewrite Hi. reflexivity.
Qed.

Definition h5_res_sorted (full : bool) (r : vres) : dres :=
  {| dr_name := vr_name r; dr_resSeq := Some (vr_resSeq r); dr_seg := vr_seg r;
     dr_atoms := map (fun a => {| da_name := va_name a; da_elem := va_elem a; da_serial := if full then va_serial a else None |})
                     (sort_by (fun x y => va_index x <=? va_index y) (vr_atoms r)) |}.
Definition h5_chain_sorted (full : bool) (c : vchain) : dchain :=
  {| dc_id := if full then vc_id c else None;
     dc_res := map (h5_res_sorted full) (sort_by (fun x y => vr_index x <=? vr_index y) (vc_res c)) |}.

Lemma h5_round_unfold full v :
  fst (h5_round full v) = map (h5_chain_sorted full) (sort_by (fun x y => vc_index x <=? vc_index y) (vt_chains v)).
Proof. reflexivity. Qed.

Lemma h5_res_sorted_eq full l : forall nr na, renum_res nr na l = l -> map (h5_res_sorted full) l = map (h5_res full) l.
Proof.
  induction l as [|r l IH]; intros nr na H; [reflexivity|].
  simpl in H. injection H as Hr Hl. simpl. rewrite (IH _ _ Hl). f_equal.
  assert (Ha : renum_atoms na (vr_atoms r) = vr_atoms r) by (rewrite <- Hr at 2; reflexivity).
  unfold h5_res_sorted, h5_res. f_equal.
  rewrite (sort_by_sorted _ (vr_atoms r)) by (eapply seq_sorted_by; apply (renum_atoms_fix na); exact Ha).
  reflexivity.
Qed.

Lemma h5_chain_sorted_eq full l : forall nc nr na, renum_chains nc nr na l = l -> map (h5_chain_sorted full) l = map (h5_chain full) l.
Proof.
  induction l as [|c l IH]; intros nc nr na H; [reflexivity|].
  simpl in H. injection H as Hc Hl. simpl. rewrite (IH _ _ _ Hl). f_equal.
  assert (Hr : renum_res nr na (vc_res c) = vc_res c) by (rewrite <- Hc at 2; reflexivity).
  unfold h5_chain_sorted, h5_chain. f_equal.
  rewrite (sort_by_sorted _ (vc_res c)) by (eapply seq_sorted_by; apply (renum_res_fix nr na); exact Hr).
  apply (h5_res_sorted_eq full _ nr na Hr).
Qed.

Lemma h5_round_desc full v :
  normal (vt_chains v) -> fst (h5_round full v) = map (h5_chain full) (vt_chains v).
Proof.
  unfold normal. intros Hn. rewrite h5_round_unfold.
  rewrite (sort_by_sorted _ (vt_chains v)) by (eapply seq_sorted_by; apply (renum_chains_fix 0 0 0); exact Hn).
  apply (h5_chain_sorted_eq full _ 0 0 0 Hn).
Qed.

(* what the decoded topology's chains will be (the builder numbers them 0,1,2,...) *)
Theorem h5_roundtrip full v :
  normal (vt_chains v) ->
  num_chains 0 0 0 (fst (h5_round full v)) = map (erase_chain full) (vt_chains v) /\
  snd (h5_round full v) =
  map (fun b => if full then (vb_i b, vb_j b, vb_type b, vb_order b) else (vb_i b, vb_j b, None, None)) (vt_bonds v).
Proof.
  intros Hn. split; [|reflexivity]. rewrite (h5_round_desc full v Hn). apply num_chains_h5. exact Hn.
Qed.

Lemma erase_full_id l : map (erase_chain true) l = l.
Proof.
  induction l as [|c l IH]; [reflexivity|]. simpl. rewrite IH. f_equal. destruct c as [i id rs]. unfold erase_chain; simpl. f_equal.
  induction rs as [|r rs IHr]; [reflexivity|]. simpl. rewrite IHr. f_equal. destruct r as [n i' s g ats]. unfold erase_res; simpl. f_equal.
  induction ats as [|a ats IHa]; [reflexivity|]. simpl. rewrite IHa. f_equal. destruct a; reflexivity.
Qed.

(* with a JSON schema that also holds serial, chain id, bond type and order nothing is lost *)
Corollary h5_roundtrip_full v :
  normal (vt_chains v) -> num_chains 0 0 0 (fst (h5_round true v)) = vt_chains v.
Proof. intros Hn. destruct (h5_roundtrip true v Hn) as [H _]. rewrite H. apply erase_full_id. Qed.

(* ------------------------------------------------------------------ data frame *)
Lemma group_by_head {A} (same : A -> A -> bool) y R : exists g0 gs, group_by same (y :: R) = (y :: g0) :: gs.
Proof.
  simpl. destruct (group_by same R) as [|[|z g] gs]; [eexists; eexists; reflexivity | eexists; eexists; reflexivity|].
  destruct (same y z); eexists; eexists; reflexivity.
Qed.

(* a run g of pairwise-adjacent "same" elements followed by a list whose first element is not
   "same" as the last of g is split off as one group *)
Fixpoint adj_same {A} (same : A -> A -> bool) (g : list A) : bool :=
  match g with
  | x :: ((y :: _) as r) => same x y && adj_same same r
  | _ => true
  end.
Definition boundary {A} (same : A -> A -> bool) (g R : list A) : Prop :=
  match R with [] => True | y :: _ => same (last g y) y = false end.

Lemma group_by_split {A} (same : A -> A -> bool) g R :
  g <> [] -> adj_same same g = true -> boundary same g R -> group_by same (g ++ R) = g :: group_by same R.
Proof.
  induction g as [|x g IH]; intros Hne Hadj Hb; [contradiction|].
  destruct g as [|x' g''].
  - simpl app. destruct R as [|y R']; [reflexivity|].
    simpl in Hb. destruct (group_by_head same y R') as [g0 [gs E]].
    change (group_by same (x :: y :: R')) with
      (match group_by same (y :: R') with (y0 :: g1) :: gs0 => if same x y0 then (x :: y0 :: g1) :: gs0 else [x] :: (y0 :: g1) :: gs0 | _ => [[x]] end).
    rewrite E, Hb. reflexivity.
  - simpl in Hadj. apply andb_prop in Hadj. destruct Hadj as [Hs Hadj].
    assert (IH' : group_by same ((x' :: g'') ++ R) = (x' :: g'') :: group_by same R).
    { apply IH; [discriminate | exact Hadj|]. destruct R; [exact I|]. simpl in *. exact Hb. }
    change (group_by same ((x :: x' :: g'') ++ R)) with
      (match group_by same ((x' :: g'') ++ R) with (y0 :: g1) :: gs0 => if same x y0 then (x :: y0 :: g1) :: gs0 else [x] :: (y0 :: g1) :: gs0 | _ => [[x]] end).
    rewrite IH', Hs. reflexivity.
Qed.

Definition res_rows (ci : nat) (r : vres) : list dfrow :=
  map (fun a => {| df_serial := va_serial a; df_name := va_name a; df_elem := va_elem a; df_resSeq := vr_resSeq r;
                   df_resName := vr_name r; df_chainID := ci; df_seg := vr_seg r |}) (vr_atoms r).
Definition chain_rows (c : vchain) : list dfrow := concat (map (res_rows (vc_index c)) (vc_res c)).

Lemma df_rows_eq v : df_rows v = concat (map chain_rows (vt_chains v)).
Proof. reflexivity. Qed.

Definition res_same (x y : dfrow) : bool := Z.eqb (df_resSeq x) (df_resSeq y) && String.eqb (df_resName x) (df_resName y).
Definition chain_same (x y : dfrow) : bool := Nat.eqb (df_chainID x) (df_chainID y).

Definition df_res (r : vres) : dres :=
  {| dr_name := vr_name r; dr_resSeq := Some (vr_resSeq r); dr_seg := vr_seg r;
     dr_atoms := map (fun a => {| da_name := va_name a; da_elem := va_elem a; da_serial := va_serial a |}) (vr_atoms r) |}.
Definition df_chain (c : vchain) : dchain := {| dc_id := None; dc_res := map df_res (vc_res c) |}.

(* consecutive residues of a chain differ in (resSeq, resName) *)
Fixpoint res_distinct (l : list vres) : Prop :=
  match l with
  | r :: ((r' :: _) as rest) => (Z.eqb (vr_resSeq r) (vr_resSeq r') && String.eqb (vr_name r) (vr_name r') = false) /\ res_distinct rest
  | _ => True
  end.
Fixpoint chain_distinct (l : list vchain) : Prop :=
  match l with
  | c :: ((c' :: _) as rest) => vc_index c <> vc_index c' /\ chain_distinct rest
  | _ => True
  end.

Lemma adj_same_map {A B} (same : B -> B -> bool) (f : A -> B) l :
  (forall x y, same (f x) (f y) = true) -> adj_same same (map f l) = true.
Proof.
  intros H. induction l as [|x [|y l] IH]; [reflexivity | reflexivity|]. simpl in *. rewrite H. exact IH.
Qed.

Lemma res_rows_same ci r : adj_same res_same (res_rows ci r) = true.
Proof.
  unfold res_rows. apply adj_same_map. intros x y. unfold res_same; simpl. rewrite Z.eqb_refl, String.eqb_refl. reflexivity.
Qed.

Lemma last_map {A B} (f : A -> B) l d d' : l <> [] -> last (map f l) d' = f (last l d).
Proof.
  induction l as [|x [|y l] IH]; intros H; [contradiction | reflexivity|]. simpl in *. apply IH. discriminate.
Qed.

Lemma res_rows_fields ci r x : In x (res_rows ci r) -> df_resSeq x = vr_resSeq r /\ df_resName x = vr_name r.
Proof. unfold res_rows. intros H. apply in_map_iff in H. destruct H as [a [<- _]]. split; reflexivity. Qed.

Lemma res_rows_nonempty ci r : vr_atoms r <> [] -> res_rows ci r <> [].
Proof. unfold res_rows. destruct (vr_atoms r); [contradiction | discriminate]. Qed.

Lemma last_in {A} (l : list A) d : l <> [] -> In (last l d) l.
Proof. induction l as [|x [|y l] IH]; intros H; [contradiction | left; reflexivity|]. right. apply IH. discriminate. Qed.

Lemma group_res ci l :
  (forall r, In r l -> vr_atoms r <> []) -> res_distinct l ->
  group_by res_same (concat (map (res_rows ci) l)) = map (res_rows ci) l.
Proof.
  induction l as [|r l IH]; intros Hne Hd; [reflexivity|].
  simpl. assert (Hr : vr_atoms r <> []) by (apply Hne; left; reflexivity).
  rewrite group_by_split.
  - f_equal. apply IH; [intros; apply Hne; right; auto|]. destruct l; [exact I | simpl in Hd; tauto].
  - apply res_rows_nonempty; exact Hr.
  - apply res_rows_same.
  - destruct l as [|r' l']; [exact I|].
    assert (Hr' : vr_atoms r' <> []) by (apply Hne; right; left; reflexivity).
    pose proof (res_rows_nonempty ci r' Hr') as Hn'.
    simpl. destruct (res_rows ci r') as [|y ys] eqn:E'; [contradiction|]. simpl. unfold boundary.
    assert (Hy : In y (res_rows ci r')) by (rewrite E'; left; reflexivity).
    apply res_rows_fields in Hy. destruct Hy as [Y1 Y2].
    pose proof (last_in (res_rows ci r) y (res_rows_nonempty ci r Hr)) as Hl. apply res_rows_fields in Hl. destruct Hl as [L1 L2].
    unfold res_same. rewrite Y1, Y2, L1, L2. simpl in Hd. tauto.
Qed.

Lemma chain_rows_same c : adj_same chain_same (chain_rows c) = true.
Proof.
  unfold chain_rows.
  assert (G : forall l : list dfrow, (forall x, In x l -> df_chainID x = vc_index c) -> adj_same chain_same l = true).
  { induction l as [|x [|y l] IH]; intros H; [reflexivity | reflexivity|].
    simpl. unfold chain_same at 1. rewrite (H x (or_introl eq_refl)), (H y (or_intror (or_introl eq_refl))), Nat.eqb_refl.
    apply IH. intros; apply H; right; auto. }
  apply G. intros x Hx. apply in_concat in Hx. destruct Hx as [l [Hl Hx]]. apply in_map_iff in Hl. destruct Hl as [r [<- _]].
  unfold res_rows in Hx. apply in_map_iff in Hx. destruct Hx as [a [<- _]]. reflexivity.
Qed.

Lemma chain_rows_id c x : In x (chain_rows c) -> df_chainID x = vc_index c.
Proof.
  intros Hx. unfold chain_rows in Hx. apply in_concat in Hx. destruct Hx as [l [Hl Hx]]. apply in_map_iff in Hl. destruct Hl as [r [<- _]].
  unfold res_rows in Hx. apply in_map_iff in Hx. destruct Hx as [a [<- _]]. reflexivity.
Qed.

Lemma chain_rows_nonempty c : vc_res c <> [] -> (forall r, In r (vc_res c) -> vr_atoms r <> []) -> chain_rows c <> [].
Proof.
  unfold chain_rows. destruct (vc_res c) as [|r rs]; [contradiction|]. intros _ H. simpl.
  specialize (H r (or_introl eq_refl)). unfold res_rows. destruct (vr_atoms r); [contradiction | discriminate].
Qed.

Lemma group_chains l :
  (forall c, In c l -> vc_res c <> [] /\ forall r, In r (vc_res c) -> vr_atoms r <> []) -> chain_distinct l ->
  group_by chain_same (concat (map chain_rows l)) = map chain_rows l.
Proof.
  induction l as [|c l IH]; intros Hne Hd; [reflexivity|].
  simpl. destruct (Hne c (or_introl eq_refl)) as [Hc1 Hc2].
  rewrite group_by_split.
  - f_equal. apply IH; [intros; apply Hne; right; auto|]. destruct l; [exact I | simpl in Hd; tauto].
  - apply chain_rows_nonempty; assumption.
  - apply chain_rows_same.
  - destruct l as [|c' l']; [exact I|]. simpl.
    destruct (Hne c' (or_intror (or_introl eq_refl))) as [Hc1' Hc2'].
    pose proof (chain_rows_nonempty c' Hc1' Hc2') as Hn'.
    destruct (chain_rows c') as [|y ys] eqn:E'; [contradiction|]. simpl.
    unfold boundary. unfold chain_same.
    rewrite (chain_rows_id c (last (chain_rows c) y)) by (apply last_in; apply chain_rows_nonempty; assumption).
    rewrite (chain_rows_id c' y) by (rewrite E'; left; reflexivity).
    apply Nat.eqb_neq. simpl in Hd. tauto.
Qed.

Lemma df_res_of_rows ci r : vr_atoms r <> [] -> df_res_of (res_rows ci r) = df_res r.
Proof.
  intros H. unfold res_rows, df_res_of, df_res. destruct (vr_atoms r) as [|a l]; [contradiction|]. simpl.
  f_equal. f_equal. rewrite map_map. reflexivity.
Qed.

(* exactness condition of the data-frame carrier *)
Definition df_exact (v : vtop) : Prop :=
  (forall c, In c (vt_chains v) -> vc_res c <> [] /\ (forall r, In r (vc_res c) -> vr_atoms r <> []) /\ res_distinct (vc_res c)) /\
  chain_distinct (vt_chains v).

Theorem df_decode_exact v : df_exact v -> df_decode_rows (df_rows v) = map df_chain (vt_chains v).
Proof.
  intros [Hc Hd]. unfold df_decode_rows. rewrite df_rows_eq.
  change (fun x y : dfrow => Nat.eqb (df_chainID x) (df_chainID y)) with chain_same.
  rewrite group_chains; [|intros c Hin; destruct (Hc c Hin) as [H1 [H2 _]]; auto | exact Hd].
  rewrite map_map. apply map_ext_in. intros c Hin. destruct (Hc c Hin) as [H1 [H2 H3]].
  unfold df_chain. f_equal.
  change (fun x y : dfrow => Z.eqb (df_resSeq x) (df_resSeq y) && String.eqb (df_resName x) (df_resName y)) with res_same.
  unfold chain_rows. rewrite group_res by assumption. rewrite map_map. apply map_ext_in. intros r Hr.
  apply df_res_of_rows. apply H2. exact Hr.
Qed.

Lemma num_chains_df nc nr na l :
  renum_chains nc nr na l = l -> num_chains nc nr na (map df_chain l) = map (fun c => {| vc_index := vc_index c; vc_id := None; vc_res := vc_res c |}) l.
Proof.
  revert nc nr na; induction l as [|c l IH]; intros nc nr na H; [reflexivity|].
  simpl in H. injection H as Hc Hl. simpl.
  assert (Hr : renum_res nr na (vc_res c) = vc_res c) by (rewrite <- Hc at 2; reflexivity).
  assert (Hi : vc_index c = nc) by (rewrite <- Hc; reflexivity).
  rewrite map_length.
  assert (N : natoms_res (map df_res (vc_res c)) = natoms_vres (vc_res c)).
  { unfold natoms_res, natoms_vres. rewrite map_map. f_equal. apply map_ext. intros r; simpl. apply map_length. }
  rewrite N, (IH _ _ _ Hl). f_equal. rewrite Hi. f_equal.
  clear - Hr. revert nr na Hr. induction (vc_res c) as [|r l IH]; intros nr na Hr; [reflexivity|].
  simpl in Hr. injection Hr as Hr0 Hl. simpl. rewrite map_length. rewrite (IH _ _ Hl). f_equal.
  assert (Ha : renum_atoms na (vr_atoms r) = vr_atoms r) by (rewrite <- Hr0 at 2; reflexivity).
  assert (Hi : vr_index r = nr) by (rewrite <- Hr0; reflexivity).
  unfold dres_seq; simpl. destruct r as [n i s g ats]; simpl in *. subst i. f_equal.
  clear - Ha. revert na Ha. induction ats as [|a l IH]; intros na Ha; [reflexivity|].
  simpl in Ha. injection Ha as Ha0 Hl. simpl. rewrite (IH _ Hl). f_equal.
  assert (Hi : va_index a = na) by (rewrite <- Ha0; reflexivity). destruct a; simpl in *. subst. reflexivity.
Qed.

(* data-frame round trip, exact case: everything but the chain ids survives (the frame has no
   column for them), bond types and orders included *)
Theorem df_roundtrip_partial v :
  normal (vt_chains v) -> df_exact v -> Forall vbond_ok (vt_bonds v) ->
  num_chains 0 0 0 (fst (df_round true v)) =
    map (fun c => {| vc_index := vc_index c; vc_id := None; vc_res := vc_res c |}) (vt_chains v) /\
  snd (df_round true v) = map bond4 (vt_bonds v).
Proof.
  intros Hn He Hb. unfold df_round. simpl. split.
  - rewrite (df_decode_exact v He). apply num_chains_df. exact Hn.
  - unfold df_bonds. rewrite map_map. apply map_ext_in. intros b Hin. rewrite Forall_forall in Hb.
    rewrite (EqHash.bond4_decode b (Hb b Hin)). unfold df_decode_bond, EqHash.key_decode.
    destruct (bond_key b) as [[[i j] q] o]. reflexivity.
Qed.
