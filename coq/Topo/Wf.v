(* C04: general well-formedness of a topology (ownership lists and counters mutually consistent),
   valid for topologies built and edited in any order, and its preservation by the editing
   operations add_chain / add_residue / add_atom / add_bond / insert_atom / delete_atom_by_index
   (repaired variants).  coq/Topo/Inv.v lifts this to whole op histories. *)
From Coq Require Import String Ascii.
From Coq Require Import List Arith ZArith Bool Lia Sorted Permutation.
Import ListNotations.
Require Import MD.Topo.Model MD.Topo.Basics MD.Topo.Build MD.Topo.AbsWalk MD.Topo.Copy.
Open Scope nat_scope.

Definition cres (h : heap) (c : loc) : list loc := match get_c h c with Some ch => c_res ch | None => [] end.
Definition ratoms (h : heap) (r : loc) : list loc := match get_r h r with Some rr => r_atoms rr | None => [] end.

Lemma cw_res_eq h cs : chainwise_residues h cs = concat (map (cres h) cs).
Proof. reflexivity. Qed.
Lemma cw_atoms_eq h cs : chainwise_atoms h cs = concat (map (ratoms h) (chainwise_residues h cs)).
Proof. reflexivity. Qed.

Record wf (h : heap) (t : topo) : Prop := {
  wf_heap : hwf h;
  wf_chains : NoDup (t_chains t) /\
              forall i c, nth_error (t_chains t) i = Some c -> exists ch, get_c h c = Some ch /\ c_index ch = i;
  wf_res : NoDup (chainwise_residues h (t_chains t)) /\
           Permutation (t_residues t) (chainwise_residues h (t_chains t)) /\
           forall i r, nth_error (t_residues t) i = Some r -> exists rr, get_r h r = Some rr /\ r_index rr = i;
  wf_atoms : NoDup (chainwise_atoms h (t_chains t)) /\
             Permutation (t_atoms t) (chainwise_atoms h (t_chains t)) /\
             forall i l, nth_error (t_atoms t) i = Some l -> exists a, get_a h l = Some a /\ a_index a = i;
  wf_back : back_ok h t;
  wf_counts : t_numAtoms t = length (t_atoms t) /\ t_numRes t = length (t_residues t);
  wf_bonds : forall b, In b (t_bonds t) -> In (b_a1 b) (t_atoms t) /\ In (b_a2 b) (t_atoms t) /\ order_ok (b_order b) = true
}.

Lemma wf_empty h : hwf h -> wf h empty_topo.
Proof.
  intros Hw. split; simpl; try exact Hw.
  - split; [constructor | intros i c H; destruct i; discriminate].
  - split; [constructor|]. split; [constructor | intros i c H; destruct i; discriminate].
  - split; [constructor|]. split; [constructor | intros i c H; destruct i; discriminate].
  - intros l a [].
  - split; reflexivity.
  - intros b [].
Qed.

(* ------------------------------------------------------------------ list facts *)
Lemma concat_map_update {A B} (f g : A -> list B) l x :
  NoDup l -> In x l -> (forall y, y <> x -> g y = f y) ->
  exists A1 A2, concat (map f l) = A1 ++ f x ++ A2 /\ concat (map g l) = A1 ++ g x ++ A2.
Proof.
  intros Hnd Hin Hfg. apply in_split in Hin. destruct Hin as [l1 [l2 ->]].
  apply NoDup_remove_2 in Hnd.
  exists (concat (map f l1)), (concat (map f l2)).
  rewrite !map_app, !concat_app. simpl.
  assert (E1 : map g l1 = map f l1).
  { apply map_ext_in. intros y Hy. apply Hfg. intros ->. apply Hnd. apply in_or_app. left. exact Hy. }
  assert (E2 : map g l2 = map f l2).
  { apply map_ext_in. intros y Hy. apply Hfg. intros ->. apply Hnd. apply in_or_app. right. exact Hy. }
  rewrite E1, E2. split; reflexivity.
Qed.

Lemma NoDup_app_iff {A} (l1 l2 : list A) :
  NoDup (l1 ++ l2) <-> NoDup l1 /\ NoDup l2 /\ forall x, In x l1 -> ~ In x l2.
Proof.
  induction l1 as [|a l1 IH]; simpl.
  - split; [intros H; repeat split; [constructor | exact H | intros x []] | intros [_ [H _]]; exact H].
  - split.
    + intros H. inversion H as [|? ? Hni Hnd]; subst. apply IH in Hnd. destruct Hnd as [N1 [N2 N3]].
      split; [constructor; [intros Hin; apply Hni; apply in_or_app; left; exact Hin | exact N1]|].
      split; [exact N2|]. intros x [<-|Hx]; [intros Hin; apply Hni; apply in_or_app; right; exact Hin | apply N3; exact Hx].
    + intros [N1 [N2 N3]]. inversion N1 as [|? ? Hni Hnd]; subst. constructor.
      * intros Hin. apply in_app_or in Hin. destruct Hin as [Hin|Hin]; [apply Hni; exact Hin | apply (N3 a); [left; reflexivity | exact Hin]].
      * apply IH. split; [exact Hnd|]. split; [exact N2|]. intros x Hx. apply N3. right. exact Hx.
Qed.

Lemma Permutation_insert_at {A} k (x : A) l : Permutation (x :: l) (insert_at k x l).
Proof.
  revert l; induction k as [|k IH]; intros l; [destruct l; reflexivity|].
  destruct l as [|y l]; simpl; [reflexivity|]. rewrite perm_swap. constructor. apply IH.
Qed.

Lemma insert_at_in {A} k (x y : A) l : In y (insert_at k x l) <-> y = x \/ In y l.
Proof.
  split; intros H.
  - apply (Permutation_in _ (Permutation_sym (Permutation_insert_at k x l))) in H. destruct H as [<-|H]; auto.
  - apply (Permutation_in _ (Permutation_insert_at k x l)). destruct H as [->|H]; [left; reflexivity | right; exact H].
Qed.

Lemma remove_first_perm {A} (p : A -> bool) l l' :
  remove_first p l = Some l' -> exists x, p x = true /\ Permutation l (x :: l').
Proof.
  revert l'; induction l as [|y l IH]; intros l' H; [discriminate|].
  simpl in H. destruct (p y) eqn:E.
  - inversion H; subst. exists y. split; [exact E | reflexivity].
  - destruct (remove_first p l) as [r|] eqn:Er; [|discriminate]. inversion H; subst.
    destruct (IH r eq_refl) as [x [Hx Hp]]. exists x. split; [exact Hx|].
    rewrite perm_swap. constructor. exact Hp.
Qed.

Lemma nth_error_insert_at {A} (l : list A) i x j : i <= length l ->
  nth_error (insert_at i x l) j =
  if j <? i then nth_error l j else if j =? i then Some x else nth_error l (j - 1).
Proof.
  revert l j; induction i as [|i IH]; intros l j Hi.
  - destruct j; simpl; [destruct l; reflexivity|]. rewrite Nat.sub_0_r. destruct l; reflexivity.
  - destruct l as [|y l]; [simpl in Hi; lia|]. simpl in Hi. destruct j as [|j]; [reflexivity|].
    simpl. rewrite (IH l j) by lia.
    change (S j <? S i) with (j <? i). change (S j =? S i) with (j =? i).
    destruct (j <? i) eqn:E1; [reflexivity|]. destruct (j =? i) eqn:E2; [reflexivity|].
    rewrite Nat.sub_0_r. apply Nat.ltb_ge in E1. apply Nat.eqb_neq in E2.
    destruct j as [|j']; [lia|]. simpl. rewrite Nat.sub_0_r. reflexivity.
Qed.

(* removing, from a list without duplicates, the element at position i *)
Fixpoint remove_nth {A} (i : nat) (l : list A) : list A :=
  match i, l with
  | _, [] => []
  | 0, _ :: r => r
  | S k, x :: r => x :: remove_nth k r
  end.

Lemma remove_first_eqb_nth (p : nat -> bool) l i x :
  (forall y, p y = Nat.eqb y x) ->
  NoDup l -> nth_error l i = Some x -> remove_first p l = Some (remove_nth i l).
Proof.
  intros Hp. revert i; induction l as [|y l IH]; intros i Hnd Hn; [destruct i; discriminate|].
  inversion Hnd as [|? ? Hni Hnd']; subst. destruct i as [|i]; simpl in *.
  - inversion Hn; subst. rewrite Hp, Nat.eqb_refl. reflexivity.
  - rewrite Hp. rewrite (eqb_false_ne y x) by (intros ->; apply Hni; eapply nth_error_In; eauto).
    rewrite (IH i Hnd' Hn). reflexivity.
Qed.

Lemma nth_error_remove_nth {A} (l : list A) i j :
  nth_error (remove_nth i l) j = if j <? i then nth_error l j else nth_error l (S j).
Proof.
  revert i j; induction l as [|y l IH]; intros i j.
  - destruct i, j; simpl; try reflexivity; destruct (_ <? _); reflexivity.
  - destruct i as [|i]; simpl; [reflexivity|]. destruct j as [|j]; [reflexivity|].
    simpl. rewrite IH. change (S j <? S i) with (j <? i). reflexivity.
Qed.

Lemma remove_nth_in {A} (l : list A) i x : In x (remove_nth i l) -> In x l.
Proof.
  revert i; induction l as [|y l IH]; intros i H; [destruct i; exact H|].
  destruct i as [|i]; simpl in H; [right; exact H|]. destruct H as [->|H]; [left; reflexivity | right; eapply IH; eauto].
Qed.

Lemma remove_nth_length {A} (l : list A) i : i < length l -> length (remove_nth i l) = pred (length l).
Proof.
  revert i; induction l as [|y l IH]; intros i H; [simpl in H; lia|].
  destruct i as [|i]; simpl; [reflexivity|]. simpl in H. rewrite IH by lia. destruct l; simpl in *; lia.
Qed.

(* ------------------------------------------------------------------ consequences of wf *)
Lemma cw_res_ext h h' cs : (forall c, In c cs -> get_c h' c = get_c h c) -> chainwise_residues h' cs = chainwise_residues h cs.
Proof. intros H. rewrite !cw_res_eq. f_equal. apply map_ext_in. intros c Hc. unfold cres. rewrite (H c Hc). reflexivity. Qed.

Lemma cw_atoms_ext h h' cs :
  chainwise_residues h' cs = chainwise_residues h cs ->
  (forall r, In r (chainwise_residues h cs) -> get_r h' r = get_r h r) -> chainwise_atoms h' cs = chainwise_atoms h cs.
Proof. intros E H. rewrite !cw_atoms_eq, E. f_equal. apply map_ext_in. intros r Hr. unfold ratoms. rewrite (H r Hr). reflexivity. Qed.

Section WfFacts.
  Variables (h : heap) (t : topo).
  Hypothesis W : wf h t.

  Lemma wf_chain_get c : In c (t_chains t) -> exists ch, get_c h c = Some ch /\ c < h_next h.
  Proof.
    intros Hin. apply In_nth_error in Hin. destruct Hin as [i Hi]. destruct (proj2 (wf_chains _ _ W) i c Hi) as [ch [G _]].
    exists ch. split; [exact G | eapply hwf_lt_c; [apply (wf_heap _ _ W) | exact G]].
  Qed.
  Lemma wf_res_get r : In r (t_residues t) -> exists rr, get_r h r = Some rr /\ r < h_next h.
  Proof.
    intros Hin. apply In_nth_error in Hin. destruct Hin as [i Hi]. destruct (proj2 (proj2 (wf_res _ _ W)) i r Hi) as [rr [G _]].
    exists rr. split; [exact G | eapply hwf_lt_r; [apply (wf_heap _ _ W) | exact G]].
  Qed.
  Lemma wf_atom_get l : In l (t_atoms t) -> exists a, get_a h l = Some a /\ l < h_next h.
  Proof.
    intros Hin. apply In_nth_error in Hin. destruct Hin as [i Hi]. destruct (proj2 (proj2 (wf_atoms _ _ W)) i l Hi) as [a [G _]].
    exists a. split; [exact G | eapply hwf_lt_a; [apply (wf_heap _ _ W) | exact G]].
  Qed.
  Lemma wf_res_iff r : In r (t_residues t) <-> In r (chainwise_residues h (t_chains t)).
  Proof.
    destruct (wf_res _ _ W) as [_ [P _]]. split; intros H; [eapply Permutation_in; eauto | eapply Permutation_in; [apply Permutation_sym; exact P | exact H]].
  Qed.
  Lemma wf_atom_iff l : In l (t_atoms t) <-> In l (chainwise_atoms h (t_chains t)).
  Proof.
    destruct (wf_atoms _ _ W) as [_ [P _]]. split; intros H; [eapply Permutation_in; eauto | eapply Permutation_in; [apply Permutation_sym; exact P | exact H]].
  Qed.
  Lemma wf_nodup_atoms : NoDup (t_atoms t).
  Proof. destruct (wf_atoms _ _ W) as [N [P _]]. eapply Permutation_NoDup; [apply Permutation_sym; exact P | exact N]. Qed.
  Lemma wf_nodup_res : NoDup (t_residues t).
  Proof. destruct (wf_res _ _ W) as [N [P _]]. eapply Permutation_NoDup; [apply Permutation_sym; exact P | exact N]. Qed.

  (* everything reachable is an allocated object *)
  Lemma wf_reach_lt : forall l, In l (reach h t) -> l < h_next h.
  Proof.
    intros l Hin. unfold reach in Hin.
    repeat (apply in_app_or in Hin; destruct Hin as [Hin|Hin]).
    - destruct (wf_chain_get l Hin) as [_ [_ H]]; exact H.
    - destruct (wf_res_get l Hin) as [_ [_ H]]; exact H.
    - apply wf_res_iff in Hin. destruct (wf_res_get l Hin) as [_ [_ H]]; exact H.
    - destruct (wf_atom_get l Hin) as [_ [_ H]]; exact H.
    - apply wf_atom_iff in Hin. destruct (wf_atom_get l Hin) as [_ [_ H]]; exact H.
    - unfold bond_ends in Hin. apply in_concat in Hin. destruct Hin as [e [He Hin]]. apply in_map_iff in He.
      destruct He as [b [<- Hb]]. destruct (wf_bonds _ _ W b Hb) as [B1 [B2 _]].
      destruct Hin as [<-|[<-|[]]]; [destruct (wf_atom_get _ B1) as [_ [_ H]] | destruct (wf_atom_get _ B2) as [_ [_ H]]]; exact H.
  Qed.
End WfFacts.

(* ------------------------------------------------------------------ wf depends only on what the topology reaches *)
Lemma in_reach_chain h t l : In l (t_chains t) -> In l (reach h t).
Proof. intros H. unfold reach. apply in_or_app; left; exact H. Qed.
Lemma in_reach_cwres h t l : In l (chainwise_residues h (t_chains t)) -> In l (reach h t).
Proof. intros H. unfold reach. do 2 (apply in_or_app; right). apply in_or_app; left; exact H. Qed.
Lemma in_reach_res h t l : In l (t_residues t) -> In l (reach h t).
Proof. intros H. unfold reach. apply in_or_app; right. apply in_or_app; left; exact H. Qed.
Lemma in_reach_atom h t l : In l (t_atoms t) -> In l (reach h t).
Proof. intros H. unfold reach. do 3 (apply in_or_app; right). apply in_or_app; left; exact H. Qed.
Lemma in_reach_cwatom h t l : In l (chainwise_atoms h (t_chains t)) -> In l (reach h t).
Proof. intros H. unfold reach. do 4 (apply in_or_app; right). apply in_or_app; left; exact H. Qed.

Definition same_on (h h' : heap) (l : loc) : Prop :=
  get_a h' l = get_a h l /\ get_r h' l = get_r h l /\ get_c h' l = get_c h l.

Lemma wf_agree_on h h' t :
  wf h t -> hwf h' -> (forall l, In l (reach h t) -> same_on h h' l) -> wf h' t /\ reach h' t = reach h t.
Proof.
  intros W Hw' H.
  assert (Ec : forall c, In c (t_chains t) -> get_c h' c = get_c h c) by (intros c Hc; apply H; apply in_reach_chain; exact Hc).
  assert (ER : chainwise_residues h' (t_chains t) = chainwise_residues h (t_chains t)) by (apply cw_res_ext; exact Ec).
  assert (Er : forall r, In r (chainwise_residues h (t_chains t)) -> get_r h' r = get_r h r)
    by (intros r Hr; apply H; apply in_reach_cwres; exact Hr).
  assert (EA : chainwise_atoms h' (t_chains t) = chainwise_atoms h (t_chains t)) by (apply cw_atoms_ext; assumption).
  assert (Ea : forall l, In l (t_atoms t) -> get_a h' l = get_a h l) by (intros l Hl; apply H; apply in_reach_atom; exact Hl).
  split; [|unfold reach; rewrite ER, EA; reflexivity].
  destruct W as [Hw [Nc Ic] [Nr [Pr Ir]] [Na [Pa Ia]] Hb [C1 C2] Bo].
  split.
  - exact Hw'.
  - split; [exact Nc|]. intros i c Hi. rewrite (Ec c (nth_error_In _ _ Hi)). apply Ic. exact Hi.
  - rewrite ER. split; [exact Nr|]. split; [exact Pr|]. intros i r Hi.
    assert (get_r h' r = get_r h r) by (apply H; apply in_reach_res; eapply nth_error_In; eauto). rewrite H0. apply Ir. exact Hi.
  - rewrite EA. split; [exact Na|]. split; [exact Pa|]. intros i l Hi. rewrite (Ea l (nth_error_In _ _ Hi)). apply Ia. exact Hi.
  - intros l a Hin G. rewrite (Ea l Hin) in G. eapply Hb; eauto.
  - split; assumption.
  - exact Bo.
Qed.

(* ------------------------------------------------------------------ add_chain *)
Lemma add_chain_wf h t cid h' t' l :
  wf h t -> add_chain h t cid = (h', t', l) ->
  wf h' t' /\ (forall x, In x (reach h' t') -> In x (reach h t) \/ h_next h <= x) /\
  (forall x, x < h_next h -> same_on h h' x) /\ h_next h <= h_next h'.
Proof.
  intros W E. unfold add_chain in E. inversion E; subst h' t' l; clear E.
  set (l0 := h_next h). set (c0 := {| c_index := length (t_chains t); c_id := cid; c_res := [] |}).
  set (h' := set_c (bump h) l0 c0).
  pose proof (wf_heap _ _ W) as Hw.
  assert (Hlt : forall c, In c (t_chains t) -> c < l0) by (intros c Hc; destruct (wf_chain_get h t W c Hc) as [_ [_ H]]; exact H).
  assert (Ga : forall x, get_a h' x = get_a h x) by (intros; unfold h'; heap_simpl; reflexivity).
  assert (Gr : forall x, get_r h' x = get_r h x) by (intros; unfold h'; heap_simpl; reflexivity).
  assert (Gc : forall x, x <> l0 -> get_c h' x = get_c h x) by (intros x Hx; unfold h'; heap_simpl; rewrite (eqb_false_ne l0 x) by auto; reflexivity).
  assert (Gc0 : get_c h' l0 = Some c0) by (unfold h'; heap_simpl; rewrite Nat.eqb_refl; reflexivity).
  assert (Hw' : hwf h').
  { intros x Hx. unfold h' in Hx. heap_simpl. fold l0 in Hx. destruct (Hw x ltac:(unfold l0 in *; lia)) as [A [R C]].
    rewrite Ga, Gr, Gc by lia. auto. }
  assert (ER : chainwise_residues h' (t_chains t ++ [l0]) = chainwise_residues h (t_chains t)).
  { rewrite !cw_res_eq, map_app, concat_app. simpl. unfold cres at 2. rewrite Gc0. simpl. rewrite app_nil_r.
    f_equal. apply map_ext_in. intros c Hc. unfold cres. rewrite Gc by (specialize (Hlt c Hc); lia). reflexivity. }
  assert (EA : chainwise_atoms h' (t_chains t ++ [l0]) = chainwise_atoms h (t_chains t)).
  { rewrite !cw_atoms_eq, ER. f_equal; try (apply map_ext; intros r; unfold ratoms; rewrite Gr; reflexivity). }
  destruct W as [_ [Nc Ic] [Nr [Pr Ir]] [Na [Pa Ia]] Hb [C1 C2] Bo].
  split; [|split; [|split]].
  - split; simpl.
    + exact Hw'.
    + split.
      * apply NoDup_app_iff. split; [exact Nc|]. split; [repeat constructor; intros []|].
        intros x Hx [<-|[]]. specialize (Hlt _ Hx). lia.
      * intros i c Hi. destruct (Nat.lt_ge_cases i (length (t_chains t))) as [Hl|Hg].
        -- rewrite nth_error_app1 in Hi by exact Hl. rewrite Gc by (specialize (Hlt c (nth_error_In _ _ Hi)); lia). apply Ic. exact Hi.
        -- rewrite nth_error_app2 in Hi by exact Hg. destruct (i - length (t_chains t)) as [|k] eqn:Ek; [|destruct k; discriminate].
           simpl in Hi. inversion Hi; subst c. exists c0. split; [exact Gc0 | simpl; lia].
    + rewrite ER. split; [exact Nr|]. split; [exact Pr|]. intros i r Hi. rewrite Gr. apply Ir. exact Hi.
    + rewrite EA. split; [exact Na|]. split; [exact Pa|]. intros i x Hi. rewrite Ga. apply Ia. exact Hi.
    + intros x a Hin G. simpl in *. rewrite Ga in G. eapply Hb; eauto.
    + split; assumption.
    + exact Bo.
  - intros x Hin. unfold reach in Hin. simpl in Hin. rewrite ER, EA in Hin.
    rewrite <- app_assoc in Hin. apply in_app_or in Hin. destruct Hin as [Hin|Hin]; [left; apply in_reach_chain; exact Hin|].
    simpl in Hin. destruct Hin as [<-|Hin]; [right; unfold l0; lia|]. left. unfold reach. apply in_or_app; right. exact Hin.
  - intros x Hx. unfold same_on. rewrite Ga, Gr, Gc by (unfold l0; lia). auto.
  - unfold h'. heap_simpl. lia.
Qed.

(* ------------------------------------------------------------------ add_residue *)
Lemma concat_insert_nil {A B} (f : A -> list B) l1 s x l2 :
  f x = [] -> concat (map f (l1 ++ (s ++ [x]) ++ l2)) = concat (map f (l1 ++ s ++ l2)).
Proof. intros H. rewrite !map_app, !concat_app. simpl. rewrite H. simpl. rewrite app_nil_r. reflexivity. Qed.

Lemma add_residue_wf h t name c rs seg h' t' l :
  wf h t -> In c (t_chains t) -> add_residue h t name c rs seg = Some (h', t', l) ->
  wf h' t' /\ (forall x, In x (reach h' t') -> In x (reach h t) \/ h_next h <= x) /\
  (forall x, x < h_next h -> ~ In x (reach h t) -> same_on h h' x) /\ h_next h <= h_next h'.
Proof.
  intros W Hc E. pose proof (wf_heap _ _ W) as Hw.
  destruct (wf_chain_get h t W c Hc) as [ch [Gc Hclt]].
  unfold add_residue in E. rewrite Gc in E. simpl in E. inversion E; subst h' t' l; clear E.
  set (l0 := h_next h) in *.
  set (r0 := {| r_name := name; r_index := t_numRes t; r_chain := c;
                r_resSeq := match rs with Some z => z | None => Z.of_nat (t_numRes t) end; r_seg := seg; r_atoms := [] |}).
  set (ch' := {| c_index := c_index ch; c_id := c_id ch; c_res := c_res ch ++ [l0] |}).
  set (h' := set_c (set_r (bump h) l0 r0) c ch').
  assert (Ga : forall x, get_a h' x = get_a h x) by (intros; unfold h'; heap_simpl; reflexivity).
  assert (Gr : forall x, x <> l0 -> get_r h' x = get_r h x) by (intros x Hx; unfold h'; heap_simpl; rewrite (eqb_false_ne l0 x) by auto; reflexivity).
  assert (Gr0 : get_r h' l0 = Some r0) by (unfold h'; heap_simpl; rewrite Nat.eqb_refl; reflexivity).
  assert (Gcn : forall x, x <> c -> get_c h' x = get_c h x) by (intros x Hx; unfold h'; heap_simpl; rewrite (eqb_false_ne c x) by auto; reflexivity).
  assert (Gcc : get_c h' c = Some ch') by (unfold h'; heap_simpl; rewrite Nat.eqb_refl; reflexivity).
  assert (Hw' : hwf h').
  { intros x Hx. unfold h' in Hx. heap_simpl. fold l0 in Hx. destruct (Hw x ltac:(unfold l0 in *; lia)) as [A [R C]].
    rewrite Ga, Gr, Gcn by (unfold l0 in *; lia). auto. }
  destruct W as [_ [Nc Ic] [Nr [Pr Ir]] [Na [Pa Ia]] Hb [C1 C2] Bo].
  (* the chain-wise residue list gains l0 at the end of c's segment *)
  destruct (concat_map_update (cres h) (cres h') (t_chains t) c Nc Hc) as [R1 [R2 [ER ER']]].
  { intros y Hy. unfold cres. rewrite Gcn by exact Hy. reflexivity. }
  assert (Ecr : cres h c = c_res ch) by (unfold cres; rewrite Gc; reflexivity).
  assert (Ecr' : cres h' c = c_res ch ++ [l0]) by (unfold cres; rewrite Gcc; reflexivity).
  rewrite Ecr in ER. rewrite Ecr' in ER'. rewrite <- !cw_res_eq in ER, ER'.
  assert (Hfresh_r : forall r, In r (chainwise_residues h (t_chains t)) -> r < l0).
  { intros r Hr. eapply Permutation_in in Hr; [|apply Permutation_sym; exact Pr]. apply In_nth_error in Hr. destruct Hr as [i Hi].
    destruct (Ir i r Hi) as [rr [G _]]. eapply hwf_lt_r; eauto. }
  assert (EA : chainwise_atoms h' (t_chains t) = chainwise_atoms h (t_chains t)).
  { rewrite !cw_atoms_eq, ER', ER.
    etransitivity; [apply concat_insert_nil; unfold ratoms; rewrite Gr0; reflexivity|].
    f_equal. apply map_ext_in. intros r Hr. unfold ratoms. rewrite Gr; [reflexivity|].
    rewrite <- ER in Hr. specialize (Hfresh_r r Hr). lia. }
  assert (PR' : Permutation (t_residues t ++ [l0]) (chainwise_residues h' (t_chains t))).
  { rewrite ER'. rewrite ER in Pr.
    assert (Eq : R1 ++ (c_res ch ++ [l0]) ++ R2 = (R1 ++ c_res ch) ++ l0 :: R2) by (rewrite <- !app_assoc; reflexivity).
    rewrite Eq. etransitivity; [apply Permutation_app_comm|]. simpl. apply Permutation_cons_app.
    rewrite <- app_assoc. exact Pr. }
  split; [|split; [|split]].
  - split; simpl.
    + exact Hw'.
    + split; [exact Nc|]. intros i x Hi. destruct (Nat.eq_dec x c) as [->|Hne].
      * exists ch'. split; [exact Gcc|]. destruct (Ic i c Hi) as [ch0 [G0 I0]]. assert (ch0 = ch) by congruence. subst ch0. exact I0.
      * rewrite Gcn by exact Hne. apply Ic. exact Hi.
    + split; [|split].
      * eapply Permutation_NoDup; [exact PR'|]. apply NoDup_app_iff. split; [eapply Permutation_NoDup; [apply Permutation_sym; exact Pr | exact Nr]|].
        split; [repeat constructor; intros []|]. intros x Hx [<-|[]].
        assert (In l0 (chainwise_residues h (t_chains t))) by (eapply Permutation_in; eauto). specialize (Hfresh_r _ H). lia.
      * exact PR'.
      * intros i r Hi. destruct (Nat.lt_ge_cases i (length (t_residues t))) as [Hl|Hg].
        -- rewrite nth_error_app1 in Hi by exact Hl. rewrite Gr; [apply Ir; exact Hi|].
           assert (In r (chainwise_residues h (t_chains t))) by (eapply Permutation_in; [exact Pr | eapply nth_error_In; eauto]).
           specialize (Hfresh_r _ H). lia.
        -- rewrite nth_error_app2 in Hi by exact Hg. destruct (i - length (t_residues t)) as [|k] eqn:Ek; [|destruct k; discriminate].
           simpl in Hi. inversion Hi; subst r. exists r0. split; [exact Gr0 | simpl; lia].
    + rewrite EA. split; [exact Na|]. split; [exact Pa|]. intros i x Hi. rewrite Ga. apply Ia. exact Hi.
    + intros x a Hin G. simpl in *. rewrite Ga in G. apply in_or_app. left. eapply Hb; eauto.
    + split; [exact C1 | rewrite app_length; simpl; lia].
    + exact Bo.
  - intros x Hin. unfold reach in Hin. simpl in Hin. rewrite EA in Hin.
    repeat (apply in_app_or in Hin; destruct Hin as [Hin|Hin]).
    + left; apply in_reach_chain; exact Hin.
    + left; apply in_reach_res; exact Hin.
    + destruct Hin as [<-|[]]. right. unfold l0; lia.
    + eapply Permutation_in in Hin; [|apply Permutation_sym; exact PR']. apply in_app_or in Hin.
      destruct Hin as [Hin|[<-|[]]]; [left; apply in_reach_res; exact Hin | right; unfold l0; lia].
    + left; apply in_reach_atom; exact Hin.
    + left; apply in_reach_cwatom; exact Hin.
    + left. unfold reach. do 5 (apply in_or_app; right). exact Hin.
  - intros x Hx Hni. unfold same_on. rewrite Ga, Gr by (unfold l0; lia).
    rewrite Gcn; [auto|]. intros ->. apply Hni. apply in_reach_chain. exact Hc.
  - unfold h'. heap_simpl. lia.
Qed.

(* ------------------------------------------------------------------ one new atom in residue r (add_atom, insert_atom) *)
Definition with_atoms (t : topo) (T : list loc) (n : nat) : topo :=
  {| t_chains := t_chains t; t_residues := t_residues t; t_atoms := T; t_bonds := t_bonds t;
     t_numAtoms := n; t_numRes := t_numRes t |}.

Lemma atom_insert_wf h t r rr h' L' T' a0 :
  wf h t -> In r (t_residues t) -> get_r h r = Some rr ->
  let l0 := h_next h in
  hwf h' -> h_next h' = S l0 ->
  (forall x, get_c h' x = get_c h x) ->
  (forall x, x <> r -> get_r h' x = get_r h x) ->
  get_r h' r = Some (res_with_atoms rr L') -> Permutation (l0 :: r_atoms rr) L' ->
  get_a h' l0 = Some a0 -> a_res a0 = r ->
  Permutation (l0 :: t_atoms t) T' ->
  (forall i l, nth_error T' i = Some l -> exists a, get_a h' l = Some a /\ a_index a = i) ->
  (forall x a', In x (t_atoms t) -> get_a h' x = Some a' -> exists a, get_a h x = Some a /\ a_res a' = a_res a) ->
  wf h' (with_atoms t T' (S (t_numAtoms t))) /\
  (forall x, In x (reach h' (with_atoms t T' (S (t_numAtoms t)))) -> In x (reach h t) \/ h_next h <= x).
Proof.
  intros W Hr Grr l0 Hw' Hn' Gc Gr Grn PL Ga0 Ra0 PT Idx Back.
  pose proof (wf_heap _ _ W) as Hw.
  assert (HrRL : In r (chainwise_residues h (t_chains t))) by (apply (wf_res_iff h t W); exact Hr).
  assert (ER : chainwise_residues h' (t_chains t) = chainwise_residues h (t_chains t)) by (apply cw_res_ext; intros; apply Gc).
  assert (Hfresh : forall x, In x (t_atoms t) -> x < l0) by (intros x Hx; destruct (wf_atom_get h t W x Hx) as [_ [_ H]]; exact H).
  destruct W as [_ [Nc Ic] [Nr [Pr Ir]] [Na [Pa Ia]] Hb [C1 C2] Bo].
  destruct (concat_map_update (ratoms h) (ratoms h') (chainwise_residues h (t_chains t)) r Nr HrRL) as [A1 [A2 [EA EA']]].
  { intros y Hy. unfold ratoms. rewrite Gr by exact Hy. reflexivity. }
  assert (E1 : ratoms h r = r_atoms rr) by (unfold ratoms; rewrite Grr; reflexivity).
  assert (E2 : ratoms h' r = L') by (unfold ratoms; rewrite Grn; reflexivity).
  rewrite E1 in EA. rewrite E2 in EA'. rewrite <- cw_atoms_eq in EA. rewrite <- ER, <- cw_atoms_eq in EA'.
  assert (PA' : Permutation (l0 :: chainwise_atoms h (t_chains t)) (chainwise_atoms h' (t_chains t))).
  { rewrite EA, EA'. transitivity (A1 ++ (l0 :: r_atoms rr) ++ A2); [simpl; apply Permutation_middle|].
    apply Permutation_app_head. apply Permutation_app_tail. exact PL. }
  assert (Hl0 : ~ In l0 (chainwise_atoms h (t_chains t))).
  { intros Hin. eapply Permutation_in in Hin; [|apply Permutation_sym; exact Pa]. specialize (Hfresh _ Hin). lia. }
  split.
  - split; simpl.
    + exact Hw'.
    + split; [exact Nc|]. intros i c Hi. rewrite Gc. apply Ic. exact Hi.
    + rewrite ER. split; [exact Nr|]. split; [exact Pr|]. intros i x Hi.
      destruct (Nat.eq_dec x r) as [->|Hne].
      * rewrite Grn. eexists. split; [reflexivity|]. destruct (Ir i r Hi) as [rr0 [G0 I0]]. assert (rr0 = rr) by congruence. subst rr0. exact I0.
      * rewrite Gr by exact Hne. apply Ir. exact Hi.
    + split; [|split].
      * eapply Permutation_NoDup; [exact PA'|]. constructor; assumption.
      * transitivity (l0 :: t_atoms t); [apply Permutation_sym; exact PT|]. transitivity (l0 :: chainwise_atoms h (t_chains t)); [constructor; exact Pa | exact PA'].
      * exact Idx.
    + intros x a Hin G. simpl in *. eapply Permutation_in in Hin; [|apply Permutation_sym; exact PT].
      destruct Hin as [<-|Hin].
      * assert (a = a0) by congruence. subst a. rewrite Ra0. exact Hr.
      * destruct (Back x a Hin G) as [a1 [G1 E]]. rewrite E. eapply Hb; eauto.
    + pose proof (Permutation_length PT) as HL. unfold with_atoms; simpl in *. split; [rewrite C1; exact HL | exact C2].
    + intros b Hbin. destruct (Bo b Hbin) as [B1 [B2 B3]].
      split; [eapply Permutation_in; [exact PT | right; exact B1]|]. split; [eapply Permutation_in; [exact PT | right; exact B2] | exact B3].
  - intros x Hin. unfold reach in Hin. simpl in Hin. rewrite ER in Hin.
    repeat (apply in_app_or in Hin; destruct Hin as [Hin|Hin]).
    + left; apply in_reach_chain; exact Hin.
    + left; apply in_reach_res; exact Hin.
    + left; apply in_reach_cwres; exact Hin.
    + eapply Permutation_in in Hin; [|apply Permutation_sym; exact PT]. destruct Hin as [<-|Hin]; [right; unfold l0; lia | left; apply in_reach_atom; exact Hin].
    + eapply Permutation_in in Hin; [|apply Permutation_sym; exact PA']. destruct Hin as [<-|Hin]; [right; unfold l0; lia | left; apply in_reach_cwatom; exact Hin].
    + left. unfold reach. do 5 (apply in_or_app; right). exact Hin.
Qed.

(* add_atom *)
Lemma add_atom_wf h t name el r ser h' t' l :
  wf h t -> In r (t_residues t) -> add_atom h t name el r ser = Some (h', t', l) ->
  wf h' t' /\ (forall x, In x (reach h' t') -> In x (reach h t) \/ h_next h <= x) /\ h_next h <= h_next h'.
Proof.
  intros W Hr E. pose proof (wf_heap _ _ W) as Hw.
  destruct (wf_res_get h t W r Hr) as [rr [Grr Hrlt]].
  unfold add_atom in E. rewrite Grr in E. simpl in E. inversion E; subst h' t' l; clear E.
  set (l0 := h_next h) in *.
  set (a0 := {| a_name := name; a_elem := el; a_index := t_numAtoms t; a_res := r; a_serial := ser |}).
  set (h' := set_r (set_a (bump h) l0 a0) r (res_with_atoms rr (r_atoms rr ++ [l0]))).
  assert (Ga : forall x, x <> l0 -> get_a h' x = get_a h x) by (intros x Hx; unfold h'; heap_simpl; rewrite (eqb_false_ne l0 x) by auto; reflexivity).
  assert (Ga0 : get_a h' l0 = Some a0) by (unfold h'; heap_simpl; rewrite Nat.eqb_refl; reflexivity).
  assert (Hfresh : forall x, In x (t_atoms t) -> x < l0) by (intros x Hx; destruct (wf_atom_get h t W x Hx) as [_ [_ H]]; exact H).
  destruct (wf_counts _ _ W) as [C1 _].
  pose proof (proj2 (proj2 (wf_atoms _ _ W))) as Ia.
  assert (G : wf h' (with_atoms t (t_atoms t ++ [l0]) (S (t_numAtoms t))) /\
              (forall x, In x (reach h' (with_atoms t (t_atoms t ++ [l0]) (S (t_numAtoms t)))) -> In x (reach h t) \/ h_next h <= x)).
  { apply (atom_insert_wf h t r rr h' (r_atoms rr ++ [l0]) (t_atoms t ++ [l0]) a0 W Hr Grr).
    - intros x Hx. unfold h' in Hx. heap_simpl. fold l0 in Hx. destruct (Hw x ltac:(unfold l0 in *; lia)) as [A [R C]].
      unfold h'. heap_simpl. rewrite (eqb_false_gt l0 x) by lia. rewrite (eqb_false_gt r x) by (unfold l0 in *; lia). auto.
    - unfold h'. heap_simpl. reflexivity.
    - intros x. unfold h'. heap_simpl. reflexivity.
    - intros x Hx. unfold h'. heap_simpl. rewrite (eqb_false_ne r x) by auto. reflexivity.
    - unfold h'. heap_simpl. rewrite Nat.eqb_refl. reflexivity.
    - apply Permutation_cons_append.
    - exact Ga0.
    - reflexivity.
    - apply Permutation_cons_append.
    - intros i x Hi. destruct (Nat.lt_ge_cases i (length (t_atoms t))) as [Hl|Hg].
      + rewrite nth_error_app1 in Hi by exact Hl. rewrite Ga by (specialize (Hfresh x (nth_error_In _ _ Hi)); lia). apply Ia. exact Hi.
      + rewrite nth_error_app2 in Hi by exact Hg. destruct (i - length (t_atoms t)) as [|k] eqn:Ek; [|destruct k; discriminate].
        simpl in Hi. inversion Hi; subst x. exists a0. split; [exact Ga0 | simpl; lia].
    - intros x a' Hx Gx. rewrite Ga in Gx by (specialize (Hfresh x Hx); lia). exists a'. split; [exact Gx | reflexivity]. }
  destruct G as [G1 G2]. split; [exact G1|]. split; [exact G2|]. unfold h'. heap_simpl. lia.
Qed.

(* ------------------------------------------------------------------ index shifts *)
Lemma shift_indices_spec ls : forall h up h',
  NoDup ls -> shift_indices h ls up = Some h' ->
  h_next h' = h_next h /\ (forall l, get_r h' l = get_r h l) /\ (forall l, get_c h' l = get_c h l) /\
  (forall l, ~ In l ls -> get_a h' l = get_a h l) /\
  (forall l, In l ls -> exists a, get_a h l = Some a /\
                                  get_a h' l = Some (atom_with_index a (if up then S (a_index a) else pred (a_index a)))).
Proof.
  induction ls as [|x ls IH]; intros h up h' Hnd H.
  - inversion H; subst. repeat split; auto. intros l [].
  - simpl in H. inv_bind H. rename x0 into a. inversion Hnd as [|? ? Hni Hnd']; subst.
    destruct (IH _ _ _ Hnd' H) as [N [R [C [F S]]]]. heap_simpl.
    split; [exact N|]. split; [intros l; rewrite R; heap_simpl; reflexivity|]. split; [intros l; rewrite C; heap_simpl; reflexivity|].
    split.
    + intros l Hl. rewrite F by (intros Hin; apply Hl; right; exact Hin). heap_simpl.
      rewrite (eqb_false_ne x l) by (intros ->; apply Hl; left; reflexivity). reflexivity.
    + intros l [<-|Hl].
      * exists a. split; [exact E|]. rewrite F by exact Hni. heap_simpl. rewrite Nat.eqb_refl. reflexivity.
      * destruct (S l Hl) as [a' [G1 G2]]. heap_simpl.
        assert (x <> l) by (intros ->; apply Hni; exact Hl). rewrite (eqb_false_ne x l) in G1 by auto.
        exists a'. split; assumption.
Qed.

Lemma nth_error_skipn {A} (l : list A) n j : nth_error (skipn n l) j = nth_error l (n + j).
Proof. revert l; induction n as [|n IH]; intros l; [reflexivity|]. destruct l; [destruct j; reflexivity | apply IH]. Qed.

Lemma in_skipn_pos {A} (l : list A) n x : In x (skipn n l) -> exists j, n <= j /\ nth_error l j = Some x.
Proof. intros H. apply In_nth_error in H. destruct H as [j Hj]. rewrite nth_error_skipn in Hj. exists (n + j). split; [lia | exact Hj]. Qed.

Lemma NoDup_nth_inj {A} (l : list A) i j x : NoDup l -> nth_error l i = Some x -> nth_error l j = Some x -> i = j.
Proof.
  intros Hnd Hi Hj. assert (i < length l) by (apply nth_error_Some; congruence).
  apply (proj1 (NoDup_nth_error l) Hnd i j H). congruence.
Qed.

Lemma NoDup_skipn {A} n (l : list A) : NoDup l -> NoDup (skipn n l).
Proof. revert l; induction n as [|n IH]; intros l H; [exact H|]. destruct l; [constructor|]. inversion H; subst. apply IH. assumption. Qed.

Lemma skipn_in' {A} n (l : list A) x : In x (skipn n l) -> In x l.
Proof. revert l; induction n as [|n IH]; intros l H; [exact H|]. destruct l; [destruct H|]. right. apply IH. exact H. Qed.
Lemma eqb_false_gt' a b : b < a -> Nat.eqb a b = false.
Proof. intros; apply Nat.eqb_neq; lia. Qed.

(* ------------------------------------------------------------------ insert_atom *)
Lemma insert_atom_wf h t name el r index rindex ser h' t' l :
  wf h t -> In r (t_residues t) -> insert_atom h t name el r index rindex ser = Some (h', t', l) ->
  wf h' t' /\ (forall x, In x (reach h' t') -> In x (reach h t) \/ h_next h <= x) /\ h_next h <= h_next h'.
Proof.
  intros W Hr E. pose proof (wf_heap _ _ W) as Hw.
  destruct (wf_res_get h t W r Hr) as [rr [Grr Hrlt]].
  assert (Hfresh : forall x, In x (t_atoms t) -> x < h_next h) by (intros x Hx; destruct (wf_atom_get h t W x Hx) as [_ [_ H]]; exact H).
  pose proof (proj2 (proj2 (wf_atoms _ _ W))) as Ia.
  pose proof (wf_nodup_atoms h t W) as NdT.
  destruct (wf_counts _ _ W) as [C1 _].
  unfold insert_atom in E. set (l0 := h_next h) in *.
  assert (HL : forall L', (match rindex with
                           | Some k => if k <=? length (r_atoms rr) then Some (insert_at k l0 (r_atoms rr)) else None
                           | None => Some (r_atoms rr ++ [l0]) end) = Some L' -> Permutation (l0 :: r_atoms rr) L').
  { intros L' HL'. destruct rindex as [k|]; [destruct (k <=? length (r_atoms rr)); [|discriminate]|]; inversion HL'; subst.
    - apply Permutation_insert_at. - apply Permutation_cons_append. }
  destruct index as [i|].
  - (* insertion at position i: later atoms are shifted up *)
    destruct (length (t_atoms t) <? i) eqn:Ei; [discriminate|]. apply Nat.ltb_ge in Ei.
    set (a0 := {| a_name := name; a_elem := el; a_index := i; a_res := r; a_serial := ser |}) in *.
    set (h1 := set_a (bump h) l0 a0) in *.
    inv_bind E. rename x into h2. rename E0 into Es.
    assert (Hnd : NoDup (skipn i (t_atoms t))) by (apply NoDup_skipn; exact NdT).
    destruct (shift_indices_spec _ _ _ _ Hnd Es) as [N2 [R2 [C2 [F2 S2]]]].
    inv_bind E. rename x into rr2. inv_bind E. rename x into L'. inversion E; subst h' t' l; clear E.
    assert (rr2 = rr) by (rewrite R2 in E0; unfold h1 in E0; heap_simpl; congruence). subst rr2.
    assert (Hl0 : ~ In l0 (skipn i (t_atoms t))) by (intros Hin; apply skipn_in' in Hin; specialize (Hfresh _ Hin); unfold l0 in *; lia).
    set (h' := set_r h2 r (res_with_atoms rr L')).
    assert (Ga0 : get_a h' l0 = Some a0).
    { unfold h'. heap_simpl. rewrite F2 by exact Hl0. unfold h1. heap_simpl. rewrite Nat.eqb_refl. reflexivity. }
    assert (G : wf h' (with_atoms t (insert_at i l0 (t_atoms t)) (S (t_numAtoms t))) /\
                (forall x, In x (reach h' (with_atoms t (insert_at i l0 (t_atoms t)) (S (t_numAtoms t)))) -> In x (reach h t) \/ h_next h <= x)).
    { apply (atom_insert_wf h t r rr h' L' (insert_at i l0 (t_atoms t)) a0 W Hr Grr).
      - intros x Hx. unfold h' in Hx. heap_simpl. rewrite N2 in Hx. unfold h1 in Hx. heap_simpl. fold l0 in Hx.
        destruct (Hw x ltac:(unfold l0 in *; lia)) as [A [R C]]. unfold h'. heap_simpl. rewrite R2, C2.
        rewrite F2 by (intros Hin; apply skipn_in' in Hin; specialize (Hfresh _ Hin); unfold l0 in *; lia).
        unfold h1. heap_simpl. rewrite (eqb_false_gt l0 x) by lia. rewrite (eqb_false_gt r x) by (unfold l0 in *; lia). auto.
      - unfold h'. heap_simpl. rewrite N2. unfold h1. heap_simpl. reflexivity.
      - intros x. unfold h'. heap_simpl. rewrite C2. unfold h1. heap_simpl. reflexivity.
      - intros x Hx. unfold h'. heap_simpl. rewrite (eqb_false_ne r x) by auto. rewrite R2. unfold h1. heap_simpl. reflexivity.
      - unfold h'. heap_simpl. rewrite Nat.eqb_refl. reflexivity.
      - apply HL. exact E1.
      - exact Ga0.
      - reflexivity.
      - apply Permutation_insert_at.
      - intros j x Hj. rewrite nth_error_insert_at in Hj by exact Ei.
        destruct (j <? i) eqn:E1'.
        + apply Nat.ltb_lt in E1'. destruct (Ia j x Hj) as [a [Ga Ix]]. exists a. split; [|exact Ix].
          unfold h'. heap_simpl. rewrite F2.
          * unfold h1. heap_simpl. rewrite (eqb_false_gt' l0 x) by (specialize (Hfresh x (nth_error_In _ _ Hj)); unfold l0; lia). exact Ga.
          * intros Hin. apply in_skipn_pos in Hin. destruct Hin as [j' [Hj' Hn']]. assert (j = j') by exact (NoDup_nth_inj _ _ _ _ NdT Hj Hn'). lia.
        + destruct (j =? i) eqn:E2'.
          * inversion Hj; subst x. apply Nat.eqb_eq in E2'. subst j. exists a0. split; [exact Ga0 | reflexivity].
          * apply Nat.ltb_ge in E1'. apply Nat.eqb_neq in E2'.
            assert (Hin : In x (skipn i (t_atoms t))).
            { assert (Hq : nth_error (skipn i (t_atoms t)) (j - 1 - i) = Some x) by (rewrite nth_error_skipn; replace (i + (j - 1 - i)) with (j - 1) by lia; exact Hj).
              eapply nth_error_In; eauto. }
            destruct (S2 x Hin) as [a [G1 G2]]. unfold h1 in G1. heap_simpl.
            rewrite (eqb_false_gt' l0 x) in G1 by (specialize (Hfresh x (nth_error_In _ _ Hj)); unfold l0; lia).
            destruct (Ia (j - 1) x Hj) as [a' [Ga' Ix]]. assert (a' = a) by congruence. subst a'.
            eexists. split; [unfold h'; heap_simpl; exact G2|]. simpl. lia.
      - intros x a' Hx Gx. unfold h' in Gx. heap_simpl.
        destruct (in_dec Nat.eq_dec x (skipn i (t_atoms t))) as [Hin|Hni].
        + destruct (S2 x Hin) as [a [G1 G2]]. unfold h1 in G1. heap_simpl.
          rewrite (eqb_false_gt' l0 x) in G1 by (specialize (Hfresh x Hx); unfold l0; lia).
          exists a. split; [exact G1|]. rewrite G2 in Gx. inversion Gx. reflexivity.
        + rewrite F2 in Gx by exact Hni. unfold h1 in Gx. heap_simpl.
          rewrite (eqb_false_gt' l0 x) in Gx by (specialize (Hfresh x Hx); unfold l0; lia). exists a'. split; [exact Gx | reflexivity]. }
    destruct G as [G1 G2]. split; [exact G1|]. split; [exact G2|]. unfold h'. heap_simpl. rewrite N2. unfold h1. heap_simpl. lia.
  - (* appended to _atoms *)
    rewrite Grr in E. cbn [obind] in E.
    set (a0 := {| a_name := name; a_elem := el; a_index := t_numAtoms t; a_res := r; a_serial := ser |}) in *.
    inv_bind E. rename x into L'. inversion E; subst h' t' l; clear E.
    set (h' := set_r (set_a (bump h) l0 a0) r (res_with_atoms rr L')).
    assert (Ga : forall x, x <> l0 -> get_a h' x = get_a h x) by (intros x Hx; unfold h'; heap_simpl; rewrite (eqb_false_ne l0 x) by auto; reflexivity).
    assert (Ga0 : get_a h' l0 = Some a0) by (unfold h'; heap_simpl; rewrite Nat.eqb_refl; reflexivity).
    assert (G : wf h' (with_atoms t (t_atoms t ++ [l0]) (S (t_numAtoms t))) /\
                (forall x, In x (reach h' (with_atoms t (t_atoms t ++ [l0]) (S (t_numAtoms t)))) -> In x (reach h t) \/ h_next h <= x)).
    { apply (atom_insert_wf h t r rr h' L' (t_atoms t ++ [l0]) a0 W Hr Grr).
      - intros x Hx. unfold h' in Hx. heap_simpl. fold l0 in Hx. destruct (Hw x ltac:(unfold l0 in *; lia)) as [A [R C]].
        unfold h'. heap_simpl. rewrite (eqb_false_gt l0 x) by lia. rewrite (eqb_false_gt r x) by (unfold l0 in *; lia). auto.
      - unfold h'. heap_simpl. reflexivity.
      - intros x. unfold h'. heap_simpl. reflexivity.
      - intros x Hx. unfold h'. heap_simpl. rewrite (eqb_false_ne r x) by auto. reflexivity.
      - unfold h'. heap_simpl. rewrite Nat.eqb_refl. reflexivity.
      - apply HL. exact E0.
      - exact Ga0.
      - reflexivity.
      - apply Permutation_cons_append.
      - intros j x Hj. destruct (Nat.lt_ge_cases j (length (t_atoms t))) as [Hl|Hg].
        + rewrite nth_error_app1 in Hj by exact Hl. rewrite Ga by (specialize (Hfresh x (nth_error_In _ _ Hj)); unfold l0; lia). apply Ia. exact Hj.
        + rewrite nth_error_app2 in Hj by exact Hg. destruct (j - length (t_atoms t)) as [|k] eqn:Ek; [|destruct k; discriminate].
          simpl in Hj. inversion Hj; subst x. exists a0. split; [exact Ga0 | simpl; lia].
      - intros x a' Hx Gx. rewrite Ga in Gx by (specialize (Hfresh x Hx); unfold l0; lia). exists a'. split; [exact Gx | reflexivity]. }
    destruct G as [G1 G2]. split; [exact G1|]. split; [exact G2|]. unfold h'. heap_simpl. lia.
Qed.

(* ------------------------------------------------------------------ delete_atom_by_index *)
Lemma remove_nth_perm {A} (l : list A) i x : nth_error l i = Some x -> Permutation l (x :: remove_nth i l).
Proof.
  revert i; induction l as [|y l IH]; intros i H; [destruct i; discriminate|].
  destruct i as [|i]; simpl in *; [inversion H; subst; reflexivity|].
  rewrite perm_swap. constructor. apply IH. exact H.
Qed.

Lemma same_atom_fix h l y : same_atom flags_fix h l y = Nat.eqb y l.
Proof. unfold same_atom. simpl. apply orb_false_r. Qed.

Lemma delete_atom_wf h t index h' t' :
  wf h t -> delete_atom flags_fix h t index = Some (h', t') ->
  wf h' t' /\ (forall x, In x (reach h' t') -> In x (reach h t)) /\ h_next h' = h_next h.
Proof.
  intros W E. pose proof (wf_heap _ _ W) as Hw.
  pose proof (proj2 (proj2 (wf_atoms _ _ W))) as Ia.
  pose proof (wf_nodup_atoms h t W) as NdT.
  unfold delete_atom in E. inv_bind E. rename x into l. rename E0 into Hl.
  inv_bind E. rename x into a. rename E0 into Ga.
  destruct (negb (Nat.eqb (a_index a) index)); [discriminate|].
  inv_bind E. rename x into h1. rename E0 into Es.
  assert (Hnd : NoDup (skipn (S index) (t_atoms t))) by (apply NoDup_skipn; exact NdT).
  destruct (shift_indices_spec _ _ _ _ Hnd Es) as [N1 [R1 [C1' [F1 S1]]]].
  inv_bind E. rename x into rr. rename E0 into Grr1. inv_bind E. rename x into ra. rename E0 into Hra.
  inv_bind E. rename x into ta. rename E0 into Hta. inversion E; subst h' t'; clear E.
  set (r := a_res a) in *.
  assert (Grr : get_r h r = Some rr) by (rewrite <- R1; exact Grr1).
  assert (HlT : In l (t_atoms t)) by (eapply nth_error_In; eauto).
  assert (Hr : In r (t_residues t)) by (eapply (wf_back _ _ W); eauto).
  assert (HrRL : In r (chainwise_residues h (t_chains t))) by (apply (wf_res_iff h t W); exact Hr).
  destruct (remove_first_perm _ _ _ Hra) as [x [Hx Pra]]. rewrite same_atom_fix in Hx. apply Nat.eqb_eq in Hx. subst x.
  assert (Eta : ta = remove_nth index (t_atoms t)).
  { match type of Hta with remove_first ?P _ = _ =>
      assert (Hq : remove_first P (t_atoms t) = Some (remove_nth index (t_atoms t)))
        by (apply (remove_first_eqb_nth P _ index l); [intros y; apply same_atom_fix | exact NdT | exact Hl]) end.
    rewrite Hq in Hta. inversion Hta; reflexivity. }
  subst ta.
  set (h2 := set_r h1 r (res_with_atoms rr ra)) in *.
  assert (Gc : forall x, get_c h2 x = get_c h x) by (intros; unfold h2; heap_simpl; apply C1').
  assert (Grn : forall x, x <> r -> get_r h2 x = get_r h x) by (intros x Hx; unfold h2; heap_simpl; rewrite (eqb_false_ne r x) by auto; apply R1).
  assert (Grr2 : get_r h2 r = Some (res_with_atoms rr ra)) by (unfold h2; heap_simpl; rewrite Nat.eqb_refl; reflexivity).
  assert (Ga2 : forall x, get_a h2 x = get_a h1 x) by (intros; unfold h2; heap_simpl; reflexivity).
  assert (Hlt : index < length (t_atoms t)) by (apply nth_error_Some; congruence).
  assert (ER : chainwise_residues h2 (t_chains t) = chainwise_residues h (t_chains t)) by (apply cw_res_ext; intros; apply Gc).
  destruct W as [_ [Nc Ic] [Nr [Pr Ir]] [Na [Pa _]] Hb [Cn1 Cn2] Bo].
  destruct (concat_map_update (ratoms h) (ratoms h2) (chainwise_residues h (t_chains t)) r Nr HrRL) as [A1 [A2 [EA EA']]].
  { intros y Hy. unfold ratoms. rewrite Grn by exact Hy. reflexivity. }
  assert (E1 : ratoms h r = r_atoms rr) by (unfold ratoms; rewrite Grr; reflexivity).
  assert (E2 : ratoms h2 r = ra) by (unfold ratoms; rewrite Grr2; reflexivity).
  rewrite E1 in EA. rewrite E2 in EA'. rewrite <- cw_atoms_eq in EA. rewrite <- ER, <- cw_atoms_eq in EA'.
  assert (PA : Permutation (chainwise_atoms h (t_chains t)) (l :: chainwise_atoms h2 (t_chains t))).
  { rewrite EA, EA'. transitivity (A1 ++ (l :: ra) ++ A2); [apply Permutation_app_head; apply Permutation_app_tail; exact Pra|].
    simpl. apply Permutation_sym. apply Permutation_middle. }
  pose proof (remove_nth_perm _ _ _ Hl) as PT.
  assert (Hw2 : hwf h2).
  { intros x Hx. unfold h2 in Hx. heap_simpl. rewrite N1 in Hx. destruct (Hw x Hx) as [A [R C]].
    rewrite Gc, Ga2. split; [|split; [|exact C]].
    - rewrite F1; [exact A|]. intros Hin. apply skipn_in' in Hin. apply In_nth_error in Hin. destruct Hin as [j Hj].
      destruct (Ia j x Hj) as [a' [G' _]]. congruence.
    - destruct (Nat.eq_dec x r) as [->|Hne]; [congruence | rewrite Grn by exact Hne; exact R]. }
  split; [|split].
  - split; simpl.
    + exact Hw2.
    + split; [exact Nc|]. intros i c Hi. rewrite Gc. apply Ic. exact Hi.
    + rewrite ER. split; [exact Nr|]. split; [exact Pr|]. intros i x Hi. destruct (Nat.eq_dec x r) as [->|Hne].
      * rewrite Grr2. eexists. split; [reflexivity|]. destruct (Ir i r Hi) as [rr0 [G0 I0]]. assert (rr0 = rr) by congruence. subst rr0. exact I0.
      * rewrite Grn by exact Hne. apply Ir. exact Hi.
    + split; [|split].
      * assert (NoDup (l :: chainwise_atoms h2 (t_chains t))) by (eapply Permutation_NoDup; [exact PA | exact Na]).
        inversion H; assumption.
      * apply Permutation_cons_inv with (a := l). transitivity (t_atoms t); [apply Permutation_sym; exact PT|].
        transitivity (chainwise_atoms h (t_chains t)); [exact Pa | exact PA].
      * intros j x Hj. rewrite nth_error_remove_nth in Hj. destruct (j <? index) eqn:Ej.
        -- apply Nat.ltb_lt in Ej. destruct (Ia j x Hj) as [a' [G' I']]. exists a'. split; [|exact I'].
           rewrite Ga2, F1; [exact G'|]. intros Hin. apply in_skipn_pos in Hin. destruct Hin as [j' [Hj' Hn']].
           assert (j = j') by exact (NoDup_nth_inj _ _ _ _ NdT Hj Hn'). lia.
        -- apply Nat.ltb_ge in Ej.
           assert (Hin : In x (skipn (S index) (t_atoms t))).
           { assert (Hq : nth_error (skipn (S index) (t_atoms t)) (j - index) = Some x)
               by (rewrite nth_error_skipn; replace (S index + (j - index)) with (S j) by lia; exact Hj).
             eapply nth_error_In; eauto. }
           destruct (S1 x Hin) as [a' [G1 G2]]. destruct (Ia (S j) x Hj) as [a'' [G'' I'']]. assert (a'' = a') by congruence. subst a''.
           eexists. split; [rewrite Ga2; exact G2|]. simpl. lia.
    + intros x a' Hin G. simpl in *. apply remove_nth_in in Hin. rewrite Ga2 in G.
      destruct (in_dec Nat.eq_dec x (skipn (S index) (t_atoms t))) as [Hs|Hns].
      * destruct (S1 x Hs) as [a1 [G1 G2]]. rewrite G2 in G. inversion G; subst a'. simpl. eapply Hb; eauto.
      * rewrite F1 in G by exact Hns. eapply Hb; eauto.
    + split; [rewrite remove_nth_length by exact Hlt; rewrite Cn1; reflexivity | exact Cn2].
    + intros b Hbin. apply filter_In in Hbin. destruct Hbin as [Hbin Hf]. destruct (Bo b Hbin) as [B1 [B2 B3]].
      apply negb_true_iff in Hf. apply orb_false_iff in Hf. destruct Hf as [F1' F2']. apply Nat.eqb_neq in F1', F2'.
      assert (Hin : forall y, In y (t_atoms t) -> y <> l -> In y (remove_nth index (t_atoms t))).
      { intros y Hy Hne. eapply Permutation_in in Hy; [|exact PT]. destruct Hy as [<-|Hy]; [contradiction | exact Hy]. }
      split; [apply Hin; assumption|]. split; [apply Hin; assumption | exact B3].
  - intros x Hin. unfold reach in Hin. simpl in Hin. rewrite ER in Hin.
    repeat (apply in_app_or in Hin; destruct Hin as [Hin|Hin]).
    + apply in_reach_chain; exact Hin.
    + apply in_reach_res; exact Hin.
    + apply in_reach_cwres; exact Hin.
    + apply in_reach_atom. eapply remove_nth_in; eauto.
    + apply in_reach_cwatom. eapply Permutation_in; [apply Permutation_sym; exact PA | right; exact Hin].
    + unfold reach. do 5 (apply in_or_app; right). unfold bond_ends in *. simpl in Hin. apply in_concat in Hin.
      destruct Hin as [e [He Hin]]. apply in_map_iff in He. destruct He as [b [<- Hb']]. apply filter_In in Hb'.
      apply in_concat. exists [b_a1 b; b_a2 b]. split; [apply in_map_iff; exists b; tauto | exact Hin].
  - unfold h2. heap_simpl. exact N1.
Qed.

(* ------------------------------------------------------------------ add_bond *)
Lemma add_bond_wf h t x y ty ord t' :
  wf h t -> In x (t_atoms t) -> In y (t_atoms t) -> add_bond h t x y ty ord = Some t' ->
  wf h t' /\ (forall z, In z (reach h t') -> In z (reach h t)).
Proof.
  intros W Hx Hy E. unfold add_bond in E. destruct (order_ok ord) eqn:Eo; [|discriminate]. simpl in E.
  inv_bind E. inv_bind E. inversion E; subst t'; clear E.
  destruct W as [Hw Wc Wr Wa Hb Cn Bo].
  split.
  - split; simpl; try assumption.
    intros b Hbin. apply in_app_or in Hbin. destruct Hbin as [Hbin|[<-|[]]]; [apply Bo; exact Hbin|].
    destruct (a_index x0 <? a_index x1); simpl; auto.
  - intros z Hin. unfold reach in *. simpl in *.
    repeat (apply in_app_or in Hin; destruct Hin as [Hin|Hin]);
      try (solve [repeat (first [apply in_or_app; left; exact Hin | apply in_or_app; right])]).
    unfold bond_ends in Hin. simpl in Hin. rewrite map_app, concat_app in Hin. apply in_app_or in Hin.
    destruct Hin as [Hin|Hin]; [do 5 (apply in_or_app; right); exact Hin|].
    do 3 (apply in_or_app; right). apply in_or_app; left.
    destruct (a_index x0 <? a_index x1); simpl in Hin; destruct Hin as [<-|[<-|[]]]; assumption.
Qed.
