(* C04: what the add_chain/add_residue/add_atom builder produces.

   Allocation is deterministic, so the objects a build creates can be written down by a pure
   function ([lay_chains]): main lemma [build_chains_layout] says a chain-wise walk over the
   new chains reads exactly that layout, that nothing allocated before the build changes
   ([agree]), and how the topology record grows.  Everything else (abs, freshness,
   well-formedness of the result) is then list reasoning about the layout. *)
From Coq Require Import String Ascii.
From Coq Require Import List Arith ZArith Bool Lia.
Import ListNotations.
Require Import MD.Topo.Model MD.Topo.Basics.
Open Scope nat_scope.

Definition dres_seq (nr : nat) (d : dres) : Z :=
  match dr_resSeq d with Some z => z | None => Z.of_nat nr end.

Fixpoint lay_atoms (n : nat) (r : loc) (na : nat) (l : list datom) : list (loc * atom) :=
  match l with
  | [] => []
  | d :: rest =>
      (n, {| a_name := da_name d; a_elem := da_elem d; a_index := na; a_res := r; a_serial := da_serial d |})
        :: lay_atoms (S n) r (S na) rest
  end.

Fixpoint lay_res (n : nat) (c : loc) (nr na : nat) (l : list dres) : list (loc * (resid * list (loc * atom))) :=
  match l with
  | [] => []
  | d :: rest =>
      let atoms := lay_atoms (S n) n na (dr_atoms d) in
      (n, ({| r_name := dr_name d; r_index := nr; r_chain := c; r_resSeq := dres_seq nr d; r_seg := dr_seg d;
              r_atoms := map fst atoms |}, atoms))
        :: lay_res (S n + length (dr_atoms d)) c (S nr) (na + length (dr_atoms d)) rest
  end.

Definition res_size (d : dres) : nat := S (length (dr_atoms d)).
Definition natoms_res (l : list dres) : nat := list_sum (map (fun d => length (dr_atoms d)) l).
Definition size_res (l : list dres) : nat := list_sum (map res_size l).
Definition chain_size (d : dchain) : nat := S (size_res (dc_res d)).

Fixpoint lay_chains (n nc nr na : nat) (l : list dchain)
  : list (loc * (chain * list (resid * list (loc * atom)))) :=
  match l with
  | [] => []
  | d :: rest =>
      let rs := lay_res (S n) n nr na (dc_res d) in
      (n, ({| c_index := nc; c_id := dc_id d; c_res := map fst rs |}, map snd rs))
        :: lay_chains (n + chain_size d) (S nc) (nr + length (dc_res d)) (na + natoms_res (dc_res d)) rest
  end.

Definition lay_res_atoms (L : list (loc * (resid * list (loc * atom)))) : list (loc * atom) :=
  concat (map (fun x => snd (snd x)) L).
Definition lay_chain_res (L : list (loc * (chain * list (resid * list (loc * atom))))) : list loc :=
  concat (map (fun x => c_res (fst (snd x))) L).
Definition lay_chain_atoms (L : list (loc * (chain * list (resid * list (loc * atom))))) : list (loc * atom) :=
  concat (map (fun x => concat (map snd (snd (snd x)))) L).

Definition grow (t : topo) (cs rs als : list loc) : topo :=
  {| t_chains := t_chains t ++ cs; t_residues := t_residues t ++ rs; t_atoms := t_atoms t ++ als;
     t_bonds := t_bonds t; t_numAtoms := t_numAtoms t + length als; t_numRes := t_numRes t + length rs |}.

Lemma grow_nil t : grow t [] [] [] = t.
Proof. destruct t; unfold grow; simpl. rewrite !app_nil_r, !Nat.add_0_r. reflexivity. Qed.

Lemma grow_grow t c1 r1 a1 c2 r2 a2 :
  grow (grow t c1 r1 a1) c2 r2 a2 = grow t (c1 ++ c2) (r1 ++ r2) (a1 ++ a2).
Proof. unfold grow; simpl. rewrite <- !app_assoc, !app_length, !Nat.add_assoc. reflexivity. Qed.

(* ------------------------------------------------------------------ atoms *)
Lemma hwf_fresh h : hwf h -> get_a h (h_next h) = None /\ get_r h (h_next h) = None /\ get_c h (h_next h) = None.
Proof. intros H; apply H; lia. Qed.

Lemma lay_atoms_fst n r na l : map fst (lay_atoms n r na l) = seq n (length l).
Proof. revert n na; induction l as [|d l IH]; intros n na; simpl; [reflexivity|]. rewrite IH. reflexivity. Qed.

Lemma build_atoms_layout : forall l h t r rr h' t' news,
  hwf h -> r < h_next h -> get_r h r = Some rr ->
  build_atoms h t r l = Some (h', t', news) ->
  let A := lay_atoms (h_next h) r (t_numAtoms t) l in
  hwf h' /\ h_next h' = h_next h + length l /\ news = map fst A /\
  t' = grow t [] [] news /\
  get_r h' r = Some (res_with_atoms rr (r_atoms rr ++ news)) /\
  (forall x, x <> r -> get_r h' x = get_r h x) /\
  (forall x, get_c h' x = get_c h x) /\
  (forall x, x < h_next h -> get_a h' x = get_a h x) /\
  (forall x a, In (x, a) A -> get_a h' x = Some a).
Proof.
  induction l as [|d l IH]; intros h t r rr h' t' news Hw Hr Hrr Hb A.
  - simpl in Hb. inversion Hb; subst. subst A; simpl.
    rewrite Nat.add_0_r, grow_nil, app_nil_r.
    split; [exact Hw|]. split; [reflexivity|]. split; [reflexivity|]. split; [reflexivity|].
    split; [destruct rr; exact Hrr|]. split; [auto|]. split; [auto|]. split; [auto|]. intros x a [].
  - simpl in Hb. inv_bind Hb. destruct x as [[h1 t1] al].
    inv_bind Hb. destruct x as [[h2 t2] als]. inversion Hb; subst h' t' news; clear Hb.
    unfold add_atom in E. rewrite Hrr in E. simpl in E. inversion E; subst h1 t1 al; clear E.
    set (l0 := h_next h) in *.
    set (a0 := {| a_name := da_name d; a_elem := da_elem d; a_index := t_numAtoms t; a_res := r; a_serial := da_serial d |}) in *.
    set (h1 := set_r (set_a (bump h) l0 a0) r (res_with_atoms rr (r_atoms rr ++ [l0]))) in *.
    assert (Hw1 : hwf h1).
    { intros x Hx. subst h1. heap_simpl. unfold l0 in *.
      destruct (Hw x ltac:(lia)) as [A1 [A2 A3]].
      rewrite (eqb_false_gt (h_next h) x) by lia.
      rewrite (eqb_false_gt r x) by lia. auto. }
    assert (Hn1 : h_next h1 = S l0) by (subst h1; heap_simpl; reflexivity).
    assert (Hr1 : get_r h1 r = Some (res_with_atoms rr (r_atoms rr ++ [l0]))).
    { subst h1; heap_simpl. rewrite Nat.eqb_refl. reflexivity. }
    specialize (IH h1 _ r _ h2 t2 als Hw1 ltac:(lia) Hr1 E0).
    simpl in IH. rewrite Hn1 in IH.
    destruct IH as [Hw2 [Hn2 [Hnews [Ht2 [Hr2 [Fr [Fc [Fa Hnew]]]]]]]].
    subst A. simpl. fold l0. fold a0.
    split; [exact Hw2|]. split; [rewrite Hn2; simpl; lia|].
    split; [f_equal; exact Hnews|].
    split.
    { rewrite Ht2. unfold grow; simpl. rewrite <- !app_assoc. simpl.
      f_equal. lia. }
    split.
    { rewrite Hr2. unfold res_with_atoms; simpl. rewrite <- app_assoc. reflexivity. }
    split.
    { intros x Hx. rewrite (Fr x Hx). subst h1; heap_simpl.
      rewrite (eqb_false_ne r x) by auto. reflexivity. }
    split.
    { intros x. rewrite Fc. subst h1; heap_simpl. reflexivity. }
    split.
    { intros x Hx. rewrite Fa by lia. subst h1; heap_simpl.
      rewrite (eqb_false_lt l0 x) by (unfold l0; lia). reflexivity. }
    intros x a [Heq|Hin].
    + inversion Heq; subst x a. rewrite Fa by lia. subst h1; heap_simpl. rewrite Nat.eqb_refl. reflexivity.
    + apply Hnew. exact Hin.
Qed.

(* ------------------------------------------------------------------ residues *)
Lemma walk_res_of h x r A :
  get_r h x = Some r -> r_atoms r = map fst A -> (forall l a, In (l, a) A -> get_a h l = Some a) ->
  walk_res h x = Some (r, A).
Proof.
  intros Hr Hat HA. unfold walk_res. rewrite Hr. simpl. rewrite Hat.
  assert (E : mapM (fun al => a <- get_a h al ;; Some (al, a)) (map fst A) = Some A).
  { clear Hat Hr. induction A as [|[l a] A IH]; [reflexivity|].
    simpl. rewrite (HA l a (or_introl eq_refl)). simpl. rewrite IH; [reflexivity|].
    intros; apply HA; right; auto. }
  rewrite E. reflexivity.
Qed.

Lemma walk_res_inv h x r A :
  walk_res h x = Some (r, A) ->
  get_r h x = Some r /\ r_atoms r = map fst A /\ (forall l a, In (l, a) A -> get_a h l = Some a).
Proof.
  unfold walk_res. intros H. inv_bind H. inv_bind H. inversion H; subst x0 x1; clear H.
  split; [exact E|].
  revert A E0. generalize (r_atoms r). intros ls; induction ls as [|l ls IH]; intros A E0.
  - inversion E0; subst. split; [reflexivity | intros ? ? []].
  - apply mapM_cons_some in E0. destruct E0 as [b [br [Hb [Hl ->]]]].
    inv_bind Hb. inversion Hb; subst b; clear Hb.
    destruct (IH _ Hl) as [H1 H2]. split; [simpl; f_equal; exact H1|].
    intros l' a [Heq|Hin]; [inversion Heq; subst; assumption | apply H2; exact Hin].
Qed.

Lemma walk_res_stable h h' x rw :
  walk_res h x = Some rw -> get_r h' x = get_r h x ->
  (forall l, In l (map fst (snd rw)) -> get_a h' l = get_a h l) ->
  walk_res h' x = Some rw.
Proof.
  destruct rw as [r A]. intros H Hr Ha. apply walk_res_inv in H. destruct H as [H1 [H2 H3]].
  apply walk_res_of; [congruence | exact H2 |].
  intros l a Hin. rewrite Ha; [apply H3; exact Hin|]. simpl. apply in_map_iff. exists (l, a); auto.
Qed.

Lemma size_res_cons d l : size_res (d :: l) = S (length (dr_atoms d)) + size_res l.
Proof. reflexivity. Qed.

Lemma lay_atoms_bound n r na l x a : In (x, a) (lay_atoms n r na l) -> n <= x < n + length l.
Proof.
  intros H. assert (In x (map fst (lay_atoms n r na l))) by (apply in_map_iff; exists (x, a); auto).
  rewrite lay_atoms_fst in H0. apply in_seq in H0. exact H0.
Qed.

Lemma build_residues_layout : forall l h t c ch h' t' news,
  hwf h -> c < h_next h -> get_c h c = Some ch ->
  build_residues h t c l = Some (h', t', news) ->
  let L := lay_res (h_next h) c (t_numRes t) (t_numAtoms t) l in
  hwf h' /\ h_next h' = h_next h + size_res l /\ news = map fst (lay_res_atoms L) /\
  t' = grow t [] (map fst L) news /\
  get_c h' c = Some {| c_index := c_index ch; c_id := c_id ch; c_res := c_res ch ++ map fst L |} /\
  (forall x, x <> c -> get_c h' x = get_c h x) /\
  (forall x, x < h_next h -> get_a h' x = get_a h x /\ get_r h' x = get_r h x) /\
  (forall x rw, In (x, rw) L -> walk_res h' x = Some rw).
Proof.
  induction l as [|d l IH]; intros h t c ch h' t' news Hw Hc Hch Hb L.
  - simpl in Hb. inversion Hb; subst. subst L; simpl.
    rewrite grow_nil, app_nil_r. unfold size_res; simpl. rewrite Nat.add_0_r.
    split; [exact Hw|]. split; [reflexivity|]. split; [reflexivity|]. split; [reflexivity|].
    split; [destruct ch; exact Hch|]. split; [auto|]. split; [auto|]. intros x rw [].
  - simpl in Hb. inv_bind Hb. destruct x as [[h1 t1] rl].
    inv_bind Hb. destruct x as [[h2 t2] a1]. inv_bind Hb. destruct x as [[h3 t3] a2].
    inversion Hb; subst h' t' news; clear Hb.
    unfold add_residue in E. rewrite Hch in E. simpl in E. inversion E; subst h1 t1 rl; clear E.
    set (l0 := h_next h) in *.
    set (r0 := {| r_name := dr_name d; r_index := t_numRes t; r_chain := c;
                  r_resSeq := match dr_resSeq d with Some z => z | None => Z.of_nat (t_numRes t) end;
                  r_seg := dr_seg d; r_atoms := [] |}) in *.
    set (ch1 := {| c_index := c_index ch; c_id := c_id ch; c_res := c_res ch ++ [l0] |}) in *.
    set (h1 := set_c (set_r (bump h) l0 r0) c ch1) in *.
    set (t1 := {| t_chains := t_chains t; t_residues := t_residues t ++ [l0]; t_atoms := t_atoms t;
                  t_bonds := t_bonds t; t_numAtoms := t_numAtoms t; t_numRes := S (t_numRes t) |}) in *.
    assert (Hw1 : hwf h1).
    { intros x Hx. subst h1. heap_simpl. unfold l0 in *.
      destruct (Hw x ltac:(lia)) as [A1 [A2 A3]].
      rewrite (eqb_false_gt (h_next h) x) by lia. rewrite (eqb_false_gt c x) by lia. auto. }
    assert (Hn1 : h_next h1 = S l0) by (subst h1; heap_simpl; reflexivity).
    assert (Hr1 : get_r h1 l0 = Some r0) by (subst h1; heap_simpl; rewrite Nat.eqb_refl; reflexivity).
    assert (Hc1 : get_c h1 c = Some ch1) by (subst h1; heap_simpl; rewrite Nat.eqb_refl; reflexivity).
    assert (Hlt1 : l0 < h_next h1) by lia.
    pose proof (build_atoms_layout _ _ _ _ _ _ _ _ Hw1 Hlt1 Hr1 E0) as HA.
    simpl in HA. rewrite Hn1 in HA.
    destruct HA as [Hw2 [Hn2 [Ha1 [Ht2 [Hr2 [Fr2 [Fc2 [Fa2 Hnew2]]]]]]]].
    assert (Hc2 : get_c h2 c = Some ch1) by (rewrite Fc2; exact Hc1).
    assert (Hlt2 : c < h_next h2) by (unfold l0 in *; lia).
    specialize (IH h2 t2 c ch1 h3 t3 a2 Hw2 Hlt2 Hc2 E1).
    simpl in IH. rewrite Hn2 in IH. rewrite Ht2 in IH. simpl in IH. rewrite ?Nat.add_0_r in IH.
    destruct IH as [Hw3 [Hn3 [Ha2 [Ht3 [Hc3 [Fc3 [Fa3 Hnew3]]]]]]].
    assert (Hlen1 : length a1 = length (dr_atoms d)).
    { rewrite Ha1, map_length. clear. generalize (S l0) (t_numAtoms t). induction (dr_atoms d); intros; simpl; auto. }
    rewrite Hlen1 in *.
    subst L. simpl. fold l0.
    split; [exact Hw3|].
    split; [rewrite Hn3, size_res_cons; lia|].
    split.
    { unfold lay_res_atoms. simpl. rewrite map_app. f_equal; [exact Ha1 | exact Ha2]. }
    split.
    { rewrite Ht3. unfold grow; simpl. rewrite <- !app_assoc. simpl. rewrite ?app_length, ?Hlen1.
      f_equal; lia. }
    split.
    { rewrite Hc3. subst ch1; simpl. rewrite <- app_assoc. reflexivity. }
    split.
    { intros x Hx. rewrite (Fc3 x Hx), Fc2. subst h1; heap_simpl. rewrite (eqb_false_ne c x) by auto. reflexivity. }
    split.
    { intros x Hx. destruct (Fa3 x ltac:(lia)) as [F1 F2]. rewrite F1, F2.
      rewrite Fa2 by lia. rewrite Fr2 by (unfold l0 in *; lia). subst h1; heap_simpl.
      rewrite (eqb_false_lt l0 x) by (unfold l0; lia). auto. }
    intros x rw [Heq|Hin].
    + inversion Heq; subst x rw; clear Heq.
      apply walk_res_stable with (h := h2).
      * apply walk_res_of.
        -- rewrite Hr2. unfold res_with_atoms; subst r0; simpl. rewrite Ha1. reflexivity.
        -- reflexivity.
        -- exact Hnew2.
      * apply (Fa3 l0). lia.
      * simpl. intros l1 Hl1. apply (Fa3 l1). rewrite lay_atoms_fst in Hl1. apply in_seq in Hl1. lia.
    + apply Hnew3. exact Hin.
Qed.

(* ------------------------------------------------------------------ chains *)
Lemma hwf_lt_a h l a : hwf h -> get_a h l = Some a -> l < h_next h.
Proof. intros Hw H. destruct (Nat.lt_ge_cases l (h_next h)) as [|Hge]; [auto|]. destruct (Hw l Hge) as [A _]. congruence. Qed.
Lemma hwf_lt_r h l r : hwf h -> get_r h l = Some r -> l < h_next h.
Proof. intros Hw H. destruct (Nat.lt_ge_cases l (h_next h)) as [|Hge]; [auto|]. destruct (Hw l Hge) as [_ [A _]]. congruence. Qed.
Lemma hwf_lt_c h l c : hwf h -> get_c h l = Some c -> l < h_next h.
Proof. intros Hw H. destruct (Nat.lt_ge_cases l (h_next h)) as [|Hge]; [auto|]. destruct (Hw l Hge) as [_ [_ A]]. congruence. Qed.

Lemma walk_res_agree h h' x rw :
  hwf h -> agree (h_next h) h h' -> walk_res h x = Some rw -> walk_res h' x = Some rw.
Proof.
  intros Hw Hag H. pose proof H as H0. destruct rw as [r A]. apply walk_res_inv in H0. destruct H0 as [H1 [H2 H3]].
  apply walk_res_stable with (h := h); [exact H | |].
  - apply (Hag x). eapply hwf_lt_r; eauto.
  - simpl. intros l Hl. apply in_map_iff in Hl. destruct Hl as [[l' a] [Heq Hin]]. simpl in Heq; subst l'.
    apply (Hag l). eapply hwf_lt_a; eauto.
Qed.

Lemma walk_chain_of h x c R :
  get_c h x = Some c -> c_res c = map fst R -> (forall l rw, In (l, rw) R -> walk_res h l = Some rw) ->
  walk_chain h x = Some (c, map snd R).
Proof.
  intros Hc Hres HR. unfold walk_chain. rewrite Hc. simpl. rewrite Hres.
  assert (E : mapM (walk_res h) (map fst R) = Some (map snd R)).
  { clear Hres Hc. induction R as [|[l rw] R IH]; [reflexivity|].
    simpl. rewrite (HR l rw (or_introl eq_refl)). rewrite IH; [reflexivity|]. intros; apply HR; right; auto. }
  rewrite E. reflexivity.
Qed.

Lemma walk_chain_agree h h' x cw :
  hwf h -> agree (h_next h) h h' -> walk_chain h x = Some cw -> walk_chain h' x = Some cw.
Proof.
  intros Hw Hag H. unfold walk_chain in *. inv_bind H. inv_bind H. inversion H; subst cw; clear H.
  assert (Hx : get_c h' x = Some x0) by (rewrite <- E; apply (Hag x); eapply hwf_lt_c; eauto).
  rewrite Hx. simpl.
  assert (E1 : mapM (walk_res h') (c_res x0) = Some x1).
  { rewrite <- E0. apply mapM_ext_in. intros a Hin.
    destruct (mapM_in _ _ _ _ E0 Hin) as [b [Hb _]]. rewrite Hb. eapply walk_res_agree; eauto. }
  rewrite E1. reflexivity.
Qed.

Lemma lay_res_fst_lt n c nr na l x rw : In (x, rw) (lay_res n c nr na l) -> n <= x.
Proof.
  revert n nr na; induction l as [|d l IH]; intros n nr na H; [destruct H|].
  simpl in H. destruct H as [Heq|Hin]; [inversion Heq; lia|]. apply IH in Hin. lia.
Qed.

Lemma build_chains_layout : forall l h t h' t' news,
  hwf h -> build_chains h t l = Some (h', t', news) ->
  let L := lay_chains (h_next h) (length (t_chains t)) (t_numRes t) (t_numAtoms t) l in
  hwf h' /\ h_next h' = h_next h + list_sum (map chain_size l) /\
  news = map fst (lay_chain_atoms L) /\
  t' = grow t (map fst L) (lay_chain_res L) news /\
  agree (h_next h) h h' /\
  (forall x cw, In (x, cw) L -> walk_chain h' x = Some cw).
Proof.
  induction l as [|d l IH]; intros h t h' t' news Hw Hb L.
  - simpl in Hb. inversion Hb; subst. subst L; simpl. rewrite grow_nil, Nat.add_0_r.
    split; [exact Hw|]. split; [reflexivity|]. split; [reflexivity|]. split; [reflexivity|].
    split; [apply agree_refl|]. intros x cw [].
  - simpl in Hb.
    set (l0 := h_next h) in *.
    set (c0 := {| c_index := length (t_chains t); c_id := dc_id d; c_res := [] |}) in *.
    set (h1 := set_c (bump h) l0 c0) in *.
    set (t1 := {| t_chains := t_chains t ++ [l0]; t_residues := t_residues t; t_atoms := t_atoms t;
                  t_bonds := t_bonds t; t_numAtoms := t_numAtoms t; t_numRes := t_numRes t |}) in *.
    inv_bind Hb. destruct x as [[h2 t2] a1]. inv_bind Hb. destruct x as [[h3 t3] a2].
    inversion Hb; subst h' t' news; clear Hb.
    assert (Hw1 : hwf h1).
    { intros x Hx. subst h1. heap_simpl. unfold l0 in *.
      destruct (Hw x ltac:(lia)) as [A1 [A2 A3]]. rewrite (eqb_false_gt (h_next h) x) by lia. auto. }
    assert (Hn1 : h_next h1 = S l0) by (subst h1; heap_simpl; reflexivity).
    assert (Hc1 : get_c h1 l0 = Some c0) by (subst h1; heap_simpl; rewrite Nat.eqb_refl; reflexivity).
    assert (Hlt1 : l0 < h_next h1) by lia.
    pose proof (build_residues_layout _ _ _ _ _ _ _ _ Hw1 Hlt1 Hc1 E) as HR.
    simpl in HR. rewrite Hn1 in HR.
    destruct HR as [Hw2 [Hn2 [Ha1 [Ht2 [Hc2 [Fc2 [Fa2 Hnew2]]]]]]].
    specialize (IH h2 t2 h3 t3 a2 Hw2 E0). simpl in IH. rewrite Hn2, Ht2 in IH. simpl in IH.
    rewrite ?Nat.add_0_r, ?app_length in IH. simpl in IH.
    destruct IH as [Hw3 [Hn3 [Ha2 [Ht3 [Hag3 Hnew3]]]]].
    set (Lr := lay_res (S l0) l0 (t_numRes t) (t_numAtoms t) (dc_res d)) in *.
    assert (Hlenr : length (map fst Lr) = length (dc_res d)).
    { rewrite map_length. subst Lr. clear. generalize (S l0) (t_numRes t) (t_numAtoms t).
      induction (dc_res d); intros; simpl; auto. }
    assert (Hlena : length a1 = natoms_res (dc_res d)).
    { rewrite Ha1, map_length. subst Lr. clear. unfold lay_res_atoms, natoms_res.
      generalize (S l0) (t_numRes t) (t_numAtoms t).
      induction (dc_res d) as [|x r IHr]; intros; simpl; auto. rewrite app_length, IHr. f_equal.
      rewrite <- (map_length fst), lay_atoms_fst, seq_length. reflexivity. }
    rewrite Hlenr, Hlena in *.
    assert (Hsz : S (l0 + size_res (dc_res d)) = l0 + chain_size d) by (unfold chain_size; lia).
    rewrite ?Hsz in *.
    try replace (length (t_chains t) + 1) with (S (length (t_chains t))) in * by lia.
    try replace (S (length (t_chains t)) + 0) with (S (length (t_chains t))) in * by lia.
    subst L. simpl. fold l0. fold Lr.
    split; [exact Hw3|].
    split; [rewrite Hn3; lia|].
    split.
    { unfold lay_chain_atoms. simpl. rewrite map_app. f_equal; [|exact Ha2].
      rewrite Ha1. unfold lay_res_atoms. rewrite map_map. reflexivity. }
    split.
    { rewrite Ht3. rewrite grow_grow. unfold lay_chain_res at 2. simpl.
      unfold grow; simpl. rewrite <- !app_assoc. simpl. reflexivity. }
    split.
    { apply agree_trans with (h2 := h2).
      - intros x Hx. destruct (Fa2 x ltac:(lia)) as [F1 F2]. rewrite F1, F2.
        rewrite Fc2 by (unfold l0 in *; lia). subst h1; heap_simpl.
        rewrite (eqb_false_lt l0 x) by (unfold l0; lia). auto.
      - eapply agree_le; [|exact Hag3]. unfold chain_size. lia. }
    intros x cw [Heq|Hin].
    + inversion Heq; subst x cw; clear Heq.
      apply walk_chain_agree with (h := h2); [exact Hw2 | |].
      * eapply agree_le; [|exact Hag3]. rewrite Hn2. unfold chain_size. lia.
      * apply walk_chain_of with (R := Lr); [rewrite Hc2; reflexivity | reflexivity | exact Hnew2].
    + apply Hnew3. exact Hin.
Qed.
