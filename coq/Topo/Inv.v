(* C04: the property over HISTORIES.  For every finite sequence of
     new, add_chain, add_residue, add_atom, add_bond, insert_atom, delete_atom_by_index, copy, subset,
     join (either keep_resSeq)
   applied (repaired variants) from the empty state to any of the topologies created so far:
   every topology is well formed ([wf]: ownership lists, counters and indices mutually consistent,
   bonds between own atoms) and any two of them share no reachable object — in particular a copy or a
   subset and its source stay independent under all later edits of either. *)
From Coq Require Import String Ascii.
From Coq Require Import List Arith ZArith Bool Lia Sorted Permutation.
Import ListNotations.
Require Import MD.Topo.Model MD.Topo.Carriers MD.Topo.Run MD.Topo.Basics MD.Topo.Build MD.Topo.AbsWalk MD.Topo.Copy
  MD.Topo.Subset MD.Topo.Frame MD.Topo.Wf MD.Topo.Results.
Open Scope nat_scope.

Definition hist_op (o : op) : bool :=
  match o with
  | ONew | OAddChain _ _ | OAddResidue _ _ _ _ _ | OAddAtom _ _ _ _ _ | OAddBond _ _ _ _ _
  | OInsertAtom _ _ _ _ _ _ _ | ODelete _ _ | OCopy _ | OSubset _ _ | OJoin _ _ _ => true
  | _ => false
  end.

Definition disjoint (l1 l2 : list loc) : Prop := forall x, In x l1 -> ~ In x l2.

Record inv (st : state) : Prop := {
  inv_heap : hwf (st_heap st);
  inv_wf : forall i t, nth_error (st_tops st) i = Some t -> wf (st_heap st) t;
  inv_sep : forall i j ti tj, i <> j -> nth_error (st_tops st) i = Some ti -> nth_error (st_tops st) j = Some tj ->
                              disjoint (reach (st_heap st) ti) (reach (st_heap st) tj)
}.

Lemma inv_init : inv init.
Proof.
  split; simpl; [exact hwf_empty | intros i t H; destruct i; discriminate | intros i j ti tj _ H; destruct i; discriminate].
Qed.

(* the status list is irrelevant *)
Lemma inv_status st s : inv st -> inv {| st_heap := st_heap st; st_tops := st_tops st; st_status := s |}.
Proof. intros [A B C]. split; assumption. Qed.

(* ------------------------------------------------------------------ a new topology made of fresh objects *)
Lemma inv_push st h' t' s :
  inv st -> hwf h' -> agree (h_next (st_heap st)) (st_heap st) h' -> h_next (st_heap st) <= h_next h' ->
  wf h' t' -> (forall l, In l (reach h' t') -> h_next (st_heap st) <= l) ->
  inv {| st_heap := h'; st_tops := st_tops st ++ [t']; st_status := s |}.
Proof.
  intros [Hh Hwf Hsep] Hw' Hag Hle Wt' Hfresh. set (h := st_heap st) in *.
  assert (Hold : forall i t, nth_error (st_tops st) i = Some t -> wf h' t /\ reach h' t = reach h t).
  { intros i t Hi. apply wf_agree_on; [eapply Hwf; eauto | exact Hw'|].
    intros l Hl. apply Hag. eapply wf_reach_lt; [eapply Hwf; eauto | exact Hl]. }
  assert (Hnth : forall i t, nth_error (st_tops st ++ [t']) i = Some t ->
                             (i < length (st_tops st) /\ nth_error (st_tops st) i = Some t) \/ (i = length (st_tops st) /\ t = t')).
  { intros i t Hi. destruct (Nat.lt_ge_cases i (length (st_tops st))) as [Hl|Hg].
    - left. rewrite nth_error_app1 in Hi by exact Hl. auto.
    - right. rewrite nth_error_app2 in Hi by exact Hg. destruct (i - length (st_tops st)) as [|k] eqn:Ek; [|destruct k; discriminate].
      simpl in Hi. inversion Hi. split; [lia | reflexivity]. }
  split; simpl.
  - exact Hw'.
  - intros i t Hi. destruct (Hnth i t Hi) as [[_ Hi']|[_ ->]]; [apply (Hold i t Hi') | exact Wt'].
  - intros i j ti tj Hne Hi Hj x Hx Hx'.
    destruct (Hnth i ti Hi) as [[Li Hi']|[Ei ->]]; destruct (Hnth j tj Hj) as [[Lj Hj']|[Ej ->]].
    + destruct (Hold i ti Hi') as [_ Ri]. destruct (Hold j tj Hj') as [_ Rj]. rewrite Ri in Hx. rewrite Rj in Hx'.
      exact (Hsep i j ti tj Hne Hi' Hj' x Hx Hx').
    + destruct (Hold i ti Hi') as [_ Ri]. rewrite Ri in Hx.
      assert (x < h_next h) by (eapply wf_reach_lt; [eapply Hwf; eauto | exact Hx]). specialize (Hfresh x Hx'). unfold h in *. lia.
    + destruct (Hold j tj Hj') as [_ Rj]. rewrite Rj in Hx'.
      assert (x < h_next h) by (eapply wf_reach_lt; [eapply Hwf; eauto | exact Hx']). specialize (Hfresh x Hx). unfold h in *. lia.
    + lia.
Qed.

(* ------------------------------------------------------------------ an edit of one topology *)
Lemma nth_error_set_nth {A} (l : list A) s x j :
  nth_error (set_nth s x l) j = if (j =? s) && (s <? length l) then Some x else nth_error l j.
Proof.
  revert s j; induction l as [|y l IH]; intros s j.
  - destruct s; simpl; rewrite andb_false_r; reflexivity.
  - destruct s as [|s]; destruct j as [|j]; simpl; try reflexivity. rewrite IH. reflexivity.
Qed.

Lemma inv_update st s t h' t' sts :
  inv st -> nth_error (st_tops st) s = Some t ->
  wf h' t' -> h_next (st_heap st) <= h_next h' ->
  (forall x, In x (reach h' t') -> In x (reach (st_heap st) t) \/ h_next (st_heap st) <= x) ->
  (forall x, x < h_next (st_heap st) -> ~ In x (reach (st_heap st) t) -> same_on (st_heap st) h' x) ->
  inv {| st_heap := h'; st_tops := set_nth s t' (st_tops st); st_status := sts |}.
Proof.
  intros [Hh Hwf Hsep] Hs Wt' Hle Hreach Hframe. set (h := st_heap st) in *.
  assert (Hslt : s < length (st_tops st)) by (apply nth_error_Some; congruence).
  assert (Hother : forall j u, j <> s -> nth_error (st_tops st) j = Some u -> wf h' u /\ reach h' u = reach h u).
  { intros j u Hne Hj. apply wf_agree_on; [eapply Hwf; eauto | apply (wf_heap _ _ Wt')|].
    intros l Hl. apply Hframe; [eapply wf_reach_lt; [eapply Hwf; eauto | exact Hl]|].
    intros Hl'. exact (Hsep j s u t Hne Hj Hs l Hl Hl'). }
  assert (Hnth : forall j u, nth_error (set_nth s t' (st_tops st)) j = Some u ->
                             (j = s /\ u = t') \/ (j <> s /\ nth_error (st_tops st) j = Some u)).
  { intros j u Hj. rewrite nth_error_set_nth in Hj. destruct (j =? s) eqn:Ej.
    - apply Nat.eqb_eq in Ej. replace (s <? length (st_tops st)) with true in Hj by (symmetry; apply Nat.ltb_lt; exact Hslt).
      simpl in Hj. inversion Hj. left; auto.
    - apply Nat.eqb_neq in Ej. simpl in Hj. right; auto. }
  split; simpl.
  - apply (wf_heap _ _ Wt').
  - intros j u Hj. destruct (Hnth j u Hj) as [[_ ->]|[Hne Hj']]; [exact Wt' | apply (Hother j u Hne Hj')].
  - intros i j ti tj Hne Hi Hj x Hx Hx'.
    destruct (Hnth i ti Hi) as [[Ei ->]|[Ni Hi']]; destruct (Hnth j tj Hj) as [[Ej ->]|[Nj Hj']].
    + lia.
    + destruct (Hother j tj Nj Hj') as [_ Rj]. rewrite Rj in Hx'.
      destruct (Hreach x Hx) as [Hin|Hge]; [exact (Hsep j s tj t Nj Hj' Hs x Hx' Hin)|].
      assert (x < h_next h) by (eapply wf_reach_lt; [eapply Hwf; eauto | exact Hx']). unfold h in *. lia.
    + destruct (Hother i ti Ni Hi') as [_ Ri]. rewrite Ri in Hx.
      destruct (Hreach x Hx') as [Hin|Hge]; [exact (Hsep i s ti t Ni Hi' Hs x Hx Hin)|].
      assert (x < h_next h) by (eapply wf_reach_lt; [eapply Hwf; eauto | exact Hx]). unfold h in *. lia.
    + destruct (Hother i ti Ni Hi') as [_ Ri]. destruct (Hother j tj Nj Hj') as [_ Rj]. rewrite Ri in Hx. rewrite Rj in Hx'.
      exact (Hsep i j ti tj Hne Hi' Hj' x Hx Hx').
Qed.

(* ------------------------------------------------------------------ one step *)
Lemma inv_err_new st : inv st -> inv (err_new st).
Proof.
  intros I. unfold err_new.
  apply (inv_push st (st_heap st) empty_topo _ I (inv_heap _ I) (agree_refl _ _) (le_n _) (wf_empty _ (inv_heap _ I))).
  intros l Hl. inversion Hl.
Qed.
Lemma inv_err_keep st : inv st -> inv (err_keep st).
Proof. intros I. unfold err_keep. apply inv_status. exact I. Qed.

Lemma inv_new st (r : option (heap * topo)) :
  inv st ->
  (forall h' t', r = Some (h', t') ->
     wf h' t' /\ agree (h_next (st_heap st)) (st_heap st) h' /\ h_next (st_heap st) <= h_next h' /\
     (forall l, In l (reach h' t') -> h_next (st_heap st) <= l)) ->
  inv (match r with Some (h', t') => ok_new st h' t' | None => err_new st end).
Proof.
  intros I H. destruct r as [[h' t']|]; [|apply inv_err_new; exact I].
  destruct (H h' t' eq_refl) as [W [Ag [Le Fr]]]. unfold ok_new. apply inv_push; try assumption. apply (wf_heap _ _ W).
Qed.

Lemma frame_of_writes st o s t :
  edit_slot o = Some s -> nth_error (st_tops st) s = Some t -> wf (st_heap st) t ->
  forall x, x < h_next (st_heap st) -> ~ In x (reach (st_heap st) t) -> same_on (st_heap st) (st_heap (step flags_fix st o)) x.
Proof.
  intros Ho Ht W x Hx Hni. destruct (edit_writes flags_fix st o s t Ho Ht (wf_back _ _ W)) as [_ Hf].
  apply Hf; [exact Hx|]. intros Hin. apply Hni. apply own_in_reach. exact Hin.
Qed.

Theorem inv_step st o : hist_op o = true -> inv st -> inv (step flags_fix st o).
Proof.
  intros Ho I. pose proof (inv_heap _ I) as Hh. set (h := st_heap st) in *.
  destruct o; simpl in Ho; try discriminate.
  - (* new *) unfold step, ok_new.
    apply (inv_push st (st_heap st) empty_topo _ I Hh (agree_refl _ _) (le_n _) (wf_empty _ Hh)). intros l Hl. inversion Hl.
  - (* add_chain *)
    pose proof (frame_of_writes st (OAddChain s cid) s) as Fr. unfold step in *. fold h in Fr |- *.
    destruct (nth_error (st_tops st) s) as [t|] eqn:Et; cbn [obind] in *; [|apply inv_err_keep; exact I].
    pose proof (inv_wf _ I s t Et) as W. specialize (Fr t eq_refl eq_refl W).
    destruct (add_chain h t cid) as [[h' t'] l] eqn:E. destruct (add_chain_wf h t cid h' t' l W E) as [W' [Hr [_ Hle]]].
    unfold ok_set. simpl in Fr. eapply inv_update; eauto.
  - (* add_residue *)
    pose proof (frame_of_writes st (OAddResidue s chain_pos name resSeq seg) s) as Fr. unfold step in *. fold h in Fr |- *.
    destruct (nth_error (st_tops st) s) as [t|] eqn:Et; cbn [obind] in *; [|apply inv_err_keep; exact I].
    pose proof (inv_wf _ I s t Et) as W. specialize (Fr t eq_refl eq_refl W).
    destruct (nth_error (t_chains t) chain_pos) as [c|] eqn:Ec; cbn [obind] in *; [|apply inv_err_keep; exact I].
    destruct (add_residue h t name c resSeq seg) as [[[h' t'] l]|] eqn:E; cbn [obind] in *; [|apply inv_err_keep; exact I].
    destruct (add_residue_wf h t name c resSeq seg h' t' l W (nth_error_In _ _ Ec) E) as [W' [Hr [_ Hle]]].
    unfold ok_set. simpl in *. eapply inv_update; eauto.
  - (* add_atom *)
    pose proof (frame_of_writes st (OAddAtom s res_pos name elem serial) s) as Fr. unfold step in *. fold h in Fr |- *.
    destruct (nth_error (st_tops st) s) as [t|] eqn:Et; cbn [obind] in *; [|apply inv_err_keep; exact I].
    pose proof (inv_wf _ I s t Et) as W. specialize (Fr t eq_refl eq_refl W).
    destruct (nth_error (t_residues t) res_pos) as [r|] eqn:Er; cbn [obind] in *; [|apply inv_err_keep; exact I].
    destruct (add_atom h t name elem r serial) as [[[h' t'] l]|] eqn:E; cbn [obind] in *; [|apply inv_err_keep; exact I].
    destruct (add_atom_wf h t name elem r serial h' t' l W (nth_error_In _ _ Er) E) as [W' [Hr Hle]].
    unfold ok_set. simpl in *. eapply inv_update; eauto.
  - (* add_bond *)
    pose proof (frame_of_writes st (OAddBond s i j ty ord) s) as Fr. unfold step in *. fold h in Fr |- *.
    destruct (nth_error (st_tops st) s) as [t|] eqn:Et; cbn [obind] in *; [|apply inv_err_keep; exact I].
    pose proof (inv_wf _ I s t Et) as W. specialize (Fr t eq_refl eq_refl W).
    destruct (nth_error (t_atoms t) i) as [x|] eqn:Ex; cbn [obind] in *; [|apply inv_err_keep; exact I].
    destruct (nth_error (t_atoms t) j) as [y|] eqn:Ey; cbn [obind] in *; [|apply inv_err_keep; exact I].
    destruct (add_bond h t x y ty ord) as [t'|] eqn:E; cbn [obind] in *; [|apply inv_err_keep; exact I].
    destruct (add_bond_wf h t x y ty ord t' W (nth_error_In _ _ Ex) (nth_error_In _ _ Ey) E) as [W' Hr].
    unfold ok_set. simpl in *. eapply inv_update; eauto; try lia; try (intros z Hz; left; apply Hr; exact Hz).
  - (* insert_atom *)
    pose proof (frame_of_writes st (OInsertAtom s res_pos name elem index rindex serial) s) as Fr. unfold step in *. fold h in Fr |- *.
    destruct (nth_error (st_tops st) s) as [t|] eqn:Et; cbn [obind] in *; [|apply inv_err_keep; exact I].
    pose proof (inv_wf _ I s t Et) as W. specialize (Fr t eq_refl eq_refl W).
    destruct (nth_error (t_residues t) res_pos) as [r|] eqn:Er; cbn [obind] in *; [|apply inv_err_keep; exact I].
    destruct (insert_atom h t name elem r index rindex serial) as [[[h' t'] l]|] eqn:E; cbn [obind] in *; [|apply inv_err_keep; exact I].
    destruct (insert_atom_wf h t name elem r index rindex serial h' t' l W (nth_error_In _ _ Er) E) as [W' [Hr Hle]].
    unfold ok_set. simpl in *. eapply inv_update; eauto.
  - (* delete_atom_by_index *)
    pose proof (frame_of_writes st (ODelete s index) s) as Fr. unfold step in *. fold h in Fr |- *.
    destruct (nth_error (st_tops st) s) as [t|] eqn:Et; cbn [obind] in *; [|apply inv_err_keep; exact I].
    pose proof (inv_wf _ I s t Et) as W. specialize (Fr t eq_refl eq_refl W).
    destruct (delete_atom flags_fix h t index) as [[h' t']|] eqn:E; cbn [obind] in *; [|apply inv_err_keep; exact I].
    destruct (delete_atom_wf h t index h' t' W E) as [W' [Hr Hn]].
    unfold ok_set. simpl in *. eapply inv_update; eauto; try lia; try (intros z Hz; left; apply Hr; exact Hz); try (fold h; lia).
  - (* copy *)
    unfold step. fold h. apply inv_new; [exact I|]. intros h' t' E.
    destruct (nth_error (st_tops st) s) as [t|]; cbn [obind] in E; [|discriminate]. apply (copy_result h t h' t' Hh E).
  - (* subset *)
    unfold step. fold h. apply inv_new; [exact I|]. intros h' t' E.
    destruct (nth_error (st_tops st) s) as [t|]; cbn [obind] in E; [|discriminate]. apply (subset_result h t keep h' t' Hh E).
  - (* join *)
    unfold step. fold h. apply inv_new; [exact I|]. intros h' t' E.
    destruct (nth_error (st_tops st) s) as [t|]; cbn [obind] in E; [|discriminate].
    destruct (nth_error (st_tops st) s2) as [u|]; cbn [obind] in E; [|discriminate]. apply (join_result h t u keep_resSeq h' t' Hh E).
Qed.

(* ------------------------------------------------------------------ all histories *)
Theorem inv_run_from st ops : forallb hist_op ops = true -> inv st -> inv (fold_left (step flags_fix) ops st).
Proof.
  revert st; induction ops as [|o ops IH]; intros st Hops I; [exact I|].
  simpl in Hops. apply andb_prop in Hops. destruct Hops as [Ho Hops]. simpl. apply IH; [exact Hops | apply inv_step; assumption].
Qed.

Theorem inv_run ops : forallb hist_op ops = true -> inv (run flags_fix ops).
Proof. intros H. unfold run. apply inv_run_from; [exact H | exact inv_init]. Qed.

(* the two halves of the headline *)
Corollary wf_inv ops i t :
  forallb hist_op ops = true -> nth_error (st_tops (run flags_fix ops)) i = Some t -> wf (st_heap (run flags_fix ops)) t.
Proof. intros H Hi. exact (inv_wf _ (inv_run ops H) i t Hi). Qed.

Corollary independent_inv ops i j ti tj :
  forallb hist_op ops = true -> i <> j ->
  nth_error (st_tops (run flags_fix ops)) i = Some ti -> nth_error (st_tops (run flags_fix ops)) j = Some tj ->
  disjoint (reach (st_heap (run flags_fix ops)) ti) (reach (st_heap (run flags_fix ops)) tj).
Proof. intros H Hne Hi Hj. exact (inv_sep _ (inv_run ops H) i j ti tj Hne Hi Hj). Qed.
