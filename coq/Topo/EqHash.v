(* C04: "topologies that compare equal hash equal".
   == is [teq] on the chain-wise value; the hash is modelled by the four tuples that are hashed,
   combined by xor ([xor_equal]).  For the repaired __hash__ (built from what __eq__ compares) the
   implication holds for all topologies whose _atoms list is index-consistent; for today's
   __hash__ it fails (witnesses in Props/C04.v). *)
From Coq Require Import String Ascii.
From Coq Require Import List Arith ZArith Bool Lia.
Import ListNotations.
Require Import MD.Topo.Model MD.Topo.Basics.
Open Scope nat_scope.

Lemma list_eqb_map {A B} (e : A -> A -> bool) (f : A -> B) a b :
  (forall x y, e x y = true -> f x = f y) -> list_eqb e a b = true -> map f a = map f b.
Proof.
  intros He. revert b; induction a as [|x a IH]; intros [|y b] H; simpl in *; try discriminate; [reflexivity|].
  apply andb_prop in H. destruct H as [H1 H2]. f_equal; [apply He; exact H1 | apply IH; exact H2].
Qed.

Lemma list_eqb_length {A} (e : A -> A -> bool) a b : list_eqb e a b = true -> length a = length b.
Proof.
  revert b; induction a as [|x a IH]; intros [|y b] H; simpl in *; try discriminate; [reflexivity|].
  apply andb_prop in H. destruct H as [_ H2]. f_equal. apply IH; exact H2.
Qed.

Lemma list_eqb_concat_length {A B} (e : A -> A -> bool) (f : A -> list B) a b :
  (forall x y, e x y = true -> length (f x) = length (f y)) -> list_eqb e a b = true ->
  length (concat (map f a)) = length (concat (map f b)).
Proof.
  intros He. revert b; induction a as [|x a IH]; intros [|y b] H; simpl in *; try discriminate; [reflexivity|].
  apply andb_prop in H. destruct H as [H1 H2]. rewrite !app_length. f_equal; [apply He; exact H1 | apply IH; exact H2].
Qed.

Lemma list_eqb_concat_map {A B C} (e : A -> A -> bool) (f : A -> list B) (g : B -> C) a b :
  (forall x y, e x y = true -> map g (f x) = map g (f y)) -> list_eqb e a b = true ->
  map g (concat (map f a)) = map g (concat (map f b)).
Proof.
  intros He. revert b; induction a as [|x a IH]; intros [|y b] H; simpl in *; try discriminate; [reflexivity|].
  apply andb_prop in H. destruct H as [H1 H2]. rewrite !map_app. f_equal; [apply He; exact H1 | apply IH; exact H2].
Qed.

(* ------------------------------------------------------------------ what == forces *)
Lemma vres_eq_name a b : vres_eq_eqb a b = true -> vr_name a = vr_name b.
Proof. unfold vres_eq_eqb. intros H. apply andb_prop in H. destruct H as [H _]. apply String.eqb_eq. exact H. Qed.
Lemma vres_eq_natoms a b : vres_eq_eqb a b = true -> length (vr_atoms a) = length (vr_atoms b).
Proof. unfold vres_eq_eqb. intros H. apply andb_prop in H. destruct H as [_ H]. eapply list_eqb_length; eauto. Qed.

Lemma vchain_eq_index a b : vchain_eq_eqb a b = true -> vc_index a = vc_index b.
Proof. unfold vchain_eq_eqb. intros H. apply andb_prop in H. destruct H as [H _]. apply Nat.eqb_eq. exact H. Qed.
Lemma vchain_eq_res a b : vchain_eq_eqb a b = true -> list_eqb vres_eq_eqb (vc_res a) (vc_res b) = true.
Proof. unfold vchain_eq_eqb. intros H. apply andb_prop in H. destruct H as [_ H]. exact H. Qed.

Lemma teq_chain_idx a b : list_eqb vchain_eq_eqb a b = true -> map vc_index a = map vc_index b.
Proof. apply list_eqb_map. apply vchain_eq_index. Qed.

Lemma teq_res_names a b :
  list_eqb vchain_eq_eqb a b = true ->
  map vr_name (concat (map vc_res a)) = map vr_name (concat (map vc_res b)).
Proof.
  apply list_eqb_concat_map. intros x y H. apply vchain_eq_res in H. eapply list_eqb_map; [|exact H].
  apply vres_eq_name.
Qed.

Lemma teq_natoms a b :
  list_eqb vchain_eq_eqb a b = true ->
  length (concat (map vr_atoms (concat (map vc_res a)))) = length (concat (map vr_atoms (concat (map vc_res b)))).
Proof.
  intros H.
  assert (E : map (fun r => length (vr_atoms r)) (concat (map vc_res a)) =
              map (fun r => length (vr_atoms r)) (concat (map vc_res b))).
  { revert H. apply list_eqb_concat_map. intros x y H. apply vchain_eq_res in H. eapply list_eqb_map; [|exact H].
    apply vres_eq_natoms. }
  assert (L : forall l : list vres, length (concat (map vr_atoms l)) = list_sum (map (fun r => length (vr_atoms r)) l)).
  { induction l as [|r l IH]; [reflexivity|]. simpl. rewrite app_length, IH. reflexivity. }
  rewrite !L, E. reflexivity.
Qed.

(* ------------------------------------------------------------------ sorting commutes with the key *)
Lemma ins_sorted_map {A B} (f : A -> B) (le : B -> B -> bool) x l :
  map f (ins_sorted (fun a b => le (f a) (f b)) x l) = ins_sorted le (f x) (map f l).
Proof.
  induction l as [|y l IH]; [reflexivity|]. simpl. destruct (le (f x) (f y)); simpl; [reflexivity|]. rewrite IH. reflexivity.
Qed.
Lemma sort_by_map {A B} (f : A -> B) (le : B -> B -> bool) l :
  map f (sort_by (fun a b => le (f a) (f b)) l) = sort_by le (map f l).
Proof.
  unfold sort_by. induction l as [|x l IH]; [reflexivity|]. simpl. rewrite ins_sorted_map, IH. reflexivity.
Qed.
Lemma ins_sorted_forall {A} (P : A -> Prop) le x l : P x -> Forall P l -> Forall P (ins_sorted le x l).
Proof.
  intros Hx. induction l as [|y l IH]; intros F; simpl; [constructor; auto|].
  inversion F; subst. destruct (le x y); constructor; auto.
Qed.
Lemma sort_by_forall {A} (P : A -> Prop) le l : Forall P l -> Forall P (sort_by le l).
Proof.
  unfold sort_by. induction l as [|x l IH]; intros F; simpl; [constructor|].
  inversion F; subst. apply ins_sorted_forall; auto.
Qed.

(* ------------------------------------------------------------------ a bond is determined by its equality tuple *)
Definition vbond_ok (b : vbond) : Prop := match vb_order b with Some n => 1 <= n | None => True end.
Definition key_decode (k : nat * nat * nat * nat) : nat * nat * option btype * option nat :=
  let '(i, j, q, o) := k in (i, j, q_btype q, match o with 0 => None | _ => Some o end).

Lemma bond4_decode b : vbond_ok b -> bond4 b = key_decode (bond_key b).
Proof.
  unfold vbond_ok, bond4, bond_key, key_decode. intros H.
  assert (Q : q_btype (btype_q (vb_type b)) = vb_type b) by (destruct (vb_type b) as [[]|]; reflexivity).
  rewrite Q. destruct (vb_order b) as [[|n]|]; [lia | reflexivity | reflexivity].
Qed.

Lemma key_eqb_eq x y : key_eqb x y = true -> x = y.
Proof.
  destruct x as [[[a b] c] d]. destruct y as [[[a' b'] c'] d']. simpl. intros H.
  apply andb_prop in H. destruct H as [H H4]. apply andb_prop in H. destruct H as [H H3].
  apply andb_prop in H. destruct H as [H1 H2].
  apply Nat.eqb_eq in H1, H2, H3, H4. subst. reflexivity.
Qed.

Lemma list_eqb_eq {A} (e : A -> A -> bool) a b : (forall x y, e x y = true -> x = y) -> list_eqb e a b = true -> a = b.
Proof. intros He H. rewrite <- (map_id a), <- (map_id b). eapply list_eqb_map; [|exact H]. exact He. Qed.

(* ------------------------------------------------------------------ xor of equal key lists *)
Lemma xor_equal_refl ks : xor_equal ks ks = true.
Proof.
  unfold xor_equal. apply forallb_forall. intros k _.
  rewrite filter_app, app_length. replace (length (filter (hkey_eqb k) ks) + length (filter (hkey_eqb k) ks))
    with (2 * length (filter (hkey_eqb k) ks)) by lia.
  apply Nat.even_spec. exists (length (filter (hkey_eqb k) ks)). reflexivity.
Qed.

(* ------------------------------------------------------------------ the theorem *)
Definition atoms_indexed (h : heap) (t : topo) (v : vtop) : Prop :=
  mapM (fun l => a <- get_a h l ;; Some (a_index a)) (t_atoms t) = Some (seq 0 (length (v_atoms v))).

Theorem eq_hash_fix h t u va vu ka ku :
  abs h t = Some va -> abs h u = Some vu ->
  atoms_indexed h t va -> atoms_indexed h u vu ->
  Forall vbond_ok (vt_bonds va) -> Forall vbond_ok (vt_bonds vu) ->
  hash_keys flags_fix h t = Some ka -> hash_keys flags_fix h u = Some ku ->
  teq va vu = true -> xor_equal ka ku = true.
Proof.
  intros Aa Au Ia Iu Ba Bu Ka Ku Heq.
  unfold hash_keys in Ka, Ku. rewrite Aa in Ka. rewrite Au in Ku. cbn [obind] in Ka, Ku.
  unfold atoms_indexed in Ia, Iu. rewrite Ia in Ka. rewrite Iu in Ku. cbn [obind f_hash flags_fix] in Ka, Ku.
  inv_bind Ka. inv_bind Ku. inversion Ka; subst ka; clear Ka. inversion Ku; subst ku; clear Ku.
  unfold teq in Heq. apply andb_prop in Heq. destruct Heq as [Heq H3]. apply andb_prop in Heq. destruct Heq as [H1 _].
  assert (E1 : map vc_index (vt_chains va) = map vc_index (vt_chains vu)) by (apply teq_chain_idx; exact H1).
  assert (E2 : length (v_atoms va) = length (v_atoms vu)) by (unfold v_atoms, v_residues; apply teq_natoms; exact H1).
  assert (E4 : map vr_name (v_residues va) = map vr_name (v_residues vu)) by (unfold v_residues; apply teq_res_names; exact H1).
  assert (E3 : map bond4 (sort_bonds (vt_bonds va)) = map bond4 (sort_bonds (vt_bonds vu))).
  { assert (D : forall l, Forall vbond_ok l -> map bond4 l = map key_decode (map bond_key l)).
    { induction l as [|b l IH]; intros F; [reflexivity|]. inversion F; subst. simpl. rewrite bond4_decode by assumption.
      rewrite IH by assumption. reflexivity. }
    unfold sort_bonds. rewrite !D by (apply sort_by_forall; assumption).
    rewrite !(sort_by_map bond_key key_leb).
    unfold sorted_bond_keys in H3. apply (list_eqb_eq key_eqb) in H3; [|apply key_eqb_eq]. rewrite H3. reflexivity. }
  rewrite E1, E2, E3, E4. apply xor_equal_refl.
Qed.
