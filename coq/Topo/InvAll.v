(* C04: the property over histories of EVERY operation the statement quantifies over.  coq/Topo/Inv.v proves the
   invariant (every topology well formed, any two share no reachable object) for histories of new / add_* /
   insert_atom / delete_atom_by_index / copy / subset / join.  Here the remaining constructors of [op] are added:
   the pickle round trip and the three carriers (data frame, HDF5 JSON, PDB records), so that the invariant holds
   after ANY list of ops, without a side condition on the list. *)
From Coq Require Import String Ascii.
From Coq Require Import List Arith ZArith Bool Lia Sorted Permutation.
Import ListNotations.
Require Import MD.Topo.Model MD.Topo.Carriers MD.Topo.Run MD.Topo.Basics MD.Topo.Build MD.Topo.AbsWalk MD.Topo.Copy
  MD.Topo.Subset MD.Topo.Frame MD.Topo.Wf MD.Topo.Results MD.Topo.Inv MD.Topo.Pickle MD.Topo.EqHash MD.Topo.EqEquiv MD.Topo.Witness.
Local Open Scope list_scope.
Open Scope nat_scope.

(* ------------------------------------------------------------------ a topology decoded from a carrier *)
Lemma add_bonds_pos_ends h atoms : forall bs t t',
  add_bonds_pos h t atoms bs = Some t' ->
  same_but_bonds t t' /\
  exists nb, t_bonds t' = t_bonds t ++ nb /\
             forall b, In b nb -> In (b_a1 b) atoms /\ In (b_a2 b) atoms /\ order_ok (b_order b) = true.
Proof.
  induction bs as [|[[[i j] ty] ord] bs IH]; intros t t' H.
  - simpl in H. inversion H; subst. split; [repeat split|]. exists []. rewrite app_nil_r. split; [reflexivity | intros ? []].
  - simpl in H. inv_bind H. rename x into x1. inv_bind H. rename x into x2. inv_bind H. rename x into t1.
    unfold add_bond in E1. destruct (order_ok ord) eqn:Eo; [|discriminate]. simpl in E1.
    inv_bind E1. rename x into a1. inv_bind E1. rename x into a2. inversion E1; subst t1; clear E1.
    match type of H with add_bonds_pos _ ?T _ _ = _ => set (t1 := T) in * end.
    destruct (IH t1 t' H) as [[S1 [S2 [S3 [S4 S5]]]] [nb [Hnb Hends]]].
    split; [repeat split; assumption|].
    eexists (_ :: nb). split; [rewrite Hnb; subst t1; simpl; rewrite <- app_assoc; reflexivity|].
    assert (In x1 atoms /\ In x2 atoms) as [M1 M2] by (split; eapply nth_error_In; eauto).
    intros b [<-|Hin]; [|apply Hends; exact Hin]. destruct (a_index a1 <? a_index a2); simpl; auto.
Qed.

(* from_dataframe / HDF5 decode / PDB read: whatever the description, the decoded topology is well formed,
   made of fresh objects only, and nothing that existed is modified *)
Theorem build_from_result h d h' t' :
  hwf h -> build_from h d = Some (h', t') ->
  wf h' t' /\ agree (h_next h) h h' /\ h_next h <= h_next h' /\ (forall l, In l (reach h' t') -> h_next h <= l).
Proof.
  intros Hw H. unfold build_from in H. inv_bind H. destruct x as [[h1 t1] news]. inv_bind H. inversion H; subst h' t'; clear H.
  rename x into t2. rename E into Hbuild. rename E0 into Hadd.
  pose proof (build_chains_layout _ _ _ _ _ _ Hw Hbuild) as HL. simpl in HL.
  set (L := lay_chains (h_next h) 0 0 0 (fst d)) in *.
  destruct HL as [Hw1 [Hn1 [Hnews [Ht1 [Hag HLw]]]]].
  destruct (add_bonds_pos_ends h1 news (snd d) t1 t2 Hadd) as [[S1 [S2 [S3 [S4 S5]]]] [nb [Hnb Hends]]].
  assert (Ht1b : t_bonds t1 = []) by (rewrite Ht1; reflexivity). rewrite Ht1b in Hnb. simpl in Hnb.
  assert (Ec : t_chains t2 = map fst L) by (rewrite S1, Ht1; reflexivity).
  assert (Er : t_residues t2 = lay_chain_res L) by (rewrite S2, Ht1; reflexivity).
  assert (Ea : t_atoms t2 = map fst (lay_chain_atoms L)) by (rewrite S3, Ht1, Hnews; reflexivity).
  assert (C1 : t_numAtoms t2 = length (t_atoms t2)) by (rewrite S4, S3, Ht1; reflexivity).
  assert (C2 : t_numRes t2 = length (t_residues t2)) by (rewrite S5, S2, Ht1; reflexivity).
  assert (Bo : forall b, In b (t_bonds t2) -> In (b_a1 b) (t_atoms t2) /\ In (b_a2 b) (t_atoms t2) /\ order_ok (b_order b) = true).
  { intros b Hb. rewrite Hnb in Hb. rewrite Ea, <- Hnews. apply Hends; exact Hb. }
  destruct (laid_wf h1 L t2 Hw1 (laid_layout _ _) HLw Ec Er Ea C1 C2 Bo) as [Wf Re].
  split; [exact Wf|]. split; [exact Hag|]. split; [lia|].
  intros l Hin. rewrite Re in Hin.
  repeat (apply in_app_or in Hin; destruct Hin as [Hin|Hin]); try (apply (layout_ge (h_next h) 0 0 0 (fst d) l); fold L; tauto).
  unfold bond_ends in Hin. apply in_concat in Hin. destruct Hin as [e [He Hin]]. apply in_map_iff in He. destruct He as [b [<- Hb]].
  destruct (Bo b Hb) as [B1 [B2 _]]. rewrite Ea in B1, B2.
  destruct Hin as [<-|[<-|[]]]; apply (layout_ge (h_next h) 0 0 0 (fst d)); fold L; tauto.
Qed.

(* ------------------------------------------------------------------ the pickle round trip *)
Section PickleResult.
  Variables (h : heap) (t : topo).
  Hypothesis W : wf h t.
  Let B : hwf h := wf_heap _ _ W.
  Let n := h_next h.
  Let h2 := fst (pickle h t).
  Let t2 := snd (pickle h t).

  Lemma add_inj : FinFun.Injective (Nat.add n).
  Proof. intros x y H. lia. Qed.

  Lemma pk_a l : get_a h2 (n + l) = option_map (shift_atom n) (get_a h l).
  Proof. apply pickle_get_a. exact B. Qed.
  Lemma pk_r l : get_r h2 (n + l) = option_map (shift_res n) (get_r h l).
  Proof. apply pickle_get_r. exact B. Qed.
  Lemma pk_c l : get_c h2 (n + l) = option_map (shift_chain n) (get_c h l).
  Proof. apply pickle_get_c. exact B. Qed.

  Lemma pickle_hwf : hwf h2.
  Proof.
    intros l Hl. assert (Hn : h_next h2 = n + n) by reflexivity. rewrite Hn in Hl.
    replace l with (n + (l - n)) by lia. rewrite pk_a, pk_r, pk_c.
    destruct (B (l - n) ltac:(unfold n in *; lia)) as [-> [-> ->]]. repeat split.
  Qed.

  Lemma pk_cres c : cres h2 (n + c) = map (Nat.add n) (cres h c).
  Proof. unfold cres. rewrite pk_c. destruct (get_c h c); reflexivity. Qed.
  Lemma pk_ratoms r : ratoms h2 (n + r) = map (Nat.add n) (ratoms h r).
  Proof. unfold ratoms. rewrite pk_r. destruct (get_r h r); reflexivity. Qed.

  Lemma pk_cw_res cs : chainwise_residues h2 (map (Nat.add n) cs) = map (Nat.add n) (chainwise_residues h cs).
  Proof.
    rewrite !cw_res_eq. induction cs as [|c cs IH]; [reflexivity|]. simpl. rewrite map_app, pk_cres, IH. reflexivity.
  Qed.
  Lemma pk_cw_atoms cs : chainwise_atoms h2 (map (Nat.add n) cs) = map (Nat.add n) (chainwise_atoms h cs).
  Proof.
    rewrite !cw_atoms_eq, pk_cw_res. induction (chainwise_residues h cs) as [|r rs IH]; [reflexivity|].
    simpl. rewrite map_app, pk_ratoms, IH. reflexivity.
  Qed.

  Lemma t2_eq : t2 = shift_topo n t.
  Proof. reflexivity. Qed.

  Lemma pickle_wf : wf h2 t2.
  Proof.
    pose proof W as W0. destruct W0 as [_ [Nc Ic] [Nr [Pr Ir]] [Na [Pa Ia]] Bk [C1 C2] Bo].
    rewrite t2_eq. split; simpl.
    - exact pickle_hwf.
    - split; [apply FinFun.Injective_map_NoDup; [exact add_inj | exact Nc]|].
      intros i c Hi. rewrite nth_error_map in Hi. match type of Hi with option_map _ ?X = _ => remember X as o eqn:E; symmetry in E; destruct o as [c0|] end; [|discriminate].
      simpl in Hi. inversion Hi; subst c. destruct (Ic i c0 E) as [ch [G Hx]].
      exists (shift_chain n ch). rewrite pk_c, G. split; [reflexivity | exact Hx].
    - rewrite pk_cw_res. split; [apply FinFun.Injective_map_NoDup; [exact add_inj | exact Nr]|].
      split; [apply Permutation_map; exact Pr|].
      intros i r Hi. rewrite nth_error_map in Hi. match type of Hi with option_map _ ?X = _ => remember X as o eqn:E; symmetry in E; destruct o as [r0|] end; [|discriminate].
      simpl in Hi. inversion Hi; subst r. destruct (Ir i r0 E) as [rr [G Hx]].
      exists (shift_res n rr). rewrite pk_r, G. split; [reflexivity | exact Hx].
    - rewrite pk_cw_atoms. split; [apply FinFun.Injective_map_NoDup; [exact add_inj | exact Na]|].
      split; [apply Permutation_map; exact Pa|].
      intros i l Hi. rewrite nth_error_map in Hi. match type of Hi with option_map _ ?X = _ => remember X as o eqn:E; symmetry in E; destruct o as [l0|] end; [|discriminate].
      simpl in Hi. inversion Hi; subst l. destruct (Ia i l0 E) as [a [G Hx]].
      exists (shift_atom n a). rewrite pk_a, G. split; [reflexivity | exact Hx].
    - intros l a Hin G. simpl in Hin. apply in_map_iff in Hin. destruct Hin as [l0 [<- Hin]].
      rewrite pk_a in G. destruct (get_a h l0) as [a0|] eqn:G0; [|discriminate]. simpl in G. inversion G; subst a. simpl.
      apply in_map. eapply Bk; eauto.
    - rewrite !map_length. split; assumption.
    - intros b Hb. apply in_map_iff in Hb. destruct Hb as [b0 [<- Hb]]. simpl.
      destruct (Bo b0 Hb) as [B1 [B2 B3]]. split; [apply in_map; exact B1|]. split; [apply in_map; exact B2 | exact B3].
  Qed.

  Lemma pickle_reach : reach h2 t2 = map (Nat.add n) (reach h t).
  Proof.
    assert (Hb : bond_ends (shift_topo n t) = map (Nat.add n) (bond_ends t)).
    { unfold bond_ends, shift_topo. cbn [t_bonds]. induction (t_bonds t) as [|b bs IH]; [reflexivity|]. simpl. rewrite IH. reflexivity. }
    rewrite t2_eq. unfold reach. rewrite Hb. simpl. rewrite pk_cw_res, pk_cw_atoms, !map_app. reflexivity.
  Qed.

  Theorem pickle_result :
    wf h2 t2 /\ agree n h h2 /\ n <= h_next h2 /\ (forall l, In l (reach h2 t2) -> n <= l).
  Proof.
    split; [exact pickle_wf|]. split; [apply pickle_agree|]. split; [change (h_next h2) with (n + n); lia|].
    intros l Hin. rewrite pickle_reach in Hin. apply in_map_iff in Hin. destruct Hin as [l0 [<- _]]. lia.
  Qed.
End PickleResult.

(* ------------------------------------------------------------------ one step, any op *)
Theorem inv_step_all st o : inv st -> inv (step flags_fix st o).
Proof.
  intros I. destruct (hist_op o) eqn:Ho; [apply inv_step; assumption|].
  pose proof (inv_heap _ I) as Hh. set (h := st_heap st) in *.
  destruct o; simpl in Ho; try discriminate.
  - (* pickle *)
    unfold step. fold h. destruct (nth_error (st_tops st) s) as [t|] eqn:Et; cbn [obind]; [|apply inv_err_new; exact I].
    pose proof (inv_wf _ I s t Et) as W. fold h in W.
    destruct (pickle_result h t W) as [W' [Ag [Le Fr]]].
    destruct (pickle h t) as [h' t'] eqn:E. simpl in *. unfold ok_new. apply inv_push; try assumption. apply (wf_heap _ _ W').
  - (* data frame *)
    unfold step. fold h. apply inv_new; [exact I|]. intros h' t' E.
    destruct (nth_error (st_tops st) s) as [t|]; cbn [obind] in E; [|discriminate].
    destruct (abs h t) as [v|]; cbn [obind] in E; [|discriminate]. apply (build_from_result h _ h' t' Hh E).
  - (* HDF5 *)
    unfold step. fold h. apply inv_new; [exact I|]. intros h' t' E.
    destruct (nth_error (st_tops st) s) as [t|]; cbn [obind] in E; [|discriminate].
    destruct (abs h t) as [v|]; cbn [obind] in E; [|discriminate]. apply (build_from_result h _ h' t' Hh E).
  - (* PDB *)
    unfold step. fold h. apply inv_new; [exact I|]. intros h' t' E.
    destruct (nth_error (st_tops st) s) as [t|]; cbn [obind] in E; [|discriminate].
    destruct (pdb_write flags_fix ter h t) as [recs|]; cbn [obind] in E; [|discriminate]. apply (build_from_result h _ h' t' Hh E).
Qed.

Theorem inv_run_all_from st ops : inv st -> inv (fold_left (step flags_fix) ops st).
Proof. revert st; induction ops as [|o ops IH]; intros st I; [exact I|]. simpl. apply IH. apply inv_step_all. exact I. Qed.

Theorem inv_run_all ops : inv (run flags_fix ops).
Proof. unfold run. apply inv_run_all_from. exact inv_init. Qed.

(* the headline over the full quantifier of the property: ANY list of ops *)
Corollary wf_inv_all ops i t :
  nth_error (st_tops (run flags_fix ops)) i = Some t -> wf (st_heap (run flags_fix ops)) t.
Proof. intros Hi. exact (inv_wf _ (inv_run_all ops) i t Hi). Qed.

Corollary independent_inv_all ops i j ti tj :
  i <> j ->
  nth_error (st_tops (run flags_fix ops)) i = Some ti -> nth_error (st_tops (run flags_fix ops)) j = Some tj ->
  disjoint (reach (st_heap (run flags_fix ops)) ti) (reach (st_heap (run flags_fix ops)) tj).
Proof. intros Hne Hi Hj. exact (inv_sep _ (inv_run_all ops) i j ti tj Hne Hi Hj). Qed.

(* on the topologies reachable by ANY history, round trips included, == implies equal hash *)
Theorem eq_hash_reachable_all ops i j ti tj va vb ka kb :
  let st := run flags_fix ops in
  nth_error (st_tops st) i = Some ti -> nth_error (st_tops st) j = Some tj ->
  abs (st_heap st) ti = Some va -> abs (st_heap st) tj = Some vb ->
  hash_keys flags_fix (st_heap st) ti = Some ka -> hash_keys flags_fix (st_heap st) tj = Some kb ->
  teq va vb = true -> xor_equal ka kb = true.
Proof.
  intros st Hi Hj Aa Ab Ka Kb Heq.
  pose proof (wf_inv_all ops i ti Hi) as Wi. pose proof (wf_inv_all ops j tj Hj) as Wj.
  destruct (wf_hash_hyps _ _ _ Wi Aa) as [I1 B1]. destruct (wf_hash_hyps _ _ _ Wj Ab) as [I2 B2].
  exact (eq_hash_fix (st_heap st) ti tj va vb ka kb Aa Ab I1 I2 B1 B2 Ka Kb Heq).
Qed.

(* non-vacuity: a history that uses every kind of op (pickle, data frame, HDF5 and PDB round trips, then edits of
   the round-tripped topologies and a join of two of them); no op raises and no topology is empty *)
Definition all_ops : list op :=
  alias_ops ++ [OPickle 0; ODataFrame 0; OH5 1; OPdb 0 true; ODelete 2 0;
                OInsertAtom 3 0 "N"%string "N"%string (Some 0) (Some 0) None; OJoin 4 5 false].
Lemma all_ops_run :
  let st := run flags_fix all_ops in
  forallb negb (st_status st) = true /\ map t_numAtoms (st_tops st) = [4; 4; 3; 5; 4; 4; 8] /\
  map (fun t => length (t_bonds t)) (st_tops st) = [3; 3; 2; 3; 3; 3; 6].
Proof. vm_compute. repeat split. Qed.
