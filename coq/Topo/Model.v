(* Executable model of mdtraj's Topology object graph (C04).  No proofs in this file.

   Source modelled: /repo/mdtraj/core/topology.py (Topology, Chain, Residue, Atom, Bond,
   _topology_from_subset), the topology JSON of mdtraj/formats/hdf5.py, and the topology part of
   the PDB writer/reader (mdtraj/formats/pdb/pdbfile.py, pdbstructure.py).

   Two levels.
   * heap level: Chain/Residue/Atom objects live in a store and are named by locations; a
     Topology holds lists of locations and a list of bonds whose ends are atom *locations*.  This
     is where identity, aliasing and in-place edits are visible.
   * value level ([vtop]): what a chain-wise walk over a topology reads (the abstraction [abs]);
     the file/data-frame carriers and ==/hash are functions of that value.

   Construction by copy/join/subset/from_dataframe/HDF5 decode/PDB read is modelled as
   "read the source by a chain-wise walk, then run the add_chain/add_residue/add_atom calls"; in the
   code the reads and the calls are interleaved, but the calls only ever write objects they
   created themselves (lemma build_frame in Heap.v), so the split does not change the result.

   Where today's code violates the property there are two variants selected by [flags]
   (false = as found, true = minimal repair).  *)
From Coq Require Import String Ascii.
From Coq Require Import List Arith ZArith Bool.
Import ListNotations.
Open Scope nat_scope.

Definition loc := nat.

(* ------------------------------------------------------------------ small utilities *)
Definition obind {A B} (o : option A) (f : A -> option B) : option B :=
  match o with Some a => f a | None => None end.
Notation "x <- e ;; k" := (obind e (fun x => k)) (at level 61, e at next level, right associativity).

Fixpoint mapM {A B} (f : A -> option B) (l : list A) : option (list B) :=
  match l with
  | [] => Some []
  | a :: r => match f a with
              | Some b => match mapM f r with Some br => Some (b :: br) | None => None end
              | None => None
              end
  end.

Fixpoint lookup {V} (l : loc) (s : list (loc * V)) : option V :=
  match s with
  | [] => None
  | (k, v) :: r => if Nat.eqb k l then Some v else lookup l r
  end.

Fixpoint insert_at {A} (n : nat) (x : A) (l : list A) : list A :=
  match n, l with
  | 0, _ => x :: l
  | S m, [] => [x]
  | S m, y :: r => y :: insert_at m x r
  end.

Fixpoint remove_first {A} (p : A -> bool) (l : list A) : option (list A) :=
  match l with
  | [] => None
  | x :: r => if p x then Some r
              else match remove_first p r with Some r' => Some (x :: r') | None => None end
  end.

Definition opt_eqb {A} (e : A -> A -> bool) (a b : option A) : bool :=
  match a, b with
  | Some x, Some y => e x y
  | None, None => true
  | _, _ => false
  end.

Fixpoint list_eqb {A} (e : A -> A -> bool) (a b : list A) : bool :=
  match a, b with
  | [], [] => true
  | x :: r, y :: s => e x y && list_eqb e r s
  | _, _ => false
  end.

(* stable insertion sort by a boolean "less or equal" (Python's sorted is stable) *)
Fixpoint ins_sorted {A} (le : A -> A -> bool) (x : A) (l : list A) : list A :=
  match l with
  | [] => [x]
  | y :: r => if le x y then x :: l else y :: ins_sorted le x r
  end.
(* inserting from the right keeps equal keys in their original order when [le x y] is x <= y *)
Definition sort_by {A} (le : A -> A -> bool) (l : list A) : list A := fold_right (ins_sorted le) [] l.

(* ------------------------------------------------------------------ objects *)
Inductive btype := Single | Double | Triple | Aromatic | Amide.
Definition btype_eqb (a b : btype) : bool :=
  match a, b with
  | Single, Single | Double, Double | Triple, Triple | Aromatic, Aromatic | Amide, Amide => true
  | _, _ => false
  end.
(* 4 * float(type): Single 1.0, Amide 1.25, Aromatic 1.5, Double 2.0, Triple 3.0; None 0.0 *)
Definition btype_q (t : option btype) : nat :=
  match t with
  | None => 0 | Some Single => 4 | Some Amide => 5 | Some Aromatic => 6 | Some Double => 8 | Some Triple => 12
  end.
(* float_to_bond_type *)
Definition q_btype (q : nat) : option btype :=
  match q with
  | 4 => Some Single | 5 => Some Amide | 6 => Some Aromatic | 8 => Some Double | 12 => Some Triple | _ => None
  end.

(* a serial that became float NaN in a pandas column (as found, from_dataframe stores the NaN in the
   atom; PDB serials are never negative, so -1 is free to stand for it) *)
Definition nan_serial : Z := (-1)%Z.

Record atom := { a_name : string; a_elem : string; a_index : nat; a_res : loc; a_serial : option Z }.
Record resid := { r_name : string; r_index : nat; r_chain : loc; r_resSeq : Z; r_seg : string; r_atoms : list loc }.
Record chain := { c_index : nat; c_id : option string; c_res : list loc }.
Record bond := { b_a1 : loc; b_a2 : loc; b_type : option btype; b_order : option nat }.
Record topo := { t_chains : list loc; t_residues : list loc; t_atoms : list loc; t_bonds : list bond;
                 t_numAtoms : nat; t_numRes : nat }.

Record heap := { h_next : nat; h_atoms : list (loc * atom); h_res : list (loc * resid); h_chains : list (loc * chain) }.

Definition empty_heap : heap := {| h_next := 0; h_atoms := []; h_res := []; h_chains := [] |}.
Definition empty_topo : topo :=
  {| t_chains := []; t_residues := []; t_atoms := []; t_bonds := []; t_numAtoms := 0; t_numRes := 0 |}.

Definition get_a (h : heap) (l : loc) := lookup l (h_atoms h).
Definition get_r (h : heap) (l : loc) := lookup l (h_res h).
Definition get_c (h : heap) (l : loc) := lookup l (h_chains h).
Definition set_a (h : heap) (l : loc) (a : atom) : heap :=
  {| h_next := h_next h; h_atoms := (l, a) :: h_atoms h; h_res := h_res h; h_chains := h_chains h |}.
Definition set_r (h : heap) (l : loc) (r : resid) : heap :=
  {| h_next := h_next h; h_atoms := h_atoms h; h_res := (l, r) :: h_res h; h_chains := h_chains h |}.
Definition set_c (h : heap) (l : loc) (c : chain) : heap :=
  {| h_next := h_next h; h_atoms := h_atoms h; h_res := h_res h; h_chains := (l, c) :: h_chains h |}.
Definition bump (h : heap) : heap :=
  {| h_next := S (h_next h); h_atoms := h_atoms h; h_res := h_res h; h_chains := h_chains h |}.

(* ------------------------------------------------------------------ variants *)
Record flags := {
  f_cid_copy : bool;    (* copy() passes chain_id to add_chain *)
  f_cid_join : bool;    (* join() passes chain_id for the chains of [other] *)
  f_cid_subset : bool;  (* _topology_from_subset passes chain_id *)
  f_repoint : bool;     (* copy() adds bonds between the NEW atoms *)
  f_resseq0 : bool;     (* subset keeps resSeq 0 instead of "resSeq or residue.index" *)
  f_remove_id : bool;   (* delete_atom_by_index removes the atom object itself, not the first equal one *)
  f_del_bonds : bool;   (* delete_atom_by_index drops the bonds of the deleted atom *)
  f_hash : bool;        (* __hash__ built from what __eq__ compares *)
  f_conect_num : bool;  (* CONECT numbers are the numbers written in the ATOM records *)
  f_conect_del : bool;  (* CONECT continuation drops the three partners it printed, not four *)
  f_h5_full : bool;     (* hypothetical: the HDF5 JSON also holds serial, chain_id, bond type and order *)
  f_df_serial : bool    (* from_dataframe turns a missing serial (NaN in the frame) back into None *)
}.
Definition flags_cur : flags := Build_flags false false false false false false false false false false false false.
Definition flags_fix : flags := Build_flags true true true true true true true true true true true true.

(* ------------------------------------------------------------------ Topology methods (heap level) *)
(* add_chain(chain_id) *)
Definition add_chain (h : heap) (t : topo) (cid : option string) : heap * topo * loc :=
  let l := h_next h in
  let c := {| c_index := length (t_chains t); c_id := cid; c_res := [] |} in
  (set_c (bump h) l c,
   {| t_chains := t_chains t ++ [l]; t_residues := t_residues t; t_atoms := t_atoms t; t_bonds := t_bonds t;
      t_numAtoms := t_numAtoms t; t_numRes := t_numRes t |}, l).

(* add_residue(name, chain, resSeq=None, segment_id) *)
Definition add_residue (h : heap) (t : topo) (name : string) (c : loc) (resSeq : option Z) (seg : string)
  : option (heap * topo * loc) :=
  ch <- get_c h c ;;
  let l := h_next h in
  let rs := match resSeq with Some z => z | None => Z.of_nat (t_numRes t) end in
  let r := {| r_name := name; r_index := t_numRes t; r_chain := c; r_resSeq := rs; r_seg := seg; r_atoms := [] |} in
  let h1 := set_r (bump h) l r in
  let h2 := set_c h1 c {| c_index := c_index ch; c_id := c_id ch; c_res := c_res ch ++ [l] |} in
  Some (h2,
        {| t_chains := t_chains t; t_residues := t_residues t ++ [l]; t_atoms := t_atoms t; t_bonds := t_bonds t;
           t_numAtoms := t_numAtoms t; t_numRes := S (t_numRes t) |}, l).

Definition res_with_atoms (r : resid) (l : list loc) : resid :=
  {| r_name := r_name r; r_index := r_index r; r_chain := r_chain r; r_resSeq := r_resSeq r; r_seg := r_seg r;
     r_atoms := l |}.
Definition atom_with_index (a : atom) (i : nat) : atom :=
  {| a_name := a_name a; a_elem := a_elem a; a_index := i; a_res := a_res a; a_serial := a_serial a |}.

(* add_atom(name, element, residue, serial) *)
Definition add_atom (h : heap) (t : topo) (name elem : string) (r : loc) (serial : option Z)
  : option (heap * topo * loc) :=
  rr <- get_r h r ;;
  let l := h_next h in
  let a := {| a_name := name; a_elem := elem; a_index := t_numAtoms t; a_res := r; a_serial := serial |} in
  let h1 := set_a (bump h) l a in
  let h2 := set_r h1 r (res_with_atoms rr (r_atoms rr ++ [l])) in
  Some (h2,
        {| t_chains := t_chains t; t_residues := t_residues t; t_atoms := t_atoms t ++ [l]; t_bonds := t_bonds t;
           t_numAtoms := S (t_numAtoms t); t_numRes := t_numRes t |}, l).

(* add_bond(atom1, atom2, type, order): the atom with the smaller index comes first *)
Definition order_ok (ord : option nat) : bool :=     (* Bond.__new__: order is None or 1 <= order <= 3 *)
  match ord with Some n => (1 <=? n) && (n <=? 3) | None => true end.
Definition add_bond (h : heap) (t : topo) (a1 a2 : loc) (ty : option btype) (ord : option nat) : option topo :=
  if negb (order_ok ord) then None else
  x1 <- get_a h a1 ;;
  x2 <- get_a h a2 ;;
  let b := if a_index x1 <? a_index x2 then {| b_a1 := a1; b_a2 := a2; b_type := ty; b_order := ord |}
           else {| b_a1 := a2; b_a2 := a1; b_type := ty; b_order := ord |} in
  Some {| t_chains := t_chains t; t_residues := t_residues t; t_atoms := t_atoms t; t_bonds := t_bonds t ++ [b];
          t_numAtoms := t_numAtoms t; t_numRes := t_numRes t |}.

(* "for i in range(lo, len(_atoms)): _atoms[i].index += 1 / -= 1" *)
Fixpoint shift_indices (h : heap) (ls : list loc) (up : bool) : option heap :=
  match ls with
  | [] => Some h
  | l :: r => a <- get_a h l ;;
              shift_indices (set_a h l (atom_with_index a (if up then S (a_index a) else pred (a_index a)))) r up
  end.

(* insert_atom(name, element, residue, index=None, rindex=None, serial=None); guards: index <= len(_atoms),
   rindex <= len(residue._atoms) (Python's list.insert would clamp; the runs never leave the guard) *)
Definition insert_atom (h : heap) (t : topo) (name elem : string) (r : loc) (index rindex : option nat)
  (serial : option Z) : option (heap * topo * loc) :=
  let l := h_next h in
  match index with
  | None =>
      rr <- get_r h r ;;
      let a := {| a_name := name; a_elem := elem; a_index := t_numAtoms t; a_res := r; a_serial := serial |} in
      let h1 := set_a (bump h) l a in
      ratoms <- match rindex with
                | None => Some (r_atoms rr ++ [l])
                | Some k => if k <=? length (r_atoms rr) then Some (insert_at k l (r_atoms rr)) else None
                end ;;
      Some (set_r h1 r (res_with_atoms rr ratoms),
            {| t_chains := t_chains t; t_residues := t_residues t; t_atoms := t_atoms t ++ [l]; t_bonds := t_bonds t;
               t_numAtoms := S (t_numAtoms t); t_numRes := t_numRes t |}, l)
  | Some i =>
      if length (t_atoms t) <? i then None else
      let a := {| a_name := name; a_elem := elem; a_index := i; a_res := r; a_serial := serial |} in
      let h1 := set_a (bump h) l a in
      h2 <- shift_indices h1 (skipn i (t_atoms t)) true ;;
      rr <- get_r h2 r ;;
      ratoms <- match rindex with
                | None => Some (r_atoms rr ++ [l])
                | Some k => if k <=? length (r_atoms rr) then Some (insert_at k l (r_atoms rr)) else None
                end ;;
      Some (set_r h2 r (res_with_atoms rr ratoms),
            {| t_chains := t_chains t; t_residues := t_residues t; t_atoms := insert_at i l (t_atoms t);
               t_bonds := t_bonds t; t_numAtoms := S (t_numAtoms t); t_numRes := t_numRes t |}, l)
  end.

(* Atom.__eq__: name, index, element.name, residue.name, residue.index, residue.chain.index *)
Definition atom_eqb (h : heap) (x y : loc) : bool :=
  match get_a h x, get_a h y with
  | Some a, Some b =>
      match get_r h (a_res a), get_r h (a_res b) with
      | Some ra, Some rb =>
          match get_c h (r_chain ra), get_c h (r_chain rb) with
          | Some ca, Some cb =>
              String.eqb (a_name a) (a_name b) && Nat.eqb (a_index a) (a_index b) &&
              String.eqb (a_elem a) (a_elem b) && String.eqb (r_name ra) (r_name rb) &&
              Nat.eqb (r_index ra) (r_index rb) && Nat.eqb (c_index ca) (c_index cb)
          | _, _ => false
          end
      | _, _ => false
      end
  | _, _ => false
  end.

(* list.remove(a): first element that is a or == a *)
Definition same_atom (fl : flags) (h : heap) (a x : loc) : bool :=
  Nat.eqb x a || (negb (f_remove_id fl) && atom_eqb h x a).

(* delete_atom_by_index(index) *)
Definition delete_atom (fl : flags) (h : heap) (t : topo) (index : nat) : option (heap * topo) :=
  l <- nth_error (t_atoms t) index ;;
  a <- get_a h l ;;
  if negb (Nat.eqb (a_index a) index) then None else
  h1 <- shift_indices h (skipn (S index) (t_atoms t)) false ;;
  rr <- get_r h1 (a_res a) ;;
  ratoms <- remove_first (same_atom fl h1 l) (r_atoms rr) ;;
  let h2 := set_r h1 (a_res a) (res_with_atoms rr ratoms) in
  tatoms <- remove_first (same_atom fl h2 l) (t_atoms t) ;;
  let bonds := if f_del_bonds fl
               then filter (fun b => negb (Nat.eqb (b_a1 b) l || Nat.eqb (b_a2 b) l)) (t_bonds t)
               else t_bonds t in
  Some (h2, {| t_chains := t_chains t; t_residues := t_residues t; t_atoms := tatoms; t_bonds := bonds;
               t_numAtoms := pred (t_numAtoms t); t_numRes := t_numRes t |}).

(* ------------------------------------------------------------------ reading a topology (chain-wise walk) *)
Definition walk_res (h : heap) (rl : loc) : option (resid * list (loc * atom)) :=
  r <- get_r h rl ;;
  atoms <- mapM (fun al => a <- get_a h al ;; Some (al, a)) (r_atoms r) ;;
  Some (r, atoms).
Definition walk_chain (h : heap) (cl : loc) : option (chain * list (resid * list (loc * atom))) :=
  c <- get_c h cl ;;
  rs <- mapM (walk_res h) (c_res c) ;;
  Some (c, rs).
Definition walk (h : heap) (t : topo) := mapM (walk_chain h) (t_chains t).

(* descriptions handed to the builder *)
Record datom := { da_name : string; da_elem : string; da_serial : option Z }.
Record dres := { dr_name : string; dr_resSeq : option Z; dr_seg : string; dr_atoms : list datom }.
Record dchain := { dc_id : option string; dc_res : list dres }.

Fixpoint build_atoms (h : heap) (t : topo) (r : loc) (l : list datom) : option (heap * topo * list loc) :=
  match l with
  | [] => Some (h, t, [])
  | d :: rest =>
      x <- add_atom h t (da_name d) (da_elem d) r (da_serial d) ;;
      let '(h1, t1, al) := x in
      y <- build_atoms h1 t1 r rest ;;
      let '(h2, t2, als) := y in
      Some (h2, t2, al :: als)
  end.
Fixpoint build_residues (h : heap) (t : topo) (c : loc) (l : list dres) : option (heap * topo * list loc) :=
  match l with
  | [] => Some (h, t, [])
  | d :: rest =>
      x <- add_residue h t (dr_name d) c (dr_resSeq d) (dr_seg d) ;;
      let '(h1, t1, rl) := x in
      y <- build_atoms h1 t1 rl (dr_atoms d) ;;
      let '(h2, t2, a1) := y in
      z <- build_residues h2 t2 c rest ;;
      let '(h3, t3, a2) := z in
      Some (h3, t3, a1 ++ a2)
  end.
(* returns the new atoms in creation (= chain-wise) order *)
Fixpoint build_chains (h : heap) (t : topo) (l : list dchain) : option (heap * topo * list loc) :=
  match l with
  | [] => Some (h, t, [])
  | d :: rest =>
      let '(h1, t1, cl) := add_chain h t (dc_id d) in
      y <- build_residues h1 t1 cl (dc_res d) ;;
      let '(h2, t2, a1) := y in
      z <- build_chains h2 t2 rest ;;
      let '(h3, t3, a2) := z in
      Some (h3, t3, a1 ++ a2)
  end.

Definition desc_atom (x : loc * atom) : datom :=
  {| da_name := a_name (snd x); da_elem := a_elem (snd x); da_serial := a_serial (snd x) |}.
Definition walk_atoms (w : list (chain * list (resid * list (loc * atom)))) : list (loc * atom) :=
  concat (map (fun cr => concat (map snd (snd cr))) w).

(* a dict keyed by Atom objects: lookup finds an EQUAL key (Atom.__eq__, hash = index); of several
   equal keys the value stored last wins *)
Fixpoint dict_get (h : heap) (m : list (loc * loc)) (k : loc) (acc : option loc) : option loc :=
  match m with
  | [] => acc
  | (k', v) :: r => dict_get h r k (if Nat.eqb k' k || atom_eqb h k' k then Some v else acc)
  end.

Fixpoint add_bonds_mapped (h : heap) (t : topo) (m : list (loc * loc)) (bs : list bond) (skip_missing : bool)
  : option topo :=
  match bs with
  | [] => Some t
  | b :: r =>
      match dict_get h m (b_a1 b) None, dict_get h m (b_a2 b) None with
      | Some x, Some y => t1 <- add_bond h t x y (b_type b) (b_order b) ;; add_bonds_mapped h t1 m r skip_missing
      | _, _ => if skip_missing then add_bonds_mapped h t m r skip_missing else None   (* KeyError *)
      end
  end.
Fixpoint add_bonds_direct (h : heap) (t : topo) (bs : list bond) : option topo :=
  match bs with
  | [] => Some t
  | b :: r => t1 <- add_bond h t (b_a1 b) (b_a2 b) (b_type b) (b_order b) ;; add_bonds_direct h t1 r
  end.

(* Topology.copy() *)
Definition copy_desc (keep_cid : bool) (w : list (chain * list (resid * list (loc * atom)))) : list dchain :=
  map (fun cr => {| dc_id := if keep_cid then c_id (fst cr) else None;
                    dc_res := map (fun ra => {| dr_name := r_name (fst ra); dr_resSeq := Some (r_resSeq (fst ra));
                                                dr_seg := r_seg (fst ra); dr_atoms := map desc_atom (snd ra) |})
                                  (snd cr) |}) w.

Definition copy (fl : flags) (h : heap) (t : topo) : option (heap * topo) :=
  w <- walk h t ;;
  x <- build_chains h empty_topo (copy_desc (f_cid_copy fl) w) ;;
  let '(h1, t1, news) := x in
  t2 <- (if f_repoint fl
         then add_bonds_mapped h1 t1 (combine (map fst (walk_atoms w)) news) (t_bonds t) false
         else add_bonds_direct h1 t1 (t_bonds t)) ;;
  Some (h1, t2).

(* Topology.join(other, keep_resSeq) *)
Fixpoint join_desc (keep_cid keep_resSeq : bool) (start : Z)
  (rs : list (resid * list (loc * atom))) : list dres * Z :=
  match rs with
  | [] => ([], start)
  | ra :: rest =>
      let seq := if keep_resSeq then r_resSeq (fst ra) else (start + 1)%Z in
      let '(ds, fin) := join_desc keep_cid keep_resSeq seq rest in
      ({| dr_name := r_name (fst ra); dr_resSeq := Some seq; dr_seg := r_seg (fst ra);
          dr_atoms := map desc_atom (snd ra) |} :: ds, fin)
  end.
Fixpoint join_chains (keep_cid keep_resSeq : bool) (start : Z)
  (w : list (chain * list (resid * list (loc * atom)))) : list dchain :=
  match w with
  | [] => []
  | cr :: rest =>
      let '(ds, fin) := join_desc keep_cid keep_resSeq start (snd cr) in
      {| dc_id := if keep_cid then c_id (fst cr) else None; dc_res := ds |} :: join_chains keep_cid keep_resSeq fin rest
  end.

Definition join (fl : flags) (h : heap) (t other : topo) (keep_resSeq : bool) : option (heap * topo) :=
  x <- copy fl h t ;;
  let '(h1, out) := x in
  start <- (if keep_resSeq then Some 0%Z
            else (* out.atom(-1).residue.resSeq *)
              l <- nth_error (t_atoms out) (pred (length (t_atoms out))) ;;
              a <- get_a h1 l ;; r <- get_r h1 (a_res a) ;; Some (r_resSeq r)) ;;
  w <- walk h1 other ;;
  y <- build_chains h1 out (join_chains (f_cid_join fl) keep_resSeq start w) ;;
  let '(h2, t2, news) := y in
  t3 <- add_bonds_mapped h2 t2 (combine (map fst (walk_atoms w)) news) (t_bonds other) false ;;
  Some (h2, t3).

(* _topology_from_subset(topology, atom_indices) *)
Definition subset_res (fl : flags) (keep : list nat) (ra : resid * list (loc * atom)) : option (dres * list loc) :=
  let kept := filter (fun x => existsb (Nat.eqb (a_index (snd x))) keep) (snd ra) in
  match kept with
  | [] => None                                        (* the residue is never created *)
  | _ => let rs := if f_resseq0 fl then r_resSeq (fst ra)
                   else if Z.eqb (r_resSeq (fst ra)) 0 then Z.of_nat (r_index (fst ra)) else r_resSeq (fst ra) in
         Some ({| dr_name := r_name (fst ra); dr_resSeq := Some rs; dr_seg := r_seg (fst ra);
                  dr_atoms := map desc_atom kept |}, map fst kept)
  end.
Fixpoint somes {A} (l : list (option A)) : list A :=
  match l with [] => [] | Some a :: r => a :: somes r | None :: r => somes r end.
Definition subset_desc (fl : flags) (keep : list nat) (w : list (chain * list (resid * list (loc * atom))))
  : list dchain * list loc :=
  let per := map (fun cr => (c_id (fst cr), somes (map (subset_res fl keep) (snd cr)))) w in
  (map (fun x => {| dc_id := if f_cid_subset fl then fst x else None; dc_res := map fst (snd x) |}) per,
   concat (map (fun x => concat (map snd (snd x))) per)).

(* "Delete empty chains", "Reset the chain indices", "Reset the residue indices" *)
Fixpoint reindex_chains (h : heap) (cs : list loc) (i : nat) : option heap :=
  match cs with
  | [] => Some h
  | c :: r => ch <- get_c h c ;;
              reindex_chains (set_c h c {| c_index := i; c_id := c_id ch; c_res := c_res ch |}) r (S i)
  end.
Fixpoint reindex_residues (h : heap) (rs : list loc) (i : nat) : option heap :=
  match rs with
  | [] => Some h
  | r :: rest => rr <- get_r h r ;;
                 reindex_residues (set_r h r {| r_name := r_name rr; r_index := i; r_chain := r_chain rr;
                                                r_resSeq := r_resSeq rr; r_seg := r_seg rr; r_atoms := r_atoms rr |})
                                  rest (S i)
  end.
Definition nonempty_res (h : heap) (r : loc) : bool :=
  match get_r h r with Some rr => negb (Nat.eqb (length (r_atoms rr)) 0) | None => false end.
Definition nonempty_chain (h : heap) (c : loc) : bool :=
  match get_c h c with Some ch => negb (Nat.eqb (length (c_res ch)) 0) | None => false end.
Fixpoint prune_chain_residues (h : heap) (cs : list loc) : option heap :=
  match cs with
  | [] => Some h
  | c :: r => ch <- get_c h c ;;
              prune_chain_residues
                (set_c h c {| c_index := c_index ch; c_id := c_id ch; c_res := filter (nonempty_res h) (c_res ch) |}) r
  end.
Definition chainwise_residues (h : heap) (cs : list loc) : list loc :=
  concat (map (fun c => match get_c h c with Some ch => c_res ch | None => [] end) cs).
Definition chainwise_atoms (h : heap) (cs : list loc) : list loc :=
  concat (map (fun r => match get_r h r with Some rr => r_atoms rr | None => [] end) (chainwise_residues h cs)).

Definition subset (fl : flags) (h : heap) (t : topo) (keep : list nat) : option (heap * topo) :=
  w <- walk h t ;;
  let '(desc, olds) := subset_desc fl keep w in
  x <- build_chains h empty_topo desc ;;
  let '(h1, t1, news) := x in
  t2 <- add_bonds_mapped h1 t1 (combine olds news) (t_bonds t) true ;;
  let residues := filter (nonempty_res h1) (t_residues t2) in
  h2 <- prune_chain_residues h1 (t_chains t2) ;;
  let chains := filter (nonempty_chain h2) (t_chains t2) in
  h3 <- reindex_chains h2 chains 0 ;;
  h4 <- reindex_residues h3 (chainwise_residues h3 chains) 0 ;;
  Some (h4, {| t_chains := chains; t_residues := residues; t_atoms := t_atoms t2; t_bonds := t_bonds t2;
               t_numAtoms := length (chainwise_atoms h4 chains);
               t_numRes := length (chainwise_residues h4 chains) |}).

(* pickle round trip: the whole object graph is duplicated (every object at l reappears at l + n) *)
Definition shift_topo (n : nat) (t : topo) : topo :=
  {| t_chains := map (Nat.add n) (t_chains t); t_residues := map (Nat.add n) (t_residues t);
     t_atoms := map (Nat.add n) (t_atoms t);
     t_bonds := map (fun b => {| b_a1 := n + b_a1 b; b_a2 := n + b_a2 b; b_type := b_type b; b_order := b_order b |})
                    (t_bonds t);
     t_numAtoms := t_numAtoms t; t_numRes := t_numRes t |}.
Definition pickle (h : heap) (t : topo) : heap * topo :=
  let n := h_next h in
  ({| h_next := n + n;
      h_atoms := map (fun x => (n + fst x, {| a_name := a_name (snd x); a_elem := a_elem (snd x);
                                              a_index := a_index (snd x); a_res := n + a_res (snd x);
                                              a_serial := a_serial (snd x) |})) (h_atoms h) ++ h_atoms h;
      h_res := map (fun x => (n + fst x, {| r_name := r_name (snd x); r_index := r_index (snd x);
                                            r_chain := n + r_chain (snd x); r_resSeq := r_resSeq (snd x);
                                            r_seg := r_seg (snd x); r_atoms := map (Nat.add n) (r_atoms (snd x)) |}))
                   (h_res h) ++ h_res h;
      h_chains := map (fun x => (n + fst x, {| c_index := c_index (snd x); c_id := c_id (snd x);
                                               c_res := map (Nat.add n) (c_res (snd x)) |})) (h_chains h) ++ h_chains h |},
   shift_topo n t).

(* ------------------------------------------------------------------ value level: the abstraction *)
Record vatom := { va_name : string; va_elem : string; va_index : nat; va_serial : option Z }.
Record vres := { vr_name : string; vr_index : nat; vr_resSeq : Z; vr_seg : string; vr_atoms : list vatom }.
Record vchain := { vc_index : nat; vc_id : option string; vc_res : list vres }.
Record vbond := { vb_i : nat; vb_j : nat; vb_type : option btype; vb_order : option nat }.
Record vtop := { vt_chains : list vchain; vt_bonds : list vbond }.

Definition abs_atom (h : heap) (l : loc) : option vatom :=
  a <- get_a h l ;;
  Some {| va_name := a_name a; va_elem := a_elem a; va_index := a_index a; va_serial := a_serial a |}.
Definition abs_res (h : heap) (l : loc) : option vres :=
  r <- get_r h l ;;
  atoms <- mapM (abs_atom h) (r_atoms r) ;;
  Some {| vr_name := r_name r; vr_index := r_index r; vr_resSeq := r_resSeq r; vr_seg := r_seg r; vr_atoms := atoms |}.
Definition abs_chain (h : heap) (l : loc) : option vchain :=
  c <- get_c h l ;;
  rs <- mapM (abs_res h) (c_res c) ;;
  Some {| vc_index := c_index c; vc_id := c_id c; vc_res := rs |}.
Definition abs_bond (h : heap) (b : bond) : option vbond :=
  x <- get_a h (b_a1 b) ;;
  y <- get_a h (b_a2 b) ;;
  Some {| vb_i := a_index x; vb_j := a_index y; vb_type := b_type b; vb_order := b_order b |}.
Definition abs (h : heap) (t : topo) : option vtop :=
  cs <- mapM (abs_chain h) (t_chains t) ;;
  bs <- mapM (abs_bond h) (t_bonds t) ;;
  Some {| vt_chains := cs; vt_bonds := bs |}.

Definition v_residues (v : vtop) : list vres := concat (map vc_res (vt_chains v)).
Definition v_atoms (v : vtop) : list vatom := concat (map vr_atoms (v_residues v)).

(* ------------------------------------------------------------------ == and hash *)
Definition vatom_eq_eqb (a b : vatom) : bool :=      (* what Topology.__eq__ compares per atom *)
  Nat.eqb (va_index a) (va_index b) && String.eqb (va_name a) (va_name b) && String.eqb (va_elem a) (va_elem b).
Definition vres_eq_eqb (a b : vres) : bool :=        (* name and the atoms; "r1.index != r1.index" never fires *)
  String.eqb (vr_name a) (vr_name b) && list_eqb vatom_eq_eqb (vr_atoms a) (vr_atoms b).
Definition vchain_eq_eqb (a b : vchain) : bool :=
  Nat.eqb (vc_index a) (vc_index b) && list_eqb vres_eq_eqb (vc_res a) (vc_res b).

(* Bond._equality_tuple, with the float of the type scaled by 4 *)
Definition bond_key (b : vbond) : nat * nat * nat * nat :=
  (vb_i b, vb_j b, btype_q (vb_type b), match vb_order b with Some n => n | None => 0 end).
Definition key_eqb (x y : nat * nat * nat * nat) : bool :=
  let '(a, b, c, d) := x in let '(a', b', c', d') := y in
  Nat.eqb a a' && Nat.eqb b b' && Nat.eqb c c' && Nat.eqb d d'.
Definition key_leb (x y : nat * nat * nat * nat) : bool :=     (* tuple order *)
  let '(a, b, c, d) := x in let '(a', b', c', d') := y in
  if a <? a' then true else if a' <? a then false else
  if b <? b' then true else if b' <? b then false else
  if c <? c' then true else if c' <? c then false else d <=? d'.
Definition sorted_bond_keys (v : vtop) := sort_by key_leb (map bond_key (vt_bonds v)).

(* Topology.__eq__ *)
Definition teq (a b : vtop) : bool :=
  list_eqb vchain_eq_eqb (vt_chains a) (vt_chains b) &&
  Nat.eqb (length (vt_bonds a)) (length (vt_bonds b)) &&
  list_eqb key_eqb (sorted_bond_keys a) (sorted_bond_keys b).

(* the hash is modelled by what is hashed: four tuples combined with xor *)
Inductive hkey :=
| KEmpty                                              (* hash(()) whatever the element type would be *)
| KInts (l : list nat)                                (* tuple of Chain / Atom objects: hash = index *)
| KRes (l : list (string * nat * Z * string))         (* Residue: hash((name, index, resSeq, segment_id)) *)
| KBonds (l : list (nat * nat * option btype * option nat))  (* Bond: hash((atom1, atom2, type, order)) *)
| KNames (l : list string).
Definition norm_key (k : hkey) : hkey :=
  match k with
  | KInts [] | KRes [] | KBonds [] | KNames [] => KEmpty
  | _ => k
  end.
Definition res4_eqb (x y : string * nat * Z * string) : bool :=
  let '(a, b, c, d) := x in let '(a', b', c', d') := y in
  String.eqb a a' && Nat.eqb b b' && Z.eqb c c' && String.eqb d d'.
Definition bond4_eqb (x y : nat * nat * option btype * option nat) : bool :=
  let '(a, b, c, d) := x in let '(a', b', c', d') := y in
  Nat.eqb a a' && Nat.eqb b b' && opt_eqb btype_eqb c c' && opt_eqb Nat.eqb d d'.
Definition hkey_eqb (x y : hkey) : bool :=
  match norm_key x, norm_key y with
  | KEmpty, KEmpty => true
  | KInts a, KInts b => list_eqb Nat.eqb a b
  | KRes a, KRes b => list_eqb res4_eqb a b
  | KBonds a, KBonds b => list_eqb bond4_eqb a b
  | KNames a, KNames b => list_eqb String.eqb a b
  | _, _ => false
  end.
(* a ^ b ^ c ^ d = a' ^ b' ^ c' ^ d'  iff  every key occurs an even number of times in the eight
   (distinct keys are taken to have unrelated hash values) *)
Definition xor_equal (ka kb : list hkey) : bool :=
  let all := ka ++ kb in
  forallb (fun k => Nat.even (length (filter (hkey_eqb k) all))) all.

Definition bond4 (b : vbond) := (vb_i b, vb_j b, vb_type b, vb_order b).
Definition sort_bonds (l : list vbond) : list vbond := sort_by (fun x y => key_leb (bond_key x) (bond_key y)) l.

(* heap-level pieces the hash needs: _atoms and _residues in LIST order *)
Definition hash_keys (fl : flags) (h : heap) (t : topo) : option (list hkey) :=
  v <- abs h t ;;
  ai <- mapM (fun l => a <- get_a h l ;; Some (a_index a)) (t_atoms t) ;;
  rs <- mapM (fun l => r <- get_r h l ;; Some (r_name r, r_index r, r_resSeq r, r_seg r)) (t_residues t) ;;
  Some (if f_hash fl
        then [KInts (map vc_index (vt_chains v)); KInts ai;
              KBonds (map bond4 (sort_bonds (vt_bonds v)));
              KNames (map vr_name (v_residues v))]
        else [KInts (map vc_index (vt_chains v)); KInts ai; KBonds (map bond4 (vt_bonds v)); KRes rs]).

(* ------------------------------------------------------------------ what a topology can reach *)
(* every location a chain-wise walk, top.atom(i)/top.residue(i)/top.chain(i) or a bond can hand out *)
Definition bond_ends (t : topo) : list loc := concat (map (fun b => [b_a1 b; b_a2 b]) (t_bonds t)).
Definition reach (h : heap) (t : topo) : list loc :=
  t_chains t ++ t_residues t ++ chainwise_residues h (t_chains t) ++ t_atoms t ++ chainwise_atoms h (t_chains t) ++
  bond_ends t.
