(* C04: "compare equal after any of these transformations", data-frame carrier.  In the exact case of the carrier
   (df_exact: no empty chain/residue, consecutive residues differ in (resSeq, name), chain indices of neighbours
   differ) the topology rebuilt by the repaired from_dataframe from the frames of to_dataframe compares equal (==)
   to the source: == ignores exactly what the frame cannot hold (chain ids). *)
From Coq Require Import String Ascii.
From Coq Require Import List Arith ZArith Bool Lia.
Import ListNotations.
Require Import MD.Topo.Model MD.Topo.Carriers MD.Topo.Run MD.Topo.Basics MD.Topo.Copy MD.Topo.Subset MD.Topo.EqHash
  MD.Topo.AbsWalk MD.Topo.CarrierProofs MD.Topo.BuildFrom MD.Topo.EqEquiv MD.Topo.Witness.
Open Scope nat_scope.
Local Open Scope list_scope.

Definition oriented (b : vbond) : Prop := vb_i b <= vb_j b.

Lemma orient_bond4 b : oriented b -> orient (bond4 b) = b.
Proof.
  unfold oriented, orient, bond4. intros H. destruct b as [i j ty od]; simpl in *.
  destruct (i <? j) eqn:E; [reflexivity|]. apply Nat.ltb_ge in E. assert (i = j) by lia. subst. reflexivity.
Qed.

(* the value from_dataframe(to_dataframe(t)) reads as, by build_from_abs *)
Definition df_back (v : vtop) : vtop :=
  {| vt_chains := num_chains 0 0 0 (fst (df_round true v)); vt_bonds := map orient (snd (df_round true v)) |}.

Theorem df_eq_preserved v :
  normal (vt_chains v) -> df_exact v -> Forall vbond_ok (vt_bonds v) -> Forall oriented (vt_bonds v) ->
  teq v (df_back v) = true /\ teq (df_back v) v = true.
Proof.
  intros Hn He Hb Ho. destruct (df_roundtrip_partial v Hn He Hb) as [Hc Hbd].
  assert (E : eqview v = eqview (df_back v)).
  { unfold eqview, df_back, sorted_bond_keys. cbn [vt_chains vt_bonds]. rewrite Hc, Hbd.
    assert (Bs : map orient (map bond4 (vt_bonds v)) = vt_bonds v).
    { rewrite map_map. rewrite <- (map_id (vt_bonds v)) at 2. apply map_ext_in. intros b Hin.
      rewrite Forall_forall in Ho. apply orient_bond4. apply Ho. exact Hin. }
    rewrite Bs. f_equal. f_equal. rewrite map_map. apply map_ext. intros c. reflexivity. }
  split; apply teq_iff; [exact E | symmetry; exact E].
Qed.

(* heap level: the data-frame round trip of a topology whose walk reads v returns a topology that reads df_back v *)
Corollary df_roundtrip_eq h v h' t' :
  hwf h -> normal (vt_chains v) -> df_exact v -> Forall vbond_ok (vt_bonds v) -> Forall oriented (vt_bonds v) ->
  build_from h (df_round true v) = Some (h', t') ->
  exists v', abs h' t' = Some v' /\ teq v v' = true /\ teq v' v = true.
Proof.
  intros Hw Hn He Hb Ho Hbuild. destruct (build_from_abs h _ h' t' Hw Hbuild) as [A _].
  exists (df_back v). split; [exact A|]. apply df_eq_preserved; assumption.
Qed.

Example df_eq_witness : Forall oriented (vt_bonds df_v) /\ vt_bonds df_v <> [].
Proof. split; [vm_compute; repeat (apply Forall_cons; [lia|]); apply Forall_nil | vm_compute; discriminate]. Qed.
