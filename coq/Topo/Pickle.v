(* C04: the pickle round trip (model: the whole object graph is duplicated at shifted locations)
   preserves the abstraction, hence == ; nothing that existed is modified. *)
From Coq Require Import String Ascii.
From Coq Require Import List Arith ZArith Bool Lia.
Import ListNotations.
Require Import MD.Topo.Model MD.Topo.Basics MD.Topo.Build.
Open Scope nat_scope.

#[local] Transparent get_a get_r get_c.

Lemma lookup_shift_gen {V} (f : V -> V) n s1 s2 l :
  lookup (n + l) s2 = None ->
  lookup (n + l) (map (fun x => (n + fst x, f (snd x))) s1 ++ s2) = option_map f (lookup l s1).
Proof.
  intros F. induction s1 as [|[k v] s1 IH]; simpl.
  - exact F.
  - destruct (Nat.eqb k l) eqn:E.
    + apply Nat.eqb_eq in E. subst k. rewrite Nat.eqb_refl. reflexivity.
    + apply Nat.eqb_neq in E. rewrite (eqb_false_ne (n + k) (n + l)) by lia. exact IH.
Qed.

Lemma lookup_low {V} (f : V -> V) n s1 s2 l :
  l < n -> lookup l (map (fun x => (n + fst x, f (snd x))) s1 ++ s2) = lookup l s2.
Proof.
  intros Hl. induction s1 as [|[k v] s1 IH]; simpl; [reflexivity|]. rewrite (eqb_false_ne (n + k) l) by lia. exact IH.
Qed.

Definition shift_atom n (a : atom) : atom :=
  {| a_name := a_name a; a_elem := a_elem a; a_index := a_index a; a_res := n + a_res a; a_serial := a_serial a |}.
Definition shift_res n (r : resid) : resid :=
  {| r_name := r_name r; r_index := r_index r; r_chain := n + r_chain r; r_resSeq := r_resSeq r; r_seg := r_seg r;
     r_atoms := map (Nat.add n) (r_atoms r) |}.
Definition shift_chain n (c : chain) : chain :=
  {| c_index := c_index c; c_id := c_id c; c_res := map (Nat.add n) (c_res c) |}.

Section Pickle.
  Variables (h : heap) (t : topo).
  Hypothesis B : hwf h.
  Let n := h_next h.
  Let h2 := fst (pickle h t).

  Lemma pickle_get_a l : get_a h2 (n + l) = option_map (shift_atom n) (get_a h l).
  Proof. destruct (B (n + l) ltac:(unfold n; lia)) as [Ba _]. unfold h2, pickle, get_a in *. simpl. apply (lookup_shift_gen (shift_atom n)). exact Ba. Qed.
  Lemma pickle_get_r l : get_r h2 (n + l) = option_map (shift_res n) (get_r h l).
  Proof. destruct (B (n + l) ltac:(unfold n; lia)) as [_ [Br _]]. unfold h2, pickle, get_r in *. simpl. apply (lookup_shift_gen (shift_res n)). exact Br. Qed.
  Lemma pickle_get_c l : get_c h2 (n + l) = option_map (shift_chain n) (get_c h l).
  Proof. destruct (B (n + l) ltac:(unfold n; lia)) as [_ [_ Bc]]. unfold h2, pickle, get_c in *. simpl. apply (lookup_shift_gen (shift_chain n)). exact Bc. Qed.

  Lemma pickle_agree : agree n h h2.
  Proof.
    intros l Hl. unfold h2, pickle, get_a, get_r, get_c. simpl.
    split; [apply (lookup_low (shift_atom n)); exact Hl|]. split; [apply (lookup_low (shift_res n)) | apply (lookup_low (shift_chain n))]; exact Hl.
  Qed.

  Lemma pickle_abs_atom l : abs_atom h2 (n + l) = abs_atom h l.
  Proof. unfold abs_atom. rewrite pickle_get_a. destruct (get_a h l); reflexivity. Qed.

  Lemma pickle_abs_res l : abs_res h2 (n + l) = abs_res h l.
  Proof.
    unfold abs_res. rewrite pickle_get_r. destruct (get_r h l) as [r|]; [|reflexivity]. simpl.
    rewrite mapM_map. rewrite (mapM_ext_in _ (abs_atom h)); [reflexivity|]. intros a _. apply pickle_abs_atom.
  Qed.

  Lemma pickle_abs_chain l : abs_chain h2 (n + l) = abs_chain h l.
  Proof.
    unfold abs_chain. rewrite pickle_get_c. destruct (get_c h l) as [c|]; [|reflexivity]. simpl.
    rewrite mapM_map. rewrite (mapM_ext_in _ (abs_res h)); [reflexivity|]. intros a _. apply pickle_abs_res.
  Qed.

  (* the unpickled topology reads exactly like the pickled one *)
  Theorem pickle_abs : abs h2 (snd (pickle h t)) = abs h t.
  Proof.
    unfold abs, pickle. simpl. fold n.
    rewrite mapM_map. rewrite (mapM_ext_in _ (abs_chain h)) by (intros a _; apply pickle_abs_chain).
    rewrite mapM_map.
    rewrite (mapM_ext_in _ (abs_bond h)); [reflexivity|]. intros b _. unfold abs_bond. simpl.
    rewrite !pickle_get_a. destruct (get_a h (b_a1 b)); [|reflexivity]. simpl. destruct (get_a h (b_a2 b)); reflexivity.
  Qed.
End Pickle.
