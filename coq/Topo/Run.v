(* C04: operation histories over several topology variables and what the harness observes.
   Definitions only.  An op that raises leaves the existing objects untouched and (for the ops that
   create a topology) stores an empty topology in the new slot, as the harness does. *)
From Coq Require Import String Ascii.
From Coq Require Import List Arith ZArith Bool.
Import ListNotations.
Require Import MD.Topo.Model MD.Topo.Carriers MD.Gen.TopoStdBonds.
Open Scope nat_scope.

Inductive op :=
| ONew
| OAddChain (s : nat) (cid : option string)
| OAddResidue (s : nat) (chain_pos : nat) (name : string) (resSeq : option Z) (seg : string)
| OAddAtom (s : nat) (res_pos : nat) (name elem : string) (serial : option Z)      (* res_pos: position in _residues *)
| OAddBond (s : nat) (i j : nat) (ty : option btype) (ord : option nat)            (* top.atom(i), top.atom(j) *)
| OInsertAtom (s : nat) (res_pos : nat) (name elem : string) (index rindex : option nat) (serial : option Z)
| ODelete (s : nat) (index : nat)
| OCopy (s : nat)
| OSubset (s : nat) (keep : list nat)
| OJoin (s s2 : nat) (keep_resSeq : bool)
| OPickle (s : nat)
| ODataFrame (s : nat)
| OH5 (s : nat)
| OPdb (s : nat) (ter : bool).

Record state := { st_heap : heap; st_tops : list topo; st_status : list bool (* newest first; true = raised *) }.
Definition init : state := {| st_heap := empty_heap; st_tops := []; st_status := [] |}.

Fixpoint set_nth {A} (n : nat) (x : A) (l : list A) : list A :=
  match n, l with
  | 0, _ :: r => x :: r
  | S m, y :: r => y :: set_nth m x r
  | _, [] => []
  end.

Definition ok_new (st : state) (h : heap) (t : topo) : state :=
  {| st_heap := h; st_tops := st_tops st ++ [t]; st_status := false :: st_status st |}.
Definition err_new (st : state) : state :=
  {| st_heap := st_heap st; st_tops := st_tops st ++ [empty_topo]; st_status := true :: st_status st |}.
Definition ok_set (st : state) (s : nat) (h : heap) (t : topo) : state :=
  {| st_heap := h; st_tops := set_nth s t (st_tops st); st_status := false :: st_status st |}.
Definition err_keep (st : state) : state :=
  {| st_heap := st_heap st; st_tops := st_tops st; st_status := true :: st_status st |}.

(* add_bond over positions in creation order of a freshly built topology *)
Fixpoint add_bonds_pos (h : heap) (t : topo) (atoms : list loc) (bs : list dbond) : option topo :=
  match bs with
  | [] => Some t
  | (i, j, ty, ord) :: r =>
      x <- nth_error atoms i ;; y <- nth_error atoms j ;;
      t1 <- add_bond h t x y ty ord ;; add_bonds_pos h t1 atoms r
  end.
Definition build_from (h : heap) (d : list dchain * list dbond) : option (heap * topo) :=
  x <- build_chains h empty_topo (fst d) ;;
  let '(h1, t1, news) := x in
  t2 <- add_bonds_pos h1 t1 news (snd d) ;;
  Some (h1, t2).

Definition step (fl : flags) (st : state) (o : op) : state :=
  let h := st_heap st in
  let top := fun s => nth_error (st_tops st) s in
  let new := fun (r : option (heap * topo)) => match r with Some (h', t') => ok_new st h' t' | None => err_new st end in
  let upd := fun s (r : option (heap * topo)) => match r with Some (h', t') => ok_set st s h' t' | None => err_keep st end in
  match o with
  | ONew => ok_new st h empty_topo
  | OAddChain s cid =>
      upd s (t <- top s ;; let '(h', t', _) := add_chain h t cid in Some (h', t'))
  | OAddResidue s cp name rs seg =>
      upd s (t <- top s ;; c <- nth_error (t_chains t) cp ;; x <- add_residue h t name c rs seg ;;
             Some (fst (fst x), snd (fst x)))
  | OAddAtom s rp name el ser =>
      upd s (t <- top s ;; r <- nth_error (t_residues t) rp ;; x <- add_atom h t name el r ser ;;
             Some (fst (fst x), snd (fst x)))
  | OAddBond s i j ty ord =>
      upd s (t <- top s ;; x <- nth_error (t_atoms t) i ;; y <- nth_error (t_atoms t) j ;;
             t' <- add_bond h t x y ty ord ;; Some (h, t'))
  | OInsertAtom s rp name el index rindex ser =>
      upd s (t <- top s ;; r <- nth_error (t_residues t) rp ;; x <- insert_atom h t name el r index rindex ser ;;
             Some (fst (fst x), snd (fst x)))
  | ODelete s index => upd s (t <- top s ;; delete_atom fl h t index)
  | OCopy s => new (t <- top s ;; copy fl h t)
  | OSubset s keep => new (t <- top s ;; subset fl h t keep)
  | OJoin s s2 k => new (t <- top s ;; u <- top s2 ;; join fl h t u k)
  | OPickle s => new (t <- top s ;; Some (pickle h t))
  | ODataFrame s => new (t <- top s ;; v <- abs h t ;; build_from h (df_round (f_df_serial fl) v))
  | OH5 s => new (t <- top s ;; v <- abs h t ;; build_from h (h5_round (f_h5_full fl) v))
  | OPdb s ter => new (t <- top s ;; recs <- pdb_write fl ter h t ;; build_from h (pdb_read std_bonds recs))
  end.

Definition run (fl : flags) (ops : list op) : state := fold_left (step fl) ops init.

(* ------------------------------------------------------------------ observation *)
Inductive jv := JN (z : Z) | JS (s : string) | JL (l : list jv) | JNone | JB (b : bool).

Fixpoint jv_eqb (a b : jv) {struct a} : bool :=
  match a, b with
  | JN x, JN y => Z.eqb x y
  | JS x, JS y => String.eqb x y
  | JNone, JNone => true
  | JB x, JB y => Bool.eqb x y
  | JL x, JL y =>
      (fix go (x y : list jv) {struct x} : bool :=
         match x, y with
         | [], [] => true
         | u :: x', v :: y' => jv_eqb u v && go x' y'
         | _, _ => false
         end) x y
  | _, _ => false
  end.

Definition jnat (n : nat) := JN (Z.of_nat n).
Definition jopt {A} (f : A -> jv) (o : option A) : jv := match o with Some a => f a | None => JNone end.
Definition jtype (t : option btype) : jv :=
  match t with
  | None => JNone | Some Single => JS "Single" | Some Double => JS "Double" | Some Triple => JS "Triple"
  | Some Aromatic => JS "Aromatic" | Some Amide => JS "Amide"
  end.

Fixpoint index_of (l : loc) (ls : list loc) (i : nat) : option nat :=
  match ls with
  | [] => None
  | x :: r => if Nat.eqb x l then Some i else index_of l r (S i)
  end.

(* one topology: chain-wise dump with back-pointer checks, list-order facts, counters, bonds with
   identity facts (bond.atom1 is top.atom(bond.atom1.index)) *)
Definition observe_top (h : heap) (t : topo) : jv :=
  let chains := map (fun cl =>
    match get_c h cl with
    | None => JNone
    | Some c => JL [jnat (c_index c); jopt JS (c_id c);
        JL (map (fun rl =>
          match get_r h rl with
          | None => JNone
          | Some r => JL [JS (r_name r); jnat (r_index r); JN (r_resSeq r); JS (r_seg r); JB (Nat.eqb (r_chain r) cl);
              JL (map (fun al =>
                match get_a h al with
                | None => JNone
                | Some a => JL [JS (a_name a); JS (a_elem a); jnat (a_index a); jopt JN (a_serial a);
                                JB (Nat.eqb (a_res a) rl)]
                end) (r_atoms r))]
          end) (c_res c))]
    end) (t_chains t) in
  let cw_atoms := chainwise_atoms h (t_chains t) in
  let cw_res := chainwise_residues h (t_chains t) in
  let atoms_order := map (fun al => JL [jopt jnat (index_of al cw_atoms 0);
                                        jopt (fun a => jnat (a_index a)) (get_a h al)]) (t_atoms t) in
  let res_order := map (fun rl => JL [jopt jnat (index_of rl cw_res 0);
                                      jopt (fun r => jnat (r_index r)) (get_r h rl)]) (t_residues t) in
  let bonds := map (fun b =>
    match get_a h (b_a1 b), get_a h (b_a2 b) with
    | Some x, Some y =>
        JL [jnat (a_index x); jnat (a_index y); jtype (b_type b); jopt jnat (b_order b);
            JB (match nth_error (t_atoms t) (a_index x) with Some l => Nat.eqb l (b_a1 b) | None => false end);
            JB (match nth_error (t_atoms t) (a_index y) with Some l => Nat.eqb l (b_a2 b) | None => false end)]
    | _, _ => JNone
    end) (t_bonds t) in
  JL [JL chains; JL atoms_order; JL res_order; jnat (t_numAtoms t); jnat (t_numRes t); JL bonds].

Definition opt2 {A B} (f : A -> B -> bool) (a : option A) (b : option B) : jv :=
  match a, b with Some x, Some y => JB (f x y) | _, _ => JNone end.

(* everything the harness compares: status of every op, every topology, == and hash-equality of
   every ordered pair of topologies *)
Definition observe (fl : flags) (st : state) : jv :=
  let h := st_heap st in
  let ts := st_tops st in
  let vs := map (abs h) ts in
  let ks := map (hash_keys fl h) ts in
  JL [JL (map JB (rev (st_status st)));
      JL (map (observe_top h) ts);
      JL (map (fun a => JL (map (opt2 teq a) vs)) vs);
      JL (map (fun a => JL (map (opt2 xor_equal a) ks)) ks)].

Definition run_case (c : flags * list op) : jv := observe (fst c) (run (fst c) (snd c)).

(* ------------------------------------------------------------------ helpers of the correspondence run *)
Definition flag_list (f : flags) : list bool :=
  [f_cid_copy f; f_cid_join f; f_cid_subset f; f_repoint f; f_resseq0 f; f_remove_id f; f_del_bonds f; f_hash f;
   f_conect_num f; f_conect_del f; f_h5_full f; f_df_serial f].
Definition flags_of (l : list bool) : flags :=
  let g := fun i => nth i l false in
  Build_flags (g 0) (g 1) (g 2) (g 3) (g 4) (g 5) (g 6) (g 7) (g 8) (g 9) (g 10) (g 11).
Definition flag_repair (i : nat) (f : flags) : flags := flags_of (set_nth i true (flag_list f)).

(* 0: the implementation's observation equals the all-repaired model; 1: it equals the model with
   the detected variant vector, and the listed flags are those whose repair alone would change the
   model's answer on this case; 2: neither *)
Definition verdict (det : flags) (c : list op * jv * list nat) : nat * list nat :=
  let '(ops, expected, candidates) := c in
  if jv_eqb (run_case (flags_fix, ops)) expected then (0, [])
  else let o := run_case (det, ops) in
       if jv_eqb o expected
       then (1, filter (fun i => negb (jv_eqb (run_case (flag_repair i det, ops)) o)) candidates)
       else (2, []).
