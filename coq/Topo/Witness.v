(* C04: concrete witnesses — the as-found variants violate the statements proved for the repaired
   ones, and the hypotheses of those theorems are satisfiable by non-trivial instances. *)
From Coq Require Import String Ascii.
From Coq Require Import List Arith ZArith Bool Lia.
Import ListNotations.
Require Import MD.Topo.Model MD.Topo.Carriers MD.Topo.Run MD.Topo.Basics MD.Topo.Build MD.Topo.AbsWalk MD.Topo.Copy
  MD.Topo.EqHash MD.Topo.Subset MD.Topo.CarrierProofs MD.Topo.BuildFrom MD.Topo.Join.
Open Scope nat_scope.
Open Scope string_scope.

(* two chains with ids, residue numbers 4 and 0 (repeated), non-contiguous serials, a virtual site,
   typed bonds inside a residue, across residues and across chains *)
Definition wit_ops : list op :=
  [ONew; OAddChain 0 (Some "X"); OAddResidue 0 0 "LIG" (Some 4%Z) "S1";
   OAddAtom 0 0 "C1" "C" (Some 5%Z); OAddAtom 0 0 "C2" "C" (Some 9%Z);
   OAddResidue 0 0 "LIG" (Some 0%Z) "S1"; OAddAtom 0 1 "O" "O" (Some 20%Z);
   OAddChain 0 (Some "Y"); OAddResidue 0 1 "WAT" (Some 0%Z) ""; OAddAtom 0 2 "M" "VS" None;
   OAddBond 0 0 1 (Some Single) (Some 1); OAddBond 0 2 1 (Some Double) (Some 2); OAddBond 0 3 2 None None].

Definition slot (st : state) (i : nat) : topo := nth i (st_tops st) empty_topo.
Definition wit_st := run flags_cur wit_ops.
Definition wit_h := st_heap wit_st.
Definition wit_t := slot wit_st 0.

Ltac solve_in := simpl; repeat (first [left; reflexivity | right]).

Lemma wit_wfo : wfo wit_h wit_t.
Proof.
  split; [apply hwfb_hwf; vm_compute; reflexivity| |].
  { intros l a Hin G. vm_compute in Hin.
    repeat (destruct Hin as [<-|Hin]; [vm_compute in G; inversion G; subst; vm_compute; intuition|]). destruct Hin. }
  eexists. split; [vm_compute; reflexivity|].
  split; [vm_compute; reflexivity|].
  split; [simpl; repeat constructor; simpl; intuition discriminate|].
  split; [vm_compute; reflexivity|]. split; [vm_compute; reflexivity|].
  split; [vm_compute; reflexivity|]. split; [vm_compute; reflexivity|].
  intros b Hin. vm_compute in Hin.
  repeat (destruct Hin as [<-|Hin]; [split; [solve_in | split; [solve_in | eexists; eexists; split; [vm_compute; reflexivity | split; [vm_compute; reflexivity | simpl; lia]]]]|]).
  destruct Hin.
Qed.

(* the repaired copy succeeds on it (the theorems about copy are not vacuous) *)
Lemma wit_copy_fix_runs : exists h' t', copy flags_fix wit_h wit_t = Some (h', t').
Proof. eexists; eexists. vm_compute. reflexivity. Qed.

(* ---- today's copy(): chain ids are lost, bonds point into the source *)
Lemma copy_abs_cur_refuted :
  exists h t h' t', wfo h t /\ copy flags_cur h t = Some (h', t') /\ abs h' t' <> abs h t.
Proof.
  exists wit_h, wit_t. eexists; eexists. split; [exact wit_wfo|]. split; [vm_compute; reflexivity|].
  vm_compute. discriminate.
Qed.

Lemma copy_independent_cur_refuted :
  exists h t h' t' l, wfo h t /\ copy flags_cur h t = Some (h', t') /\ In l (reach h' t') /\ In l (reach h' t).
Proof.
  exists wit_h, wit_t. eexists; eexists. exists 2. split; [exact wit_wfo|]. split; [vm_compute; reflexivity|].
  split; vm_compute; intuition.
Qed.

(* an edit of the source changes what the (as-found) copy shows *)
Definition alias_ops := (wit_ops ++ [OCopy 0])%list.
Lemma edit_frame_cur_refuted :
  let st1 := run flags_cur alias_ops in
  let st2 := step flags_cur st1 (OInsertAtom 0 0 "N" "N" (Some 0) (Some 0) None) in
  abs (st_heap st2) (slot st2 1) <> abs (st_heap st1) (slot st1 1).
Proof. vm_compute. discriminate. Qed.

(* with the repaired variants the same history leaves the copy alone *)
Lemma edit_frame_fix_witness :
  let st1 := run flags_fix alias_ops in
  let st2 := step flags_fix st1 (OInsertAtom 0 0 "N" "N" (Some 0) (Some 0) None) in
  abs (st_heap st2) (slot st2 1) = abs (st_heap st1) (slot st1 1).
Proof. vm_compute. reflexivity. Qed.

(* ---- == and hash: resSeq (and segment id, and bond insertion order) enter today's hash only *)
Definition hash_ops : list op :=
  [ONew; OAddChain 0 None; OAddResidue 0 0 "LIG" (Some 4%Z) ""; OAddAtom 0 0 "C1" "C" None;
   ONew; OAddChain 1 None; OAddResidue 1 0 "LIG" (Some 9%Z) ""; OAddAtom 1 0 "C1" "C" None].
Definition hash_ops2 : list op :=
  [ONew; OAddChain 0 None; OAddResidue 0 0 "LIG" None ""; OAddAtom 0 0 "C1" "C" None; OAddAtom 0 0 "C2" "C" None;
   OAddAtom 0 0 "C3" "C" None; OAddBond 0 0 1 None None; OAddBond 0 1 2 None None;
   ONew; OAddChain 1 None; OAddResidue 1 0 "LIG" None ""; OAddAtom 1 0 "C1" "C" None; OAddAtom 1 0 "C2" "C" None;
   OAddAtom 1 0 "C3" "C" None; OAddBond 1 1 2 None None; OAddBond 1 0 1 None None].

Definition eq_hash_stmt (fl : flags) : Prop :=
  forall h t u va vu ka ku,
    abs h t = Some va -> abs h u = Some vu -> atoms_indexed h t va -> atoms_indexed h u vu ->
    Forall vbond_ok (vt_bonds va) -> Forall vbond_ok (vt_bonds vu) ->
    hash_keys fl h t = Some ka -> hash_keys fl h u = Some ku ->
    teq va vu = true -> xor_equal ka ku = true.

Lemma eq_hash_fix_holds : eq_hash_stmt flags_fix.
Proof. unfold eq_hash_stmt. intros h t u va vu ka ku. apply eq_hash_fix. Qed.

Lemma eq_hash_witness ops :
  let st := run flags_cur ops in
  forall va vu ka ku,
    abs (st_heap st) (slot st 0) = Some va -> abs (st_heap st) (slot st 1) = Some vu ->
    atoms_indexed (st_heap st) (slot st 0) va -> atoms_indexed (st_heap st) (slot st 1) vu ->
    Forall vbond_ok (vt_bonds va) -> Forall vbond_ok (vt_bonds vu) ->
    hash_keys flags_cur (st_heap st) (slot st 0) = Some ka -> hash_keys flags_cur (st_heap st) (slot st 1) = Some ku ->
    teq va vu = true -> xor_equal ka ku = false ->
    ~ eq_hash_stmt flags_cur.
Proof.
  intros st va vu ka ku A1 A2 I1 I2 B1 B2 K1 K2 E X S.
  specialize (S _ _ _ _ _ _ _ A1 A2 I1 I2 B1 B2 K1 K2 E). congruence.
Qed.

Lemma eq_hash_cur_refuted : ~ eq_hash_stmt flags_cur.
Proof.
  eapply (eq_hash_witness hash_ops); try (vm_compute; reflexivity); vm_compute; constructor.
Qed.

(* second, independent reason: same bonds added in a different order *)
Lemma eq_hash_cur_refuted_bond_order : ~ eq_hash_stmt flags_cur.
Proof.
  eapply (eq_hash_witness hash_ops2); try (vm_compute; reflexivity); vm_compute; repeat constructor.
Qed.

(* ---- subset: as found, chain ids are lost and resSeq 0 becomes the residue index *)
Definition wit_keep : list nat := [0; 2; 3].

Lemma wit_subset_fix_runs : exists h' t' v, abs wit_h wit_t = Some v /\ subset flags_fix wit_h wit_t wit_keep = Some (h', t').
Proof. eexists; eexists; eexists. split; vm_compute; reflexivity. Qed.

Lemma subset_abs_cur_refuted :
  exists h t keep h' t' v, wfo h t /\ abs h t = Some v /\ subset flags_cur h t keep = Some (h', t') /\
                           abs h' t' <> Some (subset_v keep v).
Proof.
  exists wit_h, wit_t, wit_keep. eexists; eexists; eexists. split; [exact wit_wfo|].
  split; [vm_compute; reflexivity|]. split; [vm_compute; reflexivity|]. vm_compute. discriminate.
Qed.

(* each of the two defects alone breaks it *)
Lemma subset_abs_cur_refuted_chain_id :
  let fl := Build_flags true true false true true true true true true true true true in
  exists h' t' v, abs wit_h wit_t = Some v /\ subset fl wit_h wit_t wit_keep = Some (h', t') /\
                  abs h' t' <> Some (subset_v wit_keep v).
Proof. eexists; eexists; eexists. split; [vm_compute; reflexivity|]. split; [vm_compute; reflexivity|]. vm_compute. discriminate. Qed.

Lemma subset_abs_cur_refuted_resseq0 :
  let fl := Build_flags true true true true false true true true true true true true in
  exists h' t' v, abs wit_h wit_t = Some v /\ subset fl wit_h wit_t wit_keep = Some (h', t') /\
                  abs h' t' <> Some (subset_v wit_keep v).
Proof. eexists; eexists; eexists. split; [vm_compute; reflexivity|]. split; [vm_compute; reflexivity|]. vm_compute. discriminate. Qed.

(* ---- HDF5: the JSON drops serial, chain id, bond type and order *)
Definition wit_v : vtop := match abs wit_h wit_t with Some v => v | None => {| vt_chains := []; vt_bonds := [] |} end.

Lemma wit_v_normal : normal (vt_chains wit_v).
Proof. vm_compute. reflexivity. Qed.

Lemma h5_roundtrip_cur_refuted :
  exists v, normal (vt_chains v) /\
            (num_chains 0 0 0 (fst (h5_round false v)) <> vt_chains v) /\
            (map orient (snd (h5_round false v)) <> vt_bonds v).
Proof. exists wit_v. split; [exact wit_v_normal|]. split; vm_compute; discriminate. Qed.

(* ---- PDB: CONECT numbers that are not the numbers of the ATOM records *)
Definition conect_numbers (recs : list pdbrec) : list Z :=
  concat (map (fun r => match r with PConect l => l | _ => [] end) recs).
Definition atom_numbers (recs : list pdbrec) : list Z :=
  concat (map (fun r => match r with PAtom s _ _ _ _ _ _ => [s] | _ => [] end) recs).
Definition conect_refers_to_atoms (recs : list pdbrec) : bool :=
  forallb (fun n => existsb (Z.eqb n) (atom_numbers recs)) (conect_numbers recs).

Definition pdb_ops : list op :=
  [ONew; OAddChain 0 (Some "A"); OAddResidue 0 0 "LIG" (Some 4%Z) "";
   OAddAtom 0 0 "C1" "C" (Some 5%Z); OAddAtom 0 0 "C2" "C" (Some 9%Z); OAddBond 0 0 1 None None].

Lemma pdb_conect_cur_refuted :
  let st := run flags_cur pdb_ops in
  exists recs, pdb_write flags_cur true (st_heap st) (slot st 0) = Some recs /\ conect_refers_to_atoms recs = false.
Proof. eexists. split; vm_compute; reflexivity. Qed.

Lemma pdb_conect_fix_witness :
  let st := run flags_fix pdb_ops in
  exists recs, pdb_write flags_fix true (st_heap st) (slot st 0) = Some recs /\ conect_refers_to_atoms recs = true.
Proof. eexists. split; vm_compute; reflexivity. Qed.

(* the bond is lost by the PDB round trip as found, kept by the repaired writer *)
Lemma pdb_roundtrip_bond_cur_lost :
  let st := run flags_cur (pdb_ops ++ [OPdb 0 true])%list in
  option_map vt_bonds (abs (st_heap st) (slot st 1)) = Some [].
Proof. vm_compute. reflexivity. Qed.
Lemma pdb_roundtrip_bond_fix_kept :
  let st := run flags_fix (pdb_ops ++ [OPdb 0 true])%list in
  option_map vt_bonds (abs (st_heap st) (slot st 1)) = Some [{| vb_i := 0; vb_j := 1; vb_type := None; vb_order := None |}].
Proof. vm_compute. reflexivity. Qed.

(* two hub atoms with five partners each, bonded to each other as the fourth partner of both: as
   found the CONECT continuation ("print three, delete four") drops that bond from both records *)
Definition pdb_ops5 : list op :=
  ([ONew; OAddChain 0 (Some "A"); OAddResidue 0 0 "LIG" (Some 4%Z) ""] ++
   map (fun i => OAddAtom 0 0 "C" "C" None) (seq 0 10) ++
   [OAddBond 0 0 2 None None; OAddBond 0 0 3 None None; OAddBond 0 0 4 None None;
    OAddBond 0 1 6 None None; OAddBond 0 1 7 None None; OAddBond 0 1 8 None None;
    OAddBond 0 0 1 None None; OAddBond 0 0 5 None None; OAddBond 0 1 9 None None; OPdb 0 true])%list.
Lemma pdb_conect_del_cur_refuted :
  let st := run flags_cur pdb_ops5 in
  option_map (fun v => length (vt_bonds v)) (abs (st_heap st) (slot st 1)) = Some 8.
Proof. vm_compute. reflexivity. Qed.
Lemma pdb_conect_del_fix_witness :
  let st := run flags_fix pdb_ops5 in
  option_map (fun v => length (vt_bonds v)) (abs (st_heap st) (slot st 1)) = Some 9.
Proof. vm_compute. reflexivity. Qed.

(* ---- delete_atom_by_index: as found, ownership lists go out of step *)
Definition del_ops : list op :=
  [ONew; OAddChain 0 None; OAddResidue 0 0 "HOH" None ""; OAddAtom 0 0 "H" "H" None;
   OInsertAtom 0 0 "H" "H" None (Some 0) None; ODelete 0 0].
(* _atoms and the chain-wise walk must hold the same atoms *)
Definition lists_agree (h : heap) (t : topo) : bool :=
  list_eqb Nat.eqb (t_atoms t) (chainwise_atoms h (t_chains t)).
Lemma delete_cur_breaks_ownership :
  let st := run flags_cur del_ops in lists_agree (st_heap st) (slot st 0) = false.
Proof. vm_compute. reflexivity. Qed.
Lemma delete_fix_keeps_ownership :
  let st := run flags_fix del_ops in lists_agree (st_heap st) (slot st 0) = true.
Proof. vm_compute. reflexivity. Qed.

(* dangling bonds after a delete, as found *)
Definition del_ops2 : list op :=
  [ONew; OAddChain 0 None; OAddResidue 0 0 "LIG" None ""; OAddAtom 0 0 "C1" "C" None; OAddAtom 0 0 "C2" "C" None;
   OAddAtom 0 0 "C3" "C" None; OAddBond 0 0 1 None None; OAddBond 0 1 2 None None; ODelete 0 0].
Definition bonds_owned (t : topo) : bool :=
  forallb (fun l => existsb (Nat.eqb l) (t_atoms t)) (bond_ends t).
Lemma delete_cur_leaves_dangling_bond : let st := run flags_cur del_ops2 in bonds_owned (slot st 0) = false.
Proof. vm_compute. reflexivity. Qed.
Lemma delete_fix_drops_bond : let st := run flags_fix del_ops2 in bonds_owned (slot st 0) = true.
Proof. vm_compute. reflexivity. Qed.

(* join runs on the witness *)
Lemma wit_join_fix_runs : exists h' t', join flags_fix wit_h wit_t wit_t true = Some (h', t').
Proof. eexists; eexists. vm_compute. reflexivity. Qed.
Lemma join_abs_cur_refuted :
  exists h t o h' t' va vo, wfo h t /\ wfo h o /\ abs h t = Some va /\ abs h o = Some vo /\
                            join flags_cur h t o true = Some (h', t') /\ abs h' t' <> Some (join_v va vo).
Proof.
  exists wit_h, wit_t, wit_t. eexists; eexists; eexists; eexists. split; [exact wit_wfo|]. split; [exact wit_wfo|].
  split; [vm_compute; reflexivity|]. split; [vm_compute; reflexivity|]. split; [vm_compute; reflexivity|]. vm_compute. discriminate.
Qed.

(* df exactness holds for a non-trivial topology *)
Definition df_ops : list op :=
  [ONew; OAddChain 0 (Some "X"); OAddResidue 0 0 "LIG" (Some 4%Z) "S1"; OAddAtom 0 0 "C1" "C" (Some 5%Z);
   OAddAtom 0 0 "C2" "C" (Some 9%Z); OAddResidue 0 0 "LIG" (Some 0%Z) ""; OAddAtom 0 1 "O" "O" None;
   OAddChain 0 None; OAddResidue 0 1 "LIG" (Some 0%Z) ""; OAddAtom 0 2 "M" "VS" None; OAddBond 0 0 3 (Some Aromatic) (Some 2)].
Definition df_v : vtop :=
  let st := run flags_cur df_ops in match abs (st_heap st) (slot st 0) with Some v => v | None => {| vt_chains := []; vt_bonds := [] |} end.
Lemma df_v_exact : normal (vt_chains df_v) /\ df_exact df_v /\ Forall vbond_ok (vt_bonds df_v).
Proof.
  split; [vm_compute; reflexivity|]. split.
  - split.
    + intros c Hin. vm_compute in Hin. destruct Hin as [<-|[<-|[]]]; simpl.
      * split; [discriminate|]. split; [intros r [<-|[<-|[]]]; simpl; discriminate|]. split; [reflexivity | exact I].
      * split; [discriminate|]. split; [intros r [<-|[]]; simpl; discriminate|]. exact I.
    + vm_compute. split; [discriminate | exact I].
  - vm_compute. repeat constructor.
Qed.
