(* C04: a (repaired) copy is independent of its source under edits of either side. *)
From Coq Require Import String Ascii.
From Coq Require Import List Arith ZArith Bool Lia.
Import ListNotations.
Require Import MD.Topo.Model MD.Topo.Carriers MD.Topo.Run MD.Topo.Basics MD.Topo.Build MD.Topo.AbsWalk MD.Topo.Copy
  MD.Topo.Frame.
Open Scope nat_scope.

Theorem copy_edit_independent h t h' t' st fl o s1 s2 :
  wfo h t -> copy flags_fix h t = Some (h', t') ->
  st_heap st = h' -> nth_error (st_tops st) s1 = Some t -> nth_error (st_tops st) s2 = Some t' ->
  (edit_slot o = Some s1 -> abs (st_heap (step fl st o)) t' = abs h' t') /\
  (edit_slot o = Some s2 -> abs (st_heap (step fl st o)) t = abs h' t).
Proof.
  intros Hwfo Hcopy Hh Hs1 Hs2.
  destruct (copy_wfo h t h' t' Hwfo Hcopy) as [Wt' Wt].
  pose proof (copy_independent h t h' t' t Hwfo Hwfo Hcopy) as Hsep.
  subst h'. split; intros Ho.
  - refine (proj1 (edit_frame fl st o s1 t t' Ho Hs1 (@wo_back _ _ Wt) _)).
    intros l Hin. split; [exact (wfo_reach_lt _ _ Wt' l Hin)|]. exact (Hsep l Hin).
  - refine (proj1 (edit_frame fl st o s2 t' t Ho Hs2 (@wo_back _ _ Wt') _)).
    intros l Hin. split; [exact (wfo_reach_lt _ _ Wt l Hin)|]. intros Hin'. exact (Hsep l Hin' Hin).
Qed.
