(* C04: the carriers a topology travels through (pandas data frame, HDF5 JSON, PDB records),
   as functions of the value [vtop] read by a chain-wise walk.  Definitions only.

   Each decoder returns a builder description (chains -> residues -> atoms, no indices: the
   add_* calls assign them) and the bonds as positions in creation order. *)
From Coq Require Import String Ascii.
From Coq Require Import List Arith ZArith Bool.
Import ListNotations.
Require Import MD.Topo.Model.
Open Scope nat_scope.

Definition dbond := (nat * nat * option btype * option nat)%type.

Fixpoint group_by {A} (same : A -> A -> bool) (l : list A) : list (list A) :=
  match l with
  | [] => []
  | x :: r => match group_by same r with
              | (y :: g) :: gs => if same x y then (x :: y :: g) :: gs else [x] :: (y :: g) :: gs
              | _ => [[x]]
              end
  end.

(* ------------------------------------------------------------------ to_dataframe / from_dataframe *)
Record dfrow := { df_serial : option Z; df_name : string; df_elem : string; df_resSeq : Z; df_resName : string;
                  df_chainID : nat; df_seg : string }.

Definition df_rows (v : vtop) : list dfrow :=
  concat (map (fun c => concat (map (fun r => map (fun a =>
      {| df_serial := va_serial a; df_name := va_name a; df_elem := va_elem a; df_resSeq := vr_resSeq r;
         df_resName := vr_name r; df_chainID := vc_index c; df_seg := vr_seg r |}) (vr_atoms r)) (vc_res c)))
    (vt_chains v)).
(* bonds[index] = atom1.index, atom2.index, float(type) (here x4), order or 0 *)
Definition df_bonds (v : vtop) : list (nat * nat * nat * nat) := map bond_key (vt_bonds v).

Definition df_res_of (g : list dfrow) : dres :=
  match g with
  | [] => {| dr_name := ""; dr_resSeq := None; dr_seg := ""; dr_atoms := [] |}
  | x :: _ => {| dr_name := df_resName x; dr_resSeq := Some (df_resSeq x); dr_seg := df_seg x;
                 dr_atoms := map (fun y => {| da_name := df_name y; da_elem := df_elem y; da_serial := df_serial y |}) g |}
  end.
(* new chain when chainID changes; new residue when resSeq or resName changes (or the chain is new) *)
Definition df_decode_rows (rows : list dfrow) : list dchain :=
  map (fun cg => {| dc_id := None;
                    dc_res := map df_res_of
                                  (group_by (fun x y => Z.eqb (df_resSeq x) (df_resSeq y) &&
                                                        String.eqb (df_resName x) (df_resName y)) cg) |})
      (group_by (fun x y => Nat.eqb (df_chainID x) (df_chainID y)) rows).
Definition df_decode_bond (b : nat * nat * nat * nat) : dbond :=
  let '(i, j, q, o) := b in (i, j, q_btype q, match o with 0 => None | _ => Some o end).

(* pandas: a "serial" column holding both numbers and None becomes a float column in which None
   is NaN; as found from_dataframe puts that NaN into the atom *)
Definition df_nanify (rows : list dfrow) : list dfrow :=
  let has_num := existsb (fun r => match df_serial r with Some _ => true | None => false end) rows in
  let has_none := existsb (fun r => match df_serial r with Some _ => false | None => true end) rows in
  if has_num && has_none
  then map (fun r => {| df_serial := match df_serial r with Some s => Some s | None => Some nan_serial end;
                        df_name := df_name r; df_elem := df_elem r; df_resSeq := df_resSeq r; df_resName := df_resName r;
                        df_chainID := df_chainID r; df_seg := df_seg r |}) rows
  else rows.

Definition df_round (keep_none : bool) (v : vtop) : list dchain * list dbond :=
  (df_decode_rows (if keep_none then df_rows v else df_nanify (df_rows v)), map df_decode_bond (df_bonds v)).

(* ------------------------------------------------------------------ HDF5 topology JSON *)
(* the JSON holds: chain index; residue index, name, resSeq, segmentID; atom index, name, element;
   bonds as index pairs.  It does not hold serial, chain_id, bond type, bond order. *)
Definition h5_round (full : bool) (v : vtop) : list dchain * list dbond :=
  (map (fun c => {| dc_id := if full then vc_id c else None;
                    dc_res := map (fun r => {| dr_name := vr_name r; dr_resSeq := Some (vr_resSeq r); dr_seg := vr_seg r;
                                               dr_atoms := map (fun a => {| da_name := va_name a; da_elem := va_elem a;
                                                                            da_serial := if full then va_serial a else None |})
                                                               (sort_by (fun x y => va_index x <=? va_index y) (vr_atoms r)) |})
                                  (sort_by (fun x y => vr_index x <=? vr_index y) (vc_res c)) |})
       (sort_by (fun x y => vc_index x <=? vc_index y) (vt_chains v)),
   map (fun b => if full then (vb_i b, vb_j b, vb_type b, vb_order b) else (vb_i b, vb_j b, None, None)) (vt_bonds v)).

(* ------------------------------------------------------------------ PDB records *)
Inductive pdbrec :=
| PAtom (serial : Z) (name resName chainName : string) (resSeq : Z) (seg elem : string)
| PTer
| PConect (l : list Z).

Definition chain_letter (i : nat) : string :=
  String (ascii_of_nat (65 + i mod 26)) EmptyString.
Definition take (n : nat) (s : string) : string := substring 0 n s.

(* ATOM/TER records of PDBTrajectoryFile.write for one model; [single] = fewer than two chains.
   Returns the records and, per atom in chain-wise order, the number written in its ATOM record. *)
Fixpoint pdb_atoms_res (single : bool) (cname rname : string) (resSeq : Z) (seg : string)
  (atoms : list vatom) (atomIndex : nat) : list pdbrec * list Z * nat :=
  match atoms with
  | [] => ([], [], atomIndex)
  | a :: rest =>
      let ser := match va_serial a with
                 | Some s => if single then s else Z.of_nat atomIndex
                 | None => Z.of_nat atomIndex
                 end in
      let '(recs, nums, ai) := pdb_atoms_res single cname rname resSeq seg rest (S atomIndex) in
      (PAtom (ser mod 100000) (take 4 (va_name a)) rname cname (resSeq mod 10000) (take 4 seg) (va_elem a) :: recs,
       (ser mod 100000)%Z :: nums, ai)
  end.
Fixpoint pdb_atoms_chain (single ter : bool) (cname : string) (rs : list vres) (atomIndex : nat)
  : list pdbrec * list Z * nat :=
  match rs with
  | [] => ([], [], atomIndex)
  | r :: rest =>
      let '(recs, nums, ai) :=
        pdb_atoms_res single cname (take 3 (vr_name r)) (vr_resSeq r) (vr_seg r) (vr_atoms r) atomIndex in
      match rest with
      | [] => if ter then (recs ++ [PTer], nums, S ai) else (recs, nums, ai)
      | _ => let '(recs2, nums2, ai2) := pdb_atoms_chain single ter cname rest ai in
             (recs ++ recs2, nums ++ nums2, ai2)
      end
  end.
Fixpoint pdb_atoms_chains (single ter : bool) (cs : list vchain) (pos : nat) (atomIndex : nat)
  : list pdbrec * list Z :=
  match cs with
  | [] => ([], [])
  | c :: rest =>
      let cname := match vc_id c with
                   | Some s => if String.eqb s "" then chain_letter pos else take 1 s
                   | None => chain_letter pos
                   end in
      let '(recs, nums, ai) := pdb_atoms_chain single ter cname (vc_res c) atomIndex in
      let '(recs2, nums2) := pdb_atoms_chains single ter rest (S pos) ai in
      (recs ++ recs2, nums ++ nums2)
  end.

Definition standard_residues : list string :=
  ["ALA"; "ASN"; "CYS"; "GLU"; "HIS"; "LEU"; "MET"; "PRO"; "THR"; "TYR"; "ARG"; "ASP"; "GLN"; "GLY"; "ILE"; "LYS";
   "PHE"; "SER"; "TRP"; "VAL"; "A"; "G"; "C"; "U"; "I"; "DA"; "DG"; "DC"; "DT"; "DI"; "HOH"]%string.
Definition is_std (s : string) : bool := existsb (String.eqb s) standard_residues.

(* positional numbering of _write_footer: one extra number per chain that has atoms when TER lines
   are written; starts at 0 (so the first atom is 1 only because of that extra number) *)
Fixpoint footer_numbers (ter : bool) (chains : list (list loc)) (next : nat) : list (loc * nat) :=
  match chains with
  | [] => []
  | atoms :: rest =>
      let start := match atoms with [] => next | _ => if ter then S next else next end in
      combine atoms (seq start (length atoms)) ++ footer_numbers ter rest (start + length atoms)
  end.

Fixpoint assoc_add (k v : Z) (m : list (Z * list Z)) : list (Z * list Z) :=
  match m with
  | [] => [(k, [v])]
  | (k', l) :: r => if Z.eqb k k' then (k', l ++ [v]) :: r else (k', l) :: assoc_add k v r
  end.

(* "while len(bonded) > 4: print index1, bonded[0..2]; del bonded[:4]" with fuel = len *)
Fixpoint conect_lines (del : nat) (fuel : nat) (i : Z) (bonded : list Z) : list pdbrec :=
  match fuel with
  | 0 => [PConect (i :: bonded)]
  | S f => if 4 <? length bonded then PConect (i :: firstn 3 bonded) :: conect_lines del f i (skipn del bonded)
           else [PConect (i :: bonded)]
  end.

(* the CONECT part, heap level (bond ends are atom objects looked up in a dict keyed by atoms) *)
Definition pdb_footer (fl : flags) (ter : bool) (h : heap) (t : topo) (written : list Z) : option (list pdbrec) :=
  w <- walk h t ;;
  let name_of := fun l => a <- get_a h l ;; r <- get_r h (a_res a) ;; Some (a_name a, r_name r) in
  eligible <- mapM (fun b => x <- name_of (b_a1 b) ;; y <- name_of (b_a2 b) ;;
                             Some (b, negb (is_std (snd x)) || negb (is_std (snd y)) ||
                                      (String.eqb (fst x) "SG" && String.eqb (fst y) "SG" &&
                                       String.eqb (snd x) "CYS" && String.eqb (snd y) "CYS"))) (t_bonds t) ;;
  let conect := map fst (filter snd eligible) in
  match conect with
  | [] => Some []
  | _ =>
      let chains := map (fun cr => map fst (concat (map snd (snd cr)))) w in
      let numbering : list (loc * nat) :=
        if f_conect_num fl
        then combine (concat chains) (map Z.to_nat written)
        else footer_numbers ter chains 0 in
      let pair_of := fun b => i <- dict_get h numbering (b_a1 b) None ;; j <- dict_get h numbering (b_a2 b) None ;;
                              Some (Z.of_nat i, Z.of_nat j) in
      (* as found: atomIndex[atom] raises KeyError for an atom that is not in the topology; the repair
         lists only bonds whose two atoms were written *)
      pairs <- (if f_conect_num fl then Some (somes (map pair_of conect)) else mapM pair_of conect) ;;
      let m := fold_left (fun m p => assoc_add (snd p) (fst p) (assoc_add (fst p) (snd p) m)) pairs [] in
      let m := sort_by (fun x y => Z.leb (fst x) (fst y)) m in
      Some (concat (map (fun kv => conect_lines (if f_conect_del fl then 3 else 4) (length (snd kv)) (fst kv) (snd kv)) m))
  end.

Definition no_empty_residue (v : vtop) : bool :=
  forallb (fun r => negb (Nat.eqb (length (vr_atoms r)) 0)) (v_residues v).

Definition pdb_write (fl : flags) (ter : bool) (h : heap) (t : topo) : option (list pdbrec) :=
  v <- abs h t ;;
  if negb (no_empty_residue v) then None else          (* guard of the runs: TER after an empty residue *)
  (* "%5d" % (nan % 100000) raises ValueError: a single-chain topology writes atom.serial *)
  if (length (vt_chains v) <? 2) && existsb (fun a => match va_serial a with Some s => Z.eqb s nan_serial | None => false end) (v_atoms v)
  then None else
  let '(recs, written) := pdb_atoms_chains (length (vt_chains v) <? 2) ter (vt_chains v) 0 1 in
  foot <- pdb_footer fl ter h t written ;;
  Some (recs ++ foot).

(* ---- reader (PdbStructure + PDBTrajectoryFile._read_models), for names outside the replacement
   tables and element symbols that exist *)
Record patom := { pa_serial : Z; pa_name : string; pa_resName : string; pa_chain : string; pa_resSeq : Z;
                  pa_seg : string; pa_elem : string; pa_after_ter : bool }.
Fixpoint pdb_atoms_of (recs : list pdbrec) (after_ter : bool) : list patom :=
  match recs with
  | [] => []
  | PAtom s n rn cn rs sg el :: r =>
      {| pa_serial := s; pa_name := n; pa_resName := rn; pa_chain := cn; pa_resSeq := rs; pa_seg := sg; pa_elem := el;
         pa_after_ter := after_ter |} :: pdb_atoms_of r false
  | PTer :: r => pdb_atoms_of r true
  | PConect _ :: r => pdb_atoms_of r after_ter
  end.
Definition pdb_read_chains (atoms : list patom) : list dchain :=
  map (fun cg => {| dc_id := match cg with x :: _ => Some (pa_chain x) | [] => None end;
                    dc_res := map (fun g => match g with
                                            | [] => {| dr_name := ""; dr_resSeq := None; dr_seg := ""; dr_atoms := [] |}
                                            | x :: _ => {| dr_name := pa_resName x; dr_resSeq := Some (pa_resSeq x);
                                                           dr_seg := pa_seg x;
                                                           dr_atoms := map (fun y => {| da_name := pa_name y;
                                                                                        da_elem := pa_elem y;
                                                                                        da_serial := Some (pa_serial y) |}) g |}
                                            end)
                                   (group_by (fun x y => Z.eqb (pa_resSeq x) (pa_resSeq y) &&
                                                         String.eqb (pa_resName x) (pa_resName y)) cg) |})
      (group_by (fun x y => String.eqb (pa_chain x) (pa_chain y) && negb (pa_after_ter y)) atoms).

(* atomByNumber: the LAST atom carrying a serial wins *)
Fixpoint last_pos (serials : list Z) (s : Z) (i : nat) (acc : option nat) : option nat :=
  match serials with
  | [] => acc
  | x :: r => last_pos r s (S i) (if Z.eqb x s then Some i else acc)
  end.
Definition conect_pairs (recs : list pdbrec) : list (Z * Z) :=
  concat (map (fun r => match r with
                        | PConect (i :: js) => map (fun j => (i, j)) js
                        | _ => []
                        end) recs).
Fixpoint add_new_bonds (pairs : list (nat * nat)) (have : list (nat * nat)) : list (nat * nat) :=
  match pairs with
  | [] => []
  | (i, j) :: r =>
      if existsb (fun p => (Nat.eqb (fst p) i && Nat.eqb (snd p) j) || (Nat.eqb (fst p) j && Nat.eqb (snd p) i)) have
      then add_new_bonds r have
      else (i, j) :: add_new_bonds r ((i, j) :: have)
  end.
(* ---- Topology.create_standard_bonds() on the topology just read: for every chain, every residue i whose
   name is in the table (mdtraj/formats/pdb/data/residues.xml, regenerated into coq/Gen/TopoStdBonds.v) and
   every (from, to) of its entry: "-X" means atom X of residue i-1 (when i > 0, otherwise the literal name,
   which no atom has); the bond is added when both names exist (of several atoms with one name in a residue
   the last wins: atomMap[atom.name] = atom).  Bonds are positions in creation order. *)
Definition std_table := list (string * list (string * string)).

Fixpoint assoc_str {V} (k : string) (m : list (string * V)) : option V :=
  match m with [] => None | (k', v) :: r => if String.eqb k' k then Some v else assoc_str k r end.
Fixpoint find_last_name (nm : string) (atoms : list (string * nat)) (acc : option nat) : option nat :=
  match atoms with [] => acc | (n, p) :: r => find_last_name nm r (if String.eqb n nm then Some p else acc) end.

(* residues of one chain with their atoms' names and positions *)
Fixpoint number_res (rs : list dres) (start : nat) : list (string * list (string * nat)) * nat :=
  match rs with
  | [] => ([], start)
  | r :: rest =>
      let atoms := combine (map da_name (dr_atoms r)) (seq start (length (dr_atoms r))) in
      let '(out, fin) := number_res rest (start + length (dr_atoms r)) in
      ((dr_name r, atoms) :: out, fin)
  end.

Definition resolve_end (i : nat) (nm : string) : nat * string :=
  match nm with
  | String "-" tl => if 0 <? i then (i - 1, tl) else (i, nm)
  | _ => (i, nm)
  end.

Definition std_bonds_chain (tbl : std_table) (rs : list (string * list (string * nat))) : list (nat * nat) :=
  concat (map (fun i =>
    match nth_error rs i with
    | Some (name, _) =>
        match assoc_str name tbl with
        | Some bonds =>
            somes (map (fun ft =>
              let '(fi, fa) := resolve_end i (fst ft) in
              let '(ti, ta) := resolve_end i (snd ft) in
              match nth_error rs fi, nth_error rs ti with
              | Some (_, fas), Some (_, tas) =>
                  match find_last_name fa fas None, find_last_name ta tas None with
                  | Some p, Some q => Some (p, q)
                  | _, _ => None
                  end
              | _, _ => None
              end) bonds)
        | None => []
        end
    | None => []
    end) (seq 0 (length rs))).

Fixpoint std_bonds_chains (tbl : std_table) (cs : list dchain) (start : nat) : list (nat * nat) :=
  match cs with
  | [] => []
  | c :: rest => let '(rs, fin) := number_res (dc_res c) start in
                 std_bonds_chain tbl rs ++ std_bonds_chains tbl rest fin
  end.

Definition pdb_read (tbl : std_table) (recs : list pdbrec) : list dchain * list dbond :=
  let atoms := pdb_atoms_of recs false in
  let serials := map pa_serial atoms in
  let chains := pdb_read_chains atoms in
  let std := std_bonds_chains tbl chains 0 in
  let pairs := somes (map (fun p => match last_pos serials (fst p) 0 None, last_pos serials (snd p) 0 None with
                                    | Some i, Some j => Some (i, j)
                                    | _, _ => None
                                    end) (conect_pairs recs)) in
  (* "Only add bonds that don't already exist" (either orientation) *)
  (chains, map (fun p => (fst p, snd p, None, None)) (std ++ add_new_bonds pairs std)).
