(* C04: _topology_from_subset (repaired variant).
   Value-level specification [subset_v] and its properties ([subset_spec_*]); the heap-level
   operation refines it ([subset_refines]) and allocates only fresh objects. *)
From Coq Require Import String Ascii.
From Coq Require Import List Arith ZArith Bool Lia Sorted.
Import ListNotations.
Require Import MD.Topo.Model MD.Topo.Basics MD.Topo.Build MD.Topo.AbsWalk MD.Topo.Copy.
Open Scope nat_scope.

(* ------------------------------------------------------------------ the specification *)
Definition keepb (keep : list nat) (a : vatom) : bool := existsb (Nat.eqb (va_index a)) keep.

Definition sub_res (keep : list nat) (r : vres) : option vres :=
  match filter (keepb keep) (vr_atoms r) with
  | [] => None
  | l => Some {| vr_name := vr_name r; vr_index := vr_index r; vr_resSeq := vr_resSeq r; vr_seg := vr_seg r; vr_atoms := l |}
  end.
Definition sub_chain (keep : list nat) (c : vchain) : vchain :=
  {| vc_index := vc_index c; vc_id := vc_id c; vc_res := somes (map (sub_res keep) (vc_res c)) |}.
Definition has_res (c : vchain) : bool := negb (Nat.eqb (length (vc_res c)) 0).

(* chains -> residues -> atoms restricted to the kept atoms; residues and chains left empty vanish;
   indices renumbered 0,1,2,... *)
Definition subset_chains (keep : list nat) (cs : list vchain) : list vchain :=
  renum_chains 0 0 0 (filter has_res (map (sub_chain keep) cs)).

Fixpoint pos_of (i : nat) (l : list nat) (p : nat) : option nat :=
  match l with
  | [] => None
  | x :: r => if Nat.eqb x i then Some p else pos_of i r (S p)
  end.
(* new index of the kept atom whose old index is i *)
Definition rank (keep : list nat) (v : vtop) (i : nat) : option nat :=
  pos_of i (map va_index (filter (keepb keep) (v_atoms v))) 0.

Definition subset_bonds (keep : list nat) (v : vtop) : list vbond :=
  somes (map (fun b => match rank keep v (vb_i b), rank keep v (vb_j b) with
                       | Some i, Some j => Some {| vb_i := i; vb_j := j; vb_type := vb_type b; vb_order := vb_order b |}
                       | _, _ => None
                       end) (vt_bonds v)).

Definition subset_v (keep : list nat) (v : vtop) : vtop :=
  {| vt_chains := subset_chains keep (vt_chains v); vt_bonds := subset_bonds keep v |}.

(* ------------------------------------------------------------------ properties of the specification *)
Lemma somes_app {A} (l1 l2 : list (option A)) : somes (l1 ++ l2) = somes l1 ++ somes l2.
Proof. induction l1 as [|[a|] l1 IH]; simpl; [reflexivity | rewrite IH; reflexivity | exact IH]. Qed.

Lemma sub_res_atoms keep rs :
  concat (map vr_atoms (somes (map (sub_res keep) rs))) = filter (keepb keep) (concat (map vr_atoms rs)).
Proof.
  induction rs as [|r rs IH]; [reflexivity|].
  simpl. rewrite filter_app. unfold sub_res at 1.
  destruct (filter (keepb keep) (vr_atoms r)) eqn:E; simpl; rewrite IH; reflexivity.
Qed.

Lemma filter_has_res_atoms cs :
  concat (map vr_atoms (concat (map vc_res (filter has_res cs)))) = concat (map vr_atoms (concat (map vc_res cs))).
Proof.
  induction cs as [|c cs IH]; [reflexivity|].
  simpl. unfold has_res at 1. destruct (vc_res c) eqn:E; simpl; [exact IH|].
  rewrite E. simpl. rewrite !map_app, !concat_app. simpl. rewrite IH. reflexivity.
Qed.

Lemma renum_chains_atoms nc nr na cs :
  concat (map vr_atoms (concat (map vc_res (renum_chains nc nr na cs)))) =
  renum_atoms na (concat (map vr_atoms (concat (map vc_res cs)))).
Proof.
  assert (RA : forall na l1 l2, renum_atoms na (l1 ++ l2) = renum_atoms na l1 ++ renum_atoms (na + length l1) l2).
  { intros na0 l1; revert na0; induction l1 as [|a l1 IH]; intros na0 l2; simpl; [rewrite Nat.add_0_r; reflexivity|].
    rewrite IH. replace (S na0 + length l1) with (na0 + S (length l1)) by lia. reflexivity. }
  assert (RR : forall nr na rs, concat (map vr_atoms (renum_res nr na rs)) = renum_atoms na (concat (map vr_atoms rs))).
  { intros nr0 na0 rs; revert nr0 na0; induction rs as [|r rs IH]; intros nr0 na0; [reflexivity|].
    simpl. rewrite RA, IH. reflexivity. }
  assert (LL : forall rs : list vres, length (concat (map vr_atoms rs)) = natoms_vres rs).
  { unfold natoms_vres. induction rs as [|r rs IH]; [reflexivity|]. simpl. rewrite app_length, IH. reflexivity. }
  revert nc nr na; induction cs as [|c cs IH]; intros nc nr na; [reflexivity|].
  simpl. rewrite !map_app, !concat_app, RA, RR, IH, LL. reflexivity.
Qed.

(* (1) the atoms of the subset are exactly the kept atoms, in order, with name/element/serial
       unchanged and indices 0..n-1 *)
Theorem subset_spec_atoms keep v :
  v_atoms (subset_v keep v) = renum_atoms 0 (filter (keepb keep) (v_atoms v)).
Proof.
  unfold v_atoms, v_residues, subset_v, subset_chains. simpl.
  rewrite renum_chains_atoms, filter_has_res_atoms. f_equal.
  induction (vt_chains v) as [|c cs IH]; [reflexivity|].
  simpl. rewrite !map_app, !concat_app, filter_app, IH. f_equal. apply sub_res_atoms.
Qed.

(* (2) no residue of the subset is empty and no chain is empty *)
Lemma sub_res_nonempty keep r r' : sub_res keep r = Some r' -> vr_atoms r' <> [].
Proof. unfold sub_res. destruct (filter (keepb keep) (vr_atoms r)) eqn:E; intros H; inversion H; subst; simpl; discriminate. Qed.

Lemma renum_res_in nr na rs r' :
  In r' (renum_res nr na rs) -> exists r, In r rs /\ length (vr_atoms r') = length (vr_atoms r) /\
                                       vr_name r' = vr_name r /\ vr_resSeq r' = vr_resSeq r /\ vr_seg r' = vr_seg r.
Proof.
  revert nr na; induction rs as [|r rs IH]; intros nr na H; [destruct H|].
  simpl in H. destruct H as [<-|H].
  - exists r. simpl. rewrite renum_atoms_length. split; [left; reflexivity|]. repeat split; reflexivity.
  - destruct (IH _ _ H) as [r0 [H1 H2]]. exists r0. split; [right; exact H1 | exact H2].
Qed.

Theorem subset_spec_no_empty keep v :
  (forall c, In c (vt_chains (subset_v keep v)) -> vc_res c <> []) /\
  (forall r, In r (v_residues (subset_v keep v)) -> vr_atoms r <> []).
Proof.
  unfold v_residues, subset_v, subset_chains; simpl.
  set (cs := filter has_res (map (sub_chain keep) (vt_chains v))).
  assert (Hc : forall c, In c cs -> vc_res c <> [] /\ forall r, In r (vc_res c) -> vr_atoms r <> []).
  { intros c Hin. unfold cs in Hin. apply filter_In in Hin. destruct Hin as [Hin Hhas].
    split; [unfold has_res in Hhas; destruct (vc_res c); [discriminate | discriminate]|].
    apply in_map_iff in Hin. destruct Hin as [c0 [<- _]]. simpl. intros r Hr.
    assert (exists r0, sub_res keep r0 = Some r) as [r0 Hr0].
    { clear - Hr. induction (vc_res c0) as [|x l IH]; [destruct Hr|].
      simpl in Hr. destruct (sub_res keep x) eqn:E; [destruct Hr as [<-|Hr]; [eauto | auto] | auto]. }
    eapply sub_res_nonempty; eauto. }
  clearbody cs.
  assert (G : forall nc nr na c', In c' (renum_chains nc nr na cs) ->
              exists c, In c cs /\ length (vc_res c') = length (vc_res c) /\
                        forall r', In r' (vc_res c') -> exists r, In r (vc_res c) /\ length (vr_atoms r') = length (vr_atoms r)).
  { induction cs as [|c cs IH]; intros nc nr na c' H; [destruct H|].
    simpl in H. destruct H as [<-|H].
    - exists c. split; [left; reflexivity|]. simpl. rewrite renum_res_length. split; [reflexivity|].
      intros r' Hr'. destruct (renum_res_in _ _ _ _ Hr') as [r [H1 [H2 _]]]. exists r; auto.
    - destruct (IH (fun c0 H0 => Hc c0 (or_intror H0)) _ _ _ _ H) as [c0 [H1 H2]]. exists c0. split; [right; exact H1 | exact H2]. }
  split.
  - intros c' Hin. destruct (G _ _ _ _ Hin) as [c [H1 [H2 _]]]. destruct (Hc c H1) as [Hne _].
    intros E. rewrite E in H2. simpl in H2. destruct (vc_res c); [apply Hne; reflexivity | discriminate].
  - intros r' Hin. apply in_concat in Hin. destruct Hin as [rs [Hrs Hr']]. apply in_map_iff in Hrs.
    destruct Hrs as [c' [<- Hc']]. destruct (G _ _ _ _ Hc') as [c [H1 [_ H3]]]. destruct (H3 r' Hr') as [r [H4 H5]].
    destruct (Hc c H1) as [_ Hne]. specialize (Hne r H4). intros E. rewrite E in H5. simpl in H5.
    destruct (vr_atoms r); [apply Hne; reflexivity | discriminate].
Qed.

(* (3) the subset is numbered 0,1,2,... along the walk *)
Theorem subset_spec_normal keep v : normal (vt_chains (subset_v keep v)).
Proof. unfold normal, subset_v, subset_chains; simpl. apply renum_chains_idem. Qed.

(* (4) residues keep name, number and segment id; chains keep their id: the content of the subset,
       indices aside, is the restriction of the source *)
Definition strip_res (r : vres) := (vr_name r, vr_resSeq r, vr_seg r, map (fun a => (va_name a, va_elem a, va_serial a)) (vr_atoms r)).
Definition strip_chain (c : vchain) := (vc_id c, map strip_res (vc_res c)).

Lemma renum_atoms_strip na l :
  map (fun a => (va_name a, va_elem a, va_serial a)) (renum_atoms na l) = map (fun a => (va_name a, va_elem a, va_serial a)) l.
Proof. revert na; induction l as [|a l IH]; intros na; [reflexivity|]. simpl. rewrite IH. reflexivity. Qed.
Lemma renum_res_strip nr na l : map strip_res (renum_res nr na l) = map strip_res l.
Proof.
  revert nr na; induction l as [|r l IH]; intros nr na; [reflexivity|].
  simpl. rewrite IH. f_equal. unfold strip_res; simpl. rewrite renum_atoms_strip. reflexivity.
Qed.
Lemma renum_chains_strip nc nr na l : map strip_chain (renum_chains nc nr na l) = map strip_chain l.
Proof.
  revert nc nr na; induction l as [|c l IH]; intros nc nr na; [reflexivity|].
  simpl. rewrite IH. f_equal. unfold strip_chain; simpl. rewrite renum_res_strip. reflexivity.
Qed.

Theorem subset_spec_content keep v :
  map strip_chain (vt_chains (subset_v keep v)) =
  map strip_chain (filter has_res (map (sub_chain keep) (vt_chains v))).
Proof. unfold subset_v, subset_chains; simpl. apply renum_chains_strip. Qed.

(* (5) a bond survives iff both its ends are kept, and it is re-pointed to the new indices *)
Theorem subset_spec_bonds keep v b' :
  In b' (vt_bonds (subset_v keep v)) <->
  exists b i j, In b (vt_bonds v) /\ rank keep v (vb_i b) = Some i /\ rank keep v (vb_j b) = Some j /\
                b' = {| vb_i := i; vb_j := j; vb_type := vb_type b; vb_order := vb_order b |}.
Proof.
  unfold subset_v, subset_bonds; simpl. induction (vt_bonds v) as [|b bs IH]; simpl.
  - split; [intros [] | intros [b [i [j [[] _]]]]].
  - destruct (rank keep v (vb_i b)) as [i|] eqn:Ei; [destruct (rank keep v (vb_j b)) as [j|] eqn:Ej|].
    + simpl. split.
      * intros [<-|H]; [exists b, i, j; auto|]. apply IH in H. destruct H as [b0 [i0 [j0 [H0 H1]]]].
        exists b0, i0, j0. split; [right; exact H0 | exact H1].
      * intros [b0 [i0 [j0 [[<-|H0] [H1 [H2 H3]]]]]].
        -- left. rewrite Ei in H1. rewrite Ej in H2. inversion H1; inversion H2; subst. reflexivity.
        -- right. apply IH. exists b0, i0, j0. auto.
    + split.
      * intros H. apply IH in H. destruct H as [b0 [i0 [j0 [H0 H1]]]]. exists b0, i0, j0. split; [right; exact H0 | exact H1].
      * intros [b0 [i0 [j0 [[<-|H0] [H1 [H2 H3]]]]]]; [rewrite Ej in H2; discriminate|]. apply IH. exists b0, i0, j0. auto.
    + split.
      * intros H. apply IH in H. destruct H as [b0 [i0 [j0 [H0 H1]]]]. exists b0, i0, j0. split; [right; exact H0 | exact H1].
      * intros [b0 [i0 [j0 [[<-|H0] [H1 [H2 H3]]]]]]; [rewrite Ei in H1; discriminate|]. apply IH. exists b0, i0, j0. auto.
Qed.

(* ------------------------------------------------------------------ generic numbering of a build *)
Fixpoint num_atoms (na : nat) (l : list datom) : list vatom :=
  match l with
  | [] => []
  | d :: r => {| va_name := da_name d; va_elem := da_elem d; va_index := na; va_serial := da_serial d |} :: num_atoms (S na) r
  end.
Fixpoint num_res (nr na : nat) (l : list dres) : list vres :=
  match l with
  | [] => []
  | d :: r => {| vr_name := dr_name d; vr_index := nr; vr_resSeq := dres_seq nr d; vr_seg := dr_seg d;
                 vr_atoms := num_atoms na (dr_atoms d) |} :: num_res (S nr) (na + length (dr_atoms d)) r
  end.
Fixpoint num_chains (nc nr na : nat) (l : list dchain) : list vchain :=
  match l with
  | [] => []
  | d :: r => {| vc_index := nc; vc_id := dc_id d; vc_res := num_res nr na (dc_res d) |}
                :: num_chains (S nc) (nr + length (dc_res d)) (na + natoms_res (dc_res d)) r
  end.

Lemma lay_atoms_num n r na l : map (fun x => vatom_of (snd x)) (lay_atoms n r na l) = num_atoms na l.
Proof. revert n na; induction l as [|d l IH]; intros n na; [reflexivity|]. simpl. rewrite IH. reflexivity. Qed.
Lemma lay_res_num n c nr na l : map (fun x => vres_of (snd x)) (lay_res n c nr na l) = num_res nr na l.
Proof.
  revert n nr na; induction l as [|d l IH]; intros n nr na; [reflexivity|].
  simpl. rewrite IH. f_equal. unfold vres_of; simpl. rewrite lay_atoms_num. reflexivity.
Qed.
Lemma lay_chains_num n nc nr na l : map (fun x => vchain_of (snd x)) (lay_chains n nc nr na l) = num_chains nc nr na l.
Proof.
  revert n nc nr na; induction l as [|d l IH]; intros n nc nr na; [reflexivity|].
  simpl. rewrite IH. f_equal. unfold vchain_of; simpl. rewrite map_map, lay_res_num. reflexivity.
Qed.

(* ------------------------------------------------------------------ the description subset builds from *)
Definition keep_la (keep : list nat) (x : loc * atom) : bool := existsb (Nat.eqb (a_index (snd x))) keep.

Lemma filter_keep_map keep A :
  map (fun x => vatom_of (snd x)) (filter (keep_la keep) A) = filter (keepb keep) (map (fun x => vatom_of (snd x)) A).
Proof.
  induction A as [|x A IH]; [reflexivity|]. simpl. unfold keep_la at 1, keepb at 1. simpl.
  destruct (existsb (Nat.eqb (a_index (snd x))) keep); simpl; rewrite IH; reflexivity.
Qed.

Lemma num_atoms_renum na A :
  num_atoms na (map desc_atom A) = renum_atoms na (map (fun x => vatom_of (snd x)) A).
Proof. revert na; induction A as [|x A IH]; intros na; [reflexivity|]. simpl. rewrite IH. reflexivity. Qed.

Definition sres (keep : list nat) (ra : resid * list (loc * atom)) := subset_res flags_fix keep ra.

Lemma num_res_subset keep nr na rs :
  num_res nr na (map fst (somes (map (sres keep) rs))) = renum_res nr na (somes (map (sub_res keep) (map vres_of rs))).
Proof.
  revert nr na; induction rs as [|[r A] rs IH]; intros nr na; [reflexivity|].
  simpl. unfold sres at 1, subset_res. simpl. unfold sub_res at 1. simpl.
  fold (keep_la keep). rewrite <- filter_keep_map.
  destruct (filter (keep_la keep) A) as [|x A'] eqn:E; simpl; [apply IH|].
  rewrite !map_length. rewrite IH. f_equal. unfold dres_seq; simpl. f_equal.
  change (desc_atom x :: map desc_atom A') with (map desc_atom (x :: A')). rewrite num_atoms_renum. reflexivity.
Qed.

Lemma natoms_res_subset keep rs :
  natoms_res (map fst (somes (map (sres keep) rs))) = natoms_vres (somes (map (sub_res keep) (map vres_of rs))).
Proof.
  unfold natoms_res, natoms_vres. induction rs as [|[r A] rs IH]; [reflexivity|].
  simpl. unfold sres at 1, subset_res. simpl. unfold sub_res at 1. simpl.
  fold (keep_la keep). rewrite <- filter_keep_map.
  destruct (filter (keep_la keep) A) as [|x A'] eqn:E; simpl; [apply IH|]. rewrite !map_length, IH. reflexivity.
Qed.

Lemma somes_map_length {A B} (f : A -> B) (l : list (option A)) : length (map f (somes l)) = length (somes l).
Proof. apply map_length. Qed.

Definition sdesc (keep : list nat) (w : list (chain * list (resid * list (loc * atom)))) : list dchain :=
  fst (subset_desc flags_fix keep w).
Definition solds (keep : list nat) (w : list (chain * list (resid * list (loc * atom)))) : list loc :=
  snd (subset_desc flags_fix keep w).

Lemma sdesc_eq keep w :
  sdesc keep w = map (fun cr => {| dc_id := c_id (fst cr); dc_res := map fst (somes (map (sres keep) (snd cr))) |}) w.
Proof. unfold sdesc, subset_desc. simpl. rewrite map_map. reflexivity. Qed.

Lemma num_chains_subset keep nc nr na w :
  num_chains nc nr na (sdesc keep w) = renum_chains nc nr na (map (sub_chain keep) (map vchain_of w)).
Proof.
  rewrite sdesc_eq. revert nc nr na; induction w as [|[c rs] w IH]; intros nc nr na; [reflexivity|].
  simpl. rewrite natoms_res_subset, IH. rewrite !map_length.
  assert (L : length (somes (map (sres keep) rs)) = length (somes (map (sub_res keep) (map vres_of rs)))).
  { clear. induction rs as [|[r A] rs IH]; [reflexivity|]. simpl. unfold sres at 1, subset_res. unfold sub_res at 1. simpl.
    fold (keep_la keep). rewrite <- filter_keep_map.
    destruct (filter (keep_la keep) A); simpl; [exact IH | f_equal; exact IH]. }
  rewrite L. f_equal. f_equal. apply num_res_subset.
Qed.

(* ------------------------------------------------------------------ dropping empty chains and re-indexing *)
Definition vres_idx (r : vres) (i : nat) : vres :=
  {| vr_name := vr_name r; vr_index := i; vr_resSeq := vr_resSeq r; vr_seg := vr_seg r; vr_atoms := vr_atoms r |}.
Fixpoint reidx_res (nr : nat) (l : list vres) : list vres :=
  match l with [] => [] | r :: rest => vres_idx r nr :: reidx_res (S nr) rest end.
Fixpoint reidx (nc nr : nat) (l : list vchain) : list vchain :=
  match l with
  | [] => []
  | c :: rest => {| vc_index := nc; vc_id := vc_id c; vc_res := reidx_res nr (vc_res c) |}
                   :: reidx (S nc) (nr + length (vc_res c)) rest
  end.

Lemma reidx_res_renum nr nr' na l : reidx_res nr (renum_res nr' na l) = renum_res nr na l.
Proof. revert nr nr' na; induction l as [|r l IH]; intros nr nr' na; [reflexivity|]. simpl. rewrite IH. reflexivity. Qed.

Lemma reidx_filter_renum nc nr nc' nr' na X :
  reidx nc nr (filter has_res (renum_chains nc' nr' na X)) = renum_chains nc nr na (filter has_res X).
Proof.
  revert nc nr nc' nr' na; induction X as [|c X IH]; intros nc nr nc' nr' na; [reflexivity|].
  simpl.
  assert (H1 : has_res {| vc_index := nc'; vc_id := vc_id c; vc_res := renum_res nr' na (vc_res c) |} = has_res c)
    by (unfold has_res; simpl; rewrite renum_res_length; reflexivity).
  rewrite H1. destruct (has_res c) eqn:Hh.
  - simpl. rewrite renum_res_length, IH. f_equal. rewrite reidx_res_renum. reflexivity.
  - assert (E : vc_res c = []) by (unfold has_res in Hh; destruct (vc_res c); [reflexivity | discriminate]).
    rewrite E. unfold natoms_vres; simpl. rewrite !Nat.add_0_r. apply IH.
Qed.

(* ------------------------------------------------------------------ the clean-up passes on the heap *)
Definition heq (h h' : heap) : Prop :=
  h_next h' = h_next h /\ forall l, get_a h' l = get_a h l /\ get_r h' l = get_r h l /\ get_c h' l = get_c h l.

Lemma heq_refl h : heq h h. Proof. split; auto. Qed.
Lemma heq_trans a b c : heq a b -> heq b c -> heq a c.
Proof.
  intros [N1 H1] [N2 H2]. split; [congruence|]. intros l. destruct (H1 l) as [A [B C]]. destruct (H2 l) as [A' [B' C']].
  repeat split; congruence.
Qed.

Lemma nonempty_res_heq h h' r : heq h h' -> nonempty_res h' r = nonempty_res h r.
Proof. intros [_ H]. unfold nonempty_res. destruct (H r) as [_ [R _]]. rewrite R. reflexivity. Qed.

Lemma filter_all_true {A} (p : A -> bool) l : (forall x, In x l -> p x = true) -> filter p l = l.
Proof.
  induction l as [|x l IH]; intros H; [reflexivity|]. simpl. rewrite (H x (or_introl eq_refl)). f_equal.
  apply IH. intros; apply H; right; auto.
Qed.

(* "chain._residues = [r for r in chain._residues if len(r._atoms) > 0]" changes nothing when no
   residue is empty *)
Lemma prune_id cs : forall h0 h h',
  heq h0 h ->
  (forall c ch, In c cs -> get_c h0 c = Some ch -> forall r, In r (c_res ch) -> nonempty_res h0 r = true) ->
  prune_chain_residues h cs = Some h' -> heq h0 h'.
Proof.
  induction cs as [|c cs IH]; intros h0 h h' Heq Hne Hp.
  - inversion Hp; subst. exact Heq.
  - simpl in Hp. inv_bind Hp. rename x into ch. rename E into Gc.
    destruct Heq as [N Hl]. assert (Gc0 : get_c h0 c = Some ch) by (destruct (Hl c) as [_ [_ C]]; congruence).
    assert (F : filter (nonempty_res h) (c_res ch) = c_res ch).
    { apply filter_all_true. intros r Hr. rewrite (nonempty_res_heq h0 h) by (split; auto).
      eapply Hne; [left; reflexivity | exact Gc0 | exact Hr]. }
    rewrite F in Hp. eapply IH; [| |exact Hp].
    + split; [heap_simpl; exact N|]. intros l. heap_simpl. destruct (Hl l) as [A [B C]].
      split; [exact A|]. split; [exact B|].
      destruct (Nat.eqb c l) eqn:El; [|exact C]. apply Nat.eqb_eq in El; subst l.
      rewrite Gc0. destruct ch; reflexivity.
    + intros c' ch' Hin. apply Hne. right. exact Hin.
Qed.

Lemma reindex_chains_spec cs : forall h i h',
  NoDup cs -> reindex_chains h cs i = Some h' ->
  h_next h' = h_next h /\ (forall l, get_a h' l = get_a h l /\ get_r h' l = get_r h l) /\
  (forall l, ~ In l cs -> get_c h' l = get_c h l) /\
  (forall p c, nth_error cs p = Some c ->
     exists ch, get_c h c = Some ch /\ get_c h' c = Some {| c_index := i + p; c_id := c_id ch; c_res := c_res ch |}).
Proof.
  induction cs as [|c cs IH]; intros h i h' Hnd H.
  - inversion H; subst. split; [reflexivity|]. split; [auto|]. split; [auto|]. intros p c Hn. destruct p; discriminate.
  - simpl in H. inv_bind H. rename x into ch. inversion Hnd as [|? ? Hni Hnd']; subst.
    destruct (IH _ _ _ Hnd' H) as [N [AR [Fr Sp]]]. heap_simpl.
    split; [exact N|]. split; [intros l; destruct (AR l) as [A R]; heap_simpl; auto|].
    split.
    + intros l Hl. rewrite Fr by (intros Hin; apply Hl; right; exact Hin). heap_simpl.
      rewrite (eqb_false_ne c l) by (intros ->; apply Hl; left; reflexivity). reflexivity.
    + intros p c' Hn. destruct p as [|p]; simpl in Hn.
      * inversion Hn; subst c'. exists ch. split; [exact E|]. rewrite Fr by exact Hni. heap_simpl.
        rewrite Nat.eqb_refl, Nat.add_0_r. reflexivity.
      * destruct (Sp p c' Hn) as [ch' [G1 G2]]. heap_simpl.
        assert (c <> c') by (intros ->; apply Hni; eapply nth_error_In; eauto).
        rewrite (eqb_false_ne c c') in G1 by auto. exists ch'. split; [exact G1|].
        rewrite G2. replace (S i + p) with (i + S p) by lia. reflexivity.
Qed.

Definition resid_idx (r : resid) (i : nat) : resid :=
  {| r_name := r_name r; r_index := i; r_chain := r_chain r; r_resSeq := r_resSeq r; r_seg := r_seg r; r_atoms := r_atoms r |}.

Lemma reindex_residues_spec rs : forall h i h',
  NoDup rs -> reindex_residues h rs i = Some h' ->
  h_next h' = h_next h /\ (forall l, get_a h' l = get_a h l /\ get_c h' l = get_c h l) /\
  (forall l, ~ In l rs -> get_r h' l = get_r h l) /\
  (forall p r, nth_error rs p = Some r -> exists rr, get_r h r = Some rr /\ get_r h' r = Some (resid_idx rr (i + p))).
Proof.
  induction rs as [|r rs IH]; intros h i h' Hnd H.
  - inversion H; subst. split; [reflexivity|]. split; [auto|]. split; [auto|]. intros p c Hn. destruct p; discriminate.
  - simpl in H. inv_bind H. rename x into rr. inversion Hnd as [|? ? Hni Hnd']; subst.
    destruct (IH _ _ _ Hnd' H) as [N [AC [Fr Sp]]]. heap_simpl.
    split; [exact N|]. split; [intros l; destruct (AC l) as [A C]; heap_simpl; auto|].
    split.
    + intros l Hl. rewrite Fr by (intros Hin; apply Hl; right; exact Hin). heap_simpl.
      rewrite (eqb_false_ne r l) by (intros ->; apply Hl; left; reflexivity). reflexivity.
    + intros p r' Hn. destruct p as [|p]; simpl in Hn.
      * inversion Hn; subst r'. exists rr. split; [exact E|]. rewrite Fr by exact Hni. heap_simpl.
        rewrite Nat.eqb_refl, Nat.add_0_r. reflexivity.
      * destruct (Sp p r' Hn) as [rr' [G1 G2]]. heap_simpl.
        assert (r <> r') by (intros ->; apply Hni; eapply nth_error_In; eauto).
        rewrite (eqb_false_ne r r') in G1 by auto. exists rr'. split; [exact G1|].
        rewrite G2. replace (S i + p) with (i + S p) by lia. reflexivity.
Qed.

(* chain and residue locations of a layout are strictly increasing *)
Lemma sorted_in_cons a b x l : a <= x -> x < b -> sorted_in (S x) b l -> sorted_in a b (x :: l).
Proof.
  intros H1 H2 [S W]. split.
  - constructor; [exact S|]. eapply Forall_impl; [|exact W]. simpl. intros; lia.
  - constructor; [lia|]. eapply within_weaken; [| |exact W]; lia.
Qed.

Lemma lay_res_locs_sorted n c nr na l : sorted_in n (n + size_res l) (map fst (lay_res n c nr na l)).
Proof.
  revert n nr na; induction l as [|d l IH]; intros n nr na; [split; constructor|].
  simpl. rewrite size_res_cons. apply sorted_in_cons; [lia | lia |].
  eapply sorted_in_weaken; [| |apply IH]; lia.
Qed.

Lemma lay_chain_res_sorted n nc nr na l :
  sorted_in n (n + list_sum (map chain_size l)) (lay_chain_res (lay_chains n nc nr na l)).
Proof.
  revert n nc nr na; induction l as [|d l IH]; intros n nc nr na; [split; constructor|].
  unfold lay_chain_res in *. simpl.
  apply sorted_in_app with (b := n + chain_size d); [lia | unfold chain_size; lia | |].
  - eapply sorted_in_weaken; [| |apply lay_res_locs_sorted]; unfold chain_size; lia.
  - eapply sorted_in_weaken; [| |apply IH]; unfold chain_size; lia.
Qed.

Lemma lay_chains_locs_sorted n nc nr na l :
  sorted_in n (n + list_sum (map chain_size l)) (map fst (lay_chains n nc nr na l)).
Proof.
  revert n nc nr na; induction l as [|d l IH]; intros n nc nr na; [split; constructor|].
  simpl. apply sorted_in_cons; [lia | unfold chain_size; lia |].
  eapply sorted_in_weaken; [| |apply IH]; unfold chain_size; lia.
Qed.

(* ------------------------------------------------------------------ positions in an increasing list *)
Lemma pos_of_none i K s : ~ In i K -> pos_of i K s = None.
Proof.
  revert s; induction K as [|x K IH]; intros s H; [reflexivity|].
  simpl. rewrite (eqb_false_ne x i) by (intros ->; apply H; left; reflexivity). apply IH. intros Hin; apply H; right; exact Hin.
Qed.

Lemma pos_of_shift i K s p : pos_of i K s = Some p -> s <= p /\ nth_error K (p - s) = Some i.
Proof.
  revert s; induction K as [|x K IH]; intros s H; [discriminate|].
  simpl in H. destruct (Nat.eqb x i) eqn:E.
  - apply Nat.eqb_eq in E; subst x. inversion H; subst. split; [lia|]. rewrite Nat.sub_diag. reflexivity.
  - apply IH in H. destruct H as [H1 H2]. split; [lia|]. replace (p - s) with (S (p - S s)) by lia. exact H2.
Qed.

Lemma pos_of_nth K : NoDup K -> forall p i s, nth_error K p = Some i -> pos_of i K s = Some (s + p).
Proof.
  induction K as [|x K IH]; intros Hnd p i s H; [destruct p; discriminate|].
  inversion Hnd as [|? ? Hni Hnd']; subst. destruct p as [|p]; simpl in *.
  - inversion H; subst. rewrite Nat.eqb_refl. f_equal. lia.
  - rewrite (eqb_false_ne x i) by (intros ->; apply Hni; eapply nth_error_In; eauto).
    rewrite (IH Hnd' p i (S s) H). f_equal. lia.
Qed.

Lemma sorted_nth_mono K : StronglySorted lt K -> forall p q i j, nth_error K p = Some i -> nth_error K q = Some j -> p < q -> i < j.
Proof.
  induction 1 as [|x K S IH F]; intros p q i j Hp Hq Hlt; [destruct p; discriminate|].
  destruct q as [|q]; [lia|]. simpl in Hq. destruct p as [|p]; simpl in Hp.
  - inversion Hp; subst. rewrite Forall_forall in F. apply F. eapply nth_error_In; eauto.
  - eapply IH; eauto. lia.
Qed.

Lemma pos_of_mono K i j p q :
  StronglySorted lt K -> pos_of i K 0 = Some p -> pos_of j K 0 = Some q -> (i <= j -> p <= q) /\ (p = q -> i = j).
Proof.
  intros S Hp Hq. apply pos_of_shift in Hp. apply pos_of_shift in Hq. destruct Hp as [_ Hp]. destruct Hq as [_ Hq].
  rewrite Nat.sub_0_r in Hp, Hq. split.
  - intros Hle. destruct (Nat.le_gt_cases p q) as [|Hgt]; [assumption|].
    pose proof (sorted_nth_mono K S q p j i Hq Hp Hgt). lia.
  - intros ->. congruence.
Qed.

(* ------------------------------------------------------------------ bonds through a partial atom map *)
Lemma add_bonds_mapped_skip h1 m (nidx : loc -> option nat) (D : list loc) :
  (forall k p, In k D -> nidx k = Some p ->
               exists x ax, dict_get h1 m k None = Some x /\ get_a h1 x = Some ax /\ a_index ax = p) ->
  (forall k, In k D -> nidx k = None -> dict_get h1 m k None = None) ->
  forall bs t1 t2,
    (forall b, In b bs -> In (b_a1 b) D /\ In (b_a2 b) D) ->
    (forall b p q, In b bs -> nidx (b_a1 b) = Some p -> nidx (b_a2 b) = Some q -> p <= q /\ (p = q -> b_a1 b = b_a2 b)) ->
    forall sk, add_bonds_mapped h1 t1 m bs sk = Some t2 ->
    same_but_bonds t1 t2 /\
    exists nb, t_bonds t2 = t_bonds t1 ++ nb /\
               mapM (abs_bond h1) nb =
               Some (somes (map (fun b => match nidx (b_a1 b), nidx (b_a2 b) with
                                          | Some p, Some q => Some {| vb_i := p; vb_j := q; vb_type := b_type b; vb_order := b_order b |}
                                          | _, _ => None
                                          end) bs)) /\
               (forall b', In b' nb -> In (b_a1 b') (map snd m) /\ In (b_a2 b') (map snd m) /\ bond_oriented h1 b').
Proof.
  intros Hsome Hnone. induction bs as [|b bs IH]; intros t1 t2 HD Hor sk Hadd.
  - simpl in Hadd. inversion Hadd; subst. split; [repeat split|]. exists []. rewrite app_nil_r.
    split; [reflexivity|]. split; [reflexivity|]. intros ? [].
  - destruct (HD b (or_introl eq_refl)) as [D1 D2].
    assert (HD' : forall b0, In b0 bs -> In (b_a1 b0) D /\ In (b_a2 b0) D) by (intros; apply HD; right; auto).
    assert (Hor' : forall b0 p q, In b0 bs -> nidx (b_a1 b0) = Some p -> nidx (b_a2 b0) = Some q -> p <= q /\ (p = q -> b_a1 b0 = b_a2 b0))
      by (intros; eapply Hor; eauto; right; auto).
    simpl in Hadd. simpl.
    destruct (nidx (b_a1 b)) as [p|] eqn:N1; [destruct (nidx (b_a2 b)) as [q|] eqn:N2|].
    + destruct (Hsome _ _ D1 N1) as [x [ax [Dx [Gx Ix]]]]. destruct (Hsome _ _ D2 N2) as [y [ay [Dy [Gy Iy]]]].
      destruct (Hor b p q (or_introl eq_refl) N1 N2) as [Hle Heq].
      rewrite Dx, Dy in Hadd. inv_bind Hadd.
      unfold add_bond in E. destruct (negb (order_ok (b_order b))); [discriminate|].
      rewrite Gx, Gy in E. simpl in E. inversion E; subst x0; clear E.
      match type of Hadd with add_bonds_mapped _ ?T _ _ _ = _ => set (t1' := T) in * end.
      destruct (IH t1' t2 HD' Hor' sk Hadd) as [[S1 [S2 [S3 [S4 S5]]]] [nb [Hnb [Habs Hends]]]].
      split; [repeat split; assumption|].
      set (nb0 := if a_index ax <? a_index ay
                  then {| b_a1 := x; b_a2 := y; b_type := b_type b; b_order := b_order b |}
                  else {| b_a1 := y; b_a2 := x; b_type := b_type b; b_order := b_order b |}) in *.
      exists (nb0 :: nb). split; [rewrite Hnb; subst t1'; simpl; rewrite <- app_assoc; reflexivity|].
      assert (Hx : In x (map snd m)) by (eapply dict_get_value; eauto).
      assert (Hy : In y (map snd m)) by (eapply dict_get_value; eauto).
      assert (Hab : abs_bond h1 nb0 = Some {| vb_i := p; vb_j := q; vb_type := b_type b; vb_order := b_order b |} /\
                    In (b_a1 nb0) (map snd m) /\ In (b_a2 nb0) (map snd m) /\ bond_oriented h1 nb0).
      { subst nb0. destruct (a_index ax <? a_index ay) eqn:Hlt.
        - split; [unfold abs_bond; simpl; rewrite Gx, Gy; simpl; rewrite Ix, Iy; reflexivity|].
          split; [exact Hx|]. split; [exact Hy|]. exists ax, ay. simpl. apply Nat.ltb_lt in Hlt. repeat split; auto. lia.
        - apply Nat.ltb_ge in Hlt. assert (Hpq : p = q) by lia. specialize (Heq Hpq).
          assert (x = y) by (rewrite Heq in Dx; congruence). subst y. assert (ay = ax) by congruence. subst ay.
          split; [unfold abs_bond; simpl; rewrite Gx; simpl; rewrite Ix; rewrite <- Hpq; reflexivity|].
          split; [exact Hx|]. split; [exact Hx|]. exists ax, ax. simpl. repeat split; auto. }
      destruct Hab as [Hab1 Hab2]. split.
      * simpl. rewrite Hab1, Habs. reflexivity.
      * intros b' [<-|Hin]; [exact Hab2 | apply Hends; exact Hin].
    + rewrite (Hnone _ D2 N2) in Hadd.
      assert (Hadd' : add_bonds_mapped h1 t1 m bs sk = Some t2)
        by (destruct (dict_get h1 m (b_a1 b) None); destruct sk; try discriminate; exact Hadd).
      apply (IH t1 t2 HD' Hor' sk Hadd').
    + rewrite (Hnone _ D1 N1) in Hadd. destruct sk; [|discriminate]. apply (IH t1 t2 HD' Hor' true Hadd).
Qed.

(* ------------------------------------------------------------------ facts about the subset description *)
Lemma sres_nonempty keep ra d ls : sres keep ra = Some (d, ls) -> dr_atoms d <> [] /\ ls = map fst (filter (keep_la keep) (snd ra)).
Proof.
  unfold sres, subset_res. fold (keep_la keep). destruct (filter (keep_la keep) (snd ra)) eqn:E; intros H; inversion H; subst.
  simpl. split; [discriminate | reflexivity].
Qed.

Lemma sdesc_nonempty keep w d r : In d (sdesc keep w) -> In r (dc_res d) -> dr_atoms r <> [].
Proof.
  rewrite sdesc_eq. intros Hd Hr. apply in_map_iff in Hd. destruct Hd as [[c rs] [<- _]]. simpl in Hr.
  apply in_map_iff in Hr. destruct Hr as [[d0 ls] [<- Hin]]. simpl.
  assert (exists ra, sres keep ra = Some (d0, ls)) as [ra Hra].
  { clear - Hin. induction rs as [|x rs IH]; [destruct Hin|]. simpl in Hin. destruct (sres keep x) eqn:E.
    - destruct Hin as [<-|Hin]; [eauto | auto].
    - auto. }
  apply sres_nonempty in Hra. tauto.
Qed.

Lemma solds_eq keep w : solds keep w = map fst (filter (keep_la keep) (walk_atoms w)).
Proof.
  unfold solds, subset_desc, walk_atoms. simpl. rewrite map_map. simpl.
  induction w as [|[c rs] w IH]; [reflexivity|].
  simpl. rewrite filter_app, map_app, IH. f_equal. clear IH.
  induction rs as [|ra rs IH]; [reflexivity|].
  simpl. rewrite filter_app, map_app. fold (sres keep ra). destruct (sres keep ra) as [[d ls]|] eqn:E.
  - simpl. apply sres_nonempty in E. destruct E as [_ ->]. f_equal. exact IH.
  - unfold sres, subset_res in E. fold (keep_la keep) in E. destruct (filter (keep_la keep) (snd ra)); [simpl; exact IH | discriminate].
Qed.

Lemma natoms_desc_sdesc keep w : natoms_desc (sdesc keep w) = length (solds keep w).
Proof.
  rewrite solds_eq, sdesc_eq. unfold natoms_desc, walk_atoms. rewrite map_length, map_map. simpl.
  induction w as [|[c rs] w IH]; [reflexivity|].
  simpl. rewrite filter_app, app_length, IH. f_equal. clear IH.
  unfold natoms_res. induction rs as [|ra rs IH]; [reflexivity|].
  simpl. rewrite filter_app, app_length. destruct (sres keep ra) as [[d ls]|] eqn:E.
  - simpl. rewrite IH. f_equal. unfold sres, subset_res in E. fold (keep_la keep) in E.
    destruct (filter (keep_la keep) (snd ra)) eqn:F; [discriminate|]. inversion E; subst. simpl. rewrite map_length. reflexivity.
  - unfold sres, subset_res in E. fold (keep_la keep) in E. destruct (filter (keep_la keep) (snd ra)); [simpl; exact IH | discriminate].
Qed.

Lemma lay_res_nonempty n c nr na l x rr A :
  (forall d, In d l -> dr_atoms d <> []) -> In (x, (rr, A)) (lay_res n c nr na l) -> r_atoms rr <> [] /\ r_atoms rr = map fst A.
Proof.
  revert n nr na; induction l as [|d l IH]; intros n nr na Hne Hin; [destruct Hin|].
  simpl in Hin. destruct Hin as [Heq|Hin].
  - inversion Heq; subst. simpl. split; [|reflexivity]. rewrite lay_atoms_fst.
    specialize (Hne d (or_introl eq_refl)). destruct (dr_atoms d); [contradiction | simpl; discriminate].
  - eapply IH; [|exact Hin]. intros; apply Hne; right; auto.
Qed.

Lemma StronglySorted_filter {A} (R : A -> A -> Prop) p l : StronglySorted R l -> StronglySorted R (filter p l).
Proof.
  induction 1 as [|x l S IH F]; [constructor|]. simpl. destruct (p x); [|exact IH].
  constructor; [exact IH|]. rewrite Forall_forall in *. intros y Hy. apply filter_In in Hy. apply F. tauto.
Qed.

Lemma map_filter_comm {A B} (f : A -> B) (g : B -> bool) l : map f (filter (fun x => g (f x)) l) = filter g (map f l).
Proof. induction l as [|x l IH]; [reflexivity|]. simpl. destruct (g (f x)); simpl; rewrite IH; reflexivity. Qed.

Lemma sorted_seq n k : StronglySorted lt (seq n k).
Proof. destruct (sorted_in_seq n k) as [S _]. exact S. Qed.

(* ------------------------------------------------------------------ helpers for the refinement proof *)
Lemma idx_is_pos {A} (f : A -> nat) (W : list A) x :
  map f W = seq 0 (length W) -> In x W -> nth_error W (f x) = Some x.
Proof.
  intros Hm Hin. apply In_nth_error in Hin. destruct Hin as [p Hp].
  pose proof (nth_error_seq_idx f W 0 p x Hm Hp) as E. simpl in E. rewrite E. exact Hp.
Qed.

Lemma idx_inj {A} (f : A -> nat) (W : list A) x y :
  map f W = seq 0 (length W) -> In x W -> In y W -> f x = f y -> x = y.
Proof.
  intros Hm Hx Hy E. pose proof (idx_is_pos f W x Hm Hx) as Px. pose proof (idx_is_pos f W y Hm Hy) as Py.
  rewrite E in Px. congruence.
Qed.

Lemma pos_of_in i K s : In i K -> exists p, pos_of i K s = Some p.
Proof.
  revert s; induction K as [|x K IH]; intros s H; [destruct H|].
  simpl. destruct (Nat.eqb x i) eqn:E; [eauto|]. destruct H as [->|H]; [rewrite Nat.eqb_refl in E; discriminate|]. apply IH; exact H.
Qed.

Lemma NoDup_map_filter {A B} (f : A -> B) p l : NoDup (map f l) -> NoDup (map f (filter p l)).
Proof.
  induction l as [|x l IH]; intros H; [constructor|]. simpl in *. inversion H as [|? ? Hni Hnd]; subst.
  destruct (p x); [|apply IH; exact Hnd]. simpl. constructor; [|apply IH; exact Hnd].
  intros Hin. apply Hni. apply in_map_iff in Hin. destruct Hin as [y [Hy Hin]]. apply filter_In in Hin.
  apply in_map_iff. exists y. tauto.
Qed.

Lemma mapM_pairs_inv {A B} (f : A -> option B) (R : list (A * B)) :
  mapM f (map fst R) = Some (map snd R) -> forall x y, In (x, y) R -> f x = Some y.
Proof.
  induction R as [|[a b] R IH]; intros H x y Hin; [destruct Hin|].
  simpl in H. destruct (f a) as [b'|] eqn:Ea; [|discriminate]. destruct (mapM f (map fst R)) as [br|] eqn:Er; [|discriminate].
  inversion H; subst. destruct Hin as [Heq|Hin]; [inversion Heq; subst; exact Ea | apply IH; [reflexivity | exact Hin]].
Qed.

Lemma filter_map_fst {A B} (p : A -> bool) (L : list (A * B)) :
  filter p (map fst L) = map fst (filter (fun e => p (fst e)) L).
Proof. induction L as [|e L IH]; [reflexivity|]. simpl. destruct (p (fst e)); simpl; rewrite IH; reflexivity. Qed.

Lemma filter_ext_in' {A} (p q : A -> bool) l : (forall x, In x l -> p x = q x) -> filter p l = filter q l.
Proof.
  induction l as [|x l IH]; intros H; [reflexivity|]. simpl. rewrite (H x (or_introl eq_refl)).
  rewrite IH; [reflexivity|]. intros; apply H; right; auto.
Qed.

Lemma concat_filter_nonnil {A B} (f : A -> list B) (l : list A) :
  concat (map f (filter (fun x => negb (Nat.eqb (length (f x)) 0)) l)) = concat (map f l).
Proof.
  induction l as [|x l IH]; [reflexivity|]. simpl. destruct (f x) eqn:E; simpl; [exact IH|]. rewrite E. simpl. rewrite IH. reflexivity.
Qed.

(* residues of a list of chains, read through abs *)
Lemma abs_chainwise_res h cs V :
  mapM (abs_chain h) cs = Some V -> mapM (abs_res h) (chainwise_residues h cs) = Some (concat (map vc_res V)).
Proof.
  revert V; induction cs as [|c cs IH]; intros V H.
  - inversion H; subst. reflexivity.
  - apply mapM_cons_some in H. destruct H as [vc [Vr [Hc [Hl ->]]]].
    unfold abs_chain in Hc. inv_bind Hc. inv_bind Hc. inversion Hc; subst vc; clear Hc.
    unfold chainwise_residues. simpl. rewrite E. apply mapM_app; [exact E0 | apply IH; exact Hl].
Qed.

Lemma renum_res_vidx nr na l : map vr_index (renum_res nr na l) = seq nr (length l).
Proof. revert nr na; induction l as [|r l IH]; intros nr na; [reflexivity|]. simpl. rewrite IH. reflexivity. Qed.

Lemma renum_chains_res_idx nc nr na X :
  map vr_index (concat (map vc_res (renum_chains nc nr na X))) = seq nr (length (concat (map vc_res X))).
Proof.
  revert nc nr na; induction X as [|c X IH]; intros nc nr na; [reflexivity|].
  simpl. rewrite map_app, app_length, IH, renum_res_vidx, seq_app. reflexivity.
Qed.

Lemma renum_chains_res_length nc nr na X :
  length (concat (map vc_res (renum_chains nc nr na X))) = length (concat (map vc_res X)).
Proof.
  rewrite <- (map_length vr_index), renum_chains_res_idx, seq_length. reflexivity.
Qed.

(* only the chain index is overwritten *)
Definition vchain_idx (c : vchain) (i : nat) : vchain := {| vc_index := i; vc_id := vc_id c; vc_res := vc_res c |}.
Fixpoint reidx_c (nc : nat) (l : list vchain) : list vchain :=
  match l with [] => [] | c :: r => vchain_idx c nc :: reidx_c (S nc) r end.

Lemma reidx_c_filter_renum nc nc' nr na X :
  reidx_c nc (filter has_res (renum_chains nc' nr na X)) = renum_chains nc nr na (filter has_res X).
Proof.
  revert nc nc' nr na; induction X as [|c X IH]; intros nc nc' nr na; [reflexivity|].
  simpl.
  assert (H1 : has_res {| vc_index := nc'; vc_id := vc_id c; vc_res := renum_res nr na (vc_res c) |} = has_res c)
    by (unfold has_res; simpl; rewrite renum_res_length; reflexivity).
  rewrite H1. destruct (has_res c) eqn:Hh.
  - simpl. rewrite IH. reflexivity.
  - assert (E : vc_res c = []) by (unfold has_res in Hh; destruct (vc_res c); [reflexivity | discriminate]).
    rewrite E. unfold natoms_vres; simpl. rewrite !Nat.add_0_r. apply IH.
Qed.

Lemma abs_chains_reidx h L' : forall nc,
  (forall p x cw, nth_error L' p = Some (x, cw) -> abs_chain h x = Some (vchain_idx (vchain_of cw) (nc + p))) ->
  mapM (abs_chain h) (map fst L') = Some (reidx_c nc (map (fun e => vchain_of (snd e)) L')).
Proof.
  induction L' as [|[x cw] L' IH]; intros nc H; [reflexivity|].
  simpl. rewrite (H 0 x cw eq_refl). rewrite Nat.add_0_r. rewrite (IH (S nc)); [reflexivity|].
  intros p x' cw' Hn. rewrite (H (S p) x' cw' Hn). f_equal. f_equal. lia.
Qed.

Lemma lay_chains_res_nonempty desc : forall n nc nr na x ch rs rr A,
  (forall d, In d desc -> forall r0, In r0 (dc_res d) -> dr_atoms r0 <> []) ->
  In (x, (ch, rs)) (lay_chains n nc nr na desc) -> In (rr, A) rs -> r_atoms rr <> [].
Proof.
  induction desc as [|d l IH]; intros n nc nr na x ch rs rr A Hd Hin HinA; [destruct Hin|].
  simpl in Hin. destruct Hin as [Heq|Hin].
  - inversion Heq; subst x ch rs. clear Heq.
    apply in_map_iff in HinA. destruct HinA as [[r' [rr' A']] [Heq' HinL]]. simpl in Heq'. inversion Heq'; subst rr' A'.
    destruct (lay_res_nonempty _ _ _ _ _ _ _ _ (Hd d (or_introl eq_refl)) HinL) as [Hne _]. exact Hne.
  - eapply IH; [|exact Hin | exact HinA]. intros; eapply Hd; [right; eauto | eauto].
Qed.

(* ------------------------------------------------------------------ the refinement *)
Lemma subset_desc_pair keep w : subset_desc flags_fix keep w = (sdesc keep w, solds keep w).
Proof. unfold sdesc, solds. destruct (subset_desc flags_fix keep w); reflexivity. Qed.

Lemma has_res_vchain_of cw : has_res (vchain_of cw) = negb (Nat.eqb (length (snd cw)) 0).
Proof. unfold has_res, vchain_of; simpl. rewrite map_length. reflexivity. Qed.

(* everything about the new chains/residues/atoms and the clean-up passes; needs nothing of the source
   but a successful walk *)
Lemma add_bonds_mapped_ends h1 m : forall bs t1 t2 sk,
  add_bonds_mapped h1 t1 m bs sk = Some t2 ->
  same_but_bonds t1 t2 /\
  exists nb, t_bonds t2 = t_bonds t1 ++ nb /\
             forall b', In b' nb -> In (b_a1 b') (map snd m) /\ In (b_a2 b') (map snd m) /\ order_ok (b_order b') = true.
Proof.
  induction bs as [|b bs IH]; intros t1 t2 sk H.
  - simpl in H. inversion H; subst. split; [repeat split|]. exists []. rewrite app_nil_r. split; [reflexivity | intros ? []].
  - simpl in H. destruct (dict_get h1 m (b_a1 b) None) as [x|] eqn:Dx; [destruct (dict_get h1 m (b_a2 b) None) as [y|] eqn:Dy|].
    + inv_bind H. unfold add_bond in E. destruct (order_ok (b_order b)) eqn:Eo; [|discriminate]. simpl in E.
      inv_bind E. inv_bind E. inversion E; subst x0; clear E.
      match type of H with add_bonds_mapped _ ?T _ _ _ = _ => set (t1' := T) in * end.
      destruct (IH t1' t2 sk H) as [[S1 [S2 [S3 [S4 S5]]]] [nb [Hnb Hends]]].
      split; [repeat split; assumption|].
      eexists (_ :: nb). split; [rewrite Hnb; subst t1'; simpl; rewrite <- app_assoc; reflexivity|].
      apply dict_get_value in Dx. apply dict_get_value in Dy.
      intros b' [<-|Hin]; [|apply Hends; exact Hin]. destruct (a_index x1 <? a_index x2); simpl; auto.
    + destruct sk; [|discriminate]. apply (IH t1 t2 true H).
    + destruct sk; [|discriminate]. apply (IH t1 t2 true H).
Qed.

Lemma subset_any_struct h t w keep h' t' :
  hwf h -> walk h t = Some w ->
  subset flags_fix h t keep = Some (h', t') ->
  let L := lay_chains (h_next h) 0 0 0 (sdesc keep w) in
  let news := map fst (lay_chain_atoms L) in
  hwf h' /\ agree (h_next h) h h' /\ h_next h <= h_next h' /\
  mapM (abs_chain h') (t_chains t') = Some (subset_chains keep (map vchain_of w)) /\
  NoDup (t_chains t') /\ (forall l, In l (t_chains t') -> In l (map fst L)) /\
  t_residues t' = lay_chain_res L /\ t_atoms t' = news /\
  chainwise_residues h' (t_chains t') = lay_chain_res L /\
  chainwise_atoms h' (t_chains t') = news /\
  t_numAtoms t' = length (t_atoms t') /\ t_numRes t' = length (t_residues t') /\ back_ok h' t' /\
  (forall b', In b' (t_bonds t') -> In (b_a1 b') news /\ In (b_a2 b') news /\ order_ok (b_order b') = true) /\
  exists h1 t1 t2,
    build_chains h empty_topo (sdesc keep w) = Some (h1, t1, news) /\
    add_bonds_mapped h1 t1 (combine (solds keep w) news) (t_bonds t) true = Some t2 /\
    t_bonds t' = t_bonds t2 /\ (forall l, get_a h' l = get_a h1 l).
Proof.
  intros Hw Hwalk Hsub L news.
  unfold subset in Hsub. rewrite Hwalk in Hsub. cbn [obind] in Hsub. rewrite subset_desc_pair in Hsub.
  inv_bind Hsub. destruct x as [[h1 t1] news']. rename E into Hbuild.
  inv_bind Hsub. rename x into t2. rename E into Hadd.
  inv_bind Hsub. rename x into h2. rename E into Hprune.
  inv_bind Hsub. rename x into h3. rename E into Hric.
  inv_bind Hsub. rename x into h4. rename E into Hrir.
  inversion Hsub; subst h' t'; clear Hsub.
  (* the build *)
  pose proof (build_chains_layout _ _ _ _ _ _ Hw Hbuild) as HL. simpl in HL. fold L in HL.
  destruct HL as [Hw1 [Hn1 [Hnews [Ht1 [Hag HLw]]]]].
  fold news in Hnews, Ht1. subst news'.
  set (W := walk_atoms w) in *.
  set (KW := filter (keep_la keep) W).
  set (olds := solds keep w) in *.
  destruct (add_bonds_mapped_ends h1 (combine olds news) (t_bonds t) t1 t2 true Hadd) as [[S1 [S2 [S3 [S4 S5]]]] [nb [Hnb Hnbends]]].
  assert (Ht1b : t_bonds t1 = []) by (rewrite Ht1; reflexivity). rewrite Ht1b in Hnb. simpl in Hnb.
  (* the clean-up passes *)
  assert (Hc2 : t_chains t2 = map fst L) by (rewrite S1, Ht1; reflexivity).
  assert (Hr2 : t_residues t2 = lay_chain_res L) by (rewrite S2, Ht1; reflexivity).
  assert (Ha2 : t_atoms t2 = news) by (rewrite S3, Ht1; reflexivity).
  rewrite Hc2 in *. rewrite Hr2 in *. rewrite Ha2 in *.
  (* every built residue has atoms *)
  assert (HLchain : forall x ch rs, In (x, (ch, rs)) L ->
             get_c h1 x = Some ch /\ mapM (walk_res h1) (c_res ch) = Some rs /\ length rs = length (c_res ch) /\
             forall r, In r (c_res ch) -> nonempty_res h1 r = true).
  { intros x ch rs Hin. pose proof (HLw _ _ Hin) as Hwc. apply walk_chain_inv in Hwc. destruct Hwc as [Gc Hrs].
    split; [exact Gc|]. split; [exact Hrs|]. split; [eapply mapM_length; eauto|].
    intros r Hr. destruct (mapM_in _ _ _ _ Hrs Hr) as [[rr A] [Hwr HinA]]. apply walk_res_inv in Hwr.
    destruct Hwr as [Gr [Hat _]]. unfold nonempty_res. rewrite Gr.
    (* the residue comes from a description with at least one atom *)
    assert (Hne : r_atoms rr <> []).
    { eapply lay_chains_res_nonempty; [|exact Hin | exact HinA]. intros; eapply sdesc_nonempty; eauto. }
    destruct (r_atoms rr); [contradiction | reflexivity]. }
  assert (Hres_id : filter (nonempty_res h1) (lay_chain_res L) = lay_chain_res L).
  { apply filter_all_true. intros r Hr. unfold lay_chain_res in Hr. apply in_concat in Hr. destruct Hr as [rl [Hrl Hr]].
    apply in_map_iff in Hrl. destruct Hrl as [[x [ch rs]] [<- Hin]]. simpl in Hr.
    destruct (HLchain x ch rs Hin) as [_ [_ [_ Hne]]]. apply Hne. exact Hr. }
  assert (Hheq : heq h1 h2).
  { eapply prune_id; [apply heq_refl | | exact Hprune].
    intros c ch Hc Gc r Hr. apply in_map_iff in Hc. destruct Hc as [[x [ch' rs]] [Heq Hin]]. simpl in Heq; subst x.
    destruct (HLchain c ch' rs Hin) as [Gc' [_ [_ Hne]]]. assert (ch' = ch) by congruence. subst ch'. apply Hne. exact Hr. }
  destruct Hheq as [Hn2 Hl2].
  set (q := fun e : loc * (chain * list (resid * list (loc * atom))) => negb (Nat.eqb (length (snd (snd e))) 0)).
  set (L' := filter q L).
  assert (Hchains : filter (nonempty_chain h2) (map fst L) = map fst L').
  { rewrite filter_map_fst. unfold L'. f_equal. apply filter_ext_in'. intros [x [ch rs]] Hin. simpl.
    destruct (HLchain x ch rs Hin) as [Gc [_ [Hlen' _]]]. unfold nonempty_chain. destruct (Hl2 x) as [_ [_ C]]. rewrite C, Gc.
    unfold q; simpl. rewrite Hlen'. reflexivity. }
  rewrite Hchains in *.
  assert (HndL : NoDup (map fst L)) by (eapply sorted_in_nodup; apply lay_chains_locs_sorted).
  assert (HndL' : NoDup (map fst L')) by (unfold L'; apply NoDup_map_filter; exact HndL).
  destruct (reindex_chains_spec _ _ _ _ HndL' Hric) as [Hn3 [AR3 [Fc3 Sp3]]].
  assert (HL'in : forall e, In e L' -> In e L) by (intros e He; unfold L' in He; apply filter_In in He; tauto).
  assert (Hcw3 : chainwise_residues h3 (map fst L') = lay_chain_res L).
  { assert (E : chainwise_residues h3 (map fst L') = lay_chain_res L').
    { unfold chainwise_residues, lay_chain_res. rewrite map_map. f_equal. apply map_ext_in. intros [x [ch rs]] Hin.
      simpl. apply In_nth_error in Hin. destruct Hin as [p Hp].
      assert (Hp' : nth_error (map fst L') p = Some x) by (rewrite nth_error_map, Hp; reflexivity).
      destruct (Sp3 p x Hp') as [ch' [G1 G2]]. rewrite G2. simpl.
      destruct (HLchain x ch rs (HL'in _ (nth_error_In _ _ Hp))) as [Gc _]. destruct (Hl2 x) as [_ [_ C]].
      assert (ch' = ch) by congruence. subst ch'. reflexivity. }
    rewrite E. unfold lay_chain_res, L'.
    assert (Q : forall e, In e L -> q e = negb (Nat.eqb (length (c_res (fst (snd e)))) 0)).
    { intros [x [ch rs]] Hin. destruct (HLchain x ch rs Hin) as [_ [_ [Hlen' _]]]. unfold q; simpl. rewrite Hlen'. reflexivity. }
    rewrite (filter_ext_in' q (fun e => negb (Nat.eqb (length (c_res (fst (snd e)))) 0)) L Q).
    apply (concat_filter_nonnil (fun x : loc * (chain * list (resid * list (loc * atom))) => c_res (fst (snd x)))). }
  rewrite Hcw3 in Hrir.
  assert (HndR : NoDup (lay_chain_res L)) by (eapply sorted_in_nodup; apply lay_chain_res_sorted).
  destruct (reindex_residues_spec _ _ _ _ HndR Hrir) as [Hn4 [AC4 [Fr4 Sp4]]].
  (* residues already carry their position: re-indexing them changes nothing *)
  assert (HV1 : mapM (abs_chain h1) (map fst L) = Some (renum_chains 0 0 0 (map (sub_chain keep) (map vchain_of w)))).
  { rewrite (abs_chains_walk _ _ _ (walk_of_layout _ _ HLw)). rewrite map_map. unfold L. rewrite lay_chains_num, num_chains_subset. reflexivity. }
  assert (Hcw1 : chainwise_residues h1 (map fst L) = lay_chain_res L).
  { destruct (chainwise_of_walk _ _ _ (walk_of_layout _ _ HLw)) as [CR _]. rewrite lay_chain_res_eq in CR. exact CR. }
  assert (Hres1 : mapM (abs_res h1) (lay_chain_res L) =
                  Some (concat (map vc_res (renum_chains 0 0 0 (map (sub_chain keep) (map vchain_of w)))))).
  { rewrite <- Hcw1. apply abs_chainwise_res. exact HV1. }
  assert (Hr41 : forall l, get_r h4 l = get_r h1 l).
  { intros l. destruct (in_dec Nat.eq_dec l (lay_chain_res L)) as [Hin|Hni].
    - apply In_nth_error in Hin. destruct Hin as [p Hp]. destruct (Sp4 p l Hp) as [rr [G3 G4]].
      destruct (AR3 l) as [_ R3]. destruct (Hl2 l) as [_ [R2 _]].
      assert (G1 : get_r h1 l = Some rr) by congruence.
      destruct (mapM_nth _ _ _ _ _ Hres1 Hp) as [vr [Hvr Hnth]].
      unfold abs_res in Hvr. rewrite G1 in Hvr. simpl in Hvr. inv_bind Hvr. inversion Hvr; subst vr; clear Hvr.
      assert (Hi : r_index rr = p).
      { pose proof (renum_chains_res_idx 0 0 0 (map (sub_chain keep) (map vchain_of w))) as Hs.
        assert (Hn' : nth_error (map vr_index (concat (map vc_res (renum_chains 0 0 0 (map (sub_chain keep) (map vchain_of w)))))) p
                      = Some (r_index rr)) by (rewrite nth_error_map, Hnth; reflexivity).
        rewrite Hs in Hn'. assert (p < length (concat (map vc_res (map (sub_chain keep) (map vchain_of w))))).
        { rewrite <- (seq_length (length (concat (map vc_res (map (sub_chain keep) (map vchain_of w))))) 0).
          apply nth_error_Some. rewrite Hn'. discriminate. }
        rewrite nth_error_nth' with (d := 0) in Hn' by (rewrite seq_length; assumption).
        rewrite seq_nth in Hn' by assumption. inversion Hn'. reflexivity. }
      rewrite G4, G1. f_equal. unfold resid_idx. rewrite <- Hi. destruct rr; reflexivity.
    - rewrite Fr4 by exact Hni. destruct (AR3 l) as [_ R3]. destruct (Hl2 l) as [_ [R2 _]]. congruence. }
  assert (Ha41 : forall l, get_a h4 l = get_a h1 l).
  { intros l. destruct (AC4 l) as [A4 _]. destruct (AR3 l) as [A3 _]. destruct (Hl2 l) as [A2 _]. congruence. }
  assert (Hc43 : forall l, get_c h4 l = get_c h3 l) by (intros l; destruct (AC4 l) as [_ C4]; exact C4).
  assert (Hnext4 : h_next h4 = h_next h1) by congruence.
  (* conclusions *)
  assert (Hw4 : hwf h4).
  { intros l Hl. rewrite Hnext4 in Hl. destruct (Hw1 l Hl) as [A1 [R1 C1]]. rewrite Ha41, Hr41, Hc43.
    split; [exact A1|]. split; [exact R1|].
    destruct (in_dec Nat.eq_dec l (map fst L')) as [Hin|Hni].
    - exfalso. apply in_map_iff in Hin. destruct Hin as [[x [ch rs]] [Heq Hin]]. simpl in Heq; subst x.
      destruct (HLchain l ch rs (HL'in _ Hin)) as [Gc _]. congruence.
    - rewrite Fc3 by exact Hni. destruct (Hl2 l) as [_ [_ C2]]. congruence. }
  assert (Hag4 : agree (h_next h) h h4).
  { intros l Hl. destruct (Hag l Hl) as [A1 [R1 C1]]. rewrite Ha41, Hr41, Hc43.
    split; [exact A1|]. split; [exact R1|].
    assert (Hni : ~ In l (map fst L')).
    { intros Hin. apply in_map_iff in Hin. destruct Hin as [e [Heq Hin]]. apply HL'in in Hin.
      assert (In l (map fst L)) by (apply in_map_iff; exists e; auto).
      pose proof (lay_chains_locs_within (h_next h) 0 0 0 (sdesc keep w)) as Wi. unfold within in Wi. rewrite Forall_forall in Wi.
      apply Wi in H. lia. }
    rewrite Fc3 by exact Hni. destruct (Hl2 l) as [_ [_ C2]]. congruence. }
  split; [exact Hw4|]. split; [exact Hag4|]. split; [rewrite Hnext4; lia|].
  simpl.
  assert (Hchains_abs : mapM (abs_chain h4) (map fst L') = Some (subset_chains keep (map vchain_of w))).
  { rewrite (abs_chains_reidx h4 L' 0).
    - unfold subset_chains. rewrite <- (reidx_c_filter_renum 0 0 0 0). f_equal. f_equal.
      rewrite <- num_chains_subset, <- lay_chains_num with (n := h_next h). fold L. unfold L'.
      clear. induction L as [|[x cw] L0 IH]; [reflexivity|]. simpl. rewrite has_res_vchain_of. unfold q at 1. simpl.
      destruct (negb (Nat.eqb (length (snd cw)) 0)); simpl; rewrite IH; reflexivity.
    - intros p x [ch rs] Hp.
      assert (Hp' : nth_error (map fst L') p = Some x) by (rewrite nth_error_map, Hp; reflexivity).
      destruct (Sp3 p x Hp') as [ch' [G1 G2]].
      destruct (HLchain x ch rs (HL'in _ (nth_error_In _ _ Hp))) as [Gc [Hrs _]]. destruct (Hl2 x) as [_ [_ C]].
      assert (ch' = ch) by congruence. subst ch'.
      unfold abs_chain. rewrite Hc43, G2. simpl.
      assert (E : mapM (abs_res h4) (c_res ch) = Some (map vres_of rs)).
      { assert (E1 : mapM (abs_res h4) (c_res ch) = mapM (abs_res h1) (c_res ch)).
        { apply mapM_ext_in. intros r _. unfold abs_res. rewrite Hr41. destruct (get_r h1 r); [|reflexivity]. simpl.
          assert (E2 : mapM (abs_atom h4) (r_atoms r0) = mapM (abs_atom h1) (r_atoms r0))
            by (apply mapM_ext_in; intros a _; unfold abs_atom; rewrite Ha41; reflexivity).
          rewrite E2. reflexivity. }
        rewrite E1. clear - Hrs. revert rs Hrs. generalize (c_res ch). induction l as [|r l IH]; intros rs Hrs.
        - inversion Hrs; reflexivity.
        - apply mapM_cons_some in Hrs. destruct Hrs as [b [br [Hb [Hl ->]]]].
          simpl. rewrite (abs_res_walk _ _ _ Hb), (IH _ Hl). reflexivity. }
      rewrite E. reflexivity. }
  split; [exact Hchains_abs|].
  split; [exact HndL'|].
  split; [intros l Hin; apply in_map_iff in Hin; destruct Hin as [e [<- Hin]]; apply in_map_iff; exists e; split; [reflexivity | apply HL'in; exact Hin]|].
  split; [exact Hres_id|]. split; [reflexivity|].
  assert (Hcw4 : chainwise_residues h4 (map fst L') = lay_chain_res L).
  { rewrite <- Hcw3. unfold chainwise_residues. f_equal. apply map_ext. intros c. rewrite Hc43. reflexivity. }
  split; [exact Hcw4|].
  assert (Hca4 : chainwise_atoms h4 (map fst L') = news).
  { unfold chainwise_atoms. rewrite Hcw4.
    destruct (chainwise_of_walk _ _ _ (walk_of_layout _ _ HLw)) as [_ CA]. rewrite walk_atoms_layout in CA.
    unfold chainwise_atoms in CA. rewrite Hcw1 in CA. unfold news. rewrite <- CA. f_equal. apply map_ext. intros r. rewrite Hr41. reflexivity. }
  split; [exact Hca4|].
  split; [rewrite Hca4; reflexivity|]. split; [rewrite Hcw4, Hres_id; reflexivity|].
  split.
  { intros l a Hin G. simpl in Hin. simpl. rewrite Hres_id. rewrite Ha41 in G. unfold news in Hin. apply in_map_iff in Hin.
    destruct Hin as [[l' a'] [Heq Hin]]. simpl in Heq; subst l'. assert (get_a h1 l = Some a') by (eapply layout_atoms_get; eauto).
    assert (a' = a) by congruence. subst a'. eapply lay_chains_back; eauto. }
  assert (Hsnd : forall x, In x (map snd (combine olds news)) -> In x news).
  { intros x Hx. apply in_map_iff in Hx. destruct Hx as [[k0 v0] [Heq Hx]]. simpl in Heq; subst v0. eapply in_combine_r; eauto. }
  split.
  { intros b' Hin. rewrite Hnb in Hin. destruct (Hnbends b' Hin) as [E1 [E2 E3]]. split; [apply Hsnd; exact E1|]. split; [apply Hsnd; exact E2 | exact E3]. }
  exists h1, t1, t2. split; [exact Hbuild|]. split; [exact Hadd|]. split; [reflexivity | exact Ha41].
Qed.

Lemma subset_fix_struct h t w v keep h' t' :
  hwf h -> walk h t = Some w -> normal (map vchain_of w) -> NoDup (map fst (walk_atoms w)) ->
  (forall b, In b (t_bonds t) ->
             In (b_a1 b) (map fst (walk_atoms w)) /\ In (b_a2 b) (map fst (walk_atoms w)) /\ bond_oriented h b) ->
  abs h t = Some v ->
  subset flags_fix h t keep = Some (h', t') ->
  let L := lay_chains (h_next h) 0 0 0 (sdesc keep w) in
  hwf h' /\ agree (h_next h) h h' /\ h_next h <= h_next h' /\
  mapM (abs_chain h') (t_chains t') = Some (subset_chains keep (vt_chains v)) /\
  mapM (abs_bond h') (t_bonds t') = Some (subset_bonds keep v) /\
  (forall l, In l (t_chains t') -> In l (map fst L)) /\
  t_residues t' = lay_chain_res L /\ t_atoms t' = map fst (lay_chain_atoms L) /\
  chainwise_residues h' (t_chains t') = lay_chain_res L /\
  chainwise_atoms h' (t_chains t') = map fst (lay_chain_atoms L) /\
  (forall b', In b' (t_bonds t') -> In (b_a1 b') (map fst (lay_chain_atoms L)) /\ In (b_a2 b') (map fst (lay_chain_atoms L))).
Proof.
  intros Hw Hwalk Hnorm Hnd Hbonds Habs Hsub L.
  (* the abstraction of the source *)
  assert (Hvc : vt_chains v = map vchain_of w /\ mapM (abs_bond h) (t_bonds t) = Some (vt_bonds v)).
  { unfold abs in Habs. unfold walk in Hwalk. rewrite (abs_chains_walk _ _ _ Hwalk) in Habs. simpl in Habs.
    inv_bind Habs. inversion Habs; subst v. simpl. split; [reflexivity | exact E]. }
  destruct Hvc as [Hvc Hvb].
  destruct (subset_any_struct h t w keep h' t' Hw Hwalk Hsub)
    as [Hw4 [Hag4 [Hle4 [Hchains [_ [Hcin [Hr4 [Ha4 [Hcr4 [Hca4 [_ [_ [_ [Hbe4 [h1 [t1 [t2 [Hbuild [Hadd [Hb4 Ha41]]]]]]]]]]]]]]]]]]]].
  fold L in Hchains, Hcin, Hr4, Ha4, Hcr4, Hca4, Hbe4, Hbuild, Hadd.
  pose proof (build_chains_layout _ _ _ _ _ _ Hw Hbuild) as HL. simpl in HL. fold L in HL.
  destruct HL as [Hw1 [Hn1 [_ [Ht1 [Hag HLw]]]]].
  set (news := map fst (lay_chain_atoms L)) in *.
  set (W := walk_atoms w) in *.
  set (KW := filter (keep_la keep) W).
  set (olds := solds keep w) in *.
  assert (Holds : olds = map fst KW) by (unfold olds, KW, W; apply solds_eq).
  assert (Hlen : length olds = length news).
  { unfold news. rewrite map_length. unfold L. rewrite lay_chain_atoms_length, natoms_desc_sdesc. reflexivity. }
  assert (Hidx_old : map (fun x => a_index (snd x)) W = seq 0 (length W)) by (apply normal_atom_idx; exact Hnorm).
  assert (Hidx_new : map (fun x => a_index (snd x)) (lay_chain_atoms L) = seq 0 (length (lay_chain_atoms L))).
  { unfold L. rewrite lay_chains_idx, lay_chain_atoms_length. reflexivity. }
  assert (Hold_get : forall l a, In (l, a) W -> get_a h l = Some a)
    by (intros l a; apply (walk_atoms_get h (t_chains t) w); exact Hwalk).
  assert (Hnew_get : forall l a, In (l, a) (lay_chain_atoms L) -> get_a h1 l = Some a)
    by (apply layout_atoms_get; exact HLw).
  assert (Hold_h1 : forall k a, get_a h k = Some a -> get_a h1 k = Some a).
  { intros k a G. rewrite <- G. apply (Hag k). eapply hwf_lt_a; eauto. }
  set (K := map (fun x => a_index (snd x)) KW).
  assert (HK : K = filter (fun i => existsb (Nat.eqb i) keep) (seq 0 (length W))).
  { unfold K, KW. rewrite <- Hidx_old.
    exact (map_filter_comm (fun x : loc * atom => a_index (snd x)) (fun i => existsb (Nat.eqb i) keep) W). }
  assert (HKs : StronglySorted lt K) by (rewrite HK; apply StronglySorted_filter; apply sorted_seq).
  assert (HKnd : NoDup K).
  { clear - HKs. induction HKs as [|x l S IH F]; constructor; [|exact IH]. intros Hin. rewrite Forall_forall in F.
    specialize (F x Hin). lia. }
  assert (Hrank : forall i, rank keep v i = pos_of i K 0).
  { intros i. unfold rank, v_atoms, v_residues. rewrite Hvc, <- walk_atoms_vatoms. fold W.
    rewrite <- filter_keep_map. fold KW. rewrite map_map. reflexivity. }
  set (nidx := fun k => match get_a h k with Some a => pos_of (a_index a) K 0 | None => None end).
  set (D := map fst W).
  assert (HD_atom : forall k, In k D -> exists a, In (k, a) W /\ get_a h k = Some a).
  { intros k Hk. unfold D in Hk. apply in_map_iff in Hk. destruct Hk as [[k' a] [Heq Hin]]. simpl in Heq; subst k'.
    exists a. split; [exact Hin | apply Hold_get; exact Hin]. }
  assert (HKW_in : forall x, In x KW -> In x W) by (intros x Hx; unfold KW in Hx; apply filter_In in Hx; tauto).
  assert (Hndo : NoDup olds) by (rewrite Holds; unfold KW; apply NoDup_map_filter; exact Hnd).
  assert (Hsome : forall k p, In k D -> nidx k = Some p ->
             exists x ax, dict_get h1 (combine olds news) k None = Some x /\ get_a h1 x = Some ax /\ a_index ax = p).
  { intros k p Hk Hn. destruct (HD_atom k Hk) as [a [HinW Ga]]. unfold nidx in Hn. rewrite Ga in Hn.
    apply pos_of_shift in Hn. destruct Hn as [_ Hn]. rewrite Nat.sub_0_r in Hn.
    unfold K in Hn. rewrite nth_error_map in Hn. destruct (nth_error KW p) as [[k' a']|] eqn:Ekw; [|discriminate].
    simpl in Hn. inversion Hn as [Hi]. clear Hn.
    assert ((k', a') = (k, a)).
    { apply (idx_inj (fun x : loc * atom => a_index (snd x)) W); auto. apply HKW_in. eapply nth_error_In; eauto. }
    inversion H; subst k' a'. clear H.
    assert (Hplt : p < length (lay_chain_atoms L)).
    { assert (p < length KW) by (apply nth_error_Some; congruence).
      rewrite Holds in Hlen. unfold news in Hlen. rewrite !map_length in Hlen. lia. }
    destruct (nth_error (lay_chain_atoms L) p) as [[x ax]|] eqn:Eq; [|apply nth_error_None in Eq; lia].
    exists x, ax. split; [|split; [apply Hnew_get; eapply nth_error_In; eauto|]].
    - apply dict_get_unique.
      + rewrite combine_fst_eq by exact Hlen. exact Hndo.
      + apply in_combine_nth with (p := p).
        * rewrite Holds, nth_error_map, Ekw. reflexivity.
        * unfold news. rewrite nth_error_map, Eq. reflexivity.
      + intros k' v' Hin' Hne. apply in_combine_l in Hin'. rewrite Holds in Hin'. apply in_map_iff in Hin'.
        destruct Hin' as [[k'' a''] [Heq Hin'']]. simpl in Heq; subst k''.
        apply atom_eqb_idx_ne with (a := a'') (b := a); [apply Hold_h1; apply Hold_get; apply HKW_in; exact Hin'' | apply Hold_h1; exact Ga|].
        intros Hie. apply Hne.
        assert ((k', a'') = (k, a)) by (apply (idx_inj (fun x : loc * atom => a_index (snd x)) W); auto).
        congruence.
    - apply (nth_error_seq_idx (fun x => a_index (snd x)) _ 0 p (x, ax) Hidx_new Eq). }
  assert (Hnone : forall k, In k D -> nidx k = None -> dict_get h1 (combine olds news) k None = None).
  { intros k Hk Hn. destruct (HD_atom k Hk) as [a [HinW Ga]]. unfold nidx in Hn. rewrite Ga in Hn.
    apply dict_get_nomatch. intros k' v' Hin'. apply in_combine_l in Hin'. rewrite Holds in Hin'. apply in_map_iff in Hin'.
    destruct Hin' as [[k'' a''] [Heq Hin'']]. simpl in Heq; subst k''.
    assert (Hne : a_index a'' <> a_index a).
    { intros Hie. assert (In (a_index a) K) by (rewrite <- Hie; unfold K; apply in_map_iff; exists (k', a''); auto).
      destruct (pos_of_in _ _ 0 H) as [p Hp]. congruence. }
    rewrite (atom_eqb_idx_ne h1 k' k a'' a); [| apply Hold_h1; apply Hold_get; apply HKW_in; exact Hin'' | apply Hold_h1; exact Ga | exact Hne].
    rewrite (eqb_false_ne k' k); [reflexivity|]. intros ->.
    assert (get_a h k = Some a'') by (apply Hold_get; apply HKW_in; exact Hin''). congruence. }
  assert (HDb : forall b, In b (t_bonds t) -> In (b_a1 b) D /\ In (b_a2 b) D).
  { intros b Hb. destruct (Hbonds b Hb) as [B1 [B2 _]]. split; assumption. }
  assert (Hor : forall b p q, In b (t_bonds t) -> nidx (b_a1 b) = Some p -> nidx (b_a2 b) = Some q ->
                              p <= q /\ (p = q -> b_a1 b = b_a2 b)).
  { intros b p q Hb N1 N2. destruct (Hbonds b Hb) as [B1 [B2 [a1 [a2 [G1 [G2 Hle]]]]]].
    unfold nidx in N1, N2. rewrite G1 in N1. rewrite G2 in N2.
    destruct (pos_of_mono K _ _ _ _ HKs N1 N2) as [M1 M2]. split; [apply M1; exact Hle|].
    intros Hpq. specialize (M2 Hpq).
    destruct (HD_atom _ B1) as [a1' [I1 G1']]. destruct (HD_atom _ B2) as [a2' [I2 G2']].
    assert (a1' = a1) by congruence. assert (a2' = a2) by congruence. subst a1' a2'.
    assert ((b_a1 b, a1) = (b_a2 b, a2)) by (apply (idx_inj (fun x : loc * atom => a_index (snd x)) W); auto).
    congruence. }
  destruct (add_bonds_mapped_skip h1 (combine olds news) nidx D Hsome Hnone (t_bonds t) t1 t2 HDb Hor true Hadd)
    as [[S1 [S2 [S3 [S4 S5]]]] [nb [Hnb [Hnbabs Hnbends]]]].
  assert (Ht1b : t_bonds t1 = []) by (rewrite Ht1; reflexivity). rewrite Ht1b in Hnb. simpl in Hnb.
  assert (Hbonds_v : somes (map (fun b => match nidx (b_a1 b), nidx (b_a2 b) with
                                          | Some p, Some q => Some {| vb_i := p; vb_j := q; vb_type := b_type b; vb_order := b_order b |}
                                          | _, _ => None end) (t_bonds t)) = subset_bonds keep v).
  { unfold subset_bonds. clear - Hvb Hrank. revert Hvb. generalize (vt_bonds v). generalize (t_bonds t).
    induction l as [|b bs IH]; intros vbs Hvb.
    - inversion Hvb; subst. reflexivity.
    - apply mapM_cons_some in Hvb. destruct Hvb as [vb [vr [Hb [Hl ->]]]].
      unfold abs_bond in Hb. inv_bind Hb. inv_bind Hb. inversion Hb; subst vb; clear Hb.
      simpl. unfold nidx at 1 2. rewrite E, E0. rewrite !Hrank.
      destruct (pos_of (a_index x) K 0); [destruct (pos_of (a_index x0) K 0)|]; simpl; rewrite (IH _ Hl); reflexivity. }
  rewrite Hbonds_v in Hnbabs.
  split; [exact Hw4|]. split; [exact Hag4|]. split; [exact Hle4|].
  split; [rewrite Hvc; exact Hchains|].
  split.
  { rewrite Hb4, Hnb. rewrite <- Hnbabs. apply mapM_ext_in. intros b _. unfold abs_bond. rewrite !Ha41. reflexivity. }
  split; [exact Hcin|]. split; [exact Hr4|]. split; [exact Ha4|]. split; [exact Hcr4|]. split; [exact Hca4|].
  intros b' Hin. destruct (Hbe4 b' Hin) as [E1 [E2 _]]. split; assumption.
Qed.

Section SubsetFix.
  Variables (h : heap) (t : topo) (keep : list nat) (h' : heap) (t' : topo) (v : vtop).
  Hypothesis Hwfo : wfo h t.
  Hypothesis Habs : abs h t = Some v.
  Hypothesis Hsub : subset flags_fix h t keep = Some (h', t').

  (* the subset of a topology is the specified restriction: kept atoms keep name/element/serial,
     residues keep name/resSeq/segment id, chains keep their id, empty residues and chains vanish,
     indices are renumbered, bonds with both ends kept are re-pointed *)
  Theorem subset_abs : abs h' t' = Some (subset_v keep v).
  Proof.
    destruct Hwfo as [Hw _ [w [Hwalk [Hn [Hnd [_ [_ [_ [_ Hb]]]]]]]]].
    destruct (subset_fix_struct h t w v keep h' t' Hw Hwalk Hn Hnd Hb Habs Hsub) as [_ [_ [_ [Hc [Hbo _]]]]].
    unfold abs. rewrite Hc, Hbo. reflexivity.
  Qed.

  Theorem subset_frame : agree (h_next h) h h'.
  Proof.
    destruct Hwfo as [Hw _ [w [Hwalk [Hn [Hnd [_ [_ [_ [_ Hb]]]]]]]]].
    destruct (subset_fix_struct h t w v keep h' t' Hw Hwalk Hn Hnd Hb Habs Hsub) as [_ [Hag _]]. exact Hag.
  Qed.

  Theorem subset_fresh : forall l, In l (reach h' t') -> h_next h <= l.
  Proof.
    destruct Hwfo as [Hw _ [w [Hwalk [Hn [Hnd [_ [_ [_ [_ Hb]]]]]]]]].
    destruct (subset_fix_struct h t w v keep h' t' Hw Hwalk Hn Hnd Hb Habs Hsub)
      as [_ [_ [_ [_ [_ [Hc [Hr [Ha [Hcr [Hca Hbe]]]]]]]]]].
    set (L := lay_chains (h_next h) 0 0 0 (sdesc keep w)) in *.
    assert (B1 : forall l, In l (map fst L) -> h_next h <= l).
    { intros l Hin. pose proof (lay_chains_locs_within (h_next h) 0 0 0 (sdesc keep w)) as W.
      unfold within in W. rewrite Forall_forall in W. apply W in Hin. lia. }
    assert (B2 : forall l, In l (lay_chain_res L) -> h_next h <= l).
    { intros l Hin. pose proof (lay_chain_res_within (h_next h) 0 0 0 (sdesc keep w)) as W.
      unfold within in W. rewrite Forall_forall in W. apply W in Hin. lia. }
    assert (B3 : forall l, In l (map fst (lay_chain_atoms L)) -> h_next h <= l).
    { intros l Hin. destruct (lay_chain_atoms_sorted (h_next h) 0 0 0 (sdesc keep w)) as [_ W].
      unfold within in W. rewrite Forall_forall in W. apply W in Hin. lia. }
    intros l Hin. unfold reach in Hin. rewrite Hr, Ha, Hcr, Hca in Hin.
    repeat (apply in_app_or in Hin; destruct Hin as [Hin|Hin]); auto.
    unfold bond_ends in Hin. apply in_concat in Hin. destruct Hin as [ends [He Hin]].
    apply in_map_iff in He. destruct He as [b [<- Hbin]].
    destruct (Hbe b Hbin) as [E1 E2]. destruct Hin as [<-|[<-|[]]]; auto.
  Qed.
End SubsetFix.

(* the subset shares no reachable object with the source or any other well-formed topology *)
Theorem subset_independent h t keep h' t' v u :
  wfo h t -> wfo h u -> abs h t = Some v -> subset flags_fix h t keep = Some (h', t') ->
  forall l, In l (reach h' t') -> ~ In l (reach h' u).
Proof.
  intros Ht Hu Ha Hs l Hin Hin'.
  pose proof (subset_fresh h t keep h' t' v Ht Ha Hs l Hin) as Hge.
  pose proof (subset_frame h t keep h' t' v Ht Ha Hs) as Hag.
  destruct Hu as [Hwu _ [w [Hwalk [Hn [Hnd [Hat [Hre [_ [_ Hb]]]]]]]]].
  assert (Hwalk' : walk h' u = Some w) by (eapply walk_agree; eauto).
  destruct (walk_chain_locs_lt h _ w Hwu Hwalk) as [L1 [L2 L3]].
  destruct (chainwise_of_walk _ _ _ Hwalk') as [CR CA].
  unfold reach in Hin'. rewrite Hat, Hre, CR, CA in Hin'.
  assert (l < h_next h); [|lia].
  repeat (apply in_app_or in Hin'; destruct Hin' as [Hin'|Hin']); auto.
  unfold bond_ends in Hin'. apply in_concat in Hin'. destruct Hin' as [ends [He Hin']].
  apply in_map_iff in He. destruct He as [b [<- Hbin]].
  destruct (Hb b Hbin) as [E1 [E2 _]]. destruct Hin' as [<-|[<-|[]]]; auto.
Qed.
