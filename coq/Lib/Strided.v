(* Strided sub-sequences of lists: the vocabulary of C02/C03/C18 (DESIGN.md 3.3).
   [every s l] keeps the elements at positions 0, s, 2s, ... (numpy l[::s]). *)
From Coq Require Import List Arith Lia.
Import ListNotations.

Section Strided.
Context {A : Type}.

(* k = how many elements to drop before the next kept one *)
Fixpoint every_from (s k : nat) (l : list A) : list A :=
  match l with
  | [] => []
  | x :: r => match k with
              | 0 => x :: every_from s (s - 1) r
              | S k' => every_from s k' r
              end
  end.

Definition every (s : nat) (l : list A) : list A := every_from s 0 l.

(* Python l[a:b] for 0 <= a, b (already clipped by the caller) *)
Definition span (a b : nat) (l : list A) : list A := firstn (b - a) (skipn a l).

Lemma every_from_nil s k : every_from s k [] = [].
Proof. reflexivity. Qed.

Lemma every_from_skip s k l : k <= length l ->
  every_from s k l = every_from s 0 (skipn k l).
Proof.
  revert l; induction k as [|k IH]; intros l Hk; [reflexivity|].
  destruct l as [|x r]; simpl in *; [lia|]. apply IH; lia.
Qed.

Lemma every_from_short s k l : length l <= k -> every_from s k l = [].
Proof.
  revert k; induction l as [|x r IH]; intros k Hk; [reflexivity|].
  destruct k as [|k]; simpl in *; [lia|]. apply IH; lia.
Qed.

Lemma every_one l : every 1 l = l.
Proof. unfold every. induction l as [|x r IH]; simpl; [reflexivity|]. now rewrite IH. Qed.

Lemma every_cons s x r : every s (x :: r) = x :: every_from s (s - 1) r.
Proof. reflexivity. Qed.

(* the kept positions of l1 ++ l2 : l1's kept elements, then l2 continued with the
   countdown left over at the end of l1 *)
Fixpoint left_over (s k n : nat) : nat :=   (* countdown after consuming n elements *)
  match n with
  | 0 => k
  | S n' => match k with 0 => left_over s (s - 1) n' | S k' => left_over s k' n' end
  end.

Lemma every_from_app_gen s k l1 l2 :
  every_from s k (l1 ++ l2) = every_from s k l1 ++ every_from s (left_over s k (length l1)) l2.
Proof.
  revert k; induction l1 as [|x r IH]; intros k; simpl; [reflexivity|].
  destruct k as [|k]; simpl; now rewrite IH.
Qed.

Lemma length_every_from_le s k l : length (every_from s k l) <= length l.
Proof.
  revert k; induction l as [|x r IH]; intros k; simpl; [lia|].
  destruct k; simpl; [specialize (IH (s - 1))|specialize (IH k)]; lia.
Qed.

End Strided.

(* every commutes with map *)
Lemma every_from_map {A B} (g : A -> B) s k l : every_from s k (map g l) = map g (every_from s k l).
Proof.
  revert k; induction l as [|x r IH]; intros k; simpl; [reflexivity|].
  destruct k; simpl; now rewrite IH.
Qed.
