(* C07 -- _atom_sequence refines its list-level specification; tables; ordering.  Closed proofs. *)
From Coq Require Import ZArith List String Bool Ascii Lia Permutation Sorted.
Import ListNotations.
Require Import MD.Gen.GeomFormulas MD.Geom.Topo.
Local Open Scope Z_scope.

(* --- dictionaries: a fold of inserts is "last binding wins" ------------------------------------------ *)
Section DictFacts.
Variables (K V : Type) (keq : K -> K -> bool).
Hypothesis keq_spec : forall a b, keq a b = true <-> a = b.

Lemma keq_refl : forall a, keq a a = true.
Proof. intros. apply keq_spec. reflexivity. Qed.
Lemma keq_trans_l : forall a b c, keq a b = true -> keq a c = keq b c.
Proof. intros a b c H. apply keq_spec in H. subst. reflexivity. Qed.

Lemma dget_dset : forall (d : list (K * V)) k v k', dget keq (dset keq d k v) k' = if keq k k' then Some v else dget keq d k'.
Proof.
  induction d as [|[k0 v0] t IH]; intros k v k'; cbn [dset dget].
  - reflexivity.
  - destruct (keq k0 k) eqn:E; cbn [dget].
    + rewrite (keq_trans_l _ _ k' E). destruct (keq k k'); reflexivity.
    + destruct (keq k0 k') eqn:E'.
      * destruct (keq k k') eqn:E''; [|reflexivity].
        apply keq_spec in E', E''. subst. rewrite keq_refl in E. discriminate.
      * apply IH.
Qed.

Lemma dget_fold : forall (A : Type) (key : A -> K) (val : A -> V) l (d : list (K * V)) k,
  dget keq (fold_left (fun d a => dset keq d (key a) (val a)) l d) k =
  fold_left (fun acc a => if keq (key a) k then Some (val a) else acc) l (dget keq d k).
Proof.
  intros A key val l. induction l as [|a t IH]; intros d k; cbn [fold_left]; [reflexivity|].
  rewrite IH, dget_dset. reflexivity.
Qed.
End DictFacts.

Lemma String_eqb_spec' : forall a b, String.eqb a b = true <-> a = b. Proof. exact String.eqb_eq. Qed.
Lemma Z_eqb_spec' : forall a b, Z.eqb a b = true <-> a = b. Proof. exact Z.eqb_eq. Qed.

Lemma atom_dict_get : forall r nm, dget String.eqb (atom_dict r) nm = find_atom r nm.
Proof.
  intros. unfold atom_dict, find_atom.
  rewrite (dget_fold _ _ String.eqb String_eqb_spec' atom fst snd). reflexivity.
Qed.
Lemma residue_dict_get : forall c rid,
  dget Z.eqb (residue_dict c) rid = option_map atom_dict (find_res c rid).
Proof.
  intros. unfold residue_dict, find_res.
  rewrite (dget_fold _ _ Z.eqb Z_eqb_spec' residue r_index atom_dict). cbn [dget].
  change (@None (list (string * nat))) with (option_map atom_dict (@None residue)).
  generalize (@None residue) as acc. induction c as [|r t IH]; intros acc; cbn [fold_left]; [reflexivity|].
  rewrite <- IH. f_equal. destruct (r_index r =? rid); reflexivity.
Qed.

(* --- traverse -------------------------------------------------------------------------------------------- *)
Lemma traverse_ext : forall A B (f g : A -> option B) l, (forall a, In a l -> f a = g a) -> traverse f l = traverse g l.
Proof.
  intros A B f g l. induction l as [|a t IH]; intros H; cbn [traverse]; [reflexivity|].
  rewrite (H a (or_introl eq_refl)), IH by (intros; apply H; right; assumption). reflexivity.
Qed.
Lemma traverse_some_all : forall A B (f : A -> option B) l bs, traverse f l = Some bs ->
  forall a, In a l -> exists b, f a = Some b.
Proof.
  intros A B f l. induction l as [|a t IH]; intros bs H x Hin; [destruct Hin|].
  cbn [traverse] in H. destruct (f a) eqn:Ea; [|discriminate]. destruct (traverse f t) eqn:Et; [|discriminate].
  destruct Hin as [->|Hin]; [eexists; eassumption | eapply IH; [reflexivity | assumption]].
Qed.
Lemma traverse_Forall2 : forall A B (f : A -> option B) l bs,
  traverse f l = Some bs <-> Forall2 (fun a b => f a = Some b) l bs.
Proof.
  intros A B f l. induction l as [|a t IH]; intros bs; cbn [traverse].
  - split; [intros H; inversion H; constructor | intros H; inversion H; reflexivity].
  - split.
    + destruct (f a) eqn:Ea; [|discriminate]. destruct (traverse f t) eqn:Et; [|discriminate].
      intros H. inversion H. subst. constructor; [assumption | apply IH; reflexivity].
    + intros H. inversion H as [|? b ? bs' Hb Ht]. subst. rewrite Hb. apply IH in Ht. rewrite Ht. reflexivity.
Qed.

Lemma Forall2_impl' : forall A B (P Q : A -> B -> Prop) l1 l2, (forall a b, P a b -> Q a b) -> Forall2 P l1 l2 -> Forall2 Q l1 l2.
Proof. intros A B P Q l1 l2 H F. induction F; constructor; auto. Qed.

Lemma map_snd_combine : forall A B (a : list A) (b : list B), List.length a = List.length b -> map snd (combine a b) = b.
Proof. induction a as [|x a IH]; intros [|y b] H; cbn in *; try discriminate; [reflexivity | f_equal; apply IH; lia]. Qed.

(* --- atom_sequence_spec ------------------------------------------------------------------------------------ *)
(* the dictionary-based implementation returns exactly what the list-level specification describes *)
Theorem atom_sequence_refines : forall t names, atom_sequence t names = atom_sequence_spec t names.
Proof.
  intros t names. unfold atom_sequence, atom_sequence_spec.
  set (offs := map parse_offset names). set (pat := combine (map strip_offset names) offs).
  assert (Hoffs : map snd pat = offs) by (unfold pat, offs; apply map_snd_combine; rewrite !map_length; reflexivity).
  apply flat_map_ext. intros c. apply flat_map_ext. intros r.
  set (rd := residue_dict c). set (rid := r_index r).
  set (G := fun ao : string * Z => match dget Z.eqb rd (rid + snd ao) with
                                   | Some ad => dget String.eqb ad (fst ao) | None => None end).
  assert (EG : traverse G pat = match_spec c r pat).
  { unfold match_spec. apply traverse_ext. intros ao _. unfold G, rd, rid. rewrite residue_dict_get.
    destruct (find_res c (r_index r + snd ao)) as [r'|]; cbn [option_map]; [apply atom_dict_get | reflexivity]. }
  rewrite <- EG. destruct (traverse G pat) as [idx|] eqn:ET.
  - pose proof (traverse_some_all _ _ G pat idx ET) as All.
    assert (A : forallb (fun o => dmem Z.eqb rd (rid + o)) offs = true).
    { rewrite <- Hoffs. rewrite forallb_forall. intros o Ho. apply in_map_iff in Ho. destruct Ho as [ao [<- Hin]].
      destruct (All ao Hin) as [b Hb]. unfold G in Hb. unfold dmem. destruct (dget Z.eqb rd (rid + snd ao)); [reflexivity | discriminate]. }
    assert (B : forallb (fun ao => match dget Z.eqb rd (rid + snd ao) with
                                   | Some ad => dmem String.eqb ad (fst ao) | None => false end) pat = true).
    { rewrite forallb_forall. intros ao Hin. destruct (All ao Hin) as [b Hb]. unfold G in Hb.
      destruct (dget Z.eqb rd (rid + snd ao)); [|discriminate]. unfold dmem. rewrite Hb. reflexivity. }
    rewrite A, B. reflexivity.
  - destruct (forallb _ offs); [|reflexivity]. destruct (forallb _ pat); reflexivity.
Qed.

(* sound and complete: (rid, idx) is reported iff some residue rid of some chain matches, every named atom being
   looked up in the residue of the SAME chain whose index is rid + offset *)
Theorem atom_sequence_characterised : forall t names rid idx,
  let pat := combine (map strip_offset names) (map parse_offset names) in
  In (rid, idx) (atom_sequence t names) <->
  exists c r, In c t /\ In r c /\ r_index r = rid /\
    Forall2 (fun ao i => exists r', find_res c (rid + snd ao) = Some r' /\ find_atom r' (fst ao) = Some i) pat idx.
Proof.
  intros t names rid idx pat. rewrite atom_sequence_refines. unfold atom_sequence_spec. fold pat. split.
  - intros H. apply in_flat_map in H. destruct H as [c [Hc H]]. apply in_flat_map in H. destruct H as [r [Hr H]].
    destruct (match_spec c r pat) as [idx'|] eqn:EM; [|destruct H]. destruct H as [H|[]]. inversion H. subst.
    exists c, r. repeat split; try assumption. unfold match_spec in EM. apply traverse_Forall2 in EM.
    eapply Forall2_impl'; [|exact EM]. cbn beta. intros ao i Hi.
    destruct (find_res c (r_index r + snd ao)) as [r'|]; [|discriminate]. exists r'. split; [reflexivity | assumption].
  - intros (c & r & Hc & Hr & <- & HF). apply in_flat_map. exists c. split; [assumption|]. apply in_flat_map. exists r. split; [assumption|].
    assert (EM : match_spec c r pat = Some idx).
    { unfold match_spec. apply traverse_Forall2. eapply Forall2_impl'; [|exact HF]. cbn beta. intros ao i (r' & E1 & E2). rewrite E1. exact E2. }
    rewrite EM. left. reflexivity.
Qed.

(* order: residues are reported in chain order, then residue order, at most once per (chain, residue) *)
Fixpoint sublist {A} (s l : list A) : Prop :=
  match s, l with
  | [], _ => True
  | _ :: _, [] => False
  | x :: s', y :: l' => (x = y /\ sublist s' l') \/ sublist s l'
  end.
Lemma sublist_nil_r : forall A (s : list A), sublist s [] -> s = [].
Proof. intros A [|x s] H; [reflexivity | destruct H]. Qed.
Lemma sublist_cons_r : forall A (s l : list A) y, sublist s l -> sublist s (y :: l).
Proof. intros A [|x s] l y H; [exact I | right; exact H]. Qed.
Lemma sublist_prefix : forall A (s l1 l2 : list A), sublist s l2 -> sublist s (l1 ++ l2).
Proof. intros A s l1 l2 H. induction l1 as [|y l1 IH]; [exact H | cbn [app]; apply sublist_cons_r; exact IH]. Qed.
Lemma sublist_app : forall A (s1 s2 l1 l2 : list A), sublist s1 l1 -> sublist s2 l2 -> sublist (s1 ++ s2) (l1 ++ l2).
Proof.
  intros A s1 s2 l1. revert s1. induction l1 as [|y l1 IH]; intros s1 l2 H1 H2.
  - apply sublist_nil_r in H1. subst. exact H2.
  - destruct s1 as [|x s1]; cbn [app].
    + apply (sublist_prefix _ s2 (y :: l1) l2 H2).
    + cbn [sublist] in H1 |- *. destruct H1 as [[-> H1]|H1]; [left; split; [reflexivity | apply IH; assumption] | right; apply (IH (x :: s1)); assumption].
Qed.
Theorem atom_sequence_order : forall t names,
  sublist (map fst (atom_sequence t names)) (map r_index (List.concat t)).
Proof.
  intros. rewrite atom_sequence_refines. unfold atom_sequence_spec. set (pat := combine _ _).
  induction t as [|c t IH]; [exact I|]. cbn [flat_map List.concat]. rewrite !map_app. apply sublist_app; [|exact IH].
  generalize c at 1 as c0. intros c0. induction c as [|r c IHc]; [exact I|]. cbn [flat_map map]. rewrite map_app.
  destruct (match_spec c0 r pat); cbn [map app sublist]; [left; split; [reflexivity | exact IHc] |].
  destruct (map fst (flat_map _ c)); [exact I | right; exact IHc].
Qed.

(* --- tables ------------------------------------------------------------------------------------------------ *)
Definition pattern_eqb (a b : list string) : bool :=
  (fix go (a b : list string) : bool :=
     match a, b with [], [] => true | x :: a', y :: b' => String.eqb x y && go a' b' | _, _ => false end) a b.
Definition same_patterns (a b : list (list string)) : bool :=
  forallb (fun p => existsb (pattern_eqb p) b) a && forallb (fun p => existsb (pattern_eqb p) a) b.
(* the tables read from dihedral.py are the documented atom quadruples (as sets of patterns) *)
Theorem tables_documented :
  same_patterns Tables.PHI_ATOMS DOC_PHI = true /\ same_patterns Tables.PSI_ATOMS DOC_PSI = true /\
  same_patterns Tables.OMEGA_ATOMS DOC_OMEGA = true /\ same_patterns Tables.CHI1_ATOMS DOC_CHI1 = true /\
  same_patterns Tables.CHI2_ATOMS DOC_CHI2 = true /\ same_patterns Tables.CHI3_ATOMS DOC_CHI3 = true /\
  same_patterns Tables.CHI4_ATOMS DOC_CHI4 = true /\ same_patterns Tables.CHI5_ATOMS DOC_CHI5 = true.
Proof. repeat split; vm_compute; reflexivity. Qed.

Lemma offsets_parsed : map parse_offset ["-C"; "N"; "CA"; "+N"]%string = [-1; 0; 0; 1] /\
                       map strip_offset ["-C"; "N"; "CA"; "+N"]%string = ["C"; "N"; "CA"; "N"]%string.
Proof. split; reflexivity. Qed.

(* --- _indices_chi: the concatenated matches, reordered by residue id ------------------------------------------- *)
Lemma insert_perm : forall x l, Permutation (x :: l) (insert_by_rid x l).
Proof.
  intros x l. induction l as [|y t IH]; cbn [insert_by_rid]; [apply Permutation_refl|].
  destruct (fst x <? fst y); [apply Permutation_refl|].
  apply perm_trans with (y :: x :: t); [apply perm_swap | apply perm_skip; exact IH].
Qed.
Lemma sort_perm : forall l, Permutation l (sort_by_rid l).
Proof.
  induction l as [|x t IH]; cbn [sort_by_rid fold_right]; [constructor|].
  apply perm_trans with (x :: sort_by_rid t); [apply perm_skip; exact IH | apply insert_perm].
Qed.
Definition rid_le (a b : Z * list nat) : Prop := fst a <= fst b.
Lemma insert_sorted : forall x l, LocallySorted rid_le l -> LocallySorted rid_le (insert_by_rid x l).
Proof.
  intros x l H. induction H as [|y|y z t Ht IH Hyz]; cbn [insert_by_rid].
  - constructor.
  - destruct (fst x <? fst y) eqn:E; constructor; try constructor; unfold rid_le; [apply Z.ltb_lt in E | apply Z.ltb_ge in E]; lia.
  - destruct (fst x <? fst y) eqn:E.
    + constructor; [constructor; assumption | unfold rid_le; apply Z.ltb_lt in E; lia].
    + cbn [insert_by_rid] in IH. destruct (fst x <? fst z) eqn:E2.
      * constructor; [exact IH | unfold rid_le; apply Z.ltb_ge in E; lia].
      * constructor; [exact IH | exact Hyz].
Qed.
Lemma sort_sorted : forall l, LocallySorted rid_le (sort_by_rid l).
Proof. induction l as [|x t IH]; cbn [sort_by_rid fold_right]; [constructor | apply insert_sorted; exact IH]. Qed.
Theorem indices_chi_spec : forall tab t,
  exists l, indices_chi tab t = map snd l /\ Permutation (flat_map (atom_sequence_spec t) tab) l /\ LocallySorted rid_le l.
Proof.
  intros. exists (sort_by_rid (flat_map (atom_sequence t) tab)). split; [reflexivity|]. split; [|apply sort_sorted].
  replace (flat_map (atom_sequence_spec t) tab) with (flat_map (atom_sequence t) tab)
    by (apply flat_map_ext; intros; apply atom_sequence_refines).
  apply sort_perm.
Qed.
