(* C07 -- angle and dihedral formulas of the kernels and of the reference Python code.
   Polynomial identities over Z (closed under the global context); atan2/acos statements over R. *)
From Coq Require Import ZArith Reals List Lra Lia.
Import ListNotations.
Require Import MD.Geom.Vec MD.Gen.GeomFormulas MD.Geom.Model.

(* ============================== over Z =========================================================== *)
Module ZP.
Import ZV ZG.
Local Open Scope Z_scope.

Ltac vec_unfold := unfold Zg.dih_p1, Zg.dih_p2, Zg.ang_num, Zg.ang_den,
  Zg.py_p1_factor, Zg.py_p1_radicand, Zg.py_p2, dot, cross, vsub, vneg, mirror_x, vx, vy, vz; cbn [fst snd].
Ltac destr3 b := destruct b as [[? ?] ?].
Ltac tuple_eq := repeat match goal with |- (_, _) = (_, _) => apply f_equal2 | |- Some _ = Some _ => apply f_equal end.

(* dihedral_is_iupac, polynomial part: with n1 = b1 x b2 and n2 = b2 x b3,
   p2 = n1 . n2   and   p1 * |b2| = (n1 x n2) . b2   (so p1 = (n1 x n2) . b2 / |b2|) *)
Lemma dihedral_p2_normals : forall b1 b2 b3 d1 d2 d3,
  Zg.dih_p2 b1 b2 b3 d1 d2 d3 = dot (cross b1 b2) (cross b2 b3).
Proof. intros. destr3 b1; destr3 b2; destr3 b3. vec_unfold. ring. Qed.
Lemma dihedral_p1_triple : forall b1 b2 b3 d1 d2 d3, d2 * d2 = dot b2 b2 ->
  Zg.dih_p1 b1 b2 b3 d1 d2 d3 * d2 = dot (cross (cross b1 b2) (cross b2 b3)) b2.
Proof.
  intros b1 b2 b3 d1 d2 d3 H. destr3 b1; destr3 b2; destr3 b3. revert H. vec_unfold. intros H.
  match goal with |- ?a * d2 * d2 = _ => transitivity (a * (d2 * d2)); [ring|] end. rewrite H. ring.
Qed.
(* p1^2 + p2^2 = |n1|^2 |n2|^2 : (p1, p2) is |n1||n2| times a point of the unit circle *)
Lemma dihedral_pythagoras : forall b1 b2 b3 d1 d2 d3, d2 * d2 = dot b2 b2 ->
  Zg.dih_p1 b1 b2 b3 d1 d2 d3 * Zg.dih_p1 b1 b2 b3 d1 d2 d3 + Zg.dih_p2 b1 b2 b3 d1 d2 d3 * Zg.dih_p2 b1 b2 b3 d1 d2 d3
  = dot (cross b1 b2) (cross b1 b2) * dot (cross b2 b3) (cross b2 b3).
Proof.
  intros b1 b2 b3 d1 d2 d3 H. destr3 b1; destr3 b2; destr3 b3. revert H. vec_unfold. intros H.
  match goal with |- ?a * d2 * (?a * d2) + ?c = _ => transitivity (a * a * (d2 * d2) + c); [ring|] end. rewrite H. ring.
Qed.

(* reverse_invariant: listing the atoms in the opposite order turns (b1,b2,b3) into (-b3,-b2,-b1) *)
Lemma reverse_dihedral : forall b1 b2 b3 d1 d2 d3,
  Zg.dih_p1 (vneg b3) (vneg b2) (vneg b1) d3 d2 d1 = Zg.dih_p1 b1 b2 b3 d1 d2 d3 /\
  Zg.dih_p2 (vneg b3) (vneg b2) (vneg b1) d3 d2 d1 = Zg.dih_p2 b1 b2 b3 d1 d2 d3.
Proof. intros. destr3 b1; destr3 b2; destr3 b3. vec_unfold. split; ring. Qed.
Lemma reverse_dihedral_atoms : forall x0 x1 x2 x3,
  dih_obs_atoms [x3; x2; x1; x0] = dih_obs_atoms [x0; x1; x2; x3].
Proof.
  intros. destr3 x0; destr3 x1; destr3 x2; destr3 x3. unfold dih_obs_atoms, dih_obs, disp. cbn [map nth Zg.dih_pairs fst snd].
  vec_unfold. tuple_eq; ring.
Qed.
Lemma reverse_angle : forall b1 b2 d1 d2,
  Zg.ang_num b2 b1 d2 d1 = Zg.ang_num b1 b2 d1 d2 /\ Zg.ang_den b2 b1 d2 d1 = Zg.ang_den b1 b2 d1 d2.
Proof. intros. destr3 b1; destr3 b2. vec_unfold. split; ring. Qed.
Lemma reverse_angle_atoms : forall x0 x1 x2,
  ang_obs_atoms [x2; x1; x0] = (match ang_obs_atoms [x0; x1; x2] with Some (n, a, b) => Some (n, b, a) | None => None end).
Proof.
  intros. destr3 x0; destr3 x1; destr3 x2. unfold ang_obs_atoms, ang_obs, disp. cbn [map nth Zg.ang_pairs fst snd].
  vec_unfold. tuple_eq; ring.
Qed.

(* mirror_negates: reflecting every bond vector in a plane negates p1 and keeps p2 *)
Lemma mirror_dihedral : forall b1 b2 b3 d1 d2 d3,
  Zg.dih_p1 (mirror_x b1) (mirror_x b2) (mirror_x b3) d1 d2 d3 = - Zg.dih_p1 b1 b2 b3 d1 d2 d3 /\
  Zg.dih_p2 (mirror_x b1) (mirror_x b2) (mirror_x b3) d1 d2 d3 = Zg.dih_p2 b1 b2 b3 d1 d2 d3.
Proof. intros. destr3 b1; destr3 b2; destr3 b3. vec_unfold. split; ring. Qed.

(* paths_agree: the reference Python formulas are the kernel formulas (same atom pairs, same polynomials) *)
Lemma paths_agree_dihedral : Zg.py_dih_pairs = Zg.dih_pairs /\
  forall b1 b2 b3 d1 d2 d3,
    Zg.dih_p1 b1 b2 b3 d1 d2 d3 = Zg.py_p1_factor b1 b2 b3 * d2 /\ Zg.py_p1_radicand b1 b2 b3 = dot b2 b2 /\
    Zg.dih_p2 b1 b2 b3 d1 d2 d3 = Zg.py_p2 b1 b2 b3.
Proof. split; [reflexivity|]. intros. destr3 b1; destr3 b2; destr3 b3. vec_unfold. repeat split; ring. Qed.
Lemma paths_agree_angle_pairs : Zg.py_ang_pairs = Zg.ang_pairs.
Proof. reflexivity. Qed.

(* the atom pairs are the documented ones: consecutive bonds of the quartet, both bonds leaving the vertex *)
Lemma pairs_documented : Zg.dih_pairs = [(0, 1); (1, 2); (2, 3)]%nat /\ Zg.ang_pairs = [(1, 0); (1, 2)]%nat.
Proof. split; reflexivity. Qed.
End ZP.

(* ============================== over R =========================================================== *)
Module RP.
Import RV RG.
Local Open Scope R_scope.
Lemma PI_pos : 0 < PI. Proof. exact PI_RGT_0. Qed.

Lemma atan2_range : forall y x, - PI < atan2 y x <= PI.
Proof.
  intros y x. unfold atan2. pose proof PI_pos as P. pose proof (atan_bound (y / x)) as [A B].
  destruct (Rlt_dec 0 x); [lra|]. destruct (Rlt_dec x 0) as [Hx|Hx].
  - destruct (Rle_dec 0 y) as [Hy|Hy].
    + (* y >= 0, x < 0: y/x <= 0 so atan <= 0 *)
      assert (y / x <= 0). { unfold Rdiv. assert (/ x < 0) by (apply Rinv_lt_0_compat; lra). nra. }
      assert (atan (y / x) <= 0). { destruct (Req_dec (y / x) 0) as [E|E]; [rewrite E, atan_0; lra|]. left. rewrite <- atan_0. apply atan_increasing. lra. }
      lra.
    + assert (0 < y / x). { unfold Rdiv. assert (/ x < 0) by (apply Rinv_lt_0_compat; lra). nra. }
      assert (0 < atan (y / x)). { rewrite <- atan_0. apply atan_increasing. lra. }
      lra.
  - destruct (Rlt_dec 0 y); [lra|]. destruct (Rlt_dec y 0); lra.
Qed.

(* quadrant of an angle in (-PI, PI] from the signs of its sine and cosine *)
Lemma cos_pos_range : forall p, - PI < p <= PI -> 0 < cos p -> - (PI / 2) < p < PI / 2.
Proof.
  intros p [L U] C. pose proof PI_pos. split.
  - destruct (Rlt_dec (- (PI / 2)) p); [assumption|]. exfalso.
    assert (cos (- p) <= 0) by (apply cos_le_0; lra). rewrite cos_neg in *. lra.
  - destruct (Rlt_dec p (PI / 2)); [assumption|]. exfalso.
    assert (cos p <= 0) by (apply cos_le_0; lra). lra.
Qed.
Lemma sin_nonneg_range : forall p, - PI < p <= PI -> 0 <= sin p -> 0 <= p.
Proof. intros p [L U] S. destruct (Rle_dec 0 p); [assumption|]. exfalso. assert (sin p < 0) by (apply sin_lt_0_var; lra). lra. Qed.
Lemma sin_neg_range : forall p, - PI < p <= PI -> sin p < 0 -> p < 0.
Proof. intros p [L U] S. destruct (Rlt_dec p 0); [assumption|]. exfalso. assert (0 <= sin p) by (apply sin_ge_0; lra). lra. Qed.

Lemma tan_shift_PI : forall p, cos p <> 0 -> tan (p - PI) = tan p /\ tan (p + PI) = tan p.
Proof.
  intros p C. unfold tan. split.
  - pose proof (neg_sin (p - PI)) as S. pose proof (neg_cos (p - PI)) as K. replace (p - PI + PI) with p in * by ring.
    assert (sin (p - PI) = - sin p) by lra. assert (cos (p - PI) = - cos p) by lra. rewrite H, H0. field. exact C.
  - rewrite neg_sin, neg_cos. field. exact C.
Qed.

(* atan2 recovers the angle of any positive multiple of (sin phi, cos phi) *)
Lemma atan2_correct : forall r p, 0 < r -> - PI < p <= PI -> atan2 (r * sin p) (r * cos p) = p.
Proof.
  intros r p R [L U]. pose proof PI_pos as P. unfold atan2.
  assert (Q : forall c, c <> 0 -> r * sin p / (r * c) = sin p / c) by (intros; field; split; lra).
  destruct (Rlt_dec 0 (r * cos p)) as [Hx|Hx].
  - assert (C : 0 < cos p) by nra. rewrite Q by lra. change (sin p / cos p) with (tan p).
    apply atan_tan. apply cos_pos_range; [lra | exact C].
  - destruct (Rlt_dec (r * cos p) 0) as [Hx'|Hx'].
    + assert (C : cos p < 0) by nra. rewrite Q by lra. change (sin p / cos p) with (tan p).
      destruct (tan_shift_PI p ltac:(lra)) as [T1 T2].
      destruct (Rle_dec 0 (r * sin p)) as [Hy|Hy].
      * assert (S : 0 <= sin p) by nra. pose proof (sin_nonneg_range p (conj L U) S) as P0.
        assert (PI / 2 < p). { destruct (Rlt_dec (PI / 2) p); [assumption|]. exfalso. assert (0 <= cos p) by (apply cos_ge_0; lra). lra. }
        rewrite <- T1. rewrite atan_tan by lra. ring.
      * assert (S : sin p < 0) by nra. pose proof (sin_neg_range p (conj L U) S) as P0.
        assert (p < - (PI / 2)). { destruct (Rlt_dec p (- (PI / 2))); [assumption|]. exfalso. assert (0 <= cos p) by (apply cos_ge_0; lra). lra. }
        rewrite <- T2. rewrite atan_tan by lra. ring.
    + assert (C : cos p = 0) by nra.
      pose proof (sin2_cos2 p) as SC. unfold Rsqr in SC. rewrite C in SC.
      destruct (Rlt_dec 0 (r * sin p)) as [Hy|Hy].
      * assert (S : 0 < sin p) by nra. pose proof (sin_nonneg_range p (conj L U) ltac:(lra)) as P0.
        destruct (cos_eq_0_2PI_0 p P0 ltac:(lra) C) as [E|E]; lra.
      * destruct (Rlt_dec (r * sin p) 0) as [Hy'|Hy'].
        -- assert (S : sin p < 0) by nra. pose proof (sin_neg_range p (conj L U) S) as P0.
           assert (C' : cos (- p) = 0) by (rewrite cos_neg; exact C).
           destruct (cos_eq_0_2PI_0 (- p) ltac:(lra) ltac:(lra) C') as [E|E]; lra.
        -- exfalso. assert (sin p = 0) by nra. nra.
Qed.

Ltac vec_unfold := unfold Rg.dih_p1, Rg.dih_p2, Rg.ang_num, Rg.ang_den,
  Rg.py_p1, Rg.py_p1_factor, Rg.py_p1_radicand, Rg.py_p2, Rg.py_cos, dot, cross, vsub, vneg, vdiv, mirror_x, vx, vy, vz; cbn [fst snd].
Ltac destr3 b := destruct b as [[? ?] ?].

Lemma dot_self_nonneg : forall u, 0 <= dot u u.
Proof. intros [[a b] c]. unfold dot, vx, vy, vz. cbn [fst snd]. nra. Qed.
Lemma norm_sq : forall u, norm u * norm u = dot u u.
Proof. intros. unfold norm. apply sqrt_sqrt. apply dot_self_nonneg. Qed.
Lemma norm_nonneg : forall u, 0 <= norm u.
Proof. intros. unfold norm. apply sqrt_pos. Qed.
Lemma norm_neg : forall u, norm (vneg u) = norm u.
Proof. intros [[a b] c]. unfold norm. f_equal. unfold dot, vneg, vx, vy, vz. cbn [fst snd]. ring. Qed.
Lemma norm_mirror : forall u, norm (mirror_x u) = norm u.
Proof. intros [[a b] c]. unfold norm. f_equal. unfold dot, mirror_x, vx, vy, vz. cbn [fst snd]. ring. Qed.

(* dihedral_is_iupac: for non-degenerate bond vectors the kernel returns THE IUPAC torsion angle *)
Theorem dihedral_is_iupac : forall b1 b2 b3 phi,
  0 < norm b2 -> 0 < norm (cross b1 b2) -> 0 < norm (cross b2 b3) ->
  is_iupac_torsion b1 b2 b3 phi -> dihedral_k b1 b2 b3 = phi.
Proof.
  intros b1 b2 b3 phi N2 M1 M2 (Rg & Hc & Hs). cbv zeta in *.
  set (r := norm (cross b1 b2) * norm (cross b2 b3)) in *.
  assert (Rpos : 0 < r) by (unfold r; apply Rmult_lt_0_compat; assumption).
  unfold dihedral_k.
  assert (E2 : Rg.dih_p2 b1 b2 b3 (norm b1) (norm b2) (norm b3) = r * cos phi).
  { rewrite Rmult_comm, Hc. destr3 b1; destr3 b2; destr3 b3. vec_unfold. ring. }
  assert (E1 : Rg.dih_p1 b1 b2 b3 (norm b1) (norm b2) (norm b3) = r * sin phi).
  { rewrite Rmult_comm, Hs. pose proof (norm_sq b2) as Q. apply (Rmult_eq_reg_r (norm b2)); [|lra].
    unfold Rdiv. rewrite Rmult_assoc, Rinv_l, Rmult_1_r by lra.
    revert Q. generalize (norm b2) as d. intros d Q. destr3 b1; destr3 b2; destr3 b3. revert Q. vec_unfold. intros Q.
    match goal with |- ?a * d * d = _ => transitivity (a * (d * d)); [ring|] end. rewrite Q. ring. }
  rewrite E1, E2. apply atan2_correct; assumption.
Qed.

Theorem dihedral_range : forall b1 b2 b3, - PI < dihedral_k b1 b2 b3 <= PI.
Proof. intros. apply atan2_range. Qed.

Lemma clip_bounds : forall c, -1 <= clip c <= 1.
Proof. intros. unfold clip. destruct (Rlt_dec c (-1)); [lra|]. destruct (Rlt_dec 1 c); lra. Qed.
Theorem angle_range : forall b1 b2, 0 <= angle_k b1 b2 <= PI.
Proof. intros. apply acos_bound. Qed.

(* the clipped quotient is the cosine of the angle between the two bond vectors; acos returns that angle *)
Theorem angle_is_geometric : forall u v theta, 0 < norm u -> 0 < norm v ->
  is_angle_between u v theta -> angle_k u v = theta.
Proof.
  intros u v theta Nu Nv [Rg Hc]. unfold angle_k.
  assert (E : Rg.ang_num u v (norm u) (norm v) / Rg.ang_den u v (norm u) (norm v) = cos theta).
  { unfold Rg.ang_num, Rg.ang_den. rewrite <- Hc. field. split; lra. }
  rewrite E. pose proof (COS_bound theta) as [C1 C2]. unfold clip.
  destruct (Rlt_dec (cos theta) (-1)); [lra|]. destruct (Rlt_dec 1 (cos theta)); [lra|].
  apply acos_cos. exact Rg.
Qed.

(* reverse_invariant *)
Theorem reverse_invariant_dihedral : forall b1 b2 b3,
  dihedral_k (vneg b3) (vneg b2) (vneg b1) = dihedral_k b1 b2 b3.
Proof.
  intros. unfold dihedral_k. rewrite !norm_neg. f_equal.
  - generalize (norm b1), (norm b2), (norm b3). intros. destr3 b1; destr3 b2; destr3 b3. vec_unfold. ring.
  - generalize (norm b1), (norm b2), (norm b3). intros. destr3 b1; destr3 b2; destr3 b3. vec_unfold. ring.
Qed.
Theorem reverse_invariant_angle : forall b1 b2, angle_k b2 b1 = angle_k b1 b2.
Proof.
  intros. unfold angle_k. f_equal. f_equal. generalize (norm b1), (norm b2). intros. destr3 b1; destr3 b2. vec_unfold.
  f_equal; ring.
Qed.

(* mirror_negates *)
Lemma atan2_odd : forall y x, y <> 0 -> atan2 (- y) x = - atan2 y x.
Proof.
  intros y x Hy. unfold atan2. pose proof PI_pos.
  assert (Q : - y / x = - (y / x)) by (unfold Rdiv; ring).
  destruct (Rlt_dec 0 x); [rewrite Q, atan_opp; reflexivity|].
  destruct (Rlt_dec x 0).
  - rewrite Q, atan_opp. destruct (Rle_dec 0 (- y)), (Rle_dec 0 y); try lra.
  - destruct (Rlt_dec 0 (- y)), (Rlt_dec 0 y), (Rlt_dec (- y) 0), (Rlt_dec y 0); lra.
Qed.
Theorem mirror_negates : forall b1 b2 b3,
  Rg.dih_p1 b1 b2 b3 (norm b1) (norm b2) (norm b3) <> 0 ->
  dihedral_k (mirror_x b1) (mirror_x b2) (mirror_x b3) = - dihedral_k b1 b2 b3.
Proof.
  intros b1 b2 b3 H. unfold dihedral_k in *. rewrite !norm_mirror.
  assert (E1 : forall d1 d2 d3, Rg.dih_p1 (mirror_x b1) (mirror_x b2) (mirror_x b3) d1 d2 d3 = - Rg.dih_p1 b1 b2 b3 d1 d2 d3)
    by (intros; destr3 b1; destr3 b2; destr3 b3; vec_unfold; ring).
  assert (E2 : forall d1 d2 d3, Rg.dih_p2 (mirror_x b1) (mirror_x b2) (mirror_x b3) d1 d2 d3 = Rg.dih_p2 b1 b2 b3 d1 d2 d3)
    by (intros; destr3 b1; destr3 b2; destr3 b3; vec_unfold; ring).
  rewrite E1, E2. apply atan2_odd. exact H.
Qed.

(* paths_agree: opt=True and opt=False evaluate the same real expressions *)
Theorem paths_agree_dihedral : forall b1 b2 b3, dihedral_py b1 b2 b3 = dihedral_k b1 b2 b3.
Proof.
  intros. unfold dihedral_py, dihedral_k.
  assert (E1 : Rg.py_p1 b1 b2 b3 = Rg.dih_p1 b1 b2 b3 (norm b1) (norm b2) (norm b3)).
  { unfold Rg.py_p1, norm. generalize (sqrt (dot b1 b1)), (sqrt (dot b3 b3)). intros.
    replace (Rg.py_p1_radicand b1 b2 b3) with (dot b2 b2) by (destr3 b1; destr3 b2; destr3 b3; vec_unfold; ring).
    generalize (sqrt (dot b2 b2)). intros. destr3 b1; destr3 b2; destr3 b3. vec_unfold. ring. }
  assert (E2 : Rg.py_p2 b1 b2 b3 = Rg.dih_p2 b1 b2 b3 (norm b1) (norm b2) (norm b3)).
  { generalize (norm b1), (norm b2), (norm b3). intros. destr3 b1; destr3 b2; destr3 b3. vec_unfold. ring. }
  rewrite E1, E2. reflexivity.
Qed.
Theorem paths_agree_angle : forall b1 b2, 0 < norm b1 -> 0 < norm b2 -> angle_py b1 b2 = angle_k b1 b2.
Proof.
  intros b1 b2 N1 N2. unfold angle_py, angle_k.
  assert (E : Rg.py_cos b1 b2 = Rg.ang_num b1 b2 (norm b1) (norm b2) / Rg.ang_den b1 b2 (norm b1) (norm b2)).
  { unfold Rg.py_cos, Rg.ang_num, Rg.ang_den, norm in *.
    revert N1 N2. generalize (sqrt (dot b1 b1)), (sqrt (dot b2 b2)). intros s1 s2 N1 N2.
    destr3 b1; destr3 b2. unfold dot, vdiv, vx, vy, vz. cbn [fst snd]. field. split; lra. }
  rewrite E. reflexivity.
Qed.
(* non-vacuity of dihedral_is_iupac: b1 = x, b2 = y, b3 = z is a right-handed quarter turn *)
Lemma iupac_example :
  let b1 := (1, 0, 0) in let b2 := (0, 1, 0) in let b3 := (0, 0, 1) in
  0 < norm b2 /\ 0 < norm (cross b1 b2) /\ 0 < norm (cross b2 b3) /\ is_iupac_torsion b1 b2 b3 (PI / 2).
Proof.
  cbv zeta. pose proof PI_pos as P.
  assert (N1 : forall u, dot u u = 1 -> norm u = 1) by (intros u H; unfold norm; rewrite H; apply sqrt_1).
  assert (A : norm (0, 1, 0) = 1) by (apply N1; unfold dot, vx, vy, vz; cbn; ring).
  assert (B : norm (cross (1, 0, 0) (0, 1, 0)) = 1) by (apply N1; unfold dot, cross, vx, vy, vz; cbn; ring).
  assert (C : norm (cross (0, 1, 0) (0, 0, 1)) = 1) by (apply N1; unfold dot, cross, vx, vy, vz; cbn; ring).
  split; [rewrite A; lra|]. split; [rewrite B; lra|]. split; [rewrite C; lra|].
  unfold is_iupac_torsion. cbv zeta. rewrite A, B, C, cos_PI2, sin_PI2. repeat split; try lra.
  - unfold dot, cross, vx, vy, vz; cbn; ring.
  - unfold dot, cross, vx, vy, vz; cbn. field.
Qed.
End RP.
