(* C07 -- three-dimensional vectors over Z and over R.  Definitions only (imported by the generated
   MD.Gen.GeomFormulas).  cross/dot are the mathematical operations; that vectorize_sse.h:cross/dot3 and
   numpy.cross/sum compute them is part of the trusted base (tied by the correspondence run). *)
From Coq Require Import ZArith Reals.

Module ZV.
Local Open Scope Z_scope.
Definition V := (Z * Z * Z)%type.
Definition vx (v : V) : Z := fst (fst v).
Definition vy (v : V) : Z := snd (fst v).
Definition vz (v : V) : Z := snd v.
Definition dot (u v : V) : Z := vx u * vx v + vy u * vy v + vz u * vz v.
Definition cross (u v : V) : V :=
  (vy u * vz v - vz u * vy v, vz u * vx v - vx u * vz v, vx u * vy v - vy u * vx v).
Definition vsub (u v : V) : V := (vx u - vx v, vy u - vy v, vz u - vz v).
Definition vneg (u : V) : V := (- vx u, - vy u, - vz u).
Definition mirror_x (u : V) : V := (- vx u, vy u, vz u).
End ZV.

Module RV.
Local Open Scope R_scope.
Definition V := (R * R * R)%type.
Definition vx (v : V) : R := fst (fst v).
Definition vy (v : V) : R := snd (fst v).
Definition vz (v : V) : R := snd v.
Definition dot (u v : V) : R := vx u * vx v + vy u * vy v + vz u * vz v.
Definition cross (u v : V) : V :=
  (vy u * vz v - vz u * vy v, vz u * vx v - vx u * vz v, vx u * vy v - vy u * vx v).
Definition vsub (u v : V) : V := (vx u - vx v, vy u - vy v, vz u - vz v).
Definition vneg (u : V) : V := (- vx u, - vy u, - vz u).
Definition vscale (s : R) (u : V) : V := (s * vx u, s * vy u, s * vz u).
Definition vdiv (u : V) (s : R) : V := (vx u / s, vy u / s, vz u / s).
Definition norm (u : V) : R := sqrt (dot u u).
Definition mirror_x (u : V) : V := (- vx u, vy u, vz u).
End RV.
