(* C07 -- periodic_uses_mic: the periodic angle/dihedral kernels evaluate their formulas on the minimum-image
   displacements of property C05's model (MD.PBC), frame by frame with that frame's cell; consequences:
   true minimum images (C05 theorems), invariance under lattice translations of the atoms.  Closed proofs. *)
From Coq Require Import ZArith List Bool Lia.
Import ListNotations.
Require Import MD.PBC.Model MD.PBC.Proofs MD.Geom.Vec MD.Gen.GeomFormulas MD.Geom.Model MD.Geom.Periodic.
Local Open Scope Z_scope.

(* --- the kernels hand frame j's cell to the displacement primitives ----------------------------------- *)
Lemma kernel_rows_displacements : forall opt periodic xyz boxes pairs so st,
  (forall j, so j = j) -> (forall j, st j = j) ->
  kernel_rows opt periodic xyz boxes pairs so st = displacements opt periodic xyz boxes pairs.
Proof.
  intros opt periodic xyz boxes pairs so st Ho Ht. unfold kernel_rows, displacements. f_equal. apply map_ext.
  intros [j f]. cbn [fst snd]. replace (box_sel (dispatch opt periodic boxes) so st j) with j; [reflexivity|].
  unfold box_sel. destruct (dispatch opt periodic boxes); auto.
Qed.
Theorem periodic_uses_mic_rows : forall opt periodic xyz boxes q t,
  kernel_rows opt periodic xyz boxes (atom_pairs Zg.dih_pairs q) Calls.dih_box_frame_ortho Calls.dih_box_frame_tric
    = displacements opt periodic xyz boxes (atom_pairs Zg.dih_pairs q) /\
  kernel_rows opt periodic xyz boxes (atom_pairs Zg.ang_pairs t) Calls.ang_box_frame_ortho Calls.ang_box_frame_tric
    = displacements opt periodic xyz boxes (atom_pairs Zg.ang_pairs t).
Proof. intros. split; apply kernel_rows_displacements; intros j; reflexivity. Qed.

(* --- one entry of PBC.displacements ------------------------------------------------------------------- *)
Lemma nth_error_combine_seq : forall (A : Type) (l : list A) s j x, nth_error l j = Some x ->
  nth_error (combine (seq s (length l)) l) j = Some ((s + j)%nat, x).
Proof.
  intros A l. induction l as [|a l IH]; intros s j x H; [destruct j; discriminate|].
  cbn [length seq combine]. destruct j as [|j]; cbn [nth_error] in *.
  - injection H as <-. rewrite Nat.add_0_r. reflexivity.
  - rewrite (IH (S s) j x H). f_equal. f_equal. lia.
Qed.
Lemma displacements_entry : forall opt periodic xyz boxes pairs out j f B k pr x1 x2,
  displacements opt periodic xyz boxes pairs = Some out ->
  nth_error xyz j = Some f -> box_at boxes j = Some B -> nth_error pairs k = Some pr ->
  nth_error f (fst pr) = Some x1 -> nth_error f (snd pr) = Some x2 ->
  exists row, nth_error out j = Some row /\
              nth_error row k = Some (path_disp (dispatch opt periodic boxes) B (vsub x2 x1)).
Proof.
  intros opt periodic xyz boxes pairs out j f B k pr x1 x2 E Hf HB Hp H1 H2. unfold displacements in E.
  set (p := dispatch opt periodic boxes) in *.
  set (g := fun fi : nat * frame => match box_at boxes (fst fi) with
      | None => None
      | Some B0 => if box_ok p B0 then opt_all (map (fun pr0 => option_map (path_disp p B0) (sep (snd fi) (snd fi) pr0)) pairs) else None
      end) in *.
  pose proof (nth_error_combine_seq _ xyz 0%nat j f Hf) as Hc. cbn [Nat.add] in Hc.
  assert (Hm : nth_error (map g (combine (seq 0 (length xyz)) xyz)) j = Some (g (j, f))) by (apply map_nth_error; exact Hc).
  destruct (g (j, f)) as [row|] eqn:Eg.
  - exists row. split; [apply (opt_all_nth _ out j row E Hm)|].
    unfold g in Eg. cbn [fst snd] in Eg. rewrite HB in Eg. destruct (box_ok p B); [|discriminate].
    apply (opt_all_nth _ row k _ Eg). erewrite map_nth_error by exact Hp. unfold sep. rewrite H1, H2. reflexivity.
  - exfalso. clear -E Hm. revert out j E Hm. generalize (map g (combine (seq 0 (length xyz)) xyz)) as l.
    induction l as [|o l IH]; intros out j E Hm; [destruct j; discriminate|].
    cbn [opt_all] in E. destruct o as [y|]; [|discriminate]. destruct (opt_all l) eqn:El; [|discriminate].
    destruct j as [|j]; cbn [nth_error] in Hm; [discriminate | eapply IH; [reflexivity | exact Hm]].
Qed.

Lemma opt_all_map_nth : forall (A B : Type) (f : A -> option B) l out j a, opt_all (map f l) = Some out ->
  nth_error l j = Some a -> exists b, f a = Some b /\ nth_error out j = Some b.
Proof.
  intros A B f l. induction l as [|x l IH]; intros out j a E H; [destruct j; discriminate|].
  cbn [map opt_all] in E. destruct (f x) as [y|] eqn:Ef; [|discriminate]. destruct (opt_all (map f l)) as [r|] eqn:El; [|discriminate].
  injection E as <-. destruct j as [|j]; cbn [nth_error] in *.
  - injection H as <-. exists y. split; [exact Ef | reflexivity].
  - apply (IH r j a eq_refl H).
Qed.

(* periodic_uses_mic: in every frame j the dihedral kernel's observables are those of the three PBC-model
   displacements x1-x0, x2-x1, x3-x2 computed with the cell of frame j (and likewise for angles) *)
Theorem periodic_uses_mic_dihedral : forall opt periodic xyz boxes a0 a1 a2 a3 out j f B x0 x1 x2 x3,
  dihedral_traj opt periodic xyz boxes [a0; a1; a2; a3] = Some out ->
  nth_error xyz j = Some f -> box_at boxes j = Some B ->
  nth_error f a0 = Some x0 -> nth_error f a1 = Some x1 -> nth_error f a2 = Some x2 -> nth_error f a3 = Some x3 ->
  let p := dispatch opt periodic boxes in
  nth_error out j = Some (ZG.dih_obs (path_disp p B (vsub x1 x0)) (path_disp p B (vsub x2 x1)) (path_disp p B (vsub x3 x2))).
Proof.
  intros opt periodic xyz boxes a0 a1 a2 a3 out j f B x0 x1 x2 x3 E Hf HB H0 H1 H2 H3 p. unfold dihedral_traj in E.
  rewrite (proj1 (periodic_uses_mic_rows opt periodic xyz boxes [a0; a1; a2; a3] [])) in E.
  destruct (displacements opt periodic xyz boxes (atom_pairs Zg.dih_pairs [a0; a1; a2; a3])) as [rows|] eqn:ED; [|discriminate].
  change (atom_pairs Zg.dih_pairs [a0; a1; a2; a3]) with [(a0, a1); (a1, a2); (a2, a3)] in ED.
  destruct (displacements_entry _ _ _ _ _ _ j f B 0%nat (a0, a1) x0 x1 ED Hf HB eq_refl H0 H1) as (row & Hr & R0).
  destruct (displacements_entry _ _ _ _ _ _ j f B 1%nat (a1, a2) x1 x2 ED Hf HB eq_refl H1 H2) as (row' & Hr' & R1).
  destruct (displacements_entry _ _ _ _ _ _ j f B 2%nat (a2, a3) x2 x3 ED Hf HB eq_refl H2 H3) as (row'' & Hr'' & R2).
  rewrite Hr in Hr', Hr''. injection Hr' as <-. injection Hr'' as <-.
  destruct (opt_all_map_nth _ _ obs3 rows out j row E Hr) as (b & Hb & Ho). rewrite Ho. f_equal.
  destruct row as [|b1 [|b2 [|b3 [|b4 r]]]]; cbn [obs3] in Hb; try discriminate.
  cbn [nth_error] in R0, R1, R2. injection R0 as ->. injection R1 as ->. injection R2 as ->. injection Hb as <-. reflexivity.
Qed.
Theorem periodic_uses_mic_angle : forall opt periodic xyz boxes a0 a1 a2 out j f B x0 x1 x2,
  angle_traj opt periodic xyz boxes [a0; a1; a2] = Some out ->
  nth_error xyz j = Some f -> box_at boxes j = Some B ->
  nth_error f a0 = Some x0 -> nth_error f a1 = Some x1 -> nth_error f a2 = Some x2 ->
  let p := dispatch opt periodic boxes in
  nth_error out j = Some (ZG.ang_obs (path_disp p B (vsub x0 x1)) (path_disp p B (vsub x2 x1))).
Proof.
  intros opt periodic xyz boxes a0 a1 a2 out j f B x0 x1 x2 E Hf HB H0 H1 H2 p. unfold angle_traj in E.
  rewrite (proj2 (periodic_uses_mic_rows opt periodic xyz boxes [] [a0; a1; a2])) in E.
  destruct (displacements opt periodic xyz boxes (atom_pairs Zg.ang_pairs [a0; a1; a2])) as [rows|] eqn:ED; [|discriminate].
  change (atom_pairs Zg.ang_pairs [a0; a1; a2]) with [(a1, a0); (a1, a2)] in ED.
  destruct (displacements_entry _ _ _ _ _ _ j f B 0%nat (a1, a0) x1 x0 ED Hf HB eq_refl H1 H0) as (row & Hr & R0).
  destruct (displacements_entry _ _ _ _ _ _ j f B 1%nat (a1, a2) x1 x2 ED Hf HB eq_refl H1 H2) as (row' & Hr' & R1).
  rewrite Hr in Hr'. injection Hr' as <-.
  destruct (opt_all_map_nth _ _ obs2 rows out j row E Hr) as (b & Hb & Ho). rewrite Ho. f_equal.
  destruct row as [|b1 [|b2 [|b3 r]]]; cbn [obs2] in Hb; try discriminate.
  cbn [nth_error] in R0, R1. injection R0 as ->. injection R1 as ->. injection Hb as <-. reflexivity.
Qed.

(* --- consequences of the C05 theorems -------------------------------------------------------------- *)
Definition tric_path (p : path) : Prop := p = PTricCpp \/ p = PTricNp.

(* triclinic cells (C++ and numpy): if each bond has an image below half of every cell width, the kernels
   work on exactly those images and they are the shortest of ALL images *)
Theorem dihedral_of_minimum_images : forall p B r1 r2 r3 n1 n2 n3, tric_path p -> lower_tri_pos B ->
  let v1 := vadd r1 (comb B n1) in let v2 := vadd r2 (comb B n2) in let v3 := vadd r3 (comb B n3) in
  below_half_widths B v1 -> below_half_widths B v2 -> below_half_widths B v3 ->
  ZG.dih_obs (path_disp p B r1) (path_disp p B r2) (path_disp p B r3) = ZG.dih_obs v1 v2 v3 /\
  (forall n, norm2 v1 <= norm2 (vadd r1 (comb B n))) /\ (forall n, norm2 v2 <= norm2 (vadd r2 (comb B n))) /\
  (forall n, norm2 v3 <= norm2 (vadd r3 (comb B n))).
Proof.
  intros p B r1 r2 r3 n1 n2 n3 Hp HB v1 v2 v3 W1 W2 W3.
  destruct (tric_paths_minimal_halfwidth p B r1 n1 Hp HB W1) as [E1 M1].
  destruct (tric_paths_minimal_halfwidth p B r2 n2 Hp HB W2) as [E2 M2].
  destruct (tric_paths_minimal_halfwidth p B r3 n3 Hp HB W3) as [E3 M3].
  rewrite E1, E2, E3. repeat split; assumption.
Qed.
Theorem angle_of_minimum_images : forall p B r1 r2 n1 n2, tric_path p -> lower_tri_pos B ->
  let v1 := vadd r1 (comb B n1) in let v2 := vadd r2 (comb B n2) in
  below_half_widths B v1 -> below_half_widths B v2 ->
  ZG.ang_obs (path_disp p B r1) (path_disp p B r2) = ZG.ang_obs v1 v2 /\
  (forall n, norm2 v1 <= norm2 (vadd r1 (comb B n))) /\ (forall n, norm2 v2 <= norm2 (vadd r2 (comb B n))).
Proof.
  intros p B r1 r2 n1 n2 Hp HB v1 v2 W1 W2.
  destruct (tric_paths_minimal_halfwidth p B r1 n1 Hp HB W1) as [E1 M1].
  destruct (tric_paths_minimal_halfwidth p B r2 n2 Hp HB W2) as [E2 M2].
  rewrite E1, E2. repeat split; assumption.
Qed.

(* moving atoms by lattice vectors changes every separation by a lattice vector *)
Lemma comb_neg : forall B t, comb B (vneg t) = vneg (comb B t).
Proof.
  intros B [[a b] c]. destruct B as [[[a0 a1] a2] [[b0 b1] b2] [[c0 c1] c2]].
  unfold comb, vneg, vadd, vscale, vx, vy, vz. cbn [fst snd ba bb bc]. apply vec_ext; unfold vx, vy, vz; cbn [fst snd]; ring.
Qed.
Lemma sep_shift : forall B x1 x2 t1 t2,
  vsub (vadd x2 (comb B t2)) (vadd x1 (comb B t1)) = vadd (vsub x2 x1) (comb B (vadd t2 (vneg t1))).
Proof.
  intros. rewrite comb_add, comb_neg. destruct x1 as [[? ?] ?], x2 as [[? ?] ?], (comb B t1) as [[? ?] ?], (comb B t2) as [[? ?] ?].
  unfold vsub, vadd, vneg, vx, vy, vz. cbn [fst snd]. apply vec_ext; unfold vx, vy, vz; cbn [fst snd]; ring.
Qed.
Lemma disp_shift_halfwidth : forall p B r n t, tric_path p -> lower_tri_pos B ->
  below_half_widths B (vadd r (comb B n)) -> path_disp p B (vadd r (comb B t)) = path_disp p B r.
Proof.
  intros p B r n t Hp HB W.
  destruct (tric_paths_minimal_halfwidth p B r n Hp HB W) as [E _]. rewrite E.
  assert (Ev : vadd r (comb B n) = vadd (vadd r (comb B t)) (comb B (vadd n (vneg t)))).
  { rewrite comb_add, comb_neg. destruct r as [[? ?] ?], (comb B n) as [[? ?] ?], (comb B t) as [[? ?] ?].
    unfold vadd, vneg, vx, vy, vz. cbn [fst snd]. apply vec_ext; unfold vx, vy, vz; cbn [fst snd]; ring. }
  rewrite Ev in W |- *. destruct (tric_paths_minimal_halfwidth p B (vadd r (comb B t)) (vadd n (vneg t)) Hp HB W) as [E' _]. exact E'.
Qed.

(* lattice-shift invariance (triclinic paths, bonds below the half widths): translating each of the four atoms
   by its own lattice vector leaves the observables of the dihedral unchanged; same for angles *)
Theorem dihedral_lattice_shift_invariant : forall p B x0 x1 x2 x3 t0 t1 t2 t3 n1 n2 n3, tric_path p -> lower_tri_pos B ->
  below_half_widths B (vadd (vsub x1 x0) (comb B n1)) -> below_half_widths B (vadd (vsub x2 x1) (comb B n2)) ->
  below_half_widths B (vadd (vsub x3 x2) (comb B n3)) ->
  let s := fun x t => vadd x (comb B t) in
  ZG.dih_obs (path_disp p B (vsub (s x1 t1) (s x0 t0))) (path_disp p B (vsub (s x2 t2) (s x1 t1))) (path_disp p B (vsub (s x3 t3) (s x2 t2)))
  = ZG.dih_obs (path_disp p B (vsub x1 x0)) (path_disp p B (vsub x2 x1)) (path_disp p B (vsub x3 x2)).
Proof.
  intros p B x0 x1 x2 x3 t0 t1 t2 t3 n1 n2 n3 Hp HB W1 W2 W3 s. unfold s. rewrite !sep_shift.
  rewrite (disp_shift_halfwidth p B _ n1 _ Hp HB W1), (disp_shift_halfwidth p B _ n2 _ Hp HB W2), (disp_shift_halfwidth p B _ n3 _ Hp HB W3).
  reflexivity.
Qed.
Theorem angle_lattice_shift_invariant : forall p B x0 x1 x2 t0 t1 t2 n1 n2, tric_path p -> lower_tri_pos B ->
  below_half_widths B (vadd (vsub x0 x1) (comb B n1)) -> below_half_widths B (vadd (vsub x2 x1) (comb B n2)) ->
  let s := fun x t => vadd x (comb B t) in
  ZG.ang_obs (path_disp p B (vsub (s x0 t0) (s x1 t1))) (path_disp p B (vsub (s x2 t2) (s x1 t1)))
  = ZG.ang_obs (path_disp p B (vsub x0 x1)) (path_disp p B (vsub x2 x1)).
Proof.
  intros p B x0 x1 x2 t0 t1 t2 n1 n2 Hp HB W1 W2 s. unfold s. rewrite !sep_shift.
  rewrite (disp_shift_halfwidth p B _ n1 _ Hp HB W1), (disp_shift_halfwidth p B _ n2 _ Hp HB W2). reflexivity.
Qed.

(* orthorhombic SSE kernel: for EVERY separation each bond vector is no longer than any of its images, and the
   observables are invariant under lattice shifts of the atoms unless a wrapped bond lies exactly on a cell face *)
Theorem ortho_bonds_minimal : forall p B r n, p <> PPlain -> ortho_pos B ->
  norm2 (path_disp p B r) <= norm2 (vadd r (comb B n)).
Proof. exact ortho_minimal_all_paths. Qed.
Theorem dihedral_lattice_shift_invariant_ortho : forall B x0 x1 x2 x3 t0 t1 t2 t3, ortho_pos B ->
  let p := POrthoSSE in
  strict_region B (path_disp p B (vsub x1 x0)) -> strict_region B (path_disp p B (vsub x2 x1)) ->
  strict_region B (path_disp p B (vsub x3 x2)) ->
  let s := fun x t => vadd x (comb B t) in
  ZG.dih_obs (path_disp p B (vsub (s x1 t1) (s x0 t0))) (path_disp p B (vsub (s x2 t2) (s x1 t1))) (path_disp p B (vsub (s x3 t3) (s x2 t2)))
  = ZG.dih_obs (path_disp p B (vsub x1 x0)) (path_disp p B (vsub x2 x1)) (path_disp p B (vsub x3 x2)).
Proof.
  intros B x0 x1 x2 x3 t0 t1 t2 t3 HB p S1 S2 S3 s. unfold s. rewrite !sep_shift.
  rewrite (all_paths_shift_invariant POrthoSSE B _ _ HB S1), (all_paths_shift_invariant POrthoSSE B _ _ HB S2),
          (all_paths_shift_invariant POrthoSSE B _ _ HB S3). reflexivity.
Qed.

Lemma periodic_example : exists p B r n, tric_path p /\ lower_tri_pos B /\ below_half_widths B (vadd r (comb B n)).
Proof.
  pose proof example_hyps as H. cbv zeta in H. destruct H as (HB & _ & (n & Hw) & _).
  exists PTricCpp. eexists. eexists. exists n. split; [left; reflexivity|]. split; [exact HB | exact Hw].
Qed.
