(* C07 -- model of the Python front ends angle.py:compute_angles and dihedral.py:compute_dihedrals: validation of
   the index array, treatment of the `periodic` argument, choice of the kernel.  Definitions only.

   MD.Gen.GeomGlue (regenerated on every run from the two function bodies) says how each front end tests the
   index range, the `periodic` argument and the shape of the cell; this file turns such a description into the
   function from the public arguments to the integer observables of MD.Geom.Periodic.
   Not modelled: dtype conversion by ensure_type (indices are integers here), ragged index lists. *)
From Coq Require Import ZArith List Bool.
Import ListNotations.
Require Import MD.PBC.Model MD.Geom.Vec MD.Gen.GeomFormulas MD.Geom.Model MD.Geom.Periodic.
Require Import MD.Geom.GlueTypes MD.Gen.GeomGlue.
Local Open Scope Z_scope.

Definition truth (p : pyflag) : bool := match p with PyTrue | PyTruthy => true | _ => false end.
Definition is_true (p : pyflag) : bool := match p with PyTrue => true | _ => false end.

(* the two descriptions the model knows by name: as found (2026-10) and repaired *)
Definition angles_cur : front := mkfront 3 0 true true TestIsTrue OrthoAllclose.
Definition angles_fix : front := mkfront 3 0 true true TestTruth OrthoExact.
Definition dihedrals_cur : front := mkfront 4 0 true true TestTruth OrthoAllclose.
Definition dihedrals_fix : front := mkfront 4 0 true true TestTruth OrthoExact.

(* --- validation: both ValueErrors of the front end ------------------------------------------------ *)
Inductive err := EShape | ERange.
Definition idx_ok (fr : front) (n i : Z) : bool :=
  (if f_lower_incl fr then f_lower fr <=? i else f_lower fr <? i) &&
  (if f_upper_strict fr then i <? n else i <=? n).
Definition validate (fr : front) (n : Z) (rows : list (list Z)) : option err :=
  if negb (forallb (fun r => Nat.eqb (length r) (f_width fr)) rows) then Some EShape
  else if negb (forallb (forallb (idx_ok fr n)) rows) then Some ERange
  else None.

(* --- which kernel runs ------------------------------------------------------------------------------
   close = what np.allclose(traj.unitcell_angles, 90) answers (an input: the angles are floating-point numbers
   derived from the cell); opt=False always ends in distance.compute_displacements(periodic=periodic, opt=False),
   whose own tests are truthiness and exact orthorhombicity (PBC.dispatch) *)
Definition wants_mic (fr : front) (p : pyflag) : bool :=
  match f_flag fr with TestIsTrue => is_true p | TestTruth => truth p end.
Definition ortho_answer (fr : front) (bs : list box) (close : bool) : bool :=
  match f_ortho fr with OrthoAllclose => close | OrthoExact => forallb is_orthob bs end.
Definition front_path (fr : front) (opt : bool) (p : pyflag) (boxes : option (list box)) (close : bool) : path :=
  if opt then
    match wants_mic fr p, boxes with
    | true, Some bs => if ortho_answer fr bs close then POrthoSSE else PTricCpp
    | _, _ => PPlain
    end
  else dispatch false (truth p) boxes.

(* --- bond vectors on a given path (Periodic.kernel_rows with the path made explicit) ----------------- *)
Definition rows_on (p : path) (xyz : list frame) (boxes : option (list box)) (pairs : list (nat * nat))
           (sel_ortho sel_tric : nat -> nat) : option (list (list vec)) :=
  opt_all (map (fun fi : nat * frame =>
    match box_at boxes (box_sel p sel_ortho sel_tric (fst fi)) with
    | None => None
    | Some B => if box_ok p B
                then opt_all (map (fun pr => option_map (path_disp p B) (sep (snd fi) (snd fi) pr)) pairs)
                else None
    end) (combine (seq 0 (length xyz)) xyz)).

Definition tuple_on (pos_pairs : list (nat * nat)) (obs : list vec -> option (Z * Z * Z)) (so st : nat -> nat)
           (p : path) (xyz : list frame) (boxes : option (list box)) (q : list Z) : option (list (Z * Z * Z)) :=
  match rows_on p xyz boxes (atom_pairs pos_pairs (map Z.to_nat q)) so st with
  | Some rows => opt_all (map obs rows)
  | None => None
  end.

(* --- the public functions --------------------------------------------------------------------------
   result: Raise e | Value r, r = for every index tuple the observables in every frame (None: a cell with a
   non-positive diagonal or fewer cells than frames -- outside the model).  An empty index array gives
   Value (Some []): the (n_frames, 0) array *)
Inductive outcome (A : Type) := Raise (e : err) | Value (v : A).
Arguments Raise {A}. Arguments Value {A}.

Definition api (fr : front) (pos_pairs : list (nat * nat)) (obs : list vec -> option (Z * Z * Z)) (so st : nat -> nat)
           (opt : bool) (p : pyflag) (close : bool) (n : Z) (xyz : list frame) (boxes : option (list box))
           (rows : list (list Z)) : outcome (option (list (list (Z * Z * Z)))) :=
  match validate fr n rows with
  | Some e => Raise e
  | None => Value (opt_all (map (tuple_on pos_pairs obs so st (front_path fr opt p boxes close) xyz boxes) rows))
  end.

Definition compute_angles_with (fr : front) := api fr Zg.ang_pairs obs2 Calls.ang_box_frame_ortho Calls.ang_box_frame_tric.
Definition compute_dihedrals_with (fr : front) := api fr Zg.dih_pairs obs3 Calls.dih_box_frame_ortho Calls.dih_box_frame_tric.
Definition compute_angles := compute_angles_with angles_front.
Definition compute_dihedrals := compute_dihedrals_with dihedrals_front.

(* --- entry points of the correspondence ---------------------------------------------------------------- *)
Definition path_code (p : path) : Z :=
  match p with PPlain => 0 | POrthoSSE => 1 | PTricCpp => 2 | POrthoNp => 3 | PTricNp => 4 end.
Definition flag_of (k : Z) : pyflag := if k =? 0 then PyTrue else if k =? 1 then PyFalse else if k =? 2 then PyTruthy else PyFalsy.
(* (dihedrals?, n_atoms, index rows) -> 0 accepted | 1 shape error | 2 range error *)
Definition validate_case (c : bool * Z * list (list Z)) : Z :=
  let '(dih, n, rows) := c in
  match validate (if dih then dihedrals_front else angles_front) n rows with
  | None => 0 | Some EShape => 1 | Some ERange => 2 end.
(* (dihedrals?, opt, flag code, has cell / all cells exactly orthorhombic / allclose answer) -> path code *)
Definition path_case (c : bool * bool * Z * (bool * bool * bool)) : Z :=
  let '(dih, opt, k, (has, ortho, close)) := c in
  let B := if ortho then mkbox (1, 0, 0) (0, 1, 0) (0, 0, 1) else mkbox (1, 0, 0) (1, 1, 0) (0, 0, 1) in
  path_code (front_path (if dih then dihedrals_front else angles_front) opt (flag_of k)
                        (if has then Some [B] else None) close).
(* full evaluation: (dihedrals?, opt, flag code, allclose answer, frames, cells, one index tuple) *)
Definition api_case_t := (bool * bool * Z * bool * list frame * list box * list Z)%type.
Definition api_case (c : api_case_t) : option (list (Z * Z * Z)) :=
  let '(dih, opt, k, close, xyz, bs, q) := c in
  let n := match xyz with f :: _ => Z.of_nat (length f) | [] => 0 end in
  match (if dih then compute_dihedrals else compute_angles) opt (flag_of k) close n xyz (Some bs) [q] with
  | Value (Some [r]) => Some r
  | _ => None
  end.
