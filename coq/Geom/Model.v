(* C07 -- model of compute_angles / compute_dihedrals.  Definitions only.

   MD.Gen.GeomFormulas (regenerated on every run) holds what the kernels and the reference Python functions
   compute from the bond vectors: which atom pairs make the bond vectors (pairs[] patterns), the two
   arguments of atan2 and the quotient whose clipped acos is the angle.  This file adds the way bond vectors
   are formed from atom positions without a cell (displacement = second atom minus first), the
   observables the correspondence compares, and the real-valued angle functions.
   With a cell the bond vectors are minimum-image displacements: the model takes them as inputs
   (minimum-image theory is property C05's); the correspondence supplies them by brute force over images.
   Float32 rounding is outside the model. *)
From Coq Require Import ZArith Reals List.
Import ListNotations.
Require Import MD.Geom.Vec MD.Gen.GeomFormulas.

Module ZG.
Import ZV.
Local Open Scope Z_scope.

(* displacement kernels without a cell (distancekernels.h:dist, distance.py:_displacement): r12 = pos2 - pos1 *)
Definition disp (atoms : list V) (p : nat * nat) : V :=
  vsub (nth (snd p) atoms (0, 0, 0)) (nth (fst p) atoms (0, 0, 0)).

(* dihedral of four atoms: the integer observables (T, p2, B) with  p1 = sqrt(B) * T  *)
Definition dih_obs (b1 b2 b3 : V) : Z * Z * Z :=
  (Zg.dih_p1 b1 b2 b3 1 1 1, Zg.dih_p2 b1 b2 b3 1 1 1, dot b2 b2).
Definition dih_obs_atoms (atoms : list V) : option (Z * Z * Z) :=
  match map (disp atoms) Zg.dih_pairs with
  | [b1; b2; b3] => Some (dih_obs b1 b2 b3)
  | _ => None
  end.
(* angle of three atoms: cos = N / sqrt(D1 * D2) *)
Definition ang_obs (b1 b2 : V) : Z * Z * Z := (Zg.ang_num b1 b2 1 1, dot b1 b1, dot b2 b2).
Definition ang_obs_atoms (atoms : list V) : option (Z * Z * Z) :=
  match map (disp atoms) Zg.ang_pairs with
  | [b1; b2] => Some (ang_obs b1 b2)
  | _ => None
  end.

Definition obs_eqb (x y : option (Z * Z * Z)) : bool :=
  match x, y with
  | Some (a, b, c), Some (a', b', c') => (a =? a') && (b =? b') && (c =? c')
  | None, None => true
  | _, _ => false
  end%bool.
(* entry points of the correspondence: 4 (resp. 3) atoms, or 3 (resp. 2) bond vectors given directly *)
Definition dih_case (c : bool * list V) : option (Z * Z * Z) :=
  if fst c then dih_obs_atoms (snd c)
  else match snd c with [b1; b2; b3] => Some (dih_obs b1 b2 b3) | _ => None end.
Definition ang_case (c : bool * list V) : option (Z * Z * Z) :=
  if fst c then ang_obs_atoms (snd c)
  else match snd c with [b1; b2] => Some (ang_obs b1 b2) | _ => None end.
End ZG.

Module RG.
Import RV.
Local Open Scope R_scope.

(* atan2 as computed by atan2f / numpy.arctan2 for finite arguments (the value at (0,0) is 0) *)
Definition atan2 (y x : R) : R :=
  if Rlt_dec 0 x then atan (y / x)
  else if Rlt_dec x 0 then (if Rle_dec 0 y then atan (y / x) + PI else atan (y / x) - PI)
  else if Rlt_dec 0 y then PI / 2 else if Rlt_dec y 0 then - PI / 2 else 0.

Definition clip (c : R) : R := if Rlt_dec c (-1) then -1 else if Rlt_dec 1 c then 1 else c.

(* what the optimised kernels return, from bond vectors (d_k = |b_k| as returned by the displacement kernel) *)
Definition dihedral_k (b1 b2 b3 : V) : R :=
  atan2 (Rg.dih_p1 b1 b2 b3 (norm b1) (norm b2) (norm b3)) (Rg.dih_p2 b1 b2 b3 (norm b1) (norm b2) (norm b3)).
Definition angle_k (b1 b2 : V) : R :=
  acos (clip (Rg.ang_num b1 b2 (norm b1) (norm b2) / Rg.ang_den b1 b2 (norm b1) (norm b2))).
(* what the reference Python functions return *)
Definition dihedral_py (b1 b2 b3 : V) : R := atan2 (Rg.py_p1 b1 b2 b3) (Rg.py_p2 b1 b2 b3).
Definition angle_py (b1 b2 : V) : R := acos (clip (Rg.py_cos b1 b2)).

(* IUPAC torsion of the bond vectors b1 b2 b3: the angle phi in (-pi, pi] from the normal n1 = b1 x b2 to the
   normal n2 = b2 x b3, counted positive when (n1 x n2) points along b2 *)
Definition is_iupac_torsion (b1 b2 b3 : V) (phi : R) : Prop :=
  let n1 := cross b1 b2 in let n2 := cross b2 b3 in
  - PI < phi <= PI /\
  cos phi * (norm n1 * norm n2) = dot n1 n2 /\
  sin phi * (norm n1 * norm n2) = dot (cross n1 n2) b2 / norm b2.
(* the angle in [0, pi] between two vectors *)
Definition is_angle_between (u v : V) (theta : R) : Prop :=
  0 <= theta <= PI /\ cos theta * (norm u * norm v) = dot u v.
End RG.
