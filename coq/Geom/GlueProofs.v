(* C07 -- theorems about the model of the Python front ends (MD.Geom.Glue).  Closed proofs. *)
From Coq Require Import ZArith List Bool Lia.
Import ListNotations.
Require Import MD.PBC.Model MD.Geom.Vec MD.Gen.GeomFormulas MD.Geom.Model MD.Geom.Periodic.
Require Import MD.Geom.GlueTypes MD.Gen.GeomGlue MD.Geom.Glue.
Local Open Scope Z_scope.

(* --- validation ------------------------------------------------------------------------------------- *)
Definition documented_range (fr : front) : Prop :=
  f_lower fr = 0 /\ f_lower_incl fr = true /\ f_upper_strict fr = true.
Definition good_rows (w : nat) (n : Z) (rows : list (list Z)) : Prop :=
  Forall (fun r => length r = w /\ Forall (fun i => 0 <= i < n) r) rows.

Lemma idx_ok_doc : forall fr n i, documented_range fr -> idx_ok fr n i = true <-> 0 <= i < n.
Proof.
  intros fr n i (Hl & Hi & Hu). unfold idx_ok. rewrite Hl, Hi, Hu. rewrite andb_true_iff, Z.leb_le, Z.ltb_lt. tauto.
Qed.

Lemma validate_none_iff : forall fr n rows, documented_range fr ->
  validate fr n rows = None <-> good_rows (f_width fr) n rows.
Proof.
  intros fr n rows Hd. unfold validate, good_rows.
  destruct (forallb (fun r => Nat.eqb (length r) (f_width fr)) rows) eqn:Es; cbn [negb].
  - destruct (forallb (forallb (idx_ok fr n)) rows) eqn:Er; cbn [negb].
    + split; [intros _|reflexivity]. rewrite forallb_forall in Es, Er. apply Forall_forall. intros r Hr. split.
      * apply Nat.eqb_eq, Es, Hr.
      * apply Forall_forall. intros i Hi. apply (idx_ok_doc fr n i Hd).
        specialize (Er r Hr). rewrite forallb_forall in Er. apply Er, Hi.
    + split; [discriminate|]. intros H. exfalso.
      assert (forallb (forallb (idx_ok fr n)) rows = true); [|congruence].
      apply forallb_forall. intros r Hr. apply forallb_forall. intros i Hi.
      rewrite Forall_forall in H. destruct (H r Hr) as (_ & Hx). rewrite Forall_forall in Hx.
      apply (idx_ok_doc fr n i Hd), Hx, Hi.
  - split; [discriminate|]. intros H. exfalso.
    assert (forallb (fun r => Nat.eqb (length r) (f_width fr)) rows = true); [|congruence].
    apply forallb_forall. intros r Hr. rewrite Forall_forall in H. apply Nat.eqb_eq, (H r Hr).
Qed.

(* which error: a row of the wrong width is reported before any index is looked at *)
Lemma validate_shape_iff : forall fr n rows,
  validate fr n rows = Some EShape <-> exists r, In r rows /\ length r <> f_width fr.
Proof.
  intros fr n rows. unfold validate.
  destruct (forallb (fun r => Nat.eqb (length r) (f_width fr)) rows) eqn:Es; cbn [negb].
  - split.
    + destruct (negb (forallb (forallb (idx_ok fr n)) rows)); discriminate.
    + intros (r & Hr & Hn). rewrite forallb_forall in Es. apply Es, Nat.eqb_eq in Hr. contradiction.
  - split; [intros _|reflexivity].
    assert (H : ~ (forall r, In r rows -> Nat.eqb (length r) (f_width fr) = true)).
    { intros H. apply forallb_forall in H. congruence. }
    clear Es. induction rows as [|r rows IH]; [exfalso; apply H; intros r []|].
    destruct (Nat.eqb (length r) (f_width fr)) eqn:E.
    + destruct IH as (r' & Hr' & Hn').
      * intros H'. apply H. intros x [<-|Hx]; [exact E | apply H', Hx].
      * exists r'. split; [right; exact Hr' | exact Hn'].
    + exists r. split; [left; reflexivity | apply Nat.eqb_neq, E].
Qed.

(* the front ends as read from the source validate exactly the documented condition *)
Theorem angles_validate_iff : forall n rows, validate angles_front n rows = None <-> good_rows 3 n rows.
Proof. intros. apply (validate_none_iff angles_front n rows). repeat split; reflexivity. Qed.
Theorem dihedrals_validate_iff : forall n rows, validate dihedrals_front n rows = None <-> good_rows 4 n rows.
Proof. intros. apply (validate_none_iff dihedrals_front n rows). repeat split; reflexivity. Qed.

(* the public functions raise exactly on the complement, and return one entry per index tuple otherwise *)
Theorem api_raises_iff : forall fr pp obs so st opt p close n xyz boxes rows, documented_range fr ->
  (exists e, api fr pp obs so st opt p close n xyz boxes rows = Raise e) <-> ~ good_rows (f_width fr) n rows.
Proof.
  intros fr pp obs so st opt p close n xyz boxes rows Hd. unfold api.
  pose proof (validate_none_iff fr n rows Hd) as V. destruct (validate fr n rows) as [e|].
  - split; [intros _ G; apply V in G; discriminate | intros _; exists e; reflexivity].
  - split; [intros (e & E); discriminate | intros G; exfalso; apply G, V; reflexivity].
Qed.

(* --- valid indices never leave the coordinate arrays -------------------------------------------------- *)
Definition frames_have (n : Z) (xyz : list frame) : Prop := Forall (fun f => Z.of_nat (length f) = n) xyz.
Definition cells_fit (p : path) (xyz : list frame) (boxes : option (list box)) : Prop :=
  match boxes with
  | None => p = PPlain
  | Some bs => length bs = length xyz /\ Forall (fun B => box_ok p B = true) bs
  end.

Lemma opt_all_some : forall (A B : Type) (f : A -> option B) l, (forall a, In a l -> exists b, f a = Some b) ->
  exists out, opt_all (map f l) = Some out.
Proof.
  intros A B f l. induction l as [|a l IH]; intros H; [exists []; reflexivity|].
  destruct (H a (or_introl eq_refl)) as (b & Eb). destruct IH as (out & Eo); [intros x Hx; apply H; right; exact Hx|].
  exists (b :: out). cbn [map opt_all]. rewrite Eb, Eo. reflexivity.
Qed.

Lemma in_combine_seq : forall (A : Type) (l : list A) s j x, In (j, x) (combine (seq s (length l)) l) ->
  (s <= j < s + length l)%nat /\ In x l.
Proof.
  intros A l. induction l as [|a l IH]; intros s j x H; [destruct H|]. cbn [length seq combine] in H. destruct H as [E|H].
  - injection E as <- <-. split; [cbn [length]; lia | left; reflexivity].
  - destruct (IH (S s) j x H) as (Hj & Hx). split; [cbn [length]; lia | right; exact Hx].
Qed.

Lemma nth_error_some_lt : forall (A : Type) (l : list A) k, (k < length l)%nat -> exists x, nth_error l k = Some x.
Proof.
  intros A l k H. destruct (nth_error l k) as [x|] eqn:E; [exists x; reflexivity|].
  apply nth_error_None in E. lia.
Qed.

Lemma rows_on_defined : forall p xyz boxes pairs so st n,
  frames_have n xyz -> cells_fit p xyz boxes -> (forall j, so j = j) -> (forall j, st j = j) ->
  Forall (fun pr => (Z.of_nat (fst pr) < n /\ Z.of_nat (snd pr) < n)) pairs ->
  exists rows, rows_on p xyz boxes pairs so st = Some rows.
Proof.
  intros p xyz boxes pairs so st n Hf Hc Hso Hst Hp. unfold rows_on. apply opt_all_some.
  intros [j f] Hin. cbn [fst snd]. apply in_combine_seq in Hin. destruct Hin as (Hj & Hfin).
  assert (Hlen : Z.of_nat (length f) = n) by (unfold frames_have in Hf; rewrite Forall_forall in Hf; apply Hf, Hfin).
  replace (box_sel p so st j) with j by (unfold box_sel; destruct p; auto).
  assert (HB : exists B, box_at boxes j = Some B /\ box_ok p B = true).
  { unfold cells_fit in Hc. destruct boxes as [bs|]; cbn [box_at].
    - destruct Hc as (Hl & Hok). destruct (nth_error_some_lt _ bs j) as (B & EB); [lia|].
      exists B. split; [exact EB|]. rewrite Forall_forall in Hok. apply Hok. eapply nth_error_In, EB.
    - subst p. eexists. split; reflexivity. }
  destruct HB as (B & EB & Hok). rewrite EB, Hok. apply opt_all_some. intros [a b] Hpr.
  rewrite Forall_forall in Hp. destruct (Hp _ Hpr) as (Ha & Hb). cbn [fst snd] in Ha, Hb. unfold sep. cbn [fst snd].
  destruct (nth_error_some_lt _ f a) as (x1 & E1); [lia|]. destruct (nth_error_some_lt _ f b) as (x2 & E2); [lia|].
  rewrite E1, E2. eexists. reflexivity.
Qed.

Lemma atom_pairs_in_range : forall pp q n w, length q = w -> Forall (fun i => 0 <= i < n) q ->
  Forall (fun p => (fst p < w /\ snd p < w)%nat) pp ->
  Forall (fun pr => Z.of_nat (fst pr) < n /\ Z.of_nat (snd pr) < n) (atom_pairs pp (map Z.to_nat q)).
Proof.
  intros pp q n w Hl Hq Hpp. unfold atom_pairs. apply Forall_forall. intros pr Hin. apply in_map_iff in Hin.
  destruct Hin as ([a b] & <- & Hab). rewrite Forall_forall in Hpp. destruct (Hpp _ Hab) as (Ha & Hb). cbn [fst snd] in *.
  assert (G : forall k, (k < w)%nat -> Z.of_nat (nth k (map Z.to_nat q) 0%nat) < n).
  { intros k Hk. change 0%nat with (Z.to_nat 0). rewrite map_nth.
    rewrite Forall_forall in Hq. assert (Hi : In (nth k q 0) q) by (apply nth_In; lia).
    specialize (Hq _ Hi). rewrite Z2Nat.id; lia. }
  split; apply G; assumption.
Qed.

Lemma opt_all_length : forall (A : Type) (l : list (option A)) out, opt_all l = Some out -> length out = length l.
Proof.
  intros A l. induction l as [|o l IH]; intros out E; cbn [opt_all] in E; [injection E as <-; reflexivity|].
  destruct o; [|discriminate]. destruct (opt_all l) eqn:El; [|discriminate]. injection E as <-.
  cbn [length]. f_equal. apply IH. reflexivity.
Qed.
Lemma opt_all_in : forall (A B : Type) (f : A -> option B) l out b, opt_all (map f l) = Some out -> In b out ->
  exists a, In a l /\ f a = Some b.
Proof.
  intros A B f l. induction l as [|a l IH]; intros out b E Hb; cbn [map opt_all] in E; [injection E as <-; destruct Hb|].
  destruct (f a) as [y|] eqn:Ef; [|discriminate]. destruct (opt_all (map f l)) as [r|] eqn:El; [|discriminate].
  injection E as <-. destruct Hb as [<-|Hb]; [exists a; split; [left; reflexivity | exact Ef]|].
  destruct (IH r b eq_refl Hb) as (a' & Ha' & Ef'). exists a'. split; [right; exact Ha' | exact Ef'].
Qed.

(* every quartet/triplet that passes validation is evaluated inside the coordinate arrays in every frame: the
   result of the model is defined (Some), provided there is one usable cell per frame *)
Lemma api_defined_when_valid : forall fr pp obs so st k opt p close n xyz boxes rows,
  documented_range fr -> Forall (fun pq => (fst pq < f_width fr /\ snd pq < f_width fr)%nat) pp -> length pp = k ->
  (forall row : list vec, length row = k -> exists o, obs row = Some o) -> (forall j, so j = j) -> (forall j, st j = j) ->
  good_rows (f_width fr) n rows -> frames_have n xyz -> cells_fit (front_path fr opt p boxes close) xyz boxes ->
  exists out, api fr pp obs so st opt p close n xyz boxes rows = Value (Some out) /\ length out = length rows.
Proof.
  intros fr pp obs so st k opt p close n xyz boxes rows Hd Hpp Hk Hobs Hso Hst Hg Hf Hc. unfold api.
  rewrite (proj2 (validate_none_iff fr n rows Hd) Hg).
  set (P := front_path fr opt p boxes close) in *.
  assert (E : forall q, In q rows -> exists r, tuple_on pp obs so st P xyz boxes q = Some r).
  { intros q Hq. unfold good_rows in Hg. rewrite Forall_forall in Hg. destruct (Hg q Hq) as (Hl & Hr).
    unfold tuple_on.
    destruct (rows_on_defined P xyz boxes (atom_pairs pp (map Z.to_nat q)) so st n Hf Hc Hso Hst) as (rws & Er).
    - apply (atom_pairs_in_range pp q n (f_width fr) Hl Hr Hpp).
    - rewrite Er. apply opt_all_some. intros row Hrow. apply Hobs.
      unfold rows_on in Er. destruct (opt_all_in _ _ _ _ _ _ Er Hrow) as (fi & _ & Efi).
      destruct (box_at boxes (box_sel P so st (fst fi))) as [B|]; [|discriminate]. destruct (box_ok P B); [|discriminate].
      apply opt_all_length in Efi. rewrite Efi, map_length. unfold atom_pairs. rewrite map_length. exact Hk. }
  destruct (opt_all_some _ _ _ rows E) as (out & Eo). exists out. split; [rewrite Eo; reflexivity|].
  apply opt_all_length in Eo. rewrite Eo, map_length. reflexivity.
Qed.

Theorem dihedrals_defined_when_valid : forall fr opt p close n xyz boxes rows,
  f_width fr = 4%nat -> documented_range fr -> good_rows 4 n rows -> frames_have n xyz ->
  cells_fit (front_path fr opt p boxes close) xyz boxes ->
  exists out, compute_dihedrals_with fr opt p close n xyz boxes rows = Value (Some out) /\ length out = length rows.
Proof.
  intros fr opt p close n xyz boxes rows Hw Hd Hg Hf Hc. unfold compute_dihedrals_with.
  apply (api_defined_when_valid fr Zg.dih_pairs obs3 _ _ 3%nat); try assumption; try reflexivity.
  - rewrite Hw. repeat constructor.
  - intros [|b1 [|b2 [|b3 [|b4 r]]]] L; try discriminate L. eexists. reflexivity.
  - rewrite Hw. exact Hg.
Qed.
Theorem angles_defined_when_valid : forall fr opt p close n xyz boxes rows,
  f_width fr = 3%nat -> documented_range fr -> good_rows 3 n rows -> frames_have n xyz ->
  cells_fit (front_path fr opt p boxes close) xyz boxes ->
  exists out, compute_angles_with fr opt p close n xyz boxes rows = Value (Some out) /\ length out = length rows.
Proof.
  intros fr opt p close n xyz boxes rows Hw Hd Hg Hf Hc. unfold compute_angles_with.
  apply (api_defined_when_valid fr Zg.ang_pairs obs2 _ _ 2%nat); try assumption; try reflexivity.
  - rewrite Hw. repeat constructor.
  - intros [|b1 [|b2 [|b3 r]]] L; try discriminate L. eexists. reflexivity.
  - rewrite Hw. exact Hg.
Qed.

(* --- the `periodic` argument and the choice of the kernel -------------------------------------------- *)
Definition repaired (fr : front) : Prop := f_flag fr = TestTruth /\ f_ortho fr = OrthoExact.

(* a repaired front end IS the dispatch of property C05's model with periodic := truth value of the argument:
   every theorem about Periodic.dihedral_traj / angle_traj (periodic_uses_mic, minimum images, lattice-shift
   invariance) then speaks about the public function, whatever object is passed as `periodic` *)
Theorem front_path_repaired : forall fr opt p boxes close, repaired fr ->
  front_path fr opt p boxes close = dispatch opt (truth p) boxes.
Proof.
  intros fr opt p boxes close (Hf & Ho). unfold front_path, wants_mic, ortho_answer, dispatch. rewrite Hf, Ho.
  destruct opt; [|reflexivity]. destruct (truth p); [|reflexivity]. destruct boxes; reflexivity.
Qed.

Lemma rows_on_dispatch : forall opt periodic xyz boxes pairs so st,
  rows_on (dispatch opt periodic boxes) xyz boxes pairs so st = kernel_rows opt periodic xyz boxes pairs so st.
Proof. reflexivity. Qed.

Theorem dihedrals_repaired_is_traj : forall fr opt p close n xyz boxes rows, repaired fr ->
  validate fr n rows = None ->
  compute_dihedrals_with fr opt p close n xyz boxes rows =
  Value (opt_all (map (fun q => dihedral_traj opt (truth p) xyz boxes (map Z.to_nat q)) rows)).
Proof.
  intros fr opt p close n xyz boxes rows Hr Hv. unfold compute_dihedrals_with, api. rewrite Hv.
  rewrite (front_path_repaired fr opt p boxes close Hr). reflexivity.
Qed.
Theorem angles_repaired_is_traj : forall fr opt p close n xyz boxes rows, repaired fr ->
  validate fr n rows = None ->
  compute_angles_with fr opt p close n xyz boxes rows =
  Value (opt_all (map (fun q => angle_traj opt (truth p) xyz boxes (map Z.to_nat q)) rows)).
Proof.
  intros fr opt p close n xyz boxes rows Hr Hv. unfold compute_angles_with, api. rewrite Hv.
  rewrite (front_path_repaired fr opt p boxes close Hr). reflexivity.
Qed.

(* optimised and reference paths are of the same kind (no cell treatment / orthorhombic / triclinic) *)
Definition same_kind (a b : path) : Prop :=
  match a, b with
  | PPlain, PPlain => True
  | POrthoSSE, POrthoNp => True
  | PTricCpp, PTricNp => True
  | _, _ => False
  end.
Theorem paths_same_kind_repaired : forall fr p boxes close, repaired fr ->
  same_kind (front_path fr true p boxes close) (front_path fr false p boxes close).
Proof.
  intros fr p boxes close Hr. rewrite !(front_path_repaired fr _ p boxes close Hr). unfold dispatch.
  destruct (truth p); [|exact I]. destruct boxes as [bs|]; [|exact I]. destruct (forallb is_orthob bs); exact I.
Qed.
(* the orthorhombic kernel (which reads only the diagonal of the cell matrix) runs only on cells whose
   off-diagonal entries are all zero *)
Theorem ortho_kernel_only_on_ortho_cells_repaired : forall fr opt p bs close, repaired fr ->
  front_path fr opt p (Some bs) close = POrthoSSE -> forallb is_orthob bs = true.
Proof.
  intros fr opt p bs close Hr. rewrite (front_path_repaired fr opt p (Some bs) close Hr). unfold dispatch.
  destruct (truth p); [|discriminate]. destruct (forallb is_orthob bs); [reflexivity|]. destruct opt; discriminate.
Qed.

(* the source as read is one of the two named descriptions (anything else breaks this obligation) *)
Theorem angles_front_known : angles_front = angles_cur \/ angles_front = angles_fix.
Proof. first [left; reflexivity | right; reflexivity]. Qed.
Theorem dihedrals_front_known : dihedrals_front = dihedrals_cur \/ dihedrals_front = dihedrals_fix.
Proof. first [left; reflexivity | right; reflexivity]. Qed.
Theorem fix_fronts_repaired : repaired angles_fix /\ repaired dihedrals_fix /\ documented_range angles_fix /\ documented_range dihedrals_fix.
Proof. repeat split; reflexivity. Qed.

(* AS FOUND, 1: compute_angles tests `periodic is True`: a truthy object that is not the singleton True (numpy.bool_,
   1) sends opt=True to the kernel without cell treatment while opt=False applies the minimum-image convention *)
Theorem angles_cur_flag_refuted : exists p bs close,
  truth p = true /\ front_path angles_cur true p (Some bs) close = PPlain /\ front_path angles_cur false p (Some bs) close <> PPlain.
Proof. exists PyTruthy, [mkbox (3, 0, 0) (0, 3, 0) (0, 0, 3)], true. repeat split. discriminate. Qed.

(* AS FOUND, 2: np.allclose(angles, 90) answers True for a cell that is not orthorhombic; the orthorhombic kernel then
   returns a bond vector that is NOT the shortest image, unlike the triclinic kernel the repaired test selects.
   Witness (unit 2^-20 nm): cell 3 x 3 x 3 nm, b tilted by 36 units (0.0007 degrees), atoms 20 cells apart along b *)
Definition near_B : box := mkbox (3145728, 0, 0) (36, 3145728, 0) (0, 0, 3145728).
Definition near_r : vec := (100000, 62914560 + 200000, 50000).
Theorem cur_near_ortho_refuted :
  front_path dihedrals_cur true PyTrue (Some [near_B]) true = POrthoSSE /\
  front_path dihedrals_fix true PyTrue (Some [near_B]) true = PTricCpp /\
  norm2 (path_disp PTricCpp near_B near_r) < norm2 (path_disp POrthoSSE near_B near_r) /\
  path_disp PTricCpp near_B near_r = vsub near_r (vscale 20 (bb near_B)).
Proof. vm_compute. repeat split. Qed.

(* non-vacuity of the hypotheses of *_defined_when_valid / *_repaired_is_traj: a quartet split across a cell face *)
Definition ex_xyz : list frame := [[(1, 1, 1); (29, 2, 1); (2, 28, 3); (3, 1, 29)]].
Definition ex_boxes : option (list box) := Some [mkbox (30, 0, 0) (0, 30, 0) (0, 0, 30)].
Lemma front_example :
  good_rows 4 4 [[0; 1; 2; 3]] /\ frames_have 4 ex_xyz /\
  cells_fit (front_path dihedrals_fix true PyTruthy ex_boxes false) ex_xyz ex_boxes /\
  validate dihedrals_fix 4 [[0; 1; 2; 3]] = None /\
  compute_dihedrals_with dihedrals_fix true PyTruthy false 4 ex_xyz ex_boxes [[0; 1; 2; 3]]
    <> compute_dihedrals_with dihedrals_fix true PyFalsy false 4 ex_xyz ex_boxes [[0; 1; 2; 3]].
Proof.
  split; [repeat constructor; lia|]. split; [repeat constructor|]. split; [split; [reflexivity | repeat constructor]|].
  split; [reflexivity|]. vm_compute. discriminate.
Qed.
