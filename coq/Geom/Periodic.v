(* C07 -- the periodic angle / dihedral kernels at trajectory level, on top of the minimum-image model of
   property C05 (MD.PBC.Model, read-only here).  Definitions only.

   angle_mic / angle_mic_triclinic / dihedral_mic / dihedral_mic_triclinic (opt=True) call the displacement
   primitives dist_mic / dist_mic_triclinic on the atom pairs pairs[]; opt=False goes through
   distance.compute_displacements(opt=False).  Which frame's cell the primitives receive while frame j is
   processed is read from the source by the translator (MD.Gen.GeomFormulas.Calls). *)
From Coq Require Import ZArith List Bool.
Import ListNotations.
Require Import MD.PBC.Model MD.Geom.Vec MD.Gen.GeomFormulas MD.Geom.Model.
Local Open Scope Z_scope.

(* atom pairs of one index tuple, in the kernel's pair order *)
Definition atom_pairs (pos_pairs : list (nat * nat)) (tuple : list nat) : list (nat * nat) :=
  map (fun p => (nth (fst p) tuple 0%nat, nth (snd p) tuple 0%nat)) pos_pairs.

(* frame of the cell used for frame j on each code path *)
Definition box_sel (p : path) (sel_ortho sel_tric : nat -> nat) (j : nat) : nat :=
  match p with POrthoSSE => sel_ortho j | PTricCpp => sel_tric j | _ => j end.

(* bond vectors of every frame: like PBC.displacements, but with the cell the kernel actually passes *)
Definition kernel_rows (opt periodic : bool) (xyz : list frame) (boxes : option (list box))
           (pairs : list (nat * nat)) (sel_ortho sel_tric : nat -> nat) : option (list (list vec)) :=
  let p := dispatch opt periodic boxes in
  opt_all (map (fun fi : nat * frame =>
    match box_at boxes (box_sel p sel_ortho sel_tric (fst fi)) with
    | None => None
    | Some B => if box_ok p B
                then opt_all (map (fun pr => option_map (path_disp p B) (sep (snd fi) (snd fi) pr)) pairs)
                else None
    end) (combine (seq 0 (length xyz)) xyz)).

Definition obs3 (row : list vec) : option (Z * Z * Z) :=
  match row with [b1; b2; b3] => Some (ZG.dih_obs b1 b2 b3) | _ => None end.
Definition obs2 (row : list vec) : option (Z * Z * Z) :=
  match row with [b1; b2] => Some (ZG.ang_obs b1 b2) | _ => None end.

(* integer observables (T, p2, B) resp. (N, D1, D2) of one index tuple in every frame *)
Definition dihedral_traj (opt periodic : bool) (xyz : list frame) (boxes : option (list box)) (q : list nat)
  : option (list (Z * Z * Z)) :=
  match kernel_rows opt periodic xyz boxes (atom_pairs Zg.dih_pairs q) Calls.dih_box_frame_ortho Calls.dih_box_frame_tric with
  | Some rows => opt_all (map obs3 rows)
  | None => None
  end.
Definition angle_traj (opt periodic : bool) (xyz : list frame) (boxes : option (list box)) (t : list nat)
  : option (list (Z * Z * Z)) :=
  match kernel_rows opt periodic xyz boxes (atom_pairs Zg.ang_pairs t) Calls.ang_box_frame_ortho Calls.ang_box_frame_tric with
  | Some rows => opt_all (map obs2 rows)
  | None => None
  end.

(* entry points of the correspondence *)
Definition traj_case := (bool * bool * list frame * list box * list nat)%type.
Definition dih_traj_case (c : traj_case) : option (list (Z * Z * Z)) :=
  let '(opt, periodic, xyz, bs, q) := c in dihedral_traj opt periodic xyz (Some bs) q.
Definition ang_traj_case (c : traj_case) : option (list (Z * Z * Z)) :=
  let '(opt, periodic, xyz, bs, q) := c in angle_traj opt periodic xyz (Some bs) q.
Definition obs_list_eqb (x y : option (list (Z * Z * Z))) : bool :=
  match x, y with
  | Some a, Some b =>
      (fix go (a b : list (Z * Z * Z)) : bool :=
         match a, b with
         | [], [] => true
         | u :: a', v :: b' => ZG.obs_eqb (Some u) (Some v) && go a' b'
         | _, _ => false
         end) a b
  | None, None => true
  | _, _ => false
  end.
