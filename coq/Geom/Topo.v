(* C07 -- model of dihedral.py:_construct_atom_dict / _atom_sequence / _indices_chi.  Definitions only.

   A topology is a list of chains, a chain a list of residues, a residue its (global) index and the list of
   (atom name, atom index) in file order.  Python dictionaries are modelled as association lists with
   replace-on-insert (the last binding of a key wins), which is all the code relies on. *)
From Coq Require Import ZArith List String Bool Ascii.
Import ListNotations.
Require Import MD.Gen.GeomFormulas.
Local Open Scope Z_scope.

Definition atom := (string * nat)%type.
Record residue : Type := mkres { r_index : Z; r_atoms : list atom }.
Definition chain := list residue.
Definition topo := list chain.

(* --- dictionaries -------------------------------------------------------------------------------- *)
Section Dict.
Variables (K V : Type) (keq : K -> K -> bool).
Fixpoint dget (d : list (K * V)) (k : K) : option V :=
  match d with [] => None | (k', v) :: t => if keq k' k then Some v else dget t k end.
Fixpoint dset (d : list (K * V)) (k : K) (v : V) : list (K * V) :=
  match d with
  | [] => [(k, v)]
  | (k', v') :: t => if keq k' k then (k, v) :: t else (k', v') :: dset t k v
  end.
Definition dmem (d : list (K * V)) (k : K) : bool := match dget d k with Some _ => true | None => false end.
End Dict.
Arguments dget {K V}. Arguments dset {K V}. Arguments dmem {K V}.

(* _construct_atom_dict: local_dict[atom.name] = atom.index ; residue_dict[residue.index] = local_dict *)
Definition atom_dict (r : residue) : list (string * nat) :=
  fold_left (fun d a => dset String.eqb d (fst a) (snd a)) (r_atoms r) [].
Definition residue_dict (c : chain) : list (Z * list (string * nat)) :=
  fold_left (fun d r => dset Z.eqb d (r_index r) (atom_dict r)) c [].

(* parse_offsets / _strip_offsets *)
Definition parse_offset (s : string) : Z :=
  match s with
  | String c _ => if Ascii.eqb c "-"%char then -1 else if Ascii.eqb c "+"%char then 1 else 0
  | EmptyString => 0
  end.
Definition strip_offset (s : string) : string :=
  match s with
  | String c rest => if Ascii.eqb c "-"%char then rest else if Ascii.eqb c "+"%char then rest else s
  | EmptyString => s
  end.

Fixpoint traverse {A B} (f : A -> option B) (l : list A) : option (list B) :=
  match l with
  | [] => Some []
  | a :: t => match f a, traverse f t with Some b, Some bs => Some (b :: bs) | _, _ => None end
  end.

(* _atom_sequence: for every chain, every residue: both `all(...)` tests, then the look-ups *)
Definition atom_sequence (t : topo) (names : list string) : list (Z * list nat) :=
  let offs := map parse_offset names in
  let pat := combine (map strip_offset names) offs in
  flat_map (fun c =>
    let rd := residue_dict c in
    flat_map (fun r =>
      let rid := r_index r in
      if forallb (fun o => dmem Z.eqb rd (rid + o)) offs then
        if forallb (fun ao => match dget Z.eqb rd (rid + snd ao) with
                              | Some ad => dmem String.eqb ad (fst ao) | None => false end) pat
        then match traverse (fun ao => match dget Z.eqb rd (rid + snd ao) with
                                       | Some ad => dget String.eqb ad (fst ao) | None => None end) pat with
             | Some idx => [(rid, idx)]
             | None => []
             end
        else []
      else []) c) t.

(* --- the specification, directly on the lists ------------------------------------------------------ *)
(* last residue of the chain with that index / last atom of the residue with that name *)
Definition find_res (c : chain) (rid : Z) : option residue :=
  fold_left (fun acc r => if Z.eqb (r_index r) rid then Some r else acc) c None.
Definition find_atom (r : residue) (nm : string) : option nat :=
  fold_left (fun acc a => if String.eqb (fst a) nm then Some (snd a) else acc) (r_atoms r) None.
Definition match_spec (c : chain) (r : residue) (pat : list (string * Z)) : option (list nat) :=
  traverse (fun ao => match find_res c (r_index r + snd ao) with
                      | Some r' => find_atom r' (fst ao) | None => None end) pat.
Definition atom_sequence_spec (t : topo) (names : list string) : list (Z * list nat) :=
  let pat := combine (map strip_offset names) (map parse_offset names) in
  flat_map (fun c => flat_map (fun r => match match_spec c r pat with
                                        | Some idx => [(r_index r, idx)] | None => [] end) c) t.

(* --- named torsions -------------------------------------------------------------------------------- *)
Definition first_pattern (tab : list (list string)) : list string := match tab with p :: _ => p | [] => [] end.
Definition indices_single (tab : list (list string)) (t : topo) : list (list nat) :=
  map snd (atom_sequence t (first_pattern tab)).

(* _indices_chi: results of all patterns concatenated, reordered by residue id (stable insertion sort:
   residues matched by two patterns are outside what numpy's argsort specifies) *)
Fixpoint insert_by_rid (x : Z * list nat) (l : list (Z * list nat)) : list (Z * list nat) :=
  match l with
  | [] => [x]
  | y :: t => if Z.ltb (fst x) (fst y) then x :: y :: t else y :: insert_by_rid x t
  end.
Definition sort_by_rid (l : list (Z * list nat)) : list (Z * list nat) := fold_right insert_by_rid [] l.
Definition indices_chi (tab : list (list string)) (t : topo) : list (list nat) :=
  map snd (sort_by_rid (flat_map (atom_sequence t) tab)).

Definition named_indices (kind : nat) (t : topo) : list (list nat) :=
  match kind with
  | 0 => indices_single Tables.PHI_ATOMS t
  | 1 => indices_single Tables.PSI_ATOMS t
  | 2 => indices_single Tables.OMEGA_ATOMS t
  | 3 => indices_chi Tables.CHI1_ATOMS t
  | 4 => indices_chi Tables.CHI2_ATOMS t
  | 5 => indices_chi Tables.CHI3_ATOMS t
  | 6 => indices_chi Tables.CHI4_ATOMS t
  | _ => indices_chi Tables.CHI5_ATOMS t
  end%nat.

Definition idx_eqb (a b : list (list nat)) : bool :=
  (fix go (a b : list (list nat)) : bool :=
     match a, b with
     | [], [] => true
     | x :: a', y :: b' => (fix go1 (x y : list nat) : bool :=
                              match x, y with [], [] => true | p :: x', q :: y' => Nat.eqb p q && go1 x' y' | _, _ => false end) x y
                           && go a' b'
     | _, _ => false
     end) a b.
Definition named_case (c : nat * topo) : list (list nat) := named_indices (fst c) (snd c).
(* all eight named torsions of one topology: phi psi omega chi1..chi5 *)
Definition named_all (t : topo) : list (list (list nat)) := map (fun k => named_indices k t) [0; 1; 2; 3; 4; 5; 6; 7]%nat.
Definition idx3_eqb (a b : list (list (list nat))) : bool :=
  (fix go (a b : list (list (list nat))) : bool :=
     match a, b with [], [] => true | x :: a', y :: b' => idx_eqb x y && go a' b' | _, _ => false end) a b.

(* the documented atoms (IUPAC-IUB 1970; mdtraj documentation of compute_phi ... compute_chi5) *)
Local Open Scope string_scope.
Definition DOC_PHI := [["-C"; "N"; "CA"; "C"]].
Definition DOC_PSI := [["N"; "CA"; "C"; "+N"]].
Definition DOC_OMEGA := [["CA"; "C"; "+N"; "+CA"]].
Definition DOC_CHI1 := map (fun x => ["N"; "CA"; "CB"; x]) ["CG"; "CG1"; "SG"; "OG"; "OG1"].
Definition DOC_CHI2 := [["CA"; "CB"; "CG"; "CD"]; ["CA"; "CB"; "CG"; "CD1"]; ["CA"; "CB"; "CG1"; "CD1"];
                        ["CA"; "CB"; "CG"; "OD1"]; ["CA"; "CB"; "CG"; "ND1"]; ["CA"; "CB"; "CG"; "SD"]].
Definition DOC_CHI3 := [["CB"; "CG"; "CD"; "NE"]; ["CB"; "CG"; "CD"; "CE"]; ["CB"; "CG"; "CD"; "OE1"]; ["CB"; "CG"; "SD"; "CE"]].
Definition DOC_CHI4 := [["CG"; "CD"; "NE"; "CZ"]; ["CG"; "CD"; "CE"; "NZ"]].
Definition DOC_CHI5 := [["CD"; "NE"; "CZ"; "NH1"]].
