(* C07 -- types shared by the generated description of the Python front ends (MD.Gen.GeomGlue) and their
   model (MD.Geom.Glue).  Definitions only. *)
From Coq Require Import ZArith.

(* what the caller may hand over as `periodic`: the singletons True / False, or any other object, of which only
   the truth value matters (numpy.bool_, 1, 0, ...) *)
Inductive pyflag := PyTrue | PyFalse | PyTruthy | PyFalsy.

(* how the front end tests that argument:  `periodic is True and ...`  or  `periodic and ...` *)
Inductive flag_test := TestIsTrue | TestTruth.
(* how it decides that the orthorhombic kernel may be used:  np.allclose(traj.unitcell_angles, 90)  or an exact
   test that every off-diagonal entry of every frame's cell matrix is zero (distance._is_orthorhombic) *)
Inductive ortho_test := OrthoAllclose | OrthoExact.

(* one front end (compute_angles or compute_dihedrals) as read from the source text *)
Record front : Type := mkfront {
  f_width : nat;            (* ensure_type(..., shape=(None, width)) *)
  f_lower : Z;              (* indices are compared with this constant ... *)
  f_lower_incl : bool;      (* ... by >= (true) or > (false) *)
  f_upper_strict : bool;    (* and with traj.n_atoms by < (true) or <= (false) *)
  f_flag : flag_test;
  f_ortho : ortho_test
}.
