(* What the strata + sphere parts of the golden-spiral specification imply (C13): the number of points of atom a's
   sphere buried in an atom b that sits on the +y axis of a is the analytic cap fraction up to an explicit error. *)
From Coq Require Import List Arith ZArith Bool Lia.
Import ListNotations.
Require Import MD.Sasa.Model MD.Sasa.Spiral.
Open Scope Z_scope.

Lemma cnt_idx_mono : forall (P Q : nat -> bool) len,
  (forall i, (i < len)%nat -> P i = true -> Q i = true) -> cnt_idx P len <= cnt_idx Q len.
Proof.
  intros P Q len. induction len as [|k IH]; intros H; cbn [cnt_idx]; [lia|].
  assert (IH' : cnt_idx P k <= cnt_idx Q k) by (apply IH; intros i Hi; apply H; lia).
  destruct (P k) eqn:EP; [rewrite (H k (Nat.lt_succ_diag_r k) EP); lia|destruct (Q k); lia].
Qed.

Lemma cnt_idx_range : forall P len, 0 <= cnt_idx P len <= Z.of_nat len.
Proof. intros P len. induction len as [|k IH]; cbn [cnt_idx]; [lia|]. destruct (P k); lia. Qed.

(* a linear predicate  b < a*i  (a > 0) on 0..len-1: closed-form bounds for the number of indices that satisfy it *)
Lemma cnt_linear_inv : forall a b len, 0 < a ->
  let c := cnt_idx (fun i => b <? a * Z.of_nat i) len in
  let m := Z.of_nat len - c in
  0 <= m <= Z.of_nat len /\ (m < Z.of_nat len -> b < a * m) /\ (0 < m -> a * (m - 1) <= b).
Proof.
  intros a b len Ha. induction len as [|k IH].
  - cbn. repeat split; lia.
  - cbn zeta in IH. destruct IH as [[I0 I1] [I2 I3]]. cbn [cnt_idx]. cbn zeta.
    remember (cnt_idx (fun i => b <? a * Z.of_nat i) k) as c eqn:Ec. clear Ec.
    rewrite Nat2Z.inj_succ. remember (Z.of_nat k) as K eqn:EK.
    assert (HK : 0 <= K) by lia. clear EK.
    destruct (Z.ltb_spec b (a * K)) as [Hp|Hp].
    + replace (Z.succ K - (c + 1)) with (K - c) by lia.
      split; [lia|]. split; [|exact I3]. intros _.
      destruct (Z.eq_dec (K - c) K) as [E|E]; [rewrite E; exact Hp|apply I2; lia].
    + assert (Hm : K - c = K).
      { destruct (Z.eq_dec (K - c) K) as [E|E]; [exact E|].
        assert (b < a * (K - c)) by (apply I2; lia).
        assert (a * (K - c) <= a * K) by (apply Z.mul_le_mono_nonneg_l; lia). lia. }
      replace (Z.succ K - (c + 0)) with (K + 1) by lia.
      split; [lia|]. split; [intros; lia|]. intros _. replace (K + 1 - 1) with K by lia. exact Hp.
Qed.

Lemma cnt_linear_bounds : forall a b len, 0 < a ->
  let c := cnt_idx (fun i => b <? a * Z.of_nat i) len in
  Z.min (a * Z.of_nat len) (a * Z.of_nat len - b - a) <= a * c /\ a * c <= Z.max 0 (a * Z.of_nat len - b).
Proof.
  intros a b len Ha. cbn zeta. destruct (cnt_linear_inv a b len Ha) as [[I0 I1] [I2 I3]].
  set (c := cnt_idx (fun i => b <? a * Z.of_nat i) len) in *.
  set (n := Z.of_nat len) in *.
  assert (E : a * c = a * n - a * (n - c)) by ring.
  split.
  - destruct (Z.eq_dec (n - c) 0) as [Z0|NZ].
    + rewrite Z0, Z.mul_0_r in E. lia.
    + assert (a * (n - c - 1) <= b) by (apply I3; lia).
      assert (a * (n - c) = a * (n - c - 1) + a) by ring. lia.
  - destruct (Z.eq_dec (n - c) n) as [Z0|NZ].
    + assert (c = 0) by lia. subst c. rewrite H, Z.mul_0_r. lia.
    + assert (b < a * (n - c)) by (apply I2; lia). lia.
Qed.

(* strata: the number of points with A*y > B, for any A > 0 and B *)
Theorem strata_count : forall M tol A B (ys : nat -> Z) len,
  0 < M -> 0 <= tol -> 0 < A -> (0 < len)%nat ->
  let n := Z.of_nat len in
  (forall i, (i < len)%nat -> Z.abs (n * ys i - (2 * Z.of_nat i + 1 - n) * M) <= n * tol) ->
  let c := cnt_idx (fun i => B <? A * ys i) len in
  let bl := n * B + A * (n - 1) * M + A * n * tol in
  let bu := n * B + A * (n - 1) * M - A * n * tol in
  Z.min (2 * A * M * n) (2 * A * M * n - bl - 2 * A * M) <= 2 * A * M * c /\
  2 * A * M * c <= Z.max 0 (2 * A * M * n - bu).
Proof.
  intros M tol A B ys len HM Ht HA Hl n Hy c bl bu.
  assert (Hn : 0 < n) by (unfold n; lia).
  assert (HAM : 0 < 2 * A * M) by (apply Z.mul_pos_pos; lia).
  assert (Lo : cnt_idx (fun i => bl <? 2 * A * M * Z.of_nat i) len <= c).
  { apply cnt_idx_mono. intros i Hi Hp. apply Z.ltb_lt in Hp. apply Z.ltb_lt.
    pose proof (Hy i Hi) as Hb. apply Z.abs_le in Hb. destruct Hb as [Hb1 Hb2].
    unfold bl in Hp.
    assert (E1 : A * (n * ys i) >= A * ((2 * Z.of_nat i + 1 - n) * M - n * tol))
      by (apply Z.le_ge, Z.mul_le_mono_nonneg_l; lia).
    assert (n * B < n * (A * ys i)) by lia.
    apply Z.mul_lt_mono_pos_l in H; lia. }
  assert (Up : c <= cnt_idx (fun i => bu <? 2 * A * M * Z.of_nat i) len).
  { apply cnt_idx_mono. intros i Hi Hp. apply Z.ltb_lt in Hp. apply Z.ltb_lt.
    pose proof (Hy i Hi) as Hb. apply Z.abs_le in Hb. destruct Hb as [Hb1 Hb2].
    unfold bu.
    assert (E1 : A * (n * ys i) <= A * ((2 * Z.of_nat i + 1 - n) * M + n * tol))
      by (apply Z.mul_le_mono_nonneg_l; lia).
    assert (n * B < n * (A * ys i)) by (apply Z.mul_lt_mono_pos_l; lia). lia. }
  destruct (cnt_linear_bounds (2 * A * M) bl len HAM) as [L1 _].
  destruct (cnt_linear_bounds (2 * A * M) bu len HAM) as [_ U2].
  cbn zeta in L1, U2. fold n in L1, U2.
  split.
  - eapply Z.le_trans; [exact L1|]. apply Z.mul_le_mono_nonneg_l; lia.
  - eapply Z.le_trans; [|exact U2]. apply Z.mul_le_mono_nonneg_l; lia.
Qed.

Lemma ltb_shift : forall p q r s, q - p = s - r -> (p <? q) = (r <? s).
Proof. intros p q r s H. destruct (Z.ltb_spec p q), (Z.ltb_spec r s); auto; lia. Qed.

(* b on the +y axis of a at distance d: "strictly inside b" is a half-space condition on y with the point's own norm *)
Lemma inside_plus_y : forall M (pa : vec) ra rb d (s : vec),
  inside M (centred M (pa, ra) s) ((vx pa, vy pa + d, vz pa), rb) =
  (ra * ra * norm2 s + M * M * (d * d - rb * rb) <? 2 * ra * M * d * vy s).
Proof.
  intros M [[px py] pz] ra rb d [[sx sy] sz].
  unfold inside, centred, d2, norm2, vsub, vscale, sq, vx, vy, vz. cbn [fst snd].
  apply ltb_shift. ring.
Qed.

(* TWO OVERLAPPING SPHERES, b on the +y axis of a: for a point set that satisfies the strata and sphere parts of the
   golden-spiral specification, the number of a's points buried in b is, up to the stated error, n*(1 - cos_cap)/2 with
   cos_cap = (ra^2 + d^2 - rb^2)/(2 ra d) - the analytic cap.  Written without division:
   with A = 2 ra M d, T = ra^2 + d^2 - rb^2 (so cos_cap = M*T/A), dividing both bounds by 2*A*M*n gives
       blocked/n >= (1 - cos_cap)/2 - 1/(2n) - tol/(2M) - ra*e/(4 M^3 d)      (unless that is below 0... clipped at 1)
       blocked/n <= (1 - cos_cap)/2 + 1/(2n) + tol/(2M) + ra*e/(4 M^3 d)      (clipped at 0) *)
Theorem cap_plus_y_blocked : forall M tol e (pts : list vec) (pa : vec) ra rb d,
  0 < M -> 0 <= tol -> 0 <= e -> 0 < ra -> 0 < d -> pts <> [] ->
  strata_sphere_ok M tol e pts = true ->
  let n := Z.of_nat (length pts) in
  let A := 2 * ra * M * d in
  let T := ra * ra + d * d - rb * rb in
  let c := blocked_by M (pa, ra) ((vx pa, vy pa + d, vz pa), rb) pts in
  Z.min (2 * A * M * n) (2 * A * M * n - (n * (M * M * T + ra * ra * e) + A * (n - 1) * M + A * n * tol) - 2 * A * M)
    <= 2 * A * M * c /\
  2 * A * M * c <= Z.max 0 (2 * A * M * n - (n * (M * M * T - ra * ra * e) + A * (n - 1) * M - A * n * tol)).
Proof.
  intros M tol e pts pa ra rb d HM Ht He Hra Hd Hne Hok n A T c.
  assert (Hl : (0 < length pts)%nat) by (destruct pts; [congruence|cbn; lia]).
  assert (HA : 0 < A) by (unfold A; repeat apply Z.mul_pos_pos; lia).
  unfold strata_sphere_ok in Hok. rewrite forallb_forall in Hok.
  assert (Hpt : forall i, (i < length pts)%nat ->
            Z.abs (n * vy (nth i pts vzero) - (2 * Z.of_nat i + 1 - n) * M) <= n * tol /\
            Z.abs (norm2 (nth i pts vzero) - M * M) <= e).
  { intros i Hi. assert (Hin : In i (seq 0 (length pts))) by (apply in_seq; lia).
    specialize (Hok i Hin). apply andb_prop in Hok. destruct Hok as [H1 H2].
    unfold stratum_ok in H1. unfold sphere_ok in H2. apply Z.leb_le in H1. apply Z.leb_le in H2. fold n in H1. split; assumption. }
  set (ys := fun i => vy (nth i pts vzero)).
  assert (Hy : forall i, (i < length pts)%nat -> Z.abs (n * ys i - (2 * Z.of_nat i + 1 - n) * M) <= n * tol)
    by (intros i Hi; apply (Hpt i Hi)).
  destruct (strata_count M tol A (M * M * T + ra * ra * e) ys (length pts) HM Ht HA Hl Hy) as [Lo _].
  destruct (strata_count M tol A (M * M * T - ra * ra * e) ys (length pts) HM Ht HA Hl Hy) as [_ Up].
  cbn zeta in Lo, Up. fold n in Lo, Up.
  assert (HAM : 0 <= 2 * A * M) by (apply Z.mul_nonneg_nonneg; lia).
  assert (Hra2 : 0 <= ra * ra) by (apply Z.mul_nonneg_nonneg; lia).
  split.
  - eapply Z.le_trans; [exact Lo|]. apply Z.mul_le_mono_nonneg_l; [exact HAM|].
    unfold c, blocked_by. apply cnt_idx_mono. intros i Hi Hp. apply Z.ltb_lt in Hp.
    rewrite inside_plus_y. apply Z.ltb_lt. fold A. unfold ys in Hp.
    destruct (Hpt i Hi) as [_ Hs]. apply Z.abs_le in Hs.
    assert (ra * ra * norm2 (nth i pts vzero) <= ra * ra * (M * M + e)) by (apply Z.mul_le_mono_nonneg_l; lia).
    unfold T in Hp. lia.
  - eapply Z.le_trans; [|exact Up]. apply Z.mul_le_mono_nonneg_l; [exact HAM|].
    unfold c, blocked_by. apply cnt_idx_mono. intros i Hi Hp.
    rewrite inside_plus_y in Hp. apply Z.ltb_lt in Hp. apply Z.ltb_lt. fold A in Hp. unfold ys.
    destruct (Hpt i Hi) as [_ Hs]. apply Z.abs_le in Hs.
    assert (ra * ra * (M * M - e) <= ra * ra * norm2 (nth i pts vzero)) by (apply Z.mul_le_mono_nonneg_l; lia).
    unfold T. lia.
Qed.

(* blocked + accessible = all points: ties [blocked_by] to the count the kernel model produces for a two-atom frame *)
Lemma cnt_idx_ext : forall (P Q : nat -> bool) k, (forall i, (i < k)%nat -> P i = Q i) -> cnt_idx P k = cnt_idx Q k.
Proof.
  intros P Q k. induction k as [|k IH]; intros H; [reflexivity|].
  cbn [cnt_idx]. rewrite IH by (intros i Hi; apply H; lia). rewrite (H k) by lia. reflexivity.
Qed.

Lemma filter_length_cnt : forall (f : vec -> bool) (pts : list vec),
  Z.of_nat (length (filter f pts)) = cnt_idx (fun i => f (nth i pts vzero)) (length pts).
Proof.
  intros f pts. induction pts as [|x r IH] using rev_ind; [reflexivity|].
  assert (EL : length (r ++ [x]) = S (length r)) by (rewrite app_length; cbn; lia).
  rewrite EL. cbn [cnt_idx].
  assert (EN : nth (length r) (r ++ [x]) vzero = x).
  { rewrite app_nth2 by lia. rewrite Nat.sub_diag. reflexivity. }
  rewrite EN.
  rewrite (cnt_idx_ext (fun i => f (nth i (r ++ [x]) vzero)) (fun i => f (nth i r vzero)) (length r))
    by (intros i Hi; rewrite app_nth1 by lia; reflexivity).
  rewrite <- IH, filter_app, app_length. cbn [filter]. destruct (f x); cbn [length]; lia.
Qed.

Theorem two_atom_count_is_complement : forall M (a b : atom) pts,
  count_naive M a [b] pts = Z.of_nat (length pts) - blocked_by M a b pts.
Proof.
  intros M a b pts. unfold count_naive, blocked_by. rewrite filter_length_cnt.
  assert (G : forall k, cnt_idx (fun i => accessible M a [b] (nth i pts vzero)) k +
                        cnt_idx (fun i => inside M (centred M a (nth i pts vzero)) b) k = Z.of_nat k).
  { induction k as [|k IHk]; [reflexivity|]. cbn [cnt_idx]. rewrite Nat2Z.inj_succ.
    unfold accessible at 2. cbn [forallb]. rewrite andb_true_r.
    destruct (inside M (centred M a (nth k pts vzero)) b); cbn [negb]; lia. }
  specialize (G (length pts)). lia.
Qed.
