(* asa_frame of mdtraj/geometry/src/sasa.cpp at the level of its work buffers (C13; feeds C08).  Definitions only.

   The model MD.Sasa.Model.asa_frame works on lists of atoms; the C code works through two scratch arrays that the
   caller allocates once per thread and that keep whatever the previous atom / frame / call left in them:
       neighbor_indices[n_atoms]            "neighbor_indices[n_neighbor_indices] = j; n_neighbor_indices++"
       centered_sphere_points[3*n_points]   "centered_sphere_points[3*j..] = frame[i] + r_i * sphere_points[j]"
   and reads them back by index: neighbor_indices[k % n_neighbor_indices], centered_sphere_points[3*j..].
   Here both arrays are explicit arguments with arbitrary initial content; MD.Sasa.LowLevelProofs shows that the areas
   do not depend on that content and equal MD.Sasa.Model.asa_frame, and bounds the loop counter k. *)
From Coq Require Import List Arith ZArith Bool.
Import ListNotations.
Require Import MD.Sasa.Model.
Open Scope Z_scope.

Definition v0 : vec := (0, 0, 0).

Fixpoint upd {X : Type} (k : nat) (v : X) (l : list X) : list X :=
  match l, k with
  | [], _ => []
  | _ :: r, O => v :: r
  | x :: r, S k' => x :: upd k' v r
  end.

(* for (j = 0; j < n_atoms; j++) { if (i == j) continue; if (r2 < cutoff2) { neighbor_indices[n] = j; n++; } } *)
Fixpoint nbr_fill (a : atom) (i j : nat) (l : list atom) (wb1 : list nat) (n : nat) : list nat * nat :=
  match l with
  | [] => (wb1, n)
  | b :: t => if negb (Nat.eqb i j) && is_nbr a b then nbr_fill a i (S j) t (upd n j wb1) (S n)
              else nbr_fill a i (S j) t wb1 n
  end.

(* for (j = 0; j < n_sphere_points; j++) centered_sphere_points[j] = frame[i] + r_i * sphere_points[j] *)
Fixpoint centre_fill (M : Z) (a : atom) (pts : list vec) (j : nat) (wb2 : list vec) : list vec :=
  match pts with
  | [] => wb2
  | s :: r => centre_fill M a r (S j) (upd j (centred M a s) wb2)
  end.

(* for (k = k_closest; k < n + k_closest; k++) { index = neighbor_indices[k % n]; if inside(frame[index]) { break } } *)
Fixpoint scan_ll (M : Z) (c : vec) (ats : list atom) (wb1 : list nat) (n k : Z) (fuel : nat) : option Z :=
  match fuel with
  | O => None
  | S f => if inside M c (nth (nth (Z.to_nat (k mod n)) wb1 0%nat) ats dflt_atom) then Some k
           else scan_ll M c ats wb1 n (k + 1) f
  end.

(* for (j = 0; j < n_sphere_points; j++) { r_j = centered_sphere_points[j]; ... }   returns (count, final k_closest) *)
Fixpoint count_ll (M : Z) (ats : list atom) (wb1 : list nat) (n : nat) (wb2 : list vec) (j m : nat) (kc acc : Z) : Z * Z :=
  match m with
  | O => (acc, kc)
  | S m' => match scan_ll M (nth j wb2 v0) ats wb1 (Z.of_nat n) kc n with
            | Some k => count_ll M ats wb1 n wb2 (S j) m' k acc
            | None => count_ll M ats wb1 n wb2 (S j) m' kc (acc + 1)
            end
  end.

(* the loop over atoms, threading the two work buffers from one atom to the next *)
Fixpoint asa_ll_go (K M : Z) (pts : list vec) (ats : list atom) (i : nat) (l : list atom) (mask : list bool) (buf : list Z)
         (wb1 : list nat) (wb2 : list vec) : list Z * (list nat * list vec) :=
  match l, mask, buf with
  | a :: l', m :: mask', b :: buf' =>
      if m then
        let '(wb1', n) := nbr_fill a i 0%nat ats wb1 0%nat in
        let wb2' := centre_fill M a pts 0%nat wb2 in
        let cnt := fst (count_ll M ats wb1' n wb2' 0%nat (length pts) 0 0) in
        let '(r, w) := asa_ll_go K M pts ats (S i) l' mask' buf' wb1' wb2' in
        ((b + cnt) * (K * snd a * snd a) :: r, w)
      else
        let '(r, w) := asa_ll_go K M pts ats (S i) l' mask' buf' wb1 wb2 in (b :: r, w)
  | _, _, _ => ([], (wb1, wb2))
  end.

Definition asa_frame_ll (K M : Z) (pts : list vec) (ats : list atom) (mask : list bool) (buf : list Z)
           (wb1 : list nat) (wb2 : list vec) : list Z * (list nat * list vec) :=
  asa_ll_go K M pts ats 0%nat ats mask buf wb1 wb2.
