(* The buffer-level asa_frame refines MD.Sasa.Model.asa_frame and ignores what its work buffers held (C13 / C08). *)
From Coq Require Import List Arith ZArith Bool Lia.
Import ListNotations.
Require Import MD.Sasa.Model MD.Sasa.LowLevel.
Open Scope Z_scope.

Lemma upd_length : forall (X : Type) k (v : X) l, length (upd k v l) = length l.
Proof. intros X k v l. revert k. induction l as [|x r IH]; intros [|k]; cbn; auto. Qed.

Lemma nth_upd_same : forall (X : Type) k (v d : X) l, (k < length l)%nat -> nth k (upd k v l) d = v.
Proof. intros X k v d l. revert k. induction l as [|x r IH]; intros [|k] H; cbn in *; try lia; auto. apply IH. lia. Qed.

Lemma nth_upd_other : forall (X : Type) k j (v d : X) l, k <> j -> nth j (upd k v l) d = nth j l d.
Proof.
  intros X k j v d l. revert k j. induction l as [|x r IH]; intros [|k] [|j] H; cbn; try congruence; auto.
Qed.

(* ---- the neighbour buffer ---- *)
Lemma nbr_fill_spec : forall l pre a i wb1 n,
  (n + length l <= length wb1)%nat ->
  let res := nbr_fill a i (length pre) l wb1 n in
  let nb := nbrs_from a i (length pre) l in
  snd res = (n + length nb)%nat /\ length (fst res) = length wb1 /\
  (forall k, (k < n)%nat -> nth k (fst res) 0%nat = nth k wb1 0%nat) /\
  (forall k, (k < length nb)%nat -> nth (nth (n + k) (fst res) 0%nat) (pre ++ l) dflt_atom = nth k nb dflt_atom).
Proof.
  induction l as [|b t IH]; intros pre a i wb1 n Hlen; cbn [nbr_fill nbrs_from].
  - cbn. repeat split; try lia; try (intros k Hk; cbn in Hk; lia).
  - cbn [length] in Hlen.
    assert (Epre : (pre ++ b :: t) = ((pre ++ [b]) ++ t)) by (rewrite <- app_assoc; reflexivity).
    assert (Elen : S (length pre) = length (pre ++ [b])) by (rewrite app_length; cbn; lia).
    destruct (negb (Nat.eqb i (length pre)) && is_nbr a b) eqn:C.
    + rewrite Elen.
      destruct (IH (pre ++ [b]) a i (upd n (length pre) wb1) (S n)) as [H1 [H2 [H3 H4]]].
      { rewrite upd_length. lia. }
      cbn zeta in *. rewrite upd_length in H2. cbn [length]. repeat split.
      * rewrite H1. lia.
      * exact H2.
      * intros k Hk. rewrite H3 by lia. apply nth_upd_other. lia.
      * intros [|k] Hk.
        -- rewrite Nat.add_0_r. rewrite H3 by lia. rewrite nth_upd_same by lia.
           rewrite app_nth2 by lia. rewrite Nat.sub_diag. reflexivity.
        -- replace (n + S k)%nat with (S n + k)%nat by lia. rewrite Epre. cbn [nth]. apply H4. cbn in Hk. lia.
    + rewrite Elen.
      destruct (IH (pre ++ [b]) a i wb1 n) as [H1 [H2 [H3 H4]]]; [lia|].
      cbn zeta in *. repeat split; auto. intros k Hk. rewrite Epre. apply H4. exact Hk.
Qed.

(* ---- the scan through the index buffer ---- *)
Lemma scan_ll_eq : forall M c ats wb1 nb fuel k,
  (forall j, (j < length nb)%nat -> nth (nth j wb1 0%nat) ats dflt_atom = nth j nb dflt_atom) ->
  (0 < length nb)%nat \/ fuel = 0%nat ->
  scan_ll M c ats wb1 (Z.of_nat (length nb)) k fuel = scan M c nb (Z.of_nat (length nb)) k fuel.
Proof.
  intros M c ats wb1 nb fuel. induction fuel as [|f IH]; intros k Hnb Hpos; [reflexivity|].
  destruct Hpos as [Hpos|Hpos]; [|discriminate]. cbn [scan_ll scan].
  assert (Hm : (Z.to_nat (k mod Z.of_nat (length nb)) < length nb)%nat).
  { pose proof (Z.mod_pos_bound k (Z.of_nat (length nb)) ltac:(lia)). lia. }
  rewrite (Hnb _ Hm). destruct (inside M c _); [reflexivity|]. apply IH; auto.
Qed.

Lemma scan_range : forall M c nb n fuel k k', scan M c nb n k fuel = Some k' -> k <= k' < k + Z.of_nat fuel.
Proof.
  intros M c nb n fuel. induction fuel as [|f IH]; intros k k' H; cbn [scan] in H; [discriminate|].
  destruct (inside M c _).
  - inversion H. subst. lia.
  - apply IH in H. lia.
Qed.

(* ---- the centred-point buffer ---- *)
Lemma centre_fill_spec : forall M a pts j wb2,
  (j + length pts <= length wb2)%nat ->
  let res := centre_fill M a pts j wb2 in
  length res = length wb2 /\
  (forall k, (k < j)%nat -> nth k res v0 = nth k wb2 v0) /\
  (forall k, (k < length pts)%nat -> nth (j + k) res v0 = centred M a (nth k pts v0)).
Proof.
  intros M a pts. induction pts as [|s r IH]; intros j wb2 Hlen; cbn [centre_fill].
  - cbn. repeat split; auto; try (intros k Hk; cbn in Hk; lia).
  - cbn [length] in Hlen.
    destruct (IH (S j) (upd j (centred M a s) wb2)) as [H1 [H2 H3]]; [rewrite upd_length; lia|].
    cbn zeta in *. rewrite upd_length in H1. repeat split.
    + exact H1.
    + intros k Hk. rewrite H2 by lia. apply nth_upd_other. lia.
    + intros [|k] Hk.
      * rewrite Nat.add_0_r, H2 by lia. apply nth_upd_same. lia.
      * replace (j + S k)%nat with (S j + k)%nat by lia. cbn [nth]. apply H3. cbn in Hk. lia.
Qed.

(* ---- the loop over sphere points ---- *)
Lemma count_ll_eq : forall M a ats wb1 nb pts wb2 j kc acc,
  (forall q, (q < length nb)%nat -> nth (nth q wb1 0%nat) ats dflt_atom = nth q nb dflt_atom) ->
  (forall k, (k < length pts)%nat -> nth (j + k) wb2 v0 = centred M a (nth k pts v0)) ->
  fst (count_ll M ats wb1 (length nb) wb2 j (length pts) kc acc) = count_cached M a nb pts kc acc.
Proof.
  intros M a ats wb1 nb pts. induction pts as [|s r IH]; intros wb2 j kc acc Hnb Hc; [reflexivity|].
  cbn [length count_ll count_cached].
  pose proof (Hc 0%nat ltac:(cbn; lia)) as E0. rewrite Nat.add_0_r in E0. cbn [nth] in E0.
  rewrite E0, (scan_ll_eq M (centred M a s) ats wb1 nb (length nb) kc Hnb).
  2:{ destruct nb; [right; reflexivity|left; cbn; lia]. }
  assert (Hc' : forall k, (k < length r)%nat -> nth (S j + k) wb2 v0 = centred M a (nth k r v0)).
  { intros k Hk. specialize (Hc (S k) ltac:(cbn; lia)). replace (j + S k)%nat with (S j + k)%nat in Hc by lia. exact Hc. }
  destruct (scan M (centred M a s) nb (Z.of_nat (length nb)) kc (length nb)); apply IH; auto.
Qed.

(* the cache index stays small: it grows by less than the number of neighbours per sphere point *)
Lemma scan_ll_range : forall M c ats wb1 n fuel k k',
  scan_ll M c ats wb1 n k fuel = Some k' -> k <= k' < k + Z.of_nat fuel.
Proof.
  intros M c ats wb1 n fuel. induction fuel as [|f IH]; intros k k' H; cbn [scan_ll] in H; [discriminate|].
  destruct (inside M c _); [inversion H; subst; lia|]. apply IH in H. lia.
Qed.

Lemma count_ll_k_bound : forall M ats wb1 n wb2 m j kc acc,
  0 <= kc -> let kc' := snd (count_ll M ats wb1 n wb2 j m kc acc) in kc <= kc' <= kc + Z.of_nat m * Z.of_nat n.
Proof.
  intros M ats wb1 n wb2 m. induction m as [|m IH]; intros j kc acc Hk; cbn [count_ll]; [cbn; lia|].
  destruct (scan_ll M (nth j wb2 v0) ats wb1 (Z.of_nat n) kc n) as [k'|] eqn:E.
  - apply scan_ll_range in E. specialize (IH (S j) k' acc ltac:(lia)). cbn zeta in *. nia.
  - specialize (IH (S j) kc (acc + 1) Hk). cbn zeta in *. nia.
Qed.

(* ---- the whole frame ---- *)
Theorem asa_ll_go_refines : forall K M pts ats l i mask buf wb1 wb2,
  (length ats <= length wb1)%nat -> (length pts <= length wb2)%nat ->
  let res := asa_ll_go K M pts ats i l mask buf wb1 wb2 in
  fst res = asa_go K M pts ats i l mask buf /\
  length (fst (snd res)) = length wb1 /\ length (snd (snd res)) = length wb2.
Proof.
  intros K M pts ats l. induction l as [|a l' IH]; intros i mask buf wb1 wb2 H1 H2; cbn [asa_ll_go asa_go].
  - cbn. auto.
  - destruct mask as [|m mask']; [cbn; auto|]. destruct buf as [|b buf']; [cbn; auto|].
    destruct m.
    + pose proof (nbr_fill_spec ats [] a i wb1 0%nat ltac:(cbn; lia)) as Hn. cbn [length app] in Hn. cbn zeta in Hn.
      destruct (nbr_fill a i 0%nat ats wb1 0%nat) as [wb1' n] eqn:En. cbn [fst snd] in Hn.
      destruct Hn as [N1 [N2 [_ N4]]]. cbn [plus] in N1, N4.
      pose proof (centre_fill_spec M a pts 0%nat wb2 ltac:(cbn; lia)) as Hc. cbn zeta in Hc.
      destruct Hc as [C1 [_ C3]]. cbn [plus] in C3.
      specialize (IH (S i) mask' buf' wb1' (centre_fill M a pts 0%nat wb2) ltac:(lia) ltac:(lia)). cbn zeta in IH.
      destruct (asa_ll_go K M pts ats (S i) l' mask' buf' wb1' (centre_fill M a pts 0%nat wb2)) as [r w] eqn:Er.
      cbn [fst snd] in *. destruct IH as [I1 [I2 I3]]. repeat split; try lia.
      f_equal; [|exact I1]. unfold atom_area, atom_count, neighbors. f_equal. f_equal.
      subst n. apply (count_ll_eq M a ats wb1' (nbrs_from a i 0%nat ats) pts (centre_fill M a pts 0%nat wb2) 0%nat 0 0).
      * intros q Hq. exact (N4 q Hq).
      * intros k Hk. cbn [plus]. exact (C3 k Hk).
    + specialize (IH (S i) mask' buf' wb1 wb2 H1 H2). cbn zeta in IH.
      destruct (asa_ll_go K M pts ats (S i) l' mask' buf' wb1 wb2) as [r w]. cbn [fst snd] in *.
      destruct IH as [I1 [I2 I3]]. repeat split; auto. f_equal. exact I1.
Qed.

(* The areas asa_frame computes through its work buffers are those of the list model, whatever the buffers held:
   two calls with different buffer contents (previous atom, previous frame, previous call, fresh malloc) agree. *)
Theorem asa_frame_ll_refines : forall K M pts ats mask buf wb1 wb2,
  (length ats <= length wb1)%nat -> (length pts <= length wb2)%nat ->
  fst (asa_frame_ll K M pts ats mask buf wb1 wb2) = asa_frame K M pts ats mask buf.
Proof. intros. unfold asa_frame_ll, asa_frame. now apply asa_ll_go_refines. Qed.

Corollary asa_frame_ll_ignores_work_buffers : forall K M pts ats mask buf wb1 wb2 wb1' wb2',
  (length ats <= length wb1)%nat -> (length pts <= length wb2)%nat ->
  (length ats <= length wb1')%nat -> (length pts <= length wb2')%nat ->
  fst (asa_frame_ll K M pts ats mask buf wb1 wb2) = fst (asa_frame_ll K M pts ats mask buf wb1' wb2').
Proof. intros. rewrite !asa_frame_ll_refines; auto. Qed.
