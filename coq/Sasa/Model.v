(* Executable model of mdtraj's Shrake-Rupley code (C13; the frame loop is also a C08 kernel).
   No proofs in this file.

   mdtraj/geometry/src/sasa.cpp   asa_frame, sasa          -> neighbors, scan, count_cached, asa_frame,
                                                             body_cur / body_fix, sasa_kernel
   mdtraj/geometry/sasa.py        shrake_rupley            -> radii_of, mask_of, init_row, mapping_of,
                                                             shrake_rupley

   Arithmetic is exact, over Z.  One length unit U for coordinates and radii (the runs use
   U = 2^-20 * 1e-3 nm so that float32 coordinates on a 2^-20 nm grid and the decimal radii table are
   both integers); sphere points are integers in the unit 1/M and are an argument of every definition
   (generate_sphere_points is float code: the runs take its output from a shim that includes sasa.cpp).
   A centred sphere point therefore lives in the unit U/M.  Areas are integers in the unit K*U^2 where
   K stands for the C constant 4*pi/n_sphere_points (an integer parameter here; the runs use K = 1).
   Float32 rounding inside the kernel is outside the model (guard band in the correspondence). *)
From Coq Require Import String.
From Coq Require Import List Arith ZArith Bool.
Import ListNotations.
Require Import MD.Sched.ParFor.
Open Scope Z_scope.

Definition vec := (Z * Z * Z)%type.
Definition atom := (vec * Z)%type.          (* position, expanded radius = vdW radius + probe *)

Definition sq (a : Z) : Z := a * a.
Definition vsub (a b : vec) : vec :=
  let '(ax, ay, az) := a in let '(bx, by_, bz) := b in (ax - bx, ay - by_, az - bz).
Definition norm2 (a : vec) : Z := let '(x, y, z) := a in sq x + sq y + sq z.
Definition d2 (a b : vec) : Z := norm2 (vsub a b).
Definition vscale (M : Z) (v : vec) : vec := let '(x, y, z) := v in (x * M, y * M, z * M).
Definition dflt_atom : atom := ((0, 0, 0), 0).

(* ---------------------------------------------------------------- asa_frame, one atom *)

(* "if (r2 < radius_cutoff2)": strict, on squared quantities *)
Definition is_nbr (a b : atom) : bool := d2 (fst a) (fst b) <? sq (snd a + snd b).

(* neighbor_indices of atom number i (the atoms themselves instead of their indices), in index order *)
Fixpoint nbrs_from (a : atom) (i j : nat) (l : list atom) : list atom :=
  match l with
  | [] => []
  | b :: t => if negb (Nat.eqb i j) && is_nbr a b then b :: nbrs_from a i (S j) t
              else nbrs_from a i (S j) t
  end.
Definition neighbors (ats : list atom) (i : nat) (a : atom) : list atom := nbrs_from a i 0%nat ats.

(* every other atom, without the prefilter (used by the specification only) *)
Fixpoint others_from (i j : nat) (l : list atom) : list atom :=
  match l with
  | [] => []
  | b :: t => if Nat.eqb i j then others_from i (S j) t else b :: others_from i (S j) t
  end.
Definition others (ats : list atom) (i : nat) : list atom := others_from i 0%nat ats.

(* centered_sphere_points[j] = frame[i] + atom_radius_i * sphere_points[j]   (unit U/M) *)
Definition centred (M : Z) (a : atom) (s : vec) : vec :=
  let '(x, y, z) := fst a in let '(sx, sy, sz) := s in
  (x * M + snd a * sx, y * M + snd a * sy, z * M + snd a * sz).

(* "dot3(r_jk, r_jk) < r*r": the point is strictly inside atom b's expanded sphere *)
Definition inside (M : Z) (c : vec) (b : atom) : bool := d2 c (vscale M (fst b)) <? sq (M * snd b).

(* for (k = k_closest; k < n + k_closest; k++) { k' = k % n; if inside(neighbor[k']) { k_closest = k; break } }
   returns the k at which the loop broke *)
Fixpoint scan (M : Z) (c : vec) (nb : list atom) (n : Z) (k : Z) (fuel : nat) : option Z :=
  match fuel with
  | O => None
  | S f => if inside M c (nth (Z.to_nat (k mod n)) nb dflt_atom) then Some k
           else scan M c nb n (k + 1) f
  end.

(* the loop over sphere points with the rotating k_closest_neighbor cache; acc counts accessible points *)
Fixpoint count_cached (M : Z) (a : atom) (nb : list atom) (pts : list vec) (kc : Z) (acc : Z) : Z :=
  match pts with
  | [] => acc
  | s :: r =>
      match scan M (centred M a s) nb (Z.of_nat (length nb)) kc (length nb) with
      | Some k => count_cached M a nb r k acc
      | None => count_cached M a nb r kc (acc + 1)
      end
  end.

(* specification side: a point is accessible iff it is strictly inside none of the given spheres *)
Definition accessible (M : Z) (a : atom) (nb : list atom) (s : vec) : bool :=
  forallb (fun b => negb (inside M (centred M a s) b)) nb.
Definition count_naive (M : Z) (a : atom) (nb : list atom) (pts : list vec) : Z :=
  Z.of_nat (length (filter (accessible M a nb) pts)).

(* number of accessible points of atom i as the C code computes it *)
Definition atom_count (M : Z) (pts : list vec) (ats : list atom) (i : nat) (a : atom) : Z :=
  count_cached M a (neighbors ats i a) pts 0 0.

(* areas[i] += #accessible;  areas[i] *= constant * r_i * r_i      (prev = what the buffer held) *)
Definition atom_area (K M : Z) (pts : list vec) (ats : list atom) (i : nat) (a : atom) (prev : Z) : Z :=
  (prev + atom_count M pts ats i a) * (K * snd a * snd a).

(* ---------------------------------------------------------------- asa_frame, all atoms *)
Fixpoint asa_go (K M : Z) (pts : list vec) (ats : list atom) (i : nat)
         (l : list atom) (mask : list bool) (buf : list Z) : list Z :=
  match l, mask, buf with
  | a :: l', m :: mask', b :: buf' =>
      (if m then atom_area K M pts ats i a b else b) :: asa_go K M pts ats (S i) l' mask' buf'
  | _, _, _ => []
  end.
Definition asa_frame (K M : Z) (pts : list vec) (ats : list atom) (mask : list bool) (buf : list Z) : list Z :=
  asa_go K M pts ats 0%nat ats mask buf.

(* "if (r2 < 1e-10f) { printf(...); exit(1); }": reached for a selected atom i and any other atom j.
   tiny2 is 1e-10 nm^2 in the unit U^2. *)
Fixpoint clash_from (tiny2 : Z) (a : atom) (i j : nat) (l : list atom) : bool :=
  match l with
  | [] => false
  | b :: t => (negb (Nat.eqb i j) && (d2 (fst a) (fst b) <? tiny2)) || clash_from tiny2 a i (S j) t
  end.
Fixpoint clash_go (tiny2 : Z) (ats : list atom) (i : nat) (l : list atom) (mask : list bool) : bool :=
  match l, mask with
  | a :: l', m :: mask' => (m && clash_from tiny2 a i 0%nat ats) || clash_go tiny2 ats (S i) l' mask'
  | _, _ => false
  end.
Definition frame_clash (tiny2 : Z) (ats : list atom) (mask : list bool) : bool :=
  clash_go tiny2 ats 0%nat ats mask.

(* ---------------------------------------------------------------- sasa(): the frame loop *)
(* outframe[atom_mapping[j]] += outframebuffer[j]   for every atom j *)
Fixpoint upd_add (g : nat) (v : Z) (row : list Z) : list Z :=
  match row, g with
  | [], _ => []
  | x :: r, O => (x + v) :: r
  | x :: r, S g' => x :: upd_add g' v r
  end.
Fixpoint accumulate (mapping : list nat) (buf : list Z) (row : list Z) : list Z :=
  match mapping, buf with
  | g :: m', b :: b' => accumulate m' b' (upd_add g b row)
  | _, _ => row
  end.

Definition frame := list vec.
Definition zeros (n : nat) : list Z := repeat 0 n.

Section Kernel.
  Variables (K M : Z) (pts : list vec) (radii : list Z) (mask : list bool) (mapping : list nat) (row0 : list Z).

  (* today's code: asa_frame works on top of whatever the thread's outframebuffer holds *)
  Definition body_cur (buf : list Z) (fr : frame) : list Z * list Z :=
    let b' := asa_frame K M pts (combine fr radii) mask buf in (b', accumulate mapping b' row0).
  (* minimal repair: the buffer is zeroed before every frame *)
  Definition body_fix (buf : list Z) (fr : frame) : list Z * list Z :=
    let b' := asa_frame K M pts (combine fr radii) mask (zeros (length radii)) in (b', accumulate mapping b' row0).

  (* one frame on its own, from a freshly calloc'd buffer: the reference value of a frame *)
  Definition frame_row (fr : frame) : list Z :=
    accumulate mapping (asa_frame K M pts (combine fr radii) mask (zeros (length radii))) row0.

  Definition sasa_kernel (fixed : bool) (frames : list frame) (sched : schedule) : list (option (list Z)) :=
    parfor (if fixed then body_fix else body_cur) (zeros (length radii)) [] frames sched.
End Kernel.

(* ---------------------------------------------------------------- sasa.py: shrake_rupley *)
Inductive mode := AtomMode | ResidueMode.

Fixpoint lookup_radius (e : string) (tbl : list (string * Z)) : option Z :=
  match tbl with
  | [] => None
  | (k, v) :: r => if String.eqb e k then Some v else lookup_radius e r
  end.

(* modified_radii = deepcopy(_ATOMIC_RADII); modified_radii[k] = v for k, v in change_radii:
   an override list searched first.  radii = table[element] + probe_radius; a missing symbol is a KeyError *)
Fixpoint radii_of (tbl change : list (string * Z)) (probe : Z) (elems : list string) : option (list Z) :=
  match elems with
  | [] => Some []
  | e :: r =>
      match lookup_radius e (change ++ tbl), radii_of tbl change probe r with
      | Some v, Some l => Some (v + probe :: l)
      | _, _ => None
      end
  end.

(* well-formedness of a radii table: positive radii, no symbol listed twice *)
Fixpoint keys_distinct (tbl : list (string * Z)) : bool :=
  match tbl with
  | [] => true
  | (k, _) :: r => negb (existsb (fun p => String.eqb k (fst p)) r) && keys_distinct r
  end.
Definition table_wf (tbl : list (string * Z)) : bool :=
  forallb (fun p => 0 <? snd p) tbl && keys_distinct tbl.

Definition mem_nat (i : nat) (l : list nat) : bool := existsb (Nat.eqb i) l.

(* atom_selection_mask = [1 if ii in atom_indices else 0 for ii in range(n_atoms)] *)
Definition mask_of (n : nat) (sel : option (list nat)) : list bool :=
  match sel with
  | None => repeat true n
  | Some idx => map (fun i => mem_nat i idx) (seq 0 n)
  end.

Fixpoint set_nth (g : nat) (v : Z) (row : list Z) : list Z :=
  match row, g with
  | [], _ => []
  | _ :: r, O => v :: r
  | x :: r, S g' => x :: set_nth g' v r
  end.

(* out = zeros                                   (atom_indices is None)
   out = full(-1); out[:, atom_mapping[atom_indices]] = 0 *)
Definition init_row (ngroups : nat) (mapping : list nat) (sel : option (list nat)) : list Z :=
  match sel with
  | None => repeat 0 ngroups
  | Some idx => fold_left (fun row i => set_nth (nth i mapping 0%nat) 0 row) idx (repeat (-1) ngroups)
  end.

Definition mapping_of (md : mode) (n : nat) (resid : list nat) : list nat :=
  match md with AtomMode => seq 0 n | ResidueMode => resid end.

(* np.all(np.unique(atom_mapping) == np.arange(1 + max(atom_mapping))) *)
Definition contiguous (m : list nat) : bool :=
  forallb (fun g => mem_nat g m) (seq 0 (S (fold_right Nat.max 0%nat m))).

Inductive result := ErrValue | ErrKey | ErrIndex | Exit1 | Ok (rows : list (option (list Z))).

Record call := {
  c_K : Z; c_M : Z; c_tiny2 : Z;
  c_pts : list vec;                       (* sphere points, unit 1/M *)
  c_tbl : list (string * Z);              (* _ATOMIC_RADII in the unit U *)
  c_change : list (string * Z);           (* change_radii (empty list for None) *)
  c_probe : Z;
  c_elems : list string;                  (* element symbol per atom *)
  c_resid : list nat; c_nres : nat;       (* residue index per atom, traj.n_residues *)
  c_mode : mode;
  c_sel : option (list nat);              (* atom_indices *)
  c_frames : list frame;
}.

Definition shrake_rupley (fixed : bool) (sched : schedule) (c : call) : result :=
  let n := length (c_elems c) in
  let mapping := mapping_of (c_mode c) n (c_resid c) in
  let ng := match c_mode c with AtomMode => n | ResidueMode => c_nres c end in
  if match c_mode c with AtomMode => false | ResidueMode => negb (contiguous mapping) end then ErrValue
  else if match c_sel c with Some idx => negb (forallb (fun i => Nat.ltb i n) idx) | None => false end then ErrIndex
  else match radii_of (c_tbl c) (c_change c) (c_probe c) (c_elems c) with
       | None => ErrKey
       | Some radii =>
           let mask := mask_of n (c_sel c) in
           if existsb (fun fr => frame_clash (c_tiny2 c) (combine fr radii) mask) (c_frames c) then Exit1
           else Ok (sasa_kernel (c_K c) (c_M c) (c_pts c) radii mask mapping (init_row ng mapping (c_sel c))
                                fixed (c_frames c) sched)
       end.

(* ---------------------------------------------------------------- the same function in two stages
   (used by the correspondence to evaluate the expensive, mode-independent part once per system;
   MD.Sasa.Proofs.shrake_rupley_two_stage shows it is the same function) *)
Inductive pre := PErr (r : result) | PBufs (bufs : list (list Z)).

Definition set_mode (md : mode) (c : call) : call :=
  {| c_K := c_K c; c_M := c_M c; c_tiny2 := c_tiny2 c; c_pts := c_pts c; c_tbl := c_tbl c; c_change := c_change c;
     c_probe := c_probe c; c_elems := c_elems c; c_resid := c_resid c; c_nres := c_nres c; c_mode := md;
     c_sel := c_sel c; c_frames := c_frames c |}.

(* stage 1: everything that does not depend on the mode - guards, radii, and each frame's buffer from zeros *)
Definition shrake_rupley_pre (c : call) : pre :=
  let n := length (c_elems c) in
  if match c_sel c with Some idx => negb (forallb (fun i => Nat.ltb i n) idx) | None => false end then PErr ErrIndex
  else match radii_of (c_tbl c) (c_change c) (c_probe c) (c_elems c) with
       | None => PErr ErrKey
       | Some radii =>
           let mask := mask_of n (c_sel c) in
           if existsb (fun fr => frame_clash (c_tiny2 c) (combine fr radii) mask) (c_frames c) then PErr Exit1
           else PBufs (map (fun fr => asa_frame (c_K c) (c_M c) (c_pts c) (combine fr radii) mask (zeros (length radii)))
                           (c_frames c))
       end.

(* stage 2: the mode - contiguity check, mapping, -1 overlay, accumulation into groups *)
Definition shrake_rupley_post (c : call) (p : pre) : result :=
  let n := length (c_elems c) in
  let mapping := mapping_of (c_mode c) n (c_resid c) in
  let ng := match c_mode c with AtomMode => n | ResidueMode => c_nres c end in
  if match c_mode c with AtomMode => false | ResidueMode => negb (contiguous mapping) end then ErrValue
  else match p with
       | PErr e => e
       | PBufs bufs => Ok (map (fun b => Some (accumulate mapping b (init_row ng mapping (c_sel c)))) bufs)
       end.

(* ---------------------------------------------------------------- atom order: index order vs Topology.atoms order
   sasa.py takes the element symbols (radii) and the residue indices by iterating traj.topology.atoms, which walks
   chains -> residues -> atoms.  xyz is in atom.index order.  The two orders coincide exactly when every residue's atoms
   are contiguous in index order (true for every topology read from a file); for a topology built with interleaved
   add_atom / insert_atom calls they differ and atom j is given the symbol and residue of the j-th atom of the walk.
   [iter] lists, in walk order, the atom indices.  The call record itself always holds index-order data (the
   specification); the as-found code computes with [as_found_view iter c]. *)
Definition reorder {X : Type} (d : X) (iter : list nat) (l : list X) : list X := map (fun k => nth k l d) iter.

Definition as_found_view (iter : list nat) (c : call) : call :=
  {| c_K := c_K c; c_M := c_M c; c_tiny2 := c_tiny2 c; c_pts := c_pts c; c_tbl := c_tbl c; c_change := c_change c;
     c_probe := c_probe c; c_elems := reorder EmptyString iter (c_elems c); c_resid := reorder 0%nat iter (c_resid c);
     c_nres := c_nres c; c_mode := c_mode c; c_sel := c_sel c; c_frames := c_frames c |}.

(* the walk order of a topology whose atom j belongs to residue resid[j]: stable sort of the indices by residue *)
Definition walk_order (nres : nat) (resid : list nat) : list nat :=
  flat_map (fun r => filter (fun j => Nat.eqb (nth j resid 0%nat) r) (seq 0 (length resid))) (seq 0 nres).

(* ---------------------------------------------------------------- atom_indices as the caller passes them
   sasa.py reads atom_indices twice: the selection mask is [1 if ii in atom_indices else 0 for ii in range(n_atoms)]
   (Python membership: a negative entry never matches, True == 1, False == 0), the -1 overlay is
   out[:, atom_mapping[atom_indices]] = 0 (numpy indexing: an integer in [-n, 0) wraps, a boolean list of length n selects
   its True positions, anything else raises IndexError).  For non-negative integers the two readings agree. *)
Inductive rawsel := RawInts (l : list Z) | RawBools (l : list bool).

Definition raw_mask (n : nat) (r : rawsel) : list bool :=
  match r with
  | RawInts l => map (fun i => existsb (Z.eqb (Z.of_nat i)) l) (seq 0 n)
  | RawBools l => map (fun i => existsb (fun b : bool => Z.eqb (Z.of_nat i) (if b then 1 else 0)) l) (seq 0 n)
  end.

Definition raw_overlay (n : nat) (r : rawsel) : option (list nat) :=
  match r with
  | RawInts l => if forallb (fun i => (- Z.of_nat n <=? i) && (i <? Z.of_nat n)) l
                 then Some (map (fun i => Z.to_nat (if i <? 0 then i + Z.of_nat n else i)) l) else None
  | RawBools l => if Nat.eqb (length l) n then Some (filter (fun i => nth i l false) (seq 0 n)) else None
  end.

Definition set_sel (sel : option (list nat)) (c : call) : call :=
  {| c_K := c_K c; c_M := c_M c; c_tiny2 := c_tiny2 c; c_pts := c_pts c; c_tbl := c_tbl c; c_change := c_change c;
     c_probe := c_probe c; c_elems := c_elems c; c_resid := c_resid c; c_nres := c_nres c; c_mode := c_mode c;
     c_sel := sel; c_frames := c_frames c |}.

Definition mode_refused (c : call) : bool :=
  match c_mode c with AtomMode => false
                    | ResidueMode => negb (contiguous (mapping_of (c_mode c) (length (c_elems c)) (c_resid c))) end.

(* as found: mask from the first reading, overlay from the second (c_sel of the record is not used) *)
Definition shrake_rupley_raw_cur (sched : schedule) (c : call) (r : rawsel) : result :=
  let n := length (c_elems c) in
  let mapping := mapping_of (c_mode c) n (c_resid c) in
  let ng := match c_mode c with AtomMode => n | ResidueMode => c_nres c end in
  if mode_refused c then ErrValue
  else match raw_overlay n r with
       | None => ErrIndex
       | Some ov =>
           match radii_of (c_tbl c) (c_change c) (c_probe c) (c_elems c) with
           | None => ErrKey
           | Some radii =>
               let mask := raw_mask n r in
               if existsb (fun fr => frame_clash (c_tiny2 c) (combine fr radii) mask) (c_frames c) then Exit1
               else Ok (sasa_kernel (c_K c) (c_M c) (c_pts c) radii mask mapping (init_row ng mapping (Some ov))
                                    true (c_frames c) sched)
           end
       end.

(* minimal repair: atom_indices is given its numpy meaning once, and both the mask and the overlay come from that *)
Definition shrake_rupley_raw (sched : schedule) (c : call) (r : rawsel) : result :=
  if mode_refused c then ErrValue
  else match raw_overlay (length (c_elems c)) r with
       | None => ErrIndex
       | Some ov => shrake_rupley true sched (set_sel (Some ov) c)
       end.

(* ---------------------------------------------------------------- comparison used by the correspondence
   The implementation's float32 areas are turned, by the harness, into an integer interval [lo, hi] in the
   unit K*U^2 (K = 1) per frame and output column, or None where the implementation returned exactly -1. *)
Definition cell_ok (v : Z) (e : option (Z * Z)) : bool :=
  match e with
  | None => v =? -1
  | Some (lo, hi) => negb (v =? -1) && (lo <=? v) && (v <=? hi)
  end.
Fixpoint row_ok (row : list Z) (e : list (option (Z * Z))) : bool :=
  match row, e with
  | [], [] => true
  | v :: r, x :: er => cell_ok v x && row_ok r er
  | _, _ => false
  end.
Fixpoint rows_ok (rows : list (option (list Z))) (e : list (list (option (Z * Z)))) : bool :=
  match rows, e with
  | [], [] => true
  | Some row :: r, x :: er => row_ok row x && rows_ok r er
  | _, _ => false
  end.
(* expected: inl rows | inr error-class number (1 ValueError, 2 KeyError, 3 IndexError, 4 process exit) *)
Definition result_ok (r : result) (e : list (list (option (Z * Z))) + nat) : bool :=
  match r, e with
  | Ok rows, inl x => rows_ok rows x
  | ErrValue, inr 1%nat | ErrKey, inr 2%nat | ErrIndex, inr 3%nat | Exit1, inr 4%nat => true
  | _, _ => false
  end.
