(* Lemmas about the Shrake-Rupley model (C13). *)
From Coq Require Import String.
From Coq Require Import List Arith ZArith Bool Lia.
Import ListNotations.
Require Import MD.Sched.ParFor MD.Sched.Proofs MD.Sasa.Model.
Open Scope Z_scope.

(* ------------------------------------------------------------------ the neighbour cache is a pure optimisation *)
Lemma scan_none : forall M c nb n fuel k,
  scan M c nb n k fuel = None ->
  forall t, 0 <= t < Z.of_nat fuel -> inside M c (nth (Z.to_nat ((k + t) mod n)) nb dflt_atom) = false.
Proof.
  intros M c nb n fuel. induction fuel as [|f IH]; intros k Hs t Ht; [lia|].
  cbn [scan] in Hs. destruct (inside M c (nth (Z.to_nat (k mod n)) nb dflt_atom)) eqn:E; [discriminate|].
  destruct (Z.eq_dec t 0) as [->|Hne].
  - now rewrite Z.add_0_r.
  - replace (k + t) with ((k + 1) + (t - 1)) by lia. apply IH; [assumption|lia].
Qed.

Lemma scan_some : forall M c nb n fuel k k',
  scan M c nb n k fuel = Some k' ->
  inside M c (nth (Z.to_nat (k' mod n)) nb dflt_atom) = true.
Proof.
  intros M c nb n fuel. induction fuel as [|f IH]; intros k k' Hs; [discriminate|].
  cbn [scan] in Hs. destruct (inside M c (nth (Z.to_nat (k mod n)) nb dflt_atom)) eqn:E.
  - now inversion Hs; subst.
  - eapply IH; eauto.
Qed.

Lemma accessible_spec : forall M a nb s,
  accessible M a nb s = true <-> forall b, In b nb -> inside M (centred M a s) b = false.
Proof.
  intros. unfold accessible. rewrite forallb_forall. split; intros H b Hb; specialize (H b Hb).
  - now apply negb_true_iff in H.
  - now apply negb_true_iff.
Qed.

Lemma scan_accessible : forall M a nb s k,
  scan M (centred M a s) nb (Z.of_nat (length nb)) k (length nb) = None <-> accessible M a nb s = true.
Proof.
  intros M a nb s k. set (n := Z.of_nat (length nb)). split.
  - intros Hs. apply accessible_spec. intros b Hb.
    destruct (In_nth _ _ dflt_atom Hb) as [j [Hj <-]].
    assert (Hn : 0 < n) by lia.
    pose proof (scan_none _ _ _ _ _ _ Hs ((Z.of_nat j - k) mod n)) as H.
    assert (Hr : 0 <= (Z.of_nat j - k) mod n < n) by (apply Z.mod_pos_bound; lia).
    specialize (H Hr).
    rewrite Z.add_mod_idemp_r in H by lia.
    replace (k + (Z.of_nat j - k)) with (Z.of_nat j) in H by lia.
    rewrite Z.mod_small in H by lia. now rewrite Nat2Z.id in H.
  - intros Ha. destruct (scan M (centred M a s) nb n k (length nb)) as [k'|] eqn:E; [|reflexivity].
    exfalso. rewrite accessible_spec in Ha.
    destruct (Nat.eq_dec (length nb) 0) as [H0|H0].
    + destruct nb; [|discriminate]. cbn in E. discriminate.
    + apply scan_some in E. assert (Hr : 0 <= k' mod n < n) by (apply Z.mod_pos_bound; lia).
      rewrite (Ha (nth (Z.to_nat (k' mod n)) nb dflt_atom)) in E; [discriminate|].
      apply nth_In. lia.
Qed.

Lemma count_cached_naive : forall M a nb pts kc acc,
  count_cached M a nb pts kc acc = acc + count_naive M a nb pts.
Proof.
  intros M a nb pts. unfold count_naive. induction pts as [|s r IH]; intros kc acc; cbn [count_cached filter].
  - cbn. lia.
  - destruct (scan M (centred M a s) nb (Z.of_nat (length nb)) kc (length nb)) as [k|] eqn:E.
    + assert (Ha : accessible M a nb s = false).
      { destruct (accessible M a nb s) eqn:Ea; [|reflexivity]. apply scan_accessible with (k := kc) in Ea. congruence. }
      rewrite Ha. apply IH.
    + apply scan_accessible in E. rewrite E. rewrite IH. cbn [length]. lia.
Qed.
