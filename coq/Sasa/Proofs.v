(* Lemmas about the Shrake-Rupley model (C13). *)
From Coq Require Import String.
From Coq Require Import List Arith ZArith Bool Lia.
Import ListNotations.
Require Import MD.Sched.ParFor MD.Sched.Proofs MD.Sasa.Model.
Open Scope Z_scope.

(* ------------------------------------------------------------------ the neighbour cache is a pure optimisation *)
Lemma scan_none : forall M c nb n fuel k,
  scan M c nb n k fuel = None ->
  forall t, 0 <= t < Z.of_nat fuel -> inside M c (nth (Z.to_nat ((k + t) mod n)) nb dflt_atom) = false.
Proof.
  intros M c nb n fuel. induction fuel as [|f IH]; intros k Hs t Ht; [lia|].
  cbn [scan] in Hs. destruct (inside M c (nth (Z.to_nat (k mod n)) nb dflt_atom)) eqn:E; [discriminate|].
  destruct (Z.eq_dec t 0) as [->|Hne].
  - now rewrite Z.add_0_r.
  - replace (k + t) with ((k + 1) + (t - 1)) by lia. apply IH; [assumption|lia].
Qed.

Lemma scan_some : forall M c nb n fuel k k',
  scan M c nb n k fuel = Some k' ->
  inside M c (nth (Z.to_nat (k' mod n)) nb dflt_atom) = true.
Proof.
  intros M c nb n fuel. induction fuel as [|f IH]; intros k k' Hs; [discriminate|].
  cbn [scan] in Hs. destruct (inside M c (nth (Z.to_nat (k mod n)) nb dflt_atom)) eqn:E.
  - now inversion Hs; subst.
  - eapply IH; eauto.
Qed.

Lemma accessible_spec : forall M a nb s,
  accessible M a nb s = true <-> forall b, In b nb -> inside M (centred M a s) b = false.
Proof.
  intros. unfold accessible. rewrite forallb_forall. split; intros H b Hb; specialize (H b Hb).
  - now apply negb_true_iff in H.
  - now apply negb_true_iff.
Qed.

Lemma scan_accessible : forall M a nb s k,
  scan M (centred M a s) nb (Z.of_nat (length nb)) k (length nb) = None <-> accessible M a nb s = true.
Proof.
  intros M a nb s k. set (n := Z.of_nat (length nb)). split.
  - intros Hs. apply accessible_spec. intros b Hb.
    destruct (In_nth _ _ dflt_atom Hb) as [j [Hj <-]].
    assert (Hn : 0 < n) by lia.
    pose proof (scan_none _ _ _ _ _ _ Hs ((Z.of_nat j - k) mod n)) as H.
    assert (Hr : 0 <= (Z.of_nat j - k) mod n < n) by (apply Z.mod_pos_bound; lia).
    specialize (H Hr).
    rewrite Z.add_mod_idemp_r in H by lia.
    replace (k + (Z.of_nat j - k)) with (Z.of_nat j) in H by lia.
    rewrite Z.mod_small in H by lia. now rewrite Nat2Z.id in H.
  - intros Ha. destruct (scan M (centred M a s) nb n k (length nb)) as [k'|] eqn:E; [|reflexivity].
    exfalso. rewrite accessible_spec in Ha.
    destruct (Nat.eq_dec (length nb) 0) as [H0|H0].
    + destruct nb; [|discriminate]. cbn in E. discriminate.
    + apply scan_some in E. assert (Hr : 0 <= k' mod n < n) by (apply Z.mod_pos_bound; lia).
      rewrite (Ha (nth (Z.to_nat (k' mod n)) nb dflt_atom)) in E; [discriminate|].
      apply nth_In. lia.
Qed.

Lemma count_cached_naive : forall M a nb pts kc acc,
  count_cached M a nb pts kc acc = acc + count_naive M a nb pts.
Proof.
  intros M a nb pts. unfold count_naive. induction pts as [|s r IH]; intros kc acc; cbn [count_cached filter].
  - cbn. lia.
  - destruct (scan M (centred M a s) nb (Z.of_nat (length nb)) kc (length nb)) as [k|] eqn:E.
    + assert (Ha : accessible M a nb s = false).
      { destruct (accessible M a nb s) eqn:Ea; [|reflexivity]. apply scan_accessible with (k := kc) in Ea. congruence. }
      rewrite Ha. apply IH.
    + apply scan_accessible in E. rewrite E. rewrite IH. cbn [length]. lia.
Qed.

(* ------------------------------------------------------------------ the sum-of-radii prefilter loses nothing *)
Lemma tri_scalar : forall A B P al be, 0 <= al -> 0 <= be -> 0 <= B -> P * P <= A * B ->
  (al + be) * (al + be) <= A -> B <= al * al -> be * be <= A + 2 * P + B.
Proof.
  intros A B P al be Hal Hbe HB HCS HA HBa.
  destruct (Z_le_gt_dec (be * be) (A + 2 * P + B)) as [H|H]; [exact H|exfalso].
  set (A0 := (al + be) * (al + be)) in *.
  set (D := A + B - be * be).
  assert (HD : 0 <= D) by (unfold D, A0 in *; nia).
  assert (HP : 2 * P < - D) by (unfold D; lia).
  assert (H4 : D * D < 4 * (P * P)) by nia.
  assert (Hf : 0 <= D * D - 4 * (A * B)).
  { assert (E1 : D * D - 4 * (A * B) =
                 (A - A0) * (A + A0 - 2 * (B + be * be)) + ((A0 + B - be * be) * (A0 + B - be * be) - 4 * (A0 * B)))
      by (unfold D; ring).
    assert (E2 : (A0 + B - be * be) * (A0 + B - be * be) - 4 * (A0 * B) =
                 (B - al * al) * (B - al * al - 4 * (al * be) - 4 * (be * be))) by (unfold A0; ring).
    assert (S1 : 0 <= (A - A0) * (A + A0 - 2 * (B + be * be))).
    { apply Z.mul_nonneg_nonneg; [lia|]. unfold A0 in *. nia. }
    assert (S2 : 0 <= (B - al * al) * (B - al * al - 4 * (al * be) - 4 * (be * be))).
    { apply Z.mul_nonpos_nonpos; [lia|]. nia. }
    lia. }
  lia.
Qed.

Lemma cauchy_schwarz3 : forall x1 x2 x3 w1 w2 w3,
  (x1 * w1 + x2 * w2 + x3 * w3) * (x1 * w1 + x2 * w2 + x3 * w3) <=
  (x1 * x1 + x2 * x2 + x3 * x3) * (w1 * w1 + w2 * w2 + w3 * w3).
Proof.
  intros.
  assert (E : (x1 * x1 + x2 * x2 + x3 * x3) * (w1 * w1 + w2 * w2 + w3 * w3) -
              (x1 * w1 + x2 * w2 + x3 * w3) * (x1 * w1 + x2 * w2 + x3 * w3) =
              (x1 * w2 - x2 * w1) * (x1 * w2 - x2 * w1) + (x2 * w3 - x3 * w2) * (x2 * w3 - x3 * w2) +
              (x3 * w1 - x1 * w3) * (x3 * w1 - x1 * w3)) by ring.
  pose proof (Z.square_nonneg (x1 * w2 - x2 * w1)). pose proof (Z.square_nonneg (x2 * w3 - x3 * w2)).
  pose proof (Z.square_nonneg (x3 * w1 - x1 * w3)). lia.
Qed.

(* a point of atom a's sphere (|s| <= M, i.e. on or inside the unit sphere) is never strictly inside the sphere of an
   atom that fails the prefilter *)
Lemma non_neighbour_never_blocks : forall M (a b : atom) (s : vec),
  0 <= M -> 0 <= snd a -> 0 <= snd b -> norm2 s <= M * M ->
  is_nbr a b = false -> inside M (centred M a s) b = false.
Proof.
  intros M [[[px py] pz] ra] [[[qx qy] qz] rb] [[sx sy] sz] HM Hra Hrb Hs Hn.
  unfold is_nbr, inside, centred, d2, norm2, vsub, vscale, sq in *. cbn [fst snd] in *.
  apply Z.ltb_ge in Hn. apply Z.ltb_ge.
  set (x1 := M * (px - qx)). set (x2 := M * (py - qy)). set (x3 := M * (pz - qz)).
  set (w1 := ra * sx). set (w2 := ra * sy). set (w3 := ra * sz).
  pose proof (cauchy_schwarz3 x1 x2 x3 w1 w2 w3) as CS.
  assert (HA : (M * ra + M * rb) * (M * ra + M * rb) <= x1 * x1 + x2 * x2 + x3 * x3).
  { unfold x1, x2, x3.
    replace (M * (px - qx) * (M * (px - qx)) + M * (py - qy) * (M * (py - qy)) + M * (pz - qz) * (M * (pz - qz)))
      with ((M * M) * ((px - qx) * (px - qx) + (py - qy) * (py - qy) + (pz - qz) * (pz - qz))) by ring.
    replace ((M * ra + M * rb) * (M * ra + M * rb)) with ((M * M) * ((ra + rb) * (ra + rb))) by ring.
    apply Z.mul_le_mono_nonneg_l; [nia|lia]. }
  assert (HB : w1 * w1 + w2 * w2 + w3 * w3 <= (M * ra) * (M * ra)).
  { unfold w1, w2, w3.
    replace (ra * sx * (ra * sx) + ra * sy * (ra * sy) + ra * sz * (ra * sz))
      with ((ra * ra) * (sx * sx + sy * sy + sz * sz)) by ring.
    replace (M * ra * (M * ra)) with ((ra * ra) * (M * M)) by ring.
    apply Z.mul_le_mono_nonneg_l; [nia|lia]. }
  assert (HB0 : 0 <= w1 * w1 + w2 * w2 + w3 * w3) by nia.
  pose proof (tri_scalar _ _ _ (M * ra) (M * rb) ltac:(nia) ltac:(nia) HB0 CS HA HB) as T.
  replace (px * M + ra * sx - qx * M) with (x1 + w1) by (unfold x1, w1; ring).
  replace (py * M + ra * sy - qy * M) with (x2 + w2) by (unfold x2, w2; ring).
  replace (pz * M + ra * sz - qz * M) with (x3 + w3) by (unfold x3, w3; ring).
  replace ((x1 + w1) * (x1 + w1) + (x2 + w2) * (x2 + w2) + (x3 + w3) * (x3 + w3))
    with ((x1 * x1 + x2 * x2 + x3 * x3) + 2 * (x1 * w1 + x2 * w2 + x3 * w3) + (w1 * w1 + w2 * w2 + w3 * w3)) by ring.
  lia.
Qed.

Lemma nbrs_filter_others : forall a i l j,
  nbrs_from a i j l = filter (is_nbr a) (others_from i j l).
Proof.
  intros a i l. induction l as [|b t IH]; intros j; cbn [nbrs_from others_from filter]; [reflexivity|].
  destruct (Nat.eqb i j); cbn [negb andb].
  - apply IH.
  - cbn [filter]. destruct (is_nbr a b); now rewrite IH.
Qed.

Lemma others_incl : forall i l j b, In b (others_from i j l) -> In b l.
Proof.
  intros i l. induction l as [|x t IH]; intros j b H; cbn in *; [contradiction|].
  destruct (Nat.eqb i j); [right; eauto|]. destruct H as [->|H]; [now left|right; eauto].
Qed.

Lemma accessible_prefilter : forall M a ats i s,
  0 <= M -> 0 <= snd a -> Forall (fun b => 0 <= snd b) ats -> norm2 s <= M * M ->
  accessible M a (neighbors ats i a) s = accessible M a (others ats i) s.
Proof.
  intros M a ats i s HM Ha Hr Hs. unfold neighbors, others. rewrite nbrs_filter_others.
  unfold accessible. set (l := others_from i 0%nat ats).
  assert (Hl : forall b, In b l -> 0 <= snd b).
  { intros b Hb. apply others_incl in Hb. rewrite Forall_forall in Hr. auto. }
  clearbody l. induction l as [|b t IH]; [reflexivity|].
  cbn [filter forallb]. destruct (is_nbr a b) eqn:E.
  - cbn [forallb]. rewrite IH; [reflexivity|]. intros; apply Hl; now right.
  - rewrite (non_neighbour_never_blocks M a b s HM Ha (Hl b (or_introl eq_refl)) Hs E). cbn.
    apply IH. intros; apply Hl; now right.
Qed.

(* the count of the C code = number of points not strictly inside ANY other atom's expanded sphere *)
Lemma atom_count_spec : forall M pts ats i a,
  0 <= M -> 0 <= snd a -> Forall (fun b => 0 <= snd b) ats -> Forall (fun s => norm2 s <= M * M) pts ->
  atom_count M pts ats i a = count_naive M a (others ats i) pts.
Proof.
  intros M pts ats i a HM Ha Hr Hp. unfold atom_count. rewrite count_cached_naive. cbn.
  unfold count_naive. f_equal. f_equal.
  induction pts as [|s r IH]; [reflexivity|]. inversion Hp; subst. cbn [filter].
  rewrite accessible_prefilter by assumption. destruct (accessible M a (others ats i) s); rewrite IH; auto.
Qed.

(* ------------------------------------------------------------------ isolated atom *)
Lemma neighbors_none : forall a i ats,
  (forall j b, nth_error ats j = Some b -> j <> i -> is_nbr a b = false) -> neighbors ats i a = [].
Proof.
  intros a i ats H. unfold neighbors.
  assert (G : forall l j0, (forall j b, nth_error l j = Some b -> (j0 + j)%nat <> i -> is_nbr a b = false) ->
                           nbrs_from a i j0 l = []).
  { induction l as [|b t IH]; intros j0 Hl; cbn [nbrs_from]; [reflexivity|].
    destruct (Nat.eqb_spec i j0) as [->|Hne]; cbn [negb andb].
    - apply IH. intros j b' Hj Hn. apply (Hl (S j) b'); [exact Hj|lia].
    - rewrite (Hl 0%nat b eq_refl) by lia. apply IH. intros j b' Hj Hn. apply (Hl (S j) b'); [exact Hj|lia]. }
  apply G. intros j b Hj Hn. eapply H; eauto.
Qed.

Lemma count_no_neighbors : forall M a pts kc acc, count_cached M a [] pts kc acc = acc + Z.of_nat (length pts).
Proof.
  intros M a pts. induction pts as [|s r IH]; intros kc acc; cbn [count_cached length scan]; [lia|].
  rewrite IH. lia.
Qed.

Lemma isolated_area : forall K M pts ats i a prev,
  (forall j b, nth_error ats j = Some b -> j <> i -> is_nbr a b = false) ->
  atom_area K M pts ats i a prev = (prev + Z.of_nat (length pts)) * (K * snd a * snd a).
Proof.
  intros. unfold atom_area, atom_count. rewrite neighbors_none by assumption.
  now rewrite count_no_neighbors.
Qed.

(* ------------------------------------------------------------------ asa_frame and the accumulation into groups *)
Lemma asa_go_length : forall K M pts ats l i mask buf,
  length mask = length l -> length buf = length l -> length (asa_go K M pts ats i l mask buf) = length l.
Proof.
  intros K M pts ats l. induction l as [|a t IH]; intros i mask buf Hm Hb; destruct mask, buf; cbn in *; try lia.
  rewrite IH; lia.
Qed.

Lemma asa_go_nth : forall K M pts ats l i mask buf j,
  length mask = length l -> length buf = length l -> (j < length l)%nat ->
  nth j (asa_go K M pts ats i l mask buf) 0 =
  if nth j mask false then atom_area K M pts ats (i + j) (nth j l dflt_atom) (nth j buf 0) else nth j buf 0.
Proof.
  intros K M pts ats l. induction l as [|a t IH]; intros i mask buf j Hm Hb Hj; [cbn in Hj; lia|].
  destruct mask as [|m mask]; [cbn in Hm; lia|]. destruct buf as [|b buf]; [cbn in Hb; lia|].
  cbn [asa_go]. destruct j as [|j]; cbn [nth].
  - now rewrite Nat.add_0_r.
  - rewrite IH by (cbn in *; lia). now rewrite Nat.add_succ_r.
Qed.

Lemma asa_frame_length : forall K M pts ats mask buf,
  length mask = length ats -> length buf = length ats -> length (asa_frame K M pts ats mask buf) = length ats.
Proof. intros. unfold asa_frame. now apply asa_go_length. Qed.

Lemma asa_frame_nth : forall K M pts ats mask buf j,
  length mask = length ats -> length buf = length ats -> (j < length ats)%nat ->
  nth j (asa_frame K M pts ats mask buf) 0 =
  if nth j mask false then atom_area K M pts ats j (nth j ats dflt_atom) (nth j buf 0) else nth j buf 0.
Proof. intros. unfold asa_frame. now rewrite asa_go_nth. Qed.

(* sum of the buffer entries whose atom maps to group g *)
Fixpoint gsum (g : nat) (mapping : list nat) (buf : list Z) : Z :=
  match mapping, buf with
  | m :: ms, b :: bs => (if Nat.eqb m g then b else 0) + gsum g ms bs
  | _, _ => 0
  end.

Lemma upd_add_length : forall row g v, length (upd_add g v row) = length row.
Proof. induction row as [|x r IH]; intros [|g] v; cbn; auto. Qed.

Lemma upd_add_nth : forall row m v g, (g < length row)%nat ->
  nth g (upd_add m v row) 0 = nth g row 0 + (if Nat.eqb m g then v else 0).
Proof.
  induction row as [|x r IH]; intros m v g Hg; [cbn in Hg; lia|].
  destruct m as [|m], g as [|g]; cbn [upd_add nth Nat.eqb]; try lia.
  apply IH. cbn in Hg. lia.
Qed.

Lemma accumulate_length : forall mapping buf row, length (accumulate mapping buf row) = length row.
Proof.
  induction mapping as [|m ms IH]; intros [|b bs] row; cbn; auto. now rewrite IH, upd_add_length.
Qed.

Lemma accumulate_nth : forall mapping buf row g, (g < length row)%nat ->
  nth g (accumulate mapping buf row) 0 = nth g row 0 + gsum g mapping buf.
Proof.
  induction mapping as [|m ms IH]; intros [|b bs] row g Hg; cbn [accumulate gsum]; try lia.
  rewrite IH by now rewrite upd_add_length. rewrite upd_add_nth by assumption. lia.
Qed.

(* atom mode: the mapping is the identity, so column j receives exactly buffer entry j *)
Lemma gsum_seq : forall buf g s, (s <= g)%nat ->
  gsum g (seq s (length buf)) buf = nth (g - s) buf 0.
Proof.
  induction buf as [|b bs IH]; intros g s Hs; cbn [length seq gsum].
  - now destruct (g - s)%nat.
  - destruct (Nat.eqb_spec s g) as [->|Hne].
    + rewrite Nat.sub_diag. cbn [nth].
      assert (Z0 : forall l t, (g < t)%nat -> gsum g (seq t (length l)) l = 0).
      { induction l as [|y l IHl]; intros t Ht; cbn [length seq gsum]; [reflexivity|].
        destruct (Nat.eqb_spec t g); [lia|]. rewrite IHl by lia. lia. }
      rewrite Z0 by lia. lia.
    + rewrite IH by lia. replace (g - s)%nat with (S (g - S s)) by lia. cbn [nth]. lia.
Qed.

(* ------------------------------------------------------------------ selection mask and the -1 overlay *)
Lemma mask_of_length : forall n sel, length (mask_of n sel) = n.
Proof. intros n [idx|]; cbn; [now rewrite map_length, seq_length|now rewrite repeat_length]. Qed.

Definition selected (sel : option (list nat)) (j : nat) : bool :=
  match sel with None => true | Some idx => mem_nat j idx end.

Lemma mask_of_nth : forall n sel j, (j < n)%nat -> nth j (mask_of n sel) false = selected sel j.
Proof.
  intros n [idx|] j Hj; cbn.
  - rewrite (nth_indep _ false (mem_nat 0 idx)) by now rewrite map_length, seq_length.
    rewrite (map_nth (fun i => mem_nat i idx)), seq_nth by assumption. reflexivity.
  - revert j Hj. induction n as [|n IH]; intros [|j] Hj; cbn; try lia; auto. apply IH. lia.
Qed.

Lemma set_nth_length : forall row g v, length (set_nth g v row) = length row.
Proof. induction row as [|x r IH]; intros [|g] v; cbn; auto. Qed.

Lemma set_nth_nth : forall row m v g, (g < length row)%nat ->
  nth g (set_nth m v row) 0 = if Nat.eqb m g then v else nth g row 0.
Proof.
  induction row as [|x r IH]; intros m v g Hg; [cbn in Hg; lia|].
  destruct m as [|m], g as [|g]; cbn [set_nth nth Nat.eqb]; try reflexivity.
  apply IH. cbn in Hg. lia.
Qed.

(* group g contains a selected atom *)
Definition group_selected (mapping : list nat) (sel : option (list nat)) (g : nat) : bool :=
  match sel with None => true | Some idx => existsb (fun i => Nat.eqb (nth i mapping 0%nat) g) idx end.

Lemma init_row_length : forall ng mapping sel, length (init_row ng mapping sel) = ng.
Proof.
  intros ng mapping [idx|]; cbn; [|now rewrite repeat_length].
  assert (G : forall l row, length (fold_left (fun row i => set_nth (nth i mapping 0%nat) 0 row) l row) = length row).
  { induction l as [|i l IH]; intros row; cbn; [reflexivity|]. now rewrite IH, set_nth_length. }
  now rewrite G, repeat_length.
Qed.

Lemma nth_repeat_Z : forall n (v : Z) g, (g < n)%nat -> nth g (repeat v n) 0 = v.
Proof. induction n; intros v [|g] H; cbn; try lia; auto. apply IHn; lia. Qed.

Lemma init_row_nth : forall ng mapping sel g, (g < ng)%nat ->
  nth g (init_row ng mapping sel) 0 =
  match sel with None => 0 | Some _ => if group_selected mapping sel g then 0 else -1 end.
Proof.
  intros ng mapping [idx|] g Hg; cbn [init_row group_selected]; [|now apply nth_repeat_Z].
  assert (G : forall l row, length row = ng ->
    nth g (fold_left (fun row i => set_nth (nth i mapping 0%nat) 0 row) l row) 0 =
    if existsb (fun i => Nat.eqb (nth i mapping 0%nat) g) l then 0 else nth g row 0).
  { induction l as [|i l IH]; intros row Hr; cbn [fold_left existsb]; [reflexivity|].
    rewrite IH by now rewrite set_nth_length. rewrite set_nth_nth by lia.
    destruct (existsb _ l); [now rewrite orb_true_r|]. rewrite orb_false_r.
    now destruct (Nat.eqb (nth i mapping 0%nat) g). }
  rewrite G by apply repeat_length. rewrite nth_repeat_Z by assumption. reflexivity.
Qed.

Lemma init_row_nth' : forall ng mapping sel g, (g < ng)%nat ->
  nth g (init_row ng mapping sel) 0 = if group_selected mapping sel g then 0 else -1.
Proof. intros ng mapping sel g Hg. rewrite init_row_nth by assumption. now destruct sel. Qed.

Lemma group_unselected_members : forall mapping sel g j,
  group_selected mapping sel g = false -> nth j mapping 0%nat = g -> selected sel j = false.
Proof.
  intros mapping [idx|] g j Hg Hm; cbn in *; [|discriminate].
  destruct (mem_nat j idx) eqn:Ej; [|reflexivity]. exfalso. unfold mem_nat in Ej.
  apply existsb_exists in Ej. destruct Ej as [i [Hi Hij]]. apply Nat.eqb_eq in Hij. subst i.
  assert (T : existsb (fun i => Nat.eqb (nth i mapping 0%nat) g) idx = true).
  { apply existsb_exists. exists j. split; [assumption|now apply Nat.eqb_eq]. }
  congruence.
Qed.

(* ------------------------------------------------------------------ one frame: what every output column holds *)
Definition zero_unselected (mask : list bool) (row : list Z) : list Z :=
  map (fun mv : bool * Z => if fst mv then snd mv else 0) (combine mask row).

Lemma zero_unselected_length : forall mask row, length mask = length row ->
  length (zero_unselected mask row) = length row.
Proof. intros. unfold zero_unselected. rewrite map_length, combine_length. lia. Qed.

Lemma zero_unselected_nth : forall mask row j, length mask = length row -> (j < length row)%nat ->
  nth j (zero_unselected mask row) 0 = if nth j mask false then nth j row 0 else 0.
Proof.
  unfold zero_unselected. induction mask as [|m mask IH]; intros [|v row] j Hl Hj; cbn in *; try lia.
  destruct j as [|j]; [reflexivity|]. apply IH; lia.
Qed.

Section Row.
  Variables (K M : Z) (pts : list vec) (radii : list Z) (sel : option (list nat)) (fr : frame).
  Let n := length radii.
  Hypothesis Hfr : length fr = n.
  Hypothesis Hsel : match sel with Some idx => forallb (fun i => Nat.ltb i n) idx = true | None => True end.
  Let ats := combine fr radii.
  Let mask := mask_of n sel.
  (* the area of atom j computed from a zeroed buffer, all atoms acting as blockers *)
  Definition area (j : nat) : Z := atom_area K M pts ats j (nth j ats dflt_atom) 0.
  Let buf := asa_frame K M pts ats mask (zeros n).

  Lemma ats_length : length ats = n.
  Proof. unfold ats. rewrite combine_length, Hfr. apply Nat.min_id. Qed.

  Lemma buf_length : length buf = n.
  Proof.
    pose proof ats_length as Ha.
    unfold buf. rewrite asa_frame_length.
    - exact Ha.
    - transitivity n; [apply mask_of_length|symmetry; exact Ha].
    - transitivity n; [apply repeat_length|symmetry; exact Ha].
  Qed.

  Lemma buf_nth : forall j, (j < n)%nat -> nth j buf 0 = if selected sel j then area j else 0.
  Proof.
    intros j Hj. pose proof ats_length as Ha.
    assert (H1 : length mask = length ats) by (transitivity n; [apply mask_of_length|symmetry; exact Ha]).
    assert (H2 : length (zeros n) = length ats) by (transitivity n; [apply repeat_length|symmetry; exact Ha]).
    assert (H3 : (j < length ats)%nat) by (rewrite Ha; exact Hj).
    unfold buf. rewrite (asa_frame_nth K M pts ats mask (zeros n) j H1 H2 H3).
    unfold mask. rewrite mask_of_nth by assumption. unfold zeros. rewrite nth_repeat_Z by assumption. reflexivity.
  Qed.

  Definition atom_row : list Z := frame_row K M pts radii mask (seq 0 n) (init_row n (seq 0 n) sel) fr.
  Definition group_row (resid : list nat) (nres : nat) : list Z :=
    frame_row K M pts radii mask resid (init_row nres resid sel) fr.

  Lemma group_selected_atom : forall j, (j < n)%nat -> group_selected (seq 0 n) sel j = selected sel j.
  Proof.
    intros j Hj. destruct sel as [idx|]; cbn; [|reflexivity]. cbn in Hsel. unfold mem_nat.
    induction idx as [|i idx IH]; cbn in *; [reflexivity|].
    apply andb_prop in Hsel. destruct Hsel as [Hi Hr]. apply Nat.ltb_lt in Hi.
    rewrite seq_nth by assumption. cbn. rewrite IH by assumption.
    now rewrite (Nat.eqb_sym i j).
  Qed.

  (* atom mode: a selected atom gets its area - the same number whatever else is selected -,
     an unselected atom gets -1 *)
  Lemma atom_row_nth : forall j, (j < n)%nat ->
    nth j atom_row 0 = if selected sel j then area j else -1.
  Proof.
    intros j Hj. change atom_row with (accumulate (seq 0 n) buf (init_row n (seq 0 n) sel)).
    rewrite accumulate_nth by now rewrite init_row_length.
    rewrite init_row_nth' by assumption.
    pose proof (gsum_seq buf j 0%nat (Nat.le_0_l j)) as Hs. rewrite buf_length in Hs. rewrite Hs.
    rewrite Nat.sub_0_r, buf_nth by assumption.
    rewrite (group_selected_atom j Hj). destruct (selected sel j); lia.
  Qed.

  Lemma atom_row_length : length atom_row = n.
  Proof. unfold atom_row, frame_row. now rewrite accumulate_length, init_row_length. Qed.

  Lemma gsum_zero : forall g mapping b, length mapping = length b ->
    (forall j, (j < length b)%nat -> nth j mapping 0%nat = g -> nth j b 0 = 0) -> gsum g mapping b = 0.
  Proof.
    intros g mapping. induction mapping as [|m ms IH]; intros [|b bs] Hl H; cbn [gsum]; try reflexivity.
    rewrite IH.
    - destruct (Nat.eqb_spec m g) as [E|E]; [|lia]. specialize (H 0%nat). cbn in H. rewrite H; [lia|lia|assumption].
    - cbn in Hl. lia.
    - intros j Hj. apply (H (S j)). cbn. lia.
  Qed.

  Variables (resid : list nat) (nres : nat).
  Hypothesis Hres : length resid = n.

  (* residue mode: a residue with a selected atom gets the sum of the areas of its selected atoms, any other -1 *)
  Lemma group_row_nth : forall g, (g < nres)%nat ->
    nth g (group_row resid nres) 0 = if group_selected resid sel g then gsum g resid buf else -1.
  Proof.
    intros g Hg. change (group_row resid nres) with (accumulate resid buf (init_row nres resid sel)).
    rewrite accumulate_nth by now rewrite init_row_length.
    rewrite init_row_nth' by assumption.
    destruct (group_selected resid sel g) eqn:Eg; [lia|].
    rewrite gsum_zero; [lia|now rewrite buf_length|].
    intros j Hj Hm. rewrite buf_length in Hj. rewrite buf_nth by assumption.
    now rewrite (group_unselected_members resid sel g j Eg Hm).
  Qed.

  Lemma buf_is_masked_atom_row : buf = zero_unselected mask atom_row.
  Proof.
    assert (Hm : length mask = length atom_row) by (unfold mask; now rewrite mask_of_length, atom_row_length).
    apply (nth_ext _ _ 0 0).
    - rewrite zero_unselected_length by assumption. now rewrite buf_length, atom_row_length.
    - intros j Hj. rewrite buf_length in Hj. rewrite buf_nth by assumption.
      rewrite zero_unselected_nth; [|exact Hm|rewrite atom_row_length; exact Hj].
      unfold mask at 1. rewrite mask_of_nth, atom_row_nth by assumption.
      destruct (selected sel j); reflexivity.
  Qed.

  (* residue mode = sum of atom mode over the residue's selected atoms *)
  Lemma residue_row_is_sum : forall g, (g < nres)%nat -> group_selected resid sel g = true ->
    nth g (group_row resid nres) 0 = gsum g resid (zero_unselected mask atom_row).
  Proof. intros g Hg Hs. rewrite group_row_nth by assumption. now rewrite Hs, buf_is_masked_atom_row. Qed.
End Row.

(* ------------------------------------------------------------------ isolated atom, through the whole frame *)
Lemma isolated_full_row : forall K M pts radii sel fr j,
  length fr = length radii ->
  match sel with Some idx => forallb (fun i => Nat.ltb i (length radii)) idx = true | None => True end ->
  (j < length radii)%nat -> selected sel j = true ->
  (forall k b, nth_error (combine fr radii) k = Some b -> k <> j ->
               is_nbr (nth j (combine fr radii) dflt_atom) b = false) ->
  nth j (atom_row K M pts radii sel fr) 0 = Z.of_nat (length pts) * (K * nth j radii 0 * nth j radii 0).
Proof.
  intros K M pts radii sel fr j Hfr Hsel Hj Hs Hiso.
  rewrite atom_row_nth by assumption. rewrite Hs. unfold area.
  rewrite isolated_area by assumption.
  replace (snd (nth j (combine fr radii) dflt_atom)) with (nth j radii 0); [lia|].
  unfold dflt_atom. rewrite combine_nth by assumption. reflexivity.
Qed.

(* ------------------------------------------------------------------ the frame loop *)
Section Loop.
  Variables (K M : Z) (pts : list vec) (radii : list Z) (mask : list bool) (mapping : list nat) (row0 : list Z).

  Lemma body_fix_ignores : body_ignores_scratch (body_fix K M pts radii mask mapping row0).
  Proof. intros s s' x. reflexivity. Qed.

  (* repaired kernel: every admissible schedule gives, for each frame, the frame evaluated on its own *)
  Lemma sasa_fix_frame_fresh : forall frames sched, covers (length frames) sched ->
    sasa_kernel K M pts radii mask mapping row0 true frames sched =
    map (fun fr => Some (frame_row K M pts radii mask mapping row0 fr)) frames.
  Proof.
    intros frames sched Hc. unfold sasa_kernel.
    rewrite (parfor_schedule_free _ _ _ _ _ _ body_fix_ignores) by assumption. reflexivity.
  Qed.

  (* as-found kernel: correct when every frame has its own thread ... *)
  Lemma sasa_cur_one_thread_per_frame : forall frames,
    sasa_kernel K M pts radii mask mapping row0 false frames (sched_one_each (length frames)) =
    map (fun fr => Some (frame_row K M pts radii mask mapping row0 fr)) frames.
  Proof. intros frames. unfold sasa_kernel. rewrite parfor_one_each. reflexivity. Qed.
End Loop.

(* ... and wrong as soon as one thread runs two frames: one isolated atom, one sphere point, two identical frames *)
Lemma sasa_cur_refuted : exists K M pts radii mask mapping row0 frames sched,
  covers (length frames) sched /\
  sasa_kernel K M pts radii mask mapping row0 false frames sched <>
  map (fun fr => Some (frame_row K M pts radii mask mapping row0 fr)) frames.
Proof.
  exists 1, 1, [(1, 0, 0)], [1], [true], [0%nat], [0], [[(0, 0, 0)]; [(0, 0, 0)]], (sched_serial 2).
  split.
  - split; cbn; intros i H; [destruct i as [|[|i]]; auto; lia | destruct H as [<-|[<-|[]]]; lia].
  - vm_compute. discriminate.
Qed.

(* the carry-over, exactly: under today's kernel an atom's buffer entry after a frame is
   (what the buffer held + count) * K * r^2 *)
Lemma cur_carry_formula : forall K M pts ats mask buf j,
  length mask = length ats -> length buf = length ats -> (j < length ats)%nat -> nth j mask false = true ->
  nth j (asa_frame K M pts ats mask buf) 0 =
  (nth j buf 0 + atom_count M pts ats j (nth j ats dflt_atom)) * (K * snd (nth j ats dflt_atom) * snd (nth j ats dflt_atom)).
Proof. intros. rewrite asa_frame_nth by assumption. now rewrite H2. Qed.

(* ------------------------------------------------------------------ shrake_rupley (sasa.py) *)
Lemma shrake_rupley_schedule_free : forall c sc1 sc2,
  covers (length (c_frames c)) sc1 -> covers (length (c_frames c)) sc2 ->
  shrake_rupley true sc1 c = shrake_rupley true sc2 c.
Proof.
  intros c sc1 sc2 H1 H2. unfold shrake_rupley.
  destruct (match c_mode c with AtomMode => false | ResidueMode => _ end); [reflexivity|].
  destruct (match c_sel c with Some _ => _ | None => false end); [reflexivity|].
  destruct (radii_of _ _ _ _); [|reflexivity].
  destruct (existsb _ _); [reflexivity|].
  now rewrite !sasa_fix_frame_fresh.
Qed.

Lemma shrake_rupley_rows : forall c sched rows,
  covers (length (c_frames c)) sched -> shrake_rupley true sched c = Ok rows ->
  exists radii, radii_of (c_tbl c) (c_change c) (c_probe c) (c_elems c) = Some radii /\
    let n := length (c_elems c) in
    let mapping := mapping_of (c_mode c) n (c_resid c) in
    let ng := match c_mode c with AtomMode => n | ResidueMode => c_nres c end in
    rows = map (fun fr => Some (frame_row (c_K c) (c_M c) (c_pts c) radii (mask_of n (c_sel c)) mapping
                                          (init_row ng mapping (c_sel c)) fr)) (c_frames c).
Proof.
  intros c sched rows Hc H. unfold shrake_rupley in H.
  destruct (match c_mode c with AtomMode => false | ResidueMode => _ end); [discriminate|].
  destruct (match c_sel c with Some _ => _ | None => false end); [discriminate|].
  destruct (radii_of _ _ _ _) as [radii|]; [|discriminate].
  destruct (existsb _ _); [discriminate|].
  exists radii. split; [reflexivity|]. cbn zeta. inversion H. now rewrite sasa_fix_frame_fresh.
Qed.

(* the two-stage evaluation used by the correspondence is the same function *)
Lemma shrake_rupley_two_stage : forall c sched, covers (length (c_frames c)) sched ->
  shrake_rupley true sched c = shrake_rupley_post c (shrake_rupley_pre c).
Proof.
  intros c sched Hc. unfold shrake_rupley, shrake_rupley_post, shrake_rupley_pre.
  destruct (match c_mode c with AtomMode => false | ResidueMode => _ end); [reflexivity|].
  destruct (match c_sel c with Some _ => _ | None => false end); [reflexivity|].
  destruct (radii_of _ _ _ _) as [radii|]; [|reflexivity].
  destruct (existsb _ _); [reflexivity|].
  rewrite sasa_fix_frame_fresh by assumption. rewrite map_map. reflexivity.
Qed.

Lemma shrake_rupley_pre_mode_irrelevant : forall md c, shrake_rupley_pre (set_mode md c) = shrake_rupley_pre c.
Proof. intros. reflexivity. Qed.

(* ------------------------------------------------------------------ radii: table, change_radii, probe *)
Lemma lookup_override : forall e change tbl,
  lookup_radius e (change ++ tbl) =
  match lookup_radius e change with Some v => Some v | None => lookup_radius e tbl end.
Proof.
  intros e change tbl. induction change as [|[k v] r IH]; cbn; [reflexivity|].
  destruct (String.eqb e k); [reflexivity|exact IH].
Qed.

Lemma radii_of_spec : forall tbl change probe elems l,
  radii_of tbl change probe elems = Some l ->
  length l = length elems /\
  forall j, (j < length elems)%nat ->
    exists v, match lookup_radius (nth j elems EmptyString) change with
              | Some w => w = v
              | None => lookup_radius (nth j elems EmptyString) tbl = Some v
              end /\ nth j l 0 = v + probe.
Proof.
  intros tbl change probe elems. induction elems as [|e r IH]; intros l H; cbn in H.
  - inversion H. split; [reflexivity|]. intros j Hj. cbn in Hj. lia.
  - destruct (lookup_radius e (change ++ tbl)) as [v|] eqn:E; [|discriminate].
    destruct (radii_of tbl change probe r) as [l'|]; [|discriminate]. inversion H; subst.
    destruct (IH l' eq_refl) as [Hl Hn]. split; [cbn; now rewrite Hl|].
    intros [|j] Hj; cbn [nth].
    + exists v. split; [|reflexivity]. rewrite lookup_override in E.
      destruct (lookup_radius e change); [now inversion E|exact E].
    + apply Hn. cbn in Hj. lia.
Qed.

(* a missing symbol is an error, never a default radius *)
Lemma radii_of_missing : forall tbl change probe elems e,
  In e elems -> lookup_radius e (change ++ tbl) = None -> radii_of tbl change probe elems = None.
Proof.
  intros tbl change probe elems e. induction elems as [|x r IH]; intros Hin Hl; cbn in *; [contradiction|].
  destruct Hin as [->|Hin].
  - now rewrite Hl.
  - rewrite (IH Hin Hl). now destruct (lookup_radius x (change ++ tbl)).
Qed.

(* ------------------------------------------------------------------ derived statements of the property *)
Lemma sel_none_ok : forall n : nat, match @None (list nat) with Some idx => forallb (fun i => Nat.ltb i n) idx = true | None => True end.
Proof. intros; exact I. Qed.

Lemma subset_independent_atom : forall K M pts radii sel fr j,
  length fr = length radii ->
  match sel with Some idx => forallb (fun i => Nat.ltb i (length radii)) idx = true | None => True end ->
  (j < length radii)%nat -> selected sel j = true ->
  nth j (atom_row K M pts radii sel fr) 0 = nth j (atom_row K M pts radii None fr) 0.
Proof.
  intros K M pts radii sel fr j Hfr Hsel Hj Hs.
  rewrite atom_row_nth by assumption. rewrite (atom_row_nth K M pts radii None fr Hfr I j Hj).
  now rewrite Hs.
Qed.

Lemma unselected_atom_minus1 : forall K M pts radii sel fr j,
  length fr = length radii ->
  match sel with Some idx => forallb (fun i => Nat.ltb i (length radii)) idx = true | None => True end ->
  (j < length radii)%nat -> selected sel j = false ->
  nth j (atom_row K M pts radii sel fr) 0 = -1.
Proof. intros K M pts radii sel fr j Hfr Hsel Hj Hs. rewrite atom_row_nth by assumption. now rewrite Hs. Qed.

Lemma unselected_residue_minus1 : forall K M pts radii sel fr resid nres g,
  length fr = length radii -> length resid = length radii -> (g < nres)%nat -> group_selected resid sel g = false ->
  nth g (group_row K M pts radii sel fr resid nres) 0 = -1.
Proof. intros K M pts radii sel fr resid nres g Hfr Hres Hg Hs. rewrite group_row_nth by assumption. now rewrite Hs. Qed.

(* residue mode under a selection, expressed with the all-atoms atom-mode values: the values of the atoms kept do
   not depend on what else is selected *)
Lemma residue_subset : forall K M pts radii sel fr resid nres g,
  length fr = length radii ->
  match sel with Some idx => forallb (fun i => Nat.ltb i (length radii)) idx = true | None => True end ->
  length resid = length radii -> (g < nres)%nat -> group_selected resid sel g = true ->
  nth g (group_row K M pts radii sel fr resid nres) 0 =
  gsum g resid (zero_unselected (mask_of (length radii) sel) (atom_row K M pts radii None fr)).
Proof.
  intros K M pts radii sel fr resid nres g Hfr Hsel Hres Hg Hs.
  rewrite residue_row_is_sum by assumption. f_equal.
  assert (La : length (atom_row K M pts radii sel fr) = length radii) by now apply atom_row_length.
  assert (Lb : length (atom_row K M pts radii None fr) = length radii) by now apply atom_row_length.
  apply (nth_ext _ _ 0 0).
  - rewrite !zero_unselected_length; rewrite ?mask_of_length; congruence.
  - intros j Hj. rewrite zero_unselected_length in Hj by (rewrite mask_of_length; congruence).
    rewrite !zero_unselected_nth; rewrite ?mask_of_length; try congruence.
    rewrite mask_of_nth by congruence.
    destruct (selected sel j) eqn:Ej; [|reflexivity].
    apply subset_independent_atom; try assumption. congruence.
Qed.

(* ------------------------------------------------------------------ two spheres: the analytic cap criterion *)
Definition dot (a b : vec) : Z :=
  let '(ax, ay, az) := a in let '(bx, by_, bz) := b in ax * bx + ay * by_ + az * bz.

(* For a point ON the unit sphere (|s| = M) of atom a, "strictly inside atom b" is the half-space condition
       2 r_a (s . u) > M (r_a^2 + |u|^2 - r_b^2),   u = x_b - x_a,
   i.e. cos(angle to the axis) > (r_a^2 + d^2 - r_b^2) / (2 r_a d): exactly the cap that the analytic two-sphere
   formula removes.  How many golden-spiral points fall in that cap (the quadrature error) is not proved. *)
Lemma cap_criterion : forall M (a b : atom) (s : vec),
  0 < M -> norm2 s = M * M ->
  inside M (centred M a s) b =
  (M * (snd a * snd a + d2 (fst a) (fst b) - snd b * snd b) <? 2 * snd a * dot s (vsub (fst b) (fst a))).
Proof.
  intros M [[[px py] pz] ra] [[[qx qy] qz] rb] [[sx sy] sz] HM Hs.
  unfold inside, centred, d2, norm2, vsub, vscale, dot, sq in *. cbn [fst snd] in *.
  set (L := M * (ra * ra + ((px - qx) * (px - qx) + (py - qy) * (py - qy) + (pz - qz) * (pz - qz)) - rb * rb)).
  set (R := 2 * ra * (sx * (qx - px) + sy * (qy - py) + sz * (qz - pz))).
  set (X := (px * M + ra * sx - qx * M) * (px * M + ra * sx - qx * M) +
            (py * M + ra * sy - qy * M) * (py * M + ra * sy - qy * M) +
            (pz * M + ra * sz - qz * M) * (pz * M + ra * sz - qz * M)).
  set (B := M * rb * (M * rb)).
  assert (E0 : X - B - M * (L - R) = ra * ra * ((sx * sx + sy * sy + sz * sz) - M * M))
    by (unfold X, B, L, R; ring).
  rewrite Hs, Z.sub_diag, Z.mul_0_r in E0.
  clearbody X B L R.
  destruct (Z.ltb_spec L R) as [H|H]; [apply Z.ltb_lt|apply Z.ltb_ge].
  - assert (M * (L - R) < 0) by (apply Z.mul_pos_neg; lia). lia.
  - assert (0 <= M * (L - R)) by (apply Z.mul_nonneg_nonneg; lia). lia.
Qed.

(* ------------------------------------------------------------------ atom order *)
Lemma reorder_id : forall (X : Type) (d : X) (l : list X), reorder d (seq 0 (length l)) l = l.
Proof.
  intros X d l. unfold reorder. induction l as [|x r IH]; cbn; [reflexivity|].
  f_equal. rewrite <- seq_shift, map_map. exact IH.
Qed.

(* when the walk over the topology visits the atoms in index order the as-found code computes the specified call *)
Lemma as_found_view_contiguous : forall c,
  length (c_resid c) = length (c_elems c) ->
  as_found_view (seq 0 (length (c_elems c))) c = c.
Proof.
  intros [K M t2 pts tbl ch pr el rs nr md sl fr] H. cbn in H. unfold as_found_view. cbn -[reorder seq].
  rewrite reorder_id. rewrite <- H, reorder_id. reflexivity.
Qed.

(* residues that are contiguous blocks in index order (non-decreasing residue index) are walked in index order *)
Lemma walk_order_sorted_example :
  walk_order 3 [0; 0; 1; 1; 1; 2]%nat = seq 0 6 /\ walk_order 2 [0; 1; 0; 1]%nat = [0; 2; 1; 3]%nat.
Proof. split; reflexivity. Qed.

(* as found, on an interleaved topology: atoms 0 (C, residue 0) and 1 (H, residue 1) far apart, walked as [1; 0]:
   the carbon is given the hydrogen's radius and residue *)
Definition order_witness : call :=
  {| c_K := 1; c_M := 1; c_tiny2 := 1; c_pts := [(1, 0, 0)]; c_tbl := [("C"%string, 17); ("H"%string, 12)];
     c_change := []; c_probe := 0; c_elems := ["C"%string; "H"%string]; c_resid := [1%nat; 0%nat]; c_nres := 2;
     c_mode := AtomMode; c_sel := None; c_frames := [[(0, 0, 0); (1000, 0, 0)]] |}.

Lemma atom_order_current_refuted_lemma :
  shrake_rupley true (sched_serial 1) order_witness = Ok [Some [289; 144]] /\
  shrake_rupley true (sched_serial 1) (as_found_view (walk_order 2 [1%nat; 0%nat]) order_witness) = Ok [Some [144; 289]].
Proof. split; vm_compute; reflexivity. Qed.

(* ------------------------------------------------------------------ atom_indices as passed (two readings) *)
Lemma raw_mask_valid : forall n l, Forall (fun i => 0 <= i) l ->
  raw_mask n (RawInts l) = mask_of n (Some (map Z.to_nat l)).
Proof.
  intros n l H. unfold raw_mask, mask_of. apply map_ext. intros i. unfold mem_nat.
  induction H as [|x r Hx Hr IH]; [reflexivity|]. cbn [existsb map]. rewrite IH. f_equal.
  destruct (Z.eqb_spec (Z.of_nat i) x) as [E|E]; destruct (Nat.eqb_spec i (Z.to_nat x)) as [F|F]; auto; exfalso; lia.
Qed.

Lemma raw_overlay_valid : forall n l, Forall (fun i => 0 <= i < Z.of_nat n) l ->
  raw_overlay n (RawInts l) = Some (map Z.to_nat l) /\ forallb (fun i => Nat.ltb i n) (map Z.to_nat l) = true.
Proof.
  intros n l H. unfold raw_overlay.
  assert (A : forallb (fun i => (- Z.of_nat n <=? i) && (i <? Z.of_nat n)) l = true).
  { apply forallb_forall. intros x Hx. rewrite Forall_forall in H. specialize (H x Hx).
    apply andb_true_intro. split; [apply Z.leb_le|apply Z.ltb_lt]; lia. }
  rewrite A. split.
  - f_equal. apply map_ext_in. intros x Hx. rewrite Forall_forall in H. specialize (H x Hx).
    destruct (Z.ltb_spec x 0); [lia|reflexivity].
  - apply forallb_forall. intros x Hx. apply in_map_iff in Hx. destruct Hx as [y [<- Hy]].
    rewrite Forall_forall in H. specialize (H y Hy). apply Nat.ltb_lt. lia.
Qed.

(* for non-negative integer indices in range the two readings coincide: the as-found code computes the specified call *)
Lemma raw_valid_harmless : forall sched c l,
  Forall (fun i => 0 <= i < Z.of_nat (length (c_elems c))) l ->
  shrake_rupley_raw_cur sched c (RawInts l) = shrake_rupley true sched (set_sel (Some (map Z.to_nat l)) c) /\
  shrake_rupley_raw sched c (RawInts l) = shrake_rupley true sched (set_sel (Some (map Z.to_nat l)) c).
Proof.
  intros sched c l H. destruct (raw_overlay_valid _ l H) as [Ho Hb].
  assert (Hm : raw_mask (length (c_elems c)) (RawInts l) = mask_of (length (c_elems c)) (Some (map Z.to_nat l))).
  { apply raw_mask_valid. eapply Forall_impl; [|exact H]. cbn. intros; lia. }
  unfold shrake_rupley_raw_cur, shrake_rupley_raw, shrake_rupley, mode_refused. cbn [set_sel c_mode c_elems c_resid c_sel c_tbl c_change c_probe c_frames c_tiny2 c_K c_M c_pts c_nres].
  rewrite Ho, Hb, Hm. cbn [negb].
  destruct (match c_mode c with AtomMode => false | ResidueMode => _ end); [split; reflexivity|].
  split; reflexivity.
Qed.

(* three atoms far apart, one sphere point, atom_indices = [-1]: numpy reads "the last atom", the mask reads "nobody" *)
Definition rawsel_witness : call :=
  {| c_K := 1; c_M := 1; c_tiny2 := 1; c_pts := [(1, 0, 0)]; c_tbl := [("C"%string, 17)];
     c_change := []; c_probe := 0; c_elems := ["C"%string; "C"%string; "C"%string]; c_resid := [0%nat; 0%nat; 1%nat]; c_nres := 2;
     c_mode := AtomMode; c_sel := None; c_frames := [[(0, 0, 0); (1000, 0, 0); (2000, 0, 0)]] |}.

Lemma raw_negative_refuted_lemma :
  shrake_rupley_raw_cur (sched_serial 1) rawsel_witness (RawInts [-1]) = Ok [Some [-1; -1; 0]] /\
  shrake_rupley_raw (sched_serial 1) rawsel_witness (RawInts [-1]) = Ok [Some [-1; -1; 289]] /\
  shrake_rupley true (sched_serial 1) (set_sel (Some [2%nat]) rawsel_witness) = Ok [Some [-1; -1; 289]].
Proof. repeat split; vm_compute; reflexivity. Qed.

(* a boolean mask [True; False; True]: the mask reads "atoms 0 and 1" (False == 0, True == 1), numpy reads "atoms 0 and 2":
   atom 1 is computed on top of the -1 it was initialised with, atom 2 is reported as 0 *)
Lemma raw_boolean_refuted_lemma :
  shrake_rupley_raw_cur (sched_serial 1) rawsel_witness (RawBools [true; false; true]) = Ok [Some [289; 288; 0]] /\
  shrake_rupley_raw (sched_serial 1) rawsel_witness (RawBools [true; false; true]) = Ok [Some [289; -1; 289]].
Proof. repeat split; vm_compute; reflexivity. Qed.

Lemma raw_out_of_range_refused : forall sched c l, mode_refused c = false ->
  Exists (fun i => i < - Z.of_nat (length (c_elems c)) \/ Z.of_nat (length (c_elems c)) <= i) l ->
  shrake_rupley_raw_cur sched c (RawInts l) = ErrIndex /\ shrake_rupley_raw sched c (RawInts l) = ErrIndex.
Proof.
  intros sched c l Hm H. unfold shrake_rupley_raw_cur, shrake_rupley_raw. rewrite Hm.
  assert (A : forallb (fun i => (- Z.of_nat (length (c_elems c)) <=? i) && (i <? Z.of_nat (length (c_elems c)))) l = false).
  { apply Exists_exists in H. destruct H as [x [Hx Hb]].
    destruct (forallb _ l) eqn:E; [|reflexivity]. rewrite forallb_forall in E. specialize (E x Hx).
    apply andb_prop in E. destruct E as [E1 E2]. apply Z.leb_le in E1. apply Z.ltb_lt in E2. lia. }
  unfold raw_overlay. rewrite A. split; reflexivity.
Qed.
