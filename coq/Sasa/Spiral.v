(* The documented point set of shrake_rupley: the golden-section spiral (C13).  Definitions only.

   mdtraj/geometry/src/sasa.cpp  generate_sphere_points(n):
       inc = pi*(3 - sqrt 5);  offset = 2/n;
       y_i = i*offset - 1 + offset/2 = (2i + 1 - n)/n;   r_i = sqrt(1 - y_i^2);   phi_i = i*inc;
       point_i = (cos(phi_i) r_i, y_i, sin(phi_i) r_i)
   That is float code; it is not modelled.  What is modelled is the SPECIFICATION of its output as a checkable predicate
   on integer points (unit 1/M), with explicit tolerances for the float32 arithmetic and for the rounding to the grid:
     strata   |n*y_i - (2i+1-n)*M| <= n*tol           one point in the middle of each of n equal-area bands in y
     sphere   |x^2+y^2+z^2 - M^2| <= e                 on the unit sphere
     turn     consecutive points are turned about the y axis by the golden angle:
              |sin(phi_{i+1} - phi_i - inc)| <= tn/td  and  cos(phi_{i+1} - phi_i - inc) > 0,  written without
              division or square root with (C, S) = Q*(cos inc, sin inc)
     start    phi_0 = 0:  |z_0| <= tol0 and x_0 >= 0
   The point sets the repository's own generator produces are checked against this predicate on every run
   (coq/Gen/SasaSpiral.v); MD.Sasa.SpiralProofs proves what the strata and sphere parts imply for the two-sphere cap. *)
From Coq Require Import List Arith ZArith Bool.
Import ListNotations.
Require Import MD.Sasa.Model.
Open Scope Z_scope.

Definition vx (s : vec) : Z := let '(x, _, _) := s in x.
Definition vy (s : vec) : Z := let '(_, y, _) := s in y.
Definition vz (s : vec) : Z := let '(_, _, z) := s in z.
Definition vzero : vec := (0, 0, 0).

Definition stratum_ok (n M tol : Z) (i : nat) (s : vec) : bool :=
  Z.abs (n * vy s - (2 * Z.of_nat i + 1 - n) * M) <=? n * tol.
Definition sphere_ok (M e : Z) (s : vec) : bool := Z.abs (norm2 s - M * M) <=? e.

Definition strata_sphere_ok (M tol e : Z) (pts : list vec) : bool :=
  forallb (fun i => stratum_ok (Z.of_nat (length pts)) M tol i (nth i pts vzero) && sphere_ok M e (nth i pts vzero))
          (seq 0 (length pts)).

(* golden angle inc = pi*(3 - sqrt 5) = 2.39996322972865...;  Q = 2^40 *)
Definition turnQ : Z := 1099511627776.
Definition turnC : Z := -810745655407.        (* round(Q * cos inc) *)
Definition turnS : Z := 742709432990.         (* round(Q * sin inc) *)

Definition turn_ok (tn td : Z) (p q : vec) : bool :=
  let D := vx p * vx q + vz p * vz q in                   (* r_p r_q cos(dphi) *)
  let X := vx p * vz q - vz p * vx q in                   (* r_p r_q sin(dphi) *)
  let E := D * turnS - X * turnC in                       (* Q r_p r_q sin(inc - dphi) *)
  let R := (vx p * vx p + vz p * vz p) * (vx q * vx q + vz q * vz q) in
  (E * E * (td * td) <=? tn * tn * (turnQ * turnQ) * R) && (0 <? D * turnC + X * turnS).

Fixpoint turns_ok (tn td : Z) (pts : list vec) : bool :=
  match pts with
  | p :: ((q :: _) as r) => turn_ok tn td p q && turns_ok tn td r
  | _ => true
  end.

Definition start_ok (tol0 : Z) (pts : list vec) : bool :=
  match pts with [] => true | p :: _ => (Z.abs (vz p) <=? tol0) && (0 <=? vx p) end.

Record spiral_tol := { t_y : Z; t_norm : Z; t_turn_num : Z; t_turn_den : Z; t_start : Z }.

Definition spiral_ok (M : Z) (t : spiral_tol) (pts : list vec) : bool :=
  strata_sphere_ok M (t_y t) (t_norm t) pts && turns_ok (t_turn_num t) (t_turn_den t) pts && start_ok (t_start t) pts.

(* number of indices i < len with P i *)
Fixpoint cnt_idx (P : nat -> bool) (len : nat) : Z :=
  match len with O => 0 | S k => cnt_idx P k + (if P k then 1 else 0) end.

(* points of atom a's sphere that lie strictly inside atom b *)
Definition blocked_by (M : Z) (a b : atom) (pts : list vec) : Z :=
  cnt_idx (fun i => inside M (centred M a (nth i pts vzero)) b) (length pts).
