(* Proved once, for all terms: a reader / glue term accepted by a checker of Reflect.v has exactly the
   semantics of the family / glue of Model.v that the checker names. *)
From Coq Require Import List Arith Bool Lia.
Import ListNotations.
Require Import MD.Lib.Strided MD.Load.Model MD.Load.Lemmas MD.Load.Proofs MD.Load.Theorems MD.Load.Reflect.

Lemma expr_eqb_eq a : forall b, expr_eqb a b = true -> a = b.
Proof.
  induction a as [| | | | |k|a1 I1 a2 I2|a1 I1 a2 I2|a1 I1 a2 I2|a1 I1 a2 I2]; intros b H;
    destruct b; cbn in H; try discriminate; try reflexivity;
    try (apply Nat.eqb_eq in H; now subst);
    apply andb_true_iff in H as [H1 H2]; f_equal; auto.
Qed.

Lemma guard_eqb_eq a b : guard_eqb a b = true -> a = b.
Proof.
  destruct a, b; cbn; intros H; try discriminate; apply andb_true_iff in H as [H1 H2];
    apply expr_eqb_eq in H1, H2; now subst.
Qed.

Lemma sterm_eqb_eq a b : sterm_eqb a b = true -> a = b.
Proof.
  destruct a as [a1 a2 a3 a4 a5 a6], b as [b1 b2 b3 b4 b5 b6]. unfold sterm_eqb. cbn. intros H.
  repeat (apply andb_true_iff in H as [H ?]).
  repeat match goal with H : expr_eqb _ _ = true |- _ => apply expr_eqb_eq in H end.
  match goal with H : guard_eqb _ _ = true |- _ => apply guard_eqb_eq in H end.
  match goal with H : Bool.eqb _ _ = true |- _ => apply eqb_prop in H end.
  now subst.
Qed.

Section R.
Context {A : Type}.
Variable junk : A.
Implicit Types (f : list A) (ai : option (A -> A)) (s : st).

(* ------------------------------------------------------------------ slice readers *)
Lemma slice_arr f s n str ai : 1 <= str -> slice_sem sterm_arr f s n str ai = arr_read true f s n str ai.
Proof.
  intros Hs. unfold slice_sem, arr_read, sterm_arr, scaled.
  cbn [s_guard s_start s_stop s_step s_newpos guard_holds eval e_i e_n e_s e_T].
  destruct n as [k|].
  - cbn [emul eadd emin esub nat_or].
    destruct (Nat.min (pos s + k * str) (length f) - pos s) eqn:E; reflexivity.
  - destruct str as [|str]; [lia|]. cbn [emul eadd emin esub nat_or].
    destruct (length f - pos s) eqn:E; reflexivity.
Qed.

Lemma slice_nc f s n str ai : 1 <= str -> slice_sem sterm_nc f s n str ai = nc_read f s n str ai.
Proof.
  intros Hs. unfold slice_sem, nc_read, sterm_nc, scaled.
  cbn [s_guard s_start s_stop s_step s_newpos guard_holds eval e_i e_n e_s e_T].
  destruct n as [k|].
  - cbn [emul eadd emin esub nat_or]. destruct (length f <=? pos s); reflexivity.
  - destruct str as [|str]; [lia|]. cbn [emul eadd emin esub nat_or]. destruct (length f <=? pos s); reflexivity.
Qed.

Lemma check_slice_sound t fm : check_slice t = Some fm ->
  forall f s n str ai, 1 <= str -> slice_sem t f s n str ai = rd junk fm f s n str ai.
Proof.
  unfold check_slice. intros H f s n str ai Hs.
  destruct (sterm_eqb t sterm_arr) eqn:E1.
  - apply sterm_eqb_eq in E1. subst t. inversion H; subst fm. now apply slice_arr.
  - destruct (sterm_eqb t sterm_nc) eqn:E2; [|discriminate].
    apply sterm_eqb_eq in E2. subst t. inversion H; subst fm. now apply slice_nc.
Qed.

(* ------------------------------------------------------------------ loop readers *)
Lemma loop_run_seq str f ai se : 1 <= str -> se <> SEscape -> forall m p,
  loop_run m (str - 1) KBreak se p f ai =
  (fst (seq_loop m str p f ai), Some (snd (seq_loop m str p f ai))).
Proof.
  intros Hs Hse. induction m as [|m IH]; intros p; [reflexivity|].
  cbn [loop_run seq_loop]. destruct (nth_error f p) as [x|] eqn:E; [|reflexivity].
  assert (Hp : p < length f) by (apply nth_error_Some; congruence).
  destruct (str - 1 <=? length f - S p) eqn:Ek.
  - apply Nat.leb_le in Ek. rewrite IH.
    replace (Nat.min (S p + (str - 1)) (length f)) with (S p + (str - 1)) by lia.
    destruct (seq_loop m str (S p + (str - 1)) f ai) as [p' l]. reflexivity.
  - apply Nat.leb_gt in Ek.
    replace (Nat.min (S p + (str - 1)) (length f)) with (length f) by lia.
    destruct se; [| |congruence].
    + rewrite IH. destruct (seq_loop m str (length f) f ai) as [p' l]. reflexivity.
    + assert (Hend : seq_loop m str (length f) f ai = (length f, [])).
      { destruct m; [reflexivity|]. cbn [seq_loop].
        replace (nth_error f (length f)) with (@None A) by (symmetry; apply nth_error_None; lia). reflexivity. }
      rewrite Hend. reflexivity.
Qed.

Lemma check_loop_sound t : check_loop t = true ->
  forall f s n str ai, 1 <= str -> loop_sem t f s n str ai = seq_read f s n str ai.
Proof.
  unfold check_loop. intros H f s n str ai Hs.
  repeat (apply andb_true_iff in H as [H ?]).
  apply expr_eqb_eq in H. match goal with H : expr_eqb (l_skip t) _ = true |- _ => apply expr_eqb_eq in H end.
  destruct t as [it sk ke se po]. cbn [l_iters l_skip l_keep_eof l_skip_eof l_post_step] in *.
  subst it sk. destruct ke; [|discriminate]. destruct po; [discriminate|].
  assert (Hse : se <> SEscape) by (destruct se; congruence).
  unfold loop_sem, seq_read.
  cbn [l_iters l_skip l_keep_eof l_skip_eof l_post_step eval e_i e_n e_s e_T esub nat_or].
  set (m := match n with Some n0 => n0 | None => S (length f) end).
  replace (match n with Some _ => nat_or (S (length f)) n | None => S (length f) end) with m
    by (unfold m; destruct n; reflexivity).
  rewrite (loop_run_seq str f ai se Hs Hse).
  destruct (seq_loop m str (pos s) f ai) as [p' l]. reflexivity.
Qed.

(* ------------------------------------------------------------------ whole reader descriptions *)
Lemma check_pass_sound t rdf : check_pass t = true -> forall f s n str ai,
  pass_sem t rdf f s n str ai = rdf f s n str ai.
Proof.
  unfold check_pass, pass_sem. intros H f s n str ai.
  repeat (apply andb_true_iff in H as [H ?]).
  repeat match goal with H : _ = true |- _ => rewrite H; clear H end. reflexivity.
Qed.

Theorem classify_sound r fm : classify r = Some fm ->
  (forall f s n str ai, 1 <= str -> reader_sem r f s n str ai = rd junk fm f s n str ai) /\
  (forall f s k, cnt s = pos s -> reader_seek r f s k = sk fm f s k).
Proof.
  unfold classify, reader_sem, reader_seek. destruct (check_pass (r_pass r)) eqn:Ep; [|discriminate].
  destruct (r_read r) as [t|t] eqn:Eb; destruct (r_seek r) eqn:Ek; try discriminate; intros H.
  - split.
    2:{ intros f s k _. unfold check_slice in H.
        destruct (sterm_eqb t sterm_arr); [inversion H; subst fm; reflexivity|].
        destruct (sterm_eqb t sterm_nc); [inversion H; subst fm; reflexivity|discriminate]. }
    intros f s n str ai Hs. rewrite (check_pass_sound _ _ Ep). cbn [body_sem].
    now apply check_slice_sound.
  - destruct (check_loop t) eqn:El; [|discriminate]. cbn [andb] in H.
    destruct (expr_eqb adv (Sub Vo Vi)) eqn:Ea; [|discriminate]. destruct (expr_eqb ab Vo) eqn:Eb2; [|discriminate].
    apply expr_eqb_eq in Ea, Eb2. subst adv ab. cbn [andb] in H. inversion H; subst fm. split.
    2:{ intros f s k Hsy. cbn [seek_sem sk eval e_i e_o esub nat_or]. unfold seq_seek. rewrite Hsy.
        destruct strict.
        - destruct (pos s <? k) eqn:E1.
          + apply Nat.ltb_lt in E1. replace (pos s + (k - pos s)) with k by lia. reflexivity.
          + reflexivity.
        - destruct (pos s <=? k) eqn:E1.
          + apply Nat.leb_le in E1. replace (pos s + (k - pos s)) with k by lia. reflexivity.
          + reflexivity. }
    intros f s n str ai Hs. rewrite (check_pass_sound _ _ Ep). cbn [body_sem rd].
    now apply check_loop_sound.
  - destruct (check_loop t) eqn:El; [|discriminate]. inversion H; subst fm. split; [|reflexivity].
    intros f s n str ai Hs. rewrite (check_pass_sound _ _ Ep). cbn [body_sem rd].
    now apply check_loop_sound.
Qed.

(* ------------------------------------------------------------------ glue *)
Lemma glue_loop_iter c (step : st -> st * res A) : forall fuel s,
  glue_loop fuel StopLen0 true c step s = iter_loop fuel step s.
Proof.
  induction fuel as [|fu IH]; intros s; [reflexivity|].
  cbn [glue_loop iter_loop]. destruct (step s) as [s' [l|]]; [|reflexivity].
  destruct l as [|x r]; [reflexivity|]. cbn [length Nat.eqb]. now rewrite IH.
Qed.

Lemma glue_loop_ext stop before c (step1 step2 : st -> st * res A) :
  (forall s, step1 s = step2 s) -> forall fuel s,
  glue_loop fuel stop before c step1 s = glue_loop fuel stop before c step2 s.
Proof.
  intros H. induction fuel as [|fu IH]; intros s; [reflexivity|].
  cbn [glue_loop]. rewrite H. destruct (step2 s) as [s' [l|]]; [|reflexivity].
  destruct (match stop with StopLen0 => length l =? 0 | StopLtChunk => length l <? c end); [reflexivity|].
  now rewrite IH.
Qed.

(* the translated iterload loop over a translated reader IS Model.iterload of the family *)
Theorem glue_sound g r fm gl : check_glue g = true -> classify r = Some fm -> (forall b, fm <> FPdb b) ->
  forall f c str k ai fuel, 1 <= c -> 1 <= str ->
    glue_sem g (reader_sem r) (reader_seek r) f c str k ai fuel = iterload junk gl fm f c str k ai fuel.
Proof.
  intros Hg Hr Hpdb f c str k ai fuel Hc Hs.
  destruct (classify_sound r fm Hr) as [Hrd Hsk].
  unfold check_glue in Hg. repeat (apply andb_true_iff in Hg as [Hg ?]).
  destruct (g_seek_guard g) eqn:Eg; try discriminate. destruct (g_stop g) eqn:Est; try discriminate.
  unfold glue_sem, iterload. rewrite Eg, Est.
  repeat match goal with H : _ = true |- _ => rewrite H; clear H end.
  cbn [seek_wanted]. replace (c =? 0) with false by (symmetry; apply Nat.eqb_neq; lia).
  rewrite Hsk by reflexivity.
  assert (E : forall s1, glue_loop fuel StopLen0 true c (fun s => reader_sem r f s (Some c) str ai) s1 =
                         iter_loop fuel (fun s => rd junk fm f s (Some c) str ai) s1).
  { intros s1. rewrite (glue_loop_ext _ _ _ _ (fun s => rd junk fm f s (Some c) str ai)); [apply glue_loop_iter|].
    intros s. now apply Hrd. }
  destruct fm; try (destruct (if 0 <? k then _ else _); [apply E|reflexivity]).
  exfalso. eapply Hpdb. reflexivity.
Qed.

(* ... and therefore satisfies C02 when the family is one of the right ones *)
Theorem reflected_iterload_right g r fm : check_glue g = true -> classify r = Some fm ->
  forall f c str k ai fuel, 1 <= c -> 1 <= str -> length f < fuel ->
    (fm = FArr true \/ fm = FNc \/ (fm = FSeq /\ k <= length f) \/ (fm = FSeqNoSeek /\ k = 0)) ->
    glue_sem g (reader_sem r) (reader_seek r) f c str k ai fuel = spec_iterload f c str k ai.
Proof.
  intros Hg Hr f c str k ai fuel Hc Hs Hf Hfm.
  rewrite (glue_sound g r fm (mkglue true true) Hg Hr); try assumption.
  - destruct Hfm as [E|[E|[[E Hk]|[E Hk]]]]; subst.
    + now apply iterload_arr_fix.
    + now apply iterload_nc.
    + now apply iterload_seq.
    + now apply iterload_seq_noseek_noskip.
  - intros b E. destruct Hfm as [E'|[E'|[[E' _]|[E' _]]]]; congruence.
Qed.

(* load_<fmt>(frame=k | None, stride, atom_indices) as translated IS Model.load of the family *)
Theorem loader_sound d r fm : check_loader d = true -> classify r = Some fm -> (forall b, fm <> FPdb b) ->
  forall f str frame ai, 1 <= str ->
    loader_sem d (reader_sem r) (reader_seek r) f str frame ai = load junk fm f str frame ai.
Proof.
  intros Hd Hr Hpdb f str frame ai Hs.
  destruct (classify_sound r fm Hr) as [Hrd Hsk].
  unfold check_loader in Hd. repeat (apply andb_true_iff in Hd as [Hd ?]).
  unfold loader_sem, load. repeat match goal with H : _ = true |- _ => rewrite H; clear H end.
  destruct fm; try (destruct frame as [k|]; [rewrite Hsk by reflexivity; destruct (sk _ f st0 k); [rewrite Hrd by assumption|]; reflexivity
                                            | rewrite Hrd by assumption; reflexivity]).
  exfalso. eapply Hpdb. reflexivity.
Qed.

(* the chunk == 0 and .pdb branches: what the two flags of a glue term mean *)
Theorem glue_variant_sound g : check_glue0 g = true -> check_gluepdb g = true ->
  glue_variant g = mkglue true true.
Proof. intros H0 H1. unfold glue_variant. now rewrite H0, H1. Qed.

End R.
