(* Reflection layer for C02: small terms extracted from mdtraj's Python sources by the translator in
   harness/props/C02.py (coq/Gen/LoadReaders.v is regenerated on every run), their semantics, and
   executable checkers.  ReflectProofs.v proves ONCE, for all terms, that a term accepted by a checker has
   exactly the semantics of the reader family / glue of Model.v that the checker names; each run then only
   has to establish  check <generated term> = ...  by computation.
   No proofs in this file.

   Slice readers (hdf5.py, netcdf.py): the arithmetic of read() as expressions over
       i = self._frame_index on entry, n = n_frames (None = +infinity), s = stride, T = frames in the file
   after symbolic execution of the method body (so an update of self._frame_index that is moved in front of
   the construction of frame_slice changes the start/stop expressions).
   Loop readers (mdcrd.py, xyzfile.py, lammpstrj.py, arc.py, gro.py): the loop skeleton of read().
   Glue (core/trajectory.py iterload): seek(skip) -> repeated read_as_traj(chunk, stride) -> stop on empty. *)
From Coq Require Import List Arith Bool Lia.
Import ListNotations.
Require Import MD.Lib.Strided MD.Load.Model.

(* ------------------------------------------------------------------ expressions over nat + infinity *)
Inductive expr := Vi | Vn | Vs | VT | Vo | Cst (k : nat)     (* Vo = the offset argument of seek() *)
  | Add (a b : expr) | Sub (a b : expr) | Mul (a b : expr) | Min (a b : expr).

Definition enat := option nat.          (* None = +infinity (np.inf) *)

Definition eadd (a b : enat) : enat := match a, b with Some x, Some y => Some (x + y) | _, _ => None end.
Definition esub (a b : enat) : enat :=
  match a, b with Some x, Some y => Some (x - y) | None, _ => None | Some _, None => Some 0 end.
Definition emul (a b : enat) : enat :=
  match a, b with Some x, Some y => Some (x * y) | _, _ => None end.   (* strides are >= 1: inf * s = inf *)
Definition emin (a b : enat) : enat :=
  match a, b with Some x, Some y => Some (Nat.min x y) | None, y => y | x, None => x end.

Record env := mkenv { e_i : nat; e_n : enat; e_s : nat; e_T : nat; e_o : nat }.

Fixpoint eval (v : env) (e : expr) : enat :=
  match e with
  | Vi => Some (e_i v) | Vn => e_n v | Vs => Some (e_s v) | VT => Some (e_T v) | Vo => Some (e_o v) | Cst k => Some k
  | Add a b => eadd (eval v a) (eval v b)
  | Sub a b => esub (eval v a) (eval v b)
  | Mul a b => emul (eval v a) (eval v b)
  | Min a b => emin (eval v a) (eval v b)
  end.

Fixpoint expr_eqb (a b : expr) : bool :=
  match a, b with
  | Vi, Vi | Vn, Vn | Vs, Vs | VT, VT | Vo, Vo => true
  | Cst x, Cst y => x =? y
  | Add a1 a2, Add b1 b2 | Sub a1 a2, Sub b1 b2 | Mul a1 a2, Mul b1 b2 | Min a1 a2, Min b1 b2 =>
      expr_eqb a1 b1 && expr_eqb a2 b2
  | _, _ => false
  end.

(* ------------------------------------------------------------------ slice readers *)
Inductive guard := GDiff0 (stop start : expr)      (* if stop - start == 0: return empty *)
                 | GGe (a b : expr).               (* if a >= b: return empty *)

Record sterm := mksterm {
  s_start : expr; s_stop : expr; s_step : expr;    (* frame_slice = slice(start, stop, step) *)
  s_guard : guard;                                 (* early return without touching the position *)
  s_newpos : expr;                                 (* self._frame_index afterwards *)
  s_fields_same : bool                             (* coordinates, time, cell_lengths, cell_angles all use frame_slice *)
}.

Definition guard_holds (v : env) (g : guard) : bool :=
  match g with
  | GDiff0 b a => match esub (eval v b) (eval v a) with Some 0 => true | _ => false end
  | GGe a b => match eval v a, eval v b with
               | Some x, Some y => y <=? x
               | None, _ => true
               | Some _, None => false
               end
  end.

Section Sem.
Context {A : Type}.

Definition nat_or (d : nat) (x : enat) : nat := match x with Some k => k | None => d end.

Definition slice_sem (t : sterm) (f : list A) (s : st) (n : option nat) (str : nat) (ai : option (A -> A))
  : st * res A :=
  let T := length f in
  let v := mkenv (pos s) n str T 0 in
  if guard_holds v (s_guard t) then (s, Ok [])
  else
    let a := nat_or T (eval v (s_start t)) in
    let b := nat_or T (eval v (s_stop t)) in          (* slicing clips an infinite stop *)
    let k := nat_or 1 (eval v (s_step t)) in
    let p := nat_or T (eval v (s_newpos t)) in
    (mkst p p (offs s), Ok (map (app ai) (every k (span a b f)))).

(* ------------------------------------------------------------------ loop readers *)
Inductive keep_eof := KBreak | KEscape.                 (* EOF at the frame that is kept *)
Inductive skip_eof := SBreakInner | SBreakOuter | SEscape.   (* EOF while throwing frames away *)

Record lterm := mklterm {
  l_iters : expr;          (* iterations of the outer loop when n_frames is given (range(<expr>)) *)
  l_skip : expr;           (* frames thrown away after every kept frame (range(<expr>)) *)
  l_keep_eof : keep_eof;
  l_skip_eof : skip_eof;
  l_post_step : option expr    (* result[::<expr>] applied after the loop *)
}.

(* None = the EOF exception escaped from read() *)
Fixpoint loop_run (m skip : nat) (ke : keep_eof) (se : skip_eof) (p : nat) (f : list A) (ai : option (A -> A))
  : nat * option (list A) :=
  match m with
  | 0 => (p, Some [])
  | S m' =>
      match nth_error f p with
      | None => (p, match ke with KBreak => Some [] | KEscape => None end)
      | Some x =>
          if skip <=? length f - S p then
            let '(p', r) := loop_run m' skip ke se (S p + skip) f ai in
            (p', match r with Some l => Some (app ai x :: l) | None => None end)
          else
            match se with
            | SBreakInner =>
                let '(p', r) := loop_run m' skip ke se (length f) f ai in
                (p', match r with Some l => Some (app ai x :: l) | None => None end)
            | SBreakOuter => (length f, Some [app ai x])
            | SEscape => (length f, None)
            end
      end
  end.

Definition loop_sem (t : lterm) (f : list A) (s : st) (n : option nat) (str : nat) (ai : option (A -> A))
  : st * res A :=
  let T := length f in
  let v := mkenv (pos s) n str T 0 in
  let m := match n with Some _ => nat_or (S T) (eval v (l_iters t)) | None => S T end in
  let k := nat_or 0 (eval v (l_skip t)) in
  let '(p', r) := loop_run m k (l_keep_eof t) (l_skip_eof t) (pos s) f ai in
  match r with
  | None => (mkst p' p' (offs s), Raise)
  | Some l => (mkst p' p' (offs s),
               Ok (match l_post_step t with Some e => every (nat_or 1 (eval v e)) l | None => l end))
  end.

(* ------------------------------------------------------------------ read_as_traj, seek *)
Record pterm := mkpterm {
  p_n : bool; p_stride : bool; p_ai : bool;   (* n_frames / stride / atom_indices handed on to read() unchanged *)
  p_top_subset : bool                         (* topology = topology.subset(atom_indices) when atom_indices is given *)
}.

Definition pass_sem (t : pterm) (rdf : list A -> st -> option nat -> nat -> option (A -> A) -> st * res A)
  (f : list A) (s : st) (n : option nat) (str : nat) (ai : option (A -> A)) : st * res A :=
  rdf f s (if p_n t then n else None) (if p_stride t then str else 1) (if p_ai t then ai else None).

Inductive kterm :=
  | KAssign       (* whence == 0 and offset >= 0: self._frame_index = offset *)
  | KByReading (strict : bool) (adv ab : expr)
      (* if offset >= index (strict: >): advance = <adv>, read that many frames; else absolute = <ab>: reopen the
         file and read that many frames.  Expressions over Vo = offset, Vi = self._frame_index *)
  | KRaises.      (* raise NotImplementedError() *)

(* reading a frame past the end inside seek() lets _EOF escape: None *)
Definition seek_sem (t : kterm) (f : list A) (s : st) (k : nat) : option st :=
  match t with
  | KAssign => Some (mkst k k (offs s))
  | KByReading strict adv ab =>
      let c := cnt s in
      let v := mkenv c None 1 (length f) k in
      if (if strict then c <? k else c <=? k) then
        let a := nat_or 0 (eval v adv) in
        if pos s + a <=? length f then Some (mkst (c + a) (pos s + a) (offs s)) else None
      else
        let b := nat_or 0 (eval v ab) in
        if b <=? length f then Some (mkst b b (offs s)) else None
  | KRaises => None
  end.

Inductive body := BSlice (t : sterm) | BLoop (t : lterm).

(* where the time stamps of the returned frames come from *)
Inductive tterm :=
  | TStored                  (* read from the file together with the coordinates of the same frame *)
  | TSynth (initial_before_read formula read_incr : bool).
      (* initial = int(self._frame_index) taken before read(); time = stride * arange(len(xyz)) + initial;
         the per-frame method ends with self._frame_index += 1 *)

Record rterm := mkrterm { r_read : body; r_pass : pterm; r_seek : kterm; r_tell_index : bool; r_time : tterm }.

Definition check_time (r : rterm) : bool :=
  match r_time r with
  | TStored => match r_read r with BSlice t => s_fields_same t | BLoop _ => true end
  | TSynth a b c => a && b && c
  end.

Definition body_sem (b : body) := match b with BSlice t => slice_sem t | BLoop t => loop_sem t end.
Definition reader_sem (r : rterm) := pass_sem (r_pass r) (body_sem (r_read r)).
Definition reader_seek (r : rterm) := seek_sem (r_seek r).

(* ------------------------------------------------------------------ iterload glue *)
Inductive cmp := CGt0 | CGe0 | CGt1 | CAlways.        (* guard of f.seek(skip): skip > 0, >= 0, > 1, none *)
Inductive stopc := StopLen0 | StopLtChunk.            (* len(traj) == 0 / len(traj) < chunk *)

Record gterm := mkgterm {
  g_seek_guard : cmp; g_seek_arg_skip : bool;          (* f.seek(skip) *)
  g_read_n_chunk : bool; g_read_stride : bool; g_read_ai : bool;   (* read_as_traj(n_frames=chunk, stride=stride, atom_indices=atom_indices) *)
  g_stop : stopc; g_stop_before_yield : bool;          (* test, then yield *)
  g0_ai : bool; g0_skip_stride_slice : bool;           (* chunk == 0: load(.., atom_indices=atom_indices)[skip::stride] *)
  gp_ai : bool; gp_skip_stride_slice : bool; gp_chunks : bool   (* .pdb: load(.., atom_indices)[skip::stride], t[i:i+chunk] *)
}.

Definition seek_wanted (c : cmp) (k : nat) : bool :=
  match c with CGt0 => 0 <? k | CGe0 => true | CGt1 => 1 <? k | CAlways => true end.

Fixpoint glue_loop (fuel : nat) (stop : stopc) (before : bool) (c : nat) (step : st -> st * res A) (s : st)
  : list (list A) * ending :=
  match fuel with
  | 0 => ([], Diverged)
  | S fu => match step s with
            | (_, Raise) => ([], Raised)
            | (s', Ok l) =>
                let finished := match stop with StopLen0 => length l =? 0 | StopLtChunk => length l <? c end in
                if finished then (if before then [] else [l], Fin)
                else let '(ls, e) := glue_loop fu stop before c step s' in (l :: ls, e)
            end
  end.

Variable junk : A.

(* the chunked branch of iterload for a reader given by its read / seek functions *)
Definition glue_sem (g : gterm)
  (rdf : list A -> st -> option nat -> nat -> option (A -> A) -> st * res A) (skf : list A -> st -> nat -> option st)
  (f : list A) (c str k : nat) (ai : option (A -> A)) (fuel : nat) : list (list A) * ending :=
  match (if seek_wanted (g_seek_guard g) k then skf f st0 (if g_seek_arg_skip g then k else 0) else Some st0) with
  | None => ([], Raised)
  | Some s1 => glue_loop fuel (g_stop g) (g_stop_before_yield g) c
                 (fun s => rdf f s (if g_read_n_chunk g then Some c else None)
                               (if g_read_stride g then str else 1) (if g_read_ai g then ai else None)) s1
  end.

(* ------------------------------------------------------------------ load_<fmt>(filename, stride, atom_indices, frame) *)
Record dterm := mkdterm {
  d_seek_frame : bool;      (* if frame is not None: f.seek(frame) *)
  d_n_one : bool;           (*   ... n_frames = 1 *)
  d_n_none : bool;          (* else: n_frames = None *)
  d_stride : bool; d_ai : bool   (* read_as_traj(n_frames=n_frames, stride=stride, atom_indices=atom_indices) *)
}.

Definition loader_sem (d : dterm)
  (rdf : list A -> st -> option nat -> nat -> option (A -> A) -> st * res A) (skf : list A -> st -> nat -> option st)
  (f : list A) (str : nat) (frame : option nat) (ai : option (A -> A)) : res A :=
  let str' := if d_stride d then str else 1 in
  let ai' := if d_ai d then ai else None in
  match frame with
  | Some k => match (if d_seek_frame d then skf f st0 k else Some st0) with
              | Some s1 => snd (rdf f s1 (if d_n_one d then Some 1 else None) str' ai')
              | None => Raise
              end
  | None => snd (rdf f st0 (if d_n_none d then None else Some 1) str' ai')
  end.

End Sem.

Definition check_loader (d : dterm) : bool := d_seek_frame d && d_n_one d && d_n_none d && d_stride d && d_ai d.

(* md.load([f1;..;fk]): syntactic flags only (no semantics attached): the same kwargs go to every file, the
   results are collected in file order and joined *)
Record mterm := mkmterm { m_same_kwargs : bool; m_file_order : bool; m_join : bool }.
Definition check_multi (m : mterm) : bool := m_same_kwargs m && m_file_order m && m_join m.

(* ------------------------------------------------------------------ checkers *)
(* the two arithmetics that are right: hdf5.py after its repair, netcdf.py *)
Definition scaled : expr := Mul Vn Vs.
Definition sterm_arr : sterm :=
  mksterm Vi (Min (Add Vi scaled) VT) Vs (GDiff0 (Min (Add Vi scaled) VT) Vi)
          (Add Vi (Sub (Min (Add Vi scaled) VT) Vi)) true.
Definition sterm_nc : sterm :=
  mksterm Vi (Add Vi (Min scaled VT)) Vs (GGe Vi VT) (Min (Add Vi scaled) VT) true.

Definition guard_eqb (a b : guard) : bool :=
  match a, b with
  | GDiff0 a1 a2, GDiff0 b1 b2 | GGe a1 a2, GGe b1 b2 => expr_eqb a1 b1 && expr_eqb a2 b2
  | _, _ => false
  end.

Definition sterm_eqb (a b : sterm) : bool :=
  expr_eqb (s_start a) (s_start b) && expr_eqb (s_stop a) (s_stop b) && expr_eqb (s_step a) (s_step b) &&
  guard_eqb (s_guard a) (s_guard b) && expr_eqb (s_newpos a) (s_newpos b) &&
  Bool.eqb (s_fields_same a) (s_fields_same b).

Definition check_slice (t : sterm) : option fam :=
  if sterm_eqb t sterm_arr then Some (FArr true)
  else if sterm_eqb t sterm_nc then Some FNc else None.

Definition check_loop (t : lterm) : bool :=
  expr_eqb (l_iters t) Vn && expr_eqb (l_skip t) (Sub Vs (Cst 1)) &&
  match l_keep_eof t with KBreak => true | KEscape => false end &&
  match l_skip_eof t with SEscape => false | _ => true end &&
  match l_post_step t with None => true | Some _ => false end.

Definition check_pass (t : pterm) : bool := p_n t && p_stride t && p_ai t && p_top_subset t.

(* which family of Model.v a reader description is: None = none of the right ones *)
Definition classify (r : rterm) : option fam :=
  if check_pass (r_pass r) then
    match r_read r, r_seek r with
    | BSlice t, KAssign => check_slice t
    | BLoop t, KByReading _ adv ab =>
        if check_loop t && expr_eqb adv (Sub Vo Vi) && expr_eqb ab Vo then Some FSeq else None
    | BLoop t, KRaises => if check_loop t then Some FSeqNoSeek else None
    | _, _ => None
    end
  else None.

Definition fam_eqb (a b : fam) : bool :=
  match a, b with
  | FArr x, FArr y | FPdb x, FPdb y => Bool.eqb x y
  | FNc, FNc | FSeq, FSeq | FXtc, FXtc | FTrr, FTrr | FGro, FGro | FDtr, FDtr | FArc, FArc
  | FSeqNoSeek, FSeqNoSeek => true
  | _, _ => false
  end.

Definition classified_in (r : rterm) (ok : list fam) : bool :=
  match classify r with Some fm => existsb (fam_eqb fm) ok | None => false end.

Definition check_glue (g : gterm) : bool :=
  match g_seek_guard g with CGt0 => true | _ => false end &&     (* seek(0) is not harmless: xtc switches striding mode, gro/arc raise *)
  g_seek_arg_skip g && g_read_n_chunk g && g_read_stride g && g_read_ai g &&
  match g_stop g with StopLen0 => true | StopLtChunk => false end && g_stop_before_yield g.

Definition check_glue0 (g : gterm) : bool := g0_ai g && g0_skip_stride_slice g.
Definition check_gluepdb (g : gterm) : bool := gp_ai g && gp_skip_stride_slice g && gp_chunks g.

(* the glue variant of Model.v a glue term stands for *)
Definition glue_variant (g : gterm) : glue := mkglue (check_glue0 g) (check_gluepdb g).
