(* Hand-maintained reference copy of the terms the translator of harness/props/C02.py extracts from the pinned
   mdtraj sources (after the C02 repairs).  coq/Gen/LoadReaders.v falls back to one of these definitions when
   the translator cannot parse the corresponding source any more ("degraded": the correspondence alone then
   ties the model for that reader); it is NOT used when the translator succeeds. *)
From Coq Require Import List Bool.
Import ListNotations.
Require Import MD.Load.Model MD.Load.Reflect.

Definition hdf5_reader : rterm :=
  mkrterm (BSlice (mksterm Vi (Min (Add Vi (Mul Vn Vs)) VT) Vs (GDiff0 (Min (Add Vi (Mul Vn Vs)) VT) Vi) (Add Vi (Sub (Min (Add Vi (Mul Vn Vs)) VT) Vi)) true))
    (mkpterm true true true true) KAssign true TStored.
Definition hdf5_loader : dterm := (mkdterm true true true true true).
Definition netcdf_reader : rterm :=
  mkrterm (BSlice (mksterm Vi (Add Vi (Min (Mul Vn Vs) VT)) Vs (GGe Vi VT) (Min (Add Vi (Mul Vn Vs)) VT) true))
    (mkpterm true true true true) KAssign true TStored.
Definition netcdf_loader : dterm := (mkdterm true true true true true).
Definition mdcrd_reader : rterm :=
  mkrterm (BLoop (mklterm Vn (Sub Vs (Cst 1)) KBreak SBreakInner None))
    (mkpterm true true true true) (KByReading false (Sub Vo Vi) Vo) true (TSynth true true true).
Definition mdcrd_loader : dterm := (mkdterm true true true true true).
Definition xyz_reader : rterm :=
  mkrterm (BLoop (mklterm Vn (Sub Vs (Cst 1)) KBreak SBreakInner None))
    (mkpterm true true true true) (KByReading false (Sub Vo Vi) Vo) true (TSynth true true true).
Definition xyz_loader : dterm := (mkdterm true true true true true).
Definition lammpstrj_reader : rterm :=
  mkrterm (BLoop (mklterm Vn (Sub Vs (Cst 1)) KBreak SBreakInner None))
    (mkpterm true true true true) (KByReading false (Sub Vo Vi) Vo) true (TSynth true true true).
Definition lammpstrj_loader : dterm := (mkdterm true true true true true).
Definition arc_reader : rterm :=
  mkrterm (BLoop (mklterm Vn (Sub Vs (Cst 1)) KBreak SBreakInner None))
    (mkpterm true true true true) KRaises false (TSynth true true true).
Definition arc_loader : dterm := (mkdterm true true true true true).
Definition gro_reader : rterm :=
  mkrterm (BLoop (mklterm Vn (Sub Vs (Cst 1)) KBreak SBreakOuter None))
    (mkpterm true true true true) KRaises true TStored.
Definition gro_loader : dterm := (mkdterm true true true true true).
Definition iterload_glue : gterm :=
  (mkgterm CGt0 true true true true StopLen0 true true true true true true).
Definition load_multi : mterm := (mkmterm true true true).
