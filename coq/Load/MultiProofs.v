(* Proofs about MultiModel.v: md.load of a list of files is md.join of the individual loads (with and without
   discard_overlapping_frames), what discarding yields, and the dispatch-by-extension layer. *)
From Coq Require Import List Arith Bool Lia.
Import ListNotations.
Require Import MD.Lib.Strided MD.Load.Model MD.Load.Lemmas MD.Load.Proofs MD.Load.Theorems MD.Load.MultiModel.

Section P.
Context {A : Type}.
Variable junk : A.
Variable same : A -> A -> bool.
Implicit Types (a b f l : list A) (ai : option (A -> A)).

(* ------------------------------------------------------------------ last / all-but-last *)
Lemma lasto_cons2 x y l : lasto (x :: y :: l) = lasto (y :: l).
Proof. reflexivity. Qed.

Lemma droplast_cons2 x y l : droplast (x :: y :: l) = x :: droplast (y :: l).
Proof. reflexivity. Qed.

Lemma lasto_split l x : lasto l = Some x -> l = droplast l ++ [x].
Proof.
  induction l as [|y r IH]; [discriminate|].
  destruct r as [|z r'].
  - cbn. intros E. injection E as ->. reflexivity.
  - rewrite lasto_cons2, droplast_cons2. intros E. rewrite <- app_comm_cons. f_equal. now apply IH.
Qed.

Lemma lasto_app a b : b <> [] -> lasto (a ++ b) = lasto b.
Proof.
  intros Hb. induction a as [|x r IH]; [reflexivity|].
  rewrite <- app_comm_cons. destruct (r ++ b) as [|y t] eqn:E.
  - destruct r; destruct b; try discriminate; congruence.
  - rewrite lasto_cons2. exact IH.
Qed.

Lemma lasto_some l : l <> [] -> exists x, lasto l = Some x.
Proof.
  induction l as [|y r IH]; [congruence|]. intros _.
  destruct r as [|z r']; [now exists y|]. rewrite lasto_cons2. apply IH. discriminate.
Qed.

Lemma lasto_map (g : A -> A) l : lasto (map g l) = option_map g (lasto l).
Proof.
  induction l as [|y r IH]; [reflexivity|].
  destruct r as [|z r']; [reflexivity|]. cbn [map]. rewrite !lasto_cons2. exact IH.
Qed.

Lemma droplast_map (g : A -> A) l : droplast (map g l) = map g (droplast l).
Proof.
  induction l as [|y r IH]; [reflexivity|].
  destruct r as [|z r']; [reflexivity|]. cbn [map]. rewrite !droplast_cons2. cbn [map]. f_equal. exact IH.
Qed.

(* ------------------------------------------------------------------ md.join without discarding = concatenation *)
Lemma join_all_plain ts : forall acc, join_all same false acc ts = Ok (acc ++ concat ts).
Proof.
  induction ts as [|t r IH]; intros acc; cbn [join_all concat].
  - now rewrite app_nil_r.
  - unfold join2. rewrite IH, app_assoc. reflexivity.
Qed.

(* ------------------------------------------------------------------ discarding, no junction overlaps: concatenation *)
Lemma join_all_separated ts : forall acc x, lasto acc = Some x -> separated same x ts ->
  join_all same true acc ts = Ok (acc ++ concat ts).
Proof.
  induction ts as [|t r IH]; intros acc x Hl Hs; cbn [join_all concat].
  - now rewrite app_nil_r.
  - cbn [separated] in Hs. destruct t as [|y t']; [contradiction|]. destruct Hs as [Hne Hs].
    unfold join2. rewrite Hl, Hne.
    destruct (lasto (y :: t')) as [z|] eqn:Ez; [|contradiction].
    rewrite (IH (acc ++ y :: t') z); [now rewrite app_assoc| |exact Hs].
    rewrite lasto_app; [exact Ez|discriminate].
Qed.

(* ------------------------------------------------------------------ discarding on a chain of segments: the run *)
Lemma join_all_chain (g : A -> A) (Hrefl : forall x, same (g x) (g x) = true) segs : forall acc x,
  lasto acc = Some x -> chain x segs ->
  join_all same true (map g acc) (map (map g) segs) = Ok (map g (acc ++ concat (map (@tl A) segs))).
Proof.
  induction segs as [|s r IH]; intros acc x Hl Hc; cbn [join_all map concat].
  - now rewrite app_nil_r.
  - cbn [chain] in Hc. destruct s as [|y s']; [contradiction|]. destruct Hc as [-> Hc].
    unfold join2. rewrite lasto_map, Hl. cbn [option_map map]. rewrite Hrefl.
    destruct (lasto (x :: s')) as [z|] eqn:Ez; [|contradiction].
    rewrite droplast_map.
    replace (map g (droplast acc) ++ g x :: map g s') with (map g (acc ++ s')).
    + rewrite (IH (acc ++ s') z); [cbn [tl]; now rewrite app_assoc| |exact Hc].
      destruct s' as [|w s'']; [rewrite app_nil_r; cbn in Ez; congruence|].
      rewrite lasto_app; [|discriminate]. rewrite lasto_cons2 in Ez. exact Ez.
    + rewrite (lasto_split acc x Hl) at 1. rewrite <- app_assoc, map_app. reflexivity.
Qed.

(* ------------------------------------------------------------------ md.load([..]) = md.join of the loads *)
Lemma load_each_ok fm str ai (X : list A -> list A) fs :
  (forall f, In f fs -> load junk fm f str None ai = Ok (X f)) ->
  load_each junk fm fs str ai = Some (map X fs).
Proof.
  induction fs as [|f r IH]; intros H; [reflexivity|].
  cbn [load_each map]. rewrite (H f (or_introl eq_refl)), IH; [reflexivity|].
  intros f' Hin. apply H. now right.
Qed.

Lemma load_each_length fm str ai fs : forall ts, load_each junk fm fs str ai = Some ts -> length ts = length fs.
Proof.
  induction fs as [|f r IH]; intros ts; cbn [load_each].
  - intros E. injection E as <-. reflexivity.
  - destruct (load junk fm f str None ai) as [l0|]; [|discriminate].
    destruct (load_each junk fm r str ai) as [ls|]; [|discriminate].
    intros E. injection E as <-. cbn [length]. f_equal. now apply IH.
Qed.

Theorem load_list_d_join d fm fs str ai : stride_ok fm -> 1 <= str -> fs <> [] ->
  (fm = FTrr -> forall f, In f fs -> f <> []) ->
  load_list_d junk same d fm fs str ai = spec_load_list_d same d fs str ai.
Proof.
  intros Hok Hs Hne Htrr. unfold load_list_d, spec_load_list_d.
  rewrite (load_each_ok fm str ai (fun f => map (app ai) (every str f))).
  - destruct fs as [|f r]; [congruence|reflexivity].
  - intros f Hin. apply (load_stride junk fm f str ai Hok Hs). intros E. now apply Htrr.
Qed.

Theorem spec_load_list_d_plain fs str ai : spec_load_list_d same false fs str ai = spec_load_list fs str ai.
Proof.
  unfold spec_load_list_d, spec_load_list. destruct fs as [|f r]; [reflexivity|].
  rewrite join_all_plain. reflexivity.
Qed.

(* the two-layer model agrees with load_list of Model.v when nothing is discarded *)
Theorem load_list_d_plain fm fs str ai : load_list_d junk same false fm fs str ai = load_list junk fm fs str ai.
Proof.
  unfold load_list_d.
  assert (G : forall fs, fs <> [] ->
            match load_each junk fm fs str ai with
            | Some ts => load_list junk fm fs str ai = Ok (concat ts)
            | None => load_list junk fm fs str ai = Raise
            end).
  { induction fs0 as [|f r IH]; [congruence|]. intros _.
    destruct r as [|f2 r2].
    - cbn [load_each load_list]. destruct (load junk fm f str None ai); [cbn; now rewrite app_nil_r|reflexivity].
    - change (load_list junk fm (f :: f2 :: r2) str ai)
        with (match load junk fm f str None ai, load_list junk fm (f2 :: r2) str ai with
              | Ok a, Ok b => Ok (a ++ b) | _, _ => Raise end).
      change (load_each junk fm (f :: f2 :: r2) str ai)
        with (match load junk fm f str None ai, load_each junk fm (f2 :: r2) str ai with
              | Ok l, Some ls => Some (l :: ls) | _, _ => None end).
      specialize (IH ltac:(discriminate)).
      destruct (load junk fm f str None ai) as [l0|]; [|reflexivity].
      destruct (load_each junk fm (f2 :: r2) str ai) as [ts|]; rewrite IH; reflexivity. }
  destruct fs as [|f r]; [reflexivity|].
  specialize (G (f :: r) ltac:(discriminate)).
  destruct (load_each junk fm (f :: r) str ai) as [[|t ts]|] eqn:E.
  - exfalso. pose proof (load_each_length fm str ai (f :: r) []) as Hlen. rewrite E in Hlen. specialize (Hlen eq_refl). discriminate.
  - rewrite join_all_plain. exact (eq_sym G).
  - exact (eq_sym G).
Qed.

(* ------------------------------------------------------------------ what discarding yields *)
Theorem discard_without_overlap fs str ai f0 x : 1 <= str ->
  lasto (map (app ai) (every str f0)) = Some x ->
  separated same x (map (fun f => map (app ai) (every str f)) fs) ->
  spec_load_list_d same true (f0 :: fs) str ai = spec_load_list (f0 :: fs) str ai.
Proof.
  intros _ Hl Hs. unfold spec_load_list_d, spec_load_list.
  rewrite (join_all_separated _ _ x Hl Hs). reflexivity.
Qed.

(* a run cut into segments that share one frame at every junction, loaded with discard_overlapping_frames and
   stride 1, is the run: nothing lost, nothing doubled *)
Theorem discard_reassembles s0 segs ai x :
  (forall y, same (app ai y) (app ai y) = true) -> lasto s0 = Some x -> chain x segs ->
  spec_load_list_d same true (s0 :: segs) 1 ai = Ok (map (app ai) (s0 ++ concat (map (@tl A) segs))).
Proof.
  intros Hrefl Hl Hc. unfold spec_load_list_d. rewrite every_one.
  replace (map (fun f => map (app ai) (every 1 f)) segs) with (map (map (app ai)) segs)
    by (apply map_ext; intros f; now rewrite every_one).
  exact (join_all_chain (app ai) Hrefl segs s0 x Hl Hc).
Qed.

(* ------------------------------------------------------------------ dispatch by extension *)
Theorem dispatch_conforming g fm f fs c str k frame ai d fuel :
  md_load junk disp_ok fm f str frame ai = load junk fm f str frame ai /\
  md_iterload junk disp_ok g fm f c str k ai fuel = iterload junk g fm f c str k ai fuel /\
  md_load_list junk same disp_ok d fm fs str ai = load_list_d junk same d fm fs str ai.
Proof.
  unfold md_load, md_iterload, md_load_list, disp_ok. cbn [top_by_ext has_fileobject].
  repeat split. now destruct (calls_load fm c).
Qed.

(* an extension that _parse_topology does not know (".hdf5" as found): md.load of one file or a list and
   iterload(chunk=0) refuse for every file; the streaming iterload is untouched *)
Theorem dispatch_unknown_topology_extension dp g fm f fs c str k frame ai d fuel : top_by_ext dp = false ->
  md_load junk dp fm f str frame ai = Raise /\
  md_load_list junk same dp d fm fs str ai = Raise /\
  md_iterload junk dp g fm f 0 str k ai fuel = ([], Raised) /\
  (has_fileobject dp = true -> calls_load fm c = false ->
   md_iterload junk dp g fm f c str k ai fuel = iterload junk g fm f c str k ai fuel).
Proof.
  intros H. unfold md_load, md_load_list, md_iterload. rewrite H. repeat split.
  intros Hf Hc. now rewrite Hc, Hf.
Qed.

(* an extension without a registered file class (".stk" as found): every streaming iterload refuses *)
Theorem dispatch_no_fileobject dp g fm f c str k ai fuel : has_fileobject dp = false -> calls_load fm c = false ->
  md_iterload junk dp g fm f c str k ai fuel = ([], Raised).
Proof. intros H Hc. unfold md_iterload. now rewrite Hc, H. Qed.

End P.

(* ------------------------------------------------------------------ witnesses *)
Definition nsame (a b : nat) : bool := a =? b.

(* segments 0..3 | 3..5 | 5..8 of one run: discarding gives 0..8, plain joining doubles frames 3 and 5 *)
Lemma discard_example :
  spec_load_list_d nsame true [[0; 1; 2; 3]; [3; 4; 5]; [5; 6; 7; 8]] 1 None = Ok (seq 0 9) /\
  spec_load_list_d nsame false [[0; 1; 2; 3]; [3; 4; 5]; [5; 6; 7; 8]] 1 None = Ok [0; 1; 2; 3; 3; 4; 5; 5; 6; 7; 8] /\
  chain 3 [[3; 4; 5]; [5; 6; 7; 8]] /\ lasto [0; 1; 2; 3] = Some 3.
Proof. repeat split; reflexivity. Qed.

(* with a stride a junction is discarded exactly when both of its frames are loaded *)
Lemma discard_stride_example :
  spec_load_list_d nsame true [[0; 1; 2; 3]; [3; 4; 5]; [5; 6; 7; 8]] 2 None = Ok [0; 2; 3; 5; 7] /\
  spec_load_list_d nsame true [[0; 1; 2; 3; 4]; [4; 5; 6]] 2 None = Ok [0; 2; 4; 6].
Proof. split; reflexivity. Qed.

Lemma hdf5_extension_refuted :
  exists (f : list nat), f <> [] /\
    md_load 99 (mkdisp false true) (FArr true) f 1 None None <> spec_load f 1 None None /\
    md_load 99 (mkdisp false true) (FArr true) f 1 (Some 0) None <> spec_load f 1 (Some 0) None /\
    load_frame 99 (FArr true) f 0 None = spec_load f 1 (Some 0) None.
Proof. exists [7; 8]. repeat split; try discriminate; reflexivity. Qed.

Lemma stk_iterload_refuted :
  exists (f : list nat) c, 1 <= c /\
    md_iterload 99 (mkdisp true false) (mkglue true true) FNc f c 1 0 None (S (length f)) <> spec_iterload f c 1 0 None.
Proof. exists [7; 8], 1. split; [auto|]. vm_compute. discriminate. Qed.
