(* C02 theorems, stated against the property (spec_load / spec_iterload / spec_load_list of Model.v),
   for the reader families that are right; the as-found wrong ones are in Refuted.v. *)
From Coq Require Import List Arith Bool Lia.
Import ListNotations.
Require Import MD.Lib.Strided MD.Load.Model MD.Load.Lemmas MD.Load.Proofs.

Section T.
Context {A : Type}.
Variable junk : A.
Implicit Types (f l r : list A) (ai : option (A -> A)) (s : st).

(* ------------------------------------------------------------------ what the property's right-hand side is *)
Lemma spec_iterload_concat f c str k ai : 1 <= c ->
  concat (fst (spec_iterload f c str k ai)) = map (app ai) (every str (skipn k f)).
Proof.
  intros Hc. unfold spec_iterload. cbn [fst]. replace (c =? 0) with false by (symmetry; apply Nat.eqb_neq; lia).
  now apply concat_chunks.
Qed.

Lemma spec_iterload_sizes f c str k ai : 1 <= c -> sizes_ok c (fst (spec_iterload f c str k ai)).
Proof.
  intros Hc. unfold spec_iterload. cbn [fst]. replace (c =? 0) with false by (symmetry; apply Nat.eqb_neq; lia).
  now apply chunks_sizes.
Qed.

(* number of chunks: ceil(ceil((T-k)/str)/c); in particular the iteration is finite *)
Lemma spec_iterload_count f c str k ai : 1 <= c -> 1 <= str ->
  length (fst (spec_iterload f c str k ai)) = ((length f - k + str - 1) / str + c - 1) / c /\
  snd (spec_iterload f c str k ai) = Fin.
Proof.
  intros Hc Hs. split; [|reflexivity]. unfold spec_iterload. cbn [fst].
  replace (c =? 0) with false by (symmetry; apply Nat.eqb_neq; lia).
  rewrite length_chunks by assumption. rewrite map_length, length_every by assumption.
  now rewrite skipn_length.
Qed.

(* ------------------------------------------------------------------ iterload = the chunking *)
Lemma nopdb_arr b : forall b', FArr b <> FPdb b'. Proof. discriminate. Qed.

Theorem iterload_arr_fix g f c str k ai fuel : 1 <= c -> 1 <= str -> length f < fuel ->
  iterload junk g (FArr true) f c str k ai fuel = spec_iterload f c str k ai.
Proof.
  intros Hc Hs Hf. unfold spec_iterload. replace (c =? 0) with false by (symmetry; apply Nat.eqb_neq; lia).
  destruct (0 <? k) eqn:Ek.
  - eapply (iterload_right junk (FArr true) Itrue g (arr_fix_right junk)) with (s1 := mkst k k false);
      try assumption; try reflexivity; try discriminate. now rewrite Ek.
  - apply Nat.ltb_ge in Ek. assert (k = 0) by lia. subst k.
    eapply (iterload_right junk (FArr true) Itrue g (arr_fix_right junk)) with (s1 := st0);
      try assumption; try reflexivity; try discriminate.
Qed.

Theorem iterload_nc g f c str k ai fuel : 1 <= c -> 1 <= str -> length f < fuel ->
  iterload junk g FNc f c str k ai fuel = spec_iterload f c str k ai.
Proof.
  intros Hc Hs Hf. unfold spec_iterload. replace (c =? 0) with false by (symmetry; apply Nat.eqb_neq; lia).
  destruct (0 <? k) eqn:Ek.
  - eapply (iterload_right junk FNc Itrue g (nc_right junk)) with (s1 := mkst k k false);
      try assumption; try reflexivity; try discriminate. now rewrite Ek.
  - apply Nat.ltb_ge in Ek. assert (k = 0) by lia. subst k.
    eapply (iterload_right junk FNc Itrue g (nc_right junk)) with (s1 := st0);
      try assumption; try reflexivity; try discriminate.
Qed.

Theorem iterload_seq g f c str k ai fuel : 1 <= c -> 1 <= str -> k <= length f -> length f < fuel ->
  iterload junk g FSeq f c str k ai fuel = spec_iterload f c str k ai.
Proof.
  intros Hc Hs Hk Hf. unfold spec_iterload. replace (c =? 0) with false by (symmetry; apply Nat.eqb_neq; lia).
  destruct (0 <? k) eqn:Ek.
  - eapply (iterload_right junk FSeq Itrue g (seq_right junk)) with (s1 := mkst k k false);
      try assumption; try reflexivity; try discriminate.
    rewrite Ek. cbn [sk]. unfold seq_seek. now replace (k <=? length f) with true by (symmetry; apply Nat.leb_le; lia).
  - apply Nat.ltb_ge in Ek. assert (k = 0) by lia. subst k.
    eapply (iterload_right junk FSeq Itrue g (seq_right junk)) with (s1 := st0);
      try assumption; try reflexivity; try discriminate.
Qed.

Lemma Itrr_seek f str k : k < length f -> Itrr f str (mkst k k true).
Proof.
  intros Hk. unfold Itrr. cbn [cnt pos offs]. rewrite andb_true_r. destruct (1 <? str) eqn:E; [|now left].
  apply Nat.ltb_lt in E. right. split; [assumption|]. left. split; [reflexivity|assumption].
Qed.

(* trr as found; also the shape of the minimal repair of xtc *)
Theorem iterload_trr g f c str k ai fuel : 1 <= c -> 1 <= str -> k < length f -> length f < fuel ->
  iterload junk g FTrr f c str k ai fuel = spec_iterload f c str k ai.
Proof.
  intros Hc Hs Hk Hf. unfold spec_iterload. replace (c =? 0) with false by (symmetry; apply Nat.eqb_neq; lia).
  destruct (0 <? k) eqn:Ek.
  - eapply (iterload_right junk FTrr Itrr g (trr_right junk)) with (s1 := mkst k k true);
      try assumption; try reflexivity; try discriminate.
    + rewrite Ek. cbn [sk]. unfold xdr_seek. now replace (k <? length f) with true by (symmetry; apply Nat.ltb_lt; lia).
    + now apply Itrr_seek.
  - apply Nat.ltb_ge in Ek. assert (k = 0) by lia. subst k.
    eapply (iterload_right junk FTrr Itrr g (trr_right junk)) with (s1 := st0);
      try assumption; try reflexivity; try discriminate. apply Itrr_st0.
Qed.

(* xtc as found is right as long as no seek happened (skip = 0) *)
Theorem iterload_xtc_noskip g f c str ai fuel : 1 <= c -> 1 <= str -> length f < fuel ->
  iterload junk g FXtc f c str 0 ai fuel = spec_iterload f c str 0 ai.
Proof.
  intros Hc Hs Hf. unfold spec_iterload. replace (c =? 0) with false by (symmetry; apply Nat.eqb_neq; lia).
  eapply (iterload_right junk FXtc Inoeff g (xtc_noeff_right junk)) with (s1 := st0);
    try assumption; try reflexivity; try discriminate.
  unfold Inoeff. cbn [offs st0]. apply andb_false_r.
Qed.

(* gro / arc once read() honours n_frames and stride per frame (seek still missing: skip = 0) *)
Theorem iterload_seq_noseek_noskip g f c str ai fuel : 1 <= c -> 1 <= str -> length f < fuel ->
  iterload junk g FSeqNoSeek f c str 0 ai fuel = spec_iterload f c str 0 ai.
Proof.
  intros Hc Hs Hf. unfold spec_iterload. replace (c =? 0) with false by (symmetry; apply Nat.eqb_neq; lia).
  eapply (iterload_right junk FSeqNoSeek Itrue g (seq_noseek_right junk)) with (s1 := st0);
    try assumption; try reflexivity; try discriminate.
Qed.

(* chunk = 0 and the .pdb branch after the repair of trajectory.py *)
Theorem iterload_chunk0_repaired g fm f str k ai fuel : chunk0_fix g = true ->
  load junk fm f 1 None ai = spec_load f 1 None ai ->
  iterload junk g fm f 0 str k ai fuel = spec_iterload f 0 str k ai.
Proof. intros Hg Hl. now apply iterload_chunk0_fixed. Qed.

Theorem iterload_pdb_repaired g b f c str k ai fuel : pdbiter_fix g = true -> 1 <= c ->
  iterload junk g (FPdb b) f c str k ai fuel = spec_iterload f c str k ai.
Proof.
  intros Hg Hc. unfold spec_iterload. replace (c =? 0) with false by (symmetry; apply Nat.eqb_neq; lia).
  now apply iterload_pdb_fixed.
Qed.

(* ------------------------------------------------------------------ load(stride) *)
Definition stride_ok (fm : fam) : Prop :=
  match fm with FArc => False | _ => True end.

Theorem load_stride fm f str ai : stride_ok fm -> 1 <= str -> (fm = FTrr -> f <> []) ->
  load junk fm f str None ai = spec_load f str None ai.
Proof.
  intros Hok Hs Hne. unfold spec_load. change (map (app ai) (every str f)) with (absf f str ai 0).
  destruct fm as [b| | | | | | | |b|]; cbn in Hok; try contradiction.
  - apply load_stride_arr.
  - apply load_stride_nc.
  - apply load_stride_seq_like; [reflexivity|discriminate|assumption].
  - now apply load_stride_xtc.
  - apply load_stride_trr; [assumption|now apply Hne].
  - apply load_stride_gro.
  - now apply load_stride_dtr.
  - apply load_stride_pdb.
  - apply load_stride_seq_like; [reflexivity|discriminate|assumption].
Qed.

(* ------------------------------------------------------------------ load_frame / load(frame=k) *)
Lemma nth_error_lt f k : k < length f -> exists x, nth_error f k = Some x.
Proof. intros H. destruct (nth_error f k) eqn:E; [eauto|]. apply nth_error_None in E. lia. Qed.

Theorem load_frame_arr_fix f str k ai : 1 <= str -> k < length f ->
  load junk (FArr true) f str (Some k) ai = spec_load f str (Some k) ai.
Proof.
  intros Hs Hk. destruct (nth_error_lt f k Hk) as [x Hx]. unfold spec_load. rewrite Hx.
  eapply (load_frame_right junk (FArr true) Itrue (arr_fix_right junk)) with (s1 := mkst k k false);
    try assumption; try reflexivity; try discriminate.
Qed.

Theorem load_frame_arr_cur f str k ai : 1 <= str -> k < length f ->
  load junk (FArr false) f str (Some k) ai = spec_load f str (Some k) ai.
Proof.
  intros Hs Hk. destruct (nth_error_lt f k Hk) as [x Hx]. unfold spec_load. rewrite Hx.
  unfold load. cbn [sk arr_seek rd]. unfold arr_read. cbn [pos offs].
  replace (Nat.min (k + 1) (length f)) with (S k) by lia.
  replace (S k - k) with 1 by lia. cbn [Nat.eqb snd]. unfold span.
  replace (S k - k) with 1 by lia. rewrite (nth_error_skipn _ _ _ Hx). cbn [firstn].
  rewrite every_cons. cbn [every_from map]. reflexivity.
Qed.

Theorem load_frame_nc f str k ai : 1 <= str -> k < length f ->
  load junk FNc f str (Some k) ai = spec_load f str (Some k) ai.
Proof.
  intros Hs Hk. destruct (nth_error_lt f k Hk) as [x Hx]. unfold spec_load. rewrite Hx.
  eapply (load_frame_right junk FNc Itrue (nc_right junk)) with (s1 := mkst k k false);
    try assumption; try reflexivity; try discriminate.
Qed.

Theorem load_frame_seq f str k ai : 1 <= str -> k < length f ->
  load junk FSeq f str (Some k) ai = spec_load f str (Some k) ai.
Proof.
  intros Hs Hk. destruct (nth_error_lt f k Hk) as [x Hx]. unfold spec_load. rewrite Hx.
  eapply (load_frame_right junk FSeq Itrue (seq_right junk)) with (s1 := mkst k k false);
    try assumption; try reflexivity; try discriminate.
  cbn [sk]. unfold seq_seek. now replace (k <=? length f) with true by (symmetry; apply Nat.leb_le; lia).
Qed.

Theorem load_frame_trr f str k ai : 1 <= str -> k < length f ->
  load junk FTrr f str (Some k) ai = spec_load f str (Some k) ai.
Proof.
  intros Hs Hk. destruct (nth_error_lt f k Hk) as [x Hx]. unfold spec_load. rewrite Hx.
  eapply (load_frame_right junk FTrr Itrr (trr_right junk)) with (s1 := mkst k k true);
    try assumption; try reflexivity; try discriminate.
  - cbn [sk]. unfold xdr_seek. now replace (k <? length f) with true by (symmetry; apply Nat.ltb_lt; lia).
  - now apply Itrr_seek.
Qed.

(* xtc: a single frame after a seek is right in both striding modes *)
Theorem load_frame_xtc f str k ai : 1 <= str -> k < length f ->
  load junk FXtc f str (Some k) ai = spec_load f str (Some k) ai.
Proof.
  intros Hs Hk. destruct (nth_ok junk f k Hk) as (x & Hx & Hn). unfold spec_load. rewrite Hx.
  unfold load. cbn [sk]. unfold xdr_seek. replace (k <? length f) with true by (symmetry; apply Nat.ltb_lt; lia).
  cbn [rd]. unfold xtc_read. cbn [cnt pos offs]. rewrite andb_true_r. cbn [xtc_loop].
  replace (k <? length f) with true by (symmetry; apply Nat.ltb_lt; lia). rewrite Hn.
  destruct (1 <? str); [destruct (k + str <? length f)|]; reflexivity.
Qed.

(* ------------------------------------------------------------------ load([f1;...;fk]) = join of the loads *)
Theorem load_list_join fm fs str ai : stride_ok fm -> 1 <= str -> fs <> [] ->
  (fm = FTrr -> forall f, In f fs -> f <> []) ->
  load_list junk fm fs str ai = spec_load_list fs str ai.
Proof.
  intros Hok Hs Hne Htrr. unfold spec_load_list. destruct fs as [|f0 r0]; [congruence|].
  apply (load_list_ok junk fm str ai (fun f => map (app ai) (every str f))); [|discriminate].
  intros f Hin. apply (load_stride fm f str ai Hok Hs). intros E. now apply Htrr.
Qed.

(* ------------------------------------------------------------------ atoms: subsetting commutes with partial loading
   (for everything that satisfies the property: the right-hand sides commute) *)
Theorem spec_load_atoms f str frame (sel : A -> A) :
  spec_load f str frame (Some sel) =
  match spec_load f str frame None with Ok l => Ok (map sel l) | Raise => Raise end.
Proof.
  unfold spec_load. destruct frame as [k|].
  - destruct (nth_error f k); reflexivity.
  - cbn [app]. now rewrite map_id.
Qed.

Theorem spec_iterload_atoms f c str k (sel : A -> A) :
  spec_iterload f c str k (Some sel) =
  (map (map sel) (fst (spec_iterload f c str k None)), snd (spec_iterload f c str k None)).
Proof.
  unfold spec_iterload. cbn [fst snd app]. rewrite map_id. destruct (c =? 0); [reflexivity|].
  now rewrite chunks_map_eq.
Qed.

End T.

(* ================================================================== xtc as found, general form of the defect:
   after ANY seek (0 < skip < T) with ANY stride > 1 and ANY chunk >= 1, on ANY file, md.iterload never
   ends: every read_as_traj returns at least one frame, for ever. *)
Section XtcDiverges.
Context {A : Type}.
Variable junk : A.

Definition XJ (str T c p : nat) : Prop := (p = c /\ c < T) \/ T <= c + str.

Lemma xtc_eff_loop str (f : list A) ai : 1 < str -> forall m c p, XJ str (length f) c p ->
  exists c' p' l, xtc_loop junk m true str (length f) c p f ai = (c', p', l) /\ XJ str (length f) c' p' /\
                  (1 <= m -> l <> []).
Proof.
  intros Hs. induction m as [|m IH]; intros c p HJ.
  - exists c, p, []. repeat split; [assumption|lia].
  - cbn [xtc_loop]. cbn zeta. replace (1 <? str) with true by (symmetry; apply Nat.ltb_lt; lia).
    destruct (c + str <? length f) eqn:E.
    + apply Nat.ltb_lt in E. destruct HJ as [(Hp & Hc)|HJ]; [|lia]. subst p.
      replace (c <? length f) with true by (symmetry; apply Nat.ltb_lt; lia).
      destruct (IH (c + str) (c + str)) as (c' & p' & l & El & HJ' & _); [left; split; [reflexivity|lia]|].
      rewrite El. eexists _, _, _. split; [reflexivity|]. split; [exact HJ'|]. intros _. discriminate.
    + apply Nat.ltb_ge in E. eexists _, _, _. split; [reflexivity|]. split; [right; lia|]. intros _. discriminate.
Qed.

Lemma xtc_eff_step str (f : list A) ai c : 1 < str -> 1 <= c ->
  forall s, offs s = true -> XJ str (length f) (cnt s) (pos s) ->
    exists s' x l, rd junk FXtc f s (Some c) str ai = (s', Ok (x :: l)) /\ offs s' = true /\
                   XJ str (length f) (cnt s') (pos s').
Proof.
  intros Hs Hc s Ho HJ. cbn [rd]. unfold xtc_read. rewrite Ho.
  replace (1 <? str) with true by (symmetry; apply Nat.ltb_lt; lia). cbn [andb].
  destruct (xtc_eff_loop str f ai Hs c (cnt s) (pos s) HJ) as (c' & p' & l & El & HJ' & Hne).
  rewrite El. specialize (Hne Hc). destruct l as [|x r]; [congruence|].
  eexists _, x, r. split; [reflexivity|]. split; [reflexivity|exact HJ'].
Qed.

Lemma xtc_iter_diverges str (f : list A) ai c : 1 < str -> 1 <= c ->
  forall fuel s, offs s = true -> XJ str (length f) (cnt s) (pos s) ->
    snd (iter_loop fuel (fun s => rd junk FXtc f s (Some c) str ai) s) = Diverged.
Proof.
  intros Hs Hc. set (step := fun s => rd junk FXtc f s (Some c) str ai).
  induction fuel as [|fu IH]; intros s Ho HJ; [reflexivity|].
  destruct (xtc_eff_step str f ai c Hs Hc s Ho HJ) as (s' & x & l & E & Ho' & HJ').
  change (step s = (s', Ok (x :: l))) in E. cbn [iter_loop]. rewrite E.
  specialize (IH s' Ho' HJ'). destruct (iter_loop fu step s') as [ls e]. exact IH.
Qed.

Theorem xtc_iterload_after_skip_diverges g (f : list A) c str k ai :
  1 <= c -> 1 < str -> 0 < k < length f ->
  forall fuel, snd (iterload junk g FXtc f c str k ai fuel) = Diverged.
Proof.
  intros Hc Hs Hk fuel. unfold iterload.
  replace (c =? 0) with false by (symmetry; apply Nat.eqb_neq; lia).
  replace (0 <? k) with true by (symmetry; apply Nat.ltb_lt; lia).
  cbn [sk]. unfold xdr_seek. replace (k <? length f) with true by (symmetry; apply Nat.ltb_lt; lia).
  apply xtc_iter_diverges; try assumption; [reflexivity|]. left. cbn [cnt pos]. split; [reflexivity|lia].
Qed.

End XtcDiverges.

(* ================================================================== atoms commute, stated on the models that satisfy the property *)
Section AtomsCommute.
Context {A : Type}.
Variable junk : A.

Lemma atoms_commute_from_spec g fm (f : list A) c str k sel fuel :
  iterload junk g fm f c str k (Some sel) fuel = spec_iterload f c str k (Some sel) ->
  iterload junk g fm f c str k None fuel = spec_iterload f c str k None ->
  iterload junk g fm f c str k (Some sel) fuel =
  (map (map sel) (fst (iterload junk g fm f c str k None fuel)), snd (iterload junk g fm f c str k None fuel)).
Proof. intros E1 E2. rewrite E1, E2. apply spec_iterload_atoms. Qed.

Theorem atoms_commute_right_readers g fm (f : list A) c str k sel fuel :
  1 <= c -> 1 <= str -> length f < fuel ->
  (fm = FArr true \/ fm = FNc \/ (fm = FSeq /\ k <= length f) \/ (fm = FTrr /\ k < length f)) ->
  iterload junk g fm f c str k (Some sel) fuel =
  (map (map sel) (fst (iterload junk g fm f c str k None fuel)), snd (iterload junk g fm f c str k None fuel)).
Proof.
  intros Hc Hs Hf [E|[E|[[E Hk]|[E Hk]]]]; subst fm; apply atoms_commute_from_spec.
  - now apply iterload_arr_fix.
  - now apply iterload_arr_fix.
  - now apply iterload_nc.
  - now apply iterload_nc.
  - now apply iterload_seq.
  - now apply iterload_seq.
  - now apply iterload_trr.
  - now apply iterload_trr.
Qed.

End AtomsCommute.

(* ================================================================== the remaining corners, characterised *)
Section Corners.
Context {A : Type}.
Variable junk : A.

(* gro / arc after the repair of read(): without seek() every skip > 0 and every single-frame load is refused
   (never wrong frames) *)
Theorem iterload_seq_noseek_skip_refused g (f : list A) c str k ai fuel : 1 <= c -> 0 < k ->
  iterload junk g FSeqNoSeek f c str k ai fuel = ([], Raised).
Proof.
  intros Hc Hk. unfold iterload. replace (c =? 0) with false by (symmetry; apply Nat.eqb_neq; lia).
  replace (0 <? k) with true by (symmetry; apply Nat.ltb_lt; lia). reflexivity.
Qed.

Theorem load_frame_seq_noseek_refused (f : list A) str k ai : load junk FSeqNoSeek f str (Some k) ai = Raise.
Proof. reflexivity. Qed.

(* xtc as found, after a seek but with stride 1: right (the efficient-striding branch is only taken for stride > 1) *)
Theorem iterload_xtc_stride1_after_skip g (f : list A) c k ai fuel : 1 <= c -> 0 < k < length f -> length f < fuel ->
  iterload junk g FXtc f c 1 k ai fuel = spec_iterload f c 1 k ai.
Proof.
  intros Hc Hk Hf. unfold spec_iterload. replace (c =? 0) with false by (symmetry; apply Nat.eqb_neq; lia).
  eapply (iterload_right junk FXtc Inoeff g (xtc_noeff_right junk)) with (s1 := mkst k k true);
    try assumption; try reflexivity; try discriminate; try lia.
  replace (0 <? k) with true by (symmetry; apply Nat.ltb_lt; lia). cbn [sk]. unfold xdr_seek.
  now replace (k <? length f) with true by (symmetry; apply Nat.ltb_lt; lia).
Qed.

(* xtc and trr: skip >= n_frames is refused for every file (the property promises an empty iteration for skip = n_frames) *)
Theorem iterload_xdr_skip_all_refused g fm (f : list A) c str k ai fuel : fm = FXtc \/ fm = FTrr ->
  1 <= c -> 0 < k -> length f <= k ->
  iterload junk g fm f c str k ai fuel = ([], Raised).
Proof.
  intros Hfm Hc Hk HT. unfold iterload. replace (c =? 0) with false by (symmetry; apply Nat.eqb_neq; lia).
  replace (0 <? k) with true by (symmetry; apply Nat.ltb_lt; lia).
  destruct Hfm; subst fm; cbn [sk]; unfold xdr_seek;
    replace (k <? length f) with false by (symmetry; apply Nat.ltb_ge; lia); reflexivity.
Qed.

End Corners.
