(* Executable model of partial loading in mdtraj (C02): the strided-read arithmetic of every reader
   family exactly as the code computes it, and load / load_frame / iterload / load([..]) composed on
   top of the readers the way mdtraj/core/trajectory.py composes them.
   No proofs in this file (DESIGN.md section 1).

   A file is a list of frames; frames are opaque (type A).  Atom selection is a function on frames
   (ai : option (A -> A)) applied where the code applies atom_indices.

   Reader state: cnt = the counter tell() reports (frame_counter / _frame_index), pos = physical
   position in the file, offs = "the xdr offset table has been computed" (true after any seek()).

   Families (read_as_traj level, n = Some chunk | None = all remaining, str = stride >= 1):
     arr false  hdf5.py as found     slice(i, min(i+n,T), str); i += stop-start
     arr true   hdf5.py repaired     n *= str first (what netcdf.py does)
     nc         netcdf.py            n *= str; slice(i, i+min(n,T), str); i = min(i+n, T)
     seq        mdcrd/xyz/lammpstrj/dcd   read one, then throw away str-1 (EOF ends either loop)
     xtc        xtc.pyx _read        incl. the "efficient striding" branch once offsets are known
     trr        trr.pyx _read        same idea, but falls back to sequential skipping at the end
     gro        gro.py               read_as_traj drops n_frames: reads everything left, then [::str]; seek raises
     dtr        dtr.pyx              read_as_traj drops n_frames; times[start:last:str]; counter += frames returned
     arc        arc.py               skip loop lets _EOF escape; atom_indices / empty result raise; seek raises
     pdb b      pdbfile.py           load all models, then index (handled in [load]/[iterload]); b = repaired
                                     (frame together with atom_indices no longer trips the assertion)
     seqnoseek  gro.py / arc.py after the proposed repair of read(): the seq reader, seek() still raises

   Scope of the model (what the correspondence exercises): 1 <= T < 100 frames, stride >= 1, skip <= T,
   frame < T.  n_frames=None of the sequential readers is modelled as T+1 loop iterations (the loops stop at
   EOF), read() of xtc/trr as one read-ahead chunk larger than the file. *)
From Coq Require Import List Arith Bool Lia.
Import ListNotations.
Require Import MD.Lib.Strided.

Inductive res (A : Type) := Ok (l : list A) | Raise.
Arguments Ok {A} l.
Arguments Raise {A}.

Inductive ending := Fin | Raised | Diverged.

Inductive fam := FArr (repaired : bool) | FNc | FSeq | FXtc | FTrr | FGro | FDtr | FArc | FPdb (repaired : bool)
  | FSeqNoSeek.   (* gro / arc after the minimal repair of read(): sequential reads, seek() still raises *)

(* glue of trajectory.py: the chunk == 0 branch and the .pdb branch of iterload, as found / repaired *)
Record glue := mkglue { chunk0_fix : bool; pdbiter_fix : bool }.

Record st := mkst { cnt : nat; pos : nat; offs : bool }.
Definition st0 := mkst 0 0 false.

Section Readers.
Context {A : Type}.
Variable junk : A.            (* an uninitialised / stale frame handed out by a reader *)

Definition asel := option (A -> A).
Definition app (ai : asel) (x : A) : A := match ai with Some g => g x | None => x end.

(* l[0:c], l[c:2c], ...  (c >= 1) *)
Fixpoint chunks_fuel (fuel c : nat) (l : list A) : list (list A) :=
  match fuel with
  | 0 => []
  | S fu => match l with
            | [] => []
            | _ => firstn c l :: chunks_fuel fu c (skipn c l)
            end
  end.
Definition chunks (c : nat) (l : list A) : list (list A) := chunks_fuel (length l) c l.

(* ------------------------------------------------------------------ hdf5.py *)
Definition arr_read (repaired : bool) (f : list A) (s : st) (n : option nat) (str : nat) (ai : asel)
  : st * res A :=
  let T := length f in let i := pos s in
  let stop := match n with
              | Some n => Nat.min (i + (if repaired then n * str else n)) T
              | None => T
              end in
  if stop - i =? 0 then (s, Ok [])
  else (mkst (i + (stop - i)) (i + (stop - i)) (offs s), Ok (map (app ai) (every str (span i stop f)))).

Definition arr_seek (f : list A) (s : st) (k : nat) : option st := Some (mkst k k (offs s)).

(* ------------------------------------------------------------------ netcdf.py *)
Definition nc_read (f : list A) (s : st) (n : option nat) (str : nat) (ai : asel) : st * res A :=
  let T := length f in let i := pos s in
  let m := match n with Some n => Nat.min (n * str) T | None => T end in
  let i' := match n with Some n => Nat.min (i + n * str) T | None => T end in
  if T <=? i then (s, Ok [])
  else (mkst i' i' (offs s), Ok (map (app ai) (every str (span i (i + m) f)))).

(* ------------------------------------------------------------------ one frame per _read() *)
Fixpoint seq_loop (n str p : nat) (f : list A) (ai : asel) : nat * list A :=
  match n with
  | 0 => (p, [])
  | S n' => match nth_error f p with
            | None => (p, [])
            | Some x => let '(p', l) := seq_loop n' str (Nat.min (S p + (str - 1)) (length f)) f ai in
                        (p', app ai x :: l)
            end
  end.

(* n = None is itertools.count() (text readers) resp. n_frames - tell() (dcd): both stop at EOF *)
Definition seq_read (f : list A) (s : st) (n : option nat) (str : nat) (ai : asel) : st * res A :=
  let nn := match n with Some n => n | None => S (length f) end in
  let '(p', l) := seq_loop nn str (pos s) f ai in (mkst p' p' (offs s), Ok l).

(* seek(k) of the text readers reads k frames and throws them away; in scope k <= T *)
Definition seq_seek (f : list A) (s : st) (k : nat) : option st :=
  if k <=? length f then Some (mkst k k (offs s)) else None.

(* ------------------------------------------------------------------ arc.py *)
Fixpoint arc_loop (n str p : nat) (f : list A) : nat * option (list A) :=
  match n with
  | 0 => (p, Some [])
  | S n' => match nth_error f p with
            | None => (p, Some [])
            | Some x => if str - 1 <=? length f - S p
                        then let '(p', r) := arc_loop n' str (S p + (str - 1)) f in
                             (p', match r with Some l => Some (x :: l) | None => None end)
                        else (length f, None)      (* _EOF escapes from the throw-away loop *)
            end
  end.

Definition arc_read (f : list A) (s : st) (n : option nat) (str : nat) (ai : asel) : st * res A :=
  match ai with
  | Some _ => (s, Raise)                           (* self.topology is None / full topology with subset xyz *)
  | None =>
      let nn := match n with Some n => n | None => S (length f) end in
      let '(p', r) := arc_loop nn str (pos s) f in
      match r with
      | None => (mkst p' p' (offs s), Raise)
      | Some [] => (mkst p' p' (offs s), Raise)    (* local variable topology is unbound *)
      | Some l => (mkst p' p' (offs s), Ok l)
      end
  end.

(* ------------------------------------------------------------------ gro.py *)
Definition gro_read (f : list A) (s : st) (n : option nat) (str : nat) (ai : asel) : st * res A :=
  (mkst (length f) (length f) (offs s), Ok (every str (map (app ai) (skipn (pos s) f)))).

(* ------------------------------------------------------------------ dtr.pyx *)
Definition dtr_read (f : list A) (s : st) (n : option nat) (str : nat) (ai : asel) : st * res A :=
  let T := length f in let c := cnt s in
  let last := Nat.min (c + (T - c) * str) T in
  let l := every str (span c last f) in
  (mkst (c + length l) (c + length l) (offs s), Ok (map (app ai) l)).

Definition dtr_seek (f : list A) (s : st) (k : nat) : option st :=
  let k' := Nat.min k (length f) in Some (mkst k' k' (offs s)).

(* ------------------------------------------------------------------ xtc.pyx / trr.pyx
   one iteration of the while loop per recursion step; m = iterations left; the result list is what
   remains after the final xyz[:n_read-1] trimming. *)
Fixpoint xtc_loop (m : nat) (eff : bool) (str T c p : nat) (f : list A) (ai : asel) : nat * nat * list A :=
  match m with
  | 0 => (c, p, [])
  | S m' =>
      let ok := p <? T in
      let x := app ai (nth p f junk) in
      let p1 := if ok then S p else p in
      if 1 <? str then
        if eff then
          if c + str <? T then
            if ok then let '(c3, p3, l) := xtc_loop m' eff str T (c + str) (c + str) f ai in (c3, p3, x :: l)
            else (c + str, c + str, [])
          else (c, p1, [x])               (* status = EOF; n_read += 1: the slot just filled is kept *)
        else
          let p2 := Nat.min (p1 + (str - 1)) T in
          if ok then let '(c3, p3, l) := xtc_loop m' eff str T c p2 f ai in (c3, p3, x :: l)
          else (c, p2, [])
      else
        if ok then let '(c3, p3, l) := xtc_loop m' eff str T c p1 f ai in (c3, p3, x :: l)
        else (c, p1, [])
  end.

(* read() with n_frames=None reads chunks of >= 100 frames until the status is EOF: for files
   with fewer than 100 frames that is one _read, and any m > T gives the same result *)
Definition xtc_read (f : list A) (s : st) (n : option nat) (str : nat) (ai : asel) : st * res A :=
  let T := length f in
  let eff := (1 <? str) && offs s in
  let m := match n with Some n => n | None => S T end in
  let '(c, p, l) := xtc_loop m eff str T (cnt s) (pos s) f ai in
  (mkst (if eff then c else c + length l) p (offs s), Ok l).

Definition xdr_seek (f : list A) (s : st) (k : nat) : option st :=
  if k <? length f then Some (mkst k k true) else None.      (* IOError: seek out of bounds *)

Fixpoint trr_loop (m : nat) (eff : bool) (str T c p : nat) (f : list A) (ai : asel)
  : nat * nat * list A * nat :=
  match m with
  | 0 => (c, p, [], 0)
  | S m' =>
      let ok := p <? T in
      let x := app ai (nth p f junk) in
      let p1 := if ok then S p else p in
      let '(c2, p2) := if 1 <? str
                       then if eff && (c + str <? T) then (c + str, c + str)
                            else (c, Nat.min (p1 + (str - 1)) T)
                       else (c, p1) in
      if ok then let '(c3, p3, l, i) := trr_loop m' eff str T c2 p2 f ai in (c3, p3, x :: l, S i)
      else (c2, p2, [], 1)
  end.

Definition trr_once (f : list A) (s : st) (m : nat) (str : nat) (ai : asel) : st * list A :=
  let T := length f in
  let eff := (1 <? str) && offs s in
  let '(c, p, l, i) := trr_loop m eff str T (cnt s) (pos s) f ai in
  (mkst (if eff then c else c + i) p (offs s), l).

(* read() with n_frames=None: _read(chunk >= 100) until a chunk comes back empty, then
   np.concatenate (ValueError when there was no chunk at all) *)
Fixpoint trr_all (fuel : nat) (f : list A) (s : st) (str : nat) (ai : asel) (acc : list A) : st * res A :=
  match fuel with
  | 0 => (s, Raise)
  | S fu => let '(s', l) := trr_once f s (S (length f)) str ai in
            match l with
            | [] => (s', match acc with [] => Raise | _ => Ok acc end)
            | _ => trr_all fu f s' str ai (acc ++ l)
            end
  end.

Definition trr_read (f : list A) (s : st) (n : option nat) (str : nat) (ai : asel) : st * res A :=
  match n with
  | Some n => let '(s', l) := trr_once f s n str ai in (s', Ok l)
  | None => trr_all (S (S (length f))) f s str ai []
  end.

(* ------------------------------------------------------------------ dispatch *)
Definition rd (fm : fam) : list A -> st -> option nat -> nat -> asel -> st * res A :=
  match fm with
  | FArr b => arr_read b
  | FNc => nc_read
  | FSeq => seq_read
  | FXtc => xtc_read
  | FTrr => trr_read
  | FGro => gro_read
  | FDtr => dtr_read
  | FArc => arc_read
  | FPdb _ => fun _ s _ _ _ => (s, Raise)
  | FSeqNoSeek => seq_read
  end.

Definition sk (fm : fam) : list A -> st -> nat -> option st :=
  match fm with
  | FArr _ | FNc => arr_seek
  | FSeq => seq_seek
  | FXtc | FTrr => xdr_seek
  | FDtr => dtr_seek
  | FGro | FArc | FPdb _ | FSeqNoSeek => fun _ _ _ => None     (* NotImplementedError *)
  end.

(* ------------------------------------------------------------------ mdtraj.load / load_frame
   load_<fmt>(filename, stride, atom_indices, frame): seek(frame); read_as_traj(1 | None, stride) *)
Definition load (fm : fam) (f : list A) (str : nat) (frame : option nat) (ai : asel) : res A :=
  match fm with
  | FPdb repaired =>
      match frame with
      | Some k => match ai, repaired with
                  | Some _, false => Raise      (* positions[[frame], atom_indices, :] is 2-d: assertion *)
                  | _, _ => match nth_error f k with Some x => Ok [app ai x] | None => Raise end
                  end
      | None => Ok (map (app ai) (every str f))
      end
  | _ =>
      match frame with
      | Some k => match sk fm f st0 k with
                  | Some s1 => snd (rd fm f s1 (Some 1) str ai)
                  | None => Raise
                  end
      | None => snd (rd fm f st0 None str ai)
      end
  end.

Definition load_frame (fm : fam) (f : list A) (k : nat) (ai : asel) : res A := load fm f 1 (Some k) ai.

(* ------------------------------------------------------------------ mdtraj.iterload *)
Fixpoint iter_loop (fuel : nat) (step : st -> st * res A) (s : st) : list (list A) * ending :=
  match fuel with
  | 0 => ([], Diverged)
  | S fu => match step s with
            | (_, Raise) => ([], Raised)
            | (_, Ok []) => ([], Fin)
            | (s', Ok l) => let '(ls, e) := iter_loop fu step s' in (l :: ls, e)
            end
  end.

Definition iterload (g : glue) (fm : fam) (f : list A) (c str k : nat) (ai : asel) (fuel : nat)
  : list (list A) * ending :=
  if c =? 0 then
    (* as found: stride and atom_indices were popped from kwargs and are not passed on *)
    if chunk0_fix g
    then match load fm f 1 None ai with Ok l => ([every str (skipn k l)], Fin) | Raise => ([], Raised) end
    else match load fm f 1 None None with Ok l => ([skipn k l], Fin) | Raise => ([], Raised) end
  else
    match fm with
    | FPdb _ =>
        if pdbiter_fix g
        then match load fm f 1 None ai with Ok l => (chunks c (every str (skipn k l)), Fin) | Raise => ([], Raised) end
        else match load fm f str None ai with Ok l => (chunks c l, Fin) | Raise => ([], Raised) end
    | _ =>
        match (if 0 <? k then sk fm f st0 k else Some st0) with
        | None => ([], Raised)
        | Some s1 => iter_loop fuel (fun s => rd fm f s (Some c) str ai) s1
        end
    end.

(* ------------------------------------------------------------------ mdtraj.load([f1; ...; fk]) *)
Fixpoint load_list (fm : fam) (fs : list (list A)) (str : nat) (ai : asel) : res A :=
  match fs with
  | [] => Raise
  | [f] => load fm f str None ai
  | f :: r => match load fm f str None ai, load_list fm r str ai with
              | Ok a, Ok b => Ok (a ++ b)
              | _, _ => Raise
              end
  end.

(* ------------------------------------------------------------------ the property (C02) *)
Definition spec_load (f : list A) (str : nat) (frame : option nat) (ai : asel) : res A :=
  match frame with
  | Some k => match nth_error f k with Some x => Ok [app ai x] | None => Raise end
  | None => Ok (map (app ai) (every str f))
  end.

Definition spec_iterload (f : list A) (c str k : nat) (ai : asel) : list (list A) * ending :=
  let l := map (app ai) (every str (skipn k f)) in
  (if c =? 0 then [l] else chunks c l, Fin).

Definition spec_load_list (fs : list (list A)) (str : nat) (ai : asel) : res A :=
  match fs with
  | [] => Raise
  | _ => Ok (concat (map (fun f => map (app ai) (every str f)) fs))
  end.

End Readers.

(* ================================================================== executable instance used by the
   correspondence: a frame is (identifier, atoms-were-subsetted) *)
Definition xframe := (nat * bool)%type.
Definition xjunk : xframe := (99, false).
Definition xsel (b : bool) : option (xframe -> xframe) := if b then Some (fun x => (fst x, true)) else None.
Definition xfile (base T : nat) : list xframe := map (fun i => (i, false)) (seq base T).

Definition xframe_eqb (m i : xframe) : bool :=
  (fst m =? 99) || ((fst m =? fst i) && Bool.eqb (snd m) (snd i)).     (* a junk frame of the model matches anything *)

Fixpoint list_eqb {X} (e : X -> X -> bool) (a b : list X) : bool :=
  match a, b with
  | [], [] => true
  | x :: r, y :: t => e x y && list_eqb e r t
  | _, _ => false
  end.

Definition ending_code (e : ending) : nat := match e with Fin => 0 | Raised => 1 | Diverged => 2 end.

Definition outcome := (list (list xframe) * nat)%type.
Definition outcome_eqb (m i : outcome) : bool :=
  list_eqb (list_eqb xframe_eqb) (fst m) (fst i) && (snd m =? snd i).

Definition of_res (r : res xframe) : outcome :=
  match r with Ok l => ([l], 0) | Raise => ([], 1) end.
Definition of_iter (r : list (list xframe) * ending) : outcome := (fst r, ending_code (snd r)).

Definition fam_of (v : nat) : fam :=
  match v with
  | 0 => FArr false | 1 => FArr true | 2 => FNc | 3 => FSeq | 4 => FXtc | 5 => FTrr
  | 6 => FGro | 7 => FDtr | 8 => FArc | 9 => FPdb false | 10 => FSeqNoSeek | _ => FPdb true
  end.
Definition glue_of (g : nat) : glue := mkglue (Nat.odd g) (Nat.odd (g / 2)).

(* kind: 0 load(stride, frame)  1 load_frame  2 iterload  3 load([..], stride)
   variant 100 = the property itself *)
Record xcase := mkcase { cv : nat; cg : nat; ckind : nat; cTs : list nat; cc : nat; cstr : nat; ck : nat;
                         cframe : option nat; cai : bool; cfuel : nat }.

Definition files_of (Ts : list nat) : list (list xframe) :=
  map (fun jt => xfile (10 * fst jt) (snd jt)) (combine (seq 0 (length Ts)) Ts).

Definition run_case (x : xcase) : outcome :=
  let fs := files_of (cTs x) in
  let f := hd [] fs in
  let ai := xsel (cai x) in
  if cv x =? 100 then
    match ckind x with
    | 0 => of_res (spec_load f (cstr x) (cframe x) ai)
    | 1 => of_res (spec_load f 1 (cframe x) ai)
    | 2 => of_iter (spec_iterload f (cc x) (cstr x) (ck x) ai)
    | _ => of_res (spec_load_list fs (cstr x) ai)
    end
  else
    let fm := fam_of (cv x) in
    match ckind x with
    | 0 => of_res (load xjunk fm f (cstr x) (cframe x) ai)
    | 1 => of_res (match cframe x with Some k => load_frame xjunk fm f k ai | None => Raise end)
    | 2 => of_iter (iterload xjunk (glue_of (cg x)) fm f (cc x) (cstr x) (ck x) ai (cfuel x))
    | _ => of_res (load_list xjunk fm fs (cstr x) ai)
    end.
