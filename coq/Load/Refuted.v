(* Witnesses: readers / glue as found that violate C02.  Each is checked by computation on the
   10-frame file [0;...;9]; replayed on the implementation each one is a finding. *)
From Coq Require Import List Arith Bool Lia.
Import ListNotations.
Require Import MD.Lib.Strided MD.Load.Model.

Definition f10 : list nat := seq 0 10.
Definition g00 := mkglue false false.
Definition g11 := mkglue true true.
Definition sel1 : option (nat -> nat) := Some (fun x => x + 100).   (* a visible atom selection *)

Ltac witness := repeat split;
  match goal with
  | |- _ <> _ => vm_compute; discriminate
  | |- _ = _ => vm_compute; reflexivity
  | |- _ => vm_compute; lia
  end.

(* hdf5 as found: iterload(chunk=3, stride=2) yields [0,2],[3,5],[6,8],[9] *)
Lemma arr_cur_iterload_refuted :
  exists f c s k, 1 <= c /\ 1 <= s /\ k <= length f /\
    iterload 99 g11 (FArr false) f c s k None (S (length f)) <> spec_iterload f c s k None.
Proof. exists f10, 3, 2, 0. witness. Qed.

(* xtc as found: after seek (skip > 0) with stride > 1 wrong frames ... *)
Lemma xtc_cur_iterload_refuted :
  exists f c s k, 1 <= c /\ 1 <= s /\ k < length f /\
    iterload 99 g11 FXtc f c s k None (S (length f)) <> spec_iterload f c s k None.
Proof. exists f10, 2, 3, 1. witness. Qed.

(* ... and the iteration never ends: for EVERY bound on the number of chunks the loop is still running *)
Lemma iter_fix_diverges {A} (step : st -> st * res A) s x l :
  step s = (s, Ok (x :: l)) -> forall fuel, snd (iter_loop fuel step s) = Diverged.
Proof.
  intros E. induction fuel as [|fu IH]; [reflexivity|].
  cbn [iter_loop]. rewrite E. destruct (iter_loop fu step s) as [ls e]. exact IH.
Qed.

Lemma iter_step_snd {A} (step : st -> st * res A) s s' x l fu :
  step s = (s', Ok (x :: l)) -> snd (iter_loop (S fu) step s) = snd (iter_loop fu step s').
Proof. intros E. cbn [iter_loop]. rewrite E. now destruct (iter_loop fu step s'). Qed.

Lemma xtc_cur_iterload_diverges :
  forall fuel, snd (iterload 99 g11 FXtc f10 2 3 1 None fuel) = Diverged.
Proof.
  intros fuel.
  set (step := fun s : st => rd 99 FXtc f10 s (Some 2) 3 None).
  change (snd (iter_loop fuel step (mkst 1 1 true)) = Diverged).
  assert (E1 : step (mkst 1 1 true) = (mkst 7 7 true, Ok [1; 4])) by (vm_compute; reflexivity).
  assert (E2 : step (mkst 7 7 true) = (mkst 7 8 true, Ok [7])) by (vm_compute; reflexivity).
  assert (E3 : step (mkst 7 8 true) = (mkst 7 9 true, Ok [8])) by (vm_compute; reflexivity).
  assert (E4 : step (mkst 7 9 true) = (mkst 7 10 true, Ok [9])) by (vm_compute; reflexivity).
  assert (E5 : step (mkst 7 10 true) = (mkst 7 10 true, Ok [99])) by (vm_compute; reflexivity).
  destruct fuel as [|fuel]; [reflexivity|]. rewrite (iter_step_snd step _ _ _ _ _ E1).
  destruct fuel as [|fuel]; [reflexivity|]. rewrite (iter_step_snd step _ _ _ _ _ E2).
  destruct fuel as [|fuel]; [reflexivity|]. rewrite (iter_step_snd step _ _ _ _ _ E3).
  destruct fuel as [|fuel]; [reflexivity|]. rewrite (iter_step_snd step _ _ _ _ _ E4).
  apply (iter_fix_diverges step _ _ _ E5).
Qed.

(* xtc and trr: skip = n_frames is refused (seek out of bounds) where the property promises an empty iteration *)
Lemma xdr_skip_all_refused :
  exists f c s, 1 <= c /\ 1 <= s /\
    iterload 99 g11 FTrr f c s (length f) None (S (length f)) <> spec_iterload f c s (length f) None /\
    iterload 99 g11 FXtc f c s (length f) None (S (length f)) <> spec_iterload f c s (length f) None.
Proof. exists f10, 4, 1. witness. Qed.

(* gro as found: read_as_traj drops n_frames (one chunk with everything); load_frame / skip refuse *)
Lemma gro_cur_iterload_refuted :
  exists f c s, 1 <= c /\ 1 <= s /\
    iterload 99 g11 FGro f c s 0 None (S (length f)) <> spec_iterload f c s 0 None.
Proof. exists f10, 3, 2. witness. Qed.

Lemma gro_cur_load_frame_refused :
  exists f k, k < length f /\ load_frame 99 FGro f k None = Raise /\
              fst (iterload 99 g11 FGro f 3 1 k None (S (length f))) = [] /\
              snd (iterload 99 g11 FGro f 3 1 k None (S (length f))) = Raised.
Proof. exists f10, 4. witness. Qed.

(* dtr as found: read_as_traj drops n_frames and counts frames returned, not frames passed *)
Lemma dtr_cur_load_frame_refuted :
  exists f k, k < length f /\ load_frame 99 FDtr f k None <> spec_load f 1 (Some k) None.
Proof. exists f10, 4. witness. Qed.

Lemma dtr_cur_iterload_refuted :
  exists f c s k, 1 <= c /\ 1 <= s /\ k <= length f /\
    iterload 99 g11 FDtr f c s k None (S (length f)) <> spec_iterload f c s k None.
Proof. exists f10, 3, 2, 0. witness. Qed.

(* arc as found: _EOF escapes when stride does not divide the frames left; every iteration ends with an
   exception; atom_indices and seek are refused *)
Lemma arc_cur_load_stride_refused :
  exists f s, 1 <= s /\ load 99 FArc f s None None = Raise.
Proof. exists f10, 3. witness. Qed.

Lemma arc_cur_iterload_raises_at_end :
  exists f c s, 1 <= c /\ 1 <= s /\
    fst (iterload 99 g11 FArc f c s 0 None (S (length f))) = fst (spec_iterload f c s 0 None) /\
    snd (iterload 99 g11 FArc f c s 0 None (S (length f))) = Raised.
Proof. exists f10, 3, 2. witness. Qed.

Lemma arc_cur_atoms_refused :
  exists f, load 99 FArc f 1 None sel1 = Raise /\ load_frame 99 FArc f 0 None = Raise.
Proof. exists f10. witness. Qed.

(* pdb as found: load(frame, atom_indices) trips an assertion; iterload ignores skip *)
Lemma pdb_cur_frame_atoms_refused :
  exists f k, k < length f /\ load_frame 99 (FPdb false) f k sel1 = Raise.
Proof. exists f10, 9. witness. Qed.

Lemma pdb_cur_iterload_ignores_skip :
  exists f c s k, 1 <= c /\ 1 <= s /\ k <= length f /\
    iterload 99 g00 (FPdb true) f c s k None (S (length f)) <> spec_iterload f c s k None.
Proof. exists f10, 2, 3, 1. witness. Qed.

(* trajectory.py as found, chunk = 0: stride and atom_indices are dropped (for every reader) *)
Lemma chunk0_cur_drops_stride :
  exists f s k, 1 <= s /\ k <= length f /\
    iterload 99 g00 FNc f 0 s k None (S (length f)) <> spec_iterload f 0 s k None.
Proof. exists f10, 2, 3. witness. Qed.

Lemma chunk0_cur_drops_atoms :
  exists f k, k <= length f /\
    iterload 99 g00 FNc f 0 1 k sel1 (S (length f)) <> spec_iterload f 0 1 k sel1.
Proof. exists f10, 3. witness. Qed.
