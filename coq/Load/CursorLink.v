(* C02 <-> C18: the reader families of MD.Load.Model, restricted to stride = 1 and no atom selection and driven
   by the operations of MD.Cursor.Model (read(n), read(), seek(k), seek(d,1), tell, len), refine the abstract
   cursor [spec_run] of MD.Cursor.Model on in-range histories.  So the two properties speak about one model:
   C18's cursor is the stride-1 shadow of C02's readers.
   (trr is left out on purpose: its tell() after a read that hits the end of the file is wrong - the C18 finding -;
   the frames it returns are covered by C02's own theorems.) *)
From Coq Require Import List Arith ZArith Bool Lia.
Import ListNotations.
Require Import MD.Lib.Strided.
Require MD.Cursor.Model MD.Cursor.Extended.
Require Import MD.Load.Model MD.Load.Lemmas MD.Load.Proofs MD.Load.Reflect MD.Load.ReflectProofs.

Module C := MD.Cursor.Model.
Module E := MD.Cursor.Extended.

Definition of_res (s0 : st) (r : st * res nat) : st * C.out :=
  match r with (s', Ok l) => (s', C.Frames l) | (_, Raise) => (s0, C.Err) end.

Definition lstep (fm : fam) (f : list nat) (s : st) (o : C.op) : st * C.out :=
  match o with
  | C.Read n => of_res s (rd 99 fm f s (Some n) 1 None)
  | C.ReadAll => of_res s (rd 99 fm f s None 1 None)
  | C.Seek k => match sk fm f s k with Some s' => (s', C.Done) | None => (s, C.Err) end
  | C.SeekRel d => if (Z.of_nat (cnt s) + d <? 0)%Z then (s, C.Err)
                   else match sk fm f s (Z.to_nat (Z.of_nat (cnt s) + d)) with
                        | Some s' => (s', C.Done) | None => (s, C.Err) end
  | C.Tell => (s, C.Pos (cnt s))
  | C.Len => (s, C.Pos (length f))
  end.

Fixpoint lrun (fm : fam) (f : list nat) (s : st) (ops : list C.op) : list C.out :=
  match ops with
  | [] => []
  | o :: r => let '(s', x) := lstep fm f s o in x :: lrun fm f s' r
  end.

Definition at_pos (s : st) (p : nat) : Prop := cnt s = p /\ pos s = p.

Lemma map_app_none (l : list nat) : map (app None) l = l.
Proof. induction l as [|x r IH]; [reflexivity|]. cbn [map app]. now rewrite IH. Qed.

Lemma firstn_skipn_rest (f : list nat) p : firstn (length f - p) (skipn p f) = skipn p f.
Proof. apply firstn_all2. rewrite skipn_length. lia. Qed.

Lemma seq_loop_one (f : list nat) n : forall p, p <= length f ->
  seq_loop n 1 p f None = (Nat.min (p + n) (length f), firstn n (skipn p f)).
Proof.
  induction n as [|n IH]; intros p Hp.
  - cbn [seq_loop firstn]. now rewrite Nat.add_0_r, Nat.min_l.
  - cbn [seq_loop]. destruct (nth_error f p) as [x|] eqn:E.
    + assert (Hlt : p < length f) by (apply nth_error_Some; congruence).
      replace (Nat.min (S p + (1 - 1)) (length f)) with (S p) by lia.
      rewrite IH by lia. rewrite (nth_error_skipn _ _ _ E). cbn [firstn app].
      f_equal. f_equal. lia.
    + apply nth_error_None in E. assert (p = length f) by lia. subst p.
      rewrite skipn_all, firstn_nil. f_equal. lia.
Qed.

Lemma xtc_loop_one (f : list nat) n : forall c p, p <= length f ->
  xtc_loop 99 n false 1 (length f) c p f None = (c, Nat.min (p + n) (length f), firstn n (skipn p f)).
Proof.
  induction n as [|n IH]; intros c p Hp.
  - cbn [xtc_loop firstn]. now rewrite Nat.add_0_r, Nat.min_l.
  - cbn [xtc_loop]. change (1 <? 1) with false. cbv iota.
    destruct (p <? length f) eqn:E.
    + apply Nat.ltb_lt in E. rewrite IH by lia.
      destruct (nth_error f p) as [x|] eqn:Ex; [|apply nth_error_None in Ex; lia].
      rewrite (nth_error_nth_some _ _ _ 99 Ex). rewrite (nth_error_skipn _ _ _ Ex). cbn [firstn app].
      f_equal. f_equal. lia.
    + apply Nat.ltb_ge in E. assert (p = length f) by lia. subst p.
      rewrite skipn_all, firstn_nil. f_equal. f_equal. lia.
Qed.

Definition linked (fm : fam) : Prop :=
  match fm with FArr _ | FNc | FSeq | FXtc => True | _ => False end.

(* one operation of the EXTENDED range (over-reads and reads at the end of the file included) from position p:
   the abstract cursor's output and its new position *)
Lemma lstep_ok fm (f : list nat) s p o : linked fm -> at_pos s p -> p <= length f ->
  E.ext_in_range (length f) p o = true ->
  exists s', lstep fm f s o = (s', C.spec_out f p o) /\ at_pos s' (C.spec_pos (length f) p o).
Proof.
  intros Hfm [Hc Hp] Hle Hr. destruct s as [c q b]. cbn [cnt pos] in Hc, Hp. subst c q.
  destruct o as [n| |k|d| |]; cbn [E.ext_in_range C.spec_out C.spec_pos lstep] in *.
  - (* read(n), 1 <= n, also past the end *)
    apply Nat.leb_le in Hr.
    destruct fm as [bb| | | | | | | |bb|]; cbn in Hfm; try contradiction; cbn [rd].
    + unfold arr_read. cbn [pos offs].
      replace (Nat.min (p + (if bb then n * 1 else n)) (length f)) with (Nat.min (p + n) (length f)) by (destruct bb; f_equal; lia).
      destruct (Nat.min (p + n) (length f) - p =? 0) eqn:E0.
      * apply Nat.eqb_eq in E0. assert (p = length f) by lia. subst p. cbn [of_res].
        rewrite skipn_all, firstn_nil. eexists. split; [reflexivity|]. split; cbn [cnt pos]; lia.
      * cbn [of_res]. eexists. split; [unfold span; now rewrite every_one, map_app_none, E.firstn_rest|].
        apply Nat.eqb_neq in E0. split; cbn [cnt pos]; lia.
    + unfold nc_read. cbn [pos offs]. destruct (length f <=? p) eqn:E0.
      * apply Nat.leb_le in E0. assert (p = length f) by lia. subst p. cbn [of_res].
        rewrite skipn_all, firstn_nil. eexists. split; [reflexivity|]. split; cbn [cnt pos]; lia.
      * apply Nat.leb_gt in E0. cbn [of_res].
        assert (Hw : firstn (Nat.min (n * 1) (length f)) (skipn p f) = firstn n (skipn p f)).
        { destruct (Nat.le_gt_cases n (length f)) as [Hn|Hn]; [f_equal; lia|].
          rewrite !firstn_all2; try reflexivity; rewrite skipn_length; lia. }
        eexists. split; [unfold span; replace (p + Nat.min (n * 1) (length f) - p) with (Nat.min (n * 1) (length f)) by lia;
                         now rewrite every_one, map_app_none, Hw|].
        split; cbn [cnt pos]; lia.
    + unfold seq_read. cbn [pos offs]. rewrite seq_loop_one by assumption. cbn [of_res].
      eexists. split; [reflexivity|]. split; cbn [cnt pos]; lia.
    + unfold xtc_read. cbn [cnt pos offs]. change (1 <? 1) with false. cbn [andb].
      rewrite xtc_loop_one by assumption. cbn [of_res].
      eexists. split; [reflexivity|]. split; cbn [cnt pos]; [|lia].
      rewrite firstn_length, skipn_length. lia.
  - (* read() *)
    destruct fm as [bb| | | | | | | |bb|]; cbn in Hfm; try contradiction; cbn [rd].
    + unfold arr_read. cbn [pos offs]. destruct (length f - p =? 0) eqn:E.
      * apply Nat.eqb_eq in E. assert (p = length f) by lia. subst p. cbn [of_res].
        rewrite skipn_all. eexists. split; [reflexivity|]. split; reflexivity.
      * apply Nat.eqb_neq in E. cbn [of_res].
        eexists. split; [unfold span; now rewrite every_one, map_app_none, firstn_skipn_rest|].
        split; cbn [cnt pos]; lia.
    + unfold nc_read. cbn [pos offs]. destruct (length f <=? p) eqn:E.
      * apply Nat.leb_le in E. assert (p = length f) by lia. subst p. cbn [of_res].
        rewrite skipn_all. eexists. split; [reflexivity|]. split; reflexivity.
      * apply Nat.leb_gt in E. cbn [of_res].
        assert (Hall : firstn (length f) (skipn p f) = skipn p f) by (apply firstn_all2; rewrite skipn_length; lia).
        eexists. split; [unfold span; replace (p + length f - p) with (length f) by lia;
                         now rewrite every_one, map_app_none, Hall|].
        split; reflexivity.
    + unfold seq_read. cbn [pos offs]. rewrite seq_loop_one by assumption. cbn [of_res].
      assert (Hall : firstn (S (length f)) (skipn p f) = skipn p f) by (apply firstn_all2; rewrite skipn_length; lia).
      rewrite Hall. eexists. split; [reflexivity|]. split; cbn [cnt pos]; lia.
    + unfold xtc_read. cbn [cnt pos offs]. change (1 <? 1) with false. cbn [andb].
      rewrite xtc_loop_one by assumption. cbn [of_res].
      assert (Hall : firstn (S (length f)) (skipn p f) = skipn p f) by (apply firstn_all2; rewrite skipn_length; lia).
      rewrite Hall. eexists. split; [reflexivity|]. split; cbn [cnt pos]; [|lia]. rewrite skipn_length. lia.
  - (* seek(k), k < T *)
    apply Nat.ltb_lt in Hr.
    destruct fm as [bb| | | | | | | |bb|]; cbn in Hfm; try contradiction; cbn [sk].
    + eexists. split; [reflexivity|split; reflexivity].
    + eexists. split; [reflexivity|split; reflexivity].
    + unfold seq_seek. replace (k <=? length f) with true by (symmetry; apply Nat.leb_le; lia).
      eexists. split; [reflexivity|split; reflexivity].
    + unfold xdr_seek. replace (k <? length f) with true by (symmetry; apply Nat.ltb_lt; lia).
      eexists. split; [reflexivity|split; reflexivity].
  - (* seek(d, 1), 0 <= p + d < T *)
    apply andb_true_iff in Hr as [H1 H2]. apply Z.leb_le in H1. apply Z.ltb_lt in H2. cbn [cnt].
    replace (Z.of_nat p + d <? 0)%Z with false by (symmetry; apply Z.ltb_ge; lia).
    set (k := Z.to_nat (Z.of_nat p + d)). assert (Hk : k < length f) by (unfold k; lia).
    destruct fm as [bb| | | | | | | |bb|]; cbn in Hfm; try contradiction; cbn [sk].
    + eexists. split; [reflexivity|split; reflexivity].
    + eexists. split; [reflexivity|split; reflexivity].
    + unfold seq_seek. replace (k <=? length f) with true by (symmetry; apply Nat.leb_le; lia).
      eexists. split; [reflexivity|split; reflexivity].
    + unfold xdr_seek. replace (k <? length f) with true by (symmetry; apply Nat.ltb_lt; lia).
      eexists. split; [reflexivity|split; reflexivity].
  - eexists. split; [reflexivity|split; reflexivity].
  - eexists. split; [reflexivity|split; reflexivity].
Qed.

Theorem load_readers_refine_cursor_ext fm (f : list nat) : linked fm -> forall ops s p,
  at_pos s p -> p <= length f -> E.all_ext_range (length f) p ops = true ->
  lrun fm f s ops = C.spec_run f p ops.
Proof.
  intros Hfm. induction ops as [|o r IH]; intros s p Hs Hp Hr; [reflexivity|].
  cbn [E.all_ext_range] in Hr. apply andb_true_iff in Hr as [Ho Hr].
  destruct (lstep_ok fm f s p o Hfm Hs Hp Ho) as (s' & Es & Hs').
  cbn [lrun C.spec_run]. rewrite Es. f_equal.
  apply IH; [assumption|now apply E.spec_pos_le_ext|assumption].
Qed.

Theorem load_readers_refine_cursor fm (f : list nat) : linked fm -> forall ops s p,
  at_pos s p -> p <= length f -> C.all_in_range (length f) p ops = true ->
  lrun fm f s ops = C.spec_run f p ops.
Proof.
  intros Hfm ops s p Hs Hp Hr. apply load_readers_refine_cursor_ext; try assumption. now apply E.all_in_range_ext.
Qed.

(* ================================================================== C18's per-run tie by translation.
   A reader description extracted from the Python source (MD.Load.Reflect.rterm, regenerated on every run in
   coq/Gen/LoadReaders.v) is assigned a cursor family of C18's FORMATS table; a description that gets one of the
   conforming families refines the abstract cursor on every ext-range history. *)
Definition cursor_family (r : rterm) : option nat :=
  match classify r with
  | Some (FArr true) => if r_tell_index r then Some 0 else None      (* arr  (h5)                 *)
  | Some FNc => if r_tell_index r then Some 4 else None              (* nc_fix                    *)
  | Some FSeq => if r_tell_index r then Some 1 else None             (* seq  (mdcrd, xyz, lammpstrj) *)
  | Some FSeqNoSeek => Some 7                                        (* sequential reads, seek / tell refuse (arc) *)
  | _ => None
  end.

Definition rstep (r : rterm) (f : list nat) (s : st) (o : C.op) : st * C.out :=
  match o with
  | C.Read n => of_res s (reader_sem r f s (Some n) 1 None)
  | C.ReadAll => of_res s (reader_sem r f s None 1 None)
  | C.Seek k => match reader_seek r f s k with Some s' => (s', C.Done) | None => (s, C.Err) end
  | C.SeekRel d => if (Z.of_nat (cnt s) + d <? 0)%Z then (s, C.Err)
                   else match reader_seek r f s (Z.to_nat (Z.of_nat (cnt s) + d)) with
                        | Some s' => (s', C.Done) | None => (s, C.Err) end
  | C.Tell => (s, if r_tell_index r then C.Pos (cnt s) else C.Err)
  | C.Len => (s, C.Pos (length f))
  end.

Fixpoint rrun (r : rterm) (f : list nat) (s : st) (ops : list C.op) : list C.out :=
  match ops with
  | [] => []
  | o :: t => let '(s', x) := rstep r f s o in x :: rrun r f s' t
  end.

Lemma cursor_family_conforming r v : cursor_family r = Some v -> v <> 7 ->
  exists fm, classify r = Some fm /\ linked fm /\ r_tell_index r = true.
Proof.
  unfold cursor_family. intros H Hv.
  destruct (classify r) as [[[|]| | | | | | | |b|]|] eqn:Ec; try discriminate;
    try (destruct (r_tell_index r); [|discriminate]; eexists; repeat split; exact I).
  inversion H. congruence.
Qed.

Theorem reflected_reader_refines_cursor r v (f : list nat) : cursor_family r = Some v -> v <> 7 ->
  forall ops s p, at_pos s p -> p <= length f -> E.all_ext_range (length f) p ops = true ->
  rrun r f s ops = C.spec_run f p ops.
Proof.
  intros Hv H7. destruct (cursor_family_conforming r v Hv H7) as (fm & Hc & Hl & Ht).
  destruct (classify_sound 99 r fm Hc) as [Hrd Hsk].
  induction ops as [|o t IH]; intros s p Hs Hp Hr; [reflexivity|].
  cbn [E.all_ext_range] in Hr. apply andb_true_iff in Hr as [Ho Hr].
  destruct (lstep_ok fm f s p o Hl Hs Hp Ho) as (s' & Es & Hs').
  assert (Esame : rstep r f s o = lstep fm f s o).
  { destruct Hs as [Hc1 Hp1]. assert (Hsy : cnt s = pos s) by congruence.
    destruct o; cbn [rstep lstep]; rewrite ?Hrd by lia; rewrite ?Hsk by assumption; rewrite ?Ht; reflexivity. }
  cbn [rrun C.spec_run]. rewrite Esame, Es. f_equal.
  apply IH; [assumption|now apply E.spec_pos_le_ext|assumption].
Qed.
