(* C02, second layer of the model (definitions only, no proofs): what md.load / md.iterload do AROUND the
   readers of Model.v.

   1. md.load([f1; ...; fk], discard_overlapping_frames=d, stride, atom_indices): every file goes through the
      loader with the same keyword arguments, in order; the results are joined by md.join, which is
      functools.reduce over Trajectory.join (a LEFT fold: ((t1 + t2) + t3) + ...).  Trajectory.join with
      discard_overlapping_frames compares the LAST frame of the left operand with the FIRST frame of the right
      operand ("all atoms within 2e-3 nm": [same]) and drops the last frame of the left operand when they agree;
      xyz[-1] / xyz[0] of an empty operand raise IndexError.
   2. dispatch by file extension: md.load (one file or a list) and the chunk == 0 / .pdb branches of iterload
      call _parse_topology(filename), which knows a fixed list of extensions ([top_by_ext] = false: the extension
      is registered with a loader and listed in _TOPOLOGY_EXTS but missing there - ".hdf5" as found); the
      streaming branch of iterload needs a file class registered for the extension (md.open; [has_fileobject] =
      false: ".stk" as found).  md.load_frame needs neither. *)
From Coq Require Import List Arith Bool.
Import ListNotations.
Require Import MD.Lib.Strided MD.Load.Model.

Record dispatch := mkdisp { top_by_ext : bool; has_fileobject : bool }.

Section Multi.
Context {A : Type}.
Variable junk : A.
Variable same : A -> A -> bool.        (* np.all(np.abs(x1 - x0) < 2e-3) of Trajectory.join *)

Fixpoint lasto (l : list A) : option A :=
  match l with
  | [] => None
  | x :: r => match r with [] => Some x | _ => lasto r end
  end.

Fixpoint droplast (l : list A) : list A :=
  match l with
  | [] => []
  | x :: r => match r with [] => [] | _ => x :: droplast r end
  end.

(* Trajectory.join(self = a, other = b, discard_overlapping_frames = d) *)
Definition join2 (d : bool) (a b : list A) : res A :=
  if d then
    match lasto a, b with
    | Some x, y :: _ => Ok ((if same x y then droplast a else a) ++ b)
    | _, _ => Raise
    end
  else Ok (a ++ b).

(* md.join(trajs, discard_overlapping_frames = d) = functools.reduce(join2 d, trajs) *)
Fixpoint join_all (d : bool) (acc : list A) (ts : list (list A)) : res A :=
  match ts with
  | [] => Ok acc
  | t :: r => match join2 d acc t with Ok a' => join_all d a' r | Raise => Raise end
  end.

Fixpoint load_each (fm : fam) (fs : list (list A)) (str : nat) (ai : option (A -> A)) : option (list (list A)) :=
  match fs with
  | [] => Some []
  | f :: r => match load junk fm f str None ai, load_each fm r str ai with
              | Ok l, Some ls => Some (l :: ls)
              | _, _ => None
              end
  end.

Definition load_list_d (d : bool) (fm : fam) (fs : list (list A)) (str : nat) (ai : option (A -> A)) : res A :=
  match load_each fm fs str ai with
  | Some (t :: ts) => join_all d t ts
  | _ => Raise
  end.

(* the property: "loading a list of files equals joining the individual loads" (each of them the strided,
   atom-sliced full file) *)
Definition spec_load_list_d (d : bool) (fs : list (list A)) (str : nat) (ai : option (A -> A)) : res A :=
  let L := fun f => map (app ai) (every str f) in
  match fs with
  | [] => Raise
  | f :: r => join_all d (L f) (map L r)
  end.

(* what discarding is for: a run written as consecutive segments, each starting with the last frame of the one
   before.  [chain x segs]: the first segment starts with x, the next with the last frame of the first, ... *)
Fixpoint chain (x : A) (segs : list (list A)) : Prop :=
  match segs with
  | [] => True
  | s :: r => match s with
              | [] => False
              | y :: _ => y = x /\ match lasto s with Some z => chain z r | None => False end
              end
  end.

(* no junction looks like an overlap *)
Fixpoint separated (x : A) (ts : list (list A)) : Prop :=
  match ts with
  | [] => True
  | t :: r => match t with
              | [] => False
              | y :: _ => same x y = false /\ match lasto t with Some z => separated z r | None => False end
              end
  end.

(* ---- dispatch by extension *)
Definition md_load (dp : dispatch) (fm : fam) (f : list A) (str : nat) (frame : option nat) (ai : option (A -> A))
  : res A :=
  if top_by_ext dp then load junk fm f str frame ai else Raise.

Definition md_load_list (dp : dispatch) (d : bool) (fm : fam) (fs : list (list A)) (str : nat) (ai : option (A -> A))
  : res A :=
  if top_by_ext dp then load_list_d d fm fs str ai else Raise.

Definition calls_load (fm : fam) (c : nat) : bool :=
  (c =? 0) || match fm with FPdb _ => true | _ => false end.

Definition md_iterload (dp : dispatch) (g : glue) (fm : fam) (f : list A) (c str k : nat) (ai : option (A -> A))
  (fuel : nat) : list (list A) * ending :=
  if (if calls_load fm c then top_by_ext dp else has_fileobject dp)
  then iterload junk g fm f c str k ai fuel
  else ([], Raised).

End Multi.

(* ================================================================== executable instance (correspondence) *)
Definition disp_ok := mkdisp true true.

Record xcase2 := mkcase2 { c2 : xcase; c2bases : list nat; c2disc : bool }.

Definition files_at (bases Ts : list nat) : list (list xframe) :=
  map (fun bt => xfile (fst bt) (snd bt)) (combine bases Ts).

Definition xsame (a b : xframe) : bool := (fst a =? fst b) && Bool.eqb (snd a) (snd b).

(* the glue number carries the dispatch variant in bits 2 and 3 (set = as found / broken) *)
Definition disp_of (g : nat) : dispatch := mkdisp (negb (Nat.odd (g / 4))) (negb (Nat.odd (g / 8))).

Definition run_case2 (y : xcase2) : outcome :=
  let x := c2 y in
  let fs := match c2bases y with [] => files_of (cTs x) | b => files_at b (cTs x) end in
  let f := hd [] fs in
  let ai := xsel (cai x) in
  if cv x =? 100 then
    match ckind x with
    | 0 | 1 | 2 => run_case x
    | _ => of_res (spec_load_list_d xsame (c2disc y) fs (cstr x) ai)
    end
  else
    let fm := fam_of (cv x) in
    let dp := disp_of (cg x) in
    match ckind x with
    | 0 => of_res (md_load xjunk dp fm f (cstr x) (cframe x) ai)
    | 1 => run_case x
    | 2 => of_iter (md_iterload xjunk dp (glue_of (cg x)) fm f (cc x) (cstr x) (ck x) ai (cfuel x))
    | _ => of_res (md_load_list xjunk xsame dp (c2disc y) fm fs (cstr x) ai)
    end.
