(* List facts for C02: how [every] (l[::s]) interacts with firstn / skipn, and the chunking of a list. *)
From Coq Require Import List Arith Bool Lia.
Import ListNotations.
Require Import MD.Lib.Strided MD.Load.Model.

Section Lists.
Context {A : Type}.
Implicit Types (x y : A) (l r t : list A).

Lemma skipn_skipn a b l : skipn a (skipn b l) = skipn (b + a) l.
Proof.
  revert l; induction b as [|b IH]; intros l; [reflexivity|].
  destruct l as [|x r]; [now rewrite !skipn_nil|]. cbn [Nat.add skipn]. apply IH.
Qed.

Lemma skipn_min_len a l : skipn (Nat.min a (length l)) l = skipn a l.
Proof.
  destruct (Nat.le_gt_cases a (length l)) as [H|H].
  - now rewrite Nat.min_l.
  - rewrite Nat.min_r by lia. rewrite skipn_all. symmetry. apply skipn_all2. lia.
Qed.

Lemma firstn_min_len a l : firstn (Nat.min a (length l)) l = firstn a l.
Proof.
  destruct (Nat.le_gt_cases a (length l)) as [H|H].
  - now rewrite Nat.min_l.
  - rewrite Nat.min_r by lia. rewrite firstn_all. symmetry. apply firstn_all2. lia.
Qed.

Lemma firstn_ge_all a b l : length l <= a -> length l <= b -> firstn a l = firstn b l.
Proof. intros Ha Hb. now rewrite !firstn_all2. Qed.

Lemma nth_error_skipn p l x : nth_error l p = Some x -> skipn p l = x :: skipn (S p) l.
Proof.
  revert l; induction p as [|p IH]; intros l E; destruct l as [|y t]; simpl in *; try discriminate.
  - now inversion E.
  - now apply IH.
Qed.

Lemma nth_error_nth_some p l x d : nth_error l p = Some x -> nth p l d = x.
Proof.
  revert l; induction p as [|p IH]; intros l E; destruct l as [|y t]; simpl in *; try discriminate.
  - now inversion E.
  - now apply IH.
Qed.

(* ------------------------------------------------------------------ every *)
Lemma every_nil s : every s (@nil A) = [].
Proof. reflexivity. Qed.

Lemma every_cons_skip s x r : every s (x :: r) = x :: every s (skipn (s - 1) r).
Proof.
  rewrite every_cons. f_equal. unfold every.
  destruct (Nat.le_gt_cases (s - 1) (length r)) as [H|H].
  - now apply every_from_skip.
  - rewrite every_from_short by lia. rewrite skipn_all2 by lia. reflexivity.
Qed.

Lemma every_map {B} (g : A -> B) s l : every s (map g l) = map g (every s l).
Proof. apply every_from_map. Qed.

Lemma length_every_le s l : length (every s l) <= length l.
Proof. apply length_every_from_le. Qed.

Lemma every_nonempty s x r : every s (x :: r) <> [].
Proof. rewrite every_cons. discriminate. Qed.

(* skipn 1 (l[::s]) = (l[s:])[::s] *)
Lemma tl_every s l : 1 <= s -> skipn 1 (every s l) = every s (skipn s l).
Proof.
  intros Hs. destruct l as [|x r]; [rewrite (skipn_nil A s); reflexivity|].
  rewrite every_cons_skip. cbn [skipn]. destruct s as [|s]; [lia|].
  cbn [skipn]. replace (S s - 1) with s by lia. reflexivity.
Qed.

(* (l[::s])[n:] = (l[n*s:])[::s] *)
Lemma skipn_every s n l : 1 <= s -> skipn n (every s l) = every s (skipn (n * s) l).
Proof.
  intros Hs. revert l; induction n as [|n IH]; intros l; [reflexivity|].
  replace (skipn (S n) (every s l)) with (skipn n (skipn 1 (every s l))) by (rewrite skipn_skipn; reflexivity).
  rewrite tl_every by assumption. rewrite IH. rewrite skipn_skipn. reflexivity.
Qed.

(* (l[::s])[:n] = (l[:n*s])[::s] *)
Lemma firstn_every s n l : 1 <= s -> firstn n (every s l) = every s (firstn (n * s) l).
Proof.
  intros Hs. revert l; induction n as [|n IH]; intros l; [reflexivity|].
  destruct l as [|x r]; [destruct (S n * s); reflexivity|].
  rewrite every_cons_skip. cbn [firstn]. rewrite IH.
  replace (S n * s) with (S (s - 1 + n * s)) by (cbn; lia). cbn [firstn].
  rewrite every_cons_skip. f_equal. f_equal.
  rewrite skipn_firstn_comm. f_equal. lia.
Qed.

(* any window between (n-1)*s+1 and n*s elements gives the same first n strided elements; we only need: *)
Lemma every_firstn_enough s m l : length l <= m -> every s (firstn m l) = every s l.
Proof. intros H. now rewrite firstn_all2. Qed.

Lemma length_every s l : 1 <= s -> length (every s l) = (length l + s - 1) / s.
Proof.
  intros Hs. remember (length l) as n eqn:Hn. revert l Hn.
  induction n as [n IH] using lt_wf_ind. intros l Hn.
  destruct l as [|x r]; cbn [length] in Hn.
  - subst n. cbn. symmetry. apply Nat.div_small. lia.
  - rewrite every_cons_skip. cbn [length].
    rewrite (IH (length (skipn (s - 1) r))) with (l := skipn (s - 1) r); [|rewrite skipn_length; lia|reflexivity].
    rewrite skipn_length. subst n.
    destruct (Nat.le_gt_cases (s - 1) (length r)) as [H|H].
    + replace (S (length r) + s - 1) with (length r - (s - 1) + s - 1 + 1 * s) by lia.
      rewrite Nat.div_add by lia. lia.
    + replace (length r - (s - 1)) with 0 by lia.
      rewrite (Nat.div_small (0 + s - 1)) by lia.
      assert (E : (S (length r) + s - 1) / s = 1).
      { replace (S (length r) + s - 1) with (length r + 1 * s) by lia. rewrite Nat.div_add by lia.
        rewrite Nat.div_small by lia. reflexivity. }
      lia.
Qed.

(* ------------------------------------------------------------------ chunks *)
Lemma chunks_fuel_indep c : 1 <= c -> forall f1 f2 l, length l <= f1 -> length l <= f2 ->
  chunks_fuel f1 c l = chunks_fuel f2 c l.
Proof.
  intros Hc. induction f1 as [|f1 IH]; intros f2 l H1 H2.
  - destruct l; [destruct f2; reflexivity|cbn in H1; lia].
  - destruct l as [|x r]; [destruct f2; reflexivity|].
    destruct f2 as [|f2]; [cbn in H2; lia|]. cbn [chunks_fuel]. f_equal.
    apply IH; rewrite skipn_length; cbn [length] in *; lia.
Qed.

Lemma chunks_fuel_enough c : 1 <= c -> forall fuel l, length l <= fuel ->
  chunks_fuel fuel c l = chunks_fuel (length l) c l.
Proof. intros Hc fuel l H. apply chunks_fuel_indep; [assumption|assumption|lia]. Qed.

Lemma chunks_nil c : chunks c (@nil A) = [].
Proof. reflexivity. Qed.

Lemma chunks_unfold c x r : 1 <= c -> chunks c (x :: r) = firstn c (x :: r) :: chunks c (skipn c (x :: r)).
Proof.
  intros Hc. unfold chunks at 1. cbn [length chunks_fuel]. f_equal.
  apply chunks_fuel_enough; [assumption|]. rewrite skipn_length. cbn [length]. lia.
Qed.

Lemma concat_chunks c l : 1 <= c -> concat (chunks c l) = l.
Proof.
  intros Hc. remember (length l) as n eqn:Hn. revert l Hn.
  induction n as [n IH] using lt_wf_ind. intros l Hn.
  destruct l as [|x r]; [reflexivity|].
  rewrite chunks_unfold by assumption. cbn [concat].
  rewrite (IH (length (skipn c (x :: r)))); [apply firstn_skipn| |reflexivity].
  rewrite skipn_length. subst n. cbn [length]. lia.
Qed.

(* every chunk is non-empty, has at most c elements, and all but the last have exactly c *)
Fixpoint sizes_ok (c : nat) (ls : list (list A)) : Prop :=
  match ls with
  | [] => True
  | [a] => 1 <= length a <= c
  | a :: r => length a = c /\ sizes_ok c r
  end.

Lemma chunks_sizes c l : 1 <= c -> sizes_ok c (chunks c l).
Proof.
  intros Hc. remember (length l) as n eqn:Hn. revert l Hn.
  induction n as [n IH] using lt_wf_ind. intros l Hn.
  destruct l as [|x r]; [exact I|].
  rewrite chunks_unfold by assumption.
  assert (Hrec : sizes_ok c (chunks c (skipn c (x :: r)))).
  { apply (IH (length (skipn c (x :: r)))); [|reflexivity]. rewrite skipn_length. subst n. cbn [length]. lia. }
  destruct (skipn c (x :: r)) as [|y t] eqn:E.
  - rewrite chunks_nil. cbn [sizes_ok]. rewrite firstn_length. cbn [length]. lia.
  - rewrite chunks_unfold in * by assumption. cbn [sizes_ok]. split; [|exact Hrec].
    rewrite firstn_length. apply Nat.min_l.
    assert (Hl : length (skipn c (x :: r)) = length (y :: t)) by now rewrite E.
    rewrite skipn_length in Hl. cbn [length] in *. lia.
Qed.

Lemma length_chunks c l : 1 <= c -> length (chunks c l) = (length l + c - 1) / c.
Proof.
  intros Hc. remember (length l) as n eqn:Hn. revert l Hn.
  induction n as [n IH] using lt_wf_ind. intros l Hn.
  destruct l as [|x r].
  - subst n. cbn. symmetry. apply Nat.div_small. lia.
  - rewrite chunks_unfold by assumption. cbn [length].
    rewrite (IH (length (skipn c (x :: r)))) with (l := skipn c (x :: r)); [| |reflexivity].
    2:{ rewrite skipn_length. subst n. cbn [length]. lia. }
    rewrite skipn_length. subst n. cbn [length].
    destruct (Nat.le_gt_cases c (S (length r))) as [H|H].
    + replace (S (length r) + c - 1) with (S (length r) - c + c - 1 + 1 * c) by lia.
      rewrite Nat.div_add by lia. lia.
    + replace (S (length r) - c) with 0 by lia. rewrite (Nat.div_small (0 + c - 1)) by lia.
      replace (S (length r) + c - 1) with (length r + 1 * c) by lia. rewrite Nat.div_add by lia.
      rewrite Nat.div_small by lia. reflexivity.
Qed.

End Lists.

Lemma chunks_fuel_map {A B} (g : A -> B) c fuel (l : list A) :
  chunks_fuel fuel c (map g l) = map (map g) (chunks_fuel fuel c l).
Proof.
  revert l; induction fuel as [|fu IH]; intros l; [reflexivity|].
  destruct l as [|x r]; [reflexivity|]. cbn [map chunks_fuel].
  change (g x :: map g r) with (map g (x :: r)).
  rewrite firstn_map, skipn_map, IH. reflexivity.
Qed.

Lemma chunks_map_eq {A B} (g : A -> B) c (l : list A) : chunks c (map g l) = map (map g) (chunks c l).
Proof. unfold chunks. rewrite map_length. apply chunks_fuel_map. Qed.
