(* Reflection for the list-loading layer (definitions only): terms the translator of harness/props/C02.py extracts from
   md.load (tail: loop over the remaining files, join), md.join (functools.reduce) and Trajectory.join (the
   discard_overlapping_frames block), with a semantics for EVERY term - a term that differs from the code as
   modelled denotes a different function - and the checkers that accept exactly the terms denoting MultiModel.v. *)
From Coq Require Import List Arith Bool.
Import ListNotations.
Require Import MD.Lib.Strided MD.Load.Model MD.Load.MultiModel.

(* ---- Trajectory.join, discard block:
        x0 = trajectories[i].xyz[<j_left>]; x1 = trajectories[i + 1].xyz[<j_right>]
        if np.<all|any>(np.abs?(x1 - x0) < <j_thr> * 1e-4): <trim> *)
Inductive jframe := JLast | JFirst | JOther.
Inductive jtrim := TrimLeftLast | TrimRightFirst | TrimOther.
Record jterm := mkjterm { j_left : jframe; j_right : jframe; j_abs : bool; j_all : bool; j_thr : nat;
                          j_trim : jtrim; j_guarded : bool }.

(* ---- md.load tail + md.join *)
Record mlterm := mkmlterm { ml_same_kwargs : bool;     (* every later file: loader(f, ** kwargs) with the kwargs of the first *)
                          ml_file_order : bool;      (* appended in file order *)
                          ml_joined : bool;          (* return join(trajectories, ...) *)
                          ml_discard_passed : bool;  (* discard_overlapping_frames handed on to join and on to Trajectory.join *)
                          ml_reduce_left : bool      (* functools.reduce(lambda x, y: x.join(y, ...), trajs) *) }.

Section Sem.
Context {A : Type}.
Variable junk : A.
Variable same : A -> A -> bool.     (* the test as modelled: all atoms, absolute difference, below 2e-3 nm *)
Variable other : A -> A -> bool.    (* whatever a different test computes *)

Definition pick (w : jframe) (l : list A) : option A :=
  match w with JLast => lasto l | JFirst => hd_error l | JOther => None end.

Definition join2_sem (j : jterm) (d : bool) (a b : list A) : res A :=
  if d || negb (j_guarded j) then
    match pick (j_left j) a, pick (j_right j) b with
    | Some x, Some y =>
        let hit := if j_abs j && j_all j && (j_thr j =? 20) then same x y else other x y in
        if hit then
          match j_trim j with
          | TrimLeftLast => Ok (droplast a ++ b)
          | TrimRightFirst => Ok (a ++ tl b)
          | TrimOther => Ok (a ++ b)
          end
        else Ok (a ++ b)
    | _, _ => Raise
    end
  else Ok (a ++ b).

Fixpoint fold_left_sem (j : jterm) (d : bool) (acc : list A) (ts : list (list A)) : res A :=
  match ts with
  | [] => Ok acc
  | t :: r => match join2_sem j d acc t with Ok a' => fold_left_sem j d a' r | Raise => Raise end
  end.

Fixpoint fold_right_sem (j : jterm) (d : bool) (t : list A) (ts : list (list A)) : res A :=
  match ts with
  | [] => Ok t
  | u :: r => match fold_right_sem j d u r with Ok b => join2_sem j d t b | Raise => Raise end
  end.

Definition list_sem (m : mlterm) (j : jterm) (d : bool) (fm : fam) (fs : list (list A)) (str : nat)
  (ai : option (A -> A)) : res A :=
  match fs with
  | [] => Raise
  | f :: r =>
      let r' := if ml_file_order m then r else rev r in
      let later := if ml_same_kwargs m then load_each junk fm r' str ai else load_each junk fm r' 1 None in
      match load junk fm f str None ai, later with
      | Ok t, Some ts =>
          match ts with
          | [] => Ok t
          | _ => if ml_joined m
                 then let d' := d && ml_discard_passed m in
                      if ml_reduce_left m then fold_left_sem j d' t ts else fold_right_sem j d' t ts
                 else Ok t
          end
      | _, _ => Raise
      end
  end.

End Sem.

Definition check_join (j : jterm) : bool :=
  match j_left j, j_right j, j_trim j with
  | JLast, JFirst, TrimLeftLast => j_abs j && j_all j && (j_thr j =? 20) && j_guarded j
  | _, _, _ => false
  end.

Definition check_list (m : mlterm) : bool :=
  ml_same_kwargs m && ml_file_order m && ml_joined m && ml_discard_passed m && ml_reduce_left m.

(* hand-kept copies, used when the source no longer parses (degraded: the correspondence alone ties the model) *)
Definition ref_jterm : jterm := mkjterm JLast JFirst true true 20 TrimLeftLast true.
Definition ref_mlterm : mlterm := mkmlterm true true true true true.
