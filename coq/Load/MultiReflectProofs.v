(* Soundness of the checkers of MultiReflect.v: an accepted term denotes exactly the model of MultiModel.v. *)
From Coq Require Import List Arith Bool Lia.
Import ListNotations.
Require Import MD.Lib.Strided MD.Load.Model MD.Load.Theorems MD.Load.MultiModel MD.Load.MultiProofs MD.Load.MultiReflect.

Section S.
Context {A : Type}.
Variable junk : A.
Variables same other : A -> A -> bool.

Theorem join_reflection j : check_join j = true ->
  forall d (a b : list A), join2_sem same other j d a b = join2 same d a b.
Proof.
  intros H d a b. destruct j as [l r ab al th tr g]. unfold check_join in H. cbn in H.
  destruct l, r, tr; try discriminate.
  apply andb_prop in H. destruct H as [H Hg]. apply andb_prop in H. destruct H as [H Hth].
  apply andb_prop in H. destruct H as [Hab Hal]. subst ab al g.
  unfold join2_sem, join2. cbn [j_left j_right j_abs j_all j_thr j_trim j_guarded pick negb andb].
  rewrite Hth, orb_false_r. destruct d; [|reflexivity].
  destruct (lasto a) as [x|]; [|reflexivity]. destruct b as [|y b']; [reflexivity|].
  cbn [hd_error]. destruct (same x y); reflexivity.
Qed.

Lemma fold_left_reflection j : check_join j = true ->
  forall d ts (acc : list A), fold_left_sem same other j d acc ts = join_all same d acc ts.
Proof.
  intros H d ts. induction ts as [|t r IH]; intros acc; [reflexivity|].
  cbn [fold_left_sem join_all]. rewrite (join_reflection j H).
  destruct (join2 same d acc t); [apply IH|reflexivity].
Qed.

Theorem list_reflection m j : check_list m = true -> check_join j = true ->
  forall d fm (fs : list (list A)) str ai,
  list_sem junk same other m j d fm fs str ai = load_list_d junk same d fm fs str ai.
Proof.
  intros Hm Hj d fm fs str ai. destruct m as [k o jn dp rl]. unfold check_list in Hm. cbn in Hm.
  apply andb_prop in Hm. destruct Hm as [Hm Hrl]. apply andb_prop in Hm. destruct Hm as [Hm Hdp].
  apply andb_prop in Hm. destruct Hm as [Hm Hjn]. apply andb_prop in Hm. destruct Hm as [Hk Ho]. subst k o jn dp rl.
  unfold list_sem, load_list_d. cbn [ml_same_kwargs ml_file_order ml_joined ml_discard_passed ml_reduce_left].
  destruct fs as [|f r]; [reflexivity|]. cbn [load_each].
  destruct (load junk fm f str None ai) as [t|]; [|reflexivity].
  destruct (load_each junk fm r str ai) as [ts|]; [|reflexivity].
  destruct ts as [|u us]; [reflexivity|].
  rewrite andb_true_r. apply (fold_left_reflection j Hj).
Qed.

Theorem list_reflection_satisfies_C02 m j : check_list m = true -> check_join j = true ->
  forall d fm (fs : list (list A)) str ai, stride_ok fm -> 1 <= str -> fs <> [] ->
  (fm = FTrr -> forall f, In f fs -> f <> []) ->
  list_sem junk same other m j d fm fs str ai = spec_load_list_d same d fs str ai.
Proof.
  intros Hm Hj d fm fs str ai Hok Hs Hne Htrr. rewrite (list_reflection m j Hm Hj).
  now apply load_list_d_join.
Qed.

End S.

(* terms that differ denote different functions: trimming the right operand's first frame keeps the earlier copy
   (visible through time stamps), a right fold compares other junction frames *)
Lemma trim_right_differs :
  join2_sem nsame nsame (mkjterm JLast JFirst true true 20 TrimRightFirst true) true [0; 1] [1; 2] = Ok [0; 1; 2] /\
  join2_sem (fun a b : nat * nat => fst a =? fst b) (fun _ _ => false)
            (mkjterm JLast JFirst true true 20 TrimRightFirst true) true [(0, 0); (1, 1)] [(1, 0); (2, 1)]
    <> join2 (fun a b : nat * nat => fst a =? fst b) true [(0, 0); (1, 1)] [(1, 0); (2, 1)].
Proof. split; [reflexivity|vm_compute; discriminate]. Qed.

Lemma discard_not_passed_differs :
  list_sem 99 nsame nsame (mkmlterm true true true false true) ref_jterm true FNc [[0; 1]; [1; 2]] 1 None
    <> spec_load_list_d nsame true [[0; 1]; [1; 2]] 1 None.
Proof. vm_compute. discriminate. Qed.
