(* Proofs about the partial-loading model (C02).

   Central notion: a reader is "right" when one read_as_traj(c, str) from a state whose position is p
   returns the first c elements of  A(p) := map sel ((f[p:])[::str])  and moves to a state p' with
   A(p') = A(p)[c:].  For such a reader iterload is the chunking of A(skip), load_frame is the singleton
   of the frame, and everything in C02 follows. *)
From Coq Require Import List Arith Bool Lia.
Import ListNotations.
Require Import MD.Lib.Strided MD.Load.Model MD.Load.Lemmas.

Section P.
Context {A : Type}.
Variable junk : A.
Implicit Types (f l r : list A) (ai : option (A -> A)) (s : st).

Definition absf f (str : nat) ai (p : nat) : list A := map (app ai) (every str (skipn p f)).

Lemma absf_beyond f str ai p : length f <= p -> absf f str ai p = [].
Proof. intros H. unfold absf. now rewrite skipn_all2. Qed.

Lemma absf_cons f str ai p x : 1 <= str -> nth_error f p = Some x ->
  absf f str ai p = app ai x :: absf f str ai (p + str).
Proof.
  intros Hs E. unfold absf. rewrite (nth_error_skipn _ _ _ E). rewrite every_cons_skip. cbn [map].
  rewrite skipn_skipn. replace (S p + (str - 1)) with (p + str) by lia. reflexivity.
Qed.

Lemma absf_skip f str ai p c : 1 <= str -> skipn c (absf f str ai p) = absf f str ai (p + c * str).
Proof. intros Hs. unfold absf. rewrite skipn_map, skipn_every by assumption. now rewrite skipn_skipn. Qed.

Lemma absf_first f str ai p c : 1 <= str ->
  firstn c (absf f str ai p) = map (app ai) (every str (firstn (c * str) (skipn p f))).
Proof. intros Hs. unfold absf. now rewrite firstn_map, firstn_every. Qed.

Lemma absf_min f str ai p : absf f str ai (Nat.min p (length f)) = absf f str ai p.
Proof. unfold absf. now rewrite skipn_min_len. Qed.

Lemma absf_nil_iff f str ai p : absf f str ai p = [] <-> length f <= p.
Proof.
  split; [|apply absf_beyond]. intros H. unfold absf in H.
  destruct (skipn p f) as [|x r] eqn:E.
  - assert (L : length (skipn p f) = 0) by now rewrite E. rewrite skipn_length in L. lia.
  - rewrite every_cons in H. discriminate.
Qed.

(* ------------------------------------------------------------------ right readers *)
Definition right_reader (fm : fam) (I : list A -> nat -> st -> Prop) : Prop :=
  forall f c str ai s, 1 <= c -> 1 <= str -> I f str s ->
    exists s', rd junk fm f s (Some c) str ai = (s', Ok (firstn c (absf f str ai (pos s)))) /\
               I f str s' /\ absf f str ai (pos s') = skipn c (absf f str ai (pos s)).

Lemma iter_loop_chunks (step : st -> st * res A) (ab : st -> list A) (I : st -> Prop) c :
  1 <= c ->
  (forall s, I s -> exists s', step s = (s', Ok (firstn c (ab s))) /\ I s' /\ ab s' = skipn c (ab s)) ->
  forall fuel s, I s -> length (ab s) < fuel -> iter_loop fuel step s = (chunks c (ab s), Fin).
Proof.
  intros Hc Hstep. induction fuel as [|fu IH]; intros s Hs Hf; [lia|].
  cbn [iter_loop]. destruct (Hstep s Hs) as (s' & E & Hs' & Hab). rewrite E.
  destruct (ab s) as [|x r] eqn:Eab.
  - rewrite firstn_nil. reflexivity.
  - destruct c as [|c]; [lia|]. cbn [firstn].
    rewrite IH; [| assumption |].
    + rewrite Hab. rewrite chunks_unfold by lia. reflexivity.
    + rewrite Hab. rewrite skipn_length. cbn [length] in *. lia.
Qed.

(* iterload of a right reader = chunking of the strided, skipped, atom-sliced file *)
Lemma iterload_right fm I g : right_reader fm I ->
  (forall b, fm <> FPdb b) ->
  forall f c str k ai fuel s1, 1 <= c -> 1 <= str ->
    (if 0 <? k then sk fm f st0 k else Some st0) = Some s1 -> pos s1 = k -> I f str s1 ->
    length f < fuel ->
    iterload junk g fm f c str k ai fuel = (chunks c (absf f str ai k), Fin).
Proof.
  intros HR Hpdb f c str k ai fuel s1 Hc Hs Hsk Hpos HI Hf.
  unfold iterload. replace (c =? 0) with false by (symmetry; apply Nat.eqb_neq; lia).
  assert (E : iter_loop fuel (fun s => rd junk fm f s (Some c) str ai) s1 = (chunks c (absf f str ai k), Fin)).
  { rewrite <- Hpos.
    apply (iter_loop_chunks _ (fun s => absf f str ai (pos s)) (I f str) c Hc); [|assumption|].
    - intros s HIs. apply HR; assumption.
    - unfold absf. rewrite map_length. eapply Nat.le_lt_trans; [apply length_every_le|].
      rewrite skipn_length. lia. }
  destruct fm; try (rewrite Hsk; exact E). exfalso. eapply Hpdb. reflexivity.
Qed.

(* load_frame of a right reader *)
Lemma load_frame_right fm I : right_reader fm I ->
  (forall b, fm <> FPdb b) ->
  forall f str k ai s1 x, 1 <= str -> sk fm f st0 k = Some s1 -> pos s1 = k -> I f str s1 ->
    nth_error f k = Some x ->
    load junk fm f str (Some k) ai = Ok [app ai x].
Proof.
  intros HR Hpdb f str k ai s1 x Hs Hsk Hpos HI Hx.
  destruct (HR f 1 str ai s1 (le_n 1) Hs HI) as (s' & E & _ & _).
  rewrite Hpos, (absf_cons _ _ _ _ _ Hs Hx) in E. cbn [firstn] in E.
  unfold load. destruct fm; try (rewrite Hsk, E; reflexivity). exfalso. eapply Hpdb. reflexivity.
Qed.

(* ------------------------------------------------------------------ hdf5 repaired, netcdf *)
Definition Itrue (f : list A) (str : nat) (s : st) : Prop := True.

Lemma span_window f i m : firstn (Nat.min (i + m) (length f) - i) (skipn i f) = firstn m (skipn i f).
Proof.
  destruct (Nat.le_gt_cases (i + m) (length f)) as [H|H].
  - rewrite Nat.min_l by lia. f_equal. lia.
  - rewrite Nat.min_r by lia. apply firstn_ge_all; rewrite skipn_length; lia.
Qed.

Lemma arr_fix_right : right_reader (FArr true) Itrue.
Proof.
  intros f c str ai s Hc Hs _. cbn [rd]. unfold arr_read.
  set (i := pos s). set (T := length f).
  assert (Hm : 1 <= c * str) by nia.
  destruct (Nat.min (i + c * str) T - i =? 0) eqn:E0.
  - apply Nat.eqb_eq in E0. exists s. fold i.
    assert (HT : T <= i) by lia.
    rewrite (absf_beyond f str ai i HT). rewrite firstn_nil, skipn_nil. repeat split; reflexivity.
  - apply Nat.eqb_neq in E0. eexists. split; [|split; [exact I|]].
    + f_equal. f_equal. rewrite absf_first by assumption. unfold span. fold i. unfold T.
      now rewrite span_window.
    + cbn [pos]. replace (i + (Nat.min (i + c * str) T - i)) with (Nat.min (i + c * str) T) by lia.
      unfold T. rewrite absf_min. now rewrite absf_skip.
Qed.

Lemma nc_right : right_reader FNc Itrue.
Proof.
  intros f c str ai s Hc Hs _. cbn [rd]. unfold nc_read.
  set (i := pos s). set (T := length f).
  assert (Hm : 1 <= c * str) by nia.
  destruct (T <=? i) eqn:E0.
  - apply Nat.leb_le in E0. exists s. fold i.
    rewrite (absf_beyond f str ai i E0). rewrite firstn_nil, skipn_nil. repeat split; reflexivity.
  - apply Nat.leb_gt in E0. eexists. split; [|split; [exact I|]].
    + f_equal. f_equal. rewrite absf_first by assumption. unfold span. fold i.
      replace (i + Nat.min (c * str) T - i) with (Nat.min (c * str) T) by lia.
      do 2 f_equal. destruct (Nat.le_gt_cases (c * str) T) as [H|H].
      * now rewrite Nat.min_l.
      * rewrite Nat.min_r by lia. apply firstn_ge_all; rewrite skipn_length; fold T; lia.
    + cbn [pos]. unfold T. rewrite absf_min. now rewrite absf_skip.
Qed.

(* ------------------------------------------------------------------ sequential readers *)
Lemma seq_loop_spec str f ai : 1 <= str -> forall n p,
  snd (seq_loop n str p f ai) = firstn n (absf f str ai p) /\
  absf f str ai (fst (seq_loop n str p f ai)) = skipn n (absf f str ai p).
Proof.
  intros Hs. induction n as [|n IH]; intros p; [split; reflexivity|].
  cbn [seq_loop]. destruct (nth_error f p) as [x|] eqn:E.
  - specialize (IH (Nat.min (S p + (str - 1)) (length f))).
    destruct (seq_loop n str (Nat.min (S p + (str - 1)) (length f)) f ai) as [p' l]. cbn [fst snd] in *.
    rewrite absf_min in IH. replace (S p + (str - 1)) with (p + str) in IH by lia.
    rewrite (absf_cons _ _ _ _ _ Hs E). cbn [firstn skipn]. destruct IH as [IH1 IH2]. split; congruence.
  - apply nth_error_None in E. cbn [fst snd]. rewrite (absf_beyond f str ai p E).
    now rewrite firstn_nil, skipn_nil.
Qed.

Lemma seq_like_right fm : rd junk fm = seq_read -> right_reader fm Itrue.
Proof.
  intros Hrd f c str ai s Hc Hs _. rewrite Hrd. unfold seq_read.
  destruct (seq_loop_spec str f ai Hs c (pos s)) as [H1 H2].
  destruct (seq_loop c str (pos s) f ai) as [p' l]. cbn [fst snd] in *.
  eexists. split; [rewrite H1; reflexivity|]. split; [exact I|]. exact H2.
Qed.

Lemma seq_right : right_reader FSeq Itrue.
Proof. apply seq_like_right. reflexivity. Qed.

Lemma seq_noseek_right : right_reader FSeqNoSeek Itrue.
Proof. apply seq_like_right. reflexivity. Qed.

(* ------------------------------------------------------------------ xtc / trr loops *)
Lemma nth_ok f p : p < length f -> exists x, nth_error f p = Some x /\ nth p f junk = x.
Proof.
  intros H. destruct (nth_error f p) as [x|] eqn:E.
  - exists x. split; [reflexivity|]. now apply nth_error_nth_some.
  - apply nth_error_None in E. lia.
Qed.

Lemma xtc_loop_noeff str f ai : 1 <= str -> forall m c p,
  let r := xtc_loop junk m false str (length f) c p f ai in
  snd r = firstn m (absf f str ai p) /\ absf f str ai (snd (fst r)) = skipn m (absf f str ai p) /\
  fst (fst r) = c.
Proof.
  intros Hs. induction m as [|m IH]; intros c p; [repeat split; reflexivity|].
  cbn [xtc_loop]. cbn zeta. destruct (p <? length f) eqn:Ep.
  - apply Nat.ltb_lt in Ep. destruct (nth_ok f p Ep) as (x & Ex & Hx). rewrite Hx.
    rewrite (absf_cons _ _ _ _ _ Hs Ex). cbn [firstn skipn].
    destruct (1 <? str) eqn:E1.
    + specialize (IH c (Nat.min (S p + (str - 1)) (length f))). cbn zeta in IH.
      destruct (xtc_loop junk m false str (length f) c (Nat.min (S p + (str - 1)) (length f)) f ai) as [[c3 p3] l].
      cbn [fst snd] in *. rewrite absf_min in IH. replace (S p + (str - 1)) with (p + str) in IH by lia.
      destruct IH as (I1 & I2 & I3). repeat split; congruence.
    + apply Nat.ltb_ge in E1. assert (str = 1) by lia. subst str.
      specialize (IH c (S p)). cbn zeta in IH.
      destruct (xtc_loop junk m false 1 (length f) c (S p) f ai) as [[c3 p3] l].
      cbn [fst snd] in *. replace (p + 1) with (S p) by lia.
      destruct IH as (I1 & I2 & I3). repeat split; congruence.
  - apply Nat.ltb_ge in Ep. rewrite (absf_beyond f str ai p Ep). rewrite firstn_nil, skipn_nil.
    destruct (1 <? str); cbn [fst snd]; repeat split; try reflexivity; apply absf_beyond; lia.
Qed.

Definition Inoeff (f : list A) (str : nat) (s : st) : Prop := (1 <? str) && offs s = false.

Lemma xtc_noeff_right : right_reader FXtc Inoeff.
Proof.
  intros f c str ai s Hc Hs HI. cbn [rd]. unfold xtc_read. unfold Inoeff in HI. rewrite HI.
  pose proof (xtc_loop_noeff str f ai Hs c (cnt s) (pos s)) as H. cbn zeta in H.
  destruct (xtc_loop junk c false str (length f) (cnt s) (pos s) f ai) as [[c3 p3] l]. cbn [fst snd] in H.
  destruct H as (H1 & H2 & H3). eexists. split; [rewrite H1; reflexivity|]. split; [exact HI|exact H2].
Qed.

Definition TInv (eff : bool) (str T c p : nat) : Prop :=
  eff = false \/ (1 < str /\ ((p = c /\ c < T) \/ (T <= p /\ T <= c + str))).

Lemma trr_loop_spec str f ai eff : 1 <= str -> forall m c p, TInv eff str (length f) c p ->
  let r := trr_loop junk m eff str (length f) c p f ai in
  snd (fst r) = firstn m (absf f str ai p) /\
  absf f str ai (snd (fst (fst r))) = skipn m (absf f str ai p) /\
  TInv eff str (length f) (fst (fst (fst r))) (snd (fst (fst r))).
Proof.
  intros Hs. induction m as [|m IH]; intros c p HI; [repeat split; try reflexivity; exact HI|].
  cbn [trr_loop]. cbn zeta. destruct (p <? length f) eqn:Ep.
  - apply Nat.ltb_lt in Ep. destruct (nth_ok f p Ep) as (x & Ex & Hx). rewrite Hx.
    rewrite (absf_cons _ _ _ _ _ Hs Ex). cbn [firstn skipn].
    (* the next position p2 always satisfies A(p2) = A(p+str), and the invariant is kept *)
    assert (Hnext : exists c2 p2,
      (if 1 <? str then if eff && (c + str <? length f) then (c + str, c + str)
                        else (c, Nat.min (S p + (str - 1)) (length f)) else (c, S p)) = (c2, p2) /\
      absf f str ai p2 = absf f str ai (p + str) /\ TInv eff str (length f) c2 p2).
    { destruct (1 <? str) eqn:E1.
      - apply Nat.ltb_lt in E1. destruct eff.
        + destruct HI as [HI|(_ & [(Hpc & Hc)|(Hp & _)])]; [discriminate| |lia]. subst p.
          cbn [andb]. destruct (c + str <? length f) eqn:E2.
          * apply Nat.ltb_lt in E2. exists (c + str), (c + str). repeat split. right. split; [assumption|]. left. lia.
          * apply Nat.ltb_ge in E2. eexists _, _. split; [reflexivity|]. split.
            -- rewrite absf_min. f_equal. lia.
            -- right. split; [assumption|]. right. split; lia.
        + cbn [andb]. eexists _, _. split; [reflexivity|]. split; [|now left].
          rewrite absf_min. f_equal. lia.
      - apply Nat.ltb_ge in E1. assert (str = 1) by lia. subst str. eexists _, _. split; [reflexivity|]. split.
        + f_equal. lia.
        + destruct HI as [HI|(Hlt & _)]; [now left|lia]. }
    destruct Hnext as (c2 & p2 & E2 & Hab & HI2). rewrite E2.
    specialize (IH c2 p2 HI2). cbn zeta in IH.
    destruct (trr_loop junk m eff str (length f) c2 p2 f ai) as [[[c3 p3] l] i]. cbn [fst snd] in *.
    destruct IH as (I1 & I2 & I3). rewrite Hab in *. repeat split; try congruence; try exact I3.
  - apply Nat.ltb_ge in Ep. rewrite (absf_beyond f str ai p Ep). rewrite firstn_nil, skipn_nil.
    destruct (1 <? str) eqn:E1.
    + apply Nat.ltb_lt in E1. destruct eff.
      * destruct HI as [HI|(_ & [(Hpc & Hc)|(Hp & Hcs)])]; [discriminate|lia|].
        cbn [andb]. replace (c + str <? length f) with false by (symmetry; apply Nat.ltb_ge; lia).
        cbn [fst snd]. repeat split; [apply absf_beyond; lia|]. right. split; [assumption|]. right. split; lia.
      * cbn [andb fst snd]. repeat split; [apply absf_beyond; lia|now left].
    + cbn [fst snd]. repeat split; [now apply absf_beyond|].
      apply Nat.ltb_ge in E1. destruct HI as [HI|(Hlt & _)]; [now left|lia].
Qed.

Definition Itrr (f : list A) (str : nat) (s : st) : Prop :=
  TInv ((1 <? str) && offs s) str (length f) (cnt s) (pos s).

Lemma trr_once_spec f s m str ai : 1 <= str -> Itrr f str s ->
  let r := trr_once junk f s m str ai in
  snd r = firstn m (absf f str ai (pos s)) /\ Itrr f str (fst r) /\
  absf f str ai (pos (fst r)) = skipn m (absf f str ai (pos s)).
Proof.
  intros Hs HI. unfold trr_once. cbn zeta.
  pose proof (trr_loop_spec str f ai ((1 <? str) && offs s) Hs m (cnt s) (pos s) HI) as H. cbn zeta in H.
  destruct (trr_loop junk m ((1 <? str) && offs s) str (length f) (cnt s) (pos s) f ai) as [[[c3 p3] l] i].
  cbn [fst snd] in *. destruct H as (H1 & H2 & H3). split; [exact H1|]. split; [|exact H2].
  unfold Itrr. cbn [cnt pos offs]. destruct ((1 <? str) && offs s); [exact H3|now left].
Qed.

Lemma trr_right : right_reader FTrr Itrr.
Proof.
  intros f c str ai s Hc Hs HI. cbn [rd trr_read].
  pose proof (trr_once_spec f s c str ai Hs HI) as H. cbn zeta in H.
  destruct (trr_once junk f s c str ai) as [s' l]. cbn [fst snd] in H. destruct H as (H1 & H2 & H3).
  exists s'. rewrite H1. repeat split; assumption.
Qed.

(* ------------------------------------------------------------------ load(stride) : n_frames = None *)
Lemma absf_length_le f str ai p : length (absf f str ai p) <= length f - p.
Proof. unfold absf. rewrite map_length. etransitivity; [apply length_every_le|]. now rewrite skipn_length. Qed.

Lemma firstn_absf_all f str ai p m : length f <= m -> firstn m (absf f str ai p) = absf f str ai p.
Proof. intros H. apply firstn_all2. pose proof (absf_length_le f str ai p). lia. Qed.

Lemma load_stride_arr b f str ai : load junk (FArr b) f str None ai = Ok (absf f str ai 0).
Proof.
  unfold load. cbn [rd sk]. unfold arr_read. cbn [pos st0 snd].
  rewrite Nat.sub_0_r. destruct (length f =? 0) eqn:E; cbn [snd].
  - apply Nat.eqb_eq in E. destruct f; [reflexivity|discriminate].
  - unfold span, absf. rewrite Nat.sub_0_r. cbn [skipn]. now rewrite firstn_all.
Qed.

Lemma load_stride_nc f str ai : load junk FNc f str None ai = Ok (absf f str ai 0).
Proof.
  unfold load. cbn [rd sk]. unfold nc_read. cbn [pos st0 snd].
  destruct (length f <=? 0) eqn:E; cbn [snd].
  - apply Nat.leb_le in E. destruct f; [reflexivity|cbn in E; lia].
  - unfold span, absf. cbn [Nat.add skipn]. rewrite Nat.sub_0_r. now rewrite firstn_all.
Qed.

Lemma load_stride_seq_like fm f str ai : rd junk fm = seq_read -> (forall b, fm <> FPdb b) -> 1 <= str ->
  load junk fm f str None ai = Ok (absf f str ai 0).
Proof.
  intros Hrd Hpdb Hs.
  assert (E : snd (rd junk fm f st0 None str ai) = Ok (absf f str ai 0)).
  { rewrite Hrd. unfold seq_read. cbn [pos st0].
    destruct (seq_loop_spec str f ai Hs (S (length f)) 0) as [H1 _].
    destruct (seq_loop (S (length f)) str 0 f ai) as [p' l]. cbn [fst snd] in *.
    rewrite H1. now rewrite firstn_absf_all by lia. }
  unfold load. destruct fm; try exact E. exfalso. eapply Hpdb. reflexivity.
Qed.

Lemma load_stride_xtc f str ai : 1 <= str -> load junk FXtc f str None ai = Ok (absf f str ai 0).
Proof.
  intros Hs. unfold load. cbn [rd]. unfold xtc_read. cbn [offs cnt pos st0]. rewrite andb_false_r.
  pose proof (xtc_loop_noeff str f ai Hs (S (length f)) 0 0) as H. cbn zeta in H.
  destruct (xtc_loop junk (S (length f)) false str (length f) 0 0 f ai) as [[c3 p3] l]. cbn [fst snd] in *.
  destruct H as (H1 & _). rewrite H1. now rewrite firstn_absf_all by lia.
Qed.

Lemma Itrr_st0 f str : Itrr f str st0.
Proof. unfold Itrr. cbn [offs st0]. rewrite andb_false_r. now left. Qed.

Lemma load_stride_trr f str ai : 1 <= str -> f <> [] -> load junk FTrr f str None ai = Ok (absf f str ai 0).
Proof.
  intros Hs Hne. unfold load. cbn [rd trr_read trr_all].
  pose proof (trr_once_spec f st0 (S (length f)) str ai Hs (Itrr_st0 f str)) as H. cbn zeta in H.
  destruct (trr_once junk f st0 (S (length f)) str ai) as [s1 l1]. cbn [fst snd] in H.
  destruct H as (H1 & HI1 & Hab1). cbn [pos st0] in *. rewrite firstn_absf_all in H1 by lia.
  destruct l1 as [|x1 r1].
  - exfalso. symmetry in H1. apply absf_nil_iff in H1. destruct f; [congruence|cbn in H1; lia].
  - cbn [List.app].
    pose proof (trr_once_spec f s1 (S (length f)) str ai Hs HI1) as H. cbn zeta in H.
    destruct (trr_once junk f s1 (S (length f)) str ai) as [s2 l2]. cbn [fst snd] in H.
    destruct H as (H2 & _ & _). rewrite Hab1 in H2.
    rewrite (skipn_all2 (absf f str ai 0)) in H2 by (pose proof (absf_length_le f str ai 0); lia).
    rewrite firstn_nil in H2. subst l2. cbn [snd List.app]. now rewrite H1.
Qed.

Lemma load_stride_gro f str ai : load junk FGro f str None ai = Ok (absf f str ai 0).
Proof. unfold load. cbn [rd snd]. unfold gro_read. cbn [pos st0 snd skipn]. unfold absf. cbn [skipn]. now rewrite every_map. Qed.

Lemma load_stride_dtr f str ai : 1 <= str -> load junk FDtr f str None ai = Ok (absf f str ai 0).
Proof.
  intros Hs. unfold load. cbn [rd snd]. unfold dtr_read. cbn [cnt st0 snd].
  rewrite Nat.sub_0_r. cbn [Nat.add]. replace (Nat.min (length f * str) (length f)) with (length f) by nia.
  unfold span, absf. rewrite Nat.sub_0_r. cbn [skipn]. now rewrite firstn_all.
Qed.

Lemma load_stride_pdb b f str ai : load junk (FPdb b) f str None ai = Ok (absf f str ai 0).
Proof. reflexivity. Qed.

(* ------------------------------------------------------------------ load([f1;...;fk]) *)
Lemma load_list_ok fm str ai (X : list A -> list A) fs :
  (forall f, In f fs -> load junk fm f str None ai = Ok (X f)) -> fs <> [] ->
  load_list junk fm fs str ai = Ok (concat (map X fs)).
Proof.
  induction fs as [|f r IH]; intros H Hne; [congruence|].
  destruct r as [|f2 r2].
  - cbn [load_list map concat]. rewrite app_nil_r. apply H. now left.
  - change (load_list junk fm (f :: f2 :: r2) str ai)
      with (match load junk fm f str None ai, load_list junk fm (f2 :: r2) str ai with
            | Ok a, Ok b => Ok (a ++ b) | _, _ => Raise end).
    rewrite (H f (or_introl eq_refl)). rewrite IH; [reflexivity| |discriminate].
    intros f' Hin. apply H. now right.
Qed.

(* ------------------------------------------------------------------ the chunk == 0 branch and the pdb branch, repaired *)
Lemma iterload_chunk0_fixed g fm f str k ai fuel : chunk0_fix g = true ->
  load junk fm f 1 None ai = Ok (absf f 1 ai 0) ->
  iterload junk g fm f 0 str k ai fuel = ([absf f str ai k], Fin).
Proof.
  intros Hg Hl. unfold iterload. cbn [Nat.eqb]. rewrite Hg, Hl. unfold absf. cbn [skipn].
  rewrite every_one. rewrite skipn_map, every_map. reflexivity.
Qed.

Lemma iterload_pdb_fixed g b f c str k ai fuel : pdbiter_fix g = true -> 1 <= c ->
  iterload junk g (FPdb b) f c str k ai fuel = (chunks c (absf f str ai k), Fin).
Proof.
  intros Hg Hc. unfold iterload. replace (c =? 0) with false by (symmetry; apply Nat.eqb_neq; lia).
  rewrite Hg. rewrite load_stride_pdb. unfold absf. cbn [skipn].
  rewrite every_one. rewrite skipn_map, every_map. reflexivity.
Qed.

End P.
