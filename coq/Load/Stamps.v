(* Time stamps of partially loaded frames as model fields (C02: "coordinates, times and unit cell alike").

   Frames are opaque, but they carry a time stamp that [settime] overwrites.  Two kinds of readers:
   * time stored in the file (hdf5, netcdf, xtc, trr, dtr, gro): the frame comes back as it is; the theorems of
     Theorems.v already speak about the whole frame (the translator checks that time / cell are indexed with the
     same slice as the coordinates);
   * time synthesised by read_as_traj (mdcrd, xyz, lammpstrj, arc; load_pdb):
         initial = int(self._frame_index);  ...;  time = stride * arange(len(xyz)) + initial
     The FULL load of such a file stamps frame p with time p  ([full f]).  Below: a partial load stamps every
     frame it returns with exactly the time the full load gives to that frame, for load, load_frame and
     iterload; and the as-found load_pdb(frame=k) (time = arange(1) * frame, i.e. always 0) does not. *)
From Coq Require Import List Arith Bool Lia.
Import ListNotations.
Require Import MD.Lib.Strided MD.Load.Model MD.Load.Lemmas MD.Load.Proofs MD.Load.Theorems.

Section Stamp.
Context {A : Type}.
Variable junk : A.
Variable settime : nat -> A -> A.
Implicit Types (f l r : list A) (ai : option (A -> A)) (s : st).

(* time = step * arange(len(l)) + q *)
Fixpoint stampfrom (q step : nat) (l : list A) : list A :=
  match l with
  | [] => []
  | x :: r => settime q x :: stampfrom (q + step) step r
  end.

Definition full f : list A := stampfrom 0 1 f.

Lemma stamp_length q step l : length (stampfrom q step l) = length l.
Proof. revert q; induction l as [|x r IH]; intros q; [reflexivity|]. cbn. now rewrite IH. Qed.

Lemma stamp_firstn c : forall q step l, firstn c (stampfrom q step l) = stampfrom q step (firstn c l).
Proof.
  induction c as [|c IH]; intros q step l; [reflexivity|].
  destruct l as [|x r]; [reflexivity|]. cbn [stampfrom firstn]. now rewrite IH.
Qed.

Lemma stamp_skipn p : forall q l, skipn p (stampfrom q 1 l) = stampfrom (q + p) 1 (skipn p l).
Proof.
  induction p as [|p IH]; intros q l; [now rewrite Nat.add_0_r|].
  destruct l as [|x r]; [reflexivity|]. cbn [stampfrom skipn]. rewrite IH. f_equal. lia.
Qed.

Lemma stamp_every str : 1 <= str -> forall l q, every str (stampfrom q 1 l) = stampfrom q str (every str l).
Proof.
  intros Hs l. remember (length l) as n eqn:Hn. revert l Hn.
  induction n as [n IH] using lt_wf_ind. intros l Hn q.
  destruct l as [|x r]; [reflexivity|].
  cbn [stampfrom]. rewrite !every_cons_skip. cbn [stampfrom]. f_equal.
  rewrite stamp_skipn.
  rewrite (IH (length (skipn (str - 1) r))); [| |reflexivity].
  - f_equal. lia.
  - rewrite skipn_length. subst n. cbn [length]. lia.
Qed.

Lemma stamp_map (g : A -> A) : (forall t x, g (settime t x) = settime t (g x)) ->
  forall l q step, map g (stampfrom q step l) = stampfrom q step (map g l).
Proof.
  intros Hg. induction l as [|x r IH]; intros q step; [reflexivity|].
  cbn [stampfrom map]. now rewrite Hg, IH.
Qed.

Definition commutes ai : Prop :=
  match ai with Some g => forall t x, g (settime t x) = settime t (g x) | None => True end.

Lemma stamp_map_app ai l q step : commutes ai -> map (app ai) (stampfrom q step l) = stampfrom q step (map (app ai) l).
Proof.
  intros H. destruct ai as [g|]; cbn [commutes] in H.
  - now apply stamp_map.
  - cbn [app]. rewrite !map_id. reflexivity.
Qed.

(* what the full load shows at position p, strided and atom-sliced = the raw frames stamped p, p+str, ... *)
Lemma absf_full f str ai p : 1 <= str -> commutes ai ->
  absf (full f) str ai p = stampfrom p str (absf f str ai p).
Proof.
  intros Hs Hc. unfold absf, full. rewrite stamp_skipn, stamp_every by assumption. cbn [Nat.add].
  now apply stamp_map_app.
Qed.

Lemma nth_error_full f k x : nth_error f k = Some x -> nth_error (full f) k = Some (settime k x).
Proof.
  intros Ex. unfold full. pose proof (stamp_skipn k 0 f) as Hsk. rewrite (nth_error_skipn _ _ _ Ex) in Hsk.
  cbn [stampfrom Nat.add] in Hsk.
  destruct (nth_error (stampfrom 0 1 f) k) as [y|] eqn:Ey.
  - rewrite (nth_error_skipn _ _ _ Ey) in Hsk. now inversion Hsk.
  - apply nth_error_None in Ey. rewrite skipn_all2 in Hsk by assumption. discriminate.
Qed.

(* ------------------------------------------------------------------ read_as_traj with synthesised time *)
Definition rd_synth (fm : fam) f s (n : option nat) (str : nat) ai : st * res A :=
  let '(s', r) := rd junk fm f s n str ai in
  (s', match r with Ok l => Ok (stampfrom (cnt s) str l) | Raise => Raise end).

(* the position bookkeeping of the sequential loop depends on the file only through its length *)
Lemma seq_loop_pos_any str f (F : list A) ai ai' : 1 <= str -> length F = length f -> forall n p,
  absf F str ai' (fst (seq_loop n str p f ai)) = skipn n (absf F str ai' p).
Proof.
  intros Hs HL. induction n as [|n IH]; intros p; [reflexivity|].
  cbn [seq_loop]. destruct (nth_error f p) as [x|] eqn:E.
  - assert (Hp : p < length F) by (rewrite HL; apply nth_error_Some; congruence).
    destruct (nth_error F p) as [y|] eqn:EF; [|apply nth_error_None in EF; lia].
    specialize (IH (Nat.min (S p + (str - 1)) (length f))).
    destruct (seq_loop n str (Nat.min (S p + (str - 1)) (length f)) f ai) as [p' l]. cbn [fst] in *.
    rewrite IH. rewrite <- HL, absf_min. replace (S p + (str - 1)) with (p + str) by lia.
    rewrite (absf_cons F str ai' p y Hs EF). reflexivity.
  - apply nth_error_None in E. cbn [fst]. rewrite (absf_beyond F str ai' p) by lia. now rewrite skipn_nil.
Qed.

Definition synced s : Prop := cnt s = pos s.

Lemma seq_synth_right fm f c str ai s : rd junk fm = seq_read -> 1 <= c -> 1 <= str -> commutes ai -> synced s ->
  exists s', rd_synth fm f s (Some c) str ai = (s', Ok (firstn c (absf (full f) str ai (pos s)))) /\ synced s' /\
             absf (full f) str ai (pos s') = skipn c (absf (full f) str ai (pos s)).
Proof.
  intros Hrd Hc Hs Hcm Hsy. unfold rd_synth. rewrite Hrd. unfold seq_read.
  destruct (seq_loop_spec str f ai Hs c (pos s)) as [H1 _].
  pose proof (seq_loop_pos_any str f (full f) ai ai Hs (stamp_length 0 1 f) c (pos s)) as H2.
  destruct (seq_loop c str (pos s) f ai) as [p' l]. cbn [fst snd] in *.
  assert (El : stampfrom (cnt s) str l = firstn c (absf (full f) str ai (pos s))).
  { rewrite H1, Hsy. rewrite absf_full by assumption. now rewrite stamp_firstn. }
  rewrite El. eexists. split; [reflexivity|]. split; [reflexivity|exact H2].
Qed.

(* iterload over a file with synthesised time = chunking of the FULL load (times included) *)
Theorem iterload_synth_time fm f c str k ai fuel : (fm = FSeq /\ k <= length f) \/ (fm = FSeqNoSeek /\ k = 0) ->
  1 <= c -> 1 <= str -> commutes ai -> length f < fuel ->
  iter_loop fuel (fun s => rd_synth fm f s (Some c) str ai) (mkst k k false) =
  spec_iterload (full f) c str k ai.
Proof.
  intros Hfm Hc Hs Hcm Hf. unfold spec_iterload. replace (c =? 0) with false by (symmetry; apply Nat.eqb_neq; lia).
  change (map (app ai) (every str (skipn k (full f)))) with (absf (full f) str ai (pos (mkst k k false))).
  apply (iter_loop_chunks _ (fun s => absf (full f) str ai (pos s)) synced c Hc).
  - intros s Hsy. apply seq_synth_right; try assumption. destruct Hfm as [[E _]|[E _]]; subst fm; reflexivity.
  - reflexivity.
  - cbn [pos]. pose proof (absf_length_le (full f) str ai k) as H.
    assert (HL : length (full f) = length f) by apply stamp_length. lia.
Qed.

(* load(stride) and load_frame / load(frame=k) with synthesised time *)
Theorem load_synth_time fm f str frame ai : rd junk fm = seq_read -> 1 <= str -> commutes ai ->
  (match frame with Some k => k < length f /\ fm = FSeq | None => True end) ->
  (let s1 := match frame with Some k => mkst k k false | None => st0 end in
   snd (rd_synth fm f s1 (match frame with Some _ => Some 1 | None => None end) str ai)) =
  spec_load (full f) str frame ai.
Proof.
  intros Hrd Hs Hcm Hfr. unfold rd_synth. rewrite Hrd. unfold seq_read. destruct frame as [k|].
  - destruct Hfr as [Hk _]. cbn [pos cnt offs].
    destruct (seq_loop_spec str f ai Hs 1 k) as [H1 _].
    destruct (seq_loop 1 str k f ai) as [p' l]. cbn [fst snd] in *. rewrite H1.
    destruct (nth_error f k) as [x|] eqn:Ex; [|apply nth_error_None in Ex; lia].
    rewrite (absf_cons f str ai k x Hs Ex). cbn [firstn stampfrom].
    unfold spec_load. pose proof (nth_error_full f k x Ex) as Ef.
    rewrite Ef. destruct ai as [g|]; cbn [app commutes] in *; [now rewrite Hcm|reflexivity].
  - cbn [pos cnt offs st0].
    destruct (seq_loop_spec str f ai Hs (S (length f)) 0) as [H1 _].
    destruct (seq_loop (S (length f)) str 0 f ai) as [p' l]. cbn [fst snd] in *. rewrite H1.
    rewrite firstn_absf_all by lia. unfold spec_load.
    change (map (app ai) (every str (full f))) with (absf (full f) str ai 0).
    now rewrite absf_full.
Qed.

(* ------------------------------------------------------------------ load_pdb: time = arange(n) * stride | (op) frame *)
Definition pdb_load_time (repaired : bool) f (str : nat) (frame : option nat) ai : res A :=
  match frame with
  | Some k => match nth_error f k with
              | Some x => Ok [settime (if repaired then 0 + k else 0 * k) (app ai x)]
              | None => Raise
              end
  | None => Ok (stampfrom 0 str (map (app ai) (every str f)))
  end.

Theorem pdb_load_time_repaired f str frame ai : 1 <= str -> commutes ai ->
  pdb_load_time true f str frame ai = spec_load (full f) str frame ai.
Proof.
  intros Hs Hcm. unfold pdb_load_time, spec_load. destruct frame as [k|].
  - destruct (nth_error f k) as [x|] eqn:Ex.
    + pose proof (nth_error_full f k x Ex) as Ef.
      rewrite Ef. cbn [Nat.add]. destruct ai as [g|]; cbn [app commutes] in *; [now rewrite Hcm|reflexivity].
    + assert (Ef : nth_error (full f) k = None).
      { apply nth_error_None. unfold full. rewrite stamp_length. now apply nth_error_None. }
      now rewrite Ef.
  - f_equal. change (map (app ai) (every str f)) with (absf f str ai 0).
    change (map (app ai) (every str (full f))) with (absf (full f) str ai 0). now rewrite absf_full.
Qed.

End Stamp.

(* as found: load_frame('x.pdb', 4) carries time 0, the full load says 4 *)
Lemma pdb_load_time_current_refuted :
  exists (f : list (nat * nat)) k, k < length f /\
    pdb_load_time (fun t x => (t, snd x)) false f 1 (Some k) None <>
    spec_load (full (fun t x => (t, snd x)) f) 1 (Some k) None.
Proof.
  exists (map (fun i => (0, i)) (seq 0 10)), 4. split; [vm_compute; lia|]. vm_compute. discriminate.
Qed.
