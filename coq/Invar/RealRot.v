(* C09 — the same statements over the real numbers: ANY real 3x3 matrix with R^T R = I (six equations).
   These depend on the standard-library axioms of the reals (Print Assumptions lists them). *)
From Coq Require Import Reals Lra Nsatz.
Open Scope R_scope.

Definition rvec := (R * R * R)%type.
Definition rx (v : rvec) := fst (fst v).
Definition ry (v : rvec) := snd (fst v).
Definition rz (v : rvec) := snd v.
Definition rdot (u v : rvec) : R := rx u * rx v + ry u * ry v + rz u * rz v.
Definition rcross (u v : rvec) : rvec :=
  (ry u * rz v - rz u * ry v, rz u * rx v - rx u * rz v, rx u * ry v - ry u * rx v).
Definition rsub (u v : rvec) : rvec := (rx u - rx v, ry u - ry v, rz u - rz v).
Definition radd (u v : rvec) : rvec := (rx u + rx v, ry u + ry v, rz u + rz v).
Definition rmat := (rvec * rvec * rvec)%type.
Definition rmv (M : rmat) (v : rvec) : rvec := (rdot (fst (fst M)) v, rdot (snd (fst M)) v, rdot (snd M) v).
Definition rtriple (u v w : rvec) : R := rdot u (rcross v w).
Definition rdet (M : rmat) : R := rtriple (fst (fst M)) (snd (fst M)) (snd M).
Definition rcol1 (M : rmat) : rvec := (rx (fst (fst M)), rx (snd (fst M)), rx (snd M)).
Definition rcol2 (M : rmat) : rvec := (ry (fst (fst M)), ry (snd (fst M)), ry (snd M)).
Definition rcol3 (M : rmat) : rvec := (rz (fst (fst M)), rz (snd (fst M)), rz (snd M)).

(* R^T R = I *)
Definition orthogonal (M : rmat) : Prop :=
  rdot (rcol1 M) (rcol1 M) = 1 /\ rdot (rcol2 M) (rcol2 M) = 1 /\ rdot (rcol3 M) (rcol3 M) = 1 /\
  rdot (rcol1 M) (rcol2 M) = 0 /\ rdot (rcol1 M) (rcol3 M) = 0 /\ rdot (rcol2 M) (rcol3 M) = 0.

Definition rrigid (M : rmat) (t x : rvec) : rvec := radd (rmv M x) t.
Definition rdist (x y : rvec) : R := sqrt (rdot (rsub y x) (rsub y x)).

Ltac rdestr :=
  repeat match goal with
         | M : rmat |- _ => destruct M as [[[[? ?] ?] [[? ?] ?]] [[? ?] ?]]
         | v : rvec |- _ => destruct v as [[? ?] ?]
         end;
  cbv [orthogonal rrigid rdist rdet rtriple rmv rdot rcross rsub radd rcol1 rcol2 rcol3 rx ry rz fst snd] in *.

Lemma rdot_orth M x y : orthogonal M -> rdot (rmv M x) (rmv M y) = rdot x y.
Proof. intros H. rdestr. destruct H as (H1 & H2 & H3 & H4 & H5 & H6). nsatz. Qed.

Lemma rdet_orth M : orthogonal M -> rdet M * rdet M = 1.
Proof. intros H. rdestr. destruct H as (H1 & H2 & H3 & H4 & H5 & H6). nsatz. Qed.

Lemma rtriple_mat M u v w : rtriple (rmv M u) (rmv M v) (rmv M w) = rdet M * rtriple u v w.
Proof. rdestr. ring. Qed.

Lemma rcross_orth M x y : orthogonal M -> rdet M = 1 -> rcross (rmv M x) (rmv M y) = rmv M (rcross x y).
Proof.
  intros H Hd. rdestr. destruct H as (H1 & H2 & H3 & H4 & H5 & H6).
  repeat match goal with |- (_, _) = (_, _) => apply f_equal2 end; nsatz.
Qed.

(* the distance itself (with the square root) is invariant under every orthogonal matrix and translation *)
Lemma rdist_rigid M t x y : orthogonal M -> rdist (rrigid M t x) (rrigid M t y) = rdist x y.
Proof.
  intros H. unfold rdist. f_equal.
  replace (rsub (rrigid M t y) (rrigid M t x)) with (rmv M (rsub y x)).
  - apply rdot_orth. exact H.
  - rdestr. repeat match goal with |- (_, _) = (_, _) => apply f_equal2 end; ring.
Qed.
