(* C09 — rigid motions given by ANY 3x3 matrix M over Z with M^T M = s I (six polynomial hypotheses):
   R = M/sqrt(s) is orthogonal; proper if det M > 0, improper (contains a reflection) if det M < 0.
   s = 1 is the literal statement R^T R = I; the scale s only makes the theorems applicable to rotations with
   rational entries (M/n, s = n^2).  Everything is a polynomial identity closed by ring after rewriting with
   the hypotheses (no axioms). *)
From Coq Require Import ZArith List Bool Lia Nsatz.
Import ListNotations.
Require Import MD.PBC.Model MD.PBC.Proofs MD.Invar.Model MD.Invar.Proofs.
Open Scope Z_scope.

Definition orth_scaled (M : mat3) (s : Z) : Prop := mm (transp M) M = mscale s ident.

(* the six (nine) scalar equations behind the hypothesis *)
Lemma orth_entries M s : orth_scaled M s ->
  let c1 := col M 0 in let c2 := col M 1 in let c3 := col M 2 in
  dot c1 c1 = s /\ dot c2 c2 = s /\ dot c3 c3 = s /\ dot c1 c2 = 0 /\ dot c1 c3 = 0 /\ dot c2 c3 = 0.
Proof.
  unfold orth_scaled. destruct M as [[[[m11 m12] m13] [[m21 m22] m23]] [[m31 m32] m33]].
  cbv [mm transp col mv mscale ident row1 row2 row3 vscale dot vget vx vy vz fst snd].
  intros H. injection H as H11 H12 H13 H21 H22 H23 H31 H32 H33.
  repeat split; lia.
Qed.

Ltac with_orth M s H :=
  destruct M as [[[[m11 m12] m13] [[m21 m22] m23]] [[m31 m32] m33]];
  destruct (orth_entries _ s H) as (E11 & E22 & E33 & E12 & E13 & E23);
  cbv [col row1 row2 row3 dot vget vx vy vz fst snd] in E11, E22, E33, E12, E13, E23.

(* (Mx).(My) = s x.y *)
Lemma dot_orth M s x y : orth_scaled M s -> dot (mv M x) (mv M y) = s * dot x y.
Proof.
  intros H. with_orth M s H. destruct x as [[x1 x2] x3], y as [[y1 y2] y3].
  cbv [mv dot row1 row2 row3 vx vy vz fst snd].
  transitivity ((m11 * m11 + m21 * m21 + m31 * m31) * (x1 * y1) + (m12 * m12 + m22 * m22 + m32 * m32) * (x2 * y2) +
                (m13 * m13 + m23 * m23 + m33 * m33) * (x3 * y3) +
                (m11 * m12 + m21 * m22 + m31 * m32) * (x1 * y2 + x2 * y1) +
                (m11 * m13 + m21 * m23 + m31 * m33) * (x1 * y3 + x3 * y1) +
                (m12 * m13 + m22 * m23 + m32 * m33) * (x2 * y3 + x3 * y2)); [ring|].
  rewrite E11, E22, E33, E12, E13, E23. ring.
Qed.

(* det^2 = s^3: det = +-s^(3/2); the sign tells proper from improper *)
Lemma det_orth M s : orth_scaled M s -> det3 M * det3 M = s * s * s.
Proof.
  intros H. rewrite <- (det_transp M) at 1. rewrite <- det_mm, H.
  cbv [det3 triple mscale ident row1 row2 row3 vscale dot cross vx vy vz fst snd]. ring.
Qed.

(* for ANY matrix: M^T ((Mx) x (My)) = det M (x x y) *)
Lemma cross_mat M x y : mv (transp M) (cross (mv M x) (mv M y)) = vscale (det3 M) (cross x y).
Proof.
  destruct M as [[[[m11 m12] m13] [[m21 m22] m23]] [[m31 m32] m33]], x as [[x1 x2] x3], y as [[y1 y2] y3].
  apply vec_ext; cbv [mv transp col det3 triple cross dot vscale row1 row2 row3 vget vx vy vz fst snd]; ring.
Qed.

Lemma mv_mm A B x : mv (mm A B) x = mv A (mv B x).
Proof.
  destruct A as [[[[a11 a12] a13] [[a21 a22] a23]] [[a31 a32] a33]],
           B as [[[[b11 b12] b13] [[b21 b22] b23]] [[b31 b32] b33]], x as [[x1 x2] x3].
  apply vec_ext; cbv [mv mm transp col dot row1 row2 row3 vget vx vy vz fst snd]; ring.
Qed.

(* s ((Mx) x (My)) = det M . M (x x y): for a proper rotation (s = 1, det = 1) R(x x y) = (Rx) x (Ry),
   for an improper one the cross product picks up a minus sign *)
Lemma cross_orth M s x y : orth_scaled M s ->
  vscale s (cross (mv M x) (mv M y)) = vscale (det3 M) (mv M (cross x y)).
Proof.
  intros H. with_orth M s H. destruct x as [[x1 x2] x3], y as [[y1 y2] y3].
  apply vec_ext; cbv [mv det3 triple cross dot vscale row1 row2 row3 vx vy vz fst snd]; nsatz.
Qed.

(* ------------------------------------------------------------------ observables under x |-> M x + t *)
Section Orth.
Variable M : mat3.
Variable s : Z.
Hypothesis H : orth_scaled M s.
Variables tx ty tz : Z.
Let g := rigid M (tx, ty, tz).

Lemma dist2_orth x y : dist2_obs (g x) (g y) = s * dist2_obs x y.
Proof. unfold dist2_obs, g, norm2. rewrite rigid_sep, (dot_orth M s) by exact H. reflexivity. Qed.

Lemma angle_orth xa xb xc :
  angle_obs (g xa) (g xb) (g xc) = let '(p, l1, l2) := angle_obs xa xb xc in (s * p, s * l1, s * l2).
Proof. unfold angle_obs, g, norm2. rewrite !rigid_sep, !(dot_orth M s) by exact H. reflexivity. Qed.

(* (|b2|^2, T, P) -> (s |b2|^2, det M * T, s^2 P) with det^2 = s^3:
   atan2(sqrt(s |b2|^2) det T, s^2 P) = atan2(+-s^2 |b2| T, s^2 P): unchanged if det > 0, negated if det < 0 *)
Lemma dihedral_orth x0 x1 x2 x3 :
  dihedral_obs (g x0) (g x1) (g x2) (g x3) =
  let '(l2, tr, pp) := dihedral_obs x0 x1 x2 x3 in (s * l2, det3 M * tr, s * s * pp).
Proof.
  unfold dihedral_obs, g, norm2. rewrite !rigid_sep, triple_mat, !cross_dot_binet, !(dot_orth M s) by exact H.
  cbv beta iota zeta. rewrite ?cross_dot_binet.
  repeat match goal with |- (_, _) = (_, _) => apply f_equal2 end; ring.
Qed.

Lemma vsum_orth l : vsum (map g l) = vadd (mv M (vsum l)) (vscale (Z.of_nat (length l)) (tx, ty, tz)).
Proof.
  induction l as [|x l IH].
  - cbn. destruct M as [[[[? ?] ?] [[? ?] ?]] [[? ?] ?]]. veq.
  - cbn [map vsum length]. rewrite IH. rewrite Nat2Z.inj_succ. unfold g. generalize (vsum l) (Z.of_nat (length l)).
    intros u k. destruct M as [[[[? ?] ?] [[? ?] ?]] [[? ?] ?]], x as [[? ?] ?], u as [[? ?] ?]. veq.
Qed.

Lemma centered_orth l : centered (map g l) = map (mv M) (centered l).
Proof.
  unfold centered. rewrite map_length, vsum_orth, !map_map. apply map_ext. intros x.
  unfold g. generalize (vsum l) (Z.of_nat (length l)). intros u k.
  destruct M as [[[[? ?] ?] [[? ?] ?]] [[? ?] ?]], x as [[? ?] ?], u as [[? ?] ?]. veq.
Qed.

Lemma rg_orth l : rg_obs (map g l) = s * rg_obs l.
Proof.
  unfold rg_obs. rewrite centered_orth. generalize (centered l). intros cs.
  induction cs as [|x cs IH]; cbn [map zsum]; [ring|]. rewrite IH. unfold norm2. rewrite (dot_orth M s) by exact H. ring.
Qed.

Lemma gyration_orth l : gyration (map g l) = mm (mm M (gyration l)) (transp M).
Proof.
  unfold gyration. rewrite centered_orth. generalize (centered l). intros cs.
  induction cs as [|x cs IH]; cbn [map msum].
  - rewrite mm_zero_l, mm_zero_r. reflexivity.
  - rewrite IH, outer_mv, mm_madd_l, mm_madd_r. reflexivity.
Qed.

Lemma pair_dists_orth l : pair_dists (map g l) = map (fun q => s * q) (pair_dists l).
Proof.
  unfold pair_dists. rewrite flat_map_concat_map, map_map, flat_map_concat_map, concat_map, map_map.
  f_equal. apply map_ext. intros x. rewrite !map_map. apply map_ext. intros y. apply dist2_orth.
Qed.
End Orth.

Lemma trace_conj_orth M s G : orth_scaled M s -> trace (mm (mm M G) (transp M)) = s * trace G.
Proof.
  intros H. with_orth M s H. destruct G as [[[[g11 g12] g13] [[g21 g22] g23]] [[g31 g32] g33]].
  cbv [trace mm mv transp col dot row1 row2 row3 vget vx vy vz fst snd]. nsatz.
Qed.

Lemma det_conj_orth M s G : orth_scaled M s -> det3 (mm (mm M G) (transp M)) = s * s * s * det3 G.
Proof. intros H. rewrite !det_mm, det_transp. rewrite <- (det_orth M s H). ring. Qed.

Lemma minor2_conj_orth M s G : orth_scaled M s -> minor2 (mm (mm M G) (transp M)) = s * s * minor2 G.
Proof.
  intros H. with_orth M s H. destruct G as [[[[g11 g12] g13] [[g21 g22] g23]] [[g31 g32] g33]].
  cbv [minor2 mm mv transp col dot row1 row2 row3 vget vx vy vz fst snd]. nsatz.
Qed.

Lemma gyration_invariants_orth M s tx ty tz l : orth_scaled M s ->
  let g := rigid M (tx, ty, tz) in
  trace (gyration (map g l)) = s * trace (gyration l) /\
  minor2 (gyration (map g l)) = s * s * minor2 (gyration l) /\
  det3 (gyration (map g l)) = s * s * s * det3 (gyration l).
Proof.
  intros H g. unfold g. rewrite (gyration_orth M s H).
  split; [apply trace_conj_orth | split; [apply minor2_conj_orth | apply det_conj_orth]]; exact H.
Qed.

(* sign of the dihedral: proper motions keep it, improper ones flip it *)
Lemma dihedral_sign M tr : 0 < det3 M -> Z.sgn (det3 M * tr) = Z.sgn tr.
Proof. intros Hd. rewrite Z.sgn_mul, (Z.sgn_pos (det3 M)) by exact Hd. ring. Qed.
Lemma dihedral_sign_mirror M tr : det3 M < 0 -> Z.sgn (det3 M * tr) = - Z.sgn tr.
Proof. intros Hd. rewrite Z.sgn_mul, (Z.sgn_neg (det3 M)) by exact Hd. ring. Qed.

(* instances: every integer-quaternion rotation is such an M with s = n^2, det = n^3 > 0; the mirror z -> -z has
   s = 1, det = -1 *)
Lemma rotq_orth_scaled a b c d : orth_scaled (rotq a b c d) (qn a b c d * qn a b c d).
Proof. apply rotq_orthogonal. Qed.
Definition mirror_z : mat3 := ((1, 0, 0), (0, 1, 0), (0, 0, -1)).
Lemma mirror_orth : orth_scaled mirror_z 1 /\ det3 mirror_z = -1.
Proof. split; reflexivity. Qed.
Definition improper_example : mat3 := ((2, -2, 1), (1, 2, 2), (2, 1, -2)).
Definition proper_example : mat3 := ((2, -2, 1), (1, 2, 2), (-2, -1, 2)).
Lemma orth_example : (orth_scaled improper_example 9 /\ (det3 improper_example = -27)) /\
                     (orth_scaled proper_example 9 /\ (det3 proper_example = 27)).
Proof. repeat split; reflexivity. Qed.
