(* C09 — invariance of the derived observables (neighbour sets, contacts, hydrogen-bond criterion) under every
   scaled orthogonal motion, of every function of the pair distances over the reals, and of every function of the
   minimum-image pair distances under per-atom lattice shifts. *)
From Coq Require Import ZArith List Bool Lia.
Import ListNotations.
Require Import MD.PBC.Model MD.PBC.Rounding MD.PBC.Proofs MD.Invar.Model MD.Invar.Proofs MD.Invar.Orth MD.Invar.DerivedModel.
Open Scope Z_scope.

Section Orth.
Variable M : mat3.
Variable s : Z.
Hypothesis H : orth_scaled M s.
Hypothesis Hs : 0 < s.
Variables tx ty tz : Z.
Let g := rigid M (tx, ty, tz).

Lemma nth_map_g l i : (i < length l)%nat -> nth i (map g l) vzero = g (nth i l vzero).
Proof. intros Hi. rewrite (nth_indep _ vzero (g vzero)) by (rewrite map_length; exact Hi). apply map_nth. Qed.

Lemma d2_orth l i j : (i < length l)%nat -> (j < length l)%nat -> d2 (map g l) i j = s * d2 l i j.
Proof. intros Hi Hj. unfold d2. rewrite !nth_map_g by assumption. apply (dist2_orth M s H). Qed.

Lemma neighbors_orth c2 l query hay :
  Forall (fun i => (i < length l)%nat) query -> Forall (fun i => (i < length l)%nat) hay ->
  neighbors_obs (s * c2) (map g l) query hay = neighbors_obs c2 l query hay.
Proof.
  intros Hq Hh. unfold neighbors_obs. rewrite Forall_forall in Hq, Hh.
  apply filter_ext_in. intros i Hi.
  induction query as [|j q IH]; [reflexivity|].
  cbn [existsb]. rewrite IH by (intros x Hx; apply Hq; right; exact Hx). f_equal. f_equal.
  rewrite d2_orth by (try (apply Hh; exact Hi); apply Hq; left; reflexivity).
  destruct (Z.ltb_spec (d2 l i j) c2), (Z.ltb_spec (s * d2 l i j) (s * c2)); try reflexivity; nia.
Qed.

Lemma fold_zmin_scale xs : forall a,
  fold_left zmin_opt (map (Z.mul s) xs) (option_map (Z.mul s) a) = option_map (Z.mul s) (fold_left zmin_opt xs a).
Proof.
  induction xs as [|x xs IH]; intros a; [reflexivity|]. cbn [map fold_left]. rewrite <- IH. f_equal.
  destruct a as [y|]; cbn; [|reflexivity]. f_equal. rewrite Z.mul_min_distr_nonneg_l by lia. reflexivity.
Qed.

Lemma contact_orth l A B :
  Forall (fun i => (i < length l)%nat) A -> Forall (fun i => (i < length l)%nat) B ->
  contact_obs (map g l) A B = option_map (Z.mul s) (contact_obs l A B).
Proof.
  intros HA HB. unfold contact_obs. rewrite <- (fold_zmin_scale _ None). f_equal.
  rewrite Forall_forall in HA, HB.
  induction A as [|i A IH]; [reflexivity|].
  cbn [flat_map]. rewrite map_app, IH by (intros x Hx; apply HA; right; exact Hx). f_equal.
  rewrite map_map. apply map_ext_in. intros j Hj. apply d2_orth; [apply HA; left; reflexivity | apply HB; exact Hj].
Qed.

Lemma hbond_orth c2 l d h a : (d < length l)%nat -> (h < length l)%nat -> (a < length l)%nat ->
  hbond_obs (s * c2) (map g l) d h a = hbond_obs c2 l d h a.
Proof.
  intros Hd Hh Ha. unfold hbond_obs. rewrite !d2_orth by assumption.
  set (A := d2 l d h). set (B := d2 l h a). set (C := d2 l d a).
  f_equal; [f_equal|].
  - destruct (Z.ltb_spec B c2), (Z.ltb_spec (s * B) (s * c2)); try reflexivity; nia.
  - destruct (Z.ltb_spec (A + B - C) 0), (Z.ltb_spec (s * A + s * B - s * C) 0); try reflexivity; nia.
  - replace ((s * A + s * B - s * C) * (s * A + s * B - s * C)) with (s * s * ((A + B - C) * (A + B - C))) by ring.
    replace (s * A * (s * B)) with (s * s * (A * B)) by ring.
    destruct (Z.ltb_spec (A * B) ((A + B - C) * (A + B - C))),
             (Z.ltb_spec (s * s * (A * B)) (s * s * ((A + B - C) * (A + B - C)))); try reflexivity; nia.
Qed.
End Orth.

(* ------------------------------------------------------------------ periodic: all minimum-image pair distances *)
Lemma mic_pair_dists_shift_invariant p B (l ts : list vec) w :
  length ts = length l ->
  (forall x y, In x l -> In y l -> tie_free_path p B (vsub y x)) ->
  mic_pair_dists p B (map (fun xt => moved B w (fst xt) (snd xt)) (combine l ts)) = mic_pair_dists p B l.
Proof.
  intros Hl Htf.
  assert (Hfst : map fst (combine l ts) = l).
  { clear - Hl. revert ts Hl. induction l as [|x l IH]; intros [|t ts] Hl; try discriminate; [reflexivity|].
    cbn. f_equal. apply IH. injection Hl as Hl. exact Hl. }
  assert (Hin : forall xt, In xt (combine l ts) -> In (fst xt) l).
  { intros [x t] Hx. apply (in_combine_l _ _ _ _ Hx). }
  revert Hfst Hin. generalize (combine l ts) as cs. intros cs Hfst Hin.
  rewrite <- Hfst. unfold mic_pair_dists.
  rewrite !flat_map_concat_map, !map_map. f_equal. apply map_ext_in. intros xt Hx.
  rewrite !map_map. apply map_ext_in. intros yt Hy.
  apply mic_dist2_shift_invariant. apply Htf; [apply Hin; exact Hx | apply Hin; exact Hy].
Qed.
