(* C09 — invariance of the observables under rigid motion and lattice translation.  Polynomial identities
   over Z proved with [ring] (closed under the global context). *)
From Coq Require Import ZArith List Bool Lia.
Import ListNotations.
Require Import MD.PBC.Model MD.PBC.Rounding MD.PBC.Proofs MD.Invar.Model.
Open Scope Z_scope.

Ltac dv := repeat match goal with
                  | v : vec |- _ => destruct v as [[? ?] ?]
                  | M : mat3 |- _ => destruct M as [[? ?] ?]
                  end.
Ltac unf := cbv [rigid mv mm transp col mscale madd mzero ident det3 triple trace minor2 rotq qn
                 outer row1 row2 row3 dist2_obs angle_obs dihedral_obs vget
                 comb vadd vsub vscale vneg vzero norm2 dot cross vx vy vz fst snd] in *.
Ltac veq := apply vec_ext; unf; ring.
Lemma mat_ext (A B : mat3) : row1 A = row1 B -> row2 A = row2 B -> row3 A = row3 B -> A = B.
Proof. destruct A as [[? ?] ?], B as [[? ?] ?]. cbn. intros -> -> ->. reflexivity. Qed.
Ltac meq := apply mat_ext; apply vec_ext; unf; ring.

(* ------------------------------------------------------------------ rotations *)
Lemma rotq_orthogonal a b c d : mm (transp (rotq a b c d)) (rotq a b c d) = mscale (qn a b c d * qn a b c d) ident.
Proof. meq. Qed.

Lemma rotq_det a b c d : det3 (rotq a b c d) = qn a b c d * qn a b c d * qn a b c d.
Proof. unf. ring. Qed.

Lemma dot_rot a b c d u v :
  dot (mv (rotq a b c d) u) (mv (rotq a b c d) v) = qn a b c d * qn a b c d * dot u v.
Proof. dv. unf. ring. Qed.

(* for ANY matrix: the triple product picks up the determinant *)
Lemma triple_mat M u v w : triple (mv M u) (mv M v) (mv M w) = det3 M * triple u v w.
Proof. dv. unf. ring. Qed.

Lemma triple_rot a b c d u v w :
  triple (mv (rotq a b c d) u) (mv (rotq a b c d) v) (mv (rotq a b c d) w) =
  qn a b c d * qn a b c d * qn a b c d * triple u v w.
Proof. rewrite triple_mat, rotq_det. reflexivity. Qed.

(* Binet-Cauchy *)
Lemma cross_dot_binet p q r s : dot (cross p q) (cross r s) = dot p r * dot q s - dot p s * dot q r.
Proof. dv. unf. ring. Qed.

Lemma cross_rot a b c d u v :
  cross (mv (rotq a b c d) u) (mv (rotq a b c d) v) = vscale (qn a b c d) (mv (rotq a b c d) (cross u v)).
Proof. dv. apply vec_ext; unf; ring. Qed.

(* rigid motion acts on separations through the matrix alone *)
Lemma rigid_sep M t x y : vsub (rigid M t y) (rigid M t x) = mv M (vsub y x).
Proof. dv. veq. Qed.

(* ------------------------------------------------------------------ local observables *)
Section Rot.
Variables a b c d : Z.
Variables tx ty tz : Z.
Let t : vec := (tx, ty, tz).
Let n := qn a b c d.
Let g := rigid (rotq a b c d) t.

Lemma dist2_rigid x y : dist2_obs (g x) (g y) = n * n * dist2_obs x y.
Proof. unfold dist2_obs, g, norm2. rewrite rigid_sep, dot_rot. reflexivity. Qed.

Lemma angle_rigid xa xb xc :
  angle_obs (g xa) (g xb) (g xc) =
  let '(p, l1, l2) := angle_obs xa xb xc in (n * n * p, n * n * l1, n * n * l2).
Proof. unfold angle_obs, g, norm2. rewrite !rigid_sep, !dot_rot. reflexivity. Qed.

(* (|b2|^2, T, P) -> (n^2 |b2|^2, n^3 T, n^4 P): atan2(sqrt(n^2 |b2|^2) n^3 T, n^4 P) = atan2(|b2| T, P), n > 0 *)
Lemma dihedral_rigid x0 x1 x2 x3 :
  dihedral_obs (g x0) (g x1) (g x2) (g x3) =
  let '(l2, tr, pp) := dihedral_obs x0 x1 x2 x3 in (n * n * l2, n * n * n * tr, n * n * n * n * pp).
Proof.
  unfold dihedral_obs, g, norm2. rewrite !rigid_sep, triple_rot, !cross_dot_binet, !dot_rot.
  cbv beta iota zeta. rewrite ?cross_dot_binet. unfold n.
  repeat match goal with |- (_, _) = (_, _) => apply f_equal2 end; ring.
Qed.

(* ------------------------------------------------------------------ global observables *)
Lemma vsum_rigid l : vsum (map g l) = vadd (mv (rotq a b c d) (vsum l)) (vscale (Z.of_nat (length l)) t).
Proof.
  induction l as [|x l IH].
  - cbn. veq.
  - cbn [map vsum length]. rewrite IH. rewrite Nat2Z.inj_succ. unfold g. generalize (vsum l) (Z.of_nat (length l)).
    intros s k. dv. veq.
Qed.

Lemma centered_rigid l : centered (map g l) = map (mv (rotq a b c d)) (centered l).
Proof.
  unfold centered. rewrite map_length, vsum_rigid, !map_map. apply map_ext. intros x.
  unfold g. generalize (vsum l) (Z.of_nat (length l)). intros s k. dv. veq.
Qed.

Lemma rg_rigid l : rg_obs (map g l) = n * n * rg_obs l.
Proof.
  unfold rg_obs. rewrite centered_rigid. generalize (centered l). intros cs.
  induction cs as [|x cs IH]; cbn [map zsum]; [ring|]. rewrite IH. unfold norm2. rewrite dot_rot. unfold n. ring.
Qed.

Lemma outer_mv M x : outer (mv M x) = mm (mm M (outer x)) (transp M).
Proof. dv. meq. Qed.

Lemma mm_madd_l M A B : mm M (madd A B) = madd (mm M A) (mm M B).
Proof. dv. meq. Qed.
Lemma mm_madd_r M A B : mm (madd A B) M = madd (mm A M) (mm B M).
Proof. dv. meq. Qed.
Lemma mm_zero_l M : mm M mzero = mzero.
Proof. dv. meq. Qed.
Lemma mm_zero_r M : mm mzero M = mzero.
Proof. dv. meq. Qed.

(* the gyration tensor transforms by congruence: G' = M G M^T *)
Lemma gyration_rigid l :
  gyration (map g l) = mm (mm (rotq a b c d) (gyration l)) (transp (rotq a b c d)).
Proof.
  unfold gyration. rewrite centered_rigid. generalize (centered l). intros cs.
  induction cs as [|x cs IH]; cbn [map msum].
  - rewrite mm_zero_l, mm_zero_r. reflexivity.
  - rewrite IH, outer_mv, mm_madd_l, mm_madd_r. reflexivity.
Qed.

Lemma det_mm A B : det3 (mm A B) = det3 A * det3 B.
Proof. dv. unf. ring. Qed.
Lemma det_transp A : det3 (transp A) = det3 A.
Proof. dv. unf. ring. Qed.

Lemma trace_conj G : trace (mm (mm (rotq a b c d) G) (transp (rotq a b c d))) = n * n * trace G.
Proof. dv. unfold n. unf. ring. Qed.

Lemma det_conj G : det3 (mm (mm (rotq a b c d) G) (transp (rotq a b c d))) = n * n * n * n * n * n * det3 G.
Proof. rewrite !det_mm, det_transp, rotq_det. unfold n. ring. Qed.

Lemma minor2_conj G : minor2 (mm (mm (rotq a b c d) G) (transp (rotq a b c d))) = n * n * n * n * minor2 G.
Proof. dv. unfold n. unf. ring. Qed.

(* trace, second invariant and determinant of the gyration tensor (hence its eigenvalues, asphericity,
   acylindricity, relative shape anisotropy) are those of the unrotated structure, scaled by n^2, n^4, n^6 *)
Lemma gyration_invariants_rigid l :
  trace (gyration (map g l)) = n * n * trace (gyration l) /\
  minor2 (gyration (map g l)) = n * n * n * n * minor2 (gyration l) /\
  det3 (gyration (map g l)) = n * n * n * n * n * n * det3 (gyration l).
Proof. rewrite gyration_rigid. split; [apply trace_conj | split; [apply minor2_conj | apply det_conj]]. Qed.

Lemma pair_dists_rigid l : pair_dists (map g l) = map (fun q => n * n * q) (pair_dists l).
Proof.
  unfold pair_dists. rewrite flat_map_concat_map, map_map, flat_map_concat_map, concat_map, map_map.
  f_equal. apply map_ext. intros x. rewrite !map_map. apply map_ext. intros y. apply dist2_rigid.
Qed.
End Rot.
