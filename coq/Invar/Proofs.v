(* C09 — invariance of the observables under rigid motion and lattice translation.  Polynomial identities
   over Z proved with [ring] (closed under the global context). *)
From Coq Require Import ZArith List Bool Lia.
Import ListNotations.
Require Import MD.PBC.Model MD.PBC.Rounding MD.PBC.Proofs MD.Invar.Model.
Open Scope Z_scope.

Ltac dv := repeat match goal with
                  | v : vec |- _ => destruct v as [[? ?] ?]
                  | M : mat3 |- _ => destruct M as [[? ?] ?]
                  end.
Ltac unf := cbv [rigid mv mm transp col mscale madd mzero ident det3 triple trace minor2 rotq qn
                 outer row1 row2 row3 dist2_obs angle_obs dihedral_obs vget
                 comb vadd vsub vscale vneg vzero norm2 dot cross vx vy vz fst snd] in *.
Ltac veq := apply vec_ext; unf; ring.
Lemma mat_ext (A B : mat3) : row1 A = row1 B -> row2 A = row2 B -> row3 A = row3 B -> A = B.
Proof. destruct A as [[? ?] ?], B as [[? ?] ?]. cbn. intros -> -> ->. reflexivity. Qed.
Ltac meq := apply mat_ext; apply vec_ext; unf; ring.

(* ------------------------------------------------------------------ rotations *)
Lemma rotq_orthogonal a b c d : mm (transp (rotq a b c d)) (rotq a b c d) = mscale (qn a b c d * qn a b c d) ident.
Proof. meq. Qed.

Lemma rotq_det a b c d : det3 (rotq a b c d) = qn a b c d * qn a b c d * qn a b c d.
Proof. unf. ring. Qed.

Lemma dot_rot a b c d u v :
  dot (mv (rotq a b c d) u) (mv (rotq a b c d) v) = qn a b c d * qn a b c d * dot u v.
Proof. dv. unf. ring. Qed.

(* for ANY matrix: the triple product picks up the determinant *)
Lemma triple_mat M u v w : triple (mv M u) (mv M v) (mv M w) = det3 M * triple u v w.
Proof. dv. unf. ring. Qed.

Lemma triple_rot a b c d u v w :
  triple (mv (rotq a b c d) u) (mv (rotq a b c d) v) (mv (rotq a b c d) w) =
  qn a b c d * qn a b c d * qn a b c d * triple u v w.
Proof. rewrite triple_mat, rotq_det. reflexivity. Qed.

(* Binet-Cauchy *)
Lemma cross_dot_binet p q r s : dot (cross p q) (cross r s) = dot p r * dot q s - dot p s * dot q r.
Proof. dv. unf. ring. Qed.

Lemma cross_rot a b c d u v :
  cross (mv (rotq a b c d) u) (mv (rotq a b c d) v) = vscale (qn a b c d) (mv (rotq a b c d) (cross u v)).
Proof. dv. apply vec_ext; unf; ring. Qed.

(* rigid motion acts on separations through the matrix alone *)
Lemma rigid_sep M t x y : vsub (rigid M t y) (rigid M t x) = mv M (vsub y x).
Proof. dv. veq. Qed.

(* ------------------------------------------------------------------ local observables *)
Section Rot.
Variables a b c d : Z.
Variables tx ty tz : Z.
Let n := qn a b c d.
Let g := rigid (rotq a b c d) (tx, ty, tz).

Lemma dist2_rigid x y : dist2_obs (g x) (g y) = n * n * dist2_obs x y.
Proof. unfold dist2_obs, g, norm2. rewrite rigid_sep, dot_rot. reflexivity. Qed.

Lemma angle_rigid xa xb xc :
  angle_obs (g xa) (g xb) (g xc) =
  let '(p, l1, l2) := angle_obs xa xb xc in (n * n * p, n * n * l1, n * n * l2).
Proof. unfold angle_obs, g, norm2. rewrite !rigid_sep, !dot_rot. reflexivity. Qed.

(* (|b2|^2, T, P) -> (n^2 |b2|^2, n^3 T, n^4 P): atan2(sqrt(n^2 |b2|^2) n^3 T, n^4 P) = atan2(|b2| T, P), n > 0 *)
Lemma dihedral_rigid x0 x1 x2 x3 :
  dihedral_obs (g x0) (g x1) (g x2) (g x3) =
  let '(l2, tr, pp) := dihedral_obs x0 x1 x2 x3 in (n * n * l2, n * n * n * tr, n * n * n * n * pp).
Proof.
  unfold dihedral_obs, g, norm2. rewrite !rigid_sep, triple_rot, !cross_dot_binet, !dot_rot.
  cbv beta iota zeta. rewrite ?cross_dot_binet. unfold n.
  repeat match goal with |- (_, _) = (_, _) => apply f_equal2 end; ring.
Qed.

(* ------------------------------------------------------------------ global observables *)
Lemma vsum_rigid l : vsum (map g l) = vadd (mv (rotq a b c d) (vsum l)) (vscale (Z.of_nat (length l)) (tx, ty, tz)).
Proof.
  induction l as [|x l IH].
  - cbn. veq.
  - cbn [map vsum length]. rewrite IH. rewrite Nat2Z.inj_succ. unfold g. generalize (vsum l) (Z.of_nat (length l)).
    intros s k. dv. veq.
Qed.

Lemma centered_rigid l : centered (map g l) = map (mv (rotq a b c d)) (centered l).
Proof.
  unfold centered. rewrite map_length, vsum_rigid, !map_map. apply map_ext. intros x.
  unfold g. generalize (vsum l) (Z.of_nat (length l)). intros s k. dv. veq.
Qed.

Lemma rg_rigid l : rg_obs (map g l) = n * n * rg_obs l.
Proof.
  unfold rg_obs. rewrite centered_rigid. generalize (centered l). intros cs.
  induction cs as [|x cs IH]; cbn [map zsum]; [ring|]. rewrite IH. unfold norm2. rewrite dot_rot. unfold n. ring.
Qed.

Lemma outer_mv M x : outer (mv M x) = mm (mm M (outer x)) (transp M).
Proof. dv. meq. Qed.

Lemma mm_madd_l M A B : mm M (madd A B) = madd (mm M A) (mm M B).
Proof. dv. meq. Qed.
Lemma mm_madd_r M A B : mm (madd A B) M = madd (mm A M) (mm B M).
Proof. dv. meq. Qed.
Lemma mm_zero_l M : mm M mzero = mzero.
Proof. dv. meq. Qed.
Lemma mm_zero_r M : mm mzero M = mzero.
Proof. dv. meq. Qed.

(* the gyration tensor transforms by congruence: G' = M G M^T *)
Lemma gyration_rigid l :
  gyration (map g l) = mm (mm (rotq a b c d) (gyration l)) (transp (rotq a b c d)).
Proof.
  unfold gyration. rewrite centered_rigid. generalize (centered l). intros cs.
  induction cs as [|x cs IH]; cbn [map msum].
  - rewrite mm_zero_l, mm_zero_r. reflexivity.
  - rewrite IH, outer_mv, mm_madd_l, mm_madd_r. reflexivity.
Qed.

Lemma det_mm A B : det3 (mm A B) = det3 A * det3 B.
Proof. dv. unf. ring. Qed.
Lemma det_transp A : det3 (transp A) = det3 A.
Proof. dv. unf. ring. Qed.

Lemma trace_conj G : trace (mm (mm (rotq a b c d) G) (transp (rotq a b c d))) = n * n * trace G.
Proof. dv. unfold n. unf. ring. Qed.

Lemma det_conj G : det3 (mm (mm (rotq a b c d) G) (transp (rotq a b c d))) = n * n * n * n * n * n * det3 G.
Proof. rewrite !det_mm, det_transp, rotq_det. unfold n. ring. Qed.

Lemma minor2_conj G : minor2 (mm (mm (rotq a b c d) G) (transp (rotq a b c d))) = n * n * n * n * minor2 G.
Proof. dv. unfold n. unf. ring. Qed.

(* trace, second invariant and determinant of the gyration tensor (hence its eigenvalues, asphericity,
   acylindricity, relative shape anisotropy) are those of the unrotated structure, scaled by n^2, n^4, n^6 *)
Lemma gyration_invariants_rigid l :
  trace (gyration (map g l)) = n * n * trace (gyration l) /\
  minor2 (gyration (map g l)) = n * n * n * n * minor2 (gyration l) /\
  det3 (gyration (map g l)) = n * n * n * n * n * n * det3 (gyration l).
Proof. rewrite gyration_rigid. split; [apply trace_conj | split; [apply minor2_conj | apply det_conj]]. Qed.

Lemma pair_dists_rigid l : pair_dists (map g l) = map (fun q => n * n * q) (pair_dists l).
Proof.
  unfold pair_dists. rewrite flat_map_concat_map, map_map, flat_map_concat_map, concat_map, map_map.
  f_equal. apply map_ext. intros x. rewrite !map_map. apply map_ext. intros y. apply dist2_rigid.
Qed.
End Rot.

(* ------------------------------------------------------------------ periodic systems *)
(* whole-system translation never reaches the minimum-image code: separations are unchanged *)
Lemma translation_sep t x y : vsub (vadd y t) (vadd x t) = vsub y x.
Proof. dv. veq. Qed.

(* the tie-free hypothesis of C05's shift_invariant, per code path *)
Definition tie_free_path (p : path) (B : box) (r : vec) : Prop :=
  match p with
  | PPlain => False
  | POrthoSSE => ortho_pos B /\ strict_region B (path_disp p B r)
  | _ => lower_tri_pos B /\
         strict_region (reduce (rmode_of_path p) B) (wrap (rmode_of_path p) (reduce (rmode_of_path p) B) r)
  end.

(* moving the two atoms by arbitrary lattice vectors t1, t2 and the whole system by s *)
Lemma mic_disp_shift_invariant p B x1 x2 t1 t2 s : tie_free_path p B (vsub x2 x1) ->
  path_disp p B (vsub (vadd (vadd x2 (comb B t2)) s) (vadd (vadd x1 (comb B t1)) s)) = path_disp p B (vsub x2 x1).
Proof.
  intros H. rewrite translation_sep.
  replace (vsub (vadd x2 (comb B t2)) (vadd x1 (comb B t1))) with (vadd (vsub x2 x1) (comb B (vsub t2 t1)))
    by (destruct B as [? ? ?]; dv; veq).
  pose proof (all_paths_shift_invariant p B (vsub x2 x1) (vsub t2 t1)) as Hs.
  destruct p; cbn [tie_free_path] in H; try contradiction; destruct H as [H1 H2]; exact (Hs H1 H2).
Qed.

Definition moved (B : box) (s : vec) (x t : vec) : vec := vadd (vadd x (comb B t)) s.

Lemma mic_dist2_shift_invariant p B s x1 x2 t1 t2 : tie_free_path p B (vsub x2 x1) ->
  mic_dist2 p B (moved B s x1 t1) (moved B s x2 t2) = mic_dist2 p B x1 x2.
Proof. intros H. unfold mic_dist2, moved. rewrite mic_disp_shift_invariant by exact H. reflexivity. Qed.

Lemma mic_angle_shift_invariant p B s xa xb xc ta tb tc :
  tie_free_path p B (vsub xa xb) -> tie_free_path p B (vsub xc xb) ->
  mic_angle_obs p B (moved B s xa ta) (moved B s xb tb) (moved B s xc tc) = mic_angle_obs p B xa xb xc.
Proof.
  intros H1 H2. unfold mic_angle_obs, moved. rewrite !mic_disp_shift_invariant by assumption. reflexivity.
Qed.

Lemma mic_dihedral_shift_invariant p B s x0 x1 x2 x3 t0 t1 t2 t3 :
  tie_free_path p B (vsub x1 x0) -> tie_free_path p B (vsub x2 x1) -> tie_free_path p B (vsub x3 x2) ->
  mic_dihedral_obs p B (moved B s x0 t0) (moved B s x1 t1) (moved B s x2 t2) (moved B s x3 t3) =
  mic_dihedral_obs p B x0 x1 x2 x3.
Proof.
  intros H1 H2 H3. unfold mic_dihedral_obs, moved. rewrite !mic_disp_shift_invariant by assumption. reflexivity.
Qed.

(* ------------------------------------------------------------------ neighbour list *)
Lemma wrap_shift1d L xs : 0 < L -> forall ks, length ks = length xs ->
  map (wrap01 L) (shift1d L xs ks) = map (wrap01 L) xs.
Proof.
  intros HL. unfold shift1d. induction xs as [|x xs IH]; intros ks Hk; destruct ks as [|k ks]; try discriminate.
  - reflexivity.
  - cbn [combine map fst snd]. rewrite IH by (cbn in Hk; lia). f_equal.
    unfold wrap01. apply Z_mod_plus_full.
Qed.

(* repaired variant: lattice shifts of individual atoms leave the neighbour relation unchanged *)
Lemma nl_fix_shift_invariant L c xs ks : 0 < L -> length ks = length xs ->
  nl_fix L c (shift1d L xs ks) = nl_fix L c xs.
Proof.
  intros HL Hk. unfold nl_fix. rewrite wrap_shift1d by assumption. reflexivity.
Qed.

(* as found: the statement is false.  Cell length 10, cutoff 2, atoms at 5 and 6 are neighbours; the same
   atoms with the first one moved by one cell length (15 and 6) are not. *)
Lemma nl_cur_shift_refuted :
  exists L c xs ks, 0 < L /\ 0 < c /\ 2 * c < L /\ length ks = length xs /\
    nl_cur L c (shift1d L xs ks) <> nl_cur L c xs.
Proof. exists 10, 2, [5; 6], [1; 0]. repeat split; try lia. vm_compute. discriminate. Qed.

Lemma nl_example :
  nl_cur 10 2 [5; 6] = [[false; true]; [true; false]] /\ nl_cur 10 2 [15; 6] = [[false; false]; [false; false]] /\
  nl_fix 10 2 [15; 6] = [[false; true]; [true; false]] /\
  nl_cur 10 2 [1; 9; 5] = [[false; true; false]; [true; false; false]; [false; false; false]].
Proof. vm_compute. repeat split; reflexivity. Qed.

Lemma example_tie_free :
  let B := mkbox (3072, 0, 0) (5120, 3000, 0) (-7000, 8100, 2900) in
  tie_free_path PTricCpp B (117204, -30050, -28940) /\ tie_free_path PTricNp B (117204, -30050, -28940) /\
  tie_free_path POrthoSSE (mkbox (3072, 0, 0) (0, 4000, 0) (0, 0, 2900)) (40000, -51234, 30011).
Proof.
  cbv zeta. repeat split; try reflexivity; vm_compute; try reflexivity; intros; discriminate.
Qed.
