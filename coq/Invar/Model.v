(* C09 — observables and rigid motions over Z (no proofs in this file).

   Coordinates are integers in a common dyadic unit (float32 values are dyadic rationals).  A proper
   rotation with rational entries is R = M/n with M = rotq a b c d (Euler-Rodrigues matrix of the integer
   quaternion (a,b,c,d)) and n = a^2+b^2+c^2+d^2; every rational rotation matrix has this form.  Working
   with M instead of R keeps everything in Z: lengths^2 scale by n^2, triple products by n^3.

   Observables are written the way the kernels compute them (anchors relative to /repo/mdtraj):
     geometry/src/kernels/distancekernels.h   r12 = pos2 - pos1, dot3(r12, r12)
     geometry/src/kernels/anglekernels.h      v1 = x[a]-x[b], v2 = x[c]-x[b], dot3(v1,v2)/(|v1||v2|)
     geometry/src/kernels/dihedralkernels.h   b1,b2,b3 consecutive bond vectors,
                                              atan2(|b2| b1.(b2 x b3), (b1 x b2).(b2 x b3))
     geometry/rg.py                           mean-centred coordinates, sum of squares
     geometry/shape.py                        gyration tensor = sum of outer products of centred coordinates
     geometry/src/neighborlist.cpp            Voxels::getNeighbors, x-range search inside one y/z bin *)
From Coq Require Import ZArith List Bool.
Import ListNotations.
Require Import MD.PBC.Model.
Open Scope Z_scope.

(* ------------------------------------------------------------------ matrices, rigid motions *)
Definition mat3 := (vec * vec * vec)%type.           (* rows *)
Definition row1 (M : mat3) : vec := fst (fst M).
Definition row2 (M : mat3) : vec := snd (fst M).
Definition row3 (M : mat3) : vec := snd M.
Definition mv (M : mat3) (v : vec) : vec := (dot (row1 M) v, dot (row2 M) v, dot (row3 M) v).
Definition col (M : mat3) (i : nat) : vec := (vget (row1 M) i, vget (row2 M) i, vget (row3 M) i).
Definition transp (M : mat3) : mat3 := (col M 0, col M 1, col M 2).
Definition mm (A B : mat3) : mat3 :=
  let Bt := transp B in
  (mv Bt (row1 A), mv Bt (row2 A), mv Bt (row3 A)).
Definition mscale (k : Z) (M : mat3) : mat3 := (vscale k (row1 M), vscale k (row2 M), vscale k (row3 M)).
Definition madd (A B : mat3) : mat3 := (vadd (row1 A) (row1 B), vadd (row2 A) (row2 B), vadd (row3 A) (row3 B)).
Definition mzero : mat3 := (vzero, vzero, vzero).
Definition ident : mat3 := ((1, 0, 0), (0, 1, 0), (0, 0, 1)).
Definition triple (u v w : vec) : Z := dot u (cross v w).
Definition det3 (M : mat3) : Z := triple (row1 M) (row2 M) (row3 M).
Definition trace (M : mat3) : Z := vx (row1 M) + vy (row2 M) + vz (row3 M).
(* second invariant: sum of the principal 2x2 minors *)
Definition minor2 (M : mat3) : Z :=
  vx (row1 M) * vy (row2 M) - vy (row1 M) * vx (row2 M) +
  (vy (row2 M) * vz (row3 M) - vz (row2 M) * vy (row3 M)) +
  (vx (row1 M) * vz (row3 M) - vz (row1 M) * vx (row3 M)).

Definition qn (a b c d : Z) : Z := a * a + b * b + c * c + d * d.
Definition rotq (a b c d : Z) : mat3 :=
  ((a * a + b * b - c * c - d * d, 2 * (b * c - a * d), 2 * (b * d + a * c)),
   (2 * (b * c + a * d), a * a - b * b + c * c - d * d, 2 * (c * d - a * b)),
   (2 * (b * d - a * c), 2 * (c * d + a * b), a * a - b * b - c * c + d * d)).

(* x |-> M x + t (t already in the scaled frame) *)
Definition rigid (M : mat3) (t : vec) (x : vec) : vec := vadd (mv M x) t.

(* ------------------------------------------------------------------ observables *)
Definition dist2_obs (x1 x2 : vec) : Z := norm2 (vsub x2 x1).

(* numerator and the two squared lengths of the cosine *)
Definition angle_obs (xa xb xc : vec) : Z * Z * Z :=
  let v1 := vsub xa xb in let v2 := vsub xc xb in (dot v1 v2, norm2 v1, norm2 v2).

(* (|b2|^2, b1.(b2 x b3), (b1 x b2).(b2 x b3)):  phi = atan2(sqrt(|b2|^2) * second, third) *)
Definition dihedral_obs (x0 x1 x2 x3 : vec) : Z * Z * Z :=
  let b1 := vsub x1 x0 in let b2 := vsub x2 x1 in let b3 := vsub x3 x2 in
  (norm2 b2, triple b1 b2 b3, dot (cross b1 b2) (cross b2 b3)).

Fixpoint vsum (l : list vec) : vec :=
  match l with [] => vzero | x :: r => vadd x (vsum r) end.
Fixpoint zsum (l : list Z) : Z :=
  match l with [] => 0 | x :: r => x + zsum r end.

(* N x_i - sum_j x_j  (= N times the mean-centred coordinate) *)
Definition centered (l : list vec) : list vec :=
  let N := Z.of_nat (length l) in let S := vsum l in map (fun x => vsub (vscale N x) S) l.

(* N^3 Rg^2 *)
Definition rg_obs (l : list vec) : Z := zsum (map norm2 (centered l)).

Definition outer (x : vec) : mat3 := (vscale (vx x) x, vscale (vy x) x, vscale (vz x) x).
Fixpoint msum (l : list mat3) : mat3 :=
  match l with [] => mzero | m :: r => madd m (msum r) end.
(* N^3 times the gyration tensor *)
Definition gyration (l : list vec) : mat3 := msum (map outer (centered l)).

(* all pairwise squared distances (contacts, DRID, Kabsch-Sander energies, neighbour tests are functions of these) *)
Definition pair_dists (l : list vec) : list Z :=
  flat_map (fun x => map (fun y => dist2_obs x y) l) l.

(* minimum-image versions: built from the displacement vectors the C05 model returns *)
Definition mic_dist2 (p : path) (B : box) (x1 x2 : vec) : Z := norm2 (path_disp p B (vsub x2 x1)).
Definition mic_angle_obs (p : path) (B : box) (xa xb xc : vec) : Z * Z * Z :=
  let v1 := path_disp p B (vsub xa xb) in let v2 := path_disp p B (vsub xc xb) in (dot v1 v2, norm2 v1, norm2 v2).
Definition mic_dihedral_obs (p : path) (B : box) (x0 x1 x2 x3 : vec) : Z * Z * Z :=
  let b1 := path_disp p B (vsub x1 x0) in let b2 := path_disp p B (vsub x2 x1) in
  let b3 := path_disp p B (vsub x3 x2) in
  (norm2 b2, triple b1 b2 b3, dot (cross b1 b2) (cross b2 b3)).

(* ------------------------------------------------------------------ neighbour list, x-range search of one bin
   One-dimensional projection of Voxels::getNeighbors for an orthorhombic cell of length L with a single y/z
   bin: the bin holds (raw x, index) sorted by raw x; for the centre atom i the code scans raw x in
   [x_i - c, x_i + c] and, when that window leaves [0, L] ("needPeriodic"), ONE more range shifted by one box
   length; candidates pass if index < i and the wrapped distance is <= c; pairs are then symmetrised.
   nl_cur works on the raw coordinates (as found); nl_fix wraps every coordinate into [0, L) first. *)
Definition wrap01 (L x : Z) : Z := x mod L.
Definition mic1d (L d : Z) : Z := d - rnd_htz d L * L.

Definition in_window (lo hi x : Z) : bool := (lo <=? x) && (x <=? hi).

(* the atoms (by index) the range search of centre i looks at *)
Definition scanned (L c : Z) (xs : list Z) (i : nat) : list nat :=
  let xi := nth i xs 0 in
  let minx := xi - c in let maxx := xi + c in
  let need := (minx <? 0) || (L <? maxx) in
  let idx := seq 0 (length xs) in
  let r0 := filter (fun j => in_window minx maxx (nth j xs 0)) idx in
  let below := filter (fun j => nth j xs 0 <? minx) idx in       (* sorted position < rangeStart[0] *)
  let above := filter (fun j => maxx <? nth j xs 0) idx in       (* sorted position >= rangeEnd[0] *)
  if need then
    match below, above with
    | _ :: _, _ :: _ => r0                                               (* numRanges = 1 *)
    | _ :: _, [] => r0 ++ filter (fun j => nth j xs 0 <=? maxx - L) below
    | [], _ => r0 ++ filter (fun j => minx + L <=? nth j xs 0) above
    end
  else r0.

Definition nl_half (L c : Z) (xs : list Z) (i : nat) : list nat :=
  filter (fun j => (j <? i)%nat && (Z.abs (mic1d L (nth j xs 0 - nth i xs 0)) <=? c)) (scanned L c xs i).

(* symmetrised neighbour relation as a boolean matrix *)
Definition nl_rel (L c : Z) (xs : list Z) (i j : nat) : bool :=
  existsb (Nat.eqb j) (nl_half L c xs i) || existsb (Nat.eqb i) (nl_half L c xs j).

Definition nl_cur (L c : Z) (xs : list Z) : list (list bool) :=
  map (fun i => map (fun j => nl_rel L c xs i j) (seq 0 (length xs))) (seq 0 (length xs)).
Definition nl_fix (L c : Z) (xs : list Z) : list (list bool) := nl_cur L c (map (wrap01 L) xs).

(* per-atom lattice shift *)
Definition shift1d (L : Z) (xs ks : list Z) : list Z := map (fun xk => fst xk + snd xk * L) (combine xs ks).
