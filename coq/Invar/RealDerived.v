(* C09 — over the reals: the matrix of ALL pair distances is unchanged by every rigid motion x |-> R x + t with
   R^T R = I, hence so is every quantity computed from it alone (DRID moments of 1/r, Kabsch-Sander energies
   0.084*332*(1/r_ON + 1/r_CH - 1/r_OH - 1/r_CN) and the DSSP pattern built on them, contacts with soft_min,
   Wernet-Nilsson's cone criterion through the law of cosines).  Uses the standard real-number axioms. *)
From Coq Require Import Reals List.
Import ListNotations.
Require Import MD.Invar.RealRot.
Open Scope R_scope.

Definition rpair_dists (l : list rvec) : list R := flat_map (fun x => map (fun y => rdist x y) l) l.

Lemma rpair_dists_rigid M t l : orthogonal M -> rpair_dists (map (rrigid M t) l) = rpair_dists l.
Proof.
  intros H. unfold rpair_dists. rewrite !flat_map_concat_map, !map_map. f_equal.
  apply map_ext. intros x. rewrite map_map. apply map_ext. intros y. apply rdist_rigid. exact H.
Qed.

Lemma function_of_distances_rigid {A : Type} (F : list R -> A) M t l : orthogonal M ->
  F (rpair_dists (map (rrigid M t) l)) = F (rpair_dists l).
Proof. intros H. rewrite rpair_dists_rigid by exact H. reflexivity. Qed.

(* the law of cosines used by hbond.py: the cosine of the angle at h is a function of three pair distances *)
Definition rcos_from_dists (dh ha da : R) : R := (dh * dh + ha * ha - da * da) / (2 * dh * ha).
Lemma hbond_cosine_rigid M t d h a : orthogonal M ->
  rcos_from_dists (rdist (rrigid M t d) (rrigid M t h)) (rdist (rrigid M t h) (rrigid M t a)) (rdist (rrigid M t d) (rrigid M t a)) =
  rcos_from_dists (rdist d h) (rdist h a) (rdist d a).
Proof. intros H. rewrite !rdist_rigid by exact H. reflexivity. Qed.
