(* C09 — observables DERIVED from pair distances, written as exact integer predicates the way the code decides them
   (no proofs in this file).  Coordinates are integers in a common dyadic unit; thresholds enter squared.

   Anchors (relative to /repo/mdtraj/geometry):
     src/neighbors.cpp  _compute_neighbors (no cell): atom i of the haystack is reported when some query atom j != i has
                        |x_i - x_j|^2 < cutoff^2                                          -> neighbors_obs
     contact.py         compute_contacts schemes 'closest' / 'closest-heavy' / 'ca': the minimum over the atom pairs
                        of the two residues of the pair distance                         -> contact_obs
     hbond.py           _compute_bounded_geometry + baker_hubbard: the angle comes from the THREE distances by the law
                        of cosines, cos = (a^2 + b^2 - c^2) / (2 a b); accepted when d(H..A) < cutoff and
                        angle > 120 degrees, i.e. cos < -1/2                              -> hbond_obs
     hbond.py           wernet_nilsson: d(D..A) < 0.33 nm - 0.00044 nm/deg^2 * angle^2 needs arccos: not polynomial,
                        covered by the real-number statement "any function of the pair distances"
     src/dridkernels.cpp, src/geometry.cpp kabsch_sander / dssp.cpp: functions of pair distances (1/r, moments of 1/r):
                        covered by the real-number statement as well *)
From Coq Require Import ZArith List Bool.
Import ListNotations.
Require Import MD.PBC.Model MD.Invar.Model.
Open Scope Z_scope.

Definition d2 (l : list vec) (i j : nat) : Z := dist2_obs (nth i l vzero) (nth j l vzero).

(* compute_neighbors without a cell: c2 = cutoff^2 in the coordinate unit *)
Definition neighbors_obs (c2 : Z) (l : list vec) (query haystack : list nat) : list nat :=
  filter (fun i => existsb (fun j => negb (Nat.eqb i j) && (d2 l i j <? c2)) query) haystack.

(* closest contact of two atom groups: None for an empty group *)
Definition zmin_opt (a : option Z) (b : Z) : option Z := match a with None => Some b | Some x => Some (Z.min x b) end.
Definition contact_obs (l : list vec) (A B : list nat) : option Z :=
  fold_left zmin_opt (flat_map (fun i => map (fun j => d2 l i j) B) A) None.

(* Baker-Hubbard criterion on atoms D, H, A: a = |DH|^2, b = |HA|^2, c = |DA|^2;
   cos(D-H..A) = (a + b - c) / (2 sqrt(a b)) < -1/2  <->  a + b - c < 0  and  (a + b - c)^2 > a b *)
Definition hbond_obs (c2 : Z) (l : list vec) (d h a : nat) : bool :=
  let A := d2 l d h in let B := d2 l h a in let C := d2 l d a in
  (B <? c2) && (A + B - C <? 0) && (A * B <? (A + B - C) * (A + B - C)).

(* minimum-image pair distances of a whole system on one code path of the C05 model *)
Definition mic_pair_dists (p : path) (B : box) (l : list vec) : list Z :=
  flat_map (fun x => map (fun y => mic_dist2 p B x y) l) l.
