(* C09 — lattice-shift (non-)invariance of the neighbour list, stated over C10's full voxel model
   (coq/Neigh/Model.v: nlist_cur = _compute_neighborlist as found, nlist_fix = positions wrapped into the
   primary cell first).  Names of the two models clash (vec, vx, ...), so nothing of MD.PBC is imported here. *)
From Coq Require Import ZArith List Bool Lia.
Import ListNotations.
Require Import MD.Neigh.Model.
Open Scope Z_scope.

Definition box_pos (B : box) : Prop := 0 < b_ax B /\ 0 < b_by B /\ 0 < b_cz B.

(* per-atom lattice shifts: atom i is moved by k_i . (a, b, c) of the cell as given *)
Definition shift_atoms (B : box) (xyz : list vec) (ks : list (Z * Z * Z)) : list vec :=
  map (fun pk => vadd (fst pk) (lat B (fst (fst (snd pk))) (snd (fst (snd pk))) (snd (snd pk)))) (combine xyz ks).

Lemma vec_eq (u v : vec) : vx u = vx v -> vy u = vy v -> vz u = vz v -> u = v.
Proof. destruct u as [[? ?] ?], v as [[? ?] ?]. cbn. intros -> -> ->. reflexivity. Qed.

(* the reduced cell spans the same lattice: explicit coefficients *)
Lemma lat_reduce B k1 k2 k3 :
  let m1 := rnd_haz (b_cy B) (b_by B) in
  let m2 := rnd_haz (b_cx B - m1 * b_bx B) (b_ax B) in
  let m3 := rnd_haz (b_bx B) (b_ax B) in
  lat B k1 k2 k3 = lat (reduce_box B) (k1 + k2 * m3 + k3 * (m1 * m3 + m2)) (k2 + k3 * m1) k3.
Proof.
  destruct B as [ax bx by_ cx cy cz]. cbv zeta. cbn [b_ax b_bx b_by b_cx b_cy b_cz].
  set (m1 := rnd_haz cy by_). set (m2 := rnd_haz (cx - m1 * bx) ax). set (m3 := rnd_haz bx ax).
  unfold reduce_box. cbn [b_ax b_bx b_by b_cx b_cy b_cz]. fold m1. fold m2. fold m3.
  apply vec_eq; cbv [lat avec bvec cvec vadd vscale vx vy vz b_ax b_bx b_by b_cx b_cy b_cz fst snd]; ring.
Qed.

(* wrapping into the primary cell forgets lattice shifts *)
Lemma wrap_into_cell_shift B p k1 k2 k3 : box_pos B ->
  wrap_into_cell B (vadd p (lat B k1 k2 k3)) = wrap_into_cell B p.
Proof.
  intros (Ha & Hb & Hc). destruct p as [[px py] pz]. destruct B as [ax bx by_ cx cy cz].
  unfold wrap_into_cell, lat, avec, bvec, cvec, vadd, vsub, vscale, vx, vy, vz in *.
  cbn [b_ax b_bx b_by b_cx b_cy b_cz fst snd] in *.
  replace (pz + (k1 * 0 + (k2 * 0 + k3 * cz))) with (pz + k3 * cz) by ring.
  rewrite Z.div_add by lia.
  set (q3 := pz / cz).
  replace (py + (k1 * 0 + (k2 * by_ + k3 * cy)) - (q3 + k3) * cy) with (py - q3 * cy + k2 * by_) by ring.
  rewrite Z.div_add by lia.
  set (q2 := (py - q3 * cy) / by_).
  replace (px + (k1 * ax + (k2 * bx + k3 * cx)) - (q3 + k3) * cx - (q2 + k2) * bx)
    with (px - q3 * cx - q2 * bx + k1 * ax) by ring.
  rewrite Z.div_add by lia.
  apply vec_eq; cbv [vx vy vz fst snd]; ring.
Qed.

Lemma reduce_box_pos B : box_pos B -> box_pos (reduce_box B).
Proof. intros H. exact H. Qed.

(* repaired variant: invariant under arbitrary per-atom lattice shifts, every cell, every cutoff *)
Lemma nlist_fix_shift_invariant B c xyz ks : box_pos B -> length ks = length xyz ->
  nlist_fix (Some B) c (shift_atoms B xyz ks) = nlist_fix (Some B) c xyz.
Proof.
  intros HB Hk. unfold nlist_fix, nlist_half_fix. f_equal. f_equal.
  unfold shift_atoms. rewrite map_map. revert ks Hk.
  induction xyz as [|p xyz IH]; intros ks Hk; destruct ks as [|[[k1 k2] k3] ks]; try discriminate; [reflexivity|].
  cbn [combine map fst snd]. rewrite IH by (cbn in Hk; lia). f_equal.
  rewrite lat_reduce. apply wrap_into_cell_shift. apply reduce_box_pos. exact HB.
Qed.

(* as found: cubic cell of 4096 units, cutoff 1024 (a quarter of the edge); atoms 200 apart are neighbours, the
   same two atoms with the second one moved by one cell vector b are not *)
Lemma nlist_cur_shift_refuted :
  exists B c xyz ks, box_pos B /\ 0 < c /\ 2 * c <= b_ax B /\ 2 * c <= b_by B /\ 2 * c <= b_cz B /\
    length ks = length xyz /\ nlist_cur (Some B) c (shift_atoms B xyz ks) <> nlist_cur (Some B) c xyz.
Proof.
  exists (mkBox 4096 0 4096 0 0 4096), 1024, [(100, 2200, 100); (100, 2000, 100)], [(0, 0, 0); (0, 1, 0)].
  repeat split; try (vm_compute; (reflexivity || discriminate || lia)).
Qed.

Lemma nlist_voxel_example :
  let B := mkBox 4096 0 4096 0 0 4096 in
  nlist_cur (Some B) 1024 [(100, 2200, 100); (100, 2000, 100)] = [[1%nat]; [0%nat]] /\
  nlist_cur (Some B) 1024 [(100, 2200, 100); (100, 6096, 100)] = [[]; []] /\
  nlist_fix (Some B) 1024 [(100, 2200, 100); (100, 6096, 100)] = [[1%nat]; [0%nat]].
Proof. vm_compute. repeat split; reflexivity. Qed.
