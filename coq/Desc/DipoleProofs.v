(* C16 / proofs about the atom bookkeeping of dipole_moments under periodic cells (DipoleModel.v) *)
From Coq Require Import List Arith ZArith Bool Lia.
Import ListNotations.
Require Import MD.Desc.ContactsModel MD.Desc.DipoleModel MD.Gen.DescOptions.
Local Open Scope Z_scope.

(* ------------------------------------------------------------------ signed minimum image *)
Lemma smic_spec L d : 0 < L -> (exists k, smic L d = d - k * L) /\ - L <= 2 * smic L d < L.
Proof.
  intros HL. unfold smic. pose proof (Z.div_mod d L ltac:(lia)) as E.
  pose proof (Z.mod_pos_bound d L HL) as B.
  destruct (2 * (d mod L) <? L) eqn:C.
  - apply Z.ltb_lt in C. split; [exists (d / L); lia|lia].
  - apply Z.ltb_ge in C. split; [exists (d / L + 1); lia|lia].
Qed.

Lemma smic_small L d : 0 < L -> - L <= 2 * d < L -> smic L d = d.
Proof.
  intros HL Hd. unfold smic. destruct (Z_le_gt_dec 0 d) as [Hp|Hn].
  - rewrite Z.mod_small by lia. destruct (2 * d <? L) eqn:C; [reflexivity|]. apply Z.ltb_ge in C. lia.
  - assert (E : d mod L = d + L).
    { symmetry. apply (Z.mod_unique d L (-1) (d + L)); lia. }
    rewrite E. destruct (2 * (d + L) <? L) eqn:C; [apply Z.ltb_lt in C; lia|lia].
Qed.

Lemma smic_shift L d k : smic L (d + k * L) = smic L d.
Proof. unfold smic. now rewrite Z_mod_plus_full. Qed.

(* ------------------------------------------------------------------ tie to the source text *)
(* the two pair tables of dipole_moments are (first atom of the residue, atom) and (atom 0, first atom of the
   residue), both evaluated with periodic=True, and the model's per-atom displacement is their sum *)
Theorem dipole_indices_match_source :
  src_dipole_local = m_dipole_local /\ src_dipole_molecule = m_dipole_molecule /\
  src_dipole_periodic = (true, true) /\
  forall box f an a, atom_disp_gen src_dipole_local src_dipole_molecule box f an a = atom_disp box f an a.
Proof. repeat split. Qed.

(* ------------------------------------------------------------------ vectors *)
Lemma vadd_zero x : vadd x zero3 = x.
Proof. destruct x as [[a b] c]. unfold vadd, zero3. f_equal; [f_equal|]; lia. Qed.

Definition small_in (box : option vec) (d : vec) : Prop :=
  match box with
  | None => True
  | Some (b0, b1, b2) =>
      let '(d0, d1, d2) := d in
      0 < b0 /\ 0 < b1 /\ 0 < b2 /\ - b0 <= 2 * d0 < b0 /\ - b1 <= 2 * d1 < b1 /\ - b2 <= 2 * d2 < b2
  end.

Lemma disp_small box x y : small_in box (vsub y x) -> disp box x y = vsub y x.
Proof.
  unfold disp, small_in. destruct (vsub y x) as [[d0 d1] d2]. destruct box as [[[b0 b1] b2]|]; [|reflexivity].
  intros [H0 [H1 [H2 [S0 [S1 S2]]]]]. now rewrite !smic_small.
Qed.

(* nothing wrapped: the two displacements telescope to r_a - r_0 whatever the anchor *)
Lemma atom_disp_unwrapped box f an a :
  small_in box (vsub (coord f a) (coord f an)) -> small_in box (vsub (coord f an) (coord f 0%nat)) ->
  atom_disp box f an a = vsub (coord f a) (coord f 0%nat).
Proof.
  intros H1 H2. unfold atom_disp. rewrite (disp_small _ _ _ H1), (disp_small _ _ _ H2).
  destruct (coord f a) as [[a0 a1] a2], (coord f an) as [[n0 n1] n2], (coord f 0%nat) as [[z0 z1] z2].
  unfold vadd, vsub. f_equal; [f_equal|]; lia.
Qed.

(* the result equals sum_a q_a (r_a - r_0) when no displacement is wrapped (in particular without a cell) *)
Theorem dipole_unwrapped box ans qs f :
  length ans = length qs ->
  (forall i an, nth_error ans i = Some an ->
     small_in box (vsub (coord f i) (coord f an)) /\ small_in box (vsub (coord f an) (coord f 0%nat))) ->
  dipole_frame box ans qs f = dipole_plain qs f.
Proof.
  unfold dipole_frame, dipole_plain.
  assert (G : forall k ans qs, length ans = length qs ->
    (forall i an, nth_error ans i = Some an ->
       small_in box (vsub (coord f (k + i)%nat) (coord f an)) /\ small_in box (vsub (coord f an) (coord f 0%nat))) ->
    vsum (map (fun t => vscale (snd t) (atom_disp box f (fst (fst t)) (snd (fst t))))
              (combine (combine ans (seq k (length ans))) qs)) =
    vsum (map (fun t => vscale (snd t) (vsub (coord f (fst t)) (coord f 0%nat))) (combine (seq k (length qs)) qs))).
  { intros k ans0. revert k. induction ans0 as [|a r IH]; intros k qs0 HL Hs; destruct qs0 as [|q qr]; try discriminate;
      [reflexivity|]. simpl. f_equal.
    - destruct (Hs 0%nat a eq_refl) as [S1 S2]. rewrite Nat.add_0_r in S1.
      now rewrite (atom_disp_unwrapped box f a k S1 S2).
    - apply IH; [simpl in HL; lia|]. intros i an Hi. specialize (Hs (S i) an Hi).
      now replace (S k + i)%nat with (k + S i)%nat by lia. }
  intros HL Hs. apply (G 0%nat ans qs HL). exact Hs.
Qed.

Corollary dipole_no_cell ans qs f : length ans = length qs -> dipole_frame None ans qs f = dipole_plain qs f.
Proof. intros HL. apply dipole_unwrapped; [exact HL|]. intros; split; exact I. Qed.

(* ------------------------------------------------------------------ re-imaging whole residues *)
Definition vmulc (k b : vec) : vec :=
  let '(k0, k1, k2) := k in let '(b0, b1, b2) := b in (k0 * b0, k1 * b1, k2 * b2).

Lemma disp_shift b x y k1 k2 :
  disp (Some b) (vadd x (vmulc k1 b)) (vadd y (vmulc k2 b)) =
  disp (Some b) x (vadd y (vmulc (vsub k2 k1) b)).
Proof.
  destruct b as [[b0 b1] b2], x as [[x0 x1] x2], y as [[y0 y1] y2], k1 as [[p0 p1] p2], k2 as [[q0 q1] q2].
  unfold disp, vadd, vmulc, vsub. f_equal; [f_equal|]; f_equal; lia.
Qed.

Lemma disp_image b x y k : disp (Some b) x (vadd y (vmulc k b)) = disp (Some b) x y.
Proof.
  destruct b as [[b0 b1] b2], x as [[x0 x1] x2], y as [[y0 y1] y2], k as [[k0 k1] k2].
  unfold disp, vadd, vmulc, vsub.
  replace (y0 + k0 * b0 - x0) with (y0 - x0 + k0 * b0) by lia.
  replace (y1 + k1 * b1 - x1) with (y1 - x1 + k1 * b1) by lia.
  replace (y2 + k2 * b2 - x2) with (y2 - x2 + k2 * b2) by lia.
  now rewrite !smic_shift.
Qed.

(* Moving every residue as a whole by its own lattice vector (atom 0's residue stays) does not change the dipole:
   this is what the residue-anchor bookkeeping is for.  [shift a] is the integer lattice translation of atom a. *)
Theorem dipole_residue_image_invariant b ans qs (f f' : frame) (shift : nat -> vec) :
  (forall a, coord f' a = vadd (coord f a) (vmulc (shift a) b)) ->
  shift 0%nat = zero3 ->
  (forall i an, nth_error ans i = Some an -> shift i = shift an) ->
  dipole_frame (Some b) ans qs f' = dipole_frame (Some b) ans qs f.
Proof.
  intros Hc H0 Hres. unfold dipole_frame.
  assert (G : forall k ans0 qs0,
    (forall i an, nth_error ans0 i = Some an -> shift (k + i)%nat = shift an) ->
    vsum (map (fun t => vscale (snd t) (atom_disp (Some b) f' (fst (fst t)) (snd (fst t))))
              (combine (combine ans0 (seq k (length ans0))) qs0)) =
    vsum (map (fun t => vscale (snd t) (atom_disp (Some b) f (fst (fst t)) (snd (fst t))))
              (combine (combine ans0 (seq k (length ans0))) qs0))).
  { intros k ans0. revert k. induction ans0 as [|a r IH]; intros k qs0 Hs; [reflexivity|].
    destruct qs0 as [|q qr]; [reflexivity|]. simpl. f_equal.
    - f_equal. unfold atom_disp. rewrite !Hc. specialize (Hs 0%nat a eq_refl). rewrite Nat.add_0_r in Hs.
      rewrite Hs, H0. f_equal.
      + rewrite disp_shift. replace (vsub (shift a) (shift a)) with zero3
          by (destruct (shift a) as [[s0 s1] s2]; unfold vsub, zero3; f_equal; [f_equal|]; lia).
        now rewrite disp_image.
      + replace (vadd (coord f 0%nat) (vmulc zero3 b)) with (coord f 0%nat)
          by (destruct (coord f 0%nat) as [[z0 z1] z2], b as [[b0 b1] b2]; unfold vadd, vmulc, zero3; f_equal; [f_equal|]; lia).
        now rewrite disp_image.
    - apply IH. intros i an Hi. specialize (Hs (S i) an Hi). now replace (S k + i)%nat with (k + S i)%nat by lia. }
  apply (G 0%nat). exact Hres.
Qed.

(* ------------------------------------------------------------------ anchors *)
Local Open Scope nat_scope.
Fixpoint anchor_spec (k : nat) (raw : list raw_residue) : list nat :=
  match raw with
  | [] => []
  | (_, _, ats) :: r => repeat k (length ats) ++ anchor_spec (k + length ats) r
  end.

Lemma number_atoms_length k l : length (number_atoms k l) = length l.
Proof. revert k; induction l as [|[n e] r IH]; intros k; [reflexivity|]. simpl. now rewrite IH. Qed.

Lemma map_const_repeat {A B} (l : list A) (c : B) : map (fun _ => c) l = repeat c (length l).
Proof. induction l as [|x r IH]; [reflexivity|]. simpl. now rewrite IH. Qed.

(* the anchor of every atom is the first atom of its residue: with atoms numbered in file order, residue j
   contributes its first index once per atom *)
Theorem anchors_are_residue_starts k raw : anchors (number_top k raw) = anchor_spec k raw.
Proof.
  revert k; induction raw as [|[[rn ch] ats] r IH]; intros k; [reflexivity|].
  unfold anchors in *. simpl. rewrite IH. f_equal.
  rewrite map_const_repeat, number_atoms_length.
  destruct ats as [|[n e] ar]; [reflexivity|]. reflexivity.
Qed.
