(* C16 / contacts: meaning of the predicate terms regenerated from contact.py (Gen/DescSchemes.v), and the
   membership / CA functions they define.  No proofs. *)
From Coq Require Import String Ascii List Arith Bool.
Import ListNotations.
Require Import MD.Gen.DescTables MD.Desc.SchemeDsl MD.Gen.DescSchemes MD.Desc.ContactsModel.

Fixpoint eval_apred (p : apred) (r : residue) (a : atom) : bool :=
  match p with
  | PTrue => true
  | PNameLowerEq s => String.eqb (lower (a_name a)) s
  | PNameEq s => String.eqb (a_name a) s
  | PElemIs sym => String.eqb (a_elem a) sym
  | PSidechain => is_sidechain r a
  | PBackbone => mem_str (a_name a) ["C"; "CA"; "N"; "O"]%string && is_protein r
  | PNot q => negb (eval_apred q r a)
  | PAnd q1 q2 => eval_apred q1 r a && eval_apred q2 r a
  | POr q1 q2 => eval_apred q1 r a || eval_apred q2 r a
  end.

Fixpoint eval_rpred (c : rpred) (r : residue) : bool :=
  match c with
  | RNameEq s => String.eqb (r_name r) s
  | RNot d => negb (eval_rpred d r)
  end.

Fixpoint eval_member (m : member) (r : residue) : list nat :=
  match m with
  | MFilter p => map a_idx (filter (eval_apred p r) (r_atoms r))
  | MIfRes c m1 m2 => if eval_rpred c r then eval_member m1 r else eval_member m2 r
  end.

Fixpoint lookup_member (t : list (string * member)) (k : string) : option member :=
  match t with
  | [] => None
  | (n, m) :: rest => if String.eqb n k then Some m else lookup_member rest k
  end.

Definition scheme_name (s : scheme) : string :=
  match s with
  | SCa => "ca" | SClosest => "closest" | SClosestHeavy => "closest-heavy"
  | SSidechain => "sidechain" | SSidechainHeavy => "sidechain-heavy"
  end%string.

(* what the source text says *)
Definition src_ca_atoms (r : residue) : list nat := map a_idx (filter (eval_apred ca_pred r) (r_atoms r)).
Definition src_has_ca (r : residue) : bool := existsb (eval_apred all_keep_pred r) (r_atoms r).
Definition src_membership1 (s : scheme) (r : residue) : list nat :=
  match s with
  | SCa => src_ca_atoms r
  | _ => match lookup_member scheme_members (scheme_name s) with Some m => eval_member m r | None => [] end
  end.
