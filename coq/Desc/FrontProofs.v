(* C16 / proofs about the option handling and chunk bookkeeping of FrontModel.v *)
From Coq Require Import String Ascii List Arith ZArith QArith Bool Lia.
Import ListNotations.
Require Import MD.Gen.DescOptions MD.Desc.ContactsModel MD.Desc.ContactsProofs MD.Desc.SchemeSem
               MD.Desc.MomentsModel MD.Desc.RdfModel MD.Desc.RdfProofs MD.Desc.OrderModel MD.Desc.FrontModel.
Local Open Scope nat_scope.

(* ------------------------------------------------------------------ tie to the source text *)
(* keywords, accepted scheme names and signature defaults of the model are the ones in contact.py, rdf.py and
   order.py today (Gen/DescOptions.v is regenerated on every run) *)
Theorem options_match_source :
  src_scheme_names = m_scheme_names /\ m_scheme_names = map scheme_name all_schemes /\
  src_scheme_lowered = true /\ src_contacts_keyword = m_contacts_keyword /\
  dflt_contacts = m_dflt_contacts /\ dflt_scheme = m_dflt_scheme /\
  dflt_ignore_nonprotein = m_dflt_ignore_nonprotein /\ dflt_periodic = m_dflt_periodic /\
  dflt_soft_min = m_dflt_soft_min /\
  (fst dflt_r_range == fst m_dflt_r_range)%Q /\ (snd dflt_r_range == snd m_dflt_r_range)%Q /\
  (dflt_bin_width == m_dflt_bin_width)%Q /\
  src_order_chains = m_order_chains /\ src_order_residues = m_order_residues /\
  dflt_order_indices = m_dflt_order_indices.
Proof. repeat split; reflexivity. Qed.

(* ------------------------------------------------------------------ names *)
Lemma lower_ascii_idem c : lower_ascii (lower_ascii c) = lower_ascii c.
Proof. destruct c as [[] [] [] [] [] [] [] []]; reflexivity. Qed.

Lemma lower_idem s : lower (lower s) = lower s.
Proof. induction s as [|c r IH]; [reflexivity|]. simpl. now rewrite lower_ascii_idem, IH. Qed.

(* a scheme string is accepted iff it is the name of one of the five schemes, and it selects that scheme *)
Theorem scheme_of_string_spec s k : scheme_of_string s = Some k <-> s = scheme_name k.
Proof.
  split.
  - unfold scheme_of_string. destruct (mem_str s m_scheme_names); [|discriminate].
    intros H. apply find_some in H. destruct H as [_ H]. apply String.eqb_eq in H. now symmetry.
  - intros ->. destruct k; reflexivity.
Qed.

Lemma scheme_of_string_none s : scheme_of_string s = None <-> forall k, s <> scheme_name k.
Proof.
  split.
  - intros H k E. apply scheme_of_string_spec in E. congruence.
  - intros H. destruct (scheme_of_string s) as [k|] eqn:E; [|reflexivity].
    apply scheme_of_string_spec in E. exfalso. exact (H k E).
Qed.

(* ------------------------------------------------------------------ the `contacts` argument *)
Theorem front_spec_keyword s ig cs :
  front_spec (IStr s) ig = inr cs <-> lower s = m_contacts_keyword /\ cs = CAll ig.
Proof.
  unfold front_spec. destruct (String.eqb (lower s) m_contacts_keyword) eqn:E.
  - apply String.eqb_eq in E. split; [intros H; inversion H; auto|intros [_ ->]; reflexivity].
  - apply String.eqb_neq in E. split; [discriminate|intros [H _]; contradiction].
Qed.

Theorem front_spec_array a ig cs :
  front_spec (IArr a) ig = inr cs <->
  exists rows, a = A2 2 rows /\ forallb (fun r => length r =? 2) rows = true /\ cs = CExplicit (map row_pair rows).
Proof.
  unfold front_spec. destruct a as [l|nc rows|].
  - split; [discriminate|intros [rows [H _]]; discriminate].
  - destruct (forallb (fun r => length r =? nc) rows) eqn:Ef; cbn [negb].
    + destruct (nc =? 2) eqn:En; cbn [negb].
      * apply Nat.eqb_eq in En. subst nc. split.
        -- intros H. inversion H. exists rows. auto.
        -- intros [rows' [H [_ ->]]]. inversion H. reflexivity.
      * apply Nat.eqb_neq in En. split; [discriminate|intros [rows' [H _]]; inversion H; congruence].
    + split; [discriminate|]. intros [rows' [H [Hf _]]]. inversion H; subst. congruence.
  - split; [discriminate|intros [rows [H _]]; discriminate].
Qed.

(* ------------------------------------------------------------------ dispatch: which refusal, in which order *)
Theorem contacts_dispatch_spec top o :
  let ci := dflt (o_contacts o) (IStr m_dflt_contacts) in
  let ig := dflt (o_ignore o) m_dflt_ignore_nonprotein in
  let sn := lower (dflt (o_scheme o) m_dflt_scheme) in
  match contacts_dispatch top o with
  | inl FNoTop => o_has_top o = false
  | inl (FCore e) => o_has_top o = true /\ exists cs, front_spec ci ig = inr cs /\ resolve top cs = inl e
  | inl FBadScheme =>
      o_has_top o = true /\ (exists cs rp, front_spec ci ig = inr cs /\ resolve top cs = inr rp) /\
      (forall k, sn <> scheme_name k)
  | inl e => o_has_top o = true /\ front_spec ci ig = inl e
  | inr (s, cs) =>
      o_has_top o = true /\ front_spec ci ig = inr cs /\ (exists rp, resolve top cs = inr rp) /\ sn = scheme_name s
  end.
Proof.
  intros ci ig sn. unfold contacts_dispatch. fold ci ig sn.
  destruct (o_has_top o); cbn [negb]; [|reflexivity].
  destruct (front_spec ci ig) as [e|cs] eqn:Ef.
  - assert (Hshape : match e with FCore _ | FNoTop | FBadScheme => False | _ => True end).
    { unfold front_spec in Ef. destruct ci as [s|[l|nc rows|]].
      - destruct (String.eqb _ _); inversion Ef; exact I.
      - inversion Ef; exact I.
      - destruct (negb (forallb _ rows)); [inversion Ef; exact I|].
        destruct (negb (nc =? 2)); inversion Ef; exact I.
      - inversion Ef; exact I. }
    destruct e; try contradiction; split; reflexivity.
  - destruct (resolve top cs) as [e|rp] eqn:Er.
    + split; [reflexivity|]. exists cs. split; [reflexivity|exact Er].
    + destruct (scheme_of_string sn) as [s|] eqn:Es.
      * split; [reflexivity|]. split; [reflexivity|]. split; [exists rp; exact Er|].
        now apply scheme_of_string_spec.
      * split; [reflexivity|]. split; [exists cs, rp; split; [reflexivity|exact Er]|].
        now apply scheme_of_string_none.
Qed.

(* the spelling of keyword and scheme does not matter beyond case folding *)
Theorem contacts_dispatch_case_insensitive top ht c1 c2 s1 s2 ig per soft :
  lower c1 = lower c2 -> lower s1 = lower s2 ->
  contacts_dispatch top (mkCopts ht (Some (IStr c1)) (Some s1) ig per soft) =
  contacts_dispatch top (mkCopts ht (Some (IStr c2)) (Some s2) ig per soft).
Proof.
  intros Hc Hs. unfold contacts_dispatch, front_spec. cbn [o_has_top o_contacts o_scheme o_ignore dflt].
  now rewrite Hc, Hs.
Qed.

(* end to end: from the raw arguments to "the reported value is the minimum over the designated atom pairs of the
   labelled residue pair in that frame" *)
Theorem contacts_api_value strict top o box frames rp d2 :
  contacts_api strict top o box frames = FOk rp d2 ->
  let per := dflt (o_periodic o) m_dflt_periodic in
  exists s cs, contacts_dispatch top o = inr (s, cs) /\
    lower (dflt (o_scheme o) m_dflt_scheme) = scheme_name s /\
    (s <> SCa ->
     resolve top cs = inr rp /\ length d2 = length frames /\
     forall fi f k p row v,
       nth_error frames fi = Some f -> nth_error rp k = Some p ->
       nth_error d2 fi = Some row -> nth_error row k = Some v ->
       (exists a b, In a (membership s top (fst p)) /\ In b (membership s top (snd p)) /\
                    v = dist2 box per f (a, b)) /\
       (forall a b, In a (membership s top (fst p)) -> In b (membership s top (snd p)) ->
                    (v <= dist2 box per f (a, b))%Z)).
Proof.
  intros H per. unfold contacts_api in H.
  pose proof (contacts_dispatch_spec top o) as D. cbv zeta in D.
  destruct (contacts_dispatch top o) as [e|[s cs]] eqn:Ed; [discriminate|].
  destruct D as [_ [_ [[rp0 Hr] Hn]]].
  exists s, cs. split; [reflexivity|]. split; [exact Hn|]. intros Hs. fold per in H.
  destruct (list_eq_dec (fun x y : nat * nat => ltac:(decide equality; apply Nat.eq_dec))
                        (flat_pairs (membership s top) rp0) []) as [He|Hne].
  - exfalso. unfold contacts_min in H.
    rewrite (contacts_no_pairs strict top s cs box per frames rp0 Hs Hr He) in H. discriminate.
  - pose proof (contacts_min_spec strict top s cs box per frames rp0 Hs Hr Hne) as M.
    destruct (contacts_min strict top s cs box per frames) as [rp' d2'|e]; [|discriminate].
    inversion H; subst rp' d2'. destruct M as [-> [HL HV]].
    split; [exact Hr|]. split; [exact HL|exact HV].
Qed.

(* ------------------------------------------------------------------ squareform *)
(* no pair occurs twice in the same orientation (the reverse orientation may occur) *)
Definition oriented_nodup (pairs : list (nat * nat)) : Prop :=
  forall k1 k2 p, nth_error pairs k1 = Some p -> nth_error pairs k2 = Some p -> k1 = k2.

(* entry (a, b): the distance labelled (b, a) when that label occurs (the second assignment
   contact_maps[:, p1, p0] is executed last), else the distance labelled (a, b), else 0 *)
Theorem squareform_oriented d pairs :
  length d = length pairs -> oriented_nodup pairs ->
  (forall k a b v, nth_error pairs k = Some (b, a) -> nth_error d k = Some v -> squareform_fn d pairs a b = v) /\
  (forall k a b v, nth_error pairs k = Some (a, b) -> nth_error d k = Some v ->
     (forall k', nth_error pairs k' <> Some (b, a)) -> squareform_fn d pairs a b = v) /\
  (forall a b, (forall k, nth_error pairs k <> Some (a, b) /\ nth_error pairs k <> Some (b, a)) ->
     squareform_fn d pairs a b = 0%Z).
Proof.
  intros HL HU. split; [|split].
  - intros k a b v Hp Hv. unfold squareform_fn.
    apply (assign_unique _ _ _ _ _ k); [now rewrite map_length| |assumption|].
    + apply nth_error_swap. exact Hp.
    + intros k' Hk' H. apply nth_error_swap in H. unfold swap in H; simpl in H.
      apply Hk'. exact (HU k' k _ H Hp).
  - intros k a b v Hp Hv Hno. unfold squareform_fn. rewrite assign_notin.
    + apply (assign_unique _ _ _ _ _ k); [now symmetry|assumption|assumption|].
      intros k' Hk' H. apply Hk'. exact (HU k' k _ H Hp).
    + intros k' H. apply nth_error_swap in H. unfold swap in H; simpl in H. exact (Hno k' H).
  - intros a b H. unfold squareform_fn. rewrite assign_notin.
    + rewrite assign_notin; [reflexivity|]. intros k. apply H.
    + intros k Hk. apply nth_error_swap in Hk. unfold swap in Hk; simpl in Hk. apply (H k). exact Hk.
Qed.

(* the map is large enough for every label, and no larger than the largest label requires *)
Theorem sq_size_spec pairs :
  (forall p, In p pairs -> fst p < sq_size pairs /\ snd p < sq_size pairs) /\
  (pairs <> [] -> exists p, In p pairs /\ (S (fst p) = sq_size pairs \/ S (snd p) = sq_size pairs)).
Proof.
  unfold sq_size. split.
  - induction pairs as [|q r IH]; intros p Hin; [contradiction|]. simpl in *. destruct Hin as [->|Hin].
    + lia.
    + specialize (IH p Hin). lia.
  - induction pairs as [|q r IH]; [congruence|]. intros _. simpl.
    destruct r as [|q' r'].
    + exists q. split; [now left|]. simpl. lia.
    + destruct IH as [p [Hin Hp]]; [discriminate|].
      destruct (Nat.le_gt_cases (fold_right (fun p0 acc => Nat.max (Nat.max (fst p0) (snd p0)) acc) 0 (q' :: r'))
                                (Nat.max (fst q) (snd q))) as [Hle|Hgt].
      * exists q. split; [now left|]. lia.
      * exists p. split; [now right|]. lia.
Qed.

(* which refusal squareform gives, in the order of its tests; otherwise one map per frame *)
Theorem squareform_api_spec n_cols d nc rows :
  forallb (fun r => length r =? nc) rows = true -> nc = 2 ->
  let zp := map row_pair rows in
  match squareform_api n_cols d (A2 nc rows) with
  | SErr SNegative => exists q, In q zp /\ (fst q < 0 \/ snd q < 0)%Z
  | SErr SMismatch => (forall q, In q zp -> (0 <= fst q /\ 0 <= snd q)%Z) /\ n_cols <> length rows
  | SErr SEmpty => rows = [] /\ n_cols = 0
  | SErr _ => False
  | SOk maps =>
      (forall q, In q zp -> (0 <= fst q /\ 0 <= snd q)%Z) /\ n_cols = length rows /\ rows <> [] /\
      maps = map (fun row => squareform row (map (fun q => (Z.to_nat (fst q), Z.to_nat (snd q))) zp)) d
  end.
Proof.
  intros Hf -> zp. unfold squareform_api. rewrite Hf. cbn [negb Nat.eqb]. fold zp.
  destruct (forallb (fun q => (0 <=? fst q)%Z && (0 <=? snd q)%Z) zp) eqn:En; cbn [negb].
  - assert (Hnn : forall q, In q zp -> (0 <= fst q /\ 0 <= snd q)%Z).
    { intros q Hq. rewrite forallb_forall in En. specialize (En q Hq).
      apply andb_true_iff in En. destruct En as [E1 E2]. apply Z.leb_le in E1, E2. auto. }
    destruct (n_cols =? length zp) eqn:El; cbn [negb].
    + apply Nat.eqb_eq in El. unfold zp in El. rewrite map_length in El.
      destruct zp as [|q0 zr] eqn:Ez.
      * unfold zp in Ez. destruct rows; [|discriminate]. simpl in El. auto.
      * split; [exact Hnn|]. split; [exact El|]. split; [|reflexivity].
        intros ->. unfold zp in Ez. discriminate.
    + apply Nat.eqb_neq in El. unfold zp in El. rewrite map_length in El. auto.
  - assert (Hex : existsb (fun q => negb ((0 <=? fst q)%Z && (0 <=? snd q)%Z)) zp = true).
    { clear -En. induction zp as [|q r IH]; [discriminate|]. simpl in *.
      destruct ((0 <=? fst q)%Z && (0 <=? snd q)%Z); simpl in *; [auto|reflexivity]. }
    apply existsb_exists in Hex. destruct Hex as [q [Hq Hb]]. exists q. split; [exact Hq|].
    apply negb_true_iff, andb_false_iff in Hb. destruct Hb as [Hb|Hb]; apply Z.leb_gt in Hb; auto.
Qed.

(* ------------------------------------------------------------------ rdf.py options *)
Local Open Scope Q_scope.
(* n_bins given: it decides (bin_width is not looked at) and must be positive *)
Theorem rdf_options_n_bins rr n bw1 bw2 :
  rdf_options rr (Some n) bw1 = rdf_options rr (Some n) bw2 /\
  ((n <= 0)%Z -> (exists a b, rr = Some [a; b]) \/ rr = None -> rdf_options rr (Some n) bw1 = inl RNBins) /\
  (forall r0 r1, (0 < n)%Z -> r0 < r1 -> rdf_options (Some [r0; r1]) (Some n) bw1 = inr (r0, r1, Z.to_nat n)).
Proof.
  split; [reflexivity|]. split.
  - intros Hn Hr. assert (E : (n <=? 0)%Z = true) by now apply Z.leb_le.
    unfold rdf_options. destruct Hr as [[a [b ->]]| ->]; cbn match; unfold m_dflt_r_range; now rewrite E.
  - intros r0 r1 Hn Hlt. unfold rdf_options.
    assert (E : (n <=? 0)%Z = false) by now apply Z.leb_gt. rewrite E.
    assert (E1 : Qle_bool r0 r1 = true) by (apply Qle_bool_iff; now apply Qlt_le_weak). rewrite E1.
    assert (E2 : Qeq_bool r0 r1 = false).
    { destruct (Qeq_bool r0 r1) eqn:E2; [|reflexivity]. apply Qeq_bool_iff in E2. rewrite E2 in Hlt.
      exfalso. exact (Qlt_irrefl _ Hlt). }
    now rewrite E2.
Qed.

(* n_bins omitted: the bin count is the truncated quotient computed in double precision, with the default
   range and width when those are omitted too; a count of zero is refused *)
Theorem rdf_options_bin_width r0 r1 bw :
  r0 < r1 ->
  rdf_options (Some [r0; r1]) None bw =
  (if (nbins_of_width r0 r1 (dflt bw m_dflt_bin_width) <=? 0)%Z then inl RBinsZero
   else inr (r0, r1, Z.to_nat (nbins_of_width r0 r1 (dflt bw m_dflt_bin_width)))).
Proof.
  intros Hlt. unfold rdf_options.
  destruct (nbins_of_width r0 r1 (dflt bw m_dflt_bin_width) <=? 0)%Z; [reflexivity|].
  assert (E1 : Qle_bool r0 r1 = true) by (apply Qle_bool_iff; now apply Qlt_le_weak). rewrite E1.
  assert (E2 : Qeq_bool r0 r1 = false).
  { destruct (Qeq_bool r0 r1) eqn:E2; [|reflexivity]. apply Qeq_bool_iff in E2. rewrite E2 in Hlt.
    exfalso. exact (Qlt_irrefl _ Hlt). }
  now rewrite E2.
Qed.

Example rdf_options_defaults : rdf_options None None None = inr (0, 1, 200%nat).
Proof. vm_compute. reflexivity. Qed.
Local Open Scope nat_scope.

(* ------------------------------------------------------------------ chunks of n_concurrent_pairs *)
Section Chunks.
Context {A : Type}.

Lemma firstn_skipn_add (n m : nat) (l : list A) : firstn n l ++ firstn m (skipn n l) = firstn (n + m) l.
Proof.
  revert l; induction n as [|n IH]; intros l; [reflexivity|].
  destruct l as [|x r]; [simpl; now rewrite firstn_nil|]. simpl. now rewrite IH.
Qed.

Lemma concat_chunks_prefix (ncp : nat) (l : list A) m :
  concat (map (chunk_at ncp l) (seq 0 m)) = firstn (m * ncp) l.
Proof.
  induction m as [|m IH]; [reflexivity|].
  rewrite seq_S, map_app, concat_app, IH. simpl. rewrite app_nil_r. unfold chunk_at.
  rewrite firstn_skipn_add. f_equal. lia.
Qed.

Lemma n_chunks_covers ncp len : 1 <= ncp -> len <= n_chunks ncp len * ncp.
Proof.
  intros H. unfold n_chunks.
  pose proof (Nat.div_mod (len + ncp - 1) ncp ltac:(lia)) as E.
  pose proof (Nat.mod_upper_bound (len + ncp - 1) ncp ltac:(lia)) as U. nia.
Qed.

Lemma n_chunks_tight ncp len : 1 <= ncp -> 1 <= len -> (n_chunks ncp len - 1) * ncp < len.
Proof.
  intros H Hl. unfold n_chunks.
  pose proof (Nat.div_mod (len + ncp - 1) ncp ltac:(lia)) as E.
  pose proof (Nat.mod_upper_bound (len + ncp - 1) ncp ltac:(lia)) as U.
  assert (1 <= (len + ncp - 1) / ncp) by (apply Nat.div_le_lower_bound; lia). nia.
Qed.

(* the chunks are consecutive pieces of the pair list: together they are the list, in order *)
Theorem chunks_concat ncp (l : list A) : 1 <= ncp -> concat (chunk_list ncp l) = l.
Proof.
  intros H. unfold chunk_list. rewrite concat_chunks_prefix. apply firstn_all2. now apply n_chunks_covers.
Qed.

(* every chunk holds between 1 and n_concurrent_pairs pairs *)
Theorem chunks_sizes ncp (l : list A) ch :
  1 <= ncp -> In ch (chunk_list ncp l) -> 1 <= length ch <= ncp.
Proof.
  intros H Hin. unfold chunk_list in Hin. apply in_map_iff in Hin. destruct Hin as [i [<- Hi]].
  apply in_seq in Hi. unfold chunk_at. rewrite firstn_length, skipn_length.
  destruct (length l) as [|len'] eqn:El.
  - unfold n_chunks in Hi. rewrite Nat.div_small in Hi by lia. lia.
  - pose proof (n_chunks_tight ncp (S len') H ltac:(lia)) as T.
    assert (i * ncp <= (n_chunks ncp (S len') - 1) * ncp) by (apply Nat.mul_le_mono_r; lia). lia.
Qed.

Theorem chunks_count ncp (l : list A) : length (chunk_list ncp l) = n_chunks ncp (length l).
Proof. unfold chunk_list. now rewrite map_length, seq_length. Qed.
End Chunks.

Lemma count_bin_concat bs (ls : list (list Q)) k :
  count_bin bs (concat ls) k = list_sum (map (fun l => count_bin bs l k) ls).
Proof.
  induction ls as [|l r IH]; [reflexivity|]. simpl. now rewrite count_bin_app, IH.
Qed.

Lemma qnat_list_sum (l : list nat) : (qnat (list_sum l) == qsumr (map qnat l))%Q.
Proof.
  induction l as [|x r IH]; [reflexivity|]. simpl. unfold qnat in *.
  rewrite Nat2Z.inj_add, inject_Z_plus, IH. reflexivity.
Qed.

Lemma length_concat {A} (ls : list (list A)) : length (concat ls) = list_sum (map (@length A) ls).
Proof. induction ls as [|l r IH]; [reflexivity|]. simpl. now rewrite app_length, IH. Qed.

Lemma qnat_pos n : 1 <= n -> ~ (qnat n == 0)%Q.
Proof.
  intros H E. unfold qnat in E. apply (inject_Z_injective (Z.of_nat n) 0) in E. lia.
Qed.

(* compute_rdf_t, refinement: histogramming and normalising every chunk of n_concurrent_pairs pairs on its own and
   averaging with weights len(chunk)/n_concurrent_pairs gives, for every time pair and bin, the single
   normalisation count / ((n_pairs / period_length) * sum(1/V) * V_shell) over the whole pair list *)
Theorem rdf_t_chunked_refines {P} ncp (period siv v : Q) bs (dist : P -> Q) (ps : list P) k :
  1 <= ncp -> ps <> [] -> ~ (period == 0)%Q -> ~ (siv == 0)%Q -> ~ (v == 0)%Q ->
  (rdf_t_entry_chunked ncp period siv v bs dist ps k == rdf_t_entry_flat period siv v bs dist ps k)%Q.
Proof.
  intros Hn Hps Hp Hs Hv. unfold rdf_t_entry_chunked, rdf_t_entry_flat.
  set (cl := chunk_list ncp ps).
  assert (Hsz : forall ch, In ch cl -> 1 <= length ch) by (intros ch Hin; apply (chunks_sizes ncp ps ch Hn Hin)).
  assert (Hcat : concat cl = ps) by (apply chunks_concat; exact Hn).
  assert (Hlen : (qsumr (map snd (map (fun ch => (qnat (count_bin bs (map dist ch) k), qnat (length ch))) cl))
                  == qnat (length ps))%Q).
  { rewrite map_map. cbn [snd]. rewrite <- Hcat at 1. rewrite length_concat, qnat_list_sum, map_map. reflexivity. }
  assert (Hcnt : (qsumr (map fst (map (fun ch => (qnat (count_bin bs (map dist ch) k), qnat (length ch))) cl))
                  == qnat (count_bin bs (map dist ps) k))%Q).
  { rewrite map_map. cbn [fst]. rewrite <- Hcat at 1. rewrite concat_map, count_bin_concat, qnat_list_sum, !map_map.
    reflexivity. }
  rewrite rdf_t_chunks.
  - rewrite Hlen, Hcnt. reflexivity.
  - intros cn Hin. apply in_map_iff in Hin. destruct Hin as [ch [<- Hch]]. cbn [snd]. apply qnat_pos. now apply Hsz.
  - now apply qnat_pos.
  - exact Hp.
  - exact Hs.
  - exact Hv.
  - rewrite Hlen. apply qnat_pos. destruct ps; [congruence|simpl; lia].
Qed.

(* self_correlation: the self pairs (a, a) of every atom that occurs in `pairs`, each once, in increasing order,
   are put in front of the given pairs *)
Theorem rdf_t_self_pairs pairs :
  rdf_t_pairs false pairs = pairs /\
  exists atoms, rdf_t_pairs true pairs = map (fun a => (a, a)) atoms ++ pairs /\
    (forall a, In a atoms <-> exists p, In p pairs /\ (a = fst p \/ a = snd p)) /\
    Sorted.StronglySorted lt atoms.
Proof.
  split; [reflexivity|]. exists (sort_u (flat_map (fun p => [fst p; snd p]) pairs)).
  split; [reflexivity|].
  assert (Hins : forall x l, Sorted.StronglySorted lt l ->
            Sorted.StronglySorted lt (insert_u x l) /\ forall y, In y (insert_u x l) <-> y = x \/ In y l).
  { intros x l. induction l as [|y r IH]; intros Hs.
    - simpl. split; [repeat constructor|]. intros y. simpl. intuition congruence.
    - simpl. inversion Hs as [|? ? Hr Hall]; subst. destruct (x <? y) eqn:E1.
      + apply Nat.ltb_lt in E1. split.
        * constructor; [exact Hs|]. constructor; [exact E1|].
          rewrite Forall_forall in *. intros z Hz. specialize (Hall z Hz). lia.
        * intros z. simpl. intuition congruence.
      + apply Nat.ltb_ge in E1. destruct (x =? y) eqn:E2.
        * apply Nat.eqb_eq in E2. subst. split; [exact Hs|]. intros z. simpl. intuition congruence.
        * apply Nat.eqb_neq in E2. destruct (IH Hr) as [IS II]. split.
          -- constructor; [exact IS|]. rewrite Forall_forall in *. intros z Hz. apply II in Hz.
             destruct Hz as [->|Hz]; [lia|exact (Hall z Hz)].
          -- intros z. simpl. rewrite II. intuition congruence. }
  assert (Hsu : forall l, Sorted.StronglySorted lt (sort_u l) /\ forall y, In y (sort_u l) <-> In y l).
  { induction l as [|x r [IS II]]; [split; [constructor|tauto]|].
    unfold sort_u in *. simpl. destruct (Hins x _ IS) as [S1 I1]. split; [exact S1|].
    intros y. rewrite I1, II. simpl. intuition. }
  destruct (Hsu (flat_map (fun p => [fst p; snd p]) pairs)) as [S I]. split; [|exact S].
  intros a. rewrite I, in_flat_map. split.
  - intros [p [Hp Ha]]. exists p. simpl in Ha. intuition.
  - intros [p [Hp Ha]]. exists p. simpl. intuition.
Qed.

(* ------------------------------------------------------------------ order.py:_get_indices *)
Fixpoint all_ints (l : list pyv) : bool :=
  match l with [] => true | VInt _ :: r => all_ints r | _ :: _ => false end.
Definition is_seq (v : pyv) : bool := match v with VSeq _ => true | _ => false end.
Definition ints_of (v : pyv) : list Z :=
  match v with VSeq l => flat_map (fun x => match x with VInt z => [z] | _ => [] end) l | _ => [] end.
Definition group_ok (v : pyv) : bool := match v with VSeq l => all_ints l | _ => false end.

Lemma sub_ints_spec l : match sub_ints l with
                        | Some g => all_ints l = true /\ g = ints_of (VSeq l)
                        | None => all_ints l = false end.
Proof.
  induction l as [|x r IH]; [split; reflexivity|]. destruct x as [z| |s]; simpl; try reflexivity.
  destruct (sub_ints r) as [g|]; [|exact IH]. destruct IH as [IH1 IH2]. split; [exact IH1|]. simpl in IH2. now rewrite IH2.
Qed.

(* a list/tuple is accepted iff every element is a list/tuple of Python ints; the groups come back unchanged and in
   order.  Otherwise the first offending element decides: not a sequence -> "Invalid selection", a sequence with a
   non-int -> "Indices must be integers". *)
Theorem scan_groups_spec l :
  match scan_groups l with
  | inr g => forallb group_ok l = true /\ g = map ints_of l
  | inl e => exists pre x post, l = pre ++ x :: post /\ forallb group_ok pre = true /\ group_ok x = false /\
               e = (if is_seq x then ONotInt else OInvalidSelection)
  end.
Proof.
  induction l as [|x r IH]; [split; reflexivity|].
  destruct x as [z| |s].
  - simpl. exists [], (VInt z), r. repeat split.
  - simpl. exists [], VOther, r. repeat split.
  - cbn [scan_groups]. pose proof (sub_ints_spec s) as Hs. destruct (sub_ints s) as [g|].
    + destruct Hs as [Ha Hg]. destruct (scan_groups r) as [e|t].
      * destruct IH as [pre [y [post [-> [Hp [Hy He]]]]]].
        exists (VSeq s :: pre), y, post. repeat split; auto. simpl. now rewrite Ha, Hp.
      * destruct IH as [Hf ->]. split; [simpl; now rewrite Ha, Hf|]. simpl. now rewrite Hg.
    + exists [], (VSeq s), r. repeat split. exact Hs.
Qed.

(* keywords are folded to lower case; 'chains' / 'residues' give the atoms of every chain / residue *)
Theorem get_indices_keywords raw s :
  (lower s = m_order_chains -> get_indices raw (Some (XStr s)) = inr (map (map Z.of_nat) (chain_groups 0 None [] raw))) /\
  (lower s = m_order_residues -> get_indices raw (Some (XStr s)) = inr (map (map Z.of_nat) (residue_groups 0 raw))) /\
  (lower s <> m_order_chains -> lower s <> m_order_residues -> get_indices raw (Some (XStr s)) = inl OInvalidSelection) /\
  get_indices raw None = get_indices raw (Some (XStr m_dflt_order_indices)).
Proof.
  unfold get_indices. cbn [dflt]. repeat split.
  - intros ->. reflexivity.
  - intros ->. reflexivity.
  - intros H1 H2. apply String.eqb_neq in H1, H2. now rewrite H1, H2.
Qed.
