(* C16 / radial distribution function: bins, shell volumes, normalisation of
   mdtraj/geometry/rdf.py:compute_rdf.  The arithmetic blocks (shell volume, norm, bin centre, the
   n_bins quotient) come from Gen/DescFormulas.v.  No proofs in this file. *)
From Coq Require Import List Arith ZArith QArith Qabs Qround Bool.
Import ListNotations.
Require Import MD.Gen.DescFormulas MD.Desc.ContactsModel MD.Desc.MomentsModel.
Local Open Scope Q_scope.

(* np.histogram(range=(r0, r1), bins=n): edges r0 + k (r1 - r0)/n, k = 0..n *)
Definition edges (r0 r1 : Q) (n : nat) : list Q :=
  map (fun k => r0 + inject_Z (Z.of_nat k) * ((r1 - r0) / inject_Z (Z.of_nat n))) (seq 0 (S n)).

(* bin of x among boundaries bs: [b_k, b_k+1), the last one closed; None outside [b_0, b_n] *)
Fixpoint bin_from (k : nat) (bs : list Q) (x : Q) : option nat :=
  match bs with
  | lo :: ((hi :: rest) as tl) =>
      if Qle_bool lo x && (negb (Qle_bool hi x) || (match rest with [] => true | _ => false end && Qle_bool x hi))
      then Some k else bin_from (S k) tl x
  | _ => None
  end.
Definition bin_of (bs : list Q) (x : Q) : option nat := bin_from 0 bs x.

Definition count_bin (bs : list Q) (xs : list Q) (k : nat) : nat :=
  length (filter (fun x => match bin_of bs x with Some j => Nat.eqb j k | None => false end) xs).

(* histogram over n = length bs - 1 bins *)
Definition hist (bs : list Q) (xs : list Q) : list nat := map (count_bin bs xs) (seq 0 (length bs - 1)).

Fixpoint consecutive {A} (f : Q -> Q -> A) (es : list Q) : list A :=
  match es with
  | lo :: ((hi :: _) as tl) => f lo hi :: consecutive f tl
  | _ => []
  end.

Definition shells (pi : Q) (es : list Q) : list Q := consecutive (rdf_shell_volume pi) es.
Definition centres (es : list Q) : list Q := consecutive rdf_bin_centre es.

(* documented closed forms (the executable comparison uses these; Props/C16.v proves that the blocks
   regenerated from rdf.py equal them) *)
Definition spec_shell_volume (pi lo hi : Q) : Q := (4 # 3) * pi * (hi * hi * hi - lo * lo * lo).
Definition spec_bin_centre (lo hi : Q) : Q := (lo + hi) / (2 # 1).
Definition spec_norm (npairs siv v : Q) : Q := npairs * siv * v.
Definition spec_nbins_quotient (r0 r1 bw : Q) : Q := (r1 - r0) / bw.

(* IEEE-754 binary64 round-to-nearest-even of a rational (normal range; no overflow/underflow handling) *)
Definition rn53 (q : Q) : Q :=
  if Qeq_bool q 0 then 0 else
  let neg := negb (Qle_bool 0 q) in
  let a := Qabs q in
  let n := Qnum a in
  let d := Zpos (Qden a) in
  let scaled (e : Z) : Z * Z :=      (* numerator and denominator of a * 2^-e *)
    if (e <? 0)%Z then (n * 2 ^ (- e), d)%Z else (n, d * 2 ^ e)%Z in
  let e0 := (Z.log2 n - Z.log2 d - 52)%Z in
  let e := if (fst (scaled e0) / snd (scaled e0) <? 2 ^ 52)%Z then (e0 - 1)%Z else e0 in
  let '(nu, de) := scaled e in
  let m := (nu / de)%Z in
  let r := (nu - m * de)%Z in
  let m' := if (de <? 2 * r)%Z then (m + 1)%Z
            else if (2 * r =? de)%Z then (if Z.odd m then m + 1 else m)%Z else m in
  let v := if (e <? 0)%Z then (m' # 1) / ((2 ^ (- e))%Z # 1) else (m' * 2 ^ e # 1) in
  if neg then - v else v.

(* n_bins = int((r_range[1] - r_range[0]) / bin_width), in double precision as the code computes it:
   both the subtraction and the division are rounded (the arguments are doubles already) *)
Definition nbins_of_width (r0 r1 bw : Q) : Z :=
  Qfloor (rn53 (spec_nbins_quotient r0 (r0 + rn53 (r1 - r0)) bw)).

(* np.pi as the rational it is in double precision *)
Definition pi_f64 : Q := 884279719003555 # 281474976710656.

Definition sqq (x : Q) : Q := x * x.

(* g(r): counts / (n_pairs * sum_f 1/V_f * shell volume); distances enter squared (exact) and are
   compared with the squared edges (edges are non-negative) *)
Definition rdf (r0 r1 : Q) (n : nat) (npairs : nat) (vols : list Q) (d2s : list Q) : list Q * list Q :=
  let es := edges r0 r1 n in
  let cs := hist (map sqq es) d2s in
  let siv := fold_right Qplus 0 (map Qinv vols) in
  (consecutive spec_bin_centre es,
   map (fun cv => inject_Z (Z.of_nat (fst cv)) / spec_norm (inject_Z (Z.of_nat npairs)) siv (snd cv))
       (combine cs (consecutive (spec_shell_volume pi_f64) es))).

(* one correspondence case: tolerance, unit, r0, r1, bins (inl n | inr bin_width), atom pairs,
   periodic, frames with their cell (orthorhombic, grid units) *)
Definition rcase := (Q * Z * Q * Q * (nat + Q) * list (nat * nat) * bool * list (vec * frame))%type.

Definition rdf_nbins (r0 r1 : Q) (b : nat + Q) : nat :=
  match b with inl n => n | inr bw => Z.to_nat (nbins_of_width r0 r1 bw) end.

(* |x - y| <= tol * (1 + |y|) *)
Fixpoint qlist_close_mixed (tol : Q) (a b : list Q) : bool :=
  match a, b with
  | [], [] => true
  | x :: r, y :: s => Qle_bool (Qabs (x - y)) (tol * (1 + Qabs y)) && qlist_close_mixed tol r s
  | _, _ => false
  end.
Definition close_res_mixed (m : Q * list Q) (e : list Q) : bool := qlist_close_mixed (fst m) (snd m) e.

Definition rdf_d2s (c : rcase) : list Q :=
  let '(tol, unit, r0, r1, b, pairs, per, frames) := c in
  let u := inject_Z unit in
  flat_map (fun bf => map (fun p => inject_Z (dist2 (Some (COrth (fst bf))) per (snd bf) p) / (u * u)) pairs) frames.

(* guard band: a squared distance closer than 1e-6 (relative) to a squared edge without being equal to it
   could be binned differently after float32 rounding of the distance; such cases are not compared *)
Definition run_rdf_guard (c : rcase) : list Z :=
  let '(tol, unit, r0, r1, b, pairs, per, frames) := c in
  let es := map sqq (edges r0 r1 (rdf_nbins r0 r1 b)) in
  let near (x e : Q) := negb (Qeq_bool x e) && Qle_bool (Qabs (x - e)) ((1 # 1000000) * e) in
  if existsb (fun x => existsb (near x) es) (rdf_d2s c) then [0%Z] else [1%Z].

Definition run_rdf (c : rcase) : Q * list Q :=
  let '(tol, unit, r0, r1, b, pairs, per, frames) := c in
  let n := rdf_nbins r0 r1 b in
  let u := inject_Z unit in
  let vol (bx : vec) := let '(x, y, z) := bx in (inject_Z x / u) * (inject_Z y / u) * (inject_Z z / u) in
  let '(r, g) := rdf r0 r1 n (length pairs) (map (fun bf => vol (fst bf)) frames) (rdf_d2s c) in
  (tol, inject_Z (Z.of_nat n) :: r ++ g).

(* ------------------------------------------------------------------ compute_rdf_t *)
(* self_correlation: the pairs (a, a) of every atom occurring in `pairs` (np.unique: sorted) are put in front *)
Definition rdf_t_pairs (self : bool) (pairs : list (nat * nat)) : list (nat * nat) :=
  if self then map (fun a => (a, a)) (sort_u (flat_map (fun p => [fst p; snd p]) pairs)) ++ pairs else pairs.

(* The code splits the pairs into chunks of n_concurrent_pairs, normalises the histogram of every chunk by
   (len(chunk)/period_length) * sum(1/V) * V_shell and averages the chunks with weights len(chunk)/n_concurrent_pairs.
   [chunk_avg] is that computation for one (time pair, bin): cs = [(count_c, len_c)]. *)
Definition chunk_avg (ncp period siv v : Q) (cs : list (Q * Q)) : Q :=
  fold_right Qplus 0 (map (fun cn => (snd cn / ncp) * (fst cn / (snd cn / period * siv * v))) cs)
  / fold_right Qplus 0 (map (fun cn => snd cn / ncp) cs).

(* ... which is (Props/C16.v: rdf_t_entry) the single normalisation used by the executable model:
   g(r, t) = count / ((n_pairs / period_length) * sum_f 1/V_f * V_shell) *)
Definition rdf_t (r0 r1 : Q) (n : nat) (npairs : nat) (period : Q) (vols : list Q) (rows : list (list Q))
  : list Q * list (list Q) :=
  let es := edges r0 r1 n in
  let siv := fold_right Qplus 0 (map Qinv vols) in
  let sh := consecutive (spec_shell_volume pi_f64) es in
  (consecutive spec_bin_centre es,
   map (fun row => map (fun cv => inject_Z (Z.of_nat (fst cv)) / (inject_Z (Z.of_nat npairs) / period * siv * snd cv))
                       (combine (hist (map sqq es) row) sh)) rows).

(* tolerance, unit, r0, r1, bins, pairs, periodic, frames with cells, time pairs, self_correlation, period_length *)
Definition rtcase := (Q * Z * Q * Q * (nat + Q) * list (nat * nat) * bool * list (vec * frame)
                      * list (nat * nat) * bool * option nat)%type.

Definition rdf_t_rows (c : rtcase) : list (list Q) :=
  let '(tol, unit, r0, r1, b, pairs, per, frames, times, self, period) := c in
  let u := inject_Z unit in
  let ps := rdf_t_pairs self pairs in
  map (fun t =>
    let bf0 := nth (fst t) frames ((0, 0, 0)%Z, []) in
    let bf1 := nth (snd t) frames ((0, 0, 0)%Z, []) in
    map (fun p => inject_Z (dist2_pts (Some (COrth (fst bf0))) per (coord (snd bf0) (fst p)) (coord (snd bf1) (snd p)))
                  / (u * u)) ps) times.

Definition run_rdf_t_guard (c : rtcase) : list Z :=
  let '(tol, unit, r0, r1, b, pairs, per, frames, times, self, period) := c in
  let es := map sqq (edges r0 r1 (rdf_nbins r0 r1 b)) in
  let near (x e : Q) := negb (Qeq_bool x e) && Qle_bool (Qabs (x - e)) ((1 # 1000000) * e) in
  if existsb (fun x => existsb (near x) es) (concat (rdf_t_rows c)) then [0%Z] else [1%Z].

Definition run_rdf_t (c : rtcase) : Q * list Q :=
  let '(tol, unit, r0, r1, b, pairs, per, frames, times, self, period) := c in
  let n := rdf_nbins r0 r1 b in
  let u := inject_Z unit in
  let vol (bx : vec) := let '(x, y, z) := bx in (inject_Z x / u) * (inject_Z y / u) * (inject_Z z / u) in
  let p := match period with Some k => k | None => length frames end in
  let '(r, g) := rdf_t r0 r1 n (length (rdf_t_pairs self pairs)) (inject_Z (Z.of_nat p))
                       (map (fun bf => vol (fst bf)) frames) (rdf_t_rows c) in
  (tol, inject_Z (Z.of_nat n) :: r ++ concat g).
