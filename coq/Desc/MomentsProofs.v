(* C16 / DRID: the online update of moments.cpp equals the batch central moments; partner sets. *)
From Coq Require Import List Arith ZArith QArith Bool Lia Sorting.Sorted.
Import ListNotations.
Require Import MD.Gen.DescFormulas MD.Desc.MomentsModel.

(* ================================================================== partners *)
Section Partners.
Local Open Scope nat_scope.

Lemma insert_u_in x y l : In y (insert_u x l) <-> y = x \/ In y l.
Proof.
  induction l as [|z r IH]; simpl; [intuition|].
  destruct (x <? z) eqn:E1; simpl; [intuition|].
  destruct (x =? z) eqn:E2; simpl.
  - apply Nat.eqb_eq in E2. subst. intuition.
  - rewrite IH. intuition.
Qed.

Lemma sort_u_in y l : In y (sort_u l) <-> In y l.
Proof.
  induction l as [|x r IH]; simpl; [tauto|]. rewrite insert_u_in, IH. intuition.
Qed.

Lemma insert_u_sorted x l : StronglySorted lt l -> StronglySorted lt (insert_u x l).
Proof.
  induction l as [|z r IH]; intros H; simpl; [repeat constructor|].
  inversion H as [|? ? Hr Hz]; subst.
  destruct (x <? z) eqn:E1.
  - apply Nat.ltb_lt in E1. constructor; [exact H|]. constructor; [exact E1|].
    eapply Forall_impl; [|exact Hz]. intros; lia.
  - destruct (x =? z) eqn:E2; [exact H|].
    apply Nat.ltb_ge in E1. apply Nat.eqb_neq in E2.
    constructor; [apply IH; exact Hr|].
    apply Forall_forall. intros y Hy. apply insert_u_in in Hy. destruct Hy as [->|Hy]; [lia|].
    rewrite Forall_forall in Hz. apply Hz; exact Hy.
Qed.

Lemma sort_u_sorted l : StronglySorted lt (sort_u l).
Proof. induction l as [|x r IH]; simpl; [constructor|]. apply insert_u_sorted; exact IH. Qed.

Lemma bonded_sym bonds a b : bonded bonds a b = bonded bonds b a.
Proof.
  unfold bonded. induction bonds as [|e r IH]; simpl; [reflexivity|]. rewrite IH. f_equal. apply orb_comm.
Qed.

(* partner row of atom a: exactly the selected atoms other than a that are not bonded to a,
   each once, in increasing order *)
Theorem drid_partners_spec bonds ai a :
  (forall b, In b (drid_partners bonds ai a) <-> In b ai /\ b <> a /\ bonded bonds a b = false) /\
  StronglySorted lt (drid_partners bonds ai a).
Proof.
  split; [|apply sort_u_sorted].
  intros b. unfold drid_partners. rewrite sort_u_in, filter_In, andb_true_iff, !negb_true_iff, Nat.eqb_neq.
  tauto.
Qed.

(* the relation is symmetric: b is a partner of a iff a is a partner of b (for selected a, b) *)
Theorem drid_partners_sym bonds ai a b :
  In a ai -> In b ai -> (In b (drid_partners bonds ai a) <-> In a (drid_partners bonds ai b)).
Proof.
  intros Ha Hb. destruct (drid_partners_spec bonds ai a) as [Sa _].
  destruct (drid_partners_spec bonds ai b) as [Sb _].
  rewrite Sa, Sb, (bonded_sym bonds b a). intuition.
Qed.
End Partners.

(* ================================================================== moments *)
Local Open Scope Q_scope.

Definition D1 (c : Q) (xs : list Q) : Q := qsum' (map (fun x => x - c) xs).
Definition D2 (c : Q) (xs : list Q) : Q := qsum' (map (fun x => (x - c) * (x - c)) xs).
Definition D3 (c : Q) (xs : list Q) : Q := qsum' (map (fun x => (x - c) * (x - c) * (x - c)) xs).

Lemma qsum'_app l1 l2 : qsum' (l1 ++ l2) == qsum' l1 + qsum' l2.
Proof. induction l1 as [|x r IH]; simpl; [ring|]. rewrite IH. ring. Qed.

Lemma qlen_snoc xs x : qlen (xs ++ [x]) == qlen xs + 1.
Proof.
  unfold qlen. rewrite app_length. simpl. rewrite Nat.add_1_r, Nat2Z.inj_succ. unfold Z.succ.
  rewrite inject_Z_plus. reflexivity.
Qed.

Lemma qlen_nonneg xs : 0 <= qlen xs.
Proof. unfold qlen. change 0 with (inject_Z 0). rewrite <- Zle_Qle. lia. Qed.

(* moving the centre from c to c' *)
Lemma D1_shift c c' xs : D1 c' xs == D1 c xs - qlen xs * (c' - c).
Proof.
  unfold D1, qlen. induction xs as [|x r IH]; [simpl; ring|].
  simpl map. simpl qsum'. rewrite IH. simpl length. rewrite Nat2Z.inj_succ. unfold Z.succ.
  rewrite inject_Z_plus. ring.
Qed.

Lemma D2_shift c c' xs :
  D2 c' xs == D2 c xs - (2 # 1) * (c' - c) * D1 c xs + qlen xs * ((c' - c) * (c' - c)).
Proof.
  unfold D2, D1, qlen. induction xs as [|x r IH]; [simpl; ring|].
  simpl map. simpl qsum'. rewrite IH. simpl length. rewrite Nat2Z.inj_succ. unfold Z.succ.
  rewrite inject_Z_plus. ring.
Qed.

Lemma D3_shift c c' xs :
  D3 c' xs == D3 c xs - (3 # 1) * (c' - c) * D2 c xs + (3 # 1) * ((c' - c) * (c' - c)) * D1 c xs
              - qlen xs * ((c' - c) * (c' - c) * (c' - c)).
Proof.
  unfold D3, D2, D1, qlen. induction xs as [|x r IH]; [simpl; ring|].
  simpl map. simpl qsum'. rewrite IH. simpl length. rewrite Nat2Z.inj_succ. unfold Z.succ.
  rewrite inject_Z_plus. ring.
Qed.

Lemma D1_snoc c xs x : D1 c (xs ++ [x]) == D1 c xs + (x - c).
Proof. unfold D1. rewrite map_app, qsum'_app. simpl. ring. Qed.
Lemma D2_snoc c xs x : D2 c (xs ++ [x]) == D2 c xs + (x - c) * (x - c).
Proof. unfold D2. rewrite map_app, qsum'_app. simpl. ring. Qed.
Lemma D3_snoc c xs x : D3 c (xs ++ [x]) == D3 c xs + (x - c) * (x - c) * (x - c).
Proof. unfold D3. rewrite map_app, qsum'_app. simpl. ring. Qed.

(* the loop invariant of drid_moments: after pushing xs the state holds the count, a centre u about
   which the deviations sum to zero, and the raw sums of squared and cubed deviations about u *)
Definition Inv (s : mstate) (xs : list Q) : Prop :=
  let '(n, u, m2, m3) := s in
  n == qlen xs /\ D1 u xs == 0 /\ m2 == D2 u xs /\ m3 == D3 u xs.

Lemma Inv_init : Inv moments_init [].
Proof. unfold Inv, moments_init, qlen, D1, D2, D3. simpl. repeat split; reflexivity. Qed.

(* The proof does not depend on how the C statements are written, only on their value: every goal is
   reduced to a field identity in x, u, n and the sums about the old centre. *)
Lemma Inv_push s xs x : Inv s xs -> Inv (moments_push s x) (xs ++ [x]).
Proof.
  destruct s as [[[n u] m2] m3]. unfold Inv. intros (Hn & H1 & H2 & H3).
  assert (Hn1 : ~ n + 1 == 0).
  { rewrite Hn. pose proof (qlen_nonneg xs) as P. intro Z.
    assert (0 < qlen xs + 1) by (apply Qlt_le_trans with (y := 0 + 1); [reflexivity|apply Qplus_le_l; exact P]).
    rewrite Z in H. apply (Qlt_irrefl 0 H). }
  unfold moments_push. cbv zeta.
  repeat split.
  - rewrite qlen_snoc, <- Hn. ring.
  - rewrite D1_snoc, (D1_shift u), H1, <- Hn.
    field; (intro Z; apply Hn1; rewrite <- Z; ring).
  - rewrite D2_snoc, (D2_shift u), H1, <- Hn, <- H2.
    field; (intro Z; apply Hn1; rewrite <- Z; ring).
  - rewrite D3_snoc, (D3_shift u), (D2_shift u), H1, <- Hn, <- H2, <- H3.
    field; (intro Z; apply Hn1; rewrite <- Z; ring).
Qed.

Lemma Inv_fold l : forall s xs, Inv s xs -> Inv (fold_left moments_push l s) (xs ++ l).
Proof.
  induction l as [|x r IH]; intros s xs H; simpl; [now rewrite app_nil_r|].
  replace (xs ++ x :: r) with ((xs ++ [x]) ++ r) by (rewrite <- app_assoc; reflexivity).
  apply IH. apply Inv_push. exact H.
Qed.

Lemma D1_zero_mean u xs : xs <> [] -> D1 u xs == 0 -> u == bmean xs.
Proof.
  intros Hne H.
  assert (E : D1 u xs == qsum' xs - qlen xs * u).
  { unfold D1, qlen. clear. induction xs as [|x r IH]; [simpl; ring|].
    simpl map. simpl qsum'. rewrite IH. simpl length. rewrite Nat2Z.inj_succ. unfold Z.succ.
    rewrite inject_Z_plus. ring. }
  rewrite E in H. unfold bmean.
  assert (Hl : ~ qlen xs == 0).
  { unfold qlen. destruct xs as [|x r]; [congruence|]. simpl length. rewrite Nat2Z.inj_succ.
    intro Z. unfold Qeq, inject_Z in Z. simpl in Z. lia. }
  assert (Hs : qsum' xs == qlen xs * u).
  { setoid_replace (qsum' xs) with ((qsum' xs - qlen xs * u) + qlen xs * u) by ring. rewrite H. ring. }
  rewrite Hs. field. exact Hl.
Qed.

(* the one-pass result equals the two-pass (documented) mean and central moments *)
Theorem online_eq_batch xs : xs <> [] ->
  let '(m, s2, s3) := online_moments xs in
  m == bmean xs /\ s2 == bsecond xs /\ s3 == bthird xs.
Proof.
  intros Hne. unfold online_moments, online.
  pose proof (Inv_fold xs moments_init [] Inv_init) as H. simpl app in H.
  destruct (fold_left moments_push xs moments_init) as [[[n u] m2] m3].
  unfold Inv in H. destruct H as (Hn & H1 & H2 & H3).
  pose proof (D1_zero_mean u xs Hne H1) as Hu.
  unfold moments_mean, moments_second, moments_third, bsecond, bthird.
  split; [exact Hu|].
  assert (E2 : D2 u xs == D2 (bmean xs) xs).
  { unfold D2. clear -Hu. induction xs as [|x r IH] in Hu |- *; simpl; [reflexivity|].
    generalize (bmean (x :: r)) Hu. intros b Hb. clear IH.
    assert (G : forall l, qsum' (map (fun y => (y - u) * (y - u)) l) == qsum' (map (fun y => (y - b) * (y - b)) l)).
    { induction l as [|y t IHl]; simpl; [reflexivity|]. rewrite IHl, Hb. reflexivity. }
    rewrite Hb, (G r). reflexivity. }
  assert (E3 : D3 u xs == D3 (bmean xs) xs).
  { unfold D3. generalize (bmean xs) Hu. intros b Hb.
    assert (G : forall l, qsum' (map (fun y => (y - u) * (y - u) * (y - u)) l) ==
                          qsum' (map (fun y => (y - b) * (y - b) * (y - b)) l)).
    { induction l as [|y t IHl]; simpl; [reflexivity|]. rewrite IHl, Hb. reflexivity. }
    apply G. }
  split.
  - rewrite H2, Hn, E2. reflexivity.
  - rewrite H3, Hn, E3. reflexivity.
Qed.
