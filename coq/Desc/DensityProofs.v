(* C16 / proofs about the cell volume used by density (DensityModel.v) *)
From Coq Require Import List ZArith QArith Qabs Lqa.
Import ListNotations.
Require Import MD.Gen.DescFormulas MD.Desc.AlgebraModel MD.Desc.AlgebraProofs MD.Desc.DensityModel.
Local Open Scope Q_scope.

(* density of a frame = total mass / (a . (b x c)) * conversion *)
Theorem density_cell_form ms a b c :
  density_cell ms a b c == qsum ms / triple3 a b c * density_conversion.
Proof. unfold density_cell. apply density_form. Qed.

(* the triple product is the determinant: alternating and cyclic *)
Theorem triple3_alternating a b c :
  triple3 b a c == - triple3 a b c /\ triple3 a c b == - triple3 a b c /\ triple3 b c a == triple3 a b c.
Proof.
  destruct a as [[a0 a1] a2], b as [[b0 b1] b2], c as [[c0 c1] c2].
  unfold triple3, dotq, cross3, vx, vy, vz; simpl. repeat split; ring.
Qed.

(* cell in mdtraj's standard orientation: a along x, b in the xy plane *)
Theorem triple3_lower_triangular ax bx by_ cx cy cz :
  triple3 (ax, 0, 0) (bx, by_, 0) (cx, cy, cz) == ax * by_ * cz.
Proof. unfold triple3, dotq, cross3, vx, vy, vz; simpl. ring. Qed.

(* orthorhombic special case: the product of the three lengths *)
Corollary triple3_orthorhombic lx ly lz : triple3 (lx, 0, 0) (0, ly, 0) (0, 0, lz) == lx * ly * lz.
Proof. apply triple3_lower_triangular. Qed.

(* the product of the cell lengths over-estimates the volume of every cell in standard orientation, and is equal to
   it only when the cell is orthorhombic (so a density computed from the lengths is too low for triclinic cells) *)
Theorem lengths_product_overestimates ax bx by_ cx cy cz :
  0 < ax -> 0 < by_ -> 0 < cz ->
  let a := (ax, 0, 0) in let b := (bx, by_, 0) in let c := (cx, cy, cz) in
  triple3 a b c * triple3 a b c <= lengths_product_sq a b c /\
  (triple3 a b c * triple3 a b c == lengths_product_sq a b c -> bx == 0 /\ cx == 0 /\ cy == 0).
Proof.
  intros Ha Hb Hc a b c.
  assert (E : lengths_product_sq a b c - triple3 a b c * triple3 a b c ==
              (ax * ax) * ((bx * bx) * (cx * cx + cy * cy + cz * cz) + (by_ * by_) * (cx * cx + cy * cy))).
  { unfold a, b, c, lengths_product_sq, triple3, dotq, cross3, vx, vy, vz; simpl. ring. }
  assert (Pa : 0 < ax * ax) by nra.
  assert (Pb : 0 < by_ * by_) by nra.
  assert (Pc : 0 < cz * cz) by nra.
  assert (S1 : 0 <= bx * bx) by nra.
  assert (S2 : 0 <= cx * cx) by nra.
  assert (S3 : 0 <= cy * cy) by nra.
  split.
  - assert (0 <= (ax * ax) * ((bx * bx) * (cx * cx + cy * cy + cz * cz) + (by_ * by_) * (cx * cx + cy * cy))) by nra.
    lra.
  - intros Heq.
    assert (Z0 : (ax * ax) * ((bx * bx) * (cx * cx + cy * cy + cz * cz) + (by_ * by_) * (cx * cx + cy * cy)) == 0) by lra.
    assert (Z1 : (bx * bx) * (cx * cx + cy * cy + cz * cz) + (by_ * by_) * (cx * cx + cy * cy) == 0) by nra.
    assert (T1 : 0 <= (bx * bx) * (cx * cx + cy * cy + cz * cz)) by nra.
    assert (T2 : 0 <= (by_ * by_) * (cx * cx + cy * cy)) by nra.
    assert (Z2 : (bx * bx) * (cx * cx + cy * cy + cz * cz) == 0) by lra.
    assert (Z3 : (by_ * by_) * (cx * cx + cy * cy) == 0) by lra.
    assert (Z4 : bx * bx == 0) by nra.
    assert (Z5 : cx * cx + cy * cy == 0) by nra.
    assert (Z6 : cx * cx == 0) by lra.
    assert (Z7 : cy * cy == 0) by lra.
    repeat split; nra.
Qed.

(* a witness: a = (2,0,0), b = (1,2,0), c = (0,0,2): volume^2 = 64 < 80 = |a|^2 |b|^2 |c|^2 *)
Lemma lengths_product_refuted :
  exists a b c, ~ triple3 a b c * triple3 a b c == lengths_product_sq a b c /\
                0 < triple3 a b c.
Proof.
  exists (2, 0, 0), (1, 2, 0), (0, 0, 2). split; [intros H; vm_compute in H; discriminate|reflexivity].
Qed.
