(* C16 / contacts: lemmas about Desc/ContactsModel.v. *)
From Coq Require Import String Ascii List Arith ZArith Bool Lia.
Import ListNotations.
Require Import MD.Gen.DescTables MD.Desc.ContactsModel.
Local Open Scope nat_scope.

(* ------------------------------------------------------------------ generic list facts *)
Lemma list_sum_app l1 l2 : list_sum (l1 ++ l2) = list_sum l1 + list_sum l2.
Proof. induction l1 as [|x r IH]; simpl; [reflexivity|]. rewrite IH; lia. Qed.

Lemma firstn_app_exact {A} (l1 l2 : list A) : firstn (length l1) (l1 ++ l2) = l1.
Proof. induction l1 as [|x r IH]; simpl; [destruct l2; reflexivity|]. now rewrite IH. Qed.

Lemma skipn_app_exact {A} (l1 l2 : list A) : skipn (length l1) (l1 ++ l2) = l2.
Proof. induction l1 as [|x r IH]; simpl; [reflexivity|]. exact IH. Qed.

Lemma nth_error_split {A} (l : list A) i p :
  nth_error l i = Some p -> l = firstn i l ++ p :: skipn (S i) l /\ length (firstn i l) = i.
Proof.
  revert i; induction l as [|x r IH]; intros [|i] H; simpl in *; try discriminate.
  - inversion H; subst. split; reflexivity.
  - destruct (IH i H) as [E L]. split; [f_equal; exact E | now rewrite L].
Qed.

Lemma map_seq_nth {A B} (F : nat -> B) (G : A -> B) (l : list A) :
  (forall i p, nth_error l i = Some p -> F i = G p) ->
  map F (seq 0 (length l)) = map G l.
Proof.
  assert (Hgen : forall k, (forall i p, nth_error l i = Some p -> F (k + i) = G p) ->
                           map F (seq k (length l)) = map G l).
  { induction l as [|x r IH]; intros k H; simpl; [reflexivity|].
    f_equal.
    - specialize (H 0 x eq_refl). now rewrite Nat.add_0_r in H.
    - apply IH. intros i p Hi. specialize (H (S i) p Hi). now rewrite Nat.add_succ_r in H. }
  intros H. apply (Hgen 0). exact H.
Qed.

(* ------------------------------------------------------------------ offsets *)
Section Offsets.
Context (mem : nat -> list nat).

Lemma pair_product_length p :
  length (pair_product mem p) = length (mem (fst p)) * length (mem (snd p)).
Proof. unfold pair_product. apply prod_length. Qed.

Lemma flat_pairs_app l1 l2 : flat_pairs mem (l1 ++ l2) = flat_pairs mem l1 ++ flat_pairs mem l2.
Proof. unfold flat_pairs. apply flat_map_app. Qed.

Lemma counts_app l1 l2 : counts mem (l1 ++ l2) = counts mem l1 ++ counts mem l2.
Proof. unfold counts. apply map_app. Qed.

(* the running offset is the number of atom pairs emitted for the earlier residue pairs *)
Lemma flat_pairs_length l : length (flat_pairs mem l) = list_sum (counts mem l).
Proof.
  induction l as [|p r IH]; [reflexivity|].
  unfold flat_pairs, counts in *. simpl. rewrite app_length, pair_product_length, IH. reflexivity.
Qed.

Lemma offset_prefix l1 p l2 :
  offset mem (l1 ++ p :: l2) (length l1) = length (flat_pairs mem l1).
Proof.
  unfold offset. rewrite counts_app.
  replace (length l1) with (length (counts mem l1)) by (unfold counts; apply map_length).
  rewrite firstn_app_exact. symmetry. apply flat_pairs_length.
Qed.

Lemma count_at l1 p l2 :
  nth (length l1) (counts mem (l1 ++ p :: l2)) 0 = length (pair_product mem p).
Proof.
  rewrite counts_app.
  replace (length l1) with (length (counts mem l1)) by (unfold counts; apply map_length).
  rewrite app_nth2, Nat.sub_diag by lia. simpl. symmetry. apply pair_product_length.
Qed.

(* slice i of the flattened per-atom-pair row is exactly the row of the product of the two
   memberships of residue pair i, for residues of arbitrary (unequal, possibly zero) sizes *)
Theorem slice_is_product {A} (D : nat * nat -> A) pairs i p :
  nth_error pairs i = Some p ->
  slice mem pairs (map D (flat_pairs mem pairs)) i = map D (pair_product mem p).
Proof.
  intros H. destruct (nth_error_split _ _ _ H) as [E L].
  set (l1 := firstn i pairs) in *. set (l2 := skipn (S i) pairs) in *.
  unfold slice. rewrite E. rewrite <- L.
  rewrite offset_prefix, count_at.
  rewrite flat_pairs_app. simpl. fold (flat_pairs mem l2).
  rewrite !map_app.
  replace (length (flat_pairs mem l1)) with (length (map D (flat_pairs mem l1))) by apply map_length.
  rewrite skipn_app_exact.
  replace (length (pair_product mem p)) with (length (map D (pair_product mem p))) by apply map_length.
  apply firstn_app_exact.
Qed.
End Offsets.

(* ------------------------------------------------------------------ minimum *)
Lemma zmin_list_none l : zmin_list l = None <-> l = [].
Proof.
  destruct l as [|x r]; simpl; [tauto|].
  destruct (zmin_list r); split; intros H; discriminate.
Qed.

Lemma zmin_list_spec l m : zmin_list l = Some m ->
  In m l /\ forall x, In x l -> (m <= x)%Z.
Proof.
  revert m; induction l as [|y r IH]; intros m H; simpl in H; [discriminate|].
  destruct (zmin_list r) as [m'|] eqn:E.
  - inversion H; subst. destruct (IH m' eq_refl) as [Hin Hle]. split.
    + destruct (Z.min_spec y m') as [[_ ->]|[_ ->]]; [left; reflexivity | right; exact Hin].
    + intros x [->|Hx]; [apply Z.le_min_l|]. specialize (Hle x Hx). lia.
  - inversion H; subst. apply zmin_list_none in E. subst r. split; [left; reflexivity|].
    intros x [->|[]]. lia.
Qed.

(* ------------------------------------------------------------------ compute_contacts, non-CA schemes *)
Lemma match_nonempty {A B} (l : list A) (a b : B) :
  l <> [] -> match l with [] => a | _ :: _ => b end = b.
Proof. destruct l; [congruence|reflexivity]. Qed.

Definition product_row top s box per (f : frame) (p : nat * nat) : list Z :=
  map (dist2 box per f) (list_prod (membership s top (fst p)) (membership s top (snd p))).

Theorem contacts_slices_spec strict top s c box per frames rp :
  s <> SCa -> resolve top c = inr rp -> flat_pairs (membership s top) rp <> [] ->
  contacts strict top s c box per frames =
  COk rp (map (fun f => map (product_row top s box per f) rp) frames).
Proof.
  intros Hs Hr Hne. unfold contacts. rewrite Hr.
  assert (E : forall f,
    map (slice (membership s top) rp (map (dist2 box per f) (flat_pairs (membership s top) rp)))
        (seq 0 (length rp)) = map (product_row top s box per f) rp).
  { intros f. apply map_seq_nth. intros i p Hi.
    rewrite (slice_is_product (membership s top) (dist2 box per f) rp i p Hi). reflexivity. }
  destruct s; try congruence;
    (rewrite match_nonempty by exact Hne; f_equal; apply map_ext; intros f; apply E).
Qed.

(* no designated atom pair at all: the call is refused (compute_distances rejects the empty list) *)
Lemma contacts_no_pairs strict top s c box per frames rp :
  s <> SCa -> resolve top c = inr rp -> flat_pairs (membership s top) rp = [] ->
  contacts strict top s c box per frames = CErr EEmptyCA.
Proof.
  intros Hs Hr He. unfold contacts. rewrite Hr. destruct s; try congruence; now rewrite He.
Qed.

(* the value reported for (frame f, residue pair k) is a lower bound of, and attained on, the
   designated atom pairs; the call is refused iff some designated set is empty *)
Theorem contacts_min_spec strict top s c box per frames rp :
  s <> SCa -> resolve top c = inr rp -> flat_pairs (membership s top) rp <> [] ->
  match contacts_min strict top s c box per frames with
  | HOk rp' d2 =>
      rp' = rp /\
      length d2 = length frames /\
      forall fi f k p row v,
        nth_error frames fi = Some f -> nth_error rp k = Some p ->
        nth_error d2 fi = Some row -> nth_error row k = Some v ->
        (exists a b, In a (membership s top (fst p)) /\ In b (membership s top (snd p)) /\
                     v = dist2 box per f (a, b)) /\
        (forall a b, In a (membership s top (fst p)) -> In b (membership s top (snd p)) ->
                     (v <= dist2 box per f (a, b))%Z)
  | HErr e => e = EZeroSize /\ frames <> [] /\
              exists p, In p rp /\ (membership s top (fst p) = [] \/ membership s top (snd p) = [])
  end.
Proof.
  intros Hs Hr Hne. unfold contacts_min. rewrite (contacts_slices_spec strict top s c box per frames rp Hs Hr Hne).
  destruct (has_empty _) eqn:He.
  - split; [reflexivity|]. unfold has_empty in He.
    apply existsb_exists in He. destruct He as [row [Hrow He]].
    apply in_map_iff in Hrow. destruct Hrow as [f [<- Hf]].
    apply existsb_exists in He. destruct He as [l [Hl Hemp]].
    apply in_map_iff in Hl. destruct Hl as [p [<- Hp]].
    split; [intros ->; contradiction|].
    exists p. split; [exact Hp|].
    unfold product_row in Hemp.
    destruct (list_prod _ _) eqn:Hprod; [|discriminate].
    assert (Hlen : length (membership s top (fst p)) * length (membership s top (snd p)) = 0)
      by (rewrite <- prod_length, Hprod; reflexivity).
    destruct (membership s top (fst p)); [left; reflexivity|].
    destruct (membership s top (snd p)); [right; reflexivity|]. simpl in Hlen. lia.
  - split; [reflexivity|]. split; [now rewrite !map_length|].
    intros fi f k p row v Hf Hp Hrow Hv.
    rewrite nth_error_map, nth_error_map, Hf in Hrow. simpl in Hrow. inversion Hrow; subst row; clear Hrow.
    rewrite nth_error_map, nth_error_map, Hp in Hv. simpl in Hv.
    destruct (zmin_list (product_row top s box per f p)) as [m|] eqn:Em.
    + inversion Hv; subst v; clear Hv. destruct (zmin_list_spec _ _ Em) as [Hin Hle]. split.
      * unfold product_row in Hin. apply in_map_iff in Hin. destruct Hin as [[a b] [Hd Hab]].
        apply in_prod_iff in Hab. exists a, b. destruct Hab. repeat split; auto.
      * intros a b Ha Hb. apply Hle. unfold product_row. apply in_map_iff. exists (a, b).
        split; [reflexivity|]. apply in_prod; assumption.
    + exfalso. apply zmin_list_none in Em.
      unfold has_empty in He.
      assert (Hex : existsb (existsb (fun l => match l with [] => true | _ => false end))
                      (map (fun f0 => map (product_row top s box per f0) rp) frames) = true).
      { apply existsb_exists. exists (map (product_row top s box per f) rp). split.
        - apply in_map_iff. exists f. split; [reflexivity|]. eapply nth_error_In; eassumption.
        - apply existsb_exists. exists (product_row top s box per f p). split.
          + apply in_map_iff. exists p. split; [reflexivity|]. eapply nth_error_In; eassumption.
          + now rewrite Em. }
      congruence.
Qed.

(* ------------------------------------------------------------------ labels: contacts='all' *)
Lemma in_seq_iff a len x : In x (seq a len) <-> a <= x < a + len.
Proof. apply in_seq. Qed.

Theorem all_pairs_spec ig top i j :
  In (i, j) (all_pairs ig top) <->
  (i + 3 <= j /\ j < length top /\ keep_res ig top i = true /\ keep_res ig top j = true /\
   r_chain (res top i) = r_chain (res top j)).
Proof.
  unfold all_pairs. rewrite in_flat_map. split.
  - intros [i' [Hi' H]]. apply in_seq in Hi'.
    destruct (keep_res ig top i') eqn:Ki; [|contradiction].
    apply in_flat_map in H. destruct H as [j' [Hj' H]]. apply in_seq in Hj'.
    destruct (keep_res ig top j') eqn:Kj; simpl in H; [|contradiction].
    destruct (r_chain (res top i') =? r_chain (res top j')) eqn:Ec; [|contradiction].
    destruct H as [H|[]]. inversion H; subst. apply Nat.eqb_eq in Ec. repeat split; try assumption; lia.
  - intros (H1 & H2 & Ki & Kj & Ec). exists i. split; [apply in_seq; lia|].
    rewrite Ki. apply in_flat_map. exists j. split; [apply in_seq; lia|].
    rewrite Kj, Ec, Nat.eqb_refl. simpl. left; reflexivity.
Qed.

(* pairs come out in strictly increasing lexicographic order (so without repetition) *)
Definition lex_lt (p q : nat * nat) : Prop := fst p < fst q \/ (fst p = fst q /\ snd p < snd q).

Inductive sorted_lex : list (nat * nat) -> Prop :=
| sl_nil : sorted_lex []
| sl_one p : sorted_lex [p]
| sl_cons p q r : lex_lt p q -> sorted_lex (q :: r) -> sorted_lex (p :: q :: r).

Lemma sorted_lex_app l1 l2 :
  sorted_lex l1 -> sorted_lex l2 -> (forall p q, In p l1 -> In q l2 -> lex_lt p q) -> sorted_lex (l1 ++ l2).
Proof.
  induction l1 as [|p r IH]; intros H1 H2 H; simpl; [exact H2|].
  destruct r as [|q r'].
  - simpl. destruct l2 as [|q2 r2]; [constructor|]. constructor; [|exact H2].
    apply H; simpl; auto.
  - inversion H1; subst. simpl. constructor; [assumption|].
    apply IH; [assumption|assumption|]. intros a b Ha Hb. apply H; [right; exact Ha|exact Hb].
Qed.

Lemma sorted_inner (i : nat) (P : nat -> bool) a len :
  sorted_lex (flat_map (fun j => if P j then [(i, j)] else []) (seq a len)) /\
  forall p, In p (flat_map (fun j => if P j then [(i, j)] else []) (seq a len)) ->
            fst p = i /\ a <= snd p < a + len.
Proof.
  revert a; induction len as [|len IH]; intros a; simpl.
  - split; [constructor|intros p []].
  - destruct (IH (S a)) as [Hs Hin]. split.
    + destruct (P a); simpl; [|exact Hs].
      change ((i, a) :: ?l) with ([(i, a)] ++ l). apply sorted_lex_app; [constructor|exact Hs|].
      intros p q [<-|[]] Hq. destruct (Hin q Hq) as [E R]. right. simpl. split; [now rewrite E|lia].
    + intros p Hp. apply in_app_or in Hp. destruct Hp as [Hp|Hp].
      * destruct (P a); [|contradiction]. destruct Hp as [<-|[]]. simpl. split; [reflexivity|lia].
      * destruct (Hin p Hp). split; [assumption|lia].
Qed.

Lemma sorted_outer (F : nat -> list (nat * nat)) a len :
  (forall i, sorted_lex (F i)) -> (forall i p, In p (F i) -> fst p = i) ->
  sorted_lex (flat_map F (seq a len)) /\
  forall p, In p (flat_map F (seq a len)) -> a <= fst p < a + len.
Proof.
  intros HS HF. revert a; induction len as [|len IH]; intros a; simpl.
  - split; [constructor|intros p []].
  - destruct (IH (S a)) as [Hs Hin]. split.
    + apply sorted_lex_app; [apply HS|exact Hs|].
      intros p q Hp Hq. left. rewrite (HF a p Hp). specialize (Hin q Hq). lia.
    + intros p Hp. apply in_app_or in Hp. destruct Hp as [Hp|Hp].
      * rewrite (HF a p Hp). lia.
      * specialize (Hin p Hp). lia.
Qed.

Theorem all_pairs_sorted ig top : sorted_lex (all_pairs ig top).
Proof.
  unfold all_pairs. apply sorted_outer.
  - intros i. destruct (keep_res ig top i); [|constructor]. apply sorted_inner.
  - intros i p Hp. destruct (keep_res ig top i); [|contradiction].
    destruct (sorted_inner i (fun j => keep_res ig top j &&
                (r_chain (res top i) =? r_chain (res top j))) (i + 3) (length top - (i + 3))) as [_ H].
    apply (H p Hp).
Qed.

(* explicit pairs: returned unchanged when all are in range, refused otherwise *)
Theorem resolve_explicit top l :
  (forallb (in_range_pair (length top)) l = true ->
     exists rp, resolve top (CExplicit l) = inr rp /\
                map (fun p => (Z.of_nat (fst p), Z.of_nat (snd p))) rp = l) /\
  (forallb (in_range_pair (length top)) l = false -> resolve top (CExplicit l) = inl ERange).
Proof.
  split; intros H; simpl; rewrite H; [|reflexivity].
  eexists; split; [reflexivity|].
  rewrite map_map. rewrite <- (map_id l) at 2. apply map_ext_in. intros [a b] Hin. simpl.
  rewrite forallb_forall in H. specialize (H _ Hin). unfold in_range_pair in H. simpl in H.
  rewrite !andb_true_iff in H. destruct H as [[[H1 _] H2] _].
  apply Z.leb_le in H1, H2. rewrite !Z2Nat.id by assumption. reflexivity.
Qed.

(* ------------------------------------------------------------------ scheme 'ca' *)
Definition one_ca (top : topology) (r : nat) : bool := length (ca_atoms (res top r)) =? 1.
Definition no_ca (top : topology) (r : nat) : bool := length (ca_atoms (res top r)) =? 0.
Definition ca_of (top : topology) (r : nat) : nat := hd 0 (ca_atoms (res top r)).

Definition ca_keep top (p : nat * nat) : bool := one_ca top (fst p) && one_ca top (snd p).
Definition ca_bad top (p : nat * nat) : bool :=
  negb (ca_keep top p) && negb (no_ca top (fst p) || no_ca top (snd p)).

Lemma ca_case top r0 r1 :
  match ca_atoms (res top r0), ca_atoms (res top r1) with
  | [a], [b] => ca_keep top (r0, r1) = true /\ a = ca_of top r0 /\ b = ca_of top r1
  | _, _ => ca_keep top (r0, r1) = false
  end.
Proof.
  unfold ca_keep, one_ca, ca_of. simpl.
  destruct (ca_atoms (res top r0)) as [|a [|a' ra]]; simpl; try reflexivity;
  destruct (ca_atoms (res top r1)) as [|b [|b' rb]]; simpl; try reflexivity. auto.
Qed.

(* the residue pairs kept are exactly those whose two residues have exactly one CA, in the input
   order; atom pair k is (CA of first residue, CA of second residue) of kept pair k; the call is
   refused iff some pair has a residue with several CA while neither residue has none *)
Theorem ca_scan_spec top pairs :
  match ca_scan false top pairs with
  | inr (rp, ap) =>
      rp = filter (ca_keep top) pairs /\
      ap = map (fun p => (ca_of top (fst p), ca_of top (snd p))) rp /\
      existsb (ca_bad top) pairs = false
  | inl e => e = EManyCA /\ existsb (ca_bad top) pairs = true
  end.
Proof.
  induction pairs as [|[r0 r1] rest IH]; simpl; [auto|].
  pose proof (ca_case top r0 r1) as Hc.
  unfold ca_bad at 1 3. simpl fst; simpl snd.
  destruct (ca_atoms (res top r0)) as [|a [|a' ra]] eqn:E0;
  destruct (ca_atoms (res top r1)) as [|b [|b' rb]] eqn:E1;
  try (rewrite Hc; unfold no_ca; rewrite ?E0, ?E1; simpl;
       destruct (ca_scan false top rest) as [e|[rp ap]]; simpl; rewrite ?orb_true_r; simpl; exact IH).
  - (* exactly one CA each *)
    destruct Hc as [Hk [Ha Hb]]. rewrite Hk. simpl.
    destruct (ca_scan false top rest) as [e|[rp ap]]; [exact IH|].
    destruct IH as [-> [-> Hbad]]. repeat split; try assumption. simpl. now rewrite Ha, Hb.
  - rewrite Hc. unfold no_ca. rewrite E0, E1. simpl. auto.
  - rewrite Hc. unfold no_ca. rewrite E0, E1. simpl. auto.
  - rewrite Hc. unfold no_ca. rewrite E0, E1. simpl. auto.
Qed.

(* as found: with `contacts` given as an array (the documented type) a pair with a CA-less residue
   is not skipped, the call fails *)
Definition ca_refute_top : topology :=
  number_top 0 [("ALA"%string, 0, [("CA"%string, "C"%string)]);
                ("HOH"%string, 0, [("O"%string, "O"%string)]);
                ("ALA"%string, 0, [("CA"%string, "C"%string)])].

Lemma ca_scan_strict_refuted :
  exists top pairs rp ap, ca_scan false top pairs = inr (rp, ap) /\ rp <> [] /\
                          ca_scan true top pairs = inl EAmbiguous.
Proof.
  exists ca_refute_top, [(0, 2); (0, 1)], [(0, 2)], [(0, 2)].
  split; [vm_compute; reflexivity|]. split; [discriminate|vm_compute; reflexivity].
Qed.

(* ------------------------------------------------------------------ squareform *)
Section Assign.
Context {A : Type}.

Lemma assign_notin (m : nat -> nat -> A) idx vals a b :
  (forall k, nth_error idx k <> Some (a, b)) -> assign m idx vals a b = m a b.
Proof.
  revert m vals; induction idx as [|[i j] ir IH]; intros m vals H; simpl; [reflexivity|].
  destruct vals as [|v vr]; [reflexivity|].
  rewrite IH.
  - unfold upd. destruct ((a =? i) && (b =? j)) eqn:E; [|reflexivity].
    apply andb_true_iff in E. destruct E as [E1 E2]. apply Nat.eqb_eq in E1, E2. subst.
    exfalso. apply (H 0). reflexivity.
  - intros k. apply (H (S k)).
Qed.

Lemma assign_unique (m : nat -> nat -> A) idx vals a b k v :
  length idx = length vals ->
  nth_error idx k = Some (a, b) -> nth_error vals k = Some v ->
  (forall k', k' <> k -> nth_error idx k' <> Some (a, b)) ->
  assign m idx vals a b = v.
Proof.
  revert m vals k; induction idx as [|[i j] ir IH]; intros m vals k HL Hi Hv Hu.
  - destruct k; discriminate.
  - destruct vals as [|w vr]; [discriminate|]. simpl. destruct k as [|k].
    + simpl in Hi, Hv. inversion Hi; inversion Hv; subst.
      rewrite assign_notin.
      * unfold upd. now rewrite !Nat.eqb_refl.
      * intros k'. apply (Hu (S k')). lia.
    + simpl in Hi, Hv. apply (IH _ vr k); [simpl in HL; lia|assumption|assumption|].
      intros k' Hk'. apply (Hu (S k')). lia.
Qed.
End Assign.

Definition unordered_nodup (pairs : list (nat * nat)) : Prop :=
  forall k1 k2 p1 p2, nth_error pairs k1 = Some p1 -> nth_error pairs k2 = Some p2 ->
                      (p1 = p2 \/ p1 = swap p2) -> k1 = k2.

Lemma nth_error_swap pairs k p : nth_error (map swap pairs) k = Some p <-> nth_error pairs k = Some (swap p).
Proof.
  rewrite nth_error_map. destruct (nth_error pairs k) as [[x y]|]; simpl; [|split; discriminate].
  destruct p as [u w]. unfold swap; simpl. split; intros H; inversion H; subst; reflexivity.
Qed.

(* contact_maps[i, j] = contact_maps[j, i] = distances[k] for residue pair k = (i, j);
   every entry not named by a pair is 0 *)
Theorem squareform_spec d pairs :
  length d = length pairs -> unordered_nodup pairs ->
  (forall k i j v, nth_error pairs k = Some (i, j) -> nth_error d k = Some v ->
     squareform_fn d pairs i j = v /\ squareform_fn d pairs j i = v) /\
  (forall a b, (forall k, nth_error pairs k <> Some (a, b) /\ nth_error pairs k <> Some (b, a)) ->
     squareform_fn d pairs a b = 0%Z).
Proof.
  intros HL HU. split.
  - intros k i j v Hp Hv. unfold squareform_fn. split.
    + destruct (Nat.eq_dec i j) as [->|Hne].
      * apply (assign_unique _ _ _ _ _ k); [now rewrite map_length| |assumption|].
        -- apply nth_error_swap. exact Hp.
        -- intros k' Hk' H. apply nth_error_swap in H. unfold swap in H; simpl in H.
           apply Hk'. apply (HU k' k _ _ H Hp). left; reflexivity.
      * rewrite assign_notin.
        -- apply (assign_unique _ _ _ _ _ k); [now symmetry|assumption|assumption|].
           intros k' Hk' H. apply Hk'. apply (HU k' k _ _ H Hp). left; reflexivity.
        -- intros k' H. apply nth_error_swap in H. unfold swap in H; simpl in H.
           assert (k' = k) by (apply (HU k' k _ _ H Hp); right; reflexivity). subst k'.
           rewrite Hp in H. inversion H. congruence.
    + apply (assign_unique _ _ _ _ _ k); [now rewrite map_length| |assumption|].
      * apply nth_error_swap. exact Hp.
      * intros k' Hk' H. apply nth_error_swap in H. unfold swap in H; simpl in H.
        apply Hk'. apply (HU k' k _ _ H Hp). left; reflexivity.
  - intros a b H. unfold squareform_fn. rewrite assign_notin.
    + rewrite assign_notin; [reflexivity|]. intros k. apply H.
    + intros k Hk. apply nth_error_swap in Hk. unfold swap in Hk; simpl in Hk. apply (H k). exact Hk.
Qed.

(* ------------------------------------------------------------------ triclinic minimum image *)
Lemma zrange_spec K i : (0 <= K)%Z -> (In i (zrange K) <-> (- K <= i <= K)%Z).
Proof.
  intros HK. unfold zrange. rewrite in_map_iff. split.
  - intros [n [<- Hn]]. apply in_seq in Hn. lia.
  - intros H. exists (Z.to_nat (i + K)). split; [lia|]. apply in_seq. lia.
Qed.

Lemma fold_min_spec init l :
  let m := fold_right Z.min init l in
  (m <= init)%Z /\ (forall x, In x l -> (m <= x)%Z) /\ (m = init \/ In m l).
Proof.
  induction l as [|y r IH]; simpl.
  - split; [lia|]. split; [intros x []|left; reflexivity].
  - destruct IH as (H1 & H2 & H3). split; [lia|]. split.
    + intros x [->|Hx]; [lia|]. specialize (H2 x Hx). lia.
    + destruct (Z.min_spec y (fold_right Z.min init r)) as [[_ E]|[_ E]]; rewrite E.
      * right; left; reflexivity.
      * destruct H3 as [H3|H3]; [left; exact H3|right; right; exact H3].
Qed.

Definition image_d2 (a b c x y : vec) (i j k : Z) : Z :=
  let '(x0, x1, x2) := x in let '(y0, y1, y2) := y in
  let '(a0, a1, a2) := a in let '(b0, b1, b2) := b in let '(c0, c1, c2) := c in
  let e0 := (x0 - y0 + i * a0 + j * b0 + k * c0)%Z in
  let e1 := (x1 - y1 + i * a1 + j * b1 + k * c1)%Z in
  let e2 := (x2 - y2 + i * a2 + j * b2 + k * c2)%Z in
  (e0 * e0 + e1 * e1 + e2 * e2)%Z.

(* the triclinic distance of the model is the squared length of some lattice image of x - y and is not
   larger than that of any image with |i|,|j|,|k| <= K *)
Theorem d2_tri_min_image K a b c x y : (0 <= K)%Z ->
  (forall i j k, (- K <= i <= K)%Z -> (- K <= j <= K)%Z -> (- K <= k <= K)%Z ->
     (d2_tri K a b c x y <= image_d2 a b c x y i j k)%Z) /\
  (exists i j k, d2_tri K a b c x y = image_d2 a b c x y i j k).
Proof.
  intros HK.
  destruct x as [[x0 x1] x2], y as [[y0 y1] y2], a as [[a0 a1] a2], b as [[b0 b1] b2], c as [[c0 c1] c2].
  unfold d2_tri, image_d2.
  match goal with |- context [fold_right Z.min ?init ?l] => destruct (fold_min_spec init l) as (H1 & H2 & H3) end.
  split.
  - intros i j k Hi Hj Hk. apply H2.
    apply in_flat_map. exists i. split; [apply zrange_spec; assumption|].
    apply in_flat_map. exists j. split; [apply zrange_spec; assumption|].
    apply in_map_iff. exists k. split; [reflexivity|apply zrange_spec; assumption].
  - destruct H3 as [H3|H3].
    + exists 0%Z, 0%Z, 0%Z. rewrite H3. f_equal; [f_equal|]; ring.
    + apply in_flat_map in H3. destruct H3 as [i [_ H3]].
      apply in_flat_map in H3. destruct H3 as [j [_ H3]].
      apply in_map_iff in H3. destruct H3 as [k [H3 _]].
      exists i, j, k. symmetry. exact H3.
Qed.

(* ------------------------------------------------------------------ tie to the source text *)
Require Import MD.Desc.SchemeDsl MD.Gen.DescSchemes MD.Desc.SchemeSem.

(* The atom sets the model assigns to the schemes, its CA test and the constants of contacts='all' are those
   written in contact.py today (terms regenerated into Gen/DescSchemes.v on every run).  The proof only uses
   the truth tables of the predicates, so logically equivalent rewrites of the source keep it. *)
Lemma filter_all_true {A} (f : A -> bool) l : (forall x, f x = true) -> filter f l = l.
Proof. intros H. induction l as [|x r IH]; [reflexivity|]. simpl. now rewrite H, IH. Qed.

Theorem schemes_match_source :
  (forall s r, src_membership1 s r = membership1 s r) /\
  (forall r, src_ca_atoms r = ca_atoms r) /\
  (forall r, src_has_ca r = has_ca r) /\
  all_min_separation = 3 /\ all_same_chain = true.
Proof.
  assert (Hca : forall r, src_ca_atoms r = ca_atoms r).
  { intros r. unfold src_ca_atoms, ca_atoms.
    f_equal; try (apply filter_ext; intros a; unfold is_ca; cbn [eval_apred ca_pred]; reflexivity). }
  split; [|split; [exact Hca|split; [|split; reflexivity]]].
  - intros s r. destruct s; [exact (Hca r)| | | |];
      unfold src_membership1, membership1; cbn [scheme_name];
      match goal with |- context [lookup_member ?t ?k] =>
        let v := eval vm_compute in (lookup_member t k) in change (lookup_member t k) with v end;
      cbn [eval_member eval_rpred];
      try (destruct (String.eqb (r_name r) "GLY") eqn:EG; cbn [negb]);
      f_equal; try (apply filter_ext; intros a; cbn [eval_apred]; unfold is_h;
                    destruct (String.eqb (a_elem a) "H"); destruct (is_sidechain r a); reflexivity);
      try (apply filter_all_true; intros a; reflexivity).
  - intros r. unfold src_has_ca, has_ca.
    induction (r_atoms r) as [|a l IH]; [reflexivity|]. cbn [existsb]. rewrite IH. reflexivity.
Qed.
