(* C16 / Karplus relations of mdtraj/nmr/scalar_couplings.py: form of the relation and coefficient tables. *)
From Coq Require Import List String ZArith QArith Qabs Bool Lqa Reals Lra.
Import ListNotations.
Require Import MD.Gen.DescTables MD.Gen.DescFormulas MD.Gen.DescFormulasR.

(* ------------------------------------------------------------------ form *)
Section Form.
Import Lqa.
Local Open Scope Q_scope.

(* J = A c^2 + B c + C with c = cos(phi + phi0) *)
Theorem karplus_quadratic A B C c : j3_function A B C c == A * (c * c) + B * c + C.
Proof. unfold j3_function. simpl. ring. Qed.

Lemma qsq_nonneg (x : Q) : 0 <= x * x.
Proof. nra. Qed.

(* for A > 0 the coupling is bounded below by the vertex of the parabola and above by its value at |c| = 1 *)
Theorem karplus_range A B C c : 0 < A -> -(1) <= c -> c <= 1 ->
  (4 # 1) * A * C - B * B <= (4 # 1) * A * j3_function A B C c /\
  j3_function A B C c <= A + Qabs B + C.
Proof.
  intros HA Hl Hu. rewrite karplus_quadratic. split.
  - assert (E : (4 # 1) * A * (A * (c * c) + B * c + C) - ((4 # 1) * A * C - B * B) ==
                ((2 # 1) * A * c + B) * ((2 # 1) * A * c + B)) by ring.
    pose proof (qsq_nonneg ((2 # 1) * A * c + B)) as H0.
    rewrite <- E in H0. nra.
  - assert (Hc2 : c * c <= 1) by nra.
    assert (HB : B * c <= Qabs B).
    { destruct (Qlt_le_dec B 0) as [Hn|Hp].
      - rewrite Qabs_neg by lra. nra.
      - rewrite Qabs_pos by lra. nra. }
    nra.
Qed.
End Form.

Section Trig.
Local Open Scope R_scope.

(* the same relation in terms of the dihedral: A cos^2 t + B cos t + C = A/2 cos 2t + B cos t + C + A/2 *)
Theorem karplus_double_angle phi A B C phi0 :
  j3_function_R phi A B C phi0 =
  A / 2 * cos (2 * (phi + phi0)) + B * cos (phi + phi0) + (C + A / 2).
Proof. unfold j3_function_R. rewrite cos_2a_cos. simpl. field. Qed.

(* 2 pi periodic in the dihedral *)
Theorem karplus_periodic phi A B C phi0 :
  j3_function_R (phi + 2 * PI) A B C phi0 = j3_function_R phi A B C phi0.
Proof.
  unfold j3_function_R. replace (phi + 2 * PI + phi0) with (phi + phi0 + 2 * PI) by ring.
  rewrite (cos_plus (phi + phi0) (2 * PI)), cos_2PI, sin_2PI.
  replace (cos (phi + phi0) * 1 - sin (phi + phi0) * 0) with (cos (phi + phi0)) by ring. reflexivity.
Qed.

End Trig.

(* ------------------------------------------------------------------ tables *)
Local Open Scope Q_scope.

Definition row_eqb (a b : string * (Q * Q * Q * Q)) : bool :=
  let '(n1, (p1, a1, b1, c1)) := a in let '(n2, (p2, a2, b2, c2)) := b in
  String.eqb n1 n2 && Qeq_bool p1 p2 && Qeq_bool a1 a2 && Qeq_bool b1 b2 && Qeq_bool c1 c2.

Fixpoint table_eqb (t u : list (string * (Q * Q * Q * Q))) : bool :=
  match t, u with
  | [], [] => true
  | x :: r, y :: s => row_eqb x y && table_eqb r s
  | _, _ => false
  end.

(* published parameter sets: (phase in degrees, A, B, C) in Hz *)
Definition published_HN_HA : list (string * (Q * Q * Q * Q)) :=
  [("Ruterjans1999"%string, (-(60 # 1), 790 # 100, -(105 # 100), 65 # 100));
   ("Bax2007"%string, (-(60 # 1), 840 # 100, -(136 # 100), 33 # 100));
   ("Bax1997"%string, (-(60 # 1), 709 # 100, -(142 # 100), 155 # 100))].
Definition published_HN_C : list (string * (Q * Q * Q * Q)) :=
  [("Bax2007"%string, (180 # 1, 436 # 100, -(108 # 100), -(1 # 100)))].
Definition published_HN_CB : list (string * (Q * Q * Q * Q)) :=
  [("Bax2007"%string, (60 # 1, 371 # 100, -(59 # 100), 8 # 100))].

Theorem karplus_tables_published :
  table_eqb J3_HN_HA_coefficients published_HN_HA = true /\
  table_eqb J3_HN_C_coefficients published_HN_C = true /\
  table_eqb J3_HN_CB_coefficients published_HN_CB = true.
Proof. repeat split; vm_compute; reflexivity. Qed.
