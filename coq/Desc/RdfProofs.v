(* C16 / RDF: shell volumes telescope, every in-range distance falls in exactly one bin. *)
From Coq Require Import List Arith ZArith QArith Qround Bool Lia Lqa Sorting.Sorted.
Import ListNotations.
Require Import MD.Gen.DescFormulas MD.Desc.ContactsModel MD.Desc.RdfModel.
Local Open Scope Q_scope.

(* ------------------------------------------------------------------ shell volumes *)
Definition qsumr (l : list Q) : Q := fold_right Qplus 0 l.

Lemma last_nonempty_default (l : list Q) x d d' : last (x :: l) d = last (x :: l) d'.
Proof. revert x; induction l as [|y t IH]; intros x; [reflexivity|]. simpl in *. apply IH. Qed.

Lemma last_cons_shift (l : list Q) a d : last (a :: l) d = last l a.
Proof. destruct l as [|x t]; [reflexivity|]. simpl. apply (last_nonempty_default t x d a). Qed.

(* the shells of consecutive edges add up to the shell between the first and the last edge:
   sum_k 4/3 pi (e_k+1^3 - e_k^3) = 4/3 pi (e_n^3 - e_0^3), for any edge list *)
Theorem shell_volumes_telescope pi e0 es :
  qsumr (shells pi (e0 :: es)) == rdf_shell_volume pi e0 (last es e0).
Proof.
  revert e0; induction es as [|e1 r IH]; intros e0.
  - simpl. unfold rdf_shell_volume. ring.
  - change (shells pi (e0 :: e1 :: r)) with (rdf_shell_volume pi e0 e1 :: shells pi (e1 :: r)).
    simpl qsumr. fold (qsumr (shells pi (e1 :: r))). rewrite IH.
    rewrite (last_cons_shift r e1 e0). unfold rdf_shell_volume. ring.
Qed.

(* the shell volume is the documented 4/3 pi (hi^3 - lo^3) and the bin label its midpoint *)
Theorem shell_and_centre_forms pi lo hi :
  rdf_shell_volume pi lo hi == spec_shell_volume pi lo hi /\
  rdf_bin_centre lo hi == spec_bin_centre lo hi.
Proof. unfold rdf_shell_volume, rdf_bin_centre, spec_shell_volume, spec_bin_centre. split; field. Qed.

Theorem norm_form npairs siv v : rdf_norm npairs siv v == spec_norm npairs siv v.
Proof. unfold rdf_norm, spec_norm. ring. Qed.

Theorem nbins_quotient_form r0 r1 bw : rdf_nbins_quotient r0 r1 bw == spec_nbins_quotient r0 r1 bw.
Proof. unfold rdf_nbins_quotient, spec_nbins_quotient, Qdiv. ring. Qed.

(* ------------------------------------------------------------------ bins *)
Definition in_bin (lo hi : Q) (is_last : bool) (x : Q) : Prop :=
  lo <= x /\ (x < hi \/ (is_last = true /\ x <= hi)).

Lemma Qle_bool_false a b : Qle_bool a b = false <-> b < a.
Proof.
  split; intros H.
  - apply Qnot_le_lt. intro L. apply Qle_bool_iff in L. congruence.
  - destruct (Qle_bool a b) eqn:E; [|reflexivity]. apply Qle_bool_iff in E. exfalso. apply (Qlt_not_le _ _ H E).
Qed.

(* k-th boundary pair of a boundary list *)
Definition is_last_bin (bs : list Q) (j : nat) : bool :=
  match nth_error bs (S (S j)) with None => true | Some _ => false end.

Definition bounds (bs : list Q) (j : nat) : option (Q * Q * bool) :=
  match nth_error bs j, nth_error bs (S j) with
  | Some lo, Some hi => Some (lo, hi, is_last_bin bs j)
  | _, _ => None
  end.

Lemma is_last_bin_length bs j : is_last_bin bs j = true -> (length bs <= S (S j))%nat.
Proof.
  unfold is_last_bin. destruct (nth_error bs (S (S j))) eqn:E; [discriminate|].
  intros _. apply nth_error_None. exact E.
Qed.

Lemma bin_from_sound bs : forall k x j, bin_from k bs x = Some j ->
  (k <= j)%nat /\ exists lo hi l, bounds bs (j - k) = Some (lo, hi, l) /\ in_bin lo hi l x.
Proof.
  induction bs as [|lo tl IH]; intros k x j H; [discriminate|].
  destruct tl as [|hi rest]; [discriminate|].
  simpl in H.
  destruct (Qle_bool lo x && (negb (Qle_bool hi x) || (match rest with [] => true | _ => false end && Qle_bool x hi))) eqn:E.
  - inversion H; subst j. split; [lia|]. rewrite Nat.sub_diag.
    exists lo, hi, (match rest with [] => true | _ => false end). split.
    + unfold bounds, is_last_bin. simpl. destruct rest; reflexivity.
    + apply andb_true_iff in E. destruct E as [E1 E2]. apply Qle_bool_iff in E1. split; [exact E1|].
      apply orb_true_iff in E2. destruct E2 as [E2|E2].
      * left. apply negb_true_iff in E2. apply Qle_bool_false in E2. exact E2.
      * right. apply andb_true_iff in E2. destruct E2 as [E2 E3]. apply Qle_bool_iff in E3. split; assumption.
  - destruct (IH (S k) x j H) as [Hk (lo' & hi' & l & Hb & Hin)]. split; [lia|].
    exists lo', hi', l. split; [|exact Hin].
    replace (j - k)%nat with (S (j - S k)) by lia. unfold bounds, is_last_bin in *. simpl. exact Hb.
Qed.

(* completeness: a value between the first and the last boundary of an increasing list gets a bin *)
Lemma bin_from_complete bs : forall k x,
  StronglySorted Qlt bs -> (2 <= length bs)%nat ->
  hd 0 bs <= x -> x <= last bs 0 -> exists j, bin_from k bs x = Some j.
Proof.
  induction bs as [|lo tl IH]; intros k x HS HL Hlo Hhi; [simpl in HL; lia|].
  destruct tl as [|hi rest]; [simpl in HL; lia|].
  simpl in Hlo. simpl bin_from.
  destruct (Qle_bool lo x && (negb (Qle_bool hi x) || (match rest with [] => true | _ => false end && Qle_bool x hi))) eqn:E.
  - eexists; reflexivity.
  - inversion HS as [|? ? HS' HF]; subst.
    assert (E1 : Qle_bool lo x = true) by (apply Qle_bool_iff; exact Hlo).
    rewrite E1 in E. simpl in E. apply orb_false_iff in E. destruct E as [E2 E3].
    apply negb_false_iff in E2. apply Qle_bool_iff in E2.
    destruct rest as [|h2 rest'].
    + simpl in E3. simpl in Hhi. apply Qle_bool_iff in Hhi. congruence.
    + apply (IH (S k) x HS'); [simpl; lia|simpl; exact E2|exact Hhi].
Qed.

(* outside the range no bin is assigned *)
Lemma bin_from_none_low bs : forall k x, StronglySorted Qlt bs -> x < hd 0 bs -> bin_from k bs x = None.
Proof.
  induction bs as [|lo tl IH]; intros k x HS H; [reflexivity|].
  destruct tl as [|hi rest]; [reflexivity|]. simpl in H. simpl bin_from.
  assert (E : Qle_bool lo x = false) by (apply Qle_bool_false; exact H). rewrite E. simpl.
  inversion HS as [|? ? HS' HF]; subst. apply IH; [exact HS'|].
  simpl. inversion HF; subst. eapply Qlt_trans; eassumption.
Qed.

(* two different bins of an increasing boundary list are disjoint *)
Lemma nth_error_sorted_lt bs : StronglySorted Qlt bs -> forall i j a b,
  (i < j)%nat -> nth_error bs i = Some a -> nth_error bs j = Some b -> a < b.
Proof.
  induction 1 as [|x l HS IH HF]; intros i j a b Hij Ha Hb; [destruct i; discriminate|].
  destruct j as [|j]; [lia|]. destruct i as [|i]; simpl in *.
  - inversion Ha; subst. rewrite Forall_forall in HF. apply HF. eapply nth_error_In; eassumption.
  - apply (IH i j); [lia|assumption|assumption].
Qed.

Theorem bins_disjoint bs x j1 j2 lo1 hi1 l1 lo2 hi2 l2 :
  StronglySorted Qlt bs ->
  bounds bs j1 = Some (lo1, hi1, l1) -> bounds bs j2 = Some (lo2, hi2, l2) ->
  in_bin lo1 hi1 l1 x -> in_bin lo2 hi2 l2 x -> j1 = j2.
Proof.
  intros HS.
  assert (W : forall a b loa hia la lob hib lb, (a < b)%nat ->
    bounds bs a = Some (loa, hia, la) -> bounds bs b = Some (lob, hib, lb) ->
    in_bin loa hia la x -> in_bin lob hib lb x -> False).
  { intros a b loa hia la lob hib lb Hab Ba Bb [_ Ia] [Ib _].
    unfold bounds in Ba, Bb.
    destruct (nth_error bs a) as [qa|] eqn:Na; [|discriminate].
    destruct (nth_error bs (S a)) as [qa'|] eqn:Na'; [|discriminate].
    destruct (nth_error bs b) as [qb|] eqn:Nb; [|discriminate].
    destruct (nth_error bs (S b)) as [qb'|] eqn:Nb'; [|discriminate].
    injection Ba as ? ? ?. injection Bb as ? ? ?. subst.
    assert (Hle : hia <= lob).
    { destruct (Nat.eq_dec (S a) b) as [<-|Hne].
      - rewrite Na' in Nb. inversion Nb; subst. apply Qle_refl.
      - apply Qlt_le_weak. apply (nth_error_sorted_lt bs HS (S a) b); [lia|assumption|assumption]. }
    destruct Ia as [Ia|[Il Ia]].
    - apply (Qlt_irrefl x). eapply Qlt_le_trans; [exact Ia|]. eapply Qle_trans; eassumption.
    - (* a is the last bin, so there is no boundary S (S a); but S b > S a exists *)
      apply is_last_bin_length in Il.
      assert (S b < length bs)%nat by (apply nth_error_Some; congruence). lia. }
  intros B1 B2 I1 I2.
  destruct (Nat.lt_trichotomy j1 j2) as [H|[H|H]]; [|exact H|].
  - exfalso. eapply (W j1 j2); eassumption.
  - exfalso. eapply (W j2 j1); eassumption.
Qed.

(* every value in [first, last] is counted in exactly one bin: the histogram loses and doubles nothing *)
Theorem bins_partition bs x :
  StronglySorted Qlt bs -> (2 <= length bs)%nat -> hd 0 bs <= x -> x <= last bs 0 ->
  exists j lo hi l, bin_of bs x = Some j /\ bounds bs j = Some (lo, hi, l) /\ in_bin lo hi l x /\
    forall j' lo' hi' l', bounds bs j' = Some (lo', hi', l') -> in_bin lo' hi' l' x -> j' = j.
Proof.
  intros HS HL Hlo Hhi.
  destruct (bin_from_complete bs 0 x HS HL Hlo Hhi) as [j Hj].
  destruct (bin_from_sound bs 0 x j Hj) as [_ (lo & hi & l & Hb & Hin)].
  rewrite Nat.sub_0_r in Hb.
  exists j, lo, hi, l. repeat split; try assumption; try apply Hin.
  intros j' lo' hi' l' Hb' Hin'. eapply bins_disjoint; eassumption.
Qed.

(* the edges produced for r0 < r1 and n >= 1 start at r0 and end at r1 *)
Theorem edges_ends r0 r1 n : (1 <= n)%nat ->
  hd 0 (edges r0 r1 n) == r0 /\ last (edges r0 r1 n) 0 == r1 /\ length (edges r0 r1 n) = S n.
Proof.
  intros Hn. unfold edges. split; [|split].
  - simpl. ring.
  - rewrite seq_S, map_app. simpl. rewrite last_last. field.
    intro Z. unfold Qeq, inject_Z in Z. simpl in Z. lia.
  - now rewrite map_length, seq_length.
Qed.

(* ------------------------------------------------------------------ compute_rdf_t *)
Lemma qsumr_ext {A} (f g : A -> Q) l :
  (forall x, In x l -> f x == g x) -> qsumr (map f l) == qsumr (map g l).
Proof.
  induction l as [|x r IH]; intros H; simpl; [reflexivity|].
  rewrite (H x (or_introl eq_refl)), IH; [reflexivity|]. intros y Hy. apply H. right; exact Hy.
Qed.

Lemma qsumr_scal {A} (k : Q) (f : A -> Q) l : qsumr (map (fun x => k * f x) l) == k * qsumr (map f l).
Proof. induction l as [|x r IH]; simpl; [ring|]. rewrite IH. ring. Qed.

(* the chunked, weighted computation of compute_rdf_t equals the single normalisation
   total count / ((total number of pairs / period_length) * sum(1/V) * V_shell), whatever the chunk sizes *)
Theorem rdf_t_chunks ncp period siv v cs :
  (forall cn, In cn cs -> ~ snd cn == 0) -> ~ ncp == 0 -> ~ period == 0 -> ~ siv == 0 -> ~ v == 0 ->
  ~ qsumr (map snd cs) == 0 ->
  chunk_avg ncp period siv v cs == qsumr (map fst cs) / (qsumr (map snd cs) / period * siv * v).
Proof.
  intros Hn Hc Hp Hs Hv Ht. unfold chunk_avg. fold (qsumr (map (fun cn : Q * Q => snd cn / ncp) cs)).
  fold (qsumr (map (fun cn : Q * Q => snd cn / ncp * (fst cn / (snd cn / period * siv * v))) cs)).
  rewrite (qsumr_ext (fun cn : Q * Q => snd cn / ncp * (fst cn / (snd cn / period * siv * v)))
                     (fun cn => (period / (ncp * siv * v)) * fst cn)).
  2:{ intros cn Hin. specialize (Hn cn Hin). field. repeat split; assumption. }
  rewrite (qsumr_ext (fun cn : Q * Q => snd cn / ncp) (fun cn => (1 / ncp) * snd cn)).
  2:{ intros cn _. field. exact Hc. }
  rewrite !qsumr_scal. field. repeat split; assumption.
Qed.

(* the histogram of a concatenation is the sum of the histograms (what makes the chunk counts add up) *)
Theorem count_bin_app bs xs ys k : count_bin bs (xs ++ ys) k = (count_bin bs xs k + count_bin bs ys k)%nat.
Proof. unfold count_bin. now rewrite filter_app, app_length. Qed.
