(* C16 / mdtraj/geometry/order.py: inertia tensor, directors, nematic Q tensor and order parameter;
   grouping of atoms by chain / residue.  Executable closed forms over Q.  No proofs. *)
From Coq Require Import String List Arith ZArith QArith Qabs Bool.
Import ListNotations.
Require Import MD.Gen.DescTables MD.Gen.DescFormulas MD.Desc.AlgebraModel.
Local Open Scope Q_scope.

Definition delta (a b : nat) : Q := if Nat.eqb a b then 1 else 0.
Definition dot3' (d : qvec) : Q := vx d * vx d + vy d * vy d + vz d * vz d.

(* positions relative to the centre of mass, with the masses: [(m_i, r_i - c)] (fractions kept in lowest terms) *)
Definition centred (ms : list Q) (pts : list qvec) : list (Q * qvec) :=
  let c0 := Qred (wmean ms (map vx pts)) in
  let c1 := Qred (wmean ms (map vy pts)) in
  let c2 := Qred (wmean ms (map vz pts)) in
  map (fun mp => (fst mp, (Qred (vx (snd mp) - c0), Qred (vy (snd mp) - c1), Qred (vz (snd mp) - c2))))
      (combine ms pts).

(* mass-weighted second moments S_ab = sum_i m_i d_ia d_ib of the centred positions *)
Definition second_moment (a b : nat) (cs : list (Q * qvec)) : Q :=
  qsum (map (fun md => fst md * (comp a (snd md) * comp b (snd md))) cs).

(* compute_inertia_tensor: I_ab = sum_i m_i (|r_i - c|^2 delta_ab - (r_i - c)_a (r_i - c)_b), c = centre of mass,
   evaluated as (S_00 + S_11 + S_22) delta_ab - S_ab (equal to the documented sum: OrderProofs.inertia_documented_form) *)
Definition inertia_of (a b : nat) (cs : list (Q * qvec)) : Q :=
  (second_moment 0 0 cs + second_moment 1 1 cs + second_moment 2 2 cs) * delta a b - second_moment a b cs.

Definition inertia_entry (a b : nat) (ms : list Q) (pts : list qvec) : Q := inertia_of a b (centred ms pts).

Definition inertia (ms : list Q) (pts : list qvec) : sym3 :=
  let cs := centred ms pts in
  let s00 := second_moment 0 0 cs in let s11 := second_moment 1 1 cs in let s22 := second_moment 2 2 cs in
  let t := s00 + s11 + s22 in
  (t - s00, t - s11, t - s22, - second_moment 0 1 cs, - second_moment 0 2 cs, - second_moment 1 2 cs).

(* symmetric matrix times vector, dot product *)
Definition sym_apply (s : sym3) (v : qvec) : qvec :=
  let '(xx, yy, zz, xy, xz, yz) := s in
  (xx * vx v + xy * vy v + xz * vz v, xy * vx v + yy * vy v + yz * vz v, xz * vx v + yz * vy v + zz * vz v).
Definition dot3 (u v : qvec) : Q := vx u * vx v + vy u * vy v + vz u * vz v.

(* characteristic polynomial of a symmetric tensor and its derivative *)
Definition charpoly (s : sym3) (x : Q) : Q := x * x * x - tr3 s * (x * x) + e2_3 s * x - det3 s.
Definition charpoly' (s : sym3) (x : Q) : Q := (3 # 1) * (x * x) - (2 # 1) * tr3 s * x + e2_3 s.

Definition qpos (x : Q) : Q := if Qle_bool x 0 then 0 else x.

(* residuals (all ~0) of a reported unit vector v against "eigenvector of the extreme eigenvalue of s":
   |s v - l v|^2 / (t^2 v.v) with l the Rayleigh quotient, |v.v - 1|, and l is the smallest (least = true)
   or largest root of the characteristic polynomial: p'(l) >= 0 and 3 l <= tr (resp. >=), scaled by t *)
Definition eigvec_residuals (least : bool) (t : Q) (s : sym3) (v : qvec) : list Q :=
  let vv := dot3 v v in
  let sv := sym_apply s v in
  let l := dot3 v sv / vv in
  let r := (vx sv - l * vx v, vy sv - l * vy v, vz sv - l * vz v) in
  [dot3 r r / (t * t * vv); vv - 1;
   qpos (- charpoly' s l / (t * t));
   qpos ((if least then (3 # 1) * l - tr3 s else tr3 s - (3 # 1) * l) / t)].

(* _compute_Q_tensor: Q_ab = 1/(2N) sum_i (3 e_ia e_ib - delta_ab), e_i = d_i / |d_i|; e_ia e_ib = d_ia d_ib / (d_i.d_i) *)
Definition nematic_entry (a b : nat) (ds : list qvec) : Q :=
  qsum (map (fun d => Qred ((3 # 1) * (comp a d * comp b d) / dot3 d d - delta a b)) ds)
  / ((2 # 1) * inject_Z (Z.of_nat (length ds))).

Definition nematic_q (ds : list qvec) : sym3 :=
  (nematic_entry 0 0 ds, nematic_entry 1 1 ds, nematic_entry 2 2 ds,
   nematic_entry 0 1 ds, nematic_entry 0 2 ds, nematic_entry 1 2 ds).

(* residuals of a reported order parameter S2 against "largest eigenvalue of Q(directors)" *)
Definition s2_residuals (ds : list qvec) (s2 : Q) : list Q :=
  let q := nematic_q ds in
  [charpoly q s2; qpos (- charpoly' q s2); qpos (tr3 q - (3 # 1) * s2)].

(* ---- the same residuals evaluated with every intermediate fraction kept in lowest terms (Qred x == x;
   OrderProofs.eigvec_residuals_r_eq / s2_residuals_r_eq); only this changes the running time, not the values *)
Definition radd (a b : Q) : Q := Qred (a + b).
Definition rsub (a b : Q) : Q := Qred (a - b).
Definition rmul (a b : Q) : Q := Qred (a * b).
Definition rdiv (a b : Q) : Q := Qred (a / b).

Definition sym_apply_r (s : sym3) (v : qvec) : qvec :=
  let '(xx, yy, zz, xy, xz, yz) := s in
  (radd (radd (rmul xx (vx v)) (rmul xy (vy v))) (rmul xz (vz v)),
   radd (radd (rmul xy (vx v)) (rmul yy (vy v))) (rmul yz (vz v)),
   radd (radd (rmul xz (vx v)) (rmul yz (vy v))) (rmul zz (vz v))).
Definition dot3_r (u v : qvec) : Q := radd (radd (rmul (vx u) (vx v)) (rmul (vy u) (vy v))) (rmul (vz u) (vz v)).

Definition e2_3_r (s : sym3) : Q :=
  let '(xx, yy, zz, xy, xz, yz) := s in
  radd (radd (rsub (rmul xx yy) (rmul xy xy)) (rsub (rmul xx zz) (rmul xz xz))) (rsub (rmul yy zz) (rmul yz yz)).
Definition det3_r (s : sym3) : Q :=
  let '(xx, yy, zz, xy, xz, yz) := s in
  radd (rsub (rmul xx (rsub (rmul yy zz) (rmul yz yz))) (rmul xy (rsub (rmul xy zz) (rmul yz xz))))
       (rmul xz (rsub (rmul xy yz) (rmul yy xz))).
Definition tr3_r (s : sym3) : Q := let '(xx, yy, zz, xy, xz, yz) := s in radd (radd xx yy) zz.

Definition charpoly_r (s : sym3) (x : Q) : Q :=
  rsub (radd (rsub (rmul (rmul x x) x) (rmul (tr3_r s) (rmul x x))) (rmul (e2_3_r s) x)) (det3_r s).
Definition charpoly'_r (s : sym3) (x : Q) : Q :=
  radd (rsub (rmul (3 # 1) (rmul x x)) (rmul (rmul (2 # 1) (tr3_r s)) x)) (e2_3_r s).

Definition eigvec_residuals_r (least : bool) (t : Q) (s : sym3) (v : qvec) : list Q :=
  let vv := dot3_r v v in
  let sv := sym_apply_r s v in
  let l := rdiv (dot3_r v sv) vv in
  let r := (rsub (vx sv) (rmul l (vx v)), rsub (vy sv) (rmul l (vy v)), rsub (vz sv) (rmul l (vz v))) in
  [rdiv (dot3_r r r) (rmul (rmul t t) vv); rsub vv 1;
   qpos (rdiv (- charpoly'_r s l) (rmul t t));
   qpos (rdiv (if least then rsub (rmul (3 # 1) l) (tr3_r s) else rsub (tr3_r s) (rmul (3 # 1) l)) t)].

Definition s2_residuals_r (ds : list qvec) (s2 : Q) : list Q :=
  let q := nematic_q ds in
  [charpoly_r q s2; qpos (- charpoly'_r q s2); qpos (rsub (tr3_r q) (rmul (3 # 1) s2))].

(* ------------------------------------------------------------------ groups: 'chains' / 'residues' *)
Local Open Scope nat_scope.
(* raw topology rows (residue name, chain number, atoms): atom indices run in file order *)
Definition rawres := (string * nat * list (string * string))%type.

Fixpoint residue_groups (k : nat) (l : list rawres) : list (list nat) :=
  match l with
  | [] => []
  | (_, _, ats) :: r => seq k (length ats) :: residue_groups (k + length ats) r
  end.

(* consecutive residues with the same chain number form one chain (Topology.add_chain order) *)
Fixpoint chain_groups (k : nat) (cur : option nat) (acc : list nat) (l : list rawres) : list (list nat) :=
  match l with
  | [] => match cur with None => [] | Some _ => [acc] end
  | (_, ch, ats) :: r =>
      let mine := seq k (length ats) in
      match cur with
      | Some c => if ch =? c then chain_groups (k + length ats) cur (acc ++ mine) r
                  else acc :: chain_groups (k + length ats) (Some ch) mine r
      | None => chain_groups (k + length ats) (Some ch) mine r
      end
  end.

Inductive gspec := GChains | GResidues | GExplicit (g : list (list nat)).
Definition groups_of (raw : list rawres) (g : gspec) : list (list nat) :=
  match g with
  | GChains => chain_groups 0 None [] raw
  | GResidues => residue_groups 0 raw
  | GExplicit l => l
  end.

Definition atom_symbols (raw : list rawres) : list string := flat_map (fun r => map snd (snd r)) raw.

(* ------------------------------------------------------------------ harness entry points *)
Local Open Scope Q_scope.
Definition pick {A} (d : A) (l : list A) (idx : list nat) : list A := map (fun i => nth i l d) idx.

(* inertia tensor of the whole trajectory: (tol, unit, symbols, frames) -> 9 entries per frame *)
Definition run_inertia (c : Q * Z * list string * list (list zvec)) : Q * list Q :=
  let '(tol, unit, syms, frames) := c in
  (tol, flat_map (fun f => sym_full (inertia (map mass_of syms) (map (to_q unit) f))) frames).

(* directors: (tol, unit, raw topology, group spec, [(frame, reported directors of all groups)]) *)
Definition run_directors (c : Q * Z * list rawres * gspec * list (list zvec * list qvec)) : Q * list Q :=
  let '(tol, unit, raw, g, fl) := c in
  let groups := groups_of raw g in
  let ms := map mass_of (atom_symbols raw) in
  (tol, flat_map (fun fd =>
     let pts := map (to_q unit) (fst fd) in
     flat_map (fun gv =>
        let s := inertia (pick 0 ms (fst gv)) (pick (0, 0, 0) pts (fst gv)) in
        eigvec_residuals_r true (tr3 s) s (snd gv)) (combine groups (snd fd))) fl).

(* number of groups, for the shape check *)
Definition run_ngroups (c : list rawres * gspec) : list Z := [Z.of_nat (length (groups_of (fst c) (snd c)))].

(* nematic order: (tol, [(reported directors, reported S2)]) *)
Definition run_nematic (c : Q * list (list qvec * Q)) : Q * list Q :=
  let '(tol, fl) := c in (tol, flat_map (fun x => s2_residuals_r (fst x) (snd x)) fl).
