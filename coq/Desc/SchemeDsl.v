(* C16 / contacts: a small language for the atom predicates of mdtraj/geometry/contact.py.  The terms
   (which atoms each scheme designates, the CA test, the constants of contacts='all') are regenerated from
   the source into Gen/DescSchemes.v; this file only holds the language.  No proofs. *)
From Coq Require Import String List.

(* predicates on an atom (in the context of its residue) *)
Inductive apred :=
| PTrue
| PNameLowerEq (s : string)      (* atom.name.lower() == s *)
| PNameEq (s : string)           (* atom.name == s *)
| PElemIs (sym : string)         (* atom.element == element.<the element with this symbol> *)
| PSidechain                     (* atom.is_sidechain *)
| PBackbone                      (* atom.is_backbone *)
| PNot (p : apred)
| PAnd (p q : apred)
| POr (p q : apred).

(* predicates on a residue *)
Inductive rpred :=
| RNameEq (s : string)           (* residue.name == s *)
| RNot (c : rpred).

(* one entry of residue_membership: a filtered list of the residue's atoms, possibly chosen per residue *)
Inductive member :=
| MFilter (p : apred)                         (* [atom.index for atom in residue.atoms if p] *)
| MIfRes (c : rpred) (m1 m2 : member).        (* m1 if c else m2 *)
