(* C16 / option handling and index bookkeeping in front of the descriptor kernels:
     - mdtraj/geometry/contact.py:compute_contacts  argument dispatch (topology test, `contacts` keyword or
       array with its ensure_type shape checks, range check, scheme name folding and validation) in the order
       the code performs it, ending in ContactsModel.contacts_min;
     - mdtraj/geometry/contact.py:squareform  argument checks, map size, and the two assignments;
     - mdtraj/geometry/rdf.py  n_bins / bin_width / r_range handling of compute_rdf and compute_rdf_t and the
       splitting of the pair list into chunks of n_concurrent_pairs;
     - mdtraj/geometry/order.py:_get_indices  keyword folding and the list-of-lists-of-int test.
   Keywords, scheme names and default values are written out here; FrontProofs.options_match_source proves that
   they are the ones found in the source text today (Gen/DescOptions.v, regenerated on every run).
   No proofs in this file. *)
From Coq Require Import String Ascii List Arith ZArith QArith Bool.
Import ListNotations.
Require Import MD.Desc.ContactsModel MD.Desc.SchemeSem MD.Desc.MomentsModel MD.Desc.RdfModel
               MD.Desc.OrderModel.
Local Open Scope nat_scope.

(* ------------------------------------------------------------------ what Python hands over *)
(* np.asarray(x) of an index argument: 1-D (a flat list, also the empty list), 2-D with a declared number of
   columns (rows of another length make numpy refuse the inhomogeneous array), or more than 2-D *)
Inductive pyarr :=
| A1 (l : list Z)
| A2 (ncols : nat) (rows : list (list Z))
| A3.

Inductive cinput := IStr (s : string) | IArr (a : pyarr).

Inductive ferr :=
| FCore (e : cerr)       (* refusals of the modelled core, see ContactsModel.cerr *)
| FNoTop                 (* "contact calculation requires a topology" *)
| FBadSpec               (* "(...) is not a valid contacts specifier" *)
| FNdim                  (* ensure_type: "contacts must be ndim 2" *)
| FShape                 (* ensure_type: "contacts must be shape (Any, 2)" *)
| FRagged                (* numpy: inhomogeneous shape *)
| FBadScheme.            (* "scheme must be one of [...]" *)

Definition ferr_code (e : ferr) : nat :=
  match e with
  | FCore c => cerr_code c
  | FNoTop => 11 | FBadSpec => 12 | FNdim => 13 | FShape => 14 | FRagged => 15 | FBadScheme => 16
  end.

(* keywords and signature defaults of contact.py, rdf.py, order.py (compared with the source in FrontProofs) *)
Definition m_scheme_names : list string := ["ca"; "closest"; "closest-heavy"; "sidechain"; "sidechain-heavy"]%string.
Definition m_contacts_keyword : string := "all".
Definition m_dflt_contacts : string := "all".
Definition m_dflt_scheme : string := "closest-heavy".
Definition m_dflt_ignore_nonprotein : bool := true.
Definition m_dflt_periodic : bool := true.
Definition m_dflt_soft_min : bool := false.
Definition m_dflt_r_range : Q * Q := (0, 1)%Q.
(* 0.005 as the double it is *)
Definition m_dflt_bin_width : Q := (5764607523034235 # 1152921504606846976)%Q.
Definition m_order_chains : string := "chains".
Definition m_order_residues : string := "residues".
Definition m_dflt_order_indices : string := "chains".

Definition all_schemes : list scheme := [SCa; SClosest; SClosestHeavy; SSidechain; SSidechainHeavy].

(* scheme = scheme.lower(); if scheme not in [...]: raise *)
Definition scheme_of_string (s : string) : option scheme :=
  if mem_str s m_scheme_names
  then find (fun k => String.eqb (scheme_name k) s) all_schemes
  else None.

Definition row_pair (r : list Z) : Z * Z := (nth 0 r 0%Z, nth 1 r 0%Z).

(* the `contacts` argument: keyword or (n, 2) integer array *)
Definition front_spec (c : cinput) (ignore_nonprotein : bool) : ferr + cspec :=
  match c with
  | IStr s => if String.eqb (lower s) m_contacts_keyword
              then inr (CAll ignore_nonprotein) else inl FBadSpec
  | IArr (A1 _) => inl FNdim
  | IArr A3 => inl FNdim
  | IArr (A2 nc rows) =>
      if negb (forallb (fun r => length r =? nc) rows) then inl FRagged
      else if negb (nc =? 2) then inl FShape
      else inr (CExplicit (map row_pair rows))
  end.

(* arguments of compute_contacts; None = argument omitted (the default of the signature applies) *)
Record copts := mkCopts {
  o_has_top : bool;
  o_contacts : option cinput;
  o_scheme : option string;
  o_ignore : option bool;
  o_periodic : option bool;
  o_soft : option bool }.

Definition dflt {A} (o : option A) (d : A) : A := match o with Some x => x | None => d end.

(* the order of the tests is the order of the code: topology, contacts keyword / array shape, pair resolution
   (no acceptable pair, range), only then the scheme name *)
Definition contacts_dispatch (top : topology) (o : copts) : ferr + (scheme * cspec) :=
  if negb (o_has_top o) then inl FNoTop else
  match front_spec (dflt (o_contacts o) (IStr m_dflt_contacts)) (dflt (o_ignore o) m_dflt_ignore_nonprotein) with
  | inl e => inl e
  | inr cs =>
      match resolve top cs with
      | inl e => inl (FCore e)
      | inr _ =>
          match scheme_of_string (lower (dflt (o_scheme o) m_dflt_scheme)) with
          | None => inl FBadScheme
          | Some s => inr (s, cs)
          end
      end
  end.

Inductive fres := FOk (pairs : list (nat * nat)) (d2 : list (list Z)) | FErr (e : ferr).

(* compute_contacts with the hard minimum (soft_min false, or scheme 'ca' where soft_min changes nothing) *)
Definition contacts_api (strict : bool) (top : topology) (o : copts) (box : option cell) (frames : list frame) : fres :=
  match contacts_dispatch top o with
  | inl e => FErr e
  | inr (s, cs) =>
      match contacts_min strict top s cs box (dflt (o_periodic o) m_dflt_periodic) frames with
      | HOk rp d2 => FOk rp d2
      | HErr e => FErr (FCore e)
      end
  end.

Definition fres_eqb (a b : fres) : bool :=
  match a, b with
  | FOk p1 d1, FOk p2 d2 => list_eqb pair_eqb p1 p2 && list_eqb (list_eqb Z.eqb) d1 d2
  | FErr e1, FErr e2 => ferr_code e1 =? ferr_code e2
  | _, _ => false
  end.

Definition fcase := (bool * list raw_residue * copts * option cell * list frame)%type.
Definition run_contacts_api (c : fcase) : fres :=
  let '(strict, raw, o, box, frames) := c in contacts_api strict (number_top 0 raw) o box frames.

(* ------------------------------------------------------------------ squareform *)
Inductive serr := SNdim | SShape | SRagged | SNegative | SMismatch | SEmpty.
Definition serr_code (e : serr) : nat :=
  match e with SNdim => 1 | SShape => 2 | SRagged => 3 | SNegative => 4 | SMismatch => 5 | SEmpty => 6 end.

Inductive sres := SOk (maps : list (list (list Z))) | SErr (e : serr).

(* distances: one row per frame, n_cols = distances.shape[1]; residue_pairs as handed over *)
Definition squareform_api (n_cols : nat) (d : list (list Z)) (p : pyarr) : sres :=
  match p with
  | A1 _ => SErr SNdim
  | A3 => SErr SNdim
  | A2 nc rows =>
      if negb (forallb (fun r => length r =? nc) rows) then SErr SRagged
      else if negb (nc =? 2) then SErr SShape
      else let zp := map row_pair rows in
           if negb (forallb (fun q => (0 <=? fst q)%Z && (0 <=? snd q)%Z) zp) then SErr SNegative
           else if negb (n_cols =? length zp) then SErr SMismatch
           else match zp with
                | [] => SErr SEmpty       (* np.max of an empty array *)
                | _ => let np := map (fun q => (Z.to_nat (fst q), Z.to_nat (snd q))) zp in
                       SOk (map (fun row => squareform row np) d)
                end
  end.

Definition sres_eqb (a b : sres) : bool :=
  match a, b with
  | SOk m1, SOk m2 => list_eqb (list_eqb (list_eqb Z.eqb)) m1 m2
  | SErr e1, SErr e2 => serr_code e1 =? serr_code e2
  | _, _ => false
  end.

Definition run_squareform_api (c : nat * list (list Z) * pyarr) : sres :=
  let '(nc, d, p) := c in squareform_api nc d p.

(* ------------------------------------------------------------------ rdf.py: bins and range options *)
Inductive rerr := RNBins | RBinsZero | RRangeShape | RRangeOrder | RNoCell | RZeroDiv.
Definition rerr_code (e : rerr) : nat :=
  match e with RNBins => 1 | RBinsZero => 2 | RRangeShape => 3 | RRangeOrder => 4 | RNoCell => 5 | RZeroDiv => 6 end.

Local Open Scope Q_scope.
(* r_range: None -> default; otherwise the list handed over must have exactly two entries;
   n_bins: given -> int(n_bins) must be positive and bin_width is ignored; else int((r1 - r0) / bin_width),
   which np.histogram refuses when it is not positive; np.histogram also refuses r1 < r0 and widens an empty
   range r0 = r1 to (r0 - 1/2, r1 + 1/2) *)
Definition rdf_options (r_range : option (list Q)) (n_bins : option Z) (bin_width : option Q)
  : rerr + (Q * Q * nat) :=
  match (match r_range with None => inr m_dflt_r_range | Some [a; b] => inr (a, b) | Some _ => inl RRangeShape end) with
  | inl e => inl e
  | inr (r0, r1) =>
      let widen (n : nat) : rerr + (Q * Q * nat) :=
        if Qeq_bool r0 r1 then inr (r0 - (1 # 2), r1 + (1 # 2), n) else inr (r0, r1, n) in
      match n_bins with
      | Some n => if (n <=? 0)%Z then inl RNBins
                  else if Qle_bool r0 r1 then widen (Z.to_nat n) else inl RRangeOrder
      | None =>
          let n := nbins_of_width r0 r1 (dflt bin_width m_dflt_bin_width) in
          if (n <=? 0)%Z then inl RBinsZero
          else if Qle_bool r0 r1 then widen (Z.to_nat n) else inl RRangeOrder
      end
  end.

Definition run_rdf_options (c : option (list Q) * option Z * option Q) : list Z :=
  let '(rr, nb, bw) := c in
  match rdf_options rr nb bw with
  | inl e => [(- Z.of_nat (rerr_code e))%Z]
  | inr (r0, r1, n) => [Z.of_nat n; Qnum r0; Zpos (Qden r0); Qnum r1; Zpos (Qden r1)]
  end.
Local Open Scope nat_scope.

(* ------------------------------------------------------------------ compute_rdf_t: chunks of n_concurrent_pairs *)
(* n_small_chunks = ceil(len(pairs) / n_concurrent_pairs) *)
Definition n_chunks (ncp len : nat) : nat := (len + ncp - 1) / ncp.
(* pairs[i * n_concurrent_pairs : (i + 1) * n_concurrent_pairs] *)
Definition chunk_at {A} (ncp : nat) (l : list A) (i : nat) : list A := firstn ncp (skipn (i * ncp) l).
Definition chunk_list {A} (ncp : nat) (l : list A) : list (list A) :=
  map (chunk_at ncp l) (seq 0 (n_chunks ncp (length l))).

Definition qnat (n : nat) : Q := inject_Z (Z.of_nat n).

(* one entry (time pair, bin k) of g(r, t) the way the code obtains it: every chunk is histogrammed and normalised
   on its own, then np.average(..., weights = len(chunk) / n_concurrent_pairs).  [dist] maps an atom pair to the
   squared distance used for this time pair; bs are the squared bin edges. *)
Definition rdf_t_entry_chunked {P} (ncp : nat) (period siv v : Q) (bs : list Q) (dist : P -> Q) (ps : list P)
           (k : nat) : Q :=
  chunk_avg (qnat ncp) period siv v
    (map (fun ch => (qnat (count_bin bs (map dist ch) k), qnat (length ch))) (chunk_list ncp ps)).

(* the single normalisation used by RdfModel.rdf_t *)
Definition rdf_t_entry_flat {P} (period siv v : Q) (bs : list Q) (dist : P -> Q) (ps : list P) (k : nat) : Q :=
  (qnat (count_bin bs (map dist ps) k) / (qnat (length ps) / period * siv * v))%Q.

(* chunk lengths, for the harness *)
Definition run_chunk_lengths (c : nat * nat) : list Z :=
  map (fun ch => Z.of_nat (length ch)) (chunk_list (fst c) (seq 0 (snd c))).

(* ------------------------------------------------------------------ order.py:_get_indices *)
(* the Python values that matter to the isinstance tests *)
Inductive pyv :=
| VInt (z : Z)            (* a Python int *)
| VOther                  (* float, str, numpy integer, None, ... : not an `int` instance, not a list/tuple *)
| VSeq (l : list pyv).    (* list or tuple *)

Inductive ispec := XStr (s : string) | XVal (v : pyv).
Inductive oerr := OInvalidSelection | ONotInt.
Definition oerr_code (e : oerr) : nat := match e with OInvalidSelection => 1 | ONotInt => 2 end.

(* inner loop: every element of a sublist must be an int; the first offending sublist decides the message *)
Fixpoint sub_ints (l : list pyv) : option (list Z) :=
  match l with
  | [] => Some []
  | VInt z :: r => match sub_ints r with Some t => Some (z :: t) | None => None end
  | _ :: _ => None
  end.

Fixpoint scan_groups (l : list pyv) : oerr + list (list Z) :=
  match l with
  | [] => inr []
  | VSeq s :: r =>
      match sub_ints s with
      | None => inl ONotInt
      | Some g => match scan_groups r with inl e => inl e | inr t => inr (g :: t) end
      end
  | _ :: _ => inl OInvalidSelection
  end.

Definition get_indices (raw : list rawres) (x : option ispec) : oerr + list (list Z) :=
  match dflt x (XStr m_dflt_order_indices) with
  | XStr s =>
      let k := lower s in
      if String.eqb k m_order_chains then inr (map (map Z.of_nat) (chain_groups 0 None [] raw))
      else if String.eqb k m_order_residues then inr (map (map Z.of_nat) (residue_groups 0 raw))
      else inl OInvalidSelection
  | XVal (VSeq l) => scan_groups l
  | XVal _ => inl OInvalidSelection
  end.

Definition run_get_indices (c : list rawres * option ispec) : list (list Z) :=
  match get_indices (fst c) (snd c) with
  | inl e => [[(- Z.of_nat (oerr_code e))%Z]]
  | inr g => [Z.of_nat (length g)] :: g
  end.
