(* C16 / mdtraj/geometry/thermodynamic_properties.py:dipole_moments -- atom bookkeeping under periodic cells.
   For every atom a the code takes the displacement from the FIRST atom of a's residue to a
   (local_indices = (a.residue.atom(0).index, a.index)) and the displacement from atom 0 to that first atom
   (molecule_indices = (0, a.residue.atom(0).index)), both under the minimum image convention, adds them and
   contracts with the charges.  Coordinates and orthorhombic cell lengths are integers in a common unit, charges
   are integers in their own unit: the result is an exact integer vector.  No proofs in this file. *)
From Coq Require Import List Arith ZArith Bool.
Import ListNotations.
Require Import MD.Desc.ContactsModel.
Local Open Scope Z_scope.

(* signed minimum image of one component, cell length L > 0: the representative of d modulo L in [-L/2, L/2) *)
Definition smic (L d : Z) : Z := let r := d mod L in if 2 * r <? L then r else r - L.

Definition vsub (y x : vec) : vec :=
  let '(x0, x1, x2) := x in let '(y0, y1, y2) := y in (y0 - x0, y1 - x1, y2 - x2).
Definition vadd (x y : vec) : vec :=
  let '(x0, x1, x2) := x in let '(y0, y1, y2) := y in (x0 + y0, x1 + y1, x2 + y2).
Definition vscale (k : Z) (x : vec) : vec := let '(x0, x1, x2) := x in (k * x0, k * x1, k * x2).

(* compute_displacements(traj, [(a, b)], periodic=True): r_b - r_a, wrapped when the trajectory has a cell *)
Definition disp (box : option vec) (x y : vec) : vec :=
  let '(d0, d1, d2) := vsub y x in
  match box with
  | Some (b0, b1, b2) => (smic b0 d0, smic b1 d1, smic b2 d2)
  | None => (d0, d1, d2)
  end.

(* a.residue.atom(0).index for every atom, in atom order *)
Definition anchors (top : topology) : list nat :=
  flat_map (fun r => map (fun _ => match r_atoms r with a :: _ => a_idx a | [] => 0%nat end) (r_atoms r)) top.

(* the index expressions of the two pair tables, as small terms: atom 0, the first atom of the residue of the
   current atom, the current atom.  Gen/DescOptions.v holds the terms read from the source;
   DipoleProofs.dipole_indices_match_source compares them with the ones used here. *)
Inductive dip_idx := DZero | DAnchor | DSelf.
Definition dip_eval (an a : nat) (t : dip_idx) : nat := match t with DZero => 0%nat | DAnchor => an | DSelf => a end.
Definition m_dipole_local : dip_idx * dip_idx := (DAnchor, DSelf).
Definition m_dipole_molecule : dip_idx * dip_idx := (DZero, DAnchor).

Definition pair_disp (box : option vec) (f : frame) (an a : nat) (e : dip_idx * dip_idx) : vec :=
  disp box (coord f (dip_eval an a (fst e))) (coord f (dip_eval an a (snd e))).

(* displacement attributed to atom a whose residue starts at atom an: local + molecule displacement *)
Definition atom_disp_gen (loc mol : dip_idx * dip_idx) (box : option vec) (f : frame) (an a : nat) : vec :=
  vadd (pair_disp box f an a loc) (pair_disp box f an a mol).

Definition atom_disp (box : option vec) (f : frame) (an a : nat) : vec :=
  vadd (disp box (coord f an) (coord f a)) (disp box (coord f 0%nat) (coord f an)).

Fixpoint vsum (l : list vec) : vec := match l with [] => zero3 | x :: r => vadd x (vsum r) end.

(* moments[frame] = sum_a q_a * atom_disp(a); [ans] = anchors of the topology, [qs] the charges *)
Definition dipole_frame (box : option vec) (ans : list nat) (qs : list Z) (f : frame) : vec :=
  vsum (map (fun t => vscale (snd t) (atom_disp box f (fst (fst t)) (snd (fst t))))
            (combine (combine ans (seq 0 (length ans))) qs)).

(* the closed form the documentation describes when nothing is wrapped: sum_a q_a (r_a - r_0) *)
Definition dipole_plain (qs : list Z) (f : frame) : vec :=
  vsum (map (fun t => vscale (snd t) (vsub (coord f (fst t)) (coord f 0%nat))) (combine (seq 0 (length qs)) qs)).

(* one correspondence case: raw topology, charges, frames each with its own (optional) cell *)
Definition dcase := (list raw_residue * list Z * list (option vec * frame))%type.
Definition run_dipole (c : dcase) : list (list Z) :=
  let '(raw, qs, frames) := c in
  let ans := anchors (number_top 0 raw) in
  map (fun bf => let '(x, y, z) := dipole_frame (fst bf) ans qs (snd bf) in [x; y; z]) frames.
