(* C16 / order.py: nematic Q tensor, extreme-eigenvalue characterisations, inertia tensor, atom groups. *)
From Coq Require Import String List Arith ZArith QArith Qabs Bool Lia Lqa Morphisms.
Import ListNotations.
Require Import MD.Gen.DescTables MD.Gen.DescFormulas MD.Desc.AlgebraModel MD.Desc.AlgebraProofs MD.Desc.OrderModel.
Local Open Scope Q_scope.

Lemma qsum_zero {A} (l : list A) : qsum (map (fun _ => 0) l) == 0.
Proof. induction l as [|x r IH]; cbn [map]; [reflexivity|]. rewrite qsum_cons, IH. ring. Qed.

Lemma delta_sym a b : delta a b = delta b a.
Proof. unfold delta. now rewrite Nat.eqb_sym. Qed.

(* ------------------------------------------------------------------ nematic Q tensor *)
Theorem nematic_traceless_symmetric ds :
  (forall d, In d ds -> ~ dot3 d d == 0) ->
  tr3 (nematic_q ds) == 0 /\ (forall a b, nematic_entry a b ds == nematic_entry b a ds).
Proof.
  intros Hd. split.
  - unfold nematic_q, tr3, nematic_entry.
    set (n2 := (2 # 1) * inject_Z (Z.of_nat (length ds))).
    assert (E : qsum (map (fun d => Qred ((3 # 1) * (comp 0 d * comp 0 d) / dot3 d d - delta 0 0)) ds) +
                qsum (map (fun d => Qred ((3 # 1) * (comp 1 d * comp 1 d) / dot3 d d - delta 1 1)) ds) +
                qsum (map (fun d => Qred ((3 # 1) * (comp 2 d * comp 2 d) / dot3 d d - delta 2 2)) ds) == 0).
    { rewrite <- !qsum_map_plus. rewrite <- (qsum_zero ds). apply qsum_ext. intros d Hin.
      rewrite !Qred_correct.
      specialize (Hd d Hin). destruct d as [[x y] z]. unfold dot3, comp, delta, vx, vy, vz in *. simpl in *.
      field. exact Hd. }
    unfold Qdiv at 1 3 5.
    rewrite <- !Qmult_plus_distr_l. unfold Qdiv in E. rewrite E. ring.
  - intros a b. unfold nematic_entry.
    assert (E : qsum (map (fun d => Qred ((3 # 1) * (comp a d * comp b d) / dot3 d d - delta a b)) ds) ==
                qsum (map (fun d => Qred ((3 # 1) * (comp b d * comp a d) / dot3 d d - delta b a)) ds)).
    { apply qsum_ext. intros d _. rewrite !Qred_correct, (delta_sym a b). unfold Qdiv. ring. }
    rewrite E. reflexivity.
Qed.

(* ------------------------------------------------------------------ extreme roots of a cubic with real roots *)
(* a root x of (x-a)(x-b)(x-c), a <= b <= c, at which the derivative is non-negative and which is not below
   the mean of the roots, is the largest root *)
Theorem top_root_characterisation a b c x :
  a <= b -> b <= c -> (x - a) * (x - b) * (x - c) == 0 ->
  0 <= (x - a) * (x - b) + (x - a) * (x - c) + (x - b) * (x - c) ->
  a + b + c <= (3 # 1) * x -> x == c.
Proof.
  intros Hab Hbc Hroot Hd Hm.
  destruct (Qmult_integral _ _ Hroot) as [H|H]; [destruct (Qmult_integral _ _ H) as [H'|H']|].
  - assert (x == a) by lra. nra.
  - assert (E : x == b) by lra.
    assert (Hp : (b - a) * (b - c) <= 0) by nra.
    assert (Hq : 0 <= (b - a) * (b - c)) by (rewrite E in Hd; nra).
    assert (Hz : (b - a) * (b - c) == 0) by lra.
    destruct (Qmult_integral _ _ Hz); [|lra]. nra.
  - lra.
Qed.

Theorem least_root_characterisation a b c x :
  a <= b -> b <= c -> (x - a) * (x - b) * (x - c) == 0 ->
  0 <= (x - a) * (x - b) + (x - a) * (x - c) + (x - b) * (x - c) ->
  (3 # 1) * x <= a + b + c -> x == a.
Proof.
  intros Hab Hbc Hroot Hd Hm.
  destruct (Qmult_integral _ _ Hroot) as [H|H]; [destruct (Qmult_integral _ _ H) as [H'|H']|].
  - lra.
  - assert (E : x == b) by lra.
    assert (Hp : (b - a) * (b - c) <= 0) by nra.
    assert (Hq : 0 <= (b - a) * (b - c)) by (rewrite E in Hd; nra).
    assert (Hz : (b - a) * (b - c) == 0) by lra.
    destruct (Qmult_integral _ _ Hz); [lra|]. nra.
  - assert (x == c) by lra. nra.
Qed.

(* charpoly and charpoly' of a tensor with spectrum (a,b,c) are the factored forms used above *)
Theorem charpoly_factored s l x :
  sf1 l == tr3 s -> sf2 l == e2_3 s -> sf3 l == det3 s ->
  charpoly s x == (x - vx l) * (x - vy l) * (x - vz l) /\
  charpoly' s x == (x - vx l) * (x - vy l) + (x - vx l) * (x - vz l) + (x - vy l) * (x - vz l).
Proof.
  intros H1 H2 H3. unfold charpoly, charpoly'. rewrite <- H1, <- H2, <- H3.
  destruct l as [[a b] c]. unfold sf1, sf2, sf3, vx, vy, vz; simpl. split; ring.
Qed.

(* a traceless tensor has a non-negative largest eigenvalue: the order parameter is >= 0 *)
Theorem traceless_top_nonneg a b c : a <= b -> b <= c -> a + b + c == 0 -> 0 <= c.
Proof. intros. lra. Qed.

(* Rayleigh quotient of an exact eigenpair: if s v = l v then the residual used by the check vanishes *)
Theorem eigvec_residual_zero s v l :
  vx (sym_apply s v) == l * vx v -> vy (sym_apply s v) == l * vy v -> vz (sym_apply s v) == l * vz v ->
  ~ dot3 v v == 0 ->
  dot3 v (sym_apply s v) / dot3 v v == l.
Proof.
  intros E0 E1 E2 Hv. unfold dot3 at 1. rewrite E0, E1, E2. unfold dot3 in *. field. exact Hv.
Qed.

(* ------------------------------------------------------------------ reduced-fraction evaluation = plain evaluation *)
Global Instance qpos_proper : Proper (Qeq ==> Qeq) qpos.
Proof.
  intros x y E. unfold qpos. rewrite (Qleb_comp x y E 0 0 (Qeq_refl 0)).
  destruct (Qle_bool y 0); [reflexivity|exact E].
Qed.

Ltac unred := unfold radd, rsub, rmul, rdiv; rewrite ?Qred_correct.

Lemma tr3_r_eq s : tr3_r s == tr3 s.
Proof. destruct s as [[[[[xx yy] zz] xy] xz] yz]. unfold tr3_r, tr3. unred. reflexivity. Qed.
Lemma e2_3_r_eq s : e2_3_r s == e2_3 s.
Proof. destruct s as [[[[[xx yy] zz] xy] xz] yz]. unfold e2_3_r, e2_3. unred. ring. Qed.
Lemma det3_r_eq s : det3_r s == det3 s.
Proof. destruct s as [[[[[xx yy] zz] xy] xz] yz]. unfold det3_r, det3. unred. ring. Qed.
Lemma charpoly_r_eq s x : charpoly_r s x == charpoly s x.
Proof. unfold charpoly_r, charpoly. unred. rewrite tr3_r_eq, e2_3_r_eq, det3_r_eq. ring. Qed.
Lemma charpoly'_r_eq s x : charpoly'_r s x == charpoly' s x.
Proof. unfold charpoly'_r, charpoly'. unred. rewrite tr3_r_eq, e2_3_r_eq. ring. Qed.
Lemma dot3_r_eq u v : dot3_r u v == dot3 u v.
Proof. unfold dot3_r, dot3. unred. reflexivity. Qed.

Lemma sym_apply_r_eq s v :
  vx (sym_apply_r s v) == vx (sym_apply s v) /\ vy (sym_apply_r s v) == vy (sym_apply s v) /\
  vz (sym_apply_r s v) == vz (sym_apply s v).
Proof.
  destruct s as [[[[[xx yy] zz] xy] xz] yz]. unfold sym_apply_r, sym_apply, vx, vy, vz. cbn [fst snd].
  unred. repeat split; reflexivity.
Qed.

Lemma dot3_proper_components (a b c a' b' c' x y z x' y' z' : Q) :
  a == a' -> b == b' -> c == c' -> x == x' -> y == y' -> z == z' ->
  dot3 (a, b, c) (x, y, z) == dot3 (a', b', c') (x', y', z').
Proof. intros. unfold dot3, vx, vy, vz. cbn [fst snd]. now rewrite H, H0, H1, H2, H3, H4. Qed.

Theorem s2_residuals_r_eq ds s2 : Forall2 Qeq (s2_residuals_r ds s2) (s2_residuals ds s2).
Proof.
  unfold s2_residuals_r, s2_residuals. cbv zeta.
  repeat constructor.
  - apply charpoly_r_eq.
  - now rewrite charpoly'_r_eq.
  - unred. now rewrite tr3_r_eq.
Qed.

Theorem eigvec_residuals_r_eq least t s v :
  Forall2 Qeq (eigvec_residuals_r least t s v) (eigvec_residuals least t s v).
Proof.
  unfold eigvec_residuals_r, eigvec_residuals. cbv zeta.
  destruct (sym_apply_r_eq s v) as (S0 & S1 & S2).
  destruct v as [[v0 v1] v2].
  destruct (sym_apply_r s (v0, v1, v2)) as [[r0 r1] r2] eqn:ER.
  destruct (sym_apply s (v0, v1, v2)) as [[p0 p1] p2] eqn:EP.
  unfold vx, vy, vz in *. cbn [fst snd] in *.
  assert (EL : rdiv (dot3_r (v0, v1, v2) (r0, r1, r2)) (dot3_r (v0, v1, v2) (v0, v1, v2)) ==
               dot3 (v0, v1, v2) (p0, p1, p2) / dot3 (v0, v1, v2) (v0, v1, v2)).
  { unred. rewrite !dot3_r_eq.
    rewrite (dot3_proper_components v0 v1 v2 v0 v1 v2 r0 r1 r2 p0 p1 p2) by (assumption || reflexivity).
    reflexivity. }
  set (lr := rdiv (dot3_r (v0, v1, v2) (r0, r1, r2)) (dot3_r (v0, v1, v2) (v0, v1, v2))) in *.
  set (l := dot3 (v0, v1, v2) (p0, p1, p2) / dot3 (v0, v1, v2) (v0, v1, v2)).
  assert (EL' : lr == l) by exact EL.
  repeat constructor.
  - assert (ER0 : rsub r0 (rmul lr v0) == p0 - l * v0) by (unred; rewrite S0, EL'; reflexivity).
    assert (ER1 : rsub r1 (rmul lr v1) == p1 - l * v1) by (unred; rewrite S1, EL'; reflexivity).
    assert (ER2 : rsub r2 (rmul lr v2) == p2 - l * v2) by (unred; rewrite S2, EL'; reflexivity).
    unfold rdiv. rewrite Qred_correct, dot3_r_eq.
    rewrite (dot3_proper_components _ _ _ _ _ _ _ _ _ _ _ _ ER0 ER1 ER2 ER0 ER1 ER2).
    unfold rmul. rewrite !Qred_correct, dot3_r_eq. reflexivity.
  - unred. rewrite dot3_r_eq. reflexivity.
  - unred. rewrite charpoly'_r_eq. unfold charpoly'. rewrite EL'. reflexivity.
  - destruct least; unred; rewrite tr3_r_eq, EL'; reflexivity.
Qed.

(* ------------------------------------------------------------------ inertia tensor *)
Lemma combine_map_snd {A B} (f : A -> B) (ms : list Q) (pts : list A) :
  combine ms (map f pts) = map (fun mp => (fst mp, f (snd mp))) (combine ms pts).
Proof. revert pts; induction ms as [|m r IH]; intros [|p t]; simpl; try reflexivity. now rewrite IH. Qed.

(* the evaluation order used by the model gives the documented sum *)
Theorem inertia_documented_form a b cs :
  inertia_of a b cs ==
  qsum (map (fun md => fst md * (dot3' (snd md) * delta a b - comp a (snd md) * comp b (snd md))) cs).
Proof.
  unfold inertia_of, second_moment.
  rewrite (qsum_ext (fun md : Q * qvec => fst md * (dot3' (snd md) * delta a b - comp a (snd md) * comp b (snd md)))
                    (fun md => (delta a b * (fst md * (comp 0 (snd md) * comp 0 (snd md))) +
                                delta a b * (fst md * (comp 1 (snd md) * comp 1 (snd md))) +
                                delta a b * (fst md * (comp 2 (snd md) * comp 2 (snd md)))) +
                               (- (1)) * (fst md * (comp a (snd md) * comp b (snd md))))).
  2:{ intros [m [[x y] z]] _. unfold dot3', comp, vx, vy, vz. cbn [fst snd]. ring. }
  rewrite !qsum_map_plus, !qsum_map_scal. ring.
Qed.

Lemma second_moment_centred k ms pts :
  length ms = length pts ->
  second_moment k k (centred ms pts) ==
  qsum (map (fun mx => fst mx * ((snd mx - wmean ms (map (comp k) pts)) * (snd mx - wmean ms (map (comp k) pts))))
            (combine ms (map (comp k) pts))).
Proof.
  intros HL. unfold second_moment, centred. cbv zeta.
  rewrite combine_map_snd, !map_map. cbn [fst snd].
  apply qsum_ext. intros [m [[x y] z]] _. cbn [fst snd].
  destruct k as [|[|k]]; unfold comp, vx, vy, vz; cbn [fst snd]; rewrite !Qred_correct;
    change (map (fun p : qvec => fst (fst p)) pts) with (map vx pts);
    change (map (fun p : qvec => snd (fst p)) pts) with (map vy pts);
    change (map (fun p : qvec => snd p) pts) with (map vz pts); reflexivity.
Qed.

(* trace of the inertia tensor = 2 M Rg^2 (mass-weighted, about the centre of mass) *)
Theorem inertia_trace ms pts :
  length ms = length pts -> ~ qsum ms == 0 ->
  tr3 (inertia ms pts) == (2 # 1) * qsum ms * rg2_fix ms pts.
Proof.
  intros HL HM. unfold inertia, tr3. cbv zeta.
  rewrite !(second_moment_centred _ ms pts HL).
  unfold rg2_fix, wvar_about.
  change (map (comp 0) pts) with (map vx pts). change (map (comp 1) pts) with (map vy pts).
  change (map (comp 2) pts) with (map vz pts).
  field. exact HM.
Qed.

Theorem inertia_symmetric ms pts a b : inertia_entry a b ms pts == inertia_entry b a ms pts.
Proof.
  unfold inertia_entry, inertia_of, second_moment. rewrite (delta_sym a b).
  assert (E : forall cs : list (Q * qvec),
    qsum (map (fun md => fst md * (comp a (snd md) * comp b (snd md))) cs) ==
    qsum (map (fun md => fst md * (comp b (snd md) * comp a (snd md))) cs)).
  { intros cs. apply qsum_ext. intros md _. ring. }
  rewrite E. reflexivity.
Qed.

(* the tuple returned by [inertia] consists of the entries *)
Theorem inertia_entries ms pts :
  let '(xx, yy, zz, xy, xz, yz) := inertia ms pts in
  xx == inertia_entry 0 0 ms pts /\ yy == inertia_entry 1 1 ms pts /\ zz == inertia_entry 2 2 ms pts /\
  xy == inertia_entry 0 1 ms pts /\ xz == inertia_entry 0 2 ms pts /\ yz == inertia_entry 1 2 ms pts.
Proof.
  unfold inertia, inertia_entry, inertia_of, delta. cbv zeta. simpl Nat.eqb. cbv iota.
  repeat split; ring.
Qed.

(* ------------------------------------------------------------------ groups *)
Local Open Scope nat_scope.
Definition natoms (l : list rawres) : nat := fold_right (fun r acc => length (snd r) + acc) 0 l.

(* indices='residues': the groups are consecutive index ranges covering every atom once, in order *)
Theorem residue_groups_partition l : forall k, concat (residue_groups k l) = seq k (natoms l).
Proof.
  induction l as [|[[rn ch] ats] r IH]; intros k; [reflexivity|].
  cbn [residue_groups concat natoms fold_right snd]. rewrite IH. fold (natoms r).
  symmetry. apply seq_app.
Qed.

Lemma chain_groups_concat l : forall k cur acc,
  concat (chain_groups k cur acc l) = (match cur with Some _ => acc | None => [] end) ++ seq k (natoms l).
Proof.
  induction l as [|[[rn ch] ats] r IH]; intros k cur acc.
  - destruct cur; simpl; now rewrite ?app_nil_r.
  - cbn [chain_groups natoms fold_right snd]. fold (natoms r). rewrite seq_app.
    destruct cur as [c|].
    + destruct (ch =? c); [rewrite IH|cbn [concat]; rewrite IH]; now rewrite <- ?app_assoc.
    + rewrite IH. reflexivity.
Qed.

(* indices='chains': same, with one group per run of residues of one chain *)
Theorem chain_groups_partition l : concat (chain_groups 0 None [] l) = seq 0 (natoms l).
Proof. apply (chain_groups_concat l 0 None []). Qed.
