(* C16 / algebra of centres, radius of gyration, gyration tensor and shape descriptors (over Q). *)
From Coq Require Import List ZArith QArith Qabs Bool Lia Lqa.
Import ListNotations.
Require Import MD.Gen.DescFormulas MD.Desc.AlgebraModel.
Local Open Scope Q_scope.

(* ------------------------------------------------------------------ sums *)
Lemma qsum_cons x l : qsum (x :: l) == x + qsum l.
Proof. unfold qsum. cbn [fold_right]. apply Qred_correct. Qed.

Lemma qsum_nil : qsum [] = 0.
Proof. reflexivity. Qed.

Opaque qsum.

Lemma qsum_app l1 l2 : qsum (l1 ++ l2) == qsum l1 + qsum l2.
Proof.
  induction l1 as [|x r IH]; cbn [app]; [rewrite qsum_nil; ring|]. rewrite !qsum_cons, IH. ring.
Qed.

Lemma qsum_ext {A} (f g : A -> Q) l : (forall x, In x l -> f x == g x) -> qsum (map f l) == qsum (map g l).
Proof.
  induction l as [|x r IH]; intros H; cbn [map]; [reflexivity|].
  rewrite !qsum_cons, (H x (or_introl eq_refl)), IH; [reflexivity|]. intros y Hy. apply H. right; exact Hy.
Qed.

Lemma qsum_map_plus {A} (f g : A -> Q) l :
  qsum (map (fun x => f x + g x) l) == qsum (map f l) + qsum (map g l).
Proof.
  induction l as [|x r IH]; cbn [map]; [rewrite qsum_nil; ring|]. rewrite !qsum_cons, IH. ring.
Qed.

Lemma qsum_map_scal {A} (k : Q) (f : A -> Q) l : qsum (map (fun x => k * f x) l) == k * qsum (map f l).
Proof.
  induction l as [|x r IH]; cbn [map]; [rewrite qsum_nil; ring|]. rewrite !qsum_cons, IH. ring.
Qed.

Lemma qsum_ones n : qsum (ones n) == inject_Z (Z.of_nat n).
Proof.
  induction n as [|n IH]; [reflexivity|].
  change (ones (S n)) with (1 :: ones n). rewrite qsum_cons, IH.
  rewrite Nat2Z.inj_succ. unfold Z.succ. rewrite inject_Z_plus. ring.
Qed.

(* the three power sums of a weighted sample, over the zipped list *)
Definition P1 (l : list (Q * Q)) : Q := qsum (map fst l).
Definition P2 (l : list (Q * Q)) : Q := qsum (map (fun mx => fst mx * snd mx) l).
Definition P3 (l : list (Q * Q)) : Q := qsum (map (fun mx => fst mx * (snd mx * snd mx)) l).

Lemma combine_fst (ms xs : list Q) : length ms = length xs -> map fst (combine ms xs) = ms.
Proof.
  revert xs; induction ms as [|m r IH]; intros [|x s] H; simpl in *; try reflexivity; try discriminate.
  f_equal. apply IH. lia.
Qed.

Lemma combine_map_r (f : Q -> Q) (ms xs : list Q) :
  combine ms (map f xs) = map (fun mx => (fst mx, f (snd mx))) (combine ms xs).
Proof. revert xs; induction ms as [|m r IH]; intros [|x s]; simpl; try reflexivity. now rewrite IH. Qed.

Lemma combine_app_eq (a1 a2 b1 b2 : list Q) :
  length a1 = length b1 -> combine (a1 ++ a2) (b1 ++ b2) = combine a1 b1 ++ combine a2 b2.
Proof.
  revert b1; induction a1 as [|x r IH]; intros [|y s] H; simpl in *; try reflexivity; try discriminate.
  f_equal. apply IH. lia.
Qed.

Lemma second_moment_expand a l :
  qsum (map (fun mx => fst mx * ((snd mx - a) * (snd mx - a))) l) == P3 l - (2 # 1) * a * P2 l + a * a * P1 l.
Proof.
  unfold P1, P2, P3. induction l as [|[m x] r IH]; cbn [map fst snd]; [rewrite !qsum_nil; ring|].
  rewrite !qsum_cons, IH. ring.
Qed.

(* ------------------------------------------------------------------ centre of mass *)
(* translation equivariance *)
Theorem wmean_translate ms xs t :
  length ms = length xs -> ~ qsum ms == 0 ->
  wmean ms (map (fun x => x + t) xs) == wmean ms xs + t.
Proof.
  intros HL HM. unfold wmean. rewrite combine_map_r, map_map. simpl.
  rewrite (qsum_ext _ (fun mx => fst mx * snd mx + t * fst mx)) by (intros; ring).
  rewrite qsum_map_plus, qsum_map_scal. rewrite (combine_fst ms xs HL). field. exact HM.
Qed.

(* linear in the coordinates: scaling *)
Theorem wmean_scale ms xs k :
  wmean ms (map (fun x => k * x) xs) == k * wmean ms xs.
Proof.
  unfold wmean. rewrite combine_map_r, map_map. simpl.
  rewrite (qsum_ext _ (fun mx => k * (fst mx * snd mx))) by (intros; ring).
  rewrite qsum_map_scal. unfold Qdiv. ring.
Qed.

(* invariant under a common rescaling of the masses (so only mass ratios matter) *)
Theorem wmean_mass_scale ms xs k : ~ k == 0 ->
  wmean (map (fun m => k * m) ms) xs == wmean ms xs.
Proof.
  intros Hk. unfold wmean.
  assert (E : combine (map (fun m => k * m) ms) xs = map (fun mx => (k * fst mx, snd mx)) (combine ms xs)).
  { revert xs; induction ms as [|m r IH]; intros [|x s]; simpl; try reflexivity. now rewrite IH. }
  rewrite E, map_map. simpl.
  rewrite (qsum_ext _ (fun mx => k * (fst mx * snd mx))) by (intros; ring).
  rewrite qsum_map_scal.
  assert (E2 : qsum (map (fun m => k * m) ms) == k * qsum ms).
  { rewrite <- (map_id ms) at 2. apply qsum_map_scal. }
  rewrite E2. destruct (Qeq_dec (qsum ms) 0) as [Z|NZ].
  - rewrite Z. unfold Qdiv. rewrite Qmult_0_r. unfold Qinv; simpl. ring.
  - field. split; assumption.
Qed.

(* the centre of two groups is the mass-weighted combination of their centres *)
Theorem wmean_groups ms1 xs1 ms2 xs2 :
  length ms1 = length xs1 -> ~ qsum ms1 == 0 -> ~ qsum ms2 == 0 -> ~ qsum ms1 + qsum ms2 == 0 ->
  wmean (ms1 ++ ms2) (xs1 ++ xs2) * (qsum ms1 + qsum ms2) ==
  wmean ms1 xs1 * qsum ms1 + wmean ms2 xs2 * qsum ms2.
Proof.
  intros HL H1 H2 H12. unfold wmean.
  rewrite combine_app_eq by exact HL. rewrite map_app, !qsum_app. field. repeat split; assumption.
Qed.

(* unit masses: centre of mass = centre of geometry *)
Theorem wmean_ones xs : wmean (ones (length xs)) xs == mean xs.
Proof.
  unfold wmean, mean. rewrite qsum_ones.
  assert (E : forall l : list Q, qsum (map (fun mx => fst mx * snd mx) (combine (ones (length l)) l)) == qsum l).
  { induction l as [|x r IH]; [reflexivity|]. change (ones (length (x :: r))) with (1 :: ones (length r)).
    cbn [combine map fst snd]. rewrite !qsum_cons, IH. ring. }
  rewrite E. reflexivity.
Qed.

(* ------------------------------------------------------------------ parallel-axis theorem *)
Theorem parallel_axis a ms xs :
  length ms = length xs -> ~ qsum ms == 0 ->
  wvar_about a ms xs == wvar_about (wmean ms xs) ms xs + (wmean ms xs - a) * (wmean ms xs - a).
Proof.
  intros HL HM. unfold wvar_about. rewrite !second_moment_expand.
  unfold wmean. fold (P2 (combine ms xs)).
  assert (E1 : P1 (combine ms xs) == qsum ms) by (unfold P1; now rewrite combine_fst).
  rewrite E1. field. exact HM.
Qed.

Lemma sq_nonneg (x : Q) : 0 <= x * x.
Proof. nra. Qed.

(* as found, compute_rg(masses) reports the weighted second moment about the geometric centre, which
   exceeds the mass-weighted Rg^2 by the squared distance between the two centres *)
Theorem rg2_cur_vs_fix ms pts :
  length ms = length pts -> ~ qsum ms == 0 ->
  let d k := wmean ms (map (comp k) pts) - mean (map (comp k) pts) in
  rg2_cur ms pts == rg2_fix ms pts + (d 0%nat * d 0%nat + d 1%nat * d 1%nat + d 2%nat * d 2%nat).
Proof.
  intros HL HM d. unfold rg2_cur, rg2_fix, d. simpl comp.
  change (map (comp 0) pts) with (map vx pts). change (map (comp 1) pts) with (map vy pts).
  change (map (comp 2) pts) with (map vz pts).
  rewrite (parallel_axis (mean (map vx pts)) ms (map vx pts)) by (rewrite ?map_length; assumption).
  rewrite (parallel_axis (mean (map vy pts)) ms (map vy pts)) by (rewrite ?map_length; assumption).
  rewrite (parallel_axis (mean (map vz pts)) ms (map vz pts)) by (rewrite ?map_length; assumption).
  ring.
Qed.

Theorem rg2_fix_le_cur ms pts :
  length ms = length pts -> ~ qsum ms == 0 -> rg2_fix ms pts <= rg2_cur ms pts.
Proof.
  intros HL HM. rewrite (rg2_cur_vs_fix ms pts HL HM).
  pose proof (sq_nonneg (wmean ms (map (comp 0) pts) - mean (map (comp 0) pts))).
  pose proof (sq_nonneg (wmean ms (map (comp 1) pts) - mean (map (comp 1) pts))).
  pose proof (sq_nonneg (wmean ms (map (comp 2) pts) - mean (map (comp 2) pts))).
  lra.
Qed.

(* the two agree when all masses are equal to one (the default) *)
Theorem rg2_cur_unit_masses pts : rg2_cur (ones (length pts)) pts == rg2_fix (ones (length pts)) pts.
Proof.
  unfold rg2_cur, rg2_fix.
  assert (E : forall f : qvec -> Q,
    wvar_about (mean (map f pts)) (ones (length pts)) (map f pts) ==
    wvar_about (wmean (ones (length pts)) (map f pts)) (ones (length pts)) (map f pts)).
  { intros f. unfold wvar_about. rewrite !second_moment_expand.
    pose proof (wmean_ones (map f pts)) as W. rewrite map_length in W. rewrite W. reflexivity. }
  rewrite (E vx), (E vy), (E vz). reflexivity.
Qed.

(* witness: masses (1,3) on the x axis at 0 and 4: as found 4 = (1*4+3*4)/4, mass-weighted 3 *)
Lemma rg2_cur_refuted :
  exists ms pts, length ms = length pts /\ ~ qsum ms == 0 /\ ~ rg2_cur ms pts == rg2_fix ms pts.
Proof.
  exists [1; 3 # 1], [(0, 0, 0); (4 # 1, 0, 0)]. split; [reflexivity|]. split.
  - vm_compute. discriminate.
  - vm_compute. discriminate.
Qed.

(* ------------------------------------------------------------------ Rg^2 is the trace of the gyration tensor *)
Lemma unit_second_moment a xs :
  qsum (map (fun mx => fst mx * ((snd mx - a) * (snd mx - a))) (combine (ones (length xs)) xs)) ==
  qsum (map (fun x => (x - a) * (x - a)) xs).
Proof.
  induction xs as [|x r IH]; [reflexivity|]. change (ones (length (x :: r))) with (1 :: ones (length r)).
  cbn [combine map fst snd]. rewrite !qsum_cons, IH. ring.
Qed.

Theorem rg2_is_trace pts : rg2_cur (ones (length pts)) pts == tr3 (gyration pts).
Proof.
  unfold rg2_cur, gyration, tr3, gyr_entry, wvar_about. simpl comp.
  change (map (comp 0) pts) with (map vx pts). change (map (comp 1) pts) with (map vy pts).
  change (map (comp 2) pts) with (map vz pts).
  assert (E : forall f : qvec -> Q,
    qsum (map (fun mx => fst mx * ((snd mx - mean (map f pts)) * (snd mx - mean (map f pts))))
              (combine (ones (length pts)) (map f pts))) ==
    qsum (map (fun p => (f p - mean (map f pts)) * (f p - mean (map f pts))) pts)).
  { intros f. pose proof (unit_second_moment (mean (map f pts)) (map f pts)) as U.
    rewrite map_length in U. rewrite U. rewrite map_map. reflexivity. }
  rewrite (E vx), (E vy), (E vz). rewrite qsum_ones. reflexivity.
Qed.

(* ------------------------------------------------------------------ invariants and shape descriptors *)
Definition shift3 (x : Q) (s : sym3) : sym3 :=
  let '(xx, yy, zz, xy, xz, yz) := s in (x - xx, x - yy, x - zz, - xy, - xz, - yz).

(* characteristic polynomial of the symmetric tensor: det(x I - S) = x^3 - tr x^2 + e2 x - det *)
Theorem charpoly_coefficients s x :
  det3 (shift3 x s) == x * x * x - tr3 s * (x * x) + e2_3 s * x - det3 s.
Proof. destruct s as [[[[[xx yy] zz] xy] xz] yz]. unfold det3, shift3, tr3, e2_3. ring. Qed.

(* a triple whose elementary symmetric functions are the three coefficients is the multiset of roots *)
Theorem roots_of_coefficients l x :
  (x - vx l) * (x - vy l) * (x - vz l) == x * x * x - sf1 l * (x * x) + sf2 l * x - sf3 l.
Proof. destruct l as [[a b] c]. unfold sf1, sf2, sf3, vx, vy, vz; simpl. ring. Qed.

Theorem eigen_characterisation s l :
  sf1 l == tr3 s -> sf2 l == e2_3 s -> sf3 l == det3 s ->
  forall x, det3 (shift3 x s) == (x - vx l) * (x - vy l) * (x - vz l).
Proof.
  intros H1 H2 H3 x. rewrite charpoly_coefficients, roots_of_coefficients, H1, H2, H3. reflexivity.
Qed.

Theorem trace_of_square s : trsq3 s == tr3 s * tr3 s - (2 # 1) * e2_3 s.
Proof. destruct s as [[[[[xx yy] zz] xy] xz] yz]. unfold trsq3, tr3, e2_3. ring. Qed.

(* relative shape anisotropy needs no eigenvalues: it is a function of the invariants *)
Theorem kappa2_from_invariants s l :
  sf1 l == tr3 s -> sf2 l == e2_3 s -> ~ tr3 s == 0 ->
  shape_kappa2 (vx l) (vy l) (vz l) == kappa2_of_tensor s.
Proof.
  intros H1 H2 HT. unfold kappa2_of_tensor. rewrite trace_of_square, <- H1, <- H2.
  assert (HT' : ~ sf1 l == 0) by (now rewrite H1).
  destruct l as [[a b] c]. unfold shape_kappa2, sf1, sf2, vx, vy, vz in *; simpl in *.
  field. exact HT'.
Qed.

(* asphericity and acylindricity: b^2 + 3/4 c^2 = (sum l)^2 - 3 e2 = kappa^2 (sum l)^2 *)
Theorem asphericity_acylindricity_relation l0 l1 l2 :
  shape_asphericity l0 l1 l2 * shape_asphericity l0 l1 l2 +
  (3 # 4) * (shape_acylindricity l0 l1 l2 * shape_acylindricity l0 l1 l2) ==
  (l0 + l1 + l2) * (l0 + l1 + l2) - (3 # 1) * (l0 * l1 + l0 * l2 + l1 * l2).
Proof. unfold shape_asphericity, shape_acylindricity. field. Qed.

(* documented forms (shape.py docstrings give b = l3 - (l1+l2)/2 only implicitly): *)
Theorem shape_forms l0 l1 l2 :
  shape_asphericity l0 l1 l2 == spec_asphericity l0 l1 l2 /\
  shape_acylindricity l0 l1 l2 == spec_acylindricity l0 l1 l2 /\
  (~ l0 + l1 + l2 == 0 -> shape_kappa2 l0 l1 l2 == spec_kappa2 l0 l1 l2).
Proof.
  unfold shape_asphericity, shape_acylindricity, shape_kappa2, spec_asphericity, spec_acylindricity, spec_kappa2.
  split; [field|]. split; [ring|]. intros H. field. exact H.
Qed.

(* ranges for ordered non-negative moments *)
Theorem shape_ranges l0 l1 l2 :
  0 <= l0 -> l0 <= l1 -> l1 <= l2 -> 0 < l0 + l1 + l2 ->
  0 <= shape_asphericity l0 l1 l2 /\ 0 <= shape_acylindricity l0 l1 l2 /\
  0 <= shape_kappa2 l0 l1 l2 /\ shape_kappa2 l0 l1 l2 <= 1.
Proof.
  intros H0 H1 H2 HS.
  destruct (shape_forms l0 l1 l2) as [Eb [Ec Ek]].
  assert (HS' : ~ l0 + l1 + l2 == 0) by (intro Z; rewrite Z in HS; apply (Qlt_irrefl 0 HS)).
  rewrite Eb, Ec, (Ek HS'). unfold spec_asphericity, spec_acylindricity, spec_kappa2.
  assert (Eh : (l0 + l1) / (2 # 1) == (1 # 2) * (l0 + l1)) by (field).
  split; [rewrite Eh; lra|]. split; [lra|].
  set (t := l0 + l1 + l2) in *.
  assert (Ht : 0 < t * t) by nra.
  assert (Hinv : 0 < / (t * t)) by (apply Qinv_lt_0_compat; exact Ht).
  assert (Hq : (l0 * l0 + l1 * l1 + l2 * l2) / (t * t) * (t * t) == l0 * l0 + l1 * l1 + l2 * l2).
  { field. intro Z. rewrite Z in Ht. lra. }
  set (q := (l0 * l0 + l1 * l1 + l2 * l2) / (t * t)) in *.
  assert (E32 : (3 # 2) * (l0 * l0 + l1 * l1 + l2 * l2) / (t * t) == (3 # 2) * q)
    by (unfold q, Qdiv; ring).
  rewrite E32.
  assert (Hlo : t * t <= (3 # 1) * (l0 * l0 + l1 * l1 + l2 * l2)).
  { unfold t. pose proof (sq_nonneg (l0 - l1)). pose proof (sq_nonneg (l0 - l2)). pose proof (sq_nonneg (l1 - l2)). nra. }
  assert (Hhi : l0 * l0 + l1 * l1 + l2 * l2 <= t * t) by (unfold t; nra).
  split; nra.
Qed.

(* ------------------------------------------------------------------ density *)
(* the code's density is total mass / volume times its hard-coded factor *)
Theorem density_form ms v : density ms v == qsum ms / v * density_conversion.
Proof. unfold density, density_formula, Qdiv. ring. Qed.

(* the hard-coded factor is 1 dalton/nm^3 in kg/m^3 (CODATA 2018: 1.66053906660) to 1e-6 *)
Theorem density_conversion_value :
  Qabs (density_conversion - (166053906660 # 100000000000)) <= (1 # 1000000).
Proof. vm_compute. discriminate. Qed.

(* ------------------------------------------------------------------ dipole *)
(* for a neutral set of charges the dipole moment does not depend on the reference point *)
Theorem dipole_origin_independent a qs xs :
  length qs = length xs -> qsum qs == 0 -> dipole_about a qs xs == dipole_about 0 qs xs.
Proof.
  intros HL HQ. unfold dipole_about.
  rewrite (qsum_ext _ (fun qx => fst qx * snd qx + (- a) * fst qx)) by (intros; ring).
  rewrite qsum_map_plus, qsum_map_scal, (combine_fst qs xs HL), HQ.
  rewrite (qsum_ext (fun qx : Q * Q => fst qx * (snd qx - 0)) (fun qx => fst qx * snd qx)) by (intros; ring).
  ring.
Qed.
