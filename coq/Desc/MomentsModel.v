(* C16 / DRID: partner bookkeeping of mdtraj/geometry/drid.pyx:compute_drid and the online moments
   of mdtraj/geometry/src/moments.cpp (the update itself is regenerated from the C source into
   Gen/DescFormulas.v).  No proofs in this file. *)
From Coq Require Import List Arith ZArith QArith Bool.
Import ListNotations.
Require Import MD.Gen.DescFormulas.

(* ------------------------------------------------------------------ partners *)
Local Open Scope nat_scope.

Definition bonded (bonds : list (nat * nat)) (a b : nat) : bool :=
  existsb (fun e => ((fst e =? a) && (snd e =? b)) || ((fst e =? b) && (snd e =? a))) bonds.

(* np.array(sorted(python set)) *)
Fixpoint insert_u (x : nat) (l : list nat) : list nat :=
  match l with
  | [] => [x]
  | y :: r => if x <? y then x :: l else if x =? y then l else y :: insert_u x r
  end.
Definition sort_u (l : list nat) : list nat := fold_right insert_u [] l.

(* partners of atom a: set(atom_indices) - bonded partners of a - {a}, sorted *)
Definition drid_partners (bonds : list (nat * nat)) (ai : list nat) (a : nat) : list nat :=
  sort_u (filter (fun b => negb (b =? a) && negb (bonded bonds a b)) ai).

(* row j of the (n_atom_indices, max_partners) table, one row per entry of atom_indices *)
Definition drid_table (bonds : list (nat * nat)) (ai : list nat) : list (list nat) :=
  map (drid_partners bonds ai) ai.

(* encoded for the harness *)
Definition enc_table (t : list (list nat)) : list (list Z) := map (map Z.of_nat) t.
Definition run_drid_partners (c : list (nat * nat) * list nat) : list (list Z) :=
  enc_table (drid_table (fst c) (snd c)).

(* ------------------------------------------------------------------ moments *)
Local Open Scope Q_scope.

Definition mstate := (Q * Q * Q * Q)%type.

(* drid_moments: clear, push every reciprocal distance in partner order, read the three moments
   (the implementation then takes sqrt of the second and cbrt of the third) *)
Definition online (xs : list Q) : mstate := fold_left moments_push xs moments_init.
Definition online_moments (xs : list Q) : Q * Q * Q :=
  let s := online xs in (moments_mean s, moments_second s, moments_third s).

(* the documented quantities: mean and the second and third central moments, two passes *)
Definition qsum' (l : list Q) : Q := fold_right Qplus 0 l.
Definition qlen (l : list Q) : Q := inject_Z (Z.of_nat (length l)).
Definition bmean (xs : list Q) : Q := qsum' xs / qlen xs.
Definition bsecond (xs : list Q) : Q := qsum' (map (fun x => (x - bmean xs) * (x - bmean xs)) xs) / qlen xs.
Definition bthird (xs : list Q) : Q :=
  qsum' (map (fun x => (x - bmean xs) * (x - bmean xs) * (x - bmean xs)) xs) / qlen xs.
