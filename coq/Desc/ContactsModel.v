(* C16 / contacts: executable model of the bookkeeping of mdtraj/geometry/contact.py
   (compute_contacts, squareform).  No proofs in this file.

   What is modelled, the way the code computes it:
     - resolution of contacts='all' (loops i, j>=i+3, CA test by name.lower()=="ca", same chain),
     - range check of explicit pairs,
     - scheme 'ca': filtering of residue pairs, one atom pair per kept residue pair,
     - schemes closest / closest-heavy / sidechain / sidechain-heavy: residue_membership,
       itertools.product flattened over the residue pairs, n_atom_pairs_per_residue_pair,
       the running offset  index = sum(n[:i]),  the slice  [index : index+n]  and its minimum,
     - squareform: two fancy assignments, second one wins.
   Geometry is exact: coordinates and orthorhombic box lengths are integers in a common unit
   (float32 dyadic rationals scaled by 2^k); "distance" is the squared distance in that unit.
   Float rounding of sqrt and soft-min evaluation are outside this model (see harness/props/C16.py). *)
From Coq Require Import String Ascii List Arith ZArith Bool Lia.
Import ListNotations.
Require Import MD.Gen.DescTables.
Local Open Scope nat_scope.

(* ------------------------------------------------------------------ topology *)
Record atom := mkAtom { a_idx : nat; a_name : string; a_elem : string }.
Record residue := mkRes { r_name : string; r_chain : nat; r_atoms : list atom }.
Definition topology := list residue.

(* raw description as the harness sends it: (residue name, chain, [(atom name, element symbol)]);
   atom indices are assigned here, in file order, as Topology.add_atom does *)
Definition raw_residue := (string * nat * list (string * string))%type.

Fixpoint number_atoms (k : nat) (l : list (string * string)) : list atom :=
  match l with
  | [] => []
  | (n, e) :: r => mkAtom k n e :: number_atoms (S k) r
  end.

Fixpoint number_top (k : nat) (l : list raw_residue) : topology :=
  match l with
  | [] => []
  | (rn, ch, ats) :: r => mkRes rn ch (number_atoms k ats) :: number_top (k + length ats) r
  end.

Definition n_atoms (top : topology) : nat := fold_right (fun r acc => length (r_atoms r) + acc) 0 top.

(* ------------------------------------------------------------------ names *)
Definition lower_ascii (c : ascii) : ascii :=
  let n := nat_of_ascii c in
  if (65 <=? n) && (n <=? 90) then ascii_of_nat (n + 32) else c.

Fixpoint lower (s : string) : string :=
  match s with
  | EmptyString => EmptyString
  | String c r => String (lower_ascii c) (lower r)
  end.

Definition mem_str (s : string) (l : list string) : bool := existsb (String.eqb s) l.

(* a.name.lower() == "ca" *)
Definition is_ca (a : atom) : bool := String.eqb (lower (a_name a)) "ca".
(* atom.element == element.hydrogen  (deuterium "D" is a different element) *)
Definition is_h (a : atom) : bool := String.eqb (a_elem a) "H".
(* Residue.is_protein: name in _PROTEIN_RESIDUES (table regenerated from residue_names.py) *)
Definition is_protein (r : residue) : bool := mem_str (r_name r) protein_residues.
(* Atom.is_sidechain: name not in {C,CA,N,O,HA,H} and residue.is_protein (set regenerated from topology.py) *)
Definition is_sidechain (r : residue) (a : atom) : bool :=
  negb (mem_str (a_name a) not_sidechain_names) && is_protein r.

Definition ca_atoms (r : residue) : list nat := map a_idx (filter is_ca (r_atoms r)).
Definition has_ca (r : residue) : bool := existsb is_ca (r_atoms r).

Definition dummy_res := mkRes "" 0 [].
Definition res (top : topology) (i : nat) : residue := nth i top dummy_res.

(* ------------------------------------------------------------------ contacts='all' *)
Definition keep_res (ignore : bool) (top : topology) (i : nat) : bool :=
  negb ignore || has_ca (res top i).

Definition all_pairs (ignore : bool) (top : topology) : list (nat * nat) :=
  let n := length top in
  flat_map (fun i =>
    if keep_res ignore top i then
      flat_map (fun j =>
        if keep_res ignore top j && (r_chain (res top i) =? r_chain (res top j))
        then [(i, j)] else [])
        (seq (i + 3) (n - (i + 3)))
    else []) (seq 0 n).

(* ------------------------------------------------------------------ schemes *)
Inductive scheme := SCa | SClosest | SClosestHeavy | SSidechain | SSidechainHeavy.

Definition membership1 (s : scheme) (r : residue) : list nat :=
  match s with
  | SCa => ca_atoms r
  | SClosest => map a_idx (r_atoms r)
  | SClosestHeavy => map a_idx (filter (fun a => negb (is_h a)) (r_atoms r))
  | SSidechain => map a_idx (filter (is_sidechain r) (r_atoms r))
  | SSidechainHeavy =>
      if String.eqb (r_name r) "GLY"
      then map a_idx (filter (is_sidechain r) (r_atoms r))
      else map a_idx (filter (fun a => is_sidechain r a && negb (is_h a)) (r_atoms r))
  end.

(* residue_membership[i] *)
Definition membership (s : scheme) (top : topology) (i : nat) : list nat := membership1 s (res top i).

(* ------------------------------------------------------------------ flattening and slicing *)
Section Flat.
Context (mem : nat -> list nat).

(* list(itertools.product(mem[p0], mem[p1])) *)
Definition pair_product (p : nat * nat) : list (nat * nat) := list_prod (mem (fst p)) (mem (snd p)).
(* atom_pairs after the loop over residue pairs *)
Definition flat_pairs (pairs : list (nat * nat)) : list (nat * nat) := flat_map pair_product pairs.
(* n_atom_pairs_per_residue_pair *)
Definition counts (pairs : list (nat * nat)) : list nat :=
  map (fun p => length (mem (fst p)) * length (mem (snd p))) pairs.
(* index = int(np.sum(n_atom_pairs_per_residue_pair[:i])) *)
Definition offset (pairs : list (nat * nat)) (i : nat) : nat := list_sum (firstn i (counts pairs)).
End Flat.

(* atom_distances[:, index : index + n] for one frame; [dists] is the row of that frame *)
Definition slice {A} (mem : nat -> list nat) (pairs : list (nat * nat)) (dists : list A) (i : nat) : list A :=
  firstn (nth i (counts mem pairs) 0) (skipn (offset mem pairs i) dists).

Fixpoint zmin_list (l : list Z) : option Z :=
  match l with
  | [] => None
  | x :: r => match zmin_list r with None => Some x | Some m => Some (Z.min x m) end
  end.

(* ------------------------------------------------------------------ exact geometry *)
Definition vec := (Z * Z * Z)%type.
Definition frame := list vec.
Definition zero3 : vec := (0, 0, 0)%Z.
Definition coord (f : frame) (a : nat) : vec := nth a f zero3.

(* minimum image of one component in an orthorhombic cell of length L > 0: |d - L*round(d/L)| *)
Definition mic1 (L d : Z) : Z := let r := (d mod L)%Z in Z.min r (L - r).

Definition d2_plain (x y : vec) : Z :=
  let '(x0, x1, x2) := x in let '(y0, y1, y2) := y in
  ((x0 - y0) * (x0 - y0) + (x1 - y1) * (x1 - y1) + (x2 - y2) * (x2 - y2))%Z.

Definition d2_orth (box : vec) (x y : vec) : Z :=
  let '(x0, x1, x2) := x in let '(y0, y1, y2) := y in let '(b0, b1, b2) := box in
  let e0 := mic1 b0 (x0 - y0) in let e1 := mic1 b1 (x1 - y1) in let e2 := mic1 b2 (x2 - y2) in
  (e0 * e0 + e1 * e1 + e2 * e2)%Z.

(* triclinic cell with box vectors a, b, c (rows of unitcell_vectors): the minimum image distance is the
   minimum over lattice translations; the model takes it over all i, j, k in [-K, K] (exhaustive search, K = 2;
   enough for reduced cells and separations of a few cell lengths, which is what the generator produces) *)
Definition zrange (k : Z) : list Z := map (fun i => (Z.of_nat i - k)%Z) (seq 0 (Z.to_nat (2 * k + 1))).

Definition d2_tri (K : Z) (a b c : vec) (x y : vec) : Z :=
  let '(x0, x1, x2) := x in let '(y0, y1, y2) := y in
  let '(a0, a1, a2) := a in let '(b0, b1, b2) := b in let '(c0, c1, c2) := c in
  let r0 := (x0 - y0)%Z in let r1 := (x1 - y1)%Z in let r2 := (x2 - y2)%Z in
  let cands := flat_map (fun i => flat_map (fun j => map (fun k =>
      let e0 := (r0 + i * a0 + j * b0 + k * c0)%Z in
      let e1 := (r1 + i * a1 + j * b1 + k * c1)%Z in
      let e2 := (r2 + i * a2 + j * b2 + k * c2)%Z in
      (e0 * e0 + e1 * e1 + e2 * e2)%Z) (zrange K)) (zrange K)) (zrange K) in
  fold_right Z.min (r0 * r0 + r1 * r1 + r2 * r2)%Z cands.

Inductive cell := COrth (lengths : vec) | CTri (a b c : vec).

(* periodic=True uses the cell only when the trajectory has one *)
Definition dist2_pts (box : option cell) (periodic : bool) (x y : vec) : Z :=
  match box, periodic with
  | Some (COrth b), true => d2_orth b x y
  | Some (CTri a b c), true => d2_tri 2 a b c x y
  | _, _ => d2_plain x y
  end.

Definition dist2 (box : option cell) (periodic : bool) (f : frame) (p : nat * nat) : Z :=
  dist2_pts box periodic (coord f (fst p)) (coord f (snd p)).

(* ------------------------------------------------------------------ compute_contacts *)
Inductive cspec := CAll (ignore_nonprotein : bool) | CExplicit (pairs : list (Z * Z)).

Inductive cerr := ENoPairs | ERange | EManyCA | EEmptyCA | EZeroSize | EAmbiguous.

(* result: residue_pairs and, per frame and residue pair, the list of squared atom-pair distances
   of the slice that feeds the reduction (min or soft-min) *)
Inductive cres :=
| COk (pairs : list (nat * nat)) (slices : list (list (list Z)))
| CErr (e : cerr).

Definition in_range_pair (n : nat) (p : Z * Z) : bool :=
  ((0 <=? fst p) && (fst p <? Z.of_nat n) && (0 <=? snd p) && (snd p <? Z.of_nat n))%Z.

Definition resolve (top : topology) (c : cspec) : cerr + list (nat * nat) :=
  match c with
  | CAll ig => match all_pairs ig top with [] => inl ENoPairs | l => inr l end
  | CExplicit l =>
      if forallb (in_range_pair (length top)) l
      then inr (map (fun p => (Z.to_nat (fst p), Z.to_nat (snd p))) l)
      else inl ERange
  end.

(* scheme 'ca'.  inl EManyCA = ValueError("More than 1 alpha carbon ...").
   [strict] models today's code when `contacts` is passed as a numpy array: the skip branch evaluates
   `if contacts != "all":` on an array, which raises ValueError("The truth value of an array ... is
   ambiguous") instead of warning and skipping (as-found variant; the repaired code never is strict). *)
Fixpoint ca_scan (strict : bool) (top : topology) (pairs : list (nat * nat))
  : cerr + (list (nat * nat) * list (nat * nat)) :=
  match pairs with
  | [] => inr ([], [])
  | (r0, r1) :: rest =>
      let c0 := ca_atoms (res top r0) in
      let c1 := ca_atoms (res top r1) in
      match c0, c1 with
      | [a], [b] =>
          match ca_scan strict top rest with
          | inr (rp, ap) => inr ((r0, r1) :: rp, (a, b) :: ap)
          | inl e => inl e
          end
      | _, _ =>
          if (length c0 =? 0) || (length c1 =? 0)
          then (if strict then inl EAmbiguous else ca_scan strict top rest)
          else inl EManyCA
      end
  end.

Definition contacts (strict : bool) (top : topology) (s : scheme) (c : cspec) (box : option cell)
           (periodic : bool) (frames : list frame) : cres :=
  match resolve top c with
  | inl e => CErr e
  | inr rp =>
      match s with
      | SCa =>
          match ca_scan (strict && match c with CExplicit _ => true | CAll _ => false end) top rp with
          | inl e => CErr e
          | inr (rp', ap) =>
              match ap with
              | [] => CErr EEmptyCA   (* compute_distances refuses an empty pair list *)
              | _ => COk rp' (map (fun f => map (fun p => [dist2 box periodic f p]) ap) frames)
              end
          end
      | _ =>
          let mem := membership s top in
          let flat := flat_pairs mem rp in
          match flat with
          | [] => CErr EEmptyCA   (* compute_distances refuses an empty pair list *)
          | _ =>
            COk rp (map (fun f =>
                      let row := map (dist2 box periodic f) flat in
                      map (slice mem rp row) (seq 0 (length rp))) frames)
          end
      end
  end.

(* hard minimum: per frame and pair, None where the slice is empty (numpy: ValueError zero-size) *)
Definition mins (sl : list (list (list Z))) : list (list (option Z)) := map (map zmin_list) sl.

Definition has_empty (sl : list (list (list Z))) : bool :=
  existsb (existsb (fun l => match l with [] => true | _ => false end)) sl.

(* what compute_contacts(soft_min=False) returns, squared: error when a slice is empty *)
Inductive hres := HOk (pairs : list (nat * nat)) (d2 : list (list Z)) | HErr (e : cerr).

Definition contacts_min strict top s c box periodic frames : hres :=
  match contacts strict top s c box periodic frames with
  | CErr e => HErr e
  | COk rp sl =>
      if has_empty sl then HErr EZeroSize
      else HOk rp (map (map (fun l => match zmin_list l with Some m => m | None => 0%Z end)) sl)
  end.

(* ------------------------------------------------------------------ squareform *)
(* contact_maps[:, p0, p1] = distances ; contact_maps[:, p1, p0] = distances  (one frame) *)
Definition upd {A} (m : nat -> nat -> A) (i j : nat) (v : A) : nat -> nat -> A :=
  fun a b => if (a =? i) && (b =? j) then v else m a b.

Fixpoint assign {A} (m : nat -> nat -> A) (idx : list (nat * nat)) (vals : list A) : nat -> nat -> A :=
  match idx, vals with
  | (i, j) :: ir, v :: vr => assign (upd m i j v) ir vr
  | _, _ => m
  end.

Definition swap (p : nat * nat) : nat * nat := (snd p, fst p).

Definition squareform_fn (d : list Z) (pairs : list (nat * nat)) : nat -> nat -> Z :=
  assign (assign (fun _ _ => 0%Z) pairs d) (map swap pairs) d.

(* n_residues = np.max(residue_pairs) + 1 *)
Definition sq_size (pairs : list (nat * nat)) : nat :=
  S (fold_right (fun p acc => Nat.max (Nat.max (fst p) (snd p)) acc) 0 pairs).

Definition squareform (d : list Z) (pairs : list (nat * nat)) : list (list Z) :=
  let n := sq_size pairs in
  let f := squareform_fn d pairs in
  map (fun i => map (fun j => f i j) (seq 0 n)) (seq 0 n).

(* ------------------------------------------------------------------ comparison helpers (harness) *)
Definition pair_eqb (p q : nat * nat) : bool := (fst p =? fst q) && (snd p =? snd q).

Fixpoint list_eqb {A} (eqb : A -> A -> bool) (l1 l2 : list A) : bool :=
  match l1, l2 with
  | [], [] => true
  | x :: r1, y :: r2 => eqb x y && list_eqb eqb r1 r2
  | _, _ => false
  end.

Definition cerr_code (e : cerr) : nat :=
  match e with ENoPairs => 1 | ERange => 2 | EManyCA => 3 | EEmptyCA => 4 | EZeroSize => 5 | EAmbiguous => 6 end.

Definition hres_eqb (a b : hres) : bool :=
  match a, b with
  | HOk p1 d1, HOk p2 d2 => list_eqb pair_eqb p1 p2 && list_eqb (list_eqb Z.eqb) d1 d2
  | HErr e1, HErr e2 => cerr_code e1 =? cerr_code e2
  | _, _ => false
  end.

(* one correspondence case: raw topology, scheme code, contacts spec, box, periodic, frames *)
Definition scheme_of_nat (n : nat) : scheme :=
  match n with 0 => SCa | 1 => SClosest | 2 => SClosestHeavy | 3 => SSidechain | _ => SSidechainHeavy end.

(* [strict] = (as-found variant) && (contacts passed as a numpy array) *)
Definition ccase := (bool * list raw_residue * nat * cspec * option cell * bool * list frame)%type.

Definition run_contacts_min (c : ccase) : hres :=
  let '(strict, raw, s, cs, box, per, frames) := c in
  contacts_min strict (number_top 0 raw) (scheme_of_nat s) cs box per frames.

(* slices for the soft-min oracle: pairs and per frame/pair the squared distances fed to the reduction *)
Definition run_contacts_slices (c : ccase) : cres :=
  let '(strict, raw, s, cs, box, per, frames) := c in
  contacts strict (number_top 0 raw) (scheme_of_nat s) cs box per frames.

(* flat encoding for the harness: [[[i;j]...]] ++ per-frame slices, or [[[-code]]] *)
Definition enc_cres (r : cres) : list (list (list Z)) :=
  match r with
  | COk pairs sl => map (fun p => [Z.of_nat (fst p); Z.of_nat (snd p)]) pairs :: sl
  | CErr e => [[[(- Z.of_nat (cerr_code e))%Z]]]
  end.
