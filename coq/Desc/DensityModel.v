(* C16 / mdtraj/geometry/thermodynamic_properties.py:density with a general (triclinic) cell:
   the volume of frame f is the determinant of its cell vectors, a . (b x c)  (Trajectory.unitcell_volumes),
   not the product of the cell lengths.  Executable closed forms over Q.  No proofs in this file. *)
From Coq Require Import String List ZArith QArith.
Import ListNotations.
Require Import MD.Gen.DescFormulas MD.Desc.AlgebraModel.
Local Open Scope Q_scope.

Definition cross3 (b c : qvec) : qvec :=
  (vy b * vz c - vz b * vy c, vz b * vx c - vx b * vz c, vx b * vy c - vy b * vx c).
Definition dotq (u v : qvec) : Q := vx u * vx v + vy u * vy v + vz u * vz v.
(* np.linalg.det of the matrix with rows a, b, c *)
Definition triple3 (a b c : qvec) : Q := dotq a (cross3 b c).

(* what a product of the cell lengths would use, squared (no square roots): |a|^2 |b|^2 |c|^2 *)
Definition lengths_product_sq (a b c : qvec) : Q := dotq a a * dotq b b * dotq c c.

Definition density_cell (ms : list Q) (a b c : qvec) : Q := density ms (triple3 a b c).

Definition cellz := (zvec * zvec * zvec)%type.
Definition cell_volume_z (unit : Z) (abc : cellz) : Q :=
  let '(a, b, c) := abc in triple3 (to_q unit a) (to_q unit b) (to_q unit c).

(* (relative tolerance, unit, masses | element symbols, cell vectors of every frame) -> density per frame *)
Definition run_density_cells (c : Q * Z * list Q * list cellz) : Q * list Q :=
  let '(tol, unit, ms, cells) := c in (tol, map (fun abc => density ms (cell_volume_z unit abc)) cells).
Definition run_density_cells_sym (c : Q * Z * list string * list cellz) : Q * list Q :=
  let '(tol, unit, syms, cells) := c in
  (tol, map (fun abc => density (map mass_of syms) (cell_volume_z unit abc)) cells).
