(* C16 / centre of mass and geometry, radius of gyration, gyration tensor, shape descriptors,
   density, dipole moment: executable closed forms over Q.  No proofs in this file.

   Coordinates enter as integers in a common unit (float32 dyadic rationals scaled by [unit]); masses,
   charges and float64 results of the implementation enter as exact rationals. *)
From Coq Require Import String List ZArith QArith Qabs Bool.
Import ListNotations.
Require Import MD.Gen.DescTables MD.Gen.DescFormulas.
Local Open Scope Q_scope.

(* sum, kept in lowest terms after every addition (Qred q == q) so that vm_compute stays small *)
Definition qsum (l : list Q) : Q := fold_right (fun x acc => Qred (x + acc)) 0 l.

Definition qvec := (Q * Q * Q)%type.
Definition zvec := (Z * Z * Z)%type.

Definition vx (v : qvec) : Q := fst (fst v).
Definition vy (v : qvec) : Q := snd (fst v).
Definition vz (v : qvec) : Q := snd v.

(* grid coordinates -> nanometres *)
Definition to_q (unit : Z) (v : zvec) : qvec :=
  let '(a, b, c) := v in (inject_Z a / inject_Z unit, inject_Z b / inject_Z unit, inject_Z c / inject_Z unit).

Definition comp (k : nat) (v : qvec) : Q := match k with O => vx v | S O => vy v | _ => vz v end.

(* atom.element.mass by element symbol (table regenerated from element.py); unknown symbol: 0 *)
Fixpoint lookup_mass (t : list (string * Q)) (sym : string) : Q :=
  match t with
  | [] => 0
  | (s, m) :: r => if String.eqb s sym then m else lookup_mass r sym
  end.
Definition mass_of (sym : string) : Q := lookup_mass element_masses sym.

(* ------------------------------------------------------------------ centres *)
(* compute_center_of_mass: sum_i (m_i / M) x_i ; one component *)
Definition wmean (ms xs : list Q) : Q :=
  qsum (map (fun mx => fst mx * snd mx) (combine ms xs)) / qsum ms.

Definition ones (n : nat) : list Q := repeat 1 n.

(* compute_center_of_geometry: arithmetic mean *)
Definition mean (xs : list Q) : Q := qsum xs / inject_Z (Z.of_nat (length xs)).

Definition center_of_mass (ms : list Q) (pts : list qvec) : qvec :=
  (wmean ms (map vx pts), wmean ms (map vy pts), wmean ms (map vz pts)).

Definition center_of_geometry (pts : list qvec) : qvec :=
  (mean (map vx pts), mean (map vy pts), mean (map vz pts)).

(* ------------------------------------------------------------------ radius of gyration *)
(* weighted second moment of one component about the point a *)
Definition wvar_about (a : Q) (ms xs : list Q) : Q :=
  qsum (map (fun mx => fst mx * ((snd mx - a) * (snd mx - a))) (combine ms xs)) / qsum ms.

(* rg.py:_compute_rg_xyz as found: weights m_i/M but the centre is the UNWEIGHTED mean xyz.mean(1) *)
Definition rg2_cur (ms : list Q) (pts : list qvec) : Q :=
  wvar_about (mean (map vx pts)) ms (map vx pts) +
  wvar_about (mean (map vy pts)) ms (map vy pts) +
  wvar_about (mean (map vz pts)) ms (map vz pts).

(* the mass-weighted radius of gyration: centre = centre of mass *)
Definition rg2_fix (ms : list Q) (pts : list qvec) : Q :=
  wvar_about (wmean ms (map vx pts)) ms (map vx pts) +
  wvar_about (wmean ms (map vy pts)) ms (map vy pts) +
  wvar_about (wmean ms (map vz pts)) ms (map vz pts).

(* ------------------------------------------------------------------ gyration tensor *)
(* shape.py:compute_gyration_tensor: S_ab = (1/N) sum_i (r_ia - c_a)(r_ib - c_b), c = centre of geometry *)
Definition gyr_entry (a b : nat) (pts : list qvec) : Q :=
  let ca := mean (map (comp a) pts) in
  let cb := mean (map (comp b) pts) in
  qsum (map (fun p => (comp a p - ca) * (comp b p - cb)) pts) / inject_Z (Z.of_nat (length pts)).

(* symmetric 3x3 as (xx, yy, zz, xy, xz, yz) *)
Definition sym3 := (Q * Q * Q * Q * Q * Q)%type.

Definition gyration (pts : list qvec) : sym3 :=
  (gyr_entry 0 0 pts, gyr_entry 1 1 pts, gyr_entry 2 2 pts,
   gyr_entry 0 1 pts, gyr_entry 0 2 pts, gyr_entry 1 2 pts).

Definition tr3 (s : sym3) : Q := let '(xx, yy, zz, xy, xz, yz) := s in xx + yy + zz.
(* second invariant: sum of the principal 2x2 minors *)
Definition e2_3 (s : sym3) : Q :=
  let '(xx, yy, zz, xy, xz, yz) := s in xx * yy - xy * xy + xx * zz - xz * xz + yy * zz - yz * yz.
Definition det3 (s : sym3) : Q :=
  let '(xx, yy, zz, xy, xz, yz) := s in
  xx * (yy * zz - yz * yz) - xy * (xy * zz - yz * xz) + xz * (xy * yz - yy * xz).
(* trace of the square *)
Definition trsq3 (s : sym3) : Q :=
  let '(xx, yy, zz, xy, xz, yz) := s in
  xx * xx + yy * yy + zz * zz + (2 # 1) * (xy * xy + xz * xz + yz * yz).

(* elementary symmetric functions of a triple of "eigenvalues" *)
Definition sf1 (l : qvec) : Q := vx l + vy l + vz l.
Definition sf2 (l : qvec) : Q := vx l * vy l + vx l * vz l + vy l * vz l.
Definition sf3 (l : qvec) : Q := vx l * vy l * vz l.

(* documented closed forms of the descriptors in the ascending principal moments l0 <= l1 <= l2
   (the executable comparison uses these; Props/C16.v proves the formulas regenerated from shape.py equal them) *)
Definition spec_asphericity (l0 l1 l2 : Q) : Q := l2 - (l0 + l1) / (2 # 1).
Definition spec_acylindricity (l0 l1 l2 : Q) : Q := l1 - l0.
Definition spec_kappa2 (l0 l1 l2 : Q) : Q :=
  (3 # 2) * (l0 * l0 + l1 * l1 + l2 * l2) / ((l0 + l1 + l2) * (l0 + l1 + l2)) - (1 # 2).

(* relative shape anisotropy directly from the tensor invariants: 3/2 tr(S^2)/tr(S)^2 - 1/2 *)
Definition kappa2_of_tensor (s : sym3) : Q := (3 # 2) * trsq3 s / (tr3 s * tr3 s) - (1 # 2).

(* ------------------------------------------------------------------ density, dipole *)
Definition density (ms : list Q) (volume : Q) : Q := density_formula (qsum ms) volume.
(* documented: total mass / volume, converted from Da/nm^3 to kg/m^3 (CODATA 2018 atomic mass constant) *)
Definition spec_density (ms : list Q) (volume : Q) : Q := qsum ms / volume * (166053906660 # 100000000000).

(* sum_i q_i (r_i - a): one component *)
Definition dipole_about (a : Q) (qs xs : list Q) : Q :=
  qsum (map (fun qx => fst qx * (snd qx - a)) (combine qs xs)).

(* ------------------------------------------------------------------ comparison helpers (harness) *)
(* |a - b| <= tol *)
Definition qclose (tol a b : Q) : bool := Qle_bool (Qabs (a - b)) tol.

Fixpoint qlist_close (tol : Q) (a b : list Q) : bool :=
  match a, b with
  | [], [] => true
  | x :: r, y :: s => qclose tol x y && qlist_close tol r s
  | _, _ => false
  end.

(* model side returns (tolerance, values); implementation side the values *)
Definition close_res (m : Q * list Q) (e : list Q) : bool := qlist_close (fst m) (snd m) e.

Definition vec_list (v : qvec) : list Q := [vx v; vy v; vz v].

Definition frames_q (unit : Z) (frames : list (list zvec)) : list (list qvec) := map (map (to_q unit)) frames.

(* masses given as element symbols *)
Definition run_com_sym (c : Q * Z * list string * list (list zvec)) : Q * list Q :=
  let '(tol, unit, syms, frames) := c in
  (tol, flat_map (fun f => vec_list (center_of_mass (map mass_of syms) f)) (map (map (to_q unit)) frames)).

Definition run_density_sym (c : Q * list string * list Q) : Q * list Q :=
  let '(tol, syms, vols) := c in (tol, map (spec_density (map mass_of syms)) vols).

(* case = (tolerance, unit, masses, frames); result = com of every frame, flattened *)
Definition run_com (c : Q * Z * list Q * list (list zvec)) : Q * list Q :=
  let '(tol, unit, ms, frames) := c in
  (tol, flat_map (fun f => vec_list (center_of_mass ms f)) (frames_q unit frames)).

Definition run_cog (c : Q * Z * list (list zvec)) : Q * list Q :=
  let '(tol, unit, frames) := c in
  (tol, flat_map (fun f => vec_list (center_of_geometry f)) (frames_q unit frames)).

(* squared radius of gyration per frame; fix = true: centre of mass, false: as found *)
Definition run_rg2 (c : Q * bool * Z * list Q * list (list zvec)) : Q * list Q :=
  let '(tol, fix_, unit, ms, frames) := c in
  (tol, map (fun f => if fix_ then rg2_fix ms f else rg2_cur ms f) (frames_q unit frames)).

Definition sym_full (s : sym3) : list Q :=
  let '(xx, yy, zz, xy, xz, yz) := s in [xx; xy; xz; xy; yy; yz; xz; yz; zz].

Definition run_gyration (c : Q * Z * list (list zvec)) : Q * list Q :=
  let '(tol, unit, frames) := c in
  (tol, flat_map (fun f => sym_full (gyration f)) (frames_q unit frames)).

Definition b2q (b : bool) : Q := if b then 0 else 1.

(* residuals (all must be ~0) of the reported principal moments [lam] of one frame against the exact
   tensor: the three coefficients of the characteristic polynomial, scaled by powers of the trace,
   and the ascending order *)
Definition moments_residuals (pts : list qvec) (lam : qvec) : list Q :=
  let s := gyration pts in
  let t := tr3 s in
  [(sf1 lam - t) / t; (sf2 lam - e2_3 s) / (t * t); (sf3 lam - det3 s) / (t * t * t);
   b2q (Qle_bool (vx lam) (vy lam)); b2q (Qle_bool (vy lam) (vz lam))].

Definition run_moments (c : Q * Z * list (list zvec * qvec)) : Q * list Q :=
  let '(tol, unit, fl) := c in
  (tol, flat_map (fun x => moments_residuals (map (to_q unit) (fst x)) (snd x)) fl).

(* residuals of asphericity b, acylindricity c, relative shape anisotropy k against the formulas of
   shape.py applied to the (separately checked) principal moments, and of k against the tensor invariants *)
Definition shape_residuals (pts : list qvec) (lam : qvec) (b c k : Q) : list Q :=
  let s := gyration pts in
  let t := tr3 s in
  [(b - spec_asphericity (vx lam) (vy lam) (vz lam)) / t;
   (c - spec_acylindricity (vx lam) (vy lam) (vz lam)) / t;
   k - spec_kappa2 (vx lam) (vy lam) (vz lam);
   k - kappa2_of_tensor s].

Definition run_shape (c : Q * Z * list (list zvec * qvec * (Q * Q * Q))) : Q * list Q :=
  let '(tol, unit, fl) := c in
  (tol, flat_map (fun x => let '(pts, lam, (b, cc, k)) := x in
                           shape_residuals (map (to_q unit) pts) lam b cc k) fl).

(* density per frame: (tolerance, masses, volumes) *)
Definition run_density (c : Q * list Q * list Q) : Q * list Q :=
  let '(tol, ms, vols) := c in (tol, map (spec_density ms) vols).

(* relative closeness for density-like positive magnitudes: |a-b| <= tol * |b| *)
Fixpoint qlist_close_rel (tol : Q) (a b : list Q) : bool :=
  match a, b with
  | [], [] => true
  | x :: r, y :: s => Qle_bool (Qabs (x - y)) (tol * Qabs y) && qlist_close_rel tol r s
  | _, _ => false
  end.
Definition close_res_rel (m : Q * list Q) (e : list Q) : bool := qlist_close_rel (fst m) (snd m) e.
