(* C06 -- model of the RMSD / superposition code (mdtraj/rmsd).  Definitions only, no proofs.

   What is modelled and from where:
   * MD.Gen.RmsdFormulas (regenerated from theobald_rmsd.cpp:msdFromMandG on every run) holds the
     straight-line arithmetic: K-matrix entries, C_2, C_1, C_0, the adjugate column q0..q3, the
     normalisation, rot[0..8], the fallback test and the returned msd.  Module Zf: polynomial skeleton
     over Z (non-polynomial values are inputs); module Rf: the whole function over R.
   * This file adds, by hand, what surrounds that function: conformations as lists of atom pairs,
     the inner-product matrix M and the traces G (msd_atom_major), centring (center.cpp), the way a
     rotation is applied (rotation.cpp: row vector times rot), Trajectory.superpose, and the two
     variants of the choice of the adjugate column (as found / repaired).
   * The root solver (DirectSolve) is NOT modelled: its result is the input `lam`.
   Float32 rounding is outside the model (exact arithmetic). *)
From Coq Require Import ZArith Reals List Bool.
Import ListNotations.
Require Import MD.Gen.RmsdFormulas.

(* ------------------------------------------------------------------------------------------ *)
(* Exact integer model (executable: used by the correspondence through vm_compute)             *)
Module ZM.
Local Open Scope Z_scope.

Definition v3 := (Z * Z * Z)%type.
Definition vx (v : v3) : Z := fst (fst v).
Definition vy (v : v3) : Z := snd (fst v).
Definition vz (v : v3) : Z := snd v.
Definition vnorm2 (v : v3) : Z := vx v * vx v + vy v * vy v + vz v * vz v.
Definition vsub (u v : v3) : v3 := (vx u - vx v, vy u - vy v, vz u - vz v).
Definition vadd (u v : v3) : v3 := (vx u + vx v, vy u + vy v, vz u + vz v).

(* one pair of corresponding atoms: fst = atom of the conformation that is rotated (argument `a` of
   msd_atom_major), snd = atom of the other conformation (argument `b`) *)
Definition apair := (v3 * v3)%type.

Fixpoint sumf (f : apair -> Z) (l : list apair) : Z :=
  match l with [] => 0 | p :: t => f p + sumf f t end.

Definition Ga (l : list apair) : Z := sumf (fun p => vnorm2 (fst p)) l.
Definition Gb (l : list apair) : Z := sumf (fun p => vnorm2 (snd p)) l.
(* M[3*a+b] = sum_k a_k[a] * b_k[b]   (theobald_rmsd_*.h: xx xy xz yx yy yz zx zy zz) *)
Definition Mab (a b : v3 -> Z) (l : list apair) : Z := sumf (fun p => a (fst p) * b (snd p)) l.

Definition inp_of (l : list apair) (lam qa qb qc qd : Z) : Zf.inp :=
  Zf.mkin (Ga l) (Gb l) (Z.of_nat (length l))
          (Mab vx vx l) (Mab vx vy l) (Mab vx vz l)
          (Mab vy vx l) (Mab vy vy l) (Mab vy vz l)
          (Mab vz vx l) (Mab vz vy l) (Mab vz vz l) lam qa qb qc qd.

(* coefficients of the characteristic polynomial the code builds, and the traces *)
Definition coeffs (l : list apair) : Z * Z * Z * Z * Z :=
  let i := inp_of l 0 0 0 0 0 in
  (Zf.out_C_2 i, Zf.out_C_1 i, Zf.out_C_0 i, Ga l, Gb l).

Definition sumx (l : list apair) : v3 := (sumf (fun p => vx (fst p)) l, sumf (fun p => vy (fst p)) l, sumf (fun p => vz (fst p)) l).
Definition sumy (l : list apair) : v3 := (sumf (fun p => vx (snd p)) l, sumf (fun p => vy (snd p)) l, sumf (fun p => vz (snd p)) l).
Definition centred (l : list apair) : Prop := sumx l = (0, 0, 0) /\ sumy l = (0, 0, 0).

(* general small determinants *)
Definition det3 (a b c d e f g h k : Z) : Z := a * (e * k - f * h) - b * (d * k - f * g) + c * (d * h - e * g).
Definition det4sym (a00 a01 a02 a03 a11 a12 a13 a22 a23 a33 : Z) : Z :=
    a00 * det3 a11 a12 a13 a12 a22 a23 a13 a23 a33
  - a01 * det3 a01 a12 a13 a02 a22 a23 a03 a23 a33
  + a02 * det3 a01 a11 a13 a02 a12 a23 a03 a13 a33
  - a03 * det3 a01 a11 a12 a02 a12 a22 a03 a13 a23.

(* the symmetric 4x4 matrix K as the code forms it (its ten distinct entries), shifted by t *)
Definition detK_shift (i : Zf.inp) (t : Z) : Z :=
  det4sym (Zf.at_detK_k00 i - t) (Zf.at_detK_k01 i) (Zf.at_detK_k02 i) (Zf.at_detK_k03 i)
          (Zf.at_detK_k11 i - t) (Zf.at_detK_k12 i) (Zf.at_detK_k13 i)
          (Zf.at_detK_k22 i - t) (Zf.at_detK_k23 i) (Zf.at_detK_k33 i - t).
Definition charpoly (i : Zf.inp) (t : Z) : Z :=
  t * t * t * t + Zf.out_C_2 i * (t * t) + Zf.out_C_1 i * t + Zf.out_C_0 i.

(* quadratic form p^T K p with the code's K *)
Definition qKq (i : Zf.inp) (a b c d : Z) : Z :=
    Zf.at_detK_k00 i * (a * a) + Zf.at_detK_k11 i * (b * b) + Zf.at_detK_k22 i * (c * c) + Zf.at_detK_k33 i * (d * d)
  + 2 * (Zf.at_detK_k01 i * (a * b) + Zf.at_detK_k02 i * (a * c) + Zf.at_detK_k03 i * (a * d)
       + Zf.at_detK_k12 i * (b * c) + Zf.at_detK_k13 i * (b * d) + Zf.at_detK_k23 i * (c * d)).

(* rotation.cpp: rot_atom_major computes the row vector x times the row-major matrix rot *)
Definition rowmul (x : v3) (r0 r1 r2 r3 r4 r5 r6 r7 r8 : Z) : v3 :=
  (vx x * r0 + vy x * r3 + vz x * r6, vx x * r1 + vy x * r4 + vz x * r7, vx x * r2 + vy x * r5 + vz x * r8).
Definition rot_of (i : Zf.inp) (x : v3) : v3 :=
  rowmul x (Zf.out_rot0 i) (Zf.out_rot1 i) (Zf.out_rot2 i) (Zf.out_rot3 i) (Zf.out_rot4 i)
           (Zf.out_rot5 i) (Zf.out_rot6 i) (Zf.out_rot7 i) (Zf.out_rot8 i).
Definition qnorm2 (i : Zf.inp) : Z :=
  Zf.out_q0 i * Zf.out_q0 i + Zf.out_q1 i * Zf.out_q1 i + Zf.out_q2 i * Zf.out_q2 i + Zf.out_q3 i * Zf.out_q3 i.

(* sum over the atoms of | x.rot - s*y |^2   (s = |q|^2 makes the identity homogeneous) *)
Definition resid (i : Zf.inp) (s : Z) (l : list apair) : Z :=
  sumf (fun p => vnorm2 (vsub (rot_of i (fst p)) (s * vx (snd p), s * vy (snd p), s * vz (snd p)))) l.

(* --- choice of the adjugate column: the two variants (hand models of the selection logic) ----- *)
(* cofactor column j of the symmetric matrix A = (a00 .. a33): every column is a multiple of the
   null vector when det A = 0 *)
Definition adjcol (j : nat) (a00 a01 a02 a03 a11 a12 a13 a22 a23 a33 : Z) : Z * Z * Z * Z :=
  match j with
  | 0%nat => (  det3 a11 a12 a13 a12 a22 a23 a13 a23 a33, - det3 a01 a12 a13 a02 a22 a23 a03 a23 a33,
                det3 a01 a11 a13 a02 a12 a23 a03 a13 a33, - det3 a01 a11 a12 a02 a12 a22 a03 a13 a23)
  | 1%nat => (- det3 a01 a02 a03 a12 a22 a23 a13 a23 a33,   det3 a00 a02 a03 a02 a22 a23 a03 a23 a33,
              - det3 a00 a01 a03 a02 a12 a23 a03 a13 a33,   det3 a00 a01 a02 a02 a12 a22 a03 a13 a23)
  | 2%nat => (  det3 a01 a02 a03 a11 a12 a13 a13 a23 a33, - det3 a00 a02 a03 a01 a12 a13 a03 a23 a33,
                det3 a00 a01 a03 a01 a11 a13 a03 a13 a33, - det3 a00 a01 a02 a01 a11 a12 a03 a13 a23)
  | _     => (- det3 a01 a02 a03 a11 a12 a13 a12 a22 a23,   det3 a00 a02 a03 a01 a12 a13 a02 a22 a23,
              - det3 a00 a01 a03 a01 a11 a13 a02 a12 a23,   det3 a00 a01 a02 a01 a11 a12 a02 a12 a22)
  end.
Definition n4 (q : Z * Z * Z * Z) : Z :=
  let '(a, b, c, d) := q in a * a + b * b + c * c + d * d.

(* K*den - num*I for the inner-product matrix of l: integer image of K - lam*I for lam = num/den *)
Definition shiftedK (l : list apair) (num den : Z) :=
  let i := inp_of l 0 0 0 0 0 in
  (den * Zf.at_detK_k00 i - num, den * Zf.at_detK_k01 i, den * Zf.at_detK_k02 i, den * Zf.at_detK_k03 i,
   den * Zf.at_detK_k11 i - num, den * Zf.at_detK_k12 i, den * Zf.at_detK_k13 i,
   den * Zf.at_detK_k22 i - num, den * Zf.at_detK_k23 i, den * Zf.at_detK_k33 i - num).
Definition colnorm (j : nat) (l : list apair) (num den : Z) : Z :=
  let '(a00, a01, a02, a03, a11, a12, a13, a22, a23, a33) := shiftedK l num den in
  n4 (adjcol j a00 a01 a02 a03 a11 a12 a13 a22 a23 a33).

(* AS FOUND (theobald_rmsd.cpp): only column 0 is formed and the rotation is replaced by the identity
   when its squared norm is below the absolute constant 1e-11.  Coordinates are integers in units of
   1/unit nm and lam = num/den in those units squared, so the real squared norm is
   colnorm / (den^6 * unit^12). *)
Definition cur_falls_back (l : list apair) (num den unit : Z) : bool :=
  colnorm 0 l num den * 100000000000 <? den ^ 6 * unit ^ 12.
(* REPAIRED: the column of largest norm is used; identity only when all four vanish against the scale
   of the problem (entries of K - lam*I are bounded by 2*(Ga+Gb)): relative threshold 1e-11 * S^6 *)
Definition maxcol (l : list apair) (num den : Z) : Z :=
  Z.max (Z.max (colnorm 0 l num den) (colnorm 1 l num den)) (Z.max (colnorm 2 l num den) (colnorm 3 l num den)).
Definition fix_falls_back (l : list apair) (num den unit : Z) : bool :=
  maxcol l num den * 100000000000 <? (den * (Ga l + Gb l)) ^ 6.

(* conditioning of the as-found choice: adj(K - lam I) = g v v^T at a simple root, so
   colnorm 0 / (sum of the four colnorms) = v0^2 = cos^2(theta/2) for the optimal rotation angle theta.
   Below 1/100 (theta within 0.2 rad of a half turn) the float32 evaluation of column 0 is degraded by
   rounding.  This predicate is NOT used by any theorem; the correspondence uses it only to attribute a
   failing superposition to the known defect "only the first column is formed". *)
Definition sumcol (l : list apair) (num den : Z) : Z :=
  colnorm 0 l num den + colnorm 1 l num den + colnorm 2 l num den + colnorm 3 l num den.
Definition cur_illcond (l : list apair) (num den : Z) : bool :=
  colnorm 0 l num den * 100 <? sumcol l num den.

(* correspondence entry point: 8*[cur falls back] + 4*[fix falls back] + 2*[guard: column-0 norm within
   10^4 of the absolute threshold] + [cur ill-conditioned] *)
Definition fallback_report (c : list apair * (Z * Z * Z)) : Z :=
  let '(l, (num, den, unit)) := c in
  let n0 := colnorm 0 l num den * 100000000000 in
  let thr := den ^ 6 * unit ^ 12 in
  (if cur_falls_back l num den unit then 8 else 0) + (if fix_falls_back l num den unit then 4 else 0) +
  (if (thr <? n0 * 10000) && (n0 <? thr * 10000) then 2 else 0) + (if cur_illcond l num den then 1 else 0).

Definition coeffs_eqb (x y : Z * Z * Z * Z * Z) : bool :=
  let '(a, b, c, d, e) := x in let '(a', b', c', d', e') := y in
  (a =? a') && (b =? b') && (c =? c') && (d =? d') && (e =? e').
End ZM.

(* ------------------------------------------------------------------------------------------ *)
(* The same over R, for the statements that need division and sqrt                              *)
Module RM.
Local Open Scope R_scope.

Definition v3 := (R * R * R)%type.
Definition vx (v : v3) : R := fst (fst v).
Definition vy (v : v3) : R := snd (fst v).
Definition vz (v : v3) : R := snd v.
Definition vnorm2 (v : v3) : R := vx v * vx v + vy v * vy v + vz v * vz v.
Definition vsub (u v : v3) : v3 := (vx u - vx v, vy u - vy v, vz u - vz v).
Definition vadd (u v : v3) : v3 := (vx u + vx v, vy u + vy v, vz u + vz v).
Definition vscale (s : R) (v : v3) : v3 := (s * vx v, s * vy v, s * vz v).
Definition vzero : v3 := (0, 0, 0).

Definition apair := (v3 * v3)%type.
Fixpoint sumf (f : apair -> R) (l : list apair) : R :=
  match l with [] => 0 | p :: t => f p + sumf f t end.

Definition Ga (l : list apair) : R := sumf (fun p => vnorm2 (fst p)) l.
Definition Gb (l : list apair) : R := sumf (fun p => vnorm2 (snd p)) l.
Definition Mab (a b : v3 -> R) (l : list apair) : R := sumf (fun p => a (fst p) * b (snd p)) l.
Definition natoms (l : list apair) : R := INR (length l).

Definition inp_of (l : list apair) (lam : R) : Rf.inp :=
  Rf.mkin (Ga l) (Gb l) (natoms l)
          (Mab vx vx l) (Mab vx vy l) (Mab vx vz l)
          (Mab vy vx l) (Mab vy vy l) (Mab vy vz l)
          (Mab vz vx l) (Mab vz vy l) (Mab vz vz l) lam.

Definition sumx (l : list apair) : v3 := (sumf (fun p => vx (fst p)) l, sumf (fun p => vy (fst p)) l, sumf (fun p => vz (fst p)) l).
Definition sumy (l : list apair) : v3 := (sumf (fun p => vx (snd p)) l, sumf (fun p => vy (snd p)) l, sumf (fun p => vz (snd p)) l).
Definition centred (l : list apair) : Prop := sumx l = vzero /\ sumy l = vzero.

Definition det3 (a b c d e f g h k : R) : R := a * (e * k - f * h) - b * (d * k - f * g) + c * (d * h - e * g).
Definition det4sym (a00 a01 a02 a03 a11 a12 a13 a22 a23 a33 : R) : R :=
    a00 * det3 a11 a12 a13 a12 a22 a23 a13 a23 a33
  - a01 * det3 a01 a12 a13 a02 a22 a23 a03 a23 a33
  + a02 * det3 a01 a11 a13 a02 a12 a23 a03 a13 a33
  - a03 * det3 a01 a11 a12 a02 a12 a22 a03 a13 a23.
Definition detK_shift (i : Rf.inp) (t : R) : R :=
  det4sym (Rf.at_detK_k00 i - t) (Rf.at_detK_k01 i) (Rf.at_detK_k02 i) (Rf.at_detK_k03 i)
          (Rf.at_detK_k11 i - t) (Rf.at_detK_k12 i) (Rf.at_detK_k13 i)
          (Rf.at_detK_k22 i - t) (Rf.at_detK_k23 i) (Rf.at_detK_k33 i - t).
Definition charpoly (i : Rf.inp) (t : R) : R :=
  t * t * t * t + Rf.out_C_2 i * (t * t) + Rf.out_C_1 i * t + Rf.out_C_0 i.

Definition qKq (i : Rf.inp) (a b c d : R) : R :=
    Rf.at_detK_k00 i * (a * a) + Rf.at_detK_k11 i * (b * b) + Rf.at_detK_k22 i * (c * c) + Rf.at_detK_k33 i * (d * d)
  + 2 * (Rf.at_detK_k01 i * (a * b) + Rf.at_detK_k02 i * (a * c) + Rf.at_detK_k03 i * (a * d)
       + Rf.at_detK_k12 i * (b * c) + Rf.at_detK_k13 i * (b * d) + Rf.at_detK_k23 i * (c * d)).
(* lam dominates the Rayleigh quotient of K: lam is at least the largest eigenvalue *)
Definition dominates (i : Rf.inp) (lam : R) : Prop :=
  forall a b c d, a * a + b * b + c * c + d * d = 1 -> qKq i a b c d <= lam.

(* 3x3 matrices, row major as in rot[9] *)
Record mat9 : Type := M9 { r0 : R; r1 : R; r2 : R; r3 : R; r4 : R; r5 : R; r6 : R; r7 : R; r8 : R }.
Definition rowmul (x : v3) (r : mat9) : v3 :=
  (vx x * r0 r + vy x * r3 r + vz x * r6 r, vx x * r1 r + vy x * r4 r + vz x * r7 r, vx x * r2 r + vy x * r5 r + vz x * r8 r).
Definition ident : mat9 := M9 1 0 0 0 1 0 0 0 1.
Definition orthogonal (r : mat9) : Prop :=
  r0 r * r0 r + r1 r * r1 r + r2 r * r2 r = 1 /\ r3 r * r3 r + r4 r * r4 r + r5 r * r5 r = 1 /\
  r6 r * r6 r + r7 r * r7 r + r8 r * r8 r = 1 /\
  r0 r * r3 r + r1 r * r4 r + r2 r * r5 r = 0 /\ r0 r * r6 r + r1 r * r7 r + r2 r * r8 r = 0 /\
  r3 r * r6 r + r4 r * r7 r + r5 r * r8 r = 0.
Definition det9 (r : mat9) : R := det3 (r0 r) (r1 r) (r2 r) (r3 r) (r4 r) (r5 r) (r6 r) (r7 r) (r8 r).
Definition proper_rotation (r : mat9) : Prop := orthogonal r /\ det9 r = 1.

(* the rotation the code returns, and the rotation matrix of a quaternion with the code's formulas *)
Definition out_rot (i : Rf.inp) : mat9 :=
  M9 (Rf.out_rot0 i) (Rf.out_rot1 i) (Rf.out_rot2 i) (Rf.out_rot3 i) (Rf.out_rot4 i)
     (Rf.out_rot5 i) (Rf.out_rot6 i) (Rf.out_rot7 i) (Rf.out_rot8 i).
Definition Rq (a b c d : R) : mat9 :=
  M9 (a * a + b * b - c * c - d * d) (2 * (b * c - a * d)) (2 * (d * b + a * c))
     (2 * (b * c + a * d)) (a * a - b * b + c * c - d * d) (2 * (c * d - a * b))
     (2 * (d * b - a * c)) (2 * (c * d + a * b)) (a * a - b * b - c * c + d * d).

(* sum of squared deviations after applying rotation r and translation t to the first conformation *)
Definition resid (r : mat9) (t : v3) (l : list apair) : R :=
  sumf (fun p => vnorm2 (vsub (vadd (rowmul (fst p) r) t) (snd p))) l.

(* what md.rmsd returns for centred input: sqrt of the value returned by msdFromMandG *)
Definition msd_code (l : list apair) (lam : R) : R := Rf.out_ret (inp_of l lam).

(* centring (center.cpp / Trajectory.superpose): subtract the mean of the selected atoms *)
Definition vsum (l : list v3) : v3 := fold_right vadd vzero l.
Definition mean (l : list v3) : v3 := vscale (/ INR (length l)) (vsum l).
Definition centre (l : list v3) : list v3 := map (fun x => vsub x (mean l)) l.

(* Trajectory.superpose: align atoms `al` of the mobile frame onto `rf`; every atom of `all` is moved
   by  x |-> (x - mean al) . rot + mean rf   with rot computed from the centred pairs *)
Definition pairs_of (al rf : list v3) : list apair := combine (centre al) (centre rf).
Definition superpose_rot (al rf : list v3) (lam : R) : mat9 := out_rot (inp_of (pairs_of al rf) lam).
Definition superpose (al rf all : list v3) (lam : R) : list v3 :=
  map (fun x => vadd (rowmul (vsub x (mean al)) (superpose_rot al rf lam)) (mean rf)) all.
Definition dist2 (u v : v3) : R := vnorm2 (vsub u v).

(* selection of the adjugate column, over R (same cofactor formulas as ZM.adjcol) *)
Definition adjcol (j : nat) (a00 a01 a02 a03 a11 a12 a13 a22 a23 a33 : R) : R * R * R * R :=
  match j with
  | 0%nat => (  det3 a11 a12 a13 a12 a22 a23 a13 a23 a33, - det3 a01 a12 a13 a02 a22 a23 a03 a23 a33,
                det3 a01 a11 a13 a02 a12 a23 a03 a13 a33, - det3 a01 a11 a12 a02 a12 a22 a03 a13 a23)
  | 1%nat => (- det3 a01 a02 a03 a12 a22 a23 a13 a23 a33,   det3 a00 a02 a03 a02 a22 a23 a03 a23 a33,
              - det3 a00 a01 a03 a02 a12 a23 a03 a13 a33,   det3 a00 a01 a02 a02 a12 a22 a03 a13 a23)
  | 2%nat => (  det3 a01 a02 a03 a11 a12 a13 a13 a23 a33, - det3 a00 a02 a03 a01 a12 a13 a03 a23 a33,
                det3 a00 a01 a03 a01 a11 a13 a03 a13 a33, - det3 a00 a01 a02 a01 a11 a12 a03 a13 a23)
  | _     => (- det3 a01 a02 a03 a11 a12 a13 a12 a22 a23,   det3 a00 a02 a03 a01 a12 a13 a02 a22 a23,
              - det3 a00 a01 a03 a01 a11 a13 a02 a12 a23,   det3 a00 a01 a02 a01 a11 a12 a02 a12 a22)
  end.
Definition Kcol (i : Rf.inp) (lam : R) (j : nat) : R * R * R * R :=
  adjcol j (Rf.at_detK_k00 i - lam) (Rf.at_detK_k01 i) (Rf.at_detK_k02 i) (Rf.at_detK_k03 i)
           (Rf.at_detK_k11 i - lam) (Rf.at_detK_k12 i) (Rf.at_detK_k13 i)
           (Rf.at_detK_k22 i - lam) (Rf.at_detK_k23 i) (Rf.at_detK_k33 i - lam).
Definition n4 (q : R * R * R * R) : R := let '(a, b, c, d) := q in a * a + b * b + c * c + d * d.
Definition Rq_unit (q : R * R * R * R) : mat9 :=
  let '(a, b, c, d) := q in let s := sqrt (n4 q) in Rq (a / s) (b / s) (c / s) (d / s).

(* AS FOUND: column 0 only, identity below the absolute threshold *)
Definition rot_cur (i : Rf.inp) (lam : R) : mat9 :=
  if Rlt_dec (n4 (Kcol i lam 0)) (1 / 100000000000) then ident else Rq_unit (Kcol i lam 0).
(* REPAIRED: any column that is not the zero vector serves (the repair picks the largest); the
   identity is returned only when the whole adjugate vanishes *)
Definition rot_fix_with (i : Rf.inp) (lam : R) (j : nat) : mat9 := Rq_unit (Kcol i lam j).
End RM.
