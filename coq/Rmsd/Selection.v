(* C06 -- Trajectory.superpose / md.rmsd with separate atom selections for the mobile and the reference structure.
   Definitions only.  A selection is a list of atom indices (any order, repetitions allowed, as numpy fancy indexing
   xyz[:, atom_indices, :] takes them); an index outside the structure is an error (None), never a default atom. *)
From Coq Require Import Reals List Arith.
Import ListNotations.
Require Import MD.Gen.RmsdFormulas MD.Rmsd.Model.

Fixpoint select {A : Type} (idx : list nat) (xs : list A) : option (list A) :=
  match idx with
  | [] => Some []
  | i :: t => match nth_error xs i, select t xs with Some x, Some r => Some (x :: r) | _, _ => None end
  end.

(* trajectory.py:superpose -- self_align_xyz = xyz[:, atom_indices], ref_align_xyz = reference.xyz[frame, ref_atom_indices];
   a length mismatch raises; the transform fitted on the two selections displaces ALL atoms of the mobile frame *)
Definition superpose_sel (A B : list nat) (mob ref : list RM.v3) (lam : R) : option (list RM.v3) :=
  match select A mob, select B ref with
  | Some al, Some rf => if Nat.eqb (length al) (length rf) then Some (RM.superpose al rf mob lam) else None
  | _, _ => None
  end.
(* _rmsd.pyx:rmsd -- the pairs handed to the kernel *)
Definition rmsd_sel_pairs (A B : list nat) (tgt ref : list RM.v3) : option (list RM.apair) :=
  match select A tgt, select B ref with
  | Some al, Some rf => if Nat.eqb (length al) (length rf) then Some (RM.pairs_of al rf) else None
  | _, _ => None
  end.
