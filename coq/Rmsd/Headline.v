(* C06 -- the headline with the root solver unfolded as far as it is proved (see Solver.v). *)
From Coq Require Import Reals List Lra Lia.
Import ListNotations.
Require Import MD.Gen.RmsdFormulas MD.Rmsd.Model MD.Rmsd.AlgebraR MD.Rmsd.Quaternion MD.Rmsd.Optimal MD.Rmsd.Solver.
Import RM.
Local Open Scope R_scope.

(* the coefficients the code hands to the solver *)
Definition c2 (l : list apair) : R := Rf.out_C_2 (inp_of l 0).
Definition c1 (l : list apair) : R := Rf.out_C_1 (inp_of l 0).
Definition c0 (l : list apair) : R := Rf.out_C_0 (inp_of l 0).

Lemma charpoly_is_P : forall l lam t, charpoly (inp_of l lam) t = P (c2 l) (c1 l) (c0 l) t.
Proof. intros. unfold charpoly, P, c2, c1, c0, inp_of, Rf.mkin. gen_unfold. proj. ring. Qed.

(* What remains of linear algebra: for the symmetric matrix K of l, the largest real root of its characteristic
   polynomial bounds the Rayleigh quotient (the spectral theorem for this 4x4 matrix; not available in the
   installed libraries). *)
Definition spectral_top (l : list apair) : Prop :=
  forall lam, P (c2 l) (c1 l) (c0 l) lam = 0 -> (forall t, P (c2 l) (c1 l) (c0 l) t = 0 -> t <= lam) ->
  dominates (inp_of l lam) lam.

(* HEADLINE, second form.  Hypotheses about the code that are NOT proved: (S) solve_cubic_equation returns a root u
   of the resolvent cubic with u - C_2 > 0 and the two discriminants are non-negative (exact arithmetic; they are
   when P is real-rooted); the code's own non-fallback test.  Hypothesis about mathematics: spectral_top.
   Everything else -- Ferrari's factorisation as coded in quartic_equation_solve_exact, max of the four values is
   the largest real root, adjugate column is its eigenvector, rotation formula, residual identity, optimality over
   all proper rotations and translations, the returned msd -- is proved. *)
Theorem rmsd_optimal_from_solver_partial : forall l u,
  let lam := direct_solve (c2 l) (c1 l) u in let i := inp_of l lam in
  l <> [] -> centred l ->
  resolvent (c2 l) (c1 l) (c0 l) u = 0 -> 0 < R2 (c2 l) u -> 0 <= D2 (c2 l) (c1 l) u -> 0 <= E2 (c2 l) (c1 l) u ->
  spectral_top l -> ~ Rf.fallback i ->
  proper_rotation (out_rot i) /\
  resid (out_rot i) vzero l = Ga l + Gb l - 2 * lam /\
  (forall r t, proper_rotation r -> resid (out_rot i) vzero l <= resid r t l) /\
  msd_code l lam = resid (out_rot i) vzero l / natoms l.
Proof.
  intros l u lam i Hl Hc Hres Hpos HD HE Hsp Hnf.
  destruct (direct_solve_top_root (c2 l) (c1 l) (c0 l) u Hres Hpos HD HE) as [Hroot Htop]. fold lam in Hroot, Htop.
  apply (rmsd_optimal_partial l lam Hl Hc).
  - exact (eq_trans (charpoly_is_P l lam lam) Hroot).
  - apply Hsp; assumption.
  - exact Hnf.
Qed.

(* NewtonSolve started at the code's initial value (G_x + G_y)/2: if the polynomial of l is real-rooted and the
   start is not below the largest root, the iterates decrease monotonically towards it, never cross it, and the
   error shrinks by a factor 3/4 per iteration *)
Theorem newton_solve_converges : forall l r1 r2 r3 r4 n,
  real_rooted (c2 l) (c1 l) (c0 l) r1 r2 r3 r4 -> r2 <= r1 -> r3 <= r1 -> r4 <= r1 ->
  let x0 := (Ga l + Gb l) / 2 in r1 <= x0 ->
  let x := iter (c2 l) (c1 l) (c0 l) in
  r1 <= x n x0 <= x0 /\ x (S n) x0 <= x n x0 /\ x n x0 - r1 <= (3 / 4) ^ n * (x0 - r1).
Proof. intros l r1 r2 r3 r4 n HV H2 H3 H4 x0 H0 x. exact (newton_monotone (c2 l) (c1 l) (c0 l) r1 r2 r3 r4 x0 n HV H2 H3 H4 H0). Qed.

(* the start (G_x+G_y)/2 is not below any root whose eigen-rotation the code can form *)
Lemma start_above_root : forall l lam, charpoly (inp_of l lam) lam = 0 -> ~ Rf.fallback (inp_of l lam) ->
  lam <= (Ga l + Gb l) / 2.
Proof. intros l lam Hr Hn. pose proof (critical_rotations l lam Hr Hn). lra. Qed.
