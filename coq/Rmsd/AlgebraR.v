(* C06 -- the statements that need division and sqrt, over R (standard real-number axioms).
   All lemmas are about MD.Gen.RmsdFormulas.Rf, regenerated from theobald_rmsd.cpp. *)
From Coq Require Import Reals List Lra Lia.
Import ListNotations.
Require Import MD.Gen.RmsdFormulas MD.Rmsd.Model.
Import RM.
Local Open Scope R_scope.

Ltac gen_unfold := repeat progress autounfold with rmsdgen rmsdgen_snap.
(* unfold the generated definitions down to the values named at_qsqr_* (the barrier) *)
Ltac gen_unfold_to_barrier := autounfold with rmsdgen.
Ltac proj := cbn [Rf.G_x Rf.G_y Rf.numAtoms Rf.M0 Rf.M1 Rf.M2 Rf.M3 Rf.M4 Rf.M5 Rf.M6 Rf.M7 Rf.M8 Rf.h_lambda_1].
Ltac split_ifs := repeat match goal with |- context [if ?c then _ else _] => destruct c end.

(* --- sums over atoms ----------------------------------------------------------------------------- *)
Lemma sumf_ext : forall f g l, (forall p, f p = g p) -> sumf f l = sumf g l.
Proof. intros f g l H. induction l as [|p t IH]; cbn [sumf]; [reflexivity | rewrite H, IH; reflexivity]. Qed.
Lemma sumf_nonneg : forall f l, (forall p, 0 <= f p) -> 0 <= sumf f l.
Proof. intros f l H. induction l as [|p t IH]; cbn [sumf]; [lra | specialize (H p); lra]. Qed.
Lemma sumf_const : forall c l, sumf (fun _ => c) l = INR (length l) * c.
Proof. intros. induction l as [|p t IH]; [cbn; ring|]. cbn [sumf]. rewrite IH. change (length (p :: t)) with (S (length t)). rewrite S_INR. ring. Qed.
Lemma vnorm2_nonneg : forall v, 0 <= vnorm2 v.
Proof. intros. unfold vnorm2. pose proof (Rle_0_sqr (vx v)). pose proof (Rle_0_sqr (vy v)). pose proof (Rle_0_sqr (vz v)). unfold Rsqr in *. lra. Qed.

(* --- characteristic polynomial and adjugate ------------------------------------------------------ *)
Lemma charpoly_R : forall i t, detK_shift i t = charpoly i t.
Proof. intros. unfold detK_shift, charpoly, det4sym, det3. gen_unfold. ring. Qed.

Definition colidx (j : nat) : nat := match j with 0 => 0 | 1 => 1 | 2 => 2 | _ => 3 end%nat.
Lemma adjcol_ok_R : forall j a00 a01 a02 a03 a11 a12 a13 a22 a23 a33,
  let '(q0, q1, q2, q3) := adjcol j a00 a01 a02 a03 a11 a12 a13 a22 a23 a33 in
  let d := det4sym a00 a01 a02 a03 a11 a12 a13 a22 a23 a33 in
  let e (k : nat) := if Nat.eqb (colidx j) k then d else 0 in
  a00 * q0 + a01 * q1 + a02 * q2 + a03 * q3 = e 0%nat /\ a01 * q0 + a11 * q1 + a12 * q2 + a13 * q3 = e 1%nat /\
  a02 * q0 + a12 * q1 + a22 * q2 + a23 * q3 = e 2%nat /\ a03 * q0 + a13 * q1 + a23 * q2 + a33 * q3 = e 3%nat.
Proof.
  intros j. destruct j as [|[|[|j]]]; intros; cbv [adjcol colidx Nat.eqb det4sym det3]; repeat split; ring.
Qed.

(* at a root, every cofactor column of K - lam I is an eigenvector of K for lam (possibly zero) *)
Lemma Kcol_eigen : forall i lam j, charpoly i lam = 0 ->
  let '(q0, q1, q2, q3) := Kcol i lam j in
  Rf.at_detK_k00 i * q0 + Rf.at_detK_k01 i * q1 + Rf.at_detK_k02 i * q2 + Rf.at_detK_k03 i * q3 = lam * q0 /\
  Rf.at_detK_k01 i * q0 + Rf.at_detK_k11 i * q1 + Rf.at_detK_k12 i * q2 + Rf.at_detK_k13 i * q3 = lam * q1 /\
  Rf.at_detK_k02 i * q0 + Rf.at_detK_k12 i * q1 + Rf.at_detK_k22 i * q2 + Rf.at_detK_k23 i * q3 = lam * q2 /\
  Rf.at_detK_k03 i * q0 + Rf.at_detK_k13 i * q1 + Rf.at_detK_k23 i * q2 + Rf.at_detK_k33 i * q3 = lam * q3.
Proof.
  intros i lam j Hroot. rewrite <- charpoly_R in Hroot. unfold detK_shift in Hroot. unfold Kcol.
  pose proof (adjcol_ok_R j (Rf.at_detK_k00 i - lam) (Rf.at_detK_k01 i) (Rf.at_detK_k02 i) (Rf.at_detK_k03 i)
           (Rf.at_detK_k11 i - lam) (Rf.at_detK_k12 i) (Rf.at_detK_k13 i)
           (Rf.at_detK_k22 i - lam) (Rf.at_detK_k23 i) (Rf.at_detK_k33 i - lam)) as A.
  destruct (adjcol j _ _ _ _ _ _ _ _ _ _) as [[[q0 q1] q2] q3]. cbv zeta in A. rewrite Hroot in A.
  assert (Z0 : forall b : bool, (if b then 0 else 0) = 0) by (intros []; reflexivity).
  rewrite !Z0 in A. destruct A as (A0 & A1 & A2 & A3). repeat split; lra.
Qed.

(* the vector the code forms (before normalisation) is a cofactor column of K - lam I, lam being the
   solver's result, and qsqr is its squared norm *)
Definition gen_q (i : Rf.inp) : R * R * R * R := (Rf.at_qsqr_q0 i, Rf.at_qsqr_q1 i, Rf.at_qsqr_q2 i, Rf.at_qsqr_q3 i).
Ltac adj_tac := unfold gen_q, Kcol; cbv [adjcol]; unfold det3; gen_unfold; split_ifs; repeat (f_equal; try ring).
Lemma gen_q_is_adjcol_R : forall i, exists j, gen_q i = Kcol i (Rf.out_lambda i) j.
Proof.
  intros i.
  first [ exists 0%nat; solve [adj_tac]
        | unfold gen_q; gen_unfold; split_ifs;
          first [ exists 0%nat; solve [adj_tac] | exists 1%nat; solve [adj_tac]
                | exists 2%nat; solve [adj_tac] | exists 3%nat; solve [adj_tac] ] ].
Qed.
Lemma gen_qsqr : forall i, Rf.at_qsqr_qsqr i = n4 (gen_q i).
Proof. intros. unfold n4, gen_q. gen_unfold. split_ifs; ring. Qed.

(* --- rotation matrices --------------------------------------------------------------------------- *)
Lemma Rq_orthogonal : forall a b c d, a * a + b * b + c * c + d * d = 1 -> proper_rotation (Rq a b c d).
Proof.
  intros a b c d H. unfold proper_rotation, orthogonal, det9, det3, Rq. cbn [r0 r1 r2 r3 r4 r5 r6 r7 r8].
  assert (N2 : (a * a + b * b + c * c + d * d) * (a * a + b * b + c * c + d * d) = 1) by (rewrite H; ring).
  assert (N3 : (a * a + b * b + c * c + d * d) * (a * a + b * b + c * c + d * d) * (a * a + b * b + c * c + d * d) = 1) by (rewrite H; ring).
  repeat split; first [ rewrite <- N2; ring | rewrite <- N3; ring | ring ].
Qed.
Lemma ident_proper : proper_rotation ident.
Proof. unfold proper_rotation, orthogonal, det9, det3, ident. cbn. repeat split; ring. Qed.

Lemma sqrt_sq : forall x, 0 < x -> sqrt x * sqrt x = x /\ sqrt x <> 0.
Proof. intros x H. split; [apply sqrt_sqrt; lra|]. pose proof (sqrt_lt_R0 x H). lra. Qed.

Lemma Rq_unit_proper : forall q, 0 < n4 q -> proper_rotation (Rq_unit q).
Proof.
  intros [[[a b] c] d] H. unfold Rq_unit. destruct (sqrt_sq _ H) as [S1 S2]. apply Rq_orthogonal.
  set (s := sqrt (n4 (a, b, c, d))) in *. unfold n4 in S1.
  replace (a / s * (a / s) + b / s * (b / s) + c / s * (c / s) + d / s * (d / s)) with ((a * a + b * b + c * c + d * d) / (s * s)) by (field; exact S2).
  rewrite S1. unfold n4 in H. field. lra.
Qed.

(* rot_orthogonal, rot_det1 for the matrix the code returns -- unconditional: below the threshold the
   identity is returned, above it the normalised quaternion is a unit quaternion *)
(* the code's threshold is not negative: not falling back means the squared norm is positive *)
Ltac threshold_pos Hc := autounfold with rmsdgen_cond in Hc; first [lra | nra | (autounfold with rmsdgen in Hc; first [lra | nra])].

Lemma rot_structure : forall i,
  (Rf.fallback i /\ out_rot i = ident) \/
  (~ Rf.fallback i /\ 0 < n4 (gen_q i) /\ out_rot i = Rq_unit (gen_q i)).
Proof.
  intros i. unfold out_rot, Rf.fallback. gen_unfold_to_barrier.
  repeat match goal with |- context [if ?c then _ else _] => destruct c as [Hc|Hc] end;
  first [ left; split; [first [exact Hc | intro Hn; apply Hc; exact Hn] | reflexivity]
        | right; split; [first [exact Hc | intro Hn; apply Hn; exact Hc]|];
          assert (P : 0 < n4 (gen_q i)) by (rewrite <- gen_qsqr; threshold_pos Hc);
          split; [exact P|];
          rewrite gen_qsqr; unfold Rq_unit, gen_q, Rq in *; destruct (sqrt_sq _ P) as [S1 S2];
          set (s := sqrt _) in *; f_equal; field; exact S2 ].
Qed.
Lemma out_rot_cases : forall i,
  out_rot i = ident \/ (0 < n4 (gen_q i) /\ out_rot i = Rq_unit (gen_q i) /\ ~ Rf.fallback i).
Proof. intros i. destruct (rot_structure i) as [[_ E] | (N & P & E)]; [left; exact E | right; repeat split; assumption]. Qed.
Lemma rot_proper : forall i, proper_rotation (out_rot i).
Proof.
  intros i. destruct (out_rot_cases i) as [E | (P & E & _)]; rewrite E; [apply ident_proper | apply Rq_unit_proper; exact P].
Qed.
Lemma not_fallback_rot : forall i, ~ Rf.fallback i -> 0 < n4 (gen_q i) /\ out_rot i = Rq_unit (gen_q i).
Proof. intros i H. destruct (rot_structure i) as [[F _] | (_ & P & E)]; [contradiction | split; assumption]. Qed.

(* --- residual identity (induction over the atoms) ------------------------------------------------ *)
Definition overlap (r : mat9) (l : list apair) : R :=
  r0 r * Mab vx vx l + r1 r * Mab vx vy l + r2 r * Mab vx vz l + r3 r * Mab vy vx l + r4 r * Mab vy vy l +
  r5 r * Mab vy vz l + r6 r * Mab vz vx l + r7 r * Mab vz vy l + r8 r * Mab vz vz l.

Lemma rowmul_norm : forall r x, orthogonal r -> vnorm2 (rowmul x r) = vnorm2 x.
Proof.
  intros r [[x0 x1] x2] (A0 & A1 & A2 & B01 & B02 & B12). unfold vnorm2, rowmul, vx, vy, vz. cbn [fst snd].
  transitivity (x0 * x0 * (r0 r * r0 r + r1 r * r1 r + r2 r * r2 r) + x1 * x1 * (r3 r * r3 r + r4 r * r4 r + r5 r * r5 r)
              + x2 * x2 * (r6 r * r6 r + r7 r * r7 r + r8 r * r8 r) + 2 * x0 * x1 * (r0 r * r3 r + r1 r * r4 r + r2 r * r5 r)
              + 2 * x0 * x2 * (r0 r * r6 r + r1 r * r7 r + r2 r * r8 r) + 2 * x1 * x2 * (r3 r * r6 r + r4 r * r7 r + r5 r * r8 r)); [ring|].
  rewrite A0, A1, A2, B01, B02, B12. ring.
Qed.

Lemma resid_expand : forall r l, orthogonal r -> resid r vzero l = Ga l + Gb l - 2 * overlap r l.
Proof.
  intros r l Ho. unfold resid, Ga, Gb, overlap, Mab. induction l as [|[x y] t IH]; cbn [sumf]; [ring|].
  rewrite IH. cbn [fst snd].
  assert (E : vnorm2 (vsub (vadd (rowmul x r) vzero) y) = vnorm2 (rowmul x r) + vnorm2 y
     - 2 * (r0 r * (vx x * vx y) + r1 r * (vx x * vy y) + r2 r * (vx x * vz y) + r3 r * (vy x * vx y) + r4 r * (vy x * vy y)
          + r5 r * (vy x * vz y) + r6 r * (vz x * vx y) + r7 r * (vz x * vy y) + r8 r * (vz x * vz y))).
  { destruct x as [[x0 x1] x2], y as [[y0 y1] y2]. unfold vnorm2, vsub, vadd, rowmul, vzero, vx, vy, vz. cbn [fst snd]. ring. }
  rewrite E, (rowmul_norm r x Ho). ring.
Qed.

(* sum_k rot(q)[k] * M[k] = q^T K q with the K of the code *)
Lemma overlap_Rq : forall l lam a b c d, overlap (Rq a b c d) l = qKq (inp_of l lam) a b c d.
Proof. intros. unfold overlap, Rq, qKq, inp_of, Rf.mkin. cbn [r0 r1 r2 r3 r4 r5 r6 r7 r8]. gen_unfold. proj. ring. Qed.

(* residual_identity: for a unit quaternion q, sum |x_i.R(q) - y_i|^2 = Ga + Gb - 2 q^T K q *)
Lemma residual_identity_R : forall l lam a b c d, a * a + b * b + c * c + d * d = 1 ->
  resid (Rq a b c d) vzero l = Ga l + Gb l - 2 * qKq (inp_of l lam) a b c d.
Proof.
  intros. rewrite resid_expand by (apply Rq_orthogonal; assumption). rewrite (overlap_Rq l lam). reflexivity.
Qed.

Lemma resid_nonneg : forall r t l, 0 <= resid r t l.
Proof. intros. unfold resid. apply sumf_nonneg. intros p. apply vnorm2_nonneg. Qed.

(* eigen_upper_bound: no unit quaternion has a Rayleigh quotient above (Ga+Gb)/2 *)
Lemma eigen_upper_bound_R : forall l lam a b c d, a * a + b * b + c * c + d * d = 1 ->
  qKq (inp_of l lam) a b c d <= (Ga l + Gb l) / 2.
Proof.
  intros l lam a b c d H. pose proof (residual_identity_R l lam a b c d H) as E.
  pose proof (resid_nonneg (Rq a b c d) vzero l). lra.
Qed.

(* translations: for centred conformations any translation only adds N |t|^2 *)
Lemma resid_translate : forall r t l,
  resid r t l = resid r vzero l + natoms l * vnorm2 t
    + 2 * (vx t * (vx (rowmul (sumx l) r) - vx (sumy l)) + vy t * (vy (rowmul (sumx l) r) - vy (sumy l))
         + vz t * (vz (rowmul (sumx l) r) - vz (sumy l))).
Proof.
  intros r [[t0 t1] t2] l. unfold resid, natoms, sumx, sumy. induction l as [|[x y] t IH].
  - cbn. unfold vnorm2, rowmul, vx, vy, vz. cbn. ring.
  - cbn [sumf]. rewrite IH. change (length ((x, y) :: t)) with (S (length t)). rewrite S_INR.
    destruct x as [[x0 x1] x2], y as [[y0 y1] y2]. unfold vnorm2, vsub, vadd, rowmul, vzero, vx, vy, vz. cbn [fst snd]. ring.
Qed.
Lemma resid_centred : forall r t l, centred l -> resid r t l = resid r vzero l + natoms l * vnorm2 t.
Proof.
  intros r t l [Hx Hy]. rewrite resid_translate, Hx, Hy. unfold rowmul, vzero, vx, vy, vz. cbn [fst snd]. ring.
Qed.

(* optimal_given_top: if lam dominates the Rayleigh quotient of K, no rotation given by a unit
   quaternion, followed by any translation, brings the residual below Ga + Gb - 2 lam *)
Lemma optimal_given_top : forall l lam, centred l -> dominates (inp_of l lam) lam ->
  forall a b c d t, a * a + b * b + c * c + d * d = 1 -> Ga l + Gb l - 2 * lam <= resid (Rq a b c d) t l.
Proof.
  intros l lam Hc Hd a b c d t Hu. rewrite (resid_centred _ t l Hc), (residual_identity_R l lam a b c d Hu).
  specialize (Hd a b c d Hu). pose proof (vnorm2_nonneg t). pose proof (pos_INR (length l)). unfold natoms.
  assert (0 <= INR (length l) * vnorm2 t) by (apply Rmult_le_pos; assumption). lra.
Qed.

(* --- the code's rotation attains Ga + Gb - 2 lam at a root ---------------------------------------- *)
Lemma qKq_as_dot : forall i a b c d,
  qKq i a b c d =
    a * (Rf.at_detK_k00 i * a + Rf.at_detK_k01 i * b + Rf.at_detK_k02 i * c + Rf.at_detK_k03 i * d)
  + b * (Rf.at_detK_k01 i * a + Rf.at_detK_k11 i * b + Rf.at_detK_k12 i * c + Rf.at_detK_k13 i * d)
  + c * (Rf.at_detK_k02 i * a + Rf.at_detK_k12 i * b + Rf.at_detK_k22 i * c + Rf.at_detK_k23 i * d)
  + d * (Rf.at_detK_k03 i * a + Rf.at_detK_k13 i * b + Rf.at_detK_k23 i * c + Rf.at_detK_k33 i * d).
Proof. intros. unfold qKq. ring. Qed.
Lemma qKq_scale : forall i a b c d s, s <> 0 -> qKq i (a / s) (b / s) (c / s) (d / s) = qKq i a b c d / (s * s).
Proof. intros. unfold qKq. field. assumption. Qed.

Definition is_eigvec (i : Rf.inp) (lam : R) (q : R * R * R * R) : Prop :=
  let '(q0, q1, q2, q3) := q in
  Rf.at_detK_k00 i * q0 + Rf.at_detK_k01 i * q1 + Rf.at_detK_k02 i * q2 + Rf.at_detK_k03 i * q3 = lam * q0 /\
  Rf.at_detK_k01 i * q0 + Rf.at_detK_k11 i * q1 + Rf.at_detK_k12 i * q2 + Rf.at_detK_k13 i * q3 = lam * q1 /\
  Rf.at_detK_k02 i * q0 + Rf.at_detK_k12 i * q1 + Rf.at_detK_k22 i * q2 + Rf.at_detK_k23 i * q3 = lam * q2 /\
  Rf.at_detK_k03 i * q0 + Rf.at_detK_k13 i * q1 + Rf.at_detK_k23 i * q2 + Rf.at_detK_k33 i * q3 = lam * q3.

Lemma eigen_rotation_attains : forall l lam q, is_eigvec (inp_of l lam) lam q -> 0 < n4 q ->
  resid (Rq_unit q) vzero l = Ga l + Gb l - 2 * lam.
Proof.
  intros l lam [[[a b] c] d] (E0 & E1 & E2 & E3) P. unfold Rq_unit. destruct (sqrt_sq _ P) as [S1 S2].
  set (s := sqrt (n4 (a, b, c, d))) in *. unfold n4 in S1, P.
  assert (U : a / s * (a / s) + b / s * (b / s) + c / s * (c / s) + d / s * (d / s) = 1).
  { replace (a / s * (a / s) + b / s * (b / s) + c / s * (c / s) + d / s * (d / s)) with ((a * a + b * b + c * c + d * d) / (s * s)) by (field; exact S2).
    rewrite S1. field. lra. }
  rewrite (residual_identity_R l lam _ _ _ _ U), (qKq_scale _ a b c d s S2), qKq_as_dot, E0, E1, E2, E3, S1.
  field. lra.
Qed.

Lemma Kcol_is_eigvec : forall i lam j, charpoly i lam = 0 -> is_eigvec i lam (Kcol i lam j).
Proof. intros i lam j H. pose proof (Kcol_eigen i lam j H) as E. unfold is_eigvec. destruct (Kcol i lam j) as [[[a b] c] d]. exact E. Qed.

Lemma out_lambda_inp : forall l lam, Rf.out_lambda (inp_of l lam) = lam.
Proof. intros. unfold inp_of, Rf.mkin. gen_unfold. reflexivity. Qed.

(* adjugate_eigen for the generated code *)
Lemma adjugate_eigen_R : forall i, charpoly i (Rf.out_lambda i) = 0 -> is_eigvec i (Rf.out_lambda i) (gen_q i).
Proof. intros i H. destruct (gen_q_is_adjcol_R i) as [j E]. rewrite E. apply Kcol_is_eigvec. exact H. Qed.

Lemma code_attains : forall l lam, let i := inp_of l lam in
  charpoly i lam = 0 -> ~ Rf.fallback i -> resid (out_rot i) vzero l = Ga l + Gb l - 2 * lam.
Proof.
  intros l lam i Hroot Hnf. destruct (not_fallback_rot i Hnf) as [P E]. rewrite E.
  apply eigen_rotation_attains; [|exact P].
  pose proof (adjugate_eigen_R i) as A. unfold i in A at 1 2. rewrite out_lambda_inp in A. apply A. exact Hroot.
Qed.

(* the value returned by msdFromMandG *)
Lemma msd_value : forall l lam, 0 <= Ga l + Gb l - 2 * lam -> l <> [] ->
  msd_code l lam = (Ga l + Gb l - 2 * lam) / natoms l.
Proof.
  intros l lam Hn Hl. unfold msd_code, inp_of, Rf.mkin. gen_unfold. proj.
  assert (0 < natoms l) by (unfold natoms; destruct l; [congruence | apply lt_0_INR; cbn; lia]).
  assert (0 <= (Ga l + Gb l - 2 * lam) / natoms l) by (apply Rmult_le_pos; [lra | left; apply Rinv_0_lt_compat; assumption]).
  split_ifs; [reflexivity|].
  match goal with Hc : ~ _ |- _ => autounfold with rmsdgen_cond in Hc; autounfold with rmsdgen in Hc;
    cbn [Rf.G_x Rf.G_y Rf.numAtoms Rf.M0 Rf.M1 Rf.M2 Rf.M3 Rf.M4 Rf.M5 Rf.M6 Rf.M7 Rf.M8 Rf.h_lambda_1] in Hc end.
  lra.
Qed.

